import AquaVerif.Model.CapillaryRise
import AquaVerif.Proofs.GwCommon
/-
Lemmas about `capillaryRise` (`Model/CapillaryRise.lean`) at an arbitrary ordered field.

Laws of `F` used (structures in `Proofs/GwCommon.lean`):
* `GwRoundLaws F`  : `|F.round4 x − x| ≤ 1/20000`      (error bound of `CrTot`, upper bound of `th`);
* `GwRoundSign F`  : `0 < F.round4 x → 0 < x`           (monotonicity `th ≤ th'` of filled cells);
* `GwExpLaws F`    : `0 < F.exp x`                      (`MaxCR ≥ 0`, hence `CrTot ≥ 0`);
* `GwRound0Laws F` : `F.round0 0 = 0`                   (`far_table`).
The balance and frame lemmas use no law at all.
-/

set_option linter.unusedSectionVars false
set_option linter.unusedVariables false
namespace Aqua
variable {α : Type} [Field α] [LinearOrder α] [IsStrictOrderedRing α]

/-! ### one iteration -/

/-- the three outcomes of the storage part of an iteration, with `dth = round(fcAdj − th, 4)` and
`dthMax = Krel·Df·MaxCR/(1000·dz)`. -/
theorem crStore_cases (F : Fn α) (fshape zGW maxCR zBot : α) (x : Cell α) :
    crStore F fshape zGW maxCR zBot x = ⟨x.th, 0, 0, maxCR, 0⟩ ∨
    (0 < F.round4 (x.fcAdj - x.th) ∧
      crKrel x * crDf F fshape x * maxCR / (1000 * x.c.dz) ≤ F.round4 (x.fcAdj - x.th) ∧
      crStore F fshape zGW maxCR zBot x =
        ⟨x.th + crKrel x * crDf F fshape x * maxCR / (1000 * x.c.dz),
         crKrel x * crDf F fshape x * maxCR / (1000 * x.c.dz) * 1000 * x.c.dz,
         crKrel x * crDf F fshape x * maxCR / (1000 * x.c.dz) * 1000 * x.c.dz, 0, 1⟩) ∨
    (0 < F.round4 (x.fcAdj - x.th) ∧
      F.round4 (x.fcAdj - x.th) < crKrel x * crDf F fshape x * maxCR / (1000 * x.c.dz) ∧
      crStore F fshape zGW maxCR zBot x =
        ⟨x.fcAdj, F.round4 (x.fcAdj - x.th) * 1000 * x.c.dz, (x.fcAdj - x.th) * 1000 * x.c.dz,
         crKrel x * maxCR - F.round4 (x.fcAdj - x.th) * 1000 * x.c.dz, 2⟩) := by
  unfold crStore
  simp only []
  split_ifs with h1 h2
  · exact Or.inr (Or.inl ⟨h1.1, h2, rfl⟩)
  · exact Or.inr (Or.inr ⟨h1.1, not_le.mp h2, rfl⟩)
  · exact Or.inl rfl

theorem crKrel_nonneg (x : Cell α) : 0 ≤ crKrel x := by
  unfold crKrel
  simp only []
  split_ifs with h1 h2
  · exact le_refl _
  · rw [not_or, not_le, not_le] at h2
    exact div_nonneg (sub_pos.mpr h2.1).le (sub_pos.mpr h2.2).le
  · exact zero_le_one

theorem crDf_range (F : Fn α) (fshape : α) (x : Cell α) :
    0 ≤ crDf F fshape x ∧ crDf F fshape x ≤ 1 := by
  unfold crDf
  simp only []
  split_ifs with h1 h2 h3
  · exact ⟨zero_le_one, le_refl _⟩
  · exact ⟨le_refl _, zero_le_one⟩
  · exact ⟨not_lt.mp h3, not_lt.mp h2⟩
  · exact ⟨zero_le_one, le_refl _⟩

theorem crLimit_nonneg (F : Fn α) (hE : GwExpLaws F) (zGW z : α) (c : Comp α) :
    0 ≤ crLimit F zGW z c := by
  unfold crLimit
  simp only []
  split_ifs
  · norm_num
  · norm_num
  · exact (hE.exp_pos _).le
  · exact le_refl _

/-- water really added in one iteration -/
theorem crStep_added (F : Fn α) (fshape zGW : α) (x : Cell α) (next : Option (Cell α))
    (s : CRAcc α) :
    1000 * (crStore F fshape zGW s.maxCR s.zBot x).th * x.c.dz + s.added =
      1000 * x.th * x.c.dz +
        (crAdvance F zGW x next s (crStore F fshape zGW s.maxCR s.zBot x)).added := by
  rcases crStore_cases F fshape zGW s.maxCR s.zBot x with e | ⟨_, _, e⟩ | ⟨_, _, e⟩ <;>
    rw [e] <;> simp [crAdvance] <;> ring

/-- reported vs. real amount of one iteration -/
theorem crStep_err (F : Fn α) (hR : GwRoundLaws F) (fshape zGW : α) (x : Cell α)
    (next : Option (Cell α)) (s : CRAcc α) (hdz : 0 ≤ x.c.dz) :
    let s' := crAdvance F zGW x next s (crStore F fshape zGW s.maxCR s.zBot x)
    s.dzFill ≤ s'.dzFill ∧
    |(s'.wcr - s.wcr) - (s'.added - s.added)| ≤ (s'.dzFill - s.dzFill) * 1000 * (1 / 20000) := by
  rcases crStore_cases F fshape zGW s.maxCR s.zBot x with e | ⟨_, _, e⟩ | ⟨_, _, e⟩
  · rw [e]; simp [crAdvance]
  · rw [e]; simp [crAdvance]
  · rw [e]; simp only [crAdvance]
    refine ⟨by simp; exact hdz, ?_⟩
    simp only [OfNat.ofNat_ne_zero, if_false, if_true]
    have h := hR.round4_err (x.fcAdj - x.th)
    have e1 : s.wcr + F.round4 (x.fcAdj - x.th) * 1000 * x.c.dz - s.wcr -
        (s.added + (x.fcAdj - x.th) * 1000 * x.c.dz - s.added) =
        (F.round4 (x.fcAdj - x.th) - (x.fcAdj - x.th)) * (1000 * x.c.dz) := by ring
    have e2 : (s.dzFill + x.c.dz - s.dzFill) * 1000 * (1 / 20000) =
        (1 / 20000) * (1000 * x.c.dz) := by ring
    rw [e1, e2, abs_mul, abs_of_nonneg (by positivity : (0:α) ≤ 1000 * x.c.dz)]
    exact mul_le_mul_of_nonneg_right h (by positivity)

/-- relation between an input cell and the output cell (no hypothesis) -/
def CRRel (F : Fn α) (x y : Cell α) : Prop :=
  y.c = x.c ∧ y.fcAdj = x.fcAdj ∧ y.flux = x.flux ∧ y.aer = x.aer ∧
    (y.th = x.th ∨
     (0 < F.round4 (x.fcAdj - x.th) ∧
       (y.th = x.fcAdj ∨ ∃ d, d ≤ F.round4 (x.fcAdj - x.th) ∧ y.th = x.th + d)))

theorem CRRel.refl (F : Fn α) (x : Cell α) : CRRel F x x := ⟨rfl, rfl, rfl, rfl, Or.inl rfl⟩

theorem crStep_rel (F : Fn α) (fshape zGW maxCR zBot : α) (x : Cell α) :
    CRRel F x { x with th := (crStore F fshape zGW maxCR zBot x).th } := by
  refine ⟨rfl, rfl, rfl, rfl, ?_⟩
  rcases crStore_cases F fshape zGW maxCR zBot x with e | ⟨hd, hle, e⟩ | ⟨hd, _, e⟩
  · rw [e]; exact Or.inl rfl
  · rw [e]; exact Or.inr ⟨hd, Or.inr ⟨_, hle, rfl⟩⟩
  · rw [e]; exact Or.inr ⟨hd, Or.inl rfl⟩

/-- with `MaxCR ≥ 0` and `dz > 0`: `MaxCR` stays `≥ 0`, `WCr` does not decrease, and the water
content does not decrease in a capped step (`dthMax ≥ 0`). -/
theorem crStep_nonneg (F : Fn α) (hE : GwExpLaws F) (fshape zGW : α) (x : Cell α)
    (next : Option (Cell α)) (s : CRAcc α) (hdz : 0 < x.c.dz) (hm : 0 ≤ s.maxCR) :
    let r := crStore F fshape zGW s.maxCR s.zBot x
    let s' := crAdvance F zGW x next s r
    0 ≤ s'.maxCR ∧ s.wcr ≤ s'.wcr ∧ (r.kind = 1 → x.th ≤ r.th) := by
  have hk := crKrel_nonneg x
  have hdf := crDf_range F fshape x
  have hden : 0 < 1000 * x.c.dz := by positivity
  have hlim : ∀ (m : α), 0 ≤ m →
      0 ≤ (match next with
        | none => m
        | some y => if crLimit F zGW (s.zBot - x.c.dz - y.c.dz / 2) y.c < m then
            crLimit F zGW (s.zBot - x.c.dz - y.c.dz / 2) y.c else m) := by
    intro m hm0
    cases next with
    | none => exact hm0
    | some y =>
      simp only []
      split_ifs
      · exact crLimit_nonneg F hE _ _ _
      · exact hm0
  rcases crStore_cases F fshape zGW s.maxCR s.zBot x with e | ⟨hd, hle, e⟩ | ⟨hd, hlt, e⟩
  · simp only [e, crAdvance, if_true]
    exact ⟨hlim _ hm, le_refl _, by simp⟩
  · simp only [e, crAdvance]
    have hd0 : 0 ≤ crKrel x * crDf F fshape x * s.maxCR / (1000 * x.c.dz) :=
      div_nonneg (mul_nonneg (mul_nonneg hk hdf.1) hm) hden.le
    refine ⟨hlim _ (le_refl _), ?_, fun _ => by linarith⟩
    simp only [if_false, one_ne_zero]
    have : 0 ≤ crKrel x * crDf F fshape x * s.maxCR / (1000 * x.c.dz) * 1000 * x.c.dz := by
      positivity
    linarith
  · simp only [e, crAdvance]
    have h1 : F.round4 (x.fcAdj - x.th) * (1000 * x.c.dz) < crKrel x * crDf F fshape x * s.maxCR :=
      (lt_div_iff₀ hden).mp hlt
    have h2 : crKrel x * crDf F fshape x * s.maxCR ≤ crKrel x * s.maxCR := by
      have : 0 ≤ crKrel x * s.maxCR := mul_nonneg hk hm
      nlinarith [mul_nonneg this (sub_nonneg.mpr hdf.2)]
    refine ⟨hlim _ (by linarith), ?_, by simp⟩
    simp only [OfNat.ofNat_ne_zero, if_false]
    have : 0 ≤ F.round4 (x.fcAdj - x.th) * 1000 * x.c.dz := by positivity
    linarith

/-! ### the loop -/

theorem crLoop_storage (F : Fn α) (fshape zGW : α) (cells : List (Cell α)) (s : CRAcc α) :
    storage (crLoop F fshape zGW cells s).1 =
      storage cells + ((crLoop F fshape zGW cells s).2.added - s.added) := by
  induction cells generalizing s with
  | nil => simp [crLoop]
  | cons x xs ih =>
    rw [crLoop]
    split_ifs with hc
    · simp only [storage_cons, Cell.water]
      rw [ih]
      have := crStep_added F fshape zGW x xs.head? s
      linear_combination this
    · simp

theorem crLoop_err (F : Fn α) (hR : GwRoundLaws F) (fshape zGW : α) (cells : List (Cell α))
    (s : CRAcc α) (hdz : ∀ x ∈ cells, 0 ≤ x.c.dz) :
    s.dzFill ≤ (crLoop F fshape zGW cells s).2.dzFill ∧
    |((crLoop F fshape zGW cells s).2.wcr - s.wcr) - ((crLoop F fshape zGW cells s).2.added - s.added)|
      ≤ ((crLoop F fshape zGW cells s).2.dzFill - s.dzFill) * 1000 * (1 / 20000) := by
  induction cells generalizing s with
  | nil => simp [crLoop]
  | cons x xs ih =>
    rw [crLoop]
    split_ifs with hc
    · simp only []
      obtain ⟨a1, a2⟩ := crStep_err F hR fshape zGW x xs.head? s (hdz x (by simp))
      obtain ⟨b1, b2⟩ := ih (crAdvance F zGW x xs.head? s (crStore F fshape zGW s.maxCR s.zBot x))
        (fun y hy => hdz y (by simp [hy]))
      refine ⟨le_trans a1 b1, ?_⟩
      rw [abs_le] at a2 b2 ⊢
      constructor <;> linarith [a2.1, a2.2, b2.1, b2.2]
    · simp

theorem crLoop_rel (F : Fn α) (fshape zGW : α) (cells : List (Cell α)) (s : CRAcc α) :
    List.Forall₂ (CRRel F) cells (crLoop F fshape zGW cells s).1 := by
  induction cells generalizing s with
  | nil => simp [crLoop]
  | cons x xs ih =>
    rw [crLoop]
    split_ifs with hc
    · exact List.Forall₂.cons (crStep_rel F fshape zGW s.maxCR s.zBot x) (ih _)
    · exact List.forall₂_same.mpr (fun y _ => CRRel.refl F y)

/-- relation with sign information (needs `MaxCR ≥ 0`, `dz > 0`) -/
def CRRelPos (F : Fn α) (x y : Cell α) : Prop :=
  y.th = x.th ∨
   (0 < F.round4 (x.fcAdj - x.th) ∧
     (y.th = x.fcAdj ∨ ∃ d, 0 ≤ d ∧ d ≤ F.round4 (x.fcAdj - x.th) ∧ y.th = x.th + d))

theorem crLoop_nonneg (F : Fn α) (hE : GwExpLaws F) (fshape zGW : α) (cells : List (Cell α))
    (s : CRAcc α) (hdz : ∀ x ∈ cells, 0 < x.c.dz) (hm : 0 ≤ s.maxCR) :
    s.wcr ≤ (crLoop F fshape zGW cells s).2.wcr ∧
      List.Forall₂ (CRRelPos F) cells (crLoop F fshape zGW cells s).1 := by
  induction cells generalizing s with
  | nil => simp [crLoop]
  | cons x xs ih =>
    rw [crLoop]
    split_ifs with hc
    · simp only []
      obtain ⟨a1, a2, a3⟩ := crStep_nonneg F hE fshape zGW x xs.head? s (hdz x (by simp)) hm
      obtain ⟨b1, b2⟩ := ih (crAdvance F zGW x xs.head? s (crStore F fshape zGW s.maxCR s.zBot x))
        (fun y hy => hdz y (by simp [hy])) a1
      refine ⟨le_trans a2 b1, List.Forall₂.cons ?_ b2⟩
      rcases crStore_cases F fshape zGW s.maxCR s.zBot x with e | ⟨hd, hle, e⟩ | ⟨hd, _, e⟩
      · rw [e]; exact Or.inl rfl
      · have h3 := a3
        rw [e] at h3 ⊢
        have : 0 ≤ crKrel x * crDf F fshape x * s.maxCR / (1000 * x.c.dz) := by
          have := h3 rfl
          simp only at this
          linarith
        exact Or.inr ⟨hd, Or.inr ⟨_, this, hle, rfl⟩⟩
      · rw [e]; exact Or.inr ⟨hd, Or.inl rfl⟩
    · exact ⟨le_refl _, List.forall₂_same.mpr (fun y _ => Or.inl rfl)⟩

/-! ### the process -/

/-- shape of every successful call with a water table -/
theorem capillaryRise_table (F : Fn α) (cells : List (Cell α)) (nLayer : Nat) (fshape zGW : α)
    (r : CROut α) (h : capillaryRise F cells nLayer fshape zGW 1 = .ok r) :
    ∃ b above, cells.reverse = b :: above ∧ b.c.layer = nLayer ∧
      r = (let q := crLoop F fshape zGW (b :: above)
              { maxCR := crLimit F zGW b.c.zMid b.c, zBot := b.c.dzsum, wcr := 0, added := 0,
                dzFill := 0, nIter := 0, nCap := 0, nFill := 0 }
           { cells := q.1.reverse, crTot := q.2.wcr, crAdded := q.2.added, dzFill := q.2.dzFill,
             nIter := q.2.nIter, nCap := q.2.nCap, nFill := q.2.nFill }) := by
  unfold capillaryRise at h
  simp only [one_ne_zero, if_false, if_true] at h
  cases hrev : cells.reverse with
  | nil => rw [hrev] at h; simp at h
  | cons b above =>
    rw [hrev] at h
    simp only at h
    by_cases hl : b.c.layer ≠ nLayer
    · simp [hl] at h
    · simp only [hl, if_false] at h
      rw [not_not] at hl
      exact ⟨b, above, rfl, hl, (Except.ok.inj h).symm⟩

/-- **`no_table`** (capillary-rise part): `water_table_presence = 0 → CrTot = 0 ∧ cells unchanged`. -/
theorem capillaryRise_no_table (F : Fn α) (cells : List (Cell α)) (nLayer : Nat) (fshape zGW : α) :
    capillaryRise F cells nLayer fshape zGW 0 =
      .ok { cells := cells, crTot := 0, crAdded := 0, dzFill := 0, nIter := 0, nCap := 0,
            nFill := 0 } := by
  simp [capillaryRise]

/-- a successful call has `water_table_presence ∈ {0, 1}` -/
theorem capillaryRise_wt (F : Fn α) (cells : List (Cell α)) (nLayer : Nat) (fshape zGW : α)
    (wt : Nat) (r : CROut α) (h : capillaryRise F cells nLayer fshape zGW wt = .ok r) :
    wt = 0 ∨ wt = 1 := by
  by_contra hne
  rw [not_or] at hne
  simp [capillaryRise, hne.1, hne.2] at h

/-- **Water balance**: storage after = storage before + `crAdded` (the water really added). -/
theorem capillaryRise_balance (F : Fn α) (cells : List (Cell α)) (nLayer : Nat) (fshape zGW : α)
    (wt : Nat) (r : CROut α) (h : capillaryRise F cells nLayer fshape zGW wt = .ok r) :
    storage r.cells = storage cells + r.crAdded := by
  rcases capillaryRise_wt F cells nLayer fshape zGW wt r h with rfl | rfl
  · rw [capillaryRise_no_table] at h
    rw [← Except.ok.inj h]; simp
  · obtain ⟨b, above, hrev, -, rfl⟩ := capillaryRise_table F cells nLayer fshape zGW r h
    simp only [storage_reverse]
    rw [crLoop_storage, ← hrev, storage_reverse]
    ring

/-- **Reported vs. real rise**: `|CrTot − crAdded| ≤ dzFill · 1000 · (1/20000)` where `dzFill` is
the total thickness of the compartments that were filled to `th_fc_Adj`. -/
theorem capillaryRise_err (F : Fn α) (hR : GwRoundLaws F) (cells : List (Cell α)) (nLayer : Nat)
    (fshape zGW : α) (wt : Nat) (r : CROut α) (hdz : ∀ x ∈ cells, 0 ≤ x.c.dz)
    (h : capillaryRise F cells nLayer fshape zGW wt = .ok r) :
    0 ≤ r.dzFill ∧ |r.crTot - r.crAdded| ≤ r.dzFill * 1000 * (1 / 20000) := by
  rcases capillaryRise_wt F cells nLayer fshape zGW wt r h with rfl | rfl
  · rw [capillaryRise_no_table] at h
    rw [← Except.ok.inj h]; simp
  · obtain ⟨b, above, hrev, -, rfl⟩ := capillaryRise_table F cells nLayer fshape zGW r h
    have hdz' : ∀ x ∈ b :: above, 0 ≤ x.c.dz := by
      intro x hx; rw [← hrev] at hx; exact hdz x (List.mem_reverse.mp hx)
    have := crLoop_err F hR fshape zGW (b :: above)
      { maxCR := crLimit F zGW b.c.zMid b.c, zBot := b.c.dzsum, wcr := 0, added := 0,
        dzFill := 0, nIter := 0, nCap := 0, nFill := 0 } hdz'
    simpa using this

/-- **Frame**: parameters, `fcAdj`, `flux`, `aer` untouched; `th` unchanged, or set to `fcAdj`,
or raised by some `d ≤ round(fcAdj − th, 4)`. -/
theorem capillaryRise_frame (F : Fn α) (cells : List (Cell α)) (nLayer : Nat) (fshape zGW : α)
    (wt : Nat) (r : CROut α) (h : capillaryRise F cells nLayer fshape zGW wt = .ok r) :
    List.Forall₂ (CRRel F) cells r.cells := by
  rcases capillaryRise_wt F cells nLayer fshape zGW wt r h with rfl | rfl
  · rw [capillaryRise_no_table] at h
    rw [← Except.ok.inj h]
    exact List.forall₂_same.mpr (fun y _ => CRRel.refl F y)
  · obtain ⟨b, above, hrev, -, rfl⟩ := capillaryRise_table F cells nLayer fshape zGW r h
    simp only
    rw [← List.forall₂_reverse_iff, List.reverse_reverse, hrev]
    exact crLoop_rel F fshape zGW _ _

theorem capillaryRise_length (F : Fn α) (cells : List (Cell α)) (nLayer : Nat) (fshape zGW : α)
    (wt : Nat) (r : CROut α) (h : capillaryRise F cells nLayer fshape zGW wt = .ok r) :
    r.cells.length = cells.length :=
  (capillaryRise_frame F cells nLayer fshape zGW wt r h).length_eq.symm

/-- **Non-negativity** of `CrTot`, and the signed version of the `th` relation. -/
theorem capillaryRise_nonneg (F : Fn α) (hE : GwExpLaws F) (cells : List (Cell α)) (nLayer : Nat)
    (fshape zGW : α) (wt : Nat) (r : CROut α) (hdz : ∀ x ∈ cells, 0 < x.c.dz)
    (h : capillaryRise F cells nLayer fshape zGW wt = .ok r) :
    0 ≤ r.crTot ∧ List.Forall₂ (CRRelPos F) cells r.cells := by
  rcases capillaryRise_wt F cells nLayer fshape zGW wt r h with rfl | rfl
  · rw [capillaryRise_no_table] at h
    rw [← Except.ok.inj h]
    exact ⟨le_refl _, List.forall₂_same.mpr (fun y _ => Or.inl rfl)⟩
  · obtain ⟨b, above, hrev, -, rfl⟩ := capillaryRise_table F cells nLayer fshape zGW r h
    have hdz' : ∀ x ∈ b :: above, 0 < x.c.dz := by
      intro x hx; rw [← hrev] at hx; exact hdz x (List.mem_reverse.mp hx)
    obtain ⟨a1, a2⟩ := crLoop_nonneg F hE fshape zGW (b :: above)
      { maxCR := crLimit F zGW b.c.zMid b.c, zBot := b.c.dzsum, wcr := 0, added := 0,
        dzFill := 0, nIter := 0, nCap := 0, nFill := 0 } hdz' (crLimit_nonneg F hE _ _ _)
    refine ⟨a1, ?_⟩
    simp only
    rw [← List.forall₂_reverse_iff, List.reverse_reverse, hrev]
    exact a2

/-- **Bounds**: water content never decreases and ends at most `1/20000` above the adjusted field
capacity (or where it was): `th ≤ th' ≤ max th (fcAdj + 1/20000)`.
The slack is real: in the capped branch `th' = th + dthMax` with `dthMax ≤ round(fcAdj − th, 4)`,
and the rounded room can exceed the true room by up to `1/20000`. -/
theorem capillaryRise_bounds (F : Fn α) (hE : GwExpLaws F) (hR : GwRoundLaws F) (hS : GwRoundSign F)
    (cells : List (Cell α)) (nLayer : Nat) (fshape zGW : α) (wt : Nat) (r : CROut α)
    (hdz : ∀ x ∈ cells, 0 < x.c.dz)
    (h : capillaryRise F cells nLayer fshape zGW wt = .ok r) :
    ∀ y ∈ r.cells, ∃ x ∈ cells, y.c = x.c ∧ y.fcAdj = x.fcAdj ∧ x.th ≤ y.th ∧
      y.th ≤ max x.th (x.fcAdj + 1 / 20000) := by
  have hf := capillaryRise_frame F cells nLayer fshape zGW wt r h
  have hp := (capillaryRise_nonneg F hE cells nLayer fshape zGW wt r hdz h).2
  have hboth := gw_forall₂_and hf hp
  intro y hy
  obtain ⟨x, hx, ⟨hc, hfc, -, -, -⟩, hrel⟩ := gw_forall₂_mem_right hboth hy
  refine ⟨x, hx, hc, hfc, ?_⟩
  rcases hrel with e | ⟨hd, e | ⟨d, hd0, hdle, e⟩⟩
  · rw [e]; exact ⟨le_refl _, le_max_left _ _⟩
  · rw [e]
    have := hS.round4_pos _ hd
    exact ⟨by linarith, le_trans (by linarith [show (0:α) ≤ 1/20000 by norm_num]) (le_max_right _ _)⟩
  · rw [e]
    have := (abs_le.mp (hR.round4_err (x.fcAdj - x.th))).2
    exact ⟨by linarith, le_trans (by linarith) (le_max_right _ _)⟩

/-- with the cell invariant before: `thDry ≤ th' ≤ thS + 1/20000` afterwards (the invariant
`th ≤ thS` itself is *not* preserved — see the report). -/
theorem capillaryRise_inv_slack (F : Fn α) (hE : GwExpLaws F) (hR : GwRoundLaws F) (hS : GwRoundSign F)
    (cells : List (Cell α)) (nLayer : Nat) (fshape zGW : α) (wt : Nat) (r : CROut α)
    (hinv : ∀ x ∈ cells, x.Inv)
    (h : capillaryRise F cells nLayer fshape zGW wt = .ok r) :
    ∀ y ∈ r.cells, y.c.WF ∧ y.c.thDry ≤ y.th ∧ y.th ≤ y.c.thS + 1 / 20000 ∧
      y.c.thFC ≤ y.fcAdj ∧ y.fcAdj ≤ y.c.thS := by
  intro y hy
  obtain ⟨x, hx, hc, hfc, h1, h2⟩ := capillaryRise_bounds F hE hR hS cells nLayer fshape zGW wt r
    (fun x hx => (hinv x hx).wf.dz_pos) h y hy
  have ix := hinv x hx
  refine ⟨hc ▸ ix.wf, by rw [hc]; exact le_trans ix.th_lo h1, ?_, by rw [hc, hfc]; exact ix.fc_lo,
    by rw [hc, hfc]; exact ix.fc_hi⟩
  rw [hc]
  refine le_trans h2 (max_le ?_ ?_)
  · linarith [ix.th_hi, show (0:α) ≤ 1/20000 by norm_num]
  · linarith [ix.fc_hi]

/-- **`far_table`**: if the bottom compartment's mid-point is 4 m or more above the table, there
is no capillary rise and the profile is unchanged. -/
theorem capillaryRise_far_table (F : Fn α) (h0 : GwRound0Laws F) (front : List (Cell α))
    (last : Cell α) (fshape zGW : α) (hfar : 4 ≤ zGW - last.c.zMid) :
    capillaryRise F (front ++ [last]) last.c.layer fshape zGW 1 =
      .ok { cells := front ++ [last], crTot := 0, crAdded := 0, dzFill := 0, nIter := 0,
            nCap := 0, nFill := 0 } := by
  have hlim : crLimit F zGW last.c.zMid last.c = 0 := by
    unfold crLimit
    have : ¬ (0 < last.c.ksat ∧ 0 < zGW ∧ zGW - last.c.zMid < 4) := by
      intro h; exact absurd h.2.2 (not_lt.mpr hfar)
    simp only [this, if_false]
  unfold capillaryRise
  simp only [one_ne_zero, if_false, if_true, List.reverse_append, List.reverse_singleton,
    List.singleton_append, ne_eq, not_true_eq_false, hlim]
  rw [crLoop]
  have hc : ¬ (0 < F.round0 ((0:α) * 1000) ∧
      (F.round0 (last.flux * 1000) ≤ 0 ∧ 0 ≤ F.round0 (last.flux * 1000))) := by
    rw [zero_mul, h0.round0_zero]
    intro h; exact absurd h.1 (lt_irrefl _)
  simp only [hc, if_false]
  simp

/-! ### non-vacuity: the hypotheses of the main lemmas are satisfiable.
`F` with `exp = 1`, `round4 = id`, `round0 = id` satisfies all four law structures; a call on a
two-compartment profile with the table at 0.5 m succeeds. -/

def gwExF : Fn ℚ :=
  ⟨fun _ => 1, id, id, fun x y => if y = 2 then x * x else x, id, id, id, id, id⟩

example : GwExpLaws gwExF ∧ GwRoundLaws gwExF ∧ GwRoundSign gwExF ∧ GwRound0Laws gwExF :=
  ⟨⟨fun _ => by simp [gwExF]⟩, ⟨fun x => by simp [gwExF]⟩, ⟨fun x h => by simpa [gwExF] using h⟩,
   ⟨by simp [gwExF]⟩⟩

example : ∃ r, capillaryRise gwExF
    [⟨gwExComp (1/10) (1/20), 1/10, 3/10, 0, 0⟩, ⟨gwExComp (1/5) (3/20), 1/5, 3/10, 0, 0⟩]
    1 16 (1/2) 1 = .ok r := by
  simp [capillaryRise, gwExComp]

end Aqua

section
open Aqua
#print axioms capillaryRise_balance
#print axioms capillaryRise_err
#print axioms capillaryRise_frame
#print axioms capillaryRise_nonneg
#print axioms capillaryRise_bounds
#print axioms capillaryRise_inv_slack
#print axioms capillaryRise_no_table
#print axioms capillaryRise_far_table
end
