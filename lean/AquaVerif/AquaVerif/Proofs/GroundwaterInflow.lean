import AquaVerif.Model.GroundwaterInflow
import AquaVerif.Proofs.GwCommon
/-
Lemmas about `groundwaterInflow` (`Model/GroundwaterInflow.lean`) at an arbitrary ordered field.
No law of `F` is involved (the process uses only field operations and comparisons).
-/

set_option linter.unusedSectionVars false
set_option linter.unusedVariables false
namespace Aqua
variable {α : Type} [Field α] [LinearOrder α] [IsStrictOrderedRing α]

/-- relation between an input cell and the corresponding output cell -/
def GwRel (x y : Cell α) : Prop :=
  y.c = x.c ∧ y.fcAdj = x.fcAdj ∧ y.flux = x.flux ∧ y.aer = x.aer ∧ x.th ≤ y.th ∧
    (y.th = x.th ∨ (x.th < x.c.thS ∧ y.th = x.c.thS))

theorem GwRel.refl (x : Cell α) : GwRel x x := ⟨rfl, rfl, rfl, rfl, le_refl _, Or.inl rfl⟩

/-! ### the fill loop -/

theorem gwFill_storage (cells : List (Cell α)) (g : α) :
    storage (gwFill cells g).1 = storage cells + ((gwFill cells g).2 - g) := by
  induction cells generalizing g with
  | nil => simp [gwFill]
  | cons x xs ih =>
    by_cases h : x.th < x.c.thS
    · simp only [gwFill, h, if_true, storage_cons, Cell.water]
      rw [ih]; ring
    · simp only [gwFill, h, if_false, storage_cons]
      rw [ih]; ring

theorem gwFill_acc_le (cells : List (Cell α)) (g : α) (hdz : ∀ x ∈ cells, 0 ≤ x.c.dz) :
    g ≤ (gwFill cells g).2 := by
  induction cells generalizing g with
  | nil => simp [gwFill]
  | cons x xs ih =>
    have hx := hdz x (by simp)
    have hxs : ∀ y ∈ xs, 0 ≤ y.c.dz := fun y hy => hdz y (by simp [hy])
    by_cases h : x.th < x.c.thS
    · simp only [gwFill, h, if_true]
      have : 0 ≤ (x.c.thS - x.th) * 1000 * x.c.dz := by
        have := sub_pos.mpr h; positivity
      exact le_trans (by linarith) (ih _ hxs)
    · simp only [gwFill, h, if_false]
      exact ih _ hxs

theorem gwFill_rel (cells : List (Cell α)) (g : α) :
    List.Forall₂ GwRel cells (gwFill cells g).1 := by
  induction cells generalizing g with
  | nil => simp [gwFill]
  | cons x xs ih =>
    by_cases h : x.th < x.c.thS
    · simp only [gwFill, h, if_true]
      exact List.Forall₂.cons ⟨rfl, rfl, rfl, rfl, le_of_lt h, Or.inr ⟨h, rfl⟩⟩ (ih _)
    · simp only [gwFill, h, if_false]
      exact List.Forall₂.cons (GwRel.refl x) (ih _)

/-- after the fill no compartment is below saturation -/
theorem gwFill_sat (cells : List (Cell α)) (g : α) :
    ∀ y ∈ (gwFill cells g).1, y.c.thS ≤ y.th := by
  induction cells generalizing g with
  | nil => simp [gwFill]
  | cons x xs ih =>
    by_cases h : x.th < x.c.thS
    · simp only [gwFill, h, if_true]
      intro y hy
      rcases List.mem_cons.mp hy with rfl | hy'
      · exact le_refl _
      · exact ih _ y hy'
    · simp only [gwFill, h, if_false]
      intro y hy
      rcases List.mem_cons.mp hy with rfl | hy'
      · exact not_lt.mp h
      · exact ih _ y hy'

/-! ### seek + fill -/

theorem gwSeek_storage (zGW : α) (cells : List (Cell α)) (r : List (Cell α) × α)
    (h : gwSeek zGW cells = some r) : storage r.1 = storage cells + r.2 := by
  induction cells generalizing r with
  | nil => simp [gwSeek] at h
  | cons x xs ih =>
    by_cases hz : zGW ≤ x.c.zMid
    · simp only [gwSeek, hz, if_true] at h
      rw [← Option.some.inj h, gwFill_storage]; ring
    · simp only [gwSeek, hz, if_false] at h
      cases hs : gwSeek zGW xs with
      | none => rw [hs] at h; simp at h
      | some r' =>
        rw [hs] at h
        rw [← Option.some.inj h]
        simp only [storage_cons]
        rw [ih r' hs]; ring

theorem gwSeek_nonneg (zGW : α) (cells : List (Cell α)) (r : List (Cell α) × α)
    (hdz : ∀ x ∈ cells, 0 ≤ x.c.dz) (h : gwSeek zGW cells = some r) : 0 ≤ r.2 := by
  induction cells generalizing r with
  | nil => simp [gwSeek] at h
  | cons x xs ih =>
    by_cases hz : zGW ≤ x.c.zMid
    · simp only [gwSeek, hz, if_true] at h
      rw [← Option.some.inj h]
      exact gwFill_acc_le _ 0 hdz
    · simp only [gwSeek, hz, if_false] at h
      cases hs : gwSeek zGW xs with
      | none => rw [hs] at h; simp at h
      | some r' =>
        rw [hs] at h
        rw [← Option.some.inj h]
        exact ih r' (fun y hy => hdz y (by simp [hy])) hs

theorem gwSeek_rel (zGW : α) (cells : List (Cell α)) (r : List (Cell α) × α)
    (h : gwSeek zGW cells = some r) : List.Forall₂ GwRel cells r.1 := by
  induction cells generalizing r with
  | nil => simp [gwSeek] at h
  | cons x xs ih =>
    by_cases hz : zGW ≤ x.c.zMid
    · simp only [gwSeek, hz, if_true] at h
      rw [← Option.some.inj h]
      exact gwFill_rel _ 0
    · simp only [gwSeek, hz, if_false] at h
      cases hs : gwSeek zGW xs with
      | none => rw [hs] at h; simp at h
      | some r' =>
        rw [hs] at h
        rw [← Option.some.inj h]
        exact List.Forall₂.cons (GwRel.refl x) (ih r' hs)

/-- every compartment whose mid-point is at or below the table ends at or above saturation -/
theorem gwSeek_sat (zGW : α) (cells : List (Cell α)) (r : List (Cell α) × α)
    (h : gwSeek zGW cells = some r) : ∀ y ∈ r.1, zGW ≤ y.c.zMid → y.c.thS ≤ y.th := by
  induction cells generalizing r with
  | nil => simp [gwSeek] at h
  | cons x xs ih =>
    by_cases hz : zGW ≤ x.c.zMid
    · simp only [gwSeek, hz, if_true] at h
      rw [← Option.some.inj h]
      intro y hy _
      exact gwFill_sat _ 0 y hy
    · simp only [gwSeek, hz, if_false] at h
      cases hs : gwSeek zGW xs with
      | none => rw [hs] at h; simp at h
      | some r' =>
        rw [hs] at h
        rw [← Option.some.inj h]
        intro y hy hzy
        rcases List.mem_cons.mp hy with rfl | hy'
        · exact absurd hzy hz
        · exact ih r' hs y hy' hzy

/-- the `IndexError`: exactly when no mid-point is at or below the table -/
theorem gwSeek_none_iff (zGW : α) (cells : List (Cell α)) :
    gwSeek zGW cells = none ↔ ∀ x ∈ cells, x.c.zMid < zGW := by
  induction cells with
  | nil => simp [gwSeek]
  | cons x xs ih =>
    by_cases hz : zGW ≤ x.c.zMid
    · simp only [gwSeek, hz, if_true]
      constructor
      · intro h; simp at h
      · intro h; exact absurd (h x (by simp)) (not_lt.mpr hz)
    · simp only [gwSeek, hz, if_false]
      cases hs : gwSeek zGW xs with
      | none =>
        simp only [true_iff]
        intro y hy
        rcases List.mem_cons.mp hy with rfl | hy'
        · exact not_le.mp hz
        · exact (ih.mp hs) y hy'
      | some r' =>
        simp only [reduceCtorEq, false_iff]
        intro hall
        have := ih.mpr (fun y hy => hall y (by simp [hy]))
        rw [hs] at this; simp at this

/-! ### the process -/

/-- **Water balance**: storage after = storage before + `GwIn`. -/
theorem groundwaterInflow_balance (cells : List (Cell α)) (wt : Bool) (zGW : α)
    (r : List (Cell α) × α) (h : groundwaterInflow cells wt zGW = some r) :
    storage r.1 = storage cells + r.2 := by
  unfold groundwaterInflow at h
  cases wt with
  | true => simp only [if_true] at h; exact gwSeek_storage zGW cells r h
  | false =>
    simp only [Bool.false_eq_true, if_false] at h
    rw [← Option.some.inj h]; simp

/-- **Frame + monotonicity**: parameters, `fcAdj`, `flux`, `aer` untouched; water content never
decreases; a changed compartment was below saturation and is now exactly saturated. -/
theorem groundwaterInflow_frame (cells : List (Cell α)) (wt : Bool) (zGW : α)
    (r : List (Cell α) × α) (h : groundwaterInflow cells wt zGW = some r) :
    List.Forall₂ GwRel cells r.1 := by
  unfold groundwaterInflow at h
  cases wt with
  | true => simp only [if_true] at h; exact gwSeek_rel zGW cells r h
  | false =>
    simp only [Bool.false_eq_true, if_false] at h
    rw [← Option.some.inj h]
    exact List.forall₂_same.mpr (fun x _ => GwRel.refl x)

theorem groundwaterInflow_length (cells : List (Cell α)) (wt : Bool) (zGW : α)
    (r : List (Cell α) × α) (h : groundwaterInflow cells wt zGW = some r) :
    r.1.length = cells.length :=
  (groundwaterInflow_frame cells wt zGW r h).length_eq.symm

/-- **Non-negativity** of the inflow (compartment thicknesses `≥ 0`). -/
theorem groundwaterInflow_nonneg (cells : List (Cell α)) (wt : Bool) (zGW : α)
    (r : List (Cell α) × α) (hdz : ∀ x ∈ cells, 0 ≤ x.c.dz)
    (h : groundwaterInflow cells wt zGW = some r) : 0 ≤ r.2 := by
  unfold groundwaterInflow at h
  cases wt with
  | true => simp only [if_true] at h; exact gwSeek_nonneg zGW cells r hdz h
  | false =>
    simp only [Bool.false_eq_true, if_false] at h
    rw [← Option.some.inj h]

/-- **Bounds**: the cell invariant is preserved (water content is only ever set to `thS`). -/
theorem groundwaterInflow_inv (cells : List (Cell α)) (wt : Bool) (zGW : α)
    (r : List (Cell α) × α) (hinv : ∀ x ∈ cells, x.Inv)
    (h : groundwaterInflow cells wt zGW = some r) : ∀ y ∈ r.1, y.Inv := by
  have hf := groundwaterInflow_frame cells wt zGW r h
  intro y hy
  obtain ⟨x, hx, hc, hfc, -, -, hle, hth⟩ := gw_forall₂_mem_right hf hy
  have ix := hinv x hx
  refine ⟨hc ▸ ix.wf, by rw [hc]; exact le_trans ix.th_lo hle, ?_,
    by rw [hc, hfc]; exact ix.fc_lo, by rw [hc, hfc]; exact ix.fc_hi⟩
  rcases hth with e | ⟨_, e⟩
  · rw [hc, e]; exact ix.th_hi
  · rw [hc, e]

/-- **`gwInflow_saturates`**: with the water table in the profile, every compartment whose
mid-point is at or below the table is exactly saturated afterwards (given `th ≤ thS` before). -/
theorem gwInflow_saturates (cells : List (Cell α)) (zGW : α) (r : List (Cell α) × α)
    (hle : ∀ x ∈ cells, x.th ≤ x.c.thS) (h : groundwaterInflow cells true zGW = some r) :
    ∀ y ∈ r.1, zGW ≤ y.c.zMid → y.th = y.c.thS := by
  have hf := groundwaterInflow_frame cells true zGW r h
  simp only [groundwaterInflow, if_true] at h
  intro y hy hz
  have hge := gwSeek_sat zGW cells r h y hy hz
  obtain ⟨x, hx, hc, -, -, -, -, hth⟩ := gw_forall₂_mem_right hf hy
  apply le_antisymm _ hge
  rcases hth with e | ⟨_, e⟩
  · rw [hc, e]; exact hle x hx
  · rw [hc, e]

/-- in fact *every* compartment from the first such one downwards is saturated, whatever its own
mid-point (the loop is `range(idx, n)`): stated as "once started, `gwFill` saturates all". -/
theorem gwInflow_saturates_below (x : Cell α) (xs : List (Cell α)) (zGW : α)
    (hz : zGW ≤ x.c.zMid) :
    groundwaterInflow (x :: xs) true zGW = some (gwFill (x :: xs) 0) ∧
      ∀ y ∈ (gwFill (x :: xs) 0).1, y.c.thS ≤ y.th := by
  refine ⟨by simp [groundwaterInflow, gwSeek, hz], gwFill_sat _ 0⟩

/-- **`no_table`** (inflow part): `wt_in_soil = False → GwIn = 0 ∧ cells unchanged`. -/
theorem groundwaterInflow_no_table (cells : List (Cell α)) (zGW : α) :
    groundwaterInflow cells false zGW = some (cells, 0) := by
  simp [groundwaterInflow]

/-- the Python `IndexError`: `wt_in_soil` is set but no mid-point is at or below `z_gw`. -/
theorem groundwaterInflow_error_iff (cells : List (Cell α)) (wt : Bool) (zGW : α) :
    groundwaterInflow cells wt zGW = none ↔ wt = true ∧ ∀ x ∈ cells, x.c.zMid < zGW := by
  cases wt with
  | true => simp [groundwaterInflow, gwSeek_none_iff]
  | false => simp [groundwaterInflow]

/-! ### non-vacuity -/

example :
    (groundwaterInflow [⟨gwExComp (1/10) (1/20), 1/10, 3/10, 0, 0⟩, ⟨gwExComp (1/5) (3/20), 1/5, 3/10, 0, 0⟩]
      true (1/10)).map (·.2) = some 30 := by
  simp only [groundwaterInflow, gwSeek, gwFill]
  norm_num [gwExComp, gwFill]

end Aqua

section
open Aqua
#print axioms groundwaterInflow_balance
#print axioms groundwaterInflow_frame
#print axioms groundwaterInflow_nonneg
#print axioms groundwaterInflow_inv
#print axioms gwInflow_saturates
#print axioms groundwaterInflow_no_table
#print axioms groundwaterInflow_error_iff
end
