import AquaVerif.Model.Irrigation
import AquaVerif.Proofs.Basic
/-
Property C13 — "irrigation strategies honour their contracts" — for the model of
`aquacrop/solution/irrigation.py`, and the schedule re-indexing of
`read_irrigation_management` (method 3).

All statements are about *successful* calls (`irrigation … = .ok out`) at an arbitrary linearly
ordered field.  No law about `F` (exp/log/round) is needed.
-/

set_option linter.unusedSectionVars false
namespace Aqua
variable {α : Type} [Field α] [LinearOrder α] [IsStrictOrderedRing α]

/-! ### the seasonal cap -/

theorem irrCap_eq (m c x : α) : irrCap m c x = if m < c + x then max 0 (m - c) else x := by
  unfold irrCap; rw [pmax_eq]

theorem irrCap_nonneg (m c x : α) (hx : 0 ≤ x) : 0 ≤ irrCap m c x := by
  rw [irrCap_eq]; split_ifs
  · exact le_max_left _ _
  · exact hx

theorem irrCap_le (m c x : α) (hx : 0 ≤ x) : irrCap m c x ≤ x := by
  rw [irrCap_eq]; split_ifs with h
  · exact max_le hx (by linarith)
  · exact le_refl _

theorem irrCap_zero (m c : α) : irrCap m c 0 = 0 := by
  rw [irrCap_eq]; split_ifs with h
  · exact max_eq_left (by linarith)
  · rfl

/-- the cap keeps the seasonal total below the seasonal maximum -/
theorem irrCap_total_le (m c x : α) (hc : c ≤ m) : c + irrCap m c x ≤ m := by
  rw [irrCap_eq]; split_ifs with h
  · rw [max_eq_right (by linarith)]; linarith
  · exact not_lt.mp h

/-- when the cap binds and the total was below the maximum, the total lands exactly on it -/
theorem irrCap_total_eq (m c x : α) (hc : c ≤ m) (h : m < c + x) : c + irrCap m c x = m := by
  rw [irrCap_eq, if_pos h, max_eq_right (by linarith)]; ring

/-! ### the method chain -/

/-- in every method the demand before `max(0, ·)` is at most `MaxIrr` (for `0 ≤ MaxIrr`) -/
theorem irrDemand_le_max (P : IrrParams α) (stage : Nat) (dep taw : α) (dap : Nat)
    (sched : Option α) (irr0 : α) (f : Nat) (hm : 0 ≤ P.maxIrr)
    (h : irrDemand P stage dep taw dap sched = .ok (irr0, f)) : irr0 ≤ P.maxIrr := by
  unfold irrDemand at h
  split_ifs at h
  all_goals first
    | (cases h; done)
    | (simp only [Except.ok.injEq, Prod.mk.injEq] at h; obtain ⟨rfl, _⟩ := h
       first | exact hm | (unfold irrGross; rw [pmin_eq]; exact min_le_left _ _)
             | (rw [pmin_eq]; exact min_le_left _ _))
    | (split at h
       · cases h
       · split_ifs at h
         all_goals first
           | (cases h; done)
           | (simp only [Except.ok.injEq, Prod.mk.injEq] at h; obtain ⟨rfl, _⟩ := h
              first | exact hm | (unfold irrGross; rw [pmin_eq]; exact min_le_left _ _)
                    | (rw [pmin_eq]; exact min_le_left _ _)))

theorem irrDemand_rainfed (P : IrrParams α) (stage : Nat) (dep taw : α) (dap : Nat)
    (sched : Option α) (hm : P.method = 0) :
    irrDemand P stage dep taw dap sched = .ok (0, 0) := by
  unfold irrDemand; rw [if_pos hm]

theorem irrDemand_net (P : IrrParams α) (stage : Nat) (dep taw : α) (dap : Nat)
    (sched : Option α) (hm : P.method = 4) :
    irrDemand P stage dep taw dap sched = .ok (0, 0) := by
  unfold irrDemand; simp [hm]

theorem irrDemand_smt (P : IrrParams α) (stage : Nat) (dep taw : α) (dap : Nat)
    (sched : Option α) (hm : P.method = 1) :
    irrDemand P stage dep taw dap sched =
      match smtIndex stage with
      | none => .error .index
      | some i =>
        if 1 - P.smt i / 100 < dep / taw then .ok (irrGross P dep, 1) else .ok (0, 0) := by
  unfold irrDemand; simp [hm]; cases smtIndex stage <;> rfl

theorem irrDemand_interval (P : IrrParams α) (stage : Nat) (dep taw : α) (dap : Nat)
    (sched : Option α) (hm : P.method = 2) :
    irrDemand P stage dep taw dap sched =
      if P.interval = 0 then .error .zerodiv
      else if ((dap : Int) - 1) % (P.interval : Int) = 0 then .ok (irrGross P dep, 1)
      else .ok (0, 0) := by
  unfold irrDemand; simp [hm]

theorem irrDemand_schedule (P : IrrParams α) (stage : Nat) (dep taw : α) (dap : Nat)
    (sched : Option α) (hm : P.method = 3) :
    irrDemand P stage dep taw dap sched =
      match sched with
      | none => .error .index
      | some s => if 0 ≤ s then .ok (pmin P.maxIrr s, 1) else .error .assert := by
  unfold irrDemand; simp [hm]; cases sched <;> rfl

theorem irrDemand_constant (P : IrrParams α) (stage : Nat) (dep taw : α) (dap : Nat)
    (sched : Option α) (hm : P.method = 5) :
    irrDemand P stage dep taw dap sched = .ok (pmin P.maxIrr P.depth, 1) := by
  unfold irrDemand; simp [hm]

/-! ### decomposition of a successful call -/

/-- off season: everything is zero, whatever the parameters (also for a negative `MaxIrrSeason`) -/
theorem irrigation_offseason (F : Fn α) (P : IrrParams α) (cells : List (Cell α)) (st : Nat)
    (irrCum ePot tPot zRoot : α) (dap : Nat) (sched : Option α) (zMin aer zTop rain runoff : α) :
    ∃ out, irrigation F P cells st irrCum ePot tPot zRoot dap sched zMin aer zTop false rain runoff
        = .ok out ∧ out.irr = 0 ∧ out.irrCum = 0 ∧ out.depletion = 0 ∧ out.taw = 0 := by
  refine ⟨_, by unfold irrigation; simp only [Bool.false_eq_true, if_false]; rfl, ?_, ?_, rfl, rfl⟩
  · simp only [irrFinish, irrCap_zero]
  · simp only [irrFinish, irrCap_zero, add_zero]

/-- in season: the call is `root_zone_water`, then the method chain on
`(Depletion, TAW)`, then `max(0, ·)`, the cap and the counter update. -/
theorem irrigation_spec {F : Fn α} {P : IrrParams α} {cells : List (Cell α)} {st : Nat}
    {irrCum ePot tPot zRoot : α} {dap : Nat} {sched : Option α} {zMin aer zTop rain runoff : α}
    {out : IrrOut α}
    (h : irrigation F P cells st irrCum ePot tPot zRoot dap sched zMin aer zTop true rain runoff
        = .ok out) :
    ∃ rz irr0 fired, rootZoneWater F cells zRoot zTop zMin aer = some rz ∧
      out.depletion = irrDepletion rz ePot tPot zRoot zMin rain runoff ∧ out.taw = rz.tawRz ∧
      irrDemand P (if dap = 1 then 1 else st) out.depletion out.taw dap sched = .ok (irr0, fired) ∧
      out.irr = irrCap P.maxSeason irrCum (pmax 0 irr0) ∧ out.irrCum = irrCum + out.irr := by
  unfold irrigation at h
  simp only [if_true] at h
  split at h
  · cases h
  · rename_i rz hrz
    split at h
    · cases h
    · rename_i irr0 fired hd
      simp only [Except.ok.injEq] at h
      subst h
      exact ⟨rz, irr0, fired, hrz, rfl, rfl, hd, rfl, rfl⟩

/-! ### C13: contracts of a successful call -/

section contracts
variable {F : Fn α} {P : IrrParams α} {cells : List (Cell α)} {st : Nat}
  {irrCum ePot tPot zRoot : α} {dap : Nat} {sched : Option α} {zMin aer zTop rain runoff : α}
  {gs : Bool} {out : IrrOut α}

private theorem pmax0_nonneg' (x : α) : 0 ≤ pmax 0 x := by rw [pmax_eq]; exact le_max_left _ _
private theorem pmax0_zero : pmax (0 : α) 0 = 0 := by rw [pmax_eq]; exact max_self _

/-- **1a.** the applied depth is never negative — no premise on the parameters. -/
theorem irr_nonneg
    (h : irrigation F P cells st irrCum ePot tPot zRoot dap sched zMin aer zTop gs rain runoff
      = .ok out) : 0 ≤ out.irr := by
  cases gs
  · obtain ⟨o, ho, h1, -⟩ := irrigation_offseason F P cells st irrCum ePot tPot zRoot dap sched
      zMin aer zTop rain runoff
    rw [ho] at h; cases h; exact h1.ge
  · obtain ⟨rz, irr0, fired, -, -, -, -, hi, -⟩ := irrigation_spec h
    rw [hi]; exact irrCap_nonneg _ _ _ (pmax0_nonneg' _)

/-- **1b.** off season: no irrigation, and the seasonal counter (and depletion, TAW) reset. -/
theorem irr_offseason
    (h : irrigation F P cells st irrCum ePot tPot zRoot dap sched zMin aer zTop false rain runoff
      = .ok out) : out.irr = 0 ∧ out.irrCum = 0 ∧ out.depletion = 0 ∧ out.taw = 0 := by
  obtain ⟨o, ho, h1⟩ := irrigation_offseason F P cells st irrCum ePot tPot zRoot dap sched
    zMin aer zTop rain runoff
  rw [ho] at h; cases h; exact h1

private theorem irr_zero_of_demand_zero
    (h : irrigation F P cells st irrCum ePot tPot zRoot dap sched zMin aer zTop gs rain runoff
      = .ok out)
    (hd : ∀ stage dep taw, irrDemand P stage dep taw dap sched = .ok (0, 0)) : out.irr = 0 := by
  cases gs
  · exact (irr_offseason h).1
  · obtain ⟨rz, irr0, fired, -, -, -, hd', hi, -⟩ := irrigation_spec h
    rw [hd] at hd'
    simp only [Except.ok.injEq, Prod.mk.injEq] at hd'
    rw [hi, ← hd'.1, pmax0_zero, irrCap_zero]

/-- **1c.** rainfed (method 0): never any irrigation. -/
theorem irr_rainfed
    (h : irrigation F P cells st irrCum ePot tPot zRoot dap sched zMin aer zTop gs rain runoff
      = .ok out) (hm : P.method = 0) : out.irr = 0 :=
  irr_zero_of_demand_zero h (fun stage dep taw => irrDemand_rainfed P stage dep taw dap sched hm)

/-- **1d.** net irrigation (method 4): nothing is applied by this process (the net
requirement is computed after transpiration). -/
theorem irr_net
    (h : irrigation F P cells st irrCum ePot tPot zRoot dap sched zMin aer zTop gs rain runoff
      = .ok out) (hm : P.method = 4) : out.irr = 0 :=
  irr_zero_of_demand_zero h (fun stage dep taw => irrDemand_net P stage dep taw dap sched hm)

/-- **2a.** one event never exceeds `MaxIrr` (all methods, in and off season), if `0 ≤ MaxIrr`. -/
theorem irr_le_max
    (h : irrigation F P cells st irrCum ePot tPot zRoot dap sched zMin aer zTop gs rain runoff
      = .ok out) (hmax : 0 ≤ P.maxIrr) : out.irr ≤ P.maxIrr := by
  cases gs
  · rw [(irr_offseason h).1]; exact hmax
  · obtain ⟨rz, irr0, fired, -, -, -, hd, hi, -⟩ := irrigation_spec h
    have h0 := irrDemand_le_max P _ _ _ _ _ _ _ hmax hd
    rw [hi]
    refine le_trans (irrCap_le _ _ _ (pmax0_nonneg' _)) ?_
    rw [pmax_eq]; exact max_le hmax h0

/-- **2b.** in season the counter advances by exactly the applied depth. -/
theorem irr_cum_step
    (h : irrigation F P cells st irrCum ePot tPot zRoot dap sched zMin aer zTop true rain runoff
      = .ok out) : out.irrCum = irrCum + out.irr := by
  obtain ⟨rz, irr0, fired, -, -, -, -, -, hc⟩ := irrigation_spec h
  exact hc

/-- in season the counter never decreases -/
theorem irr_cum_mono
    (h : irrigation F P cells st irrCum ePot tPot zRoot dap sched zMin aer zTop true rain runoff
      = .ok out) : irrCum ≤ out.irrCum := by
  rw [irr_cum_step h]; linarith [irr_nonneg h]

/-- **2c.** invariant of the seasonal total: once below `MaxIrrSeason`, always below. -/
theorem irr_season_cap
    (h : irrigation F P cells st irrCum ePot tPot zRoot dap sched zMin aer zTop gs rain runoff
      = .ok out) (hs : 0 ≤ P.maxSeason) (hc : irrCum ≤ P.maxSeason) :
    out.irrCum ≤ P.maxSeason := by
  cases gs
  · rw [(irr_offseason h).2.1]; exact hs
  · obtain ⟨rz, irr0, fired, -, -, -, -, hi, hcum⟩ := irrigation_spec h
    rw [hcum, hi]; exact irrCap_total_le _ _ _ hc

/-- a total that is already above the seasonal maximum stops all irrigation -/
theorem irr_zero_of_cum_above
    (h : irrigation F P cells st irrCum ePot tPot zRoot dap sched zMin aer zTop true rain runoff
      = .ok out) (hc : P.maxSeason ≤ irrCum) : out.irr = 0 := by
  obtain ⟨rz, irr0, fired, -, -, -, -, hi, -⟩ := irrigation_spec h
  rw [hi, irrCap_eq]
  have := pmax0_nonneg' irr0
  split_ifs with hlt
  · exact max_eq_left (by linarith)
  · have : pmax 0 irr0 ≤ 0 := by linarith [not_lt.mp hlt]
    exact le_antisymm this (pmax0_nonneg' _)

/-- **3a.** fixed interval (method 2): water is applied only on days `1, 1+k, 1+2k, …` of the
season (`(DAP − 1) mod IrrInterval = 0`, integer arithmetic as in Python). -/
theorem irr_interval
    (h : irrigation F P cells st irrCum ePot tPot zRoot dap sched zMin aer zTop gs rain runoff
      = .ok out) (hm : P.method = 2) (hpos : 0 < out.irr) :
    gs = true ∧ P.interval ≠ 0 ∧ ((dap : Int) - 1) % (P.interval : Int) = 0 := by
  cases gs
  · rw [(irr_offseason h).1] at hpos; exact absurd hpos (lt_irrefl _)
  · obtain ⟨rz, irr0, fired, -, -, -, hd, hi, -⟩ := irrigation_spec h
    rw [irrDemand_interval _ _ _ _ _ _ hm] at hd
    split_ifs at hd with h0 h1
    · exact ⟨rfl, h0, h1⟩
    · simp only [Except.ok.injEq, Prod.mk.injEq] at hd
      rw [hi, ← hd.1, pmax0_zero, irrCap_zero] at hpos
      exact absurd hpos (lt_irrefl _)

/-- the same with natural-number arithmetic, for `DAP ≥ 1` (always the case in a season) -/
theorem irr_interval_nat
    (h : irrigation F P cells st irrCum ePot tPot zRoot dap sched zMin aer zTop gs rain runoff
      = .ok out) (hm : P.method = 2) (hpos : 0 < out.irr) (hdap : 1 ≤ dap) :
    (dap - 1) % P.interval = 0 := by
  obtain ⟨-, -, h1⟩ := irr_interval h hm hpos
  have e : ((dap : Int) - 1) = ((dap - 1 : Nat) : Int) := by omega
  rw [e] at h1
  exact_mod_cast h1

/-- **3b.** … and on those days the amount is the gross requirement, limited by `MaxIrr`
and by the seasonal cap. -/
theorem irr_interval_amount
    (h : irrigation F P cells st irrCum ePot tPot zRoot dap sched zMin aer zTop true rain runoff
      = .ok out) (hm : P.method = 2) (hday : ((dap : Int) - 1) % (P.interval : Int) = 0) :
    out.irr = irrCap P.maxSeason irrCum
      (pmax 0 (pmin P.maxIrr (pmax 0 out.depletion * ((100 - P.appEff + 100) / 100)))) := by
  obtain ⟨rz, irr0, fired, -, -, -, hd, hi, -⟩ := irrigation_spec h
  rw [irrDemand_interval _ _ _ _ _ _ hm] at hd
  split_ifs at hd with h0
  simp only [Except.ok.injEq, Prod.mk.injEq] at hd
  rw [hi, ← hd.1]; rfl

/-- the outer `max(0, ·)` is redundant for sane parameters -/
theorem pmax0_irrGross (P : IrrParams α) (d : α) (hmax : 0 ≤ P.maxIrr) (he : P.appEff ≤ 200) :
    pmax 0 (irrGross P d) = irrGross P d := by
  rw [pmax_eq]; apply max_eq_right
  unfold irrGross; rw [pmin_eq, pmax_eq]
  apply le_min hmax
  apply mul_nonneg (le_max_left _ _)
  apply div_nonneg _ (by norm_num)
  linarith

/-- 3b without the redundant clamp: `cap (min MaxIrr (max 0 Depletion · EffAdj))` -/
theorem irr_interval_amount'
    (h : irrigation F P cells st irrCum ePot tPot zRoot dap sched zMin aer zTop true rain runoff
      = .ok out) (hm : P.method = 2) (hday : ((dap : Int) - 1) % (P.interval : Int) = 0)
    (hmax : 0 ≤ P.maxIrr) (he : P.appEff ≤ 200) :
    out.irr = irrCap P.maxSeason irrCum
      (pmin P.maxIrr (pmax 0 out.depletion * ((100 - P.appEff + 100) / 100))) := by
  rw [irr_interval_amount h hm hday]
  exact congrArg _ (pmax0_irrGross P out.depletion hmax he)

/-- **4a.** pre-defined schedule (method 3): exactly the scheduled depth of the day, limited by
`MaxIrr` and the seasonal cap; a successful call implies that the day is inside the schedule
array and that the scheduled depth is not negative. -/
theorem irr_schedule_exact
    (h : irrigation F P cells st irrCum ePot tPot zRoot dap sched zMin aer zTop true rain runoff
      = .ok out) (hm : P.method = 3) :
    ∃ s, sched = some s ∧ 0 ≤ s ∧
      out.irr = irrCap P.maxSeason irrCum (pmax 0 (pmin P.maxIrr s)) := by
  obtain ⟨rz, irr0, fired, -, -, -, hd, hi, -⟩ := irrigation_spec h
  rw [irrDemand_schedule _ _ _ _ _ _ hm] at hd
  cases sched with
  | none => cases hd
  | some s =>
    simp only at hd
    split_ifs at hd with h0
    simp only [Except.ok.injEq, Prod.mk.injEq] at hd
    exact ⟨s, rfl, h0, by rw [hi, ← hd.1]⟩

/-- **4b.** nothing off schedule: a day whose scheduled depth is 0 gets no water. -/
theorem irr_schedule_zero
    (h : irrigation F P cells st irrCum ePot tPot zRoot dap sched zMin aer zTop gs rain runoff
      = .ok out) (hm : P.method = 3) (hs : sched = some 0) : out.irr = 0 := by
  cases gs
  · exact (irr_offseason h).1
  · obtain ⟨s, hs', -, hi⟩ := irr_schedule_exact h hm
    rw [hs] at hs'; cases hs'
    rw [hi, pmin_eq, pmax_eq, max_eq_left (min_le_right _ _), irrCap_zero]

/-- **5.** constant depth (method 5): `Depth` every day of the season, limited by `MaxIrr`
and the seasonal cap. -/
theorem irr_constant
    (h : irrigation F P cells st irrCum ePot tPot zRoot dap sched zMin aer zTop true rain runoff
      = .ok out) (hm : P.method = 5) :
    out.irr = irrCap P.maxSeason irrCum (pmax 0 (pmin P.maxIrr P.depth)) := by
  obtain ⟨rz, irr0, fired, -, -, -, hd, hi, -⟩ := irrigation_spec h
  rw [irrDemand_constant _ _ _ _ _ _ hm] at hd
  simp only [Except.ok.injEq, Prod.mk.injEq] at hd
  rw [hi, ← hd.1]

/-- positivity of the gross requirement (needs `AppEff < 200`, i.e. a positive `EffAdj`) -/
theorem irrGross_pos_iff (P : IrrParams α) (d : α) (he : P.appEff < 200) :
    0 < pmax 0 (irrGross P d) ↔ 0 < d ∧ 0 < P.maxIrr := by
  have hE : (0 : α) < (100 - P.appEff + 100) / 100 := by
    apply div_pos _ (by norm_num); linarith
  unfold irrGross
  rw [pmax_eq, pmin_eq, pmax_eq, lt_max_iff, lt_min_iff, mul_pos_iff_of_pos_right hE, lt_max_iff]
  simp only [lt_irrefl, false_or]
  exact and_comm

/-- **6.** soil-moisture threshold (method 1): the stage index is valid, the amount before the
cap is the gross requirement when the relative depletion exceeds `1 − SMT[stage]/100`, else 0;
(with `AppEff < 200`) it is positive iff the threshold is exceeded, the root zone is depleted
and `MaxIrr > 0`. -/
theorem irr_smt
    (h : irrigation F P cells st irrCum ePot tPot zRoot dap sched zMin aer zTop true rain runoff
      = .ok out) (hm : P.method = 1) :
    ∃ i pre, smtIndex (if dap = 1 then 1 else st) = some i ∧
      pre = (if 1 - P.smt i / 100 < out.depletion / out.taw
              then pmax 0 (irrGross P out.depletion) else 0) ∧
      out.irr = irrCap P.maxSeason irrCum pre ∧
      (P.appEff < 200 →
        (0 < pre ↔ (1 - P.smt i / 100 < out.depletion / out.taw ∧ 0 < out.depletion ∧
          0 < P.maxIrr))) := by
  obtain ⟨rz, irr0, fired, -, -, -, hd, hi, -⟩ := irrigation_spec h
  rw [irrDemand_smt _ _ _ _ _ _ hm] at hd
  cases hidx : smtIndex (if dap = 1 then 1 else st) with
  | none => rw [hidx] at hd; cases hd
  | some i =>
    rw [hidx] at hd
    simp only at hd
    refine ⟨i, _, rfl, rfl, ?_, ?_⟩
    · split_ifs at hd with ht <;> simp only [Except.ok.injEq, Prod.mk.injEq] at hd
      · rw [hi, ← hd.1, if_pos ht]
      · rw [hi, ← hd.1, if_neg ht, pmax0_zero]
    · intro he
      by_cases ht : 1 - P.smt i / 100 < out.depletion / out.taw
      · rw [if_pos ht, irrGross_pos_iff P _ he]; exact ⟨fun hx => ⟨ht, hx⟩, fun hx => hx.2⟩
      · rw [if_neg ht]; exact ⟨fun hx => absurd hx (lt_irrefl _), fun hx => absurd hx.1 ht⟩

/-- growth stages 1…4 (what `growth_stage` produces in season) always index `SMT` validly;
stage 0 silently wraps to the *last* threshold (Python negative index). -/
theorem smtIndex_valid (s : Nat) (h1 : 1 ≤ s) (h4 : s ≤ 4) :
    smtIndex s = some ⟨s - 1, by omega⟩ := by
  match s, h1, h4 with
  | 1, _, _ => rfl
  | 2, _, _ => rfl
  | 3, _, _ => rfl
  | 4, _, _ => rfl

theorem smtIndex_zero_wraps : smtIndex 0 = some 3 := rfl

end contracts

/-! ### schedule re-indexing -/

section schedule
variable {β : Type} [OfNat β 0]

theorem dayMem_iff (d : Int) (s : List (Int × β)) : dayMem d s = true ↔ d ∈ s.map Prod.fst := by
  induction s with
  | nil => simp [dayMem]
  | cons x xs ih =>
    obtain ⟨k, v⟩ := x
    by_cases hk : k = d
    · simp [dayMem, hk]
    · simp only [dayMem, hk, if_false, ih, List.map_cons, List.mem_cons]
      constructor
      · exact fun hx => Or.inr hx
      · rintro (hx | hx)
        · exact absurd hx.symm hk
        · exact hx

/-- the model's uniqueness test is `List.Nodup` of the dates -/
theorem daysUnique_iff (s : List (Int × β)) : daysUnique s = true ↔ (s.map Prod.fst).Nodup := by
  induction s with
  | nil => simp [daysUnique]
  | cons x xs ih =>
    obtain ⟨k, v⟩ := x
    by_cases hk : dayMem k xs = true
    · have := (dayMem_iff k xs).mp hk
      simp [daysUnique, hk, this]
    · have hn : k ∉ xs.map Prod.fst := fun hx => hk ((dayMem_iff k xs).mpr hx)
      have hk' : dayMem k xs = false := by simpa using hk
      simp only [daysUnique, hk', Bool.false_eq_true, if_false, ih, List.map_cons,
        List.nodup_cons]
      exact ⟨fun hx => ⟨hn, hx⟩, fun hx => hx.2⟩

theorem depthOn_of_mem (d : Int) (v : β) (s : List (Int × β)) (hu : daysUnique s = true)
    (hm : (d, v) ∈ s) : depthOn d s = v := by
  induction s with
  | nil => cases hm
  | cons x xs ih =>
    obtain ⟨k, w⟩ := x
    by_cases hk : dayMem k xs = true
    · simp [daysUnique, hk] at hu
    · have hk' : dayMem k xs = false := by simpa using hk
      simp only [daysUnique, hk', Bool.false_eq_true, if_false] at hu
      rcases List.mem_cons.mp hm with hx | hx
      · cases hx; simp [depthOn]
      · have hne : k ≠ d := by
          intro e; subst e
          exact hk ((dayMem_iff _ _).mpr (List.mem_map.mpr ⟨(k, v), hx, rfl⟩))
        simp only [depthOn, hne, if_false]
        exact ih hu hx

theorem depthOn_of_not_mem (d : Int) (s : List (Int × β)) (hn : ∀ v, (d, v) ∉ s) :
    depthOn d s = 0 := by
  induction s with
  | nil => rfl
  | cons x xs ih =>
    obtain ⟨k, w⟩ := x
    have hne : k ≠ d := by
      intro e; subst e; exact hn w (List.mem_cons_self ..)
    simp only [depthOn, hne, if_false]
    exact ih (fun v hv => hn v (List.mem_cons_of_mem _ hv))

/-- the re-indexing succeeds exactly when the dates are unique (pandas raises otherwise) -/
theorem scheduleReindex_isSome_iff (s : List (Int × β)) (start : Int) (n : Nat) :
    (scheduleReindex s start n).isSome = true ↔ (s.map Prod.fst).Nodup := by
  rw [← daysUnique_iff]; unfold scheduleReindex
  cases daysUnique s <;> simp

/-- **4c.** `nothing_off_schedule`: the schedule array has one entry per simulation day; the
entry of a scheduled day inside the window is exactly its scheduled depth, every other entry
is 0 — and dates outside the window are dropped silently. -/
theorem nothing_off_schedule (s : List (Int × β)) (start : Int) (n : Nat) (arr : List β)
    (h : scheduleReindex s start n = some arr) :
    arr.length = n ∧
    ∀ i, (hi : i < n) → ∀ (hlen : i < arr.length),
      (∀ v, (start + (i : Int), v) ∈ s → arr[i] = v) ∧
      ((∀ v, (start + (i : Int), v) ∉ s) → arr[i] = 0) := by
  unfold scheduleReindex at h
  split_ifs at h with hu
  simp only [Option.some.injEq] at h
  subst h
  refine ⟨by simp, fun i hi hlen => ?_⟩
  simp only [List.getElem_map, List.getElem_range]
  exact ⟨fun v hv => depthOn_of_mem _ _ _ hu hv, fun hn => depthOn_of_not_mem _ _ hn⟩

/-- the total scheduled inside the window… is what the array holds: every array entry is either 0
or one of the scheduled depths -/
theorem schedule_entry_cases (s : List (Int × β)) (start : Int) (n : Nat) (arr : List β)
    (h : scheduleReindex s start n = some arr) (i : Nat) (hlen : i < arr.length) :
    arr[i] = 0 ∨ (start + (i : Int), arr[i]) ∈ s := by
  obtain ⟨hl, hall⟩ := nothing_off_schedule s start n arr h
  obtain ⟨h1, h2⟩ := hall i (hl ▸ hlen) hlen
  by_cases hex : ∃ v, (start + (i : Int), v) ∈ s
  · obtain ⟨v, hv⟩ := hex
    right; rw [h1 v hv]; exact hv
  · left; exact h2 (fun v hv => hex ⟨v, hv⟩)

end schedule

end Aqua
