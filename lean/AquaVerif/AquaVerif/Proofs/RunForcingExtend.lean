import AquaVerif.Proofs.RunForcingPrefix
/-
Work package V, part 3 — **extending the end date** (second half of property C14).

`ClockExtends c c'`: `c'` is the clock configuration of the same simulation with a later end
date: `n ≤ n'`, the planting and latest-harvest lists of `c'` extend those of `c`, and every
*new* planting index lies at or after the old last day (`n − 1 ≤ p`; the old configuration holds
exactly the planting dates `p ≤ n − 2`).  `ExtendEnd cfg cfg'` adds: same static part, same forcing
on the days `t < n − 1` the old run reads, same crops for the old seasons.

* `performR_extend`: a step of the old run that does not finish it is the same step of the new
  run; the step that finishes the old run writes the same day record in the new run;
* `extend_iter`, **`run_extend_end`**: the day records of the old run are the first records of the
  new run (same `k` or more steps), hence the three daily tables and the summary table of the old
  run are prefixes of those of the new run — all days up to and including the old last day
  `n − 2`, and all summary rows the old run wrote;
* `run_extend_end_unfinished`: while the old run is unfinished the two runs are in the same state.

What changes is only the *final state* of the old run (`finished`, and the clock standing still).
-/

set_option linter.unusedSectionVars false
set_option linter.unusedVariables false
namespace Aqua
open Aqua.Clock
variable {α : Type} [Field α] [LinearOrder α] [IsStrictOrderedRing α]

/-! ## 1. the clock -/

/-- the same simulation with a later end date -/
structure ClockExtends (c c' : Cfg) : Prop where
  n : c.n ≤ c'.n
  planting : ∃ xs, c'.planting = c.planting ++ xs ∧ ∀ p ∈ xs, c.n ≤ p + 1
  harvest : ∃ ys, c'.harvest = c.harvest ++ ys
  offSeason : c'.offSeason = c.offSeason
  season0 : c'.season0 = c.season0

theorem pyGet_append {β : Type} {l : List β} {i : Int} {x : β} (m : List β) (h0 : 0 ≤ i)
    (h : pyGet l i = .ok x) : pyGet (l ++ m) i = .ok x := by
  unfold pyGet at h ⊢
  have e : ¬ i < 0 := by omega
  simp only [if_neg e] at h ⊢
  split at h
  · rename_i y hy
    cases h
    have hlt : i.toNat < l.length := by
      rcases List.getElem?_eq_some_iff.mp hy with ⟨hlt, _⟩
      exact hlt
    rw [List.getElem?_append_left hlt, hy]
  · cases h

theorem pyGet_append_right {β : Type} {l m : List β} {i : Int} {x : β} (h0 : (l.length : Int) ≤ i)
    (h : pyGet (l ++ m) i = .ok x) : x ∈ m := by
  unfold pyGet at h
  have e : ¬ i < 0 := by omega
  simp only [if_neg e] at h
  split at h
  · rename_i y hy
    cases h
    have hge : l.length ≤ i.toNat := by omega
    rw [List.getElem?_append_right hge] at hy
    exact List.mem_of_getElem? hy
  · cases h

section clock
variable {c c' : Cfg}

theorem seasonInfo_extend (hx : ClockExtends c c') {season : Int} {ph : Option (Nat × Int)}
    (h : seasonInfo c season = .ok ph) : seasonInfo c' season = .ok ph := by
  obtain ⟨xs, hxs, _⟩ := hx.planting
  obtain ⟨ys, hys⟩ := hx.harvest
  unfold seasonInfo at h ⊢
  by_cases h0 : season ≥ 0
  · rw [if_pos h0] at h ⊢
    simp only [bind, Except.bind] at h ⊢
    split at h
    · cases h
    · rename_i p hp
      split at h
      · cases h
      · rename_i hh hhv
        rw [hxs, hys, pyGet_append xs h0 hp]
        simp only
        rw [pyGet_append ys h0 hhv]
        exact h
  · rw [if_neg h0] at h ⊢
    exact h

/-- `check_model_is_finished` that leaves the old run unfinished leaves the new run unfinished -/
theorem checkFinished_extend (hx : ClockExtends c c') {x : St}
    (hshi : x.season < c.nSeasons) (hf : (checkFinished c x).finished = false) :
    checkFinished c' x = checkFinished c x := by
  obtain ⟨xs, hxs, _⟩ := hx.planting
  have hn := hx.n
  have hlen : c'.nSeasons = c.nSeasons + (xs.length : Int) := by
    unfold Cfg.nSeasons; rw [hxs]; simp
  unfold checkFinished at hf ⊢
  simp only at hf ⊢
  by_cases h1 : (x.t : Int) + 1 < (c.n : Int) - 1
  · have h1' : (x.t : Int) + 1 < (c'.n : Int) - 1 := by omega
    rw [if_pos h1] at hf ⊢
    rw [if_pos h1']
    by_cases h2 : (x.harvestFlag && decide (x.season = c.nSeasons - 1)) = true
    · rw [if_pos h2] at hf; cases hf
    · rw [if_neg h2]
      have h2' : ¬ (x.harvestFlag && decide (x.season = c'.nSeasons - 1)) = true := by
        intro h
        apply h2
        simp only [Bool.and_eq_true, decide_eq_true_eq] at h ⊢
        refine ⟨h.1, ?_⟩
        have := h.2
        omega
      rw [if_neg h2']
  · rw [if_neg h1] at hf
    split_ifs at hf

/-- **`update_time` of the old run is `update_time` of the new run** on an unfinished state whose
day is before the old last day -/
theorem updateTime_extend (hx : ClockExtends c c') {x w : St} (hf : x.finished = false)
    (hslo : -1 ≤ x.season) (hshi : x.season < c.nSeasons)
    (hnl : ¬ (x.harvestFlag = true ∧ x.season = c.nSeasons - 1))
    (h : updateTime c x = .ok w) : updateTime c' x = .ok w := by
  obtain ⟨xs, hxs, hxp⟩ := hx.planting
  have hn := hx.n
  have hlen : c'.nSeasons = c.nSeasons + (xs.length : Int) := by
    unfold Cfg.nSeasons; rw [hxs]; simp
  have hns : c.nSeasons = (c.planting.length : Int) := rfl
  unfold updateTime at h ⊢
  have hf' : ¬ x.finished = true := by rw [hf]; simp
  rw [if_neg hf'] at h ⊢
  rw [hx.offSeason]
  by_cases hj : (x.harvestFlag && !c.offSeason) = true
  · rw [if_pos hj] at h ⊢
    have hflag : x.harvestFlag = true := by
      simp only [Bool.and_eq_true] at hj; exact hj.1
    have hlt : x.season < c.nSeasons - 1 := by
      have : x.season ≠ c.nSeasons - 1 := fun e => hnl ⟨hflag, e⟩
      omega
    have hlt' : x.season < c'.nSeasons - 1 := by omega
    rw [if_pos hlt] at h
    rw [if_pos hlt']
    simp only [bind, Except.bind] at h ⊢
    split at h
    · cases h
    · rename_i p hp
      rw [hxs, pyGet_append xs (by omega) hp]
      simp only
      split_ifs at h with h1 h2
      have h1' : ¬ p ≥ c'.n := by omega
      have h2' : ¬ p + 1 ≥ c'.n := by omega
      rw [if_neg h1', if_neg h2']
      exact h
  · rw [if_neg hj] at h ⊢
    simp only at h ⊢
    split_ifs at h with h1 h2 hn1
    · -- a next season exists in the old configuration
      have h1' : ¬ x.t + 1 ≥ c'.n := by omega
      have h2' : ¬ x.t + 1 + 1 ≥ c'.n := by omega
      have hn1' : x.season < c'.nSeasons - 1 := by omega
      rw [if_neg h1', if_neg h2', if_pos hn1']
      simp only [bind, Except.bind] at h ⊢
      split at h
      · cases h
      · rename_i p hp
        rw [hxs, pyGet_append xs (by omega) hp]
        exact h
    · -- the last old season: a new season may follow, planted at or after the old last day
      have h1' : ¬ x.t + 1 ≥ c'.n := by omega
      have h2' : ¬ x.t + 1 + 1 ≥ c'.n := by omega
      rw [if_neg h1', if_neg h2']
      by_cases hn1' : x.season < c'.nSeasons - 1
      · rw [if_pos hn1']
        simp only [bind, Except.bind]
        split
        · rename_i e he
          -- the look-up cannot fail: the index is within the new list
          exfalso
          unfold pyGet at he
          have e0 : ¬ x.season + 1 < 0 := by omega
          simp only [if_neg e0] at he
          split at he
          · cases he
          · rename_i hnone
            have : (x.season + 1).toNat < c'.planting.length := by
              have : c'.nSeasons = (c'.planting.length : Int) := rfl
              omega
            rw [List.getElem?_eq_getElem this] at hnone
            cases hnone
        · rename_i p hp
          rw [hxs] at hp
          have hmem : p ∈ xs := pyGet_append_right (by omega) hp
          have := hxp p hmem
          have hne : ¬ x.t + 1 = p := by omega
          rw [if_neg hne]
          exact h
      · rw [if_neg hn1']
        exact h

end clock

/-! ## 2. the run -/

/-- **`cfg'` is `cfg` with a later end date** -/
structure ExtendEnd (cfg cfg' : RunCfg α) : Prop where
  static : StaticEq cfg cfg'
  clock : ClockExtends cfg.clock cfg'.clock
  /-- the forcing of the days the old run reads -/
  day : ∀ t, t + 2 ≤ cfg.clock.n → DayEq cfg cfg' t
  /-- the crops of the old seasons -/
  crop : ∀ k, k < cfg.clock.planting.length → cfg'.seasonCrop k = cfg.seasonCrop k

section run
variable {F : Fn α} {T : TrigFn α} {cfg cfg' : RunCfg α}

theorem updateTimeR_of_updateTime {u : RunState α} {w : St}
    (h : updateTime cfg.clock u.clockOf = .ok w) :
    updateTimeR cfg u = .ok (if w.season = u.season then { u with t := w.t }
      else { u with t := w.t, season := w.season,
                    day := resetState cfg (cfg.seasonCrop w.season.toNat) u.day }) := by
  unfold updateTimeR
  rw [h]
  simp only
  split_ifs <;> rfl

theorem runInit_extend (hX : ExtendEnd cfg cfg') {s0 : RunState α} (h0 : runInit cfg = .ok s0) :
    runInit cfg' = .ok s0 := by
  obtain ⟨xs, hxs, _⟩ := hX.clock.planting
  unfold runInit at h0 ⊢
  split at h0
  · cases h0
  · rename_i c0 hc0
    cases h0
    unfold Clock.init at hc0 ⊢
    split_ifs at hc0 with h1 h2
    cases hc0
    have h1' : ¬ cfg'.clock.n < 2 := by have := hX.clock.n; omega
    have h2' : ¬ cfg'.clock.planting.isEmpty = true := by
      rw [hxs]
      intro h
      apply h2
      cases hp : cfg.clock.planting with
      | nil => rfl
      | cons a l => rw [hp] at h; simp at h
    rw [if_neg h1', if_neg h2', hX.clock.season0, hX.static.init]

/-- **one step under the two configurations** -/
theorem performR_extend (hX : ExtendEnd cfg cfg') (hw : WF cfg.clock) (hi : InitOK cfg)
    {s a : RunState α} (hr : RunReach F T cfg s) (hp : performR F T cfg s = .ok a) :
    (a.finished = false → performR F T cfg' s = .ok a) ∧
      (∀ a', performR F T cfg' s = .ok a' → a'.daysRev = a.daysRev) := by
  obtain ⟨hf, _⟩ := performR_info hp
  have hL := reach_live hw hi hr hf
  have hshi : s.season < cfg.clock.nSeasons := hL.shi
  have hslo : -1 ≤ s.season := hL.slo
  have hc : CropEq cfg cfg' s.season := by
    intro h0
    apply hX.crop
    have : cfg.clock.nSeasons = (cfg.clock.planting.length : Int) := rfl
    omega
  have hd := hX.day _ (run_tn hr)
  rw [performR_eq_solStep] at hp
  -- the solution step is the same
  have hsol : solStep F T cfg' s = solStep F T cfg s := by
    apply solStep_agree hX.static hd hc
    cases hsi : seasonInfo cfg.clock s.season with
    | ok ph => exact seasonInfo_extend hX.clock hsi
    | error e =>
      exfalso
      unfold solStep at hp
      have hf' : ¬ s.finished = true := by rw [hf]; simp
      rw [if_neg hf', hsi] at hp
      cases hp
  cases h1 : solStep F T cfg s with
  | error e => rw [h1] at hp; cases hp
  | ok s1 =>
    rw [h1] at hp
    simp only at hp
    obtain ⟨_, hs1t, hs1s, hs1f, _⟩ := solStep_ok h1
    obtain ⟨w, hw1, hcl, hdays, hfin, _⟩ := updateTimeR_ok hp
    constructor
    · intro hfa
      have hu : (checkFinishedR cfg s1).finished = false := by rw [← hfin]; exact hfa
      have hu' : (checkFinished cfg.clock s1.clockOf).finished = false := hu
      have hshi1 : s1.clockOf.season < cfg.clock.nSeasons := by
        show s1.season < _; rw [hs1s]; exact hshi
      have hck : checkFinishedR cfg' s1 = checkFinishedR cfg s1 := by
        unfold checkFinishedR
        rw [checkFinished_extend hX.clock hshi1 hu']
      rw [performR_eq_solStep, hsol, h1]
      simp only
      rw [hck]
      -- the clock arithmetic
      have hnl : ¬ ((checkFinishedR cfg s1).clockOf.harvestFlag = true ∧
          (checkFinishedR cfg s1).clockOf.season = cfg.clock.nSeasons - 1) := by
        intro hh
        have : (checkFinished cfg.clock s1.clockOf).finished = true := by
          unfold checkFinished
          simp only
          have e1 : s1.clockOf.harvestFlag = true := hh.1
          have e2 : s1.clockOf.season = cfg.clock.nSeasons - 1 := hh.2
          simp [e1, e2]
        rw [this] at hu'
        cases hu'
      have hw1' := updateTime_extend hX.clock (x := (checkFinishedR cfg s1).clockOf) hu
        (by show -1 ≤ s1.season; rw [hs1s]; exact hslo) hshi1 hnl hw1
      rw [updateTimeR_of_updateTime hw1', updateTimeR_of_updateTime hw1] at *
      cases hp
      congr 1
      by_cases hse : w.season = (checkFinishedR cfg s1).season
      · rw [if_pos hse, if_pos hse]
      · rw [if_neg hse, if_neg hse, resetState_agree hX.static]
        -- the season that starts is an old one
        have hLa := reach_live hw hi (RunReach.step hr (by
          rw [performR_eq_solStep, h1]; simp only; exact updateTimeR_of_updateTime hw1))
          (by rw [if_neg hse]; exact hu)
        have hshia : w.season < cfg.clock.nSeasons := by
          have := hLa.shi
          rw [if_neg hse] at this
          exact this
        have hslo' : -1 ≤ w.season := by
          have := hLa.slo
          rw [if_neg hse] at this
          exact this
        have hw0 : 0 ≤ w.season := by
          rcases updateTime_cases hw1 with ⟨e, _⟩ | ⟨_, e, _⟩
          · exact absurd e hse
          · have e' : w.season = s1.season + 1 := e
            rw [e', hs1s]; omega
        rw [hX.crop _ (by
          have : cfg.clock.nSeasons = (cfg.clock.planting.length : Int) := rfl
          omega)]
    · intro a' ha'
      rw [performR_eq_solStep, hsol, h1] at ha'
      simp only at ha'
      obtain ⟨_, _, _, hdays', _⟩ := updateTimeR_ok ha'
      rw [hdays', hdays]
      rfl

/-- further steps only add records -/
theorem iter_days_suffix : ∀ (m : Nat) {a b : RunState α}, iterR F T cfg m a = .ok b →
    ∃ new, b.daysRev = new ++ a.daysRev := by
  intro m
  induction m with
  | zero => intro a b h; cases h; exact ⟨[], rfl⟩
  | succ m ih =>
    intro a b h
    simp only [iterR] at h
    split at h
    · cases h
    · rename_i x hx
      obtain ⟨new, hnew⟩ := ih hx
      obtain ⟨_, d, hd, _⟩ := performR_info h
      exact ⟨d :: new, by rw [hd, hnew]; rfl⟩

/-- **`j` steps of the old and of the new run**: the same state while the old run is unfinished,
the same day records in any case -/
theorem extend_iter (hX : ExtendEnd cfg cfg') (hw : WF cfg.clock) (hi : InitOK cfg)
    {s0 : RunState α} (h0 : runInit cfg = .ok s0) :
    ∀ (j : Nat) {s : RunState α}, iterR F T cfg j s0 = .ok s →
      (s.finished = false → iterR F T cfg' j s0 = .ok s) ∧
      (∀ s', iterR F T cfg' j s0 = .ok s' → s'.daysRev = s.daysRev) := by
  intro j
  induction j with
  | zero =>
    intro s h
    cases h
    exact ⟨fun _ => rfl, fun s' h' => by cases h'; rfl⟩
  | succ j ih =>
    intro s h
    simp only [iterR] at h
    split at h
    · cases h
    · rename_i x hx
      obtain ⟨hxf, _⟩ := performR_info h
      have hx' := (ih hx).1 hxf
      obtain ⟨p1, p2⟩ := performR_extend hX hw hi (reach_of_iter h0 j hx) h
      constructor
      · intro hf
        simp only [iterR, hx']
        exact p1 hf
      · intro s' hs'
        simp only [iterR, hx'] at hs'
        exact p2 s' hs'

/-- **Extending the end date leaves the completed days unchanged.**  The old run
(`num_steps = k`) and the new run (`num_steps = k' ≥ k`), both from the initialised model: the day
records of the old run are the first day records of the new run. -/
theorem run_extend_end_records (hX : ExtendEnd cfg cfg') (hw : WF cfg.clock) (hi : InitOK cfg)
    {s0 r r' : RunState α} (h0 : runInit cfg = .ok s0) {k k' : Nat} (hk : k ≤ k')
    (hrun : runModel F T cfg k s0 = .ok r) (hrun' : runModel F T cfg' k' s0 = .ok r') :
    ∃ new, r'.daysRev = new ++ r.daysRev := by
  unfold runModel at hrun hrun'
  split_ifs at hrun hrun'
  obtain ⟨j, hj, hit, hfin⟩ := runStepsR_iter k hrun
  obtain ⟨j', hj', hit', hfin'⟩ := runStepsR_iter k' hrun'
  by_cases hle : j ≤ j'
  · obtain ⟨m, hm⟩ : ∃ m, j' = m + j := ⟨j' - j, by omega⟩
    rw [hm] at hit'
    obtain ⟨a', ha', hrest⟩ := iter_split m j hit'
    obtain ⟨new, hnew⟩ := iter_days_suffix m hrest
    rw [(extend_iter hX hw hi h0 j hit).2 a' ha'] at hnew
    exact ⟨new, hnew⟩
  · -- impossible: the new run would have finished while the old run went on
    exfalso
    obtain ⟨m, hm⟩ : ∃ m, j = (m + 1) + j' := ⟨j - j' - 1, by omega⟩
    rw [hm] at hit
    obtain ⟨x, hx, hrest⟩ := iter_split (m + 1) j' hit
    have hxf : x.finished = false := by
      cases hxf : x.finished with
      | false => rfl
      | true => have := iterR_finished (m + 1) hxf hrest; omega
    have := (extend_iter hX hw hi h0 j' hx).1 hxf
    rw [hit'] at this
    cases this
    have := hfin' (by omega)
    rw [hxf] at this
    cases this

/-- **… in terms of the output tables**: `water_storage`, `water_flux`, `crop_growth` and the
summary of the old run are prefixes of the tables of the run with the later end date — every day
of the old run, its last day included, and every season the old run completed. -/
theorem run_extend_end (hX : ExtendEnd cfg cfg') (hw : WF cfg.clock) (hi : InitOK cfg)
    {s0 r r' : RunState α} (h0 : runInit cfg = .ok s0) {k k' : Nat} (hk : k ≤ k')
    (hrun : runModel F T cfg k s0 = .ok r) (hrun' : runModel F T cfg' k' s0 = .ok r') :
    r.storageTable <+: r'.storageTable ∧ r.fluxTable <+: r'.fluxTable ∧
      r.growthTable <+: r'.growthTable ∧ r.summaryTable <+: r'.summaryTable := by
  obtain ⟨new, hnew⟩ := run_extend_end_records hX hw hi h0 hk hrun hrun'
  unfold RunState.storageTable RunState.fluxTable RunState.growthTable RunState.summaryTable
  rw [hnew, List.reverse_append]
  refine ⟨⟨_, (List.map_append ..).symm⟩, ⟨_, (List.map_append ..).symm⟩,
    ⟨_, (List.map_append ..).symm⟩, ⟨_, (List.filterMap_append ..).symm⟩⟩

/-- while the old run is unfinished, the run with the later end date is in the same state -/
theorem run_extend_end_unfinished (hX : ExtendEnd cfg cfg') (hw : WF cfg.clock) (hi : InitOK cfg)
    {s0 r : RunState α} (h0 : runInit cfg = .ok s0) {k : Nat}
    (hrun : runModel F T cfg k s0 = .ok r) (hf : r.finished = false) :
    runModel F T cfg' k s0 = .ok r := by
  have hboth : ∀ (k : Nat) {s r : RunState α}, RunReach F T cfg s → runStepsR F T cfg k s = .ok r →
      r.finished = false → runStepsR F T cfg' k s = .ok r := by
    intro k
    induction k with
    | zero => intro s r _ h _; exact h
    | succ k ih =>
      intro s r hr h hrf
      simp only [runStepsR] at h ⊢
      split at h
      · cases h
      · rename_i s1 hp
        by_cases hf1 : s1.finished = true
        · rw [if_pos hf1] at h; cases h; rw [hf1] at hrf; cases hrf
        · rw [if_neg hf1] at h
          rw [(performR_extend hX hw hi hr hp).1 (by simpa using hf1)]
          simp only [hf1, if_false, Bool.false_eq_true]
          exact ih (RunReach.step hr hp) h hrf
  unfold runModel at hrun ⊢
  by_cases hk : k < 1
  · rw [if_pos hk] at hrun; cases hrun
  · rw [if_neg hk] at hrun ⊢
    exact hboth k (RunReach.init h0) hrun hf

end run
end Aqua

#print axioms Aqua.updateTime_extend
#print axioms Aqua.performR_extend
#print axioms Aqua.extend_iter
#print axioms Aqua.run_extend_end_records
#print axioms Aqua.run_extend_end
#print axioms Aqua.run_extend_end_unfinished
