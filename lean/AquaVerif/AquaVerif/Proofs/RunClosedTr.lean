import AquaVerif.Proofs.RunClosed

/-
Work package L, second part: **`0 ≤ TrPot` on every simulated day of every run**, from premises on
the configuration only — which removes the `trPot0` field from the residual `ResidualE` of
`Proofs/RunClosed.lean`: `run_cropEnv_closed_tr` (C05 envelope, monotone harvest index and
biomass) and `run_tr_bounds_closed` (C04: `0 ≤ Tr ≤ TrPot`, `0 ≤ TrPot`) are left with the
capillary-rise overshoot (`ResidualW`) and the rewatering cap as only hypotheses about computed
values.

`TrPot = [Kcb_aged·(CO2 factor)]·CC*·ET0·(dying-canopy factor)·KsCold`.  Sign of each factor:
* `CC* ≥ 0`: `CC* = min(1, 1.72c − c² + 0.3c³)` of a cover `c ∈ [0, CCx]`, `CCx ≤ 1`
  (`fullDay_canopy_facts`; needs the canopy envelope at the start of the day);
* `ET0 > 0`: `WeatherOK`;
* dying-canopy factor `(CC/CCxW)^a_Tr ≥ 0`: `PowNonneg`;
* `KsCold ≥ 0`: premise `TrCropOK.ksCold` on the crop's cold-stress curve and `F`
  (`ksCold_of_no_cold_stress`: nothing to show for `TrColdStress = 0`);
* CO2 factor `1 − 0.05·(cur − ref)/(550 − ref) ≥ 0`: premise `CfgTrOK.co2`;
* `Kcb_aged = Kcb − (age − 5)·fage/100·CCxW ≥ 0`: needs `CCxW ∈ [0, CCx]` (new invariant, proved
  through every block of `canopy_cover`: `ccSeason_ccxW`) and a bound `age ≤ A` on the days since
  maximum canopy — from the invariant `age_days ≤ A`, `delayed_cds ≥ 0` and the length of the
  season, which comes from the clock (`run_refines_clock`, `Live.dapI`: in a growing season
  `dap + planting = t ≤ harvest`): premise `CfgTrOK.age`, and `(A − 5)·fage/100·CCx ≤ Kcb`.
-/

set_option linter.unusedSectionVars false
set_option linter.unusedVariables false
set_option linter.unusedSimpArgs false
namespace Aqua
open Aqua.Clock
variable {α : Type} [Field α] [LinearOrder α] [IsStrictOrderedRing α]

/-! ## 1. the sign of the potential transpiration -/

theorem trCo2Adj_nonneg {k cur ref k' : α} (hk : 0 ≤ k)
    (hco2 : ref < cur → 0 ≤ 1 - 0.05 * ((cur - ref) / (550 - ref)))
    (h : trCo2Adj k cur ref = some k') : 0 ≤ k' := by
  unfold trCo2Adj at h
  split_ifs at h with h1 h2
  · simp only [Option.some.injEq] at h
    rw [← h]; exact mul_nonneg hk (hco2 h1)
  · simp only [Option.some.injEq] at h
    rw [← h]; exact hk

theorem trDyingAdj_nonneg {F : Fn α} (hP : PowNonneg F) {tr cc ccxw aTr : α} (h : 0 ≤ tr) :
    0 ≤ trDyingAdj F tr cc ccxw aTr := by
  unfold trDyingAdj
  split_ifs with h1 h2
  · have h3 : (0 : α) < 0.001 := by norm_num
    exact mul_nonneg h (hP.pow_nonneg _ _ (div_nonneg (lt_trans h3 h2.2).le (lt_trans h3 h2.1).le))
  · exact h
  · exact h

/-- the aged crop coefficient is non-negative while the canopy age is at most `A` -/
theorem trKcbAged_nonneg {kcb fage age ccxw A ccx : α} (hk : 0 ≤ kcb) (hf : 0 ≤ fage)
    (hA : (A - 5) * (fage / 100) * ccx ≤ kcb) (hage : age ≤ A) (h0 : 0 ≤ ccxw)
    (h1 : ccxw ≤ ccx) : 0 ≤ trKcbAged kcb fage age ccxw := by
  unfold trKcbAged
  split_ifs with h5
  · have hf' : 0 ≤ fage / 100 := div_nonneg hf (by norm_num)
    have a1 : 0 ≤ age - 5 := by linarith
    have a2 : age - 5 ≤ A - 5 := by linarith
    have m1 : (age - 5) * (fage / 100) ≤ (A - 5) * (fage / 100) :=
      mul_le_mul_of_nonneg_right a2 hf'
    have m2 : (age - 5) * (fage / 100) * ccxw ≤ (A - 5) * (fage / 100) * ccx :=
      mul_le_mul m1 h1 h0 (mul_nonneg (by linarith) hf')
    linarith
  · exact hk

/-- what a successful `trPotential` computed for the actual canopy -/
theorem trPotential_ok {F : Fn α} {crop : TrCrop α} {st : TrState α} {et0 cur ref gdd : α}
    {pot : TrPotR α} (h : trPotential F crop st et0 cur ref gdd = .ok pot) :
    ∃ kcb kc,
      pot.age = (if crop.maxCanopyCD < st.dap - st.delayedCds
        then st.dap - st.delayedCds - crop.maxCanopyCD else st.ageDays) ∧
      trCo2Adj (trKcbAged crop.kcb crop.fage pot.age st.ccxW) cur ref = some kcb ∧
      trKsCold F crop.trColdStress crop.gddUp crop.gddLo gdd = some kc ∧
      pot.trPot0 = trDyingAdj F (kcb * st.ccAdj * et0) st.cc st.ccxW crop.aTr * kc := by
  unfold trPotential at h
  simp only at h
  split at h
  · cases h
  · rename_i kcbNS _
    split at h
    · cases h
    · rename_i kcb hk
      split at h
      · cases h
      · rename_i kc hkc
        simp only [Except.ok.injEq] at h
        refine ⟨kcb, kc, ?_, ?_, hkc, ?_⟩
        · rw [← h]
        · rw [← h]; exact hk
        · rw [← h]

/-- premises for `0 ≤ TrPot` on the inputs of `trPotential` -/
structure TrPotPre (F : Fn α) (crop : TrCrop α) (st : TrState α) (et0 cur ref A ccx : α) :
    Prop where
  pow : PowNonneg F
  et0 : 0 ≤ et0
  ccAdj : 0 ≤ st.ccAdj
  ccxW0 : 0 ≤ st.ccxW
  ccxW1 : st.ccxW ≤ ccx
  kcb : 0 ≤ crop.kcb
  fage : 0 ≤ crop.fage
  aged : (A - 5) * (crop.fage / 100) * ccx ≤ crop.kcb
  co2 : ref < cur → 0 ≤ 1 - 0.05 * ((cur - ref) / (550 - ref))
  ksCold : ∀ gdd k, trKsCold F crop.trColdStress crop.gddUp crop.gddLo gdd = some k → 0 ≤ k
  ageNow : st.dap - st.delayedCds - crop.maxCanopyCD ≤ A
  agePrev : st.ageDays ≤ A

theorem trPotential_nonneg {F : Fn α} {crop : TrCrop α} {st : TrState α}
    {et0 cur ref gdd A ccx : α} {pot : TrPotR α} (hp : TrPotPre F crop st et0 cur ref A ccx)
    (h : trPotential F crop st et0 cur ref gdd = .ok pot) : 0 ≤ pot.trPot0 ∧ pot.age ≤ A := by
  obtain ⟨kcb, kc, ea, hk, hkc, e⟩ := trPotential_ok h
  have hage : pot.age ≤ A := by
    rw [ea]; split_ifs
    · exact hp.ageNow
    · exact hp.agePrev
  have h1 := trKcbAged_nonneg hp.kcb hp.fage hp.aged hage hp.ccxW0 hp.ccxW1
  have h2 := trCo2Adj_nonneg h1 hp.co2 hk
  refine ⟨?_, hage⟩
  rw [e]
  exact mul_nonneg (trDyingAdj_nonneg hp.pow (mul_nonneg (mul_nonneg h2 hp.ccAdj) hp.et0))
    (hp.ksCold _ _ hkc)

/-- a crop without cold stress on transpiration has `KsCold = 1` -/
theorem ksCold_of_no_cold_stress {F : Fn α} {crop : TrCrop α} (h : crop.trColdStress = 0) :
    ∀ gdd k, trKsCold F crop.trColdStress crop.gddUp crop.gddLo gdd = some k → 0 ≤ k := by
  intro gdd k hk
  rw [h] at hk
  simp only [trKsCold, Option.some.injEq] at hk
  rw [← hk]; exact zero_le_one

/-- `transpiration` in season: the reported potential and the new canopy age are those of
`trPotential` -/
theorem transp_pot {F : Fn α} {cells : List (Cell α)} {nComp : Nat} {zTop : α}
    {crop : TrCrop α} {m : Nat} {smt : α} {st : TrState α} {et0 cur ref gdd : α} {out : TrOut α}
    (h : transpiration F cells nComp zTop crop m smt st et0 cur ref true gdd = .ok out) :
    ∃ pot, trPotential F crop st et0 cur ref gdd = .ok pot ∧ out.trPot0 = pot.trPot0 ∧
      out.st.ageDays = pot.age := by
  obtain ⟨pot, sf, rz, hpot, hsf, hrz, hcore⟩ := transp_ok_inv h
  obtain ⟨ni, hlen, hni, rfl⟩ := trCore_ok_inv hcore
  exact ⟨pot, hpot, rfl, rfl⟩

/-! ## 2. `ccx_w` through `canopy_cover` -/

theorem ccDie_ccxW (s0 s : CcState α) : (ccDie s0 s).ccxW = s.ccxW := by
  unfold ccDie; split_ifs <;> rfl
theorem ccRaiseAct_ccxW (s0 s : CcState α) : (ccRaiseAct s0 s).ccxW = s.ccxW := by
  unfold ccRaiseAct; split_ifs <;> rfl
theorem ccPotential_ccxW (F : Fn α) (crop : CcCrop α) (s0 s : CcState α) (dt t : α) :
    (ccPotential F crop s0 s dt t).ccxW = s.ccxW := by
  unfold ccPotential; simp only []; split_ifs <;> rfl
theorem ccGrowing_ccxW (F : Fn α) (crop : CcCrop α) (s0 s : CcState α) (k dt t : α) :
    (ccGrowing F crop s0 s k dt t).1.ccxW = s.ccxW := by
  unfold ccGrowing; simp only []; split_ifs <;> rfl
theorem ccSmall_ccxW (F : Fn α) (crop : CcCrop α) (s0 s : CcState α) (dt t : α) :
    (ccSmall F crop s0 s dt t).1.ccxW = s.ccxW := by
  unfold ccSmall; simp only []; split_ifs <;> rfl
theorem ccLate_ccxW (F : Fn α) (crop : CcCrop α) (s : CcState α) (t : α) :
    (ccLate F crop s t).ccxW = s.ccxW := rfl
theorem ccActualB_ccxW (F : Fn α) (crop : CcCrop α) (s0 s : CcState α) (k dt t : α) :
    (ccActualB F crop s0 s k dt t).1.ccxW = s.ccxW := by
  unfold ccActualB
  by_cases h1 : ccOutside F crop t
  · rw [if_pos h1]
  · rw [if_neg h1]
    by_cases h2 : t < crop.canopyDevEnd
    · rw [if_pos h2]
      simp only [ccRaiseAct_ccxW]
      split_ifs
      · exact ccSmall_ccxW F crop s0 s dt t
      · exact ccGrowing_ccxW F crop s0 s k dt t
    · rw [if_neg h2]
      by_cases h3 : crop.canopyDevEnd < t
      · rw [if_pos h3]
        simp only [ccDie_ccxW]
        by_cases h4 : t < crop.senescence
        · rw [if_pos h4]; simp only [ccRaiseAct_ccxW]
        · rw [if_neg h4]; rfl
      · rw [if_neg h3]
theorem ccEarlySen_ccxW (F : Fn α) (crop : CcCrop α) (s0 s : CcState α) (sen2 dt t : α) :
    (ccEarlySen F crop s0 s sen2 dt t).ccxW = s.ccxW := by
  unfold ccEarlySen; simp only [ccDie_ccxW]; split_ifs <;> rfl
theorem ccSenStress_ccxW (F : Fn α) (crop : CcCrop α) (s0 s : CcState α) (sen2 : α → α) (dt t : α) :
    (ccSenStress F crop s0 s sen2 dt t).ccxW = s.ccxW := by
  unfold ccSenStress; simp only [ccEarlySen_ccxW]; split_ifs <;> rfl
theorem ccRewater_ccxW (F : Fn α) (crop : CcCrop α) (s0 s : CcState α) (dt t : α) :
    (ccRewater F crop s0 s dt t).ccxW = s.ccxW := by
  unfold ccRewater; simp only [ccDie_ccxW]
theorem ccSenNoStress_ccxW (F : Fn α) (crop : CcCrop α) (s0 s : CcState α) (dt t : α) :
    (ccSenNoStress F crop s0 s dt t).ccxW = s.ccxW := by
  unfold ccSenNoStress; simp only []; split_ifs
  · simp only [ccRewater_ccxW]
  · rfl
theorem ccRaiseW_ccxW (s0 s : CcState α) :
    (ccRaiseW s0 s).ccxW = s.ccxW ∨ (ccRaiseW s0 s).ccxW = (ccRaiseW s0 s).cc := by
  unfold ccRaiseW; split_ifs
  · right; rfl
  · left; rfl
theorem ccSenescence_ccxW (F : Fn α) (crop : CcCrop α) (s0 s : CcState α) (k : α) (sen2 : α → α)
    (dt t : α) :
    (ccSenescence F crop s0 s k sen2 dt t).ccxW = s.ccxW ∨
      (ccSenescence F crop s0 s k sen2 dt t).ccxW = (ccSenescence F crop s0 s k sen2 dt t).cc := by
  unfold ccSenescence
  split_ifs
  · rcases ccRaiseW_ccxW s0 (ccSenStress F crop s0 s sen2 dt t) with e | e
    · left; rw [e, ccSenStress_ccxW]
    · right; exact e
  · rcases ccRaiseW_ccxW s0 (ccSenNoStress F crop s0 s dt t) with e | e
    · left; rw [e, ccSenNoStress_ccxW]
    · right; exact e
  · left; rfl
  · left; rfl
theorem ccFixup_ccxW (crop : CcCrop α) (s : CcState α) (t : α) : (ccFixup crop s t).ccxW = s.ccxW := by
  unfold ccFixup; simp only []; split_ifs <;> rfl

/-- in season `ccx_w` is left alone or raised to the day's canopy cover -/
theorem ccSeason_ccxW (F : Fn α) (crop : CcCrop α) (s0 : CcState α) (dr taw et0 dt t : α) :
    (ccSeason F crop s0 dr taw et0 dt t).ccxW = s0.ccxW ∨
      (ccSeason F crop s0 dr taw et0 dt t).ccxW = (ccSeason F crop s0 dr taw et0 dt t).cc := by
  have e1 : (ccSeason F crop s0 dr taw et0 dt t).ccxW =
      (ccBeforeFixup F crop s0 dr taw et0 dt t).ccxW := by
    show (ccFixup crop _ t).ccxW = _
    rw [ccFixup_ccxW]; rfl
  rw [e1, ccSeason_cc]
  unfold ccBeforeFixup
  simp only []
  rcases ccSenescence_ccxW F crop s0 _ _ _ dt t with e | e
  · left
    rw [e]
    show (ccActualB F crop s0 _ _ dt t).1.ccxW = _
    rw [ccActualB_ccxW, ccPotential_ccxW]
  · right; exact e

section canopy
variable {F : Fn α} {T : TrigFn α} {P : DayParams α} {st : DayState' α} {D : DayIn' α}
  {r : DayResult α}

/-- the canopy the day hands to `transpiration`: cover in `[0, CCx]`, `ccx_w` in `[0, CCx]`,
adjusted cover non-negative (`CCx ≤ 1`) -/
theorem fullDay_canopy_facts (h : fullDay F T P st D = .ok r) (hg : D.gs = true)
    (hc : CcCropPre F P) (hP : PowNonneg F) (hS : PowSqLaw F) (hi : CcInv P.cx.cc st)
    (hx1 : P.cx.cc.ccx ≤ 1)
    (hw0 : 0 ≤ st.ccxW) (hw1 : st.ccxW ≤ P.cx.cc.ccx) :
    0 ≤ r.crop.ccAdj ∧ 0 ≤ r.crop.ccxW ∧ r.crop.ccxW ≤ P.cx.cc.ccx ∧
      r.state.ccxW = r.crop.ccxW := by
  obtain ⟨c1, c2, _, _, c5, c6⟩ := fullDay_counters h
  obtain ⟨X, hs, rfl⟩ := fullDay_ok' h
  have hcc := hs.hcc
  rw [hg] at hcc
  obtain ⟨_, hgd, _⟩ := c5 hg
  have hgd' : growingDegreeDay P.cx.gddMethod P.cx.tupp P.cx.tbase D.tmax D.tmin
      = some X.tc.gdd := hgd
  obtain ⟨g0, g1⟩ := gdd_range hc.temp hgd'
  have hp : CcParamsFor F P.cx.cc (ccStateOf st X.tc X.rd X.ge) X.tc.gdd :=
    ccParamsFor_of _
      (fun h1 => hc.step 1 (fun _ => rfl) (fun h2 => by rw [h1] at h2; cases h2))
      (fun h2 => hc.step _ (fun h1 => by rw [h2] at h1; cases h1) (fun _ => ⟨g0, g1⟩))
  have hpre : CcPre P.cx.cc (ccStateOf st X.tc X.rd X.ge) :=
    ⟨hi.cc0, le_trans hi.cc_ns hi.ns_le, hi.adj0, hi.adj1⟩
  have hx : (ccStateOf st X.tc X.rd X.ge).ccxAct ≤ P.cx.cc.ccx := hi.act
  obtain ⟨r0, r1, _, _⟩ := cc_range hc.exp hp hpre hx hcc
  have hadj := (ccadj_nonneg (F := F) hS ⟨fun x hx => hP.pow_nonneg x 3 hx⟩ hcc).1 r0
    (le_trans r1 hx1)
  obtain ⟨dr, taw, dt, t, _, e⟩ := canopyCover_season hcc
  have hw : 0 ≤ X.cc.ccxW ∧ X.cc.ccxW ≤ P.cx.cc.ccx := by
    rcases ccSeason_ccxW F P.cx.cc (ccStateOf st X.tc X.rd X.ge) dr taw D.et0 dt t with e' | e'
    · rw [e, e']; exact ⟨hw0, hw1⟩
    · rw [← e] at e'
      rw [e']; exact ⟨r0, r1⟩
  exact ⟨hadj, hw.1, hw.2, rfl⟩

/-- in season the delay counter stays non-negative -/
theorem fullDay_delayedCds_nonneg (h : fullDay F T P st D = .ok r) (h0 : 0 ≤ st.delayedCds) :
    0 ≤ r.state.delayedCds ∧ r.crop.delayedCds = r.state.delayedCds := by
  have hoff := fullDay_offseason_zero h
  obtain ⟨X, hs, rfl⟩ := fullDay_ok' h
  cases hg : D.gs with
  | false =>
    obtain ⟨_, _, ⟨_, e, _⟩⟩ := hoff hg
    exact ⟨by rw [e], rfl⟩
  | true =>
    have hge := hs.hge
    rw [hg] at hge
    refine ⟨?_, rfl⟩
    show 0 ≤ X.ge.s.delayedCds
    cases hsg : st.germination with
    | true =>
      obtain ⟨o, ho, hso⟩ := germination_already F P.zGerm X.c.cells P.cx.germThr P.cx.sown
        X.tc.gdd (s := st.germ) hsg
      rw [ho] at hge
      rw [← Except.ok.inj hge, hso]; exact h0
    | false =>
      rcases germination_step (s := st.germ) hsg hge with ⟨_, _, c, _, _⟩ | ⟨_, _, c, _, _⟩
      · rw [c]; exact h0
      · rw [c]
        have : st.germ.delayedCds = st.delayedCds := rfl
        rw [this]; linarith

end canopy

/-! ## 3. the premises on the configuration, the invariant, the day -/

/-- what a crop record has to satisfy for `0 ≤ TrPot`, for the age bound `A` -/
structure TrCropOK (F : Fn α) (c : CropParams α) (A : α) : Prop where
  kcb : 0 ≤ c.cw.tr.kcb
  fage : 0 ≤ c.cw.tr.fage
  /-- the crop coefficient survives `A` days of canopy ageing at full cover -/
  aged : (A - 5) * (c.cw.tr.fage / 100) * c.cx.cc.ccx ≤ c.cw.tr.kcb
  ccx1 : c.cx.cc.ccx ≤ 1
  ksCold : ∀ gdd k,
    trKsCold F c.cw.tr.trColdStress c.cw.tr.gddUp c.cw.tr.gddLo gdd = some k → 0 ≤ k

/-- **premises on the configuration for `0 ≤ TrPot`** (beyond `CfgOK`): a well-formed clock, the
initial flags, the crops, seasons no longer than `A` days past maximum canopy, the CO2 factor -/
structure CfgTrOK (F : Fn α) (cfg : RunCfg α) (A : α) : Prop where
  wf : WF cfg.clock
  initOK : InitOK cfg
  crop : ∀ season : Int, TrCropOK F (cropOf cfg season) A
  /-- the season is at most `A` days longer than the time to maximum canopy -/
  age : ∀ (k dap : Nat), (dap : Int) ≤ cfg.clock.hv k - cfg.clock.pl k + 1 →
    natNum dap - (cfg.seasonCrop k).cw.tr.maxCanopyCD ≤ A
  co2 : ∀ season : Int, cfg.W0.co2Ref < cfg.co2Cur season →
    0 ≤ 1 - 0.05 * ((cfg.co2Cur season - cfg.W0.co2Ref) / (550 - cfg.W0.co2Ref))
  A0 : 0 ≤ A
  ageDays0 : cfg.init.ageDays ≤ A
  delayed0 : 0 ≤ cfg.init.delayedCds
  ccxW0 : 0 ≤ cfg.init.ccxW
  ccxW1 : cfg.init.ccxW ≤ (cropOf cfg cfg.clock.season0).cx.cc.ccx

/-- the invariant behind `0 ≤ TrPot` -/
structure RunInvT (cfg : RunCfg α) (A : α) (s : RunState α) : Prop where
  age : s.day.ageDays ≤ A
  dcd : 0 ≤ s.day.delayedCds
  ccxW0 : 0 ≤ s.day.ccxW
  ccxW1 : s.day.ccxW ≤ (cropOf cfg s.season).cx.cc.ccx

section clock
variable {F : Fn α} {T : TrigFn α} {cfg : RunCfg α} {s s' : RunState α}

/-- the growing-season flag of the day `_perform_timestep` simulates -/
theorem performR_gs (h : performR F T cfg s = .ok s') :
    ∃ ph, seasonInfo cfg.clock s.season = .ok ph ∧ s.finished = false ∧
      ∀ d, s'.daysRev = d :: s.daysRev →
        d.D.gs = gsOfDay ph s.t s.day.cropMature s.day.cropDead := by
  obtain ⟨ph, r, s1, hf, hph, hr, hs1, hu⟩ := performR_ok h
  obtain ⟨c', _, _, hdays, _, _⟩ := updateTimeR_ok hu
  refine ⟨ph, hph, hf, fun d hd => ?_⟩
  have hd1 : s1.daysRev = d :: s.daysRev := by
    have : (checkFinishedR cfg s1).daysRev = s1.daysRev := rfl
    rw [← this, ← hdays]; exact hd
  rw [hs1] at hd1
  have := (List.cons.inj hd1).1
  rw [← this]; rfl

/-- **the clock bounds the days after planting**: a growing-season day of a run lies in a season
`k ≥ 0` and its `dap` is at most `harvest k − planting k + 1` -/
theorem run_dap_bound (hw : WF cfg.clock) (hi : InitOK cfg) (hr : RunReach F T cfg s)
    (hp : performR F T cfg s = .ok s') {d : DayRec α} (hdl : s'.daysRev = d :: s.daysRev)
    (hg : d.D.gs = true) :
    0 ≤ s.season ∧
      ((s.day.dap + 1 : Nat) : Int) ≤ cfg.clock.hv s.season.toNat - cfg.clock.pl s.season.toNat + 1 := by
  obtain ⟨ph, hph, hf, hgs⟩ := performR_gs hp
  obtain ⟨ev, hre, _⟩ := run_refines_clock hw hi hr
  have hL := (good_of_reach hw hre).live hf
  have hshi : s.season < cfg.clock.nSeasons := hL.shi
  have hph' := seasonInfo_eq hw.2.2.1 hshi
  rw [hph] at hph'
  have e : ph = phOf cfg.clock s.season := Except.ok.inj hph'
  have hgd := hgs d hdl
  rw [hg, e] at hgd
  unfold phOf gsOfDay at hgd
  by_cases h0 : s.season ≥ 0
  · rw [if_pos h0] at hgd
    simp only at hgd
    have hb := hgd.symm
    simp only [Bool.and_eq_true, decide_eq_true_eq, Bool.not_eq_eq_eq_not, Bool.not_true] at hb
    obtain ⟨⟨⟨_, b2⟩, b3⟩, b4⟩ := hb
    have := hL.dapI h0 b3 b4 (Int.le_of_lt b2)
    have e2 : s.clockOf.dap = s.day.dap := rfl
    have e3 : s.clockOf.t = s.t := rfl
    have e4 : s.clockOf.season = s.season := rfl
    rw [e2, e3, e4] at this
    refine ⟨h0, ?_⟩
    push_cast
    have : (s.day.dap : Int) + (cfg.clock.pl s.season.toNat : Int) = (s.t : Int) := by
      exact_mod_cast this
    linarith
  · rw [if_neg h0] at hgd
    simp at hgd

/-- … sharper, since the latest harvest date is not a growing day (repository commit d260679):
the `dap` of a growing-season day is at most `harvest k − planting k` -/
theorem run_dap_bound_harvest (hw : WF cfg.clock) (hi : InitOK cfg) (hr : RunReach F T cfg s)
    (hp : performR F T cfg s = .ok s') {d : DayRec α} (hdl : s'.daysRev = d :: s.daysRev)
    (hg : d.D.gs = true) :
    0 ≤ s.season ∧
      ((s.day.dap + 1 : Nat) : Int) ≤ cfg.clock.hv s.season.toNat - cfg.clock.pl s.season.toNat := by
  obtain ⟨ph, hph, hf, hgs⟩ := performR_gs hp
  obtain ⟨ev, hre, _⟩ := run_refines_clock hw hi hr
  have hL := (good_of_reach hw hre).live hf
  have hshi : s.season < cfg.clock.nSeasons := hL.shi
  have hph' := seasonInfo_eq hw.2.2.1 hshi
  rw [hph] at hph'
  have e : ph = phOf cfg.clock s.season := Except.ok.inj hph'
  have hgd := hgs d hdl
  rw [hg, e] at hgd
  unfold phOf gsOfDay at hgd
  by_cases h0 : s.season ≥ 0
  · rw [if_pos h0] at hgd
    simp only at hgd
    have hb := hgd.symm
    simp only [Bool.and_eq_true, decide_eq_true_eq, Bool.not_eq_eq_eq_not, Bool.not_true] at hb
    obtain ⟨⟨⟨_, b2⟩, b3⟩, b4⟩ := hb
    have := hL.dapI h0 b3 b4 (Int.le_of_lt b2)
    have e2 : s.clockOf.dap = s.day.dap := rfl
    have e3 : s.clockOf.t = s.t := rfl
    have e4 : s.clockOf.season = s.season := rfl
    rw [e2, e3, e4] at this
    refine ⟨h0, ?_⟩
    push_cast
    have : (s.day.dap : Int) + (cfg.clock.pl s.season.toNat : Int) = (s.t : Int) := by
      exact_mod_cast this
    omega
  · rw [if_neg h0] at hgd
    simp at hgd

end clock

section dayT
variable {F : Fn α} {T : TrigFn α} {cfg : RunCfg α} {s : RunState α} {d : DayRec α} {A : α}

/-- **`0 ≤ TrPot`** on a growing-season day simulated from a state satisfying the invariants, and
the invariants `RunInvT` of the state the day leaves (for the same season counter) -/
theorem dayOf_trPot_nonneg (hC : CfgOK F T cfg) (hT : CfgTrOK F cfg A) (hW : WeatherOK F cfg)
    (hI : RunInvW F cfg s) (hE : CcInv (paramsOf cfg s.season false).cx.cc s.day)
    (hN : RunInvT cfg A s) (hd : DayOf F T cfg s d)
    (hdap : d.D.gs = true → 0 ≤ s.season ∧
      ((s.day.dap + 1 : Nat) : Int) ≤
        cfg.clock.hv s.season.toNat - cfg.clock.pl s.season.toNat + 1) :
    0 ≤ d.r.flux.trPot ∧ d.r.state.ageDays ≤ A ∧ 0 ≤ d.r.state.delayedCds ∧
      0 ≤ d.r.state.ccxW ∧ d.r.state.ccxW ≤ (cropOf cfg s.season).cx.cc.ccx := by
  have hc := hC.crop s.season
  have ht := hT.crop s.season
  have hdc0 : 0 ≤ d.st.delayedCds := by rw [hd.st]; exact hN.dcd
  obtain ⟨hdc, edc⟩ := fullDay_delayedCds_nonneg hd.day hdc0
  cases hg : d.D.gs with
  | false =>
    obtain ⟨⟨_, e2, _⟩, _, ⟨_, _, _, _, _, _, _, e8, _⟩⟩ := fullDay_offseason_zero hd.day hg
    obtain ⟨X, hs, e⟩ := fullDay_ok' hd.day
    have hht := hs.water.ht
    simp only [DayIn'.water, hg, FullTrace.water_e, FullTrace.water_r, FullTrace.water_i,
      FullTrace.water_t] at hht
    obtain ⟨_, _, _, _, _, t6⟩ := transp_offseason hht
    have hage : d.r.state.ageDays = d.st.ageDays := by
      rw [e]
      show X.t.st.ageDays = _
      rw [t6]; rfl
    refine ⟨by rw [e2], by rw [hage, hd.st]; exact hN.age, hdc, by rw [e8], ?_⟩
    rw [e8]; exact hc.ccx0
  | true =>
    obtain ⟨h0, hb⟩ := hdap hg
    have hcrop : cropOf cfg s.season = cfg.seasonCrop s.season.toNat := by
      unfold cropOf; rw [if_pos h0]
    have hPcx : d.P.cx = (cropOf cfg s.season).cx := by rw [hd.P]; rfl
    have hPW : d.P.W.crop = (cropOf cfg s.season).cw := by rw [hd.P]; rfl
    have hEd : CcInv d.P.cx.cc d.st := by
      rw [hd.st, hPcx]; exact hE
    obtain ⟨f1, f2, f3, f4⟩ := fullDay_canopy_facts hd.day hg (dayCropOK_cc hC hd) hC.fn.powNN hC.fn.powSq hEd
      (by rw [hPcx]; exact ht.ccx1) (by rw [hd.st]; exact hN.ccxW0)
      (by rw [hd.st, hPcx]; exact hN.ccxW1)
    obtain ⟨_, _, _, _, c5, _⟩ := fullDay_counters hd.day
    obtain ⟨d1, _, _⟩ := c5 hg
    obtain ⟨X, hs, e⟩ := fullDay_ok' hd.day
    have hht := hs.water.ht
    simp only [DayIn'.water, hg, FullTrace.water_e, FullTrace.water_r, FullTrace.water_i,
      FullTrace.water_t] at hht
    obtain ⟨pot, hpot, ep, ea⟩ := transp_pot hht
    have hdapX : X.tc.dap = d.st.dap + 1 := by
      have : d.r.growth.dap = X.tc.dap := by rw [e]; rfl
      rw [← this]; exact d1
    have hcropX : d.r.crop = X.cropDay d.P d.st := by rw [e]; rfl
    have hage0 := hT.age s.season.toNat (s.day.dap + 1) hb
    have hpre : TrPotPre F d.P.W.crop.tr
        (dayTrState (X.cropDay d.P d.st) d.st.water X.e.pond X.r.daySub X.i.depletion X.i.taw)
        d.D.et0 d.P.W.co2Cur d.P.W.co2Ref A (cropOf cfg s.season).cx.cc.ccx :=
      { pow := hC.fn.powNN
        et0 := by rw [hd.et0]; exact (hW.et0 s.t).le
        ccAdj := by rw [← hcropX]; exact f1
        ccxW0 := by rw [← hcropX]; exact f2
        ccxW1 := by rw [← hcropX, ← hPcx]; exact f3
        kcb := by rw [hPW]; exact ht.kcb
        fage := by rw [hPW]; exact ht.fage
        aged := by rw [hPW]; exact ht.aged
        co2 := by rw [hd.P]; exact hT.co2 s.season
        ksCold := by rw [hPW]; exact ht.ksCold
        ageNow := by
          show natNum X.tc.dap - (X.cropDay d.P d.st).delayedCds - d.P.W.crop.tr.maxCanopyCD ≤ A
          rw [← hcropX, edc, hdapX, hd.st, hPW, hcrop]
          linarith
        agePrev := by
          show d.st.ageDays ≤ A
          rw [hd.st]; exact hN.age }
    obtain ⟨p0, p1⟩ := trPotential_nonneg hpre hpot
    refine ⟨?_, ?_, hdc, by rw [f4]; exact f2, by rw [f4, ← hPcx]; exact f3⟩
    · rw [e]
      show 0 ≤ X.t.trPot0
      rw [ep]; exact p0
    · rw [e]
      show X.t.st.ageDays ≤ A
      rw [ea]; exact p1

end dayT

/-! ## 4. along a run -/

section runT
variable {F : Fn α} {T : TrigFn α} {cfg : RunCfg α} {s s' : RunState α} {A : α}

/-- what is still assumed about a simulated day: no capillary-rise overshoot (with a water table),
and the rewatering cap -/
structure ResidualC (d : DayRec α) : Prop where
  cr : ResidualW d
  rw : Rewatering d.P d.st d.D d.r.trace → d.r.state.ccxAct ≤ d.P.cx.cc.ccx

/-- **`CropEnv`, `RunInvT` and `0 ≤ TrPot` along a run** — from `CfgOK`, `CfgTrOK`, `WeatherOK`
and the residual `ResidualC` (capillary-rise overshoot, rewatering cap) only -/
theorem run_cropEnv_closed_tr (hC : CfgOK F T cfg) (hT : CfgTrOK F cfg A) (hW : WeatherOK F cfg)
    (hr : RunReach F T cfg s) (hR : ∀ d ∈ s.daysRev, ResidualC d) :
    (-1 ≤ s.season ∧ CropEnv F (paramsOf cfg s.season false) s.day ∧ RunInvT cfg A s) ∧
      ∀ d ∈ s.daysRev, CropEnv F d.P d.st ∧ CropEnv F d.P d.r.state ∧ 0 ≤ d.r.flux.trPot ∧
        (d.D.gs = true → d.st.hi ≤ d.r.state.hi ∧ d.st.biomass ≤ d.r.state.biomass ∧
          0 ≤ d.r.flux.tr ∧ d.r.flux.tr ≤ d.r.flux.trPot) := by
  obtain ⟨wp, fc, hL⟩ := hC.layerFns
  induction hr with
  | init hi =>
    unfold runInit at hi
    split at hi
    · cases hi
    · rename_i c hc
      cases hi
      unfold Clock.init at hc
      split_ifs at hc
      cases hc
      exact ⟨⟨hC.season0, hC.init.toEnv, ⟨hT.ageDays0, hT.delayed0, hT.ccxW0, hT.ccxW1⟩⟩,
        fun d hd => by cases hd⟩
  | @step s s' hr hp ih =>
    obtain ⟨d, hdl, hd, hcase⟩ := performR_step hp
    have hRs : ∀ d ∈ s.daysRev, ResidualC d :=
      fun d hd => hR d (by rw [hdl]; exact List.mem_cons_of_mem _ hd)
    obtain ⟨⟨hlo, hinv, hN⟩, hdays⟩ := ih hRs
    obtain ⟨hI, _⟩ := run_invW hC wp fc hL hr (fun d hd => (hRs d hd).cr)
    have hRd : ResidualC d := hR d (by rw [hdl]; exact List.mem_cons_self)
    obtain ⟨p0, n1, n2, n3, n4⟩ := dayOf_trPot_nonneg hC hT hW hI hinv.cc hN hd
      (fun hg => run_dap_bound hT.wf hT.initOK hr hp hdl hg)
    obtain ⟨h1, h2, h3, h4⟩ := performR_cropEnv hC hW wp fc hL hI hinv hd hcase
      ⟨hRd.cr, hRd.rw, fun _ => p0⟩
    refine ⟨⟨?_, h1, ?_⟩, ?_⟩
    · rcases hcase with ⟨e, _⟩ | ⟨e, _⟩ <;> rw [e] <;> omega
    · rcases hcase with ⟨e1, e2⟩ | ⟨e1, e2⟩
      · exact ⟨by rw [e2]; exact n1, by rw [e2]; exact n2, by rw [e2]; exact n3,
          by rw [e2, e1]; exact n4⟩
      · refine ⟨?_, ?_, ?_, ?_⟩
        all_goals rw [e2]
        all_goals simp only [resetState, resetStateCore]
        · exact hT.A0
        · exact le_refl _
        · exact le_refl _
        · exact (hC.crop s'.season).ccx0
    · intro d' hd'
      rw [hdl] at hd'
      rcases List.mem_cons.mp hd' with rfl | hd'
      · exact ⟨h2, h3, p0, h4⟩
      · exact hdays d' hd'

/-- **C04, transpiration, along a run**: on every simulated day `0 ≤ TrPot` and
`0 ≤ Tr ≤ TrPot` (off season both are zero) -/
theorem run_tr_bounds_closed (hC : CfgOK F T cfg) (hT : CfgTrOK F cfg A) (hW : WeatherOK F cfg)
    (hr : RunReach F T cfg s) (hR : ∀ d ∈ s.daysRev, ResidualC d) :
    ∀ d ∈ s.daysRev, 0 ≤ d.r.flux.trPot ∧ 0 ≤ d.r.flux.tr ∧ d.r.flux.tr ≤ d.r.flux.trPot := by
  obtain ⟨_, hdays⟩ := run_cropEnv_closed_tr hC hT hW hr hR
  intro d hd
  obtain ⟨_, _, p0, h4⟩ := hdays d hd
  cases hg : d.D.gs with
  | true => exact ⟨p0, (h4 hg).2.2.1, (h4 hg).2.2.2⟩
  | false =>
    obtain ⟨⟨e1, e2, _⟩, _⟩ := fullDay_offseason_zero (run_days hr d hd) hg
    rw [e1, e2]; exact ⟨le_refl _, le_refl _, le_refl _⟩

end runT

end Aqua

#print axioms Aqua.run_dap_bound
#print axioms Aqua.dayOf_trPot_nonneg
#print axioms Aqua.run_cropEnv_closed_tr
#print axioms Aqua.run_tr_bounds_closed
