import AquaVerif.Model.SoilTexture
import AquaVerif.Proofs.SoilBuild
import Mathlib.Data.Rat.Floor
/-
Lemmas about the texture-based soil constructor (`Model/SoilTexture.lean`), property C18,
work package U.

Contents
  0. laws assumed about `F` (`TexRoundLaws`, `TexPowLaws`, `TexLogPowLaws`)
  1. the final rounding keeps an order that holds with a margin of 1/1000
  2. `hydraulic_ok_of_raw`: from margins on the unrounded values to the returned tuple
  3. the density factor 1 (`add_layer_from_texture` never passes another one): closed forms
  4. REGION lemmas at `DF = 1` (sand, clay fractions in the texture triangle, organic matter ≤ 8 %):
       `th_wp < th_fc`  for clay ≤ 60 %                       (`raw_wp_lt_fc`)
       `th_fc < th_s`   for clay ≤ 50 %, and for clay ≤ 60 % with organic matter ≤ 3 %
       `0 < th_wp`      for organic matter ≥ 1 % (`raw_wp_pos`) or clay ≥ 3 % (`raw_wp_pos_clay`)
       and the same for density factors in [0.9, 1] (`texture_order_region_df`)
     and the COUNTER-EXAMPLES outside: (sand 40 %, clay 60 %, OM 8 %) has `th_s < th_fc` and the method
     raises; (sand 0, clay 100 %, OM 8 %) returns `th_wp > th_fc`; pure sand without organic matter has
     `th_wp < 0` and the method raises.
  5. the layer specification `add_layer_from_texture` hands to `add_layer` satisfies the premise of
     `hydraulic_order_of_spec`
  6. the 12 USDA class centroids: order (any field) and the exact rounded values over ℚ
  7. capillary-rise parameters: the `if` tree is total; when the two `assert`s fail
  (`tau ∈ [0,1]` for every `Ksat` is `tauOf_bounds` in `Proofs/SoilBuild.lean`.)
-/

set_option linter.unusedSectionVars false
set_option linter.unusedVariables false
namespace Aqua

section
variable {α : Type} [Field α] [LinearOrder α] [IsStrictOrderedRing α]

/-! ## 0. Laws -/

/-- Python `round(x)`: within 1/2 of `x`, and never negative for a non-negative argument. -/
structure TexRoundLaws (F : Fn α) : Prop where
  round0_lo : ∀ x, x - 1 / 2 ≤ F.round0 x
  round0_hi : ∀ x, F.round0 x ≤ x + 1 / 2
  round0_nonneg : ∀ x, 0 ≤ x → 0 ≤ F.round0 x

/-- `x ** y` is positive for a positive base. -/
structure TexPowLaws (F : Fn α) : Prop where
  pow_pos : ∀ x y, 0 < x → 0 < F.pow x y

/-- what the positivity of the *rounded* `Ksat` needs: `log` weakly monotone on the positives, and
`x ** y ≥ x³` for a base in `(0,1]` and an exponent `≤ 3`. -/
structure TexLogPowLaws (F : Fn α) : Prop where
  log_mono : ∀ x y, 0 < x → x ≤ y → F.log x ≤ F.log y
  pow_ge_cube : ∀ x y, 0 < x → x ≤ 1 → y ≤ 3 → x * x * x ≤ F.pow x y

/-! ## 1. Rounding -/

theorem texRound3_lt {F : Fn α} (hR : TexRoundLaws F) {x y : α} (h : x + 1 / 1000 < y) :
    texRound3 F x < texRound3 F y := by
  unfold texRound3
  have h1 := hR.round0_hi (1000 * x)
  have h2 := hR.round0_lo (1000 * y)
  apply div_lt_div_of_pos_right _ (by norm_num)
  linarith

theorem texRound3_pos {F : Fn α} (hR : TexRoundLaws F) {x : α} (h : 1 / 2000 < x) :
    0 < texRound3 F x := by
  unfold texRound3
  have h2 := hR.round0_lo (1000 * x)
  apply div_pos _ (by norm_num)
  linarith

theorem texRound3_lt_one {F : Fn α} (hR : TexRoundLaws F) {x : α} (h : x < 1 - 1 / 2000) :
    texRound3 F x < 1 := by
  unfold texRound3
  have h1 := hR.round0_hi (1000 * x)
  rw [div_lt_one (by norm_num)]
  linarith

theorem texRound1_nonneg {F : Fn α} (hR : TexRoundLaws F) {x : α} (h : 0 ≤ x) :
    0 ≤ texRound1 F x := by
  unfold texRound1
  exact div_nonneg (hR.round0_nonneg _ (by linarith)) (by norm_num)

theorem texRound1_pos {F : Fn α} (hR : TexRoundLaws F) {x : α} (h : 1 / 20 < x) :
    0 < texRound1 F x := by
  unfold texRound1
  have h2 := hR.round0_lo (10 * x)
  apply div_pos _ (by norm_num)
  linarith

/-! ## 2. From the unrounded values to the returned tuple -/

/-- the unrounded values are ordered with the margins the final rounding needs -/
structure RawOK (r : TexRaw α) : Prop where
  wp_pos : 1 / 2000 < r.thWP
  wp_fc  : r.thWP + 1 / 1000 < r.thFC
  fc_s   : r.thFC + 1 / 1000 < r.thS
  s_one  : r.thS < 1 - 1 / 2000

theorem texRaises_false_of_rawOK (F : Fn α) {r : TexRaw α} (h : RawOK r) : texRaises F r = false := by
  have h1 := h.wp_pos
  have h2 := h.wp_fc
  have h3 := h.fc_s
  have a1 : ¬ r.thWP ≤ 0 := by intro hh; linarith
  have a2 : ¬ r.thFC ≤ 0 := by intro hh; linarith
  have a3 : ¬ r.thS - r.thFC < 0 := by intro hh; linarith
  have a4 : ¬ r.thS - r.thFC ≤ 0 := by intro hh; linarith
  simp [texRaises, a1, a2, a3, a4]

theorem texLambda_nonneg {F : Fn α} (hL : TexLogPowLaws F) {wp fc : α} (h0 : 0 < wp) (h : wp ≤ fc) :
    0 ≤ texLambda F wp fc := by
  unfold texLambda
  have a := hL.log_mono 33 1500 (by norm_num) (by norm_num)
  have b := hL.log_mono wp fc h0 h
  exact div_nonneg zero_le_one (div_nonneg (by linarith) (by linarith))

/-- the unrounded `Ksat` is positive as soon as `th_fc < th_s` (only `pow_pos`) -/
theorem texKsat_pos {F : Fn α} (hP : TexPowLaws F) {r : TexRaw α} (h : r.thFC < r.thS) :
    0 < texKsat F r := by
  unfold texKsat
  have := hP.pow_pos (r.thS - r.thFC) (3 - texLambda F r.thWP r.thFC) (by linarith)
  positivity

/-- … and at least `46320·(th_s − th_fc)³` -/
theorem texKsat_ge_cube {F : Fn α} (hL : TexLogPowLaws F) {r : TexRaw α} (h0 : 0 < r.thWP)
    (h1 : r.thWP ≤ r.thFC) (h2 : r.thFC < r.thS) (h3 : r.thS ≤ 1) :
    46320 * ((r.thS - r.thFC) * (r.thS - r.thFC) * (r.thS - r.thFC)) ≤ texKsat F r := by
  have hl := texLambda_nonneg hL h0 h1
  have := hL.pow_ge_cube (r.thS - r.thFC) (3 - texLambda F r.thWP r.thFC) (by linarith) (by linarith)
    (by linarith)
  unfold texKsat
  linarith

theorem hydraulicFromTexture_ok_of_rawOK (F : Fn α) (sand clay om df : α)
    (h : RawOK (texRaw sand clay om df)) :
    hydraulicFromTexture F sand clay om df =
      .ok (texRound3 F (texRaw sand clay om df).thWP, texRound3 F (texRaw sand clay om df).thFC,
        texRound3 F (texRaw sand clay om df).thS, texRound1 F (texKsat F (texRaw sand clay om df))) := by
  simp only [hydraulicFromTexture, texRaises_false_of_rawOK F h]
  rfl

/-- **Main abstract step.**  If the unrounded water contents are ordered with a margin of one unit
of the last retained digit, the method does not raise and returns `0 < th_wp < th_fc < th_s < 1`,
`0 ≤ Ksat`. -/
theorem hydraulic_ok_of_raw {F : Fn α} (hR : TexRoundLaws F) (hP : TexPowLaws F) (sand clay om df : α)
    (h : RawOK (texRaw sand clay om df)) :
    ∃ wp fc s k, hydraulicFromTexture F sand clay om df = .ok (wp, fc, s, k) ∧
      0 < wp ∧ wp < fc ∧ fc < s ∧ s < 1 ∧ 0 ≤ k := by
  refine ⟨_, _, _, _, hydraulicFromTexture_ok_of_rawOK F sand clay om df h, texRound3_pos hR h.wp_pos,
    texRound3_lt hR h.wp_fc, texRound3_lt hR h.fc_s, texRound3_lt_one hR h.s_one, ?_⟩
  · have := h.fc_s
    exact texRound1_nonneg hR (le_of_lt (texKsat_pos hP (by linarith)))

/-- with the stronger laws and `th_s − th_fc ≥ 0.011` the *rounded* `Ksat` is positive too -/
theorem hydraulic_ok_of_raw_ksat_pos {F : Fn α} (hR : TexRoundLaws F) (hL : TexLogPowLaws F)
    (sand clay om df : α) (h : RawOK (texRaw sand clay om df))
    (hgap : (texRaw sand clay om df).thFC + 0.011 ≤ (texRaw sand clay om df).thS) :
    ∃ wp fc s k, hydraulicFromTexture F sand clay om df = .ok (wp, fc, s, k) ∧
      0 < wp ∧ wp < fc ∧ fc < s ∧ s < 1 ∧ 0 < k := by
  refine ⟨_, _, _, _, hydraulicFromTexture_ok_of_rawOK F sand clay om df h, texRound3_pos hR h.wp_pos,
    texRound3_lt hR h.wp_fc, texRound3_lt hR h.fc_s, texRound3_lt_one hR h.s_one, ?_⟩
  · apply texRound1_pos hR
    have h1 := h.wp_pos
    have h2 := h.wp_fc
    have h3 := h.fc_s
    have h4 := h.s_one
    have hk := texKsat_ge_cube hL (r := texRaw sand clay om df) (by linarith) (by linarith) (by linarith)
      (by linarith)
    set d := (texRaw sand clay om df).thS - (texRaw sand clay om df).thFC with hd
    have hd1 : (0.011 : α) ≤ d := by rw [hd]; linarith
    have hd2 : (0.011 : α) * 0.011 ≤ d * d := by nlinarith
    have hd3 : (0.011 : α) * 0.011 * 0.011 ≤ d * d * d := by nlinarith
    have : (1 / 20 : α) < 46320 * (0.011 * 0.011 * 0.011) := by norm_num
    linarith

/-! ## 3. Density factor 1 -/

/-- at `DF = 1` the compaction terms vanish: `th_fc = PredAdj_thFC`, `th_s = Pred_thS` -/
theorem texRaw_df_one (s c om : α) :
    (texRaw s c om 1).thWP = predThWP s c om + 0.14 * predThWP s c om - 0.02 ∧
    (texRaw s c om 1).thFC = predAdjThFC (predThFC s c om) ∧
    (texRaw s c om 1).thS = (predAdjThFC (predThFC s c om) + predAdjThS33 (predThS33 s c om))
        + (-0.097 * s + 0.043) := by
  refine ⟨rfl, ?_, ?_⟩
  · simp only [texRaw]; ring
  · simp only [texRaw]; norm_num

/-- for every density factor: `th_s − th_fc = (1 − PredAdj_thFC)(1 − k) + (PredAdj_thS33 − 0.097·Sand + 0.043)·k`
with `k = 0.8·DF + 0.2` — the order `th_fc < th_s` degrades linearly with compaction. -/
theorem texRaw_gap_df (s c om df : α) :
    (texRaw s c om df).thS - (texRaw s c om df).thFC =
      (1 - predAdjThFC (predThFC s c om)) * (1 - (0.8 * df + 0.2)) +
        (predAdjThS33 (predThS33 s c om) + (-0.097 * s + 0.043)) * (0.8 * df + 0.2) := by
  simp only [texRaw]
  field_simp
  ring

/-! ## 4. The region -/

/-- the texture triangle with organic matter between 0 and 8 % (`sand`, `clay` fractions) -/
structure TexRegion (sand clay om : α) : Prop where
  sand_nn : 0 ≤ sand
  clay_nn : 0 ≤ clay
  sum_le  : sand + clay ≤ 1
  om_nn   : 0 ≤ om
  om_le   : om ≤ 8

/-- `Pred_thFC ∈ [0.04, 0.45]` on the region with clay ≤ 60 % -/
theorem predThFC_bounds {s c om : α} (h : TexRegion s c om) (hc6 : c ≤ 0.6) :
    0.04 ≤ predThFC s c om ∧ predThFC s c om ≤ 0.45 := by
  obtain ⟨hs, hc, hsc, ho, ho8⟩ := h
  simp only [predThFC]
  constructor <;>
  nlinarith [mul_nonneg hs hc, mul_nonneg hs ho, mul_nonneg hc ho, mul_nonneg hs (sub_nonneg.2 ho8),
    mul_nonneg hc (sub_nonneg.2 ho8), mul_nonneg (sub_nonneg.2 hsc) ho,
    mul_nonneg (sub_nonneg.2 hsc) (sub_nonneg.2 ho8), mul_nonneg (sub_nonneg.2 hsc) hc,
    mul_nonneg (sub_nonneg.2 hsc) hs, mul_nonneg hs (sub_nonneg.2 hc6), mul_nonneg hc (sub_nonneg.2 hc6),
    mul_nonneg (sub_nonneg.2 hc6) ho, mul_nonneg (sub_nonneg.2 hc6) (sub_nonneg.2 ho8)]

/-- **`th_wp < th_fc`** (margin 0.005) on the triangle, clay ≤ 60 %, organic matter ≤ 8 %, `DF = 1`.
Proof: `q² ≥ 0.35·q − 0.030625` (tangent at 0.175) leaves a multilinear inequality. -/
theorem raw_wp_lt_fc {s c om : α} (h : TexRegion s c om) (hc6 : c ≤ 0.6) :
    (texRaw s c om 1).thWP + 0.005 ≤ (texRaw s c om 1).thFC := by
  obtain ⟨e1, e2, _⟩ := texRaw_df_one s c om
  rw [e1, e2]
  obtain ⟨hs, hc, hsc, ho, ho8⟩ := h
  have hq := sq_nonneg (predThFC s c om - 0.175)
  have key : 0.005 ≤ 1.07505 * predThFC s c om - 0.034291875 - 1.14 * predThWP s c om := by
    simp only [predThFC, predThWP]
    nlinarith [mul_nonneg hs hc, mul_nonneg hs ho, mul_nonneg hc ho, mul_nonneg hs (sub_nonneg.2 ho8),
      mul_nonneg hc (sub_nonneg.2 ho8), mul_nonneg (sub_nonneg.2 hsc) ho,
      mul_nonneg (sub_nonneg.2 hsc) (sub_nonneg.2 ho8), mul_nonneg (sub_nonneg.2 hsc) hc,
      mul_nonneg (sub_nonneg.2 hsc) hs, mul_nonneg hs (sub_nonneg.2 hc6), mul_nonneg hc (sub_nonneg.2 hc6),
      mul_nonneg (sub_nonneg.2 hc6) ho, mul_nonneg (sub_nonneg.2 hc6) (sub_nonneg.2 ho8)]
  simp only [predAdjThFC]
  nlinarith [hq, key]

/-- **`th_fc < th_s`** (margin 0.02) on the triangle, clay ≤ 50 %, organic matter ≤ 8 %, `DF = 1`
(at `DF = 1` the difference is multilinear: `1.636·Pred_thS33 − 0.064 − 0.097·Sand`). -/
theorem raw_fc_lt_s {s c om : α} (h : TexRegion s c om) (hc5 : c ≤ 0.5) :
    (texRaw s c om 1).thFC + 0.02 ≤ (texRaw s c om 1).thS := by
  obtain ⟨_, e2, e3⟩ := texRaw_df_one s c om
  rw [e2, e3]
  obtain ⟨hs, hc, hsc, ho, ho8⟩ := h
  have key : 0.02 ≤ predAdjThS33 (predThS33 s c om) + (-0.097 * s + 0.043) := by
    simp only [predAdjThS33, predThS33]
    nlinarith [mul_nonneg hs hc, mul_nonneg hs ho, mul_nonneg hc ho, mul_nonneg hs (sub_nonneg.2 ho8),
      mul_nonneg hc (sub_nonneg.2 ho8), mul_nonneg (sub_nonneg.2 hsc) ho,
      mul_nonneg (sub_nonneg.2 hsc) (sub_nonneg.2 ho8), mul_nonneg (sub_nonneg.2 hsc) hc,
      mul_nonneg (sub_nonneg.2 hsc) hs, mul_nonneg hs (sub_nonneg.2 hc5), mul_nonneg hc (sub_nonneg.2 hc5)]
  linarith

/-- **`th_fc < th_s`** (margin 0.003) for clay ≤ 60 % when organic matter ≤ 3 %, `DF = 1`. -/
theorem raw_fc_lt_s_om3 {s c om : α} (h : TexRegion s c om) (hc6 : c ≤ 0.6) (ho3 : om ≤ 3) :
    (texRaw s c om 1).thFC + 0.003 ≤ (texRaw s c om 1).thS := by
  obtain ⟨_, e2, e3⟩ := texRaw_df_one s c om
  rw [e2, e3]
  obtain ⟨hs, hc, hsc, ho, ho8⟩ := h
  have key : 0.003 ≤ predAdjThS33 (predThS33 s c om) + (-0.097 * s + 0.043) := by
    simp only [predAdjThS33, predThS33]
    nlinarith [mul_nonneg hs hc, mul_nonneg hs ho, mul_nonneg hc ho, mul_nonneg hs (sub_nonneg.2 ho3),
      mul_nonneg hc (sub_nonneg.2 ho3), mul_nonneg (sub_nonneg.2 hsc) ho,
      mul_nonneg (sub_nonneg.2 hsc) (sub_nonneg.2 ho3), mul_nonneg (sub_nonneg.2 hsc) hc,
      mul_nonneg (sub_nonneg.2 hsc) hs, mul_nonneg hs (sub_nonneg.2 hc6), mul_nonneg hc (sub_nonneg.2 hc6)]
  linarith

/-- **`0 < th_wp`** (≥ 0.00052) when organic matter ≥ 1 %, clay ≤ 60 %. -/
theorem raw_wp_pos {s c om : α} (h : TexRegion s c om) (hc6 : c ≤ 0.6) (ho1 : 1 ≤ om) :
    0.00052 ≤ (texRaw s c om 1).thWP := by
  obtain ⟨e1, _, _⟩ := texRaw_df_one s c om
  rw [e1]
  obtain ⟨hs, hc, hsc, ho, ho8⟩ := h
  simp only [predThWP]
  nlinarith [mul_nonneg hs hc, mul_nonneg hs (sub_nonneg.2 ho1), mul_nonneg hc (sub_nonneg.2 ho1),
    mul_nonneg hs (sub_nonneg.2 ho8),
    mul_nonneg hc (sub_nonneg.2 ho8), mul_nonneg (sub_nonneg.2 hsc) (sub_nonneg.2 ho1),
    mul_nonneg (sub_nonneg.2 hsc) (sub_nonneg.2 ho8), mul_nonneg (sub_nonneg.2 hsc) hc,
    mul_nonneg (sub_nonneg.2 hsc) hs, mul_nonneg hs (sub_nonneg.2 hc6), mul_nonneg hc (sub_nonneg.2 hc6),
    mul_nonneg (sub_nonneg.2 hc6) (sub_nonneg.2 ho1), mul_nonneg (sub_nonneg.2 hc6) (sub_nonneg.2 ho8)]

/-- **`0 < th_wp`** (≥ 0.005) for every organic matter content in [0, 8] % when clay ≥ 3 %. -/
theorem raw_wp_pos_clay {s c om : α} (h : TexRegion s c om) (hc6 : c ≤ 0.6) (hc3 : 0.03 ≤ c) :
    0.005 ≤ (texRaw s c om 1).thWP := by
  obtain ⟨e1, _, _⟩ := texRaw_df_one s c om
  rw [e1]
  obtain ⟨hs, hc, hsc, ho, ho8⟩ := h
  have hc3' : (0 : α) ≤ c - 0.03 := by linarith
  simp only [predThWP]
  nlinarith [mul_nonneg hs hc3', mul_nonneg hs ho, mul_nonneg hc3' ho,
    mul_nonneg hs (sub_nonneg.2 ho8),
    mul_nonneg hc3' (sub_nonneg.2 ho8), mul_nonneg (sub_nonneg.2 hsc) ho,
    mul_nonneg (sub_nonneg.2 hsc) (sub_nonneg.2 ho8), mul_nonneg (sub_nonneg.2 hsc) hc3',
    mul_nonneg (sub_nonneg.2 hsc) hs, mul_nonneg hs (sub_nonneg.2 hc6), mul_nonneg hc3' (sub_nonneg.2 hc6),
    mul_nonneg (sub_nonneg.2 hc6) ho, mul_nonneg (sub_nonneg.2 hc6) (sub_nonneg.2 ho8)]

/-- either premise keeps the wilting point positive -/
theorem raw_wp_pos' {s c om : α} (h : TexRegion s c om) (hc6 : c ≤ 0.6) (hw : 1 ≤ om ∨ 0.03 ≤ c) :
    0.00052 ≤ (texRaw s c om 1).thWP := by
  rcases hw with ho1 | hc3
  · exact raw_wp_pos h hc6 ho1
  · linarith [raw_wp_pos_clay h hc6 hc3, show (0.00052 : α) ≤ 0.005 by norm_num]

/-- **`th_s < 1`** (≤ 0.9) on the region with clay ≤ 60 %, `DF = 1`. -/
theorem raw_s_lt_one {s c om : α} (h : TexRegion s c om) (hc6 : c ≤ 0.6) :
    (texRaw s c om 1).thS ≤ 0.9 := by
  obtain ⟨_, _, e3⟩ := texRaw_df_one s c om
  rw [e3]
  obtain ⟨hq0, hq1⟩ := predThFC_bounds h hc6
  obtain ⟨hs, hc, hsc, ho, ho8⟩ := h
  have hqq : predThFC s c om * predThFC s c om ≤ 0.45 * predThFC s c om := by nlinarith
  have key : 1.20335 * predThFC s c om - 0.015 + (1.636 * predThS33 s c om - 0.107)
      + (-0.097 * s + 0.043) ≤ 0.9 := by
    simp only [predThFC, predThS33]
    nlinarith [mul_nonneg hs hc, mul_nonneg hs ho, mul_nonneg hc ho, mul_nonneg hs (sub_nonneg.2 ho8),
      mul_nonneg hc (sub_nonneg.2 ho8), mul_nonneg (sub_nonneg.2 hsc) ho,
      mul_nonneg (sub_nonneg.2 hsc) (sub_nonneg.2 ho8), mul_nonneg (sub_nonneg.2 hsc) hc,
      mul_nonneg (sub_nonneg.2 hsc) hs, mul_nonneg hs (sub_nonneg.2 hc6), mul_nonneg hc (sub_nonneg.2 hc6),
      mul_nonneg (sub_nonneg.2 hc6) ho, mul_nonneg (sub_nonneg.2 hc6) (sub_nonneg.2 ho8)]
  simp only [predAdjThFC, predAdjThS33]
  nlinarith [hqq, key]

/-- the unrounded values are ordered with the rounding margins on the region
`sand, clay ≥ 0, sand + clay ≤ 1, clay ≤ 0.5, 0 ≤ om ≤ 8, (1 ≤ om or 0.03 ≤ clay)` at `DF = 1` -/
theorem rawOK_of_region {s c om : α} (h : TexRegion s c om) (hc5 : c ≤ 0.5) (ho1 : 1 ≤ om ∨ 0.03 ≤ c) :
    RawOK (texRaw s c om 1) := by
  have hc6 : c ≤ 0.6 := by linarith [show (0.5 : α) ≤ 0.6 by norm_num]
  have a := raw_wp_pos' h hc6 ho1
  have b := raw_wp_lt_fc h hc6
  have d := raw_fc_lt_s h hc5
  have e := raw_s_lt_one h hc6
  refine ⟨?_, ?_, ?_, ?_⟩
  · linarith [show (1 / 2000 : α) < 0.00052 by norm_num]
  · linarith [show (1 / 1000 : α) < 0.005 by norm_num]
  · linarith [show (1 / 1000 : α) < 0.02 by norm_num]
  · linarith [show (0.9 : α) < 1 - 1 / 2000 by norm_num]

/-- … and on `clay ≤ 0.6, 1 ≤ om ≤ 3` -/
theorem rawOK_of_region_om3 {s c om : α} (h : TexRegion s c om) (hc6 : c ≤ 0.6)
    (ho1 : 1 ≤ om ∨ 0.03 ≤ c) (ho3 : om ≤ 3) : RawOK (texRaw s c om 1) := by
  have a := raw_wp_pos' h hc6 ho1
  have b := raw_wp_lt_fc h hc6
  have d := raw_fc_lt_s_om3 h hc6 ho3
  have e := raw_s_lt_one h hc6
  refine ⟨?_, ?_, ?_, ?_⟩
  · linarith [show (1 / 2000 : α) < 0.00052 by norm_num]
  · linarith [show (1 / 1000 : α) < 0.005 by norm_num]
  · linarith [show (1 / 1000 : α) < 0.003 by norm_num]
  · linarith [show (0.9 : α) < 1 - 1 / 2000 by norm_num]

/-- **Hydraulic order of texture-based layers (lemma 2, positive part).**  For every texture in the
triangle with clay ≤ 50 %, organic matter ≤ 8 % and (organic matter ≥ 1 % or clay ≥ 3 %) the method
(default `DF`) does not raise and returns `0 < th_wp < th_fc < th_s < 1`, `0 < Ksat`. -/
theorem texture_order_region {F : Fn α} (hR : TexRoundLaws F) (hL : TexLogPowLaws F) {s c om : α}
    (h : TexRegion s c om) (hc5 : c ≤ 0.5) (ho1 : 1 ≤ om ∨ 0.03 ≤ c) :
    ∃ wp fc ts k, hydraulicFromTexture F s c om 1 = .ok (wp, fc, ts, k) ∧
      0 < wp ∧ wp < fc ∧ fc < ts ∧ ts < 1 ∧ 0 < k := by
  apply hydraulic_ok_of_raw_ksat_pos hR hL s c om 1 (rawOK_of_region h hc5 ho1)
  have := raw_fc_lt_s h hc5
  linarith [show (0.011 : α) ≤ 0.02 by norm_num]

/-- the same up to clay 60 % when organic matter ≤ 3 % (`Ksat ≥ 0` only: the gap `th_s − th_fc` may be
as small as 0.004 and the rounded `Ksat` is not bounded away from 0 by the laws assumed) -/
theorem texture_order_region_om3 {F : Fn α} (hR : TexRoundLaws F) (hP : TexPowLaws F) {s c om : α}
    (h : TexRegion s c om) (hc6 : c ≤ 0.6) (ho1 : 1 ≤ om ∨ 0.03 ≤ c) (ho3 : om ≤ 3) :
    ∃ wp fc ts k, hydraulicFromTexture F s c om 1 = .ok (wp, fc, ts, k) ∧
      0 < wp ∧ wp < fc ∧ fc < ts ∧ ts < 1 ∧ 0 ≤ k :=
  hydraulic_ok_of_raw hR hP s c om 1 (rawOK_of_region_om3 h hc6 ho1 ho3)

/-! ### Other density factors -/

/-- the tuple at density factor `df` in terms of the one at `DF = 1`: compaction (`df > 1`) lowers
`th_s` and `th_fc`, loosening raises them -/
theorem texRaw_df (s c om df : α) :
    (texRaw s c om df).thWP = (texRaw s c om 1).thWP ∧
    (texRaw s c om df).thFC =
      (texRaw s c om 1).thFC + 0.2 * ((1 - (texRaw s c om 1).thS) * (1 - df)) ∧
    (texRaw s c om df).thS = 1 - df * (1 - (texRaw s c om 1).thS) := by
  refine ⟨rfl, ?_, ?_⟩
  · simp only [texRaw]; field_simp; ring
  · simp only [texRaw]; field_simp; ring

/-- the order with its rounding margins for every density factor in `[0.9, 1]` (loosened soil) on
`clay ≤ 0.5, om ≤ 8, (1 ≤ om or 0.03 ≤ clay)`; the gap `th_s − th_fc` stays ≥ 0.018 -/
theorem rawOK_of_region_df {s c om df : α} (h : TexRegion s c om) (hc5 : c ≤ 0.5)
    (ho1 : 1 ≤ om ∨ 0.03 ≤ c)
    (hd0 : 0.9 ≤ df) (hd1 : df ≤ 1) :
    RawOK (texRaw s c om df) ∧ (texRaw s c om df).thFC + 0.011 ≤ (texRaw s c om df).thS := by
  have hc6 : c ≤ 0.6 := by linarith [show (0.5 : α) ≤ 0.6 by norm_num]
  have a := raw_wp_pos' h hc6 ho1
  have b := raw_wp_lt_fc h hc6
  have d := raw_fc_lt_s h hc5
  have e := raw_s_lt_one h hc6
  obtain ⟨e1, e2, e3⟩ := texRaw_df s c om df
  set wp := (texRaw s c om 1).thWP
  set fc := (texRaw s c om 1).thFC
  set ts := (texRaw s c om 1).thS
  have hd9 : (0 : α) ≤ df - 0.9 := by linarith
  have hd1' : (0 : α) ≤ 1 - df := by linarith
  have hts : (0 : α) ≤ 0.9 - ts := by linarith
  have p1 : 0 ≤ (1 - ts) * (1 - df) := mul_nonneg (by linarith) hd1'
  have p2 := mul_nonneg hd9 hts
  have p3 := mul_nonneg hd1' hts
  have gap : fc + 0.2 * ((1 - ts) * (1 - df)) + 0.011 ≤ 1 - df * (1 - ts) := by nlinarith
  refine ⟨⟨?_, ?_, ?_, ?_⟩, ?_⟩
  · rw [e1]; linarith [show (1 / 2000 : α) < 0.00052 by norm_num]
  · rw [e1, e2]; linarith [show (1 / 1000 : α) < 0.005 by norm_num]
  · rw [e2, e3]; linarith [show (1 / 1000 : α) < 0.011 by norm_num]
  · rw [e3]; nlinarith
  · rw [e2, e3]; exact gap

/-- **lemma 2 for a loosened soil**: `DF ∈ [0.9, 1]`, clay ≤ 50 %, organic matter ≤ 8 % and (≥ 1 % or
clay ≥ 3 %) -/
theorem texture_order_region_df {F : Fn α} (hR : TexRoundLaws F) (hL : TexLogPowLaws F) {s c om df : α}
    (h : TexRegion s c om) (hc5 : c ≤ 0.5) (ho1 : 1 ≤ om ∨ 0.03 ≤ c) (hd0 : 0.9 ≤ df) (hd1 : df ≤ 1) :
    ∃ wp fc ts k, hydraulicFromTexture F s c om df = .ok (wp, fc, ts, k) ∧
      0 < wp ∧ wp < fc ∧ fc < ts ∧ ts < 1 ∧ 0 < k :=
  hydraulic_ok_of_raw_ksat_pos hR hL s c om df (rawOK_of_region_df h hc5 ho1 hd0 hd1).1
    (rawOK_of_region_df h hc5 ho1 hd0 hd1).2

/-- COUNTER-EXAMPLE for a compacted soil: pure silt (sand 0, clay 0) with 1 % organic matter at
`DF = 1.3` has `th_s < th_fc`; the method raises. -/
theorem raises_silt_df13 (F : Fn α) : hydraulicFromTexture F (0 : α) 0 1 1.3 = .error "E:value" := by
  have h3 : (texRaw (0 : α) 0 1 1.3).thS - (texRaw (0 : α) 0 1 1.3).thFC < 0 := by
    rw [texRaw_gap_df]
    norm_num [predAdjThFC, predAdjThS33, predThFC, predThS33]
  simp [hydraulicFromTexture, texRaises, h3]

/-! ### Counter-examples (replayed on the real method by `harness/tests/corr_soil_texture.py`) -/

/-- COUNTER-EXAMPLE inside the range Saxton & Rawls calibrated (clay ≤ 60 %, OM ≤ 8 %):
sand 40 %, clay 60 %, organic matter 8 % has `th_s < th_fc` … -/
theorem order_fails_40_60_8 :
    (texRaw (0.4 : α) 0.6 8 1).thS < (texRaw (0.4 : α) 0.6 8 1).thFC := by
  obtain ⟨_, e2, e3⟩ := texRaw_df_one (0.4 : α) 0.6 8
  rw [e2, e3]
  norm_num [predAdjThFC, predAdjThS33, predThFC, predThS33]

/-- … and the method raises (`ValueError: cannot convert float NaN to integer`), whatever `F` is. -/
theorem raises_40_60_8 (F : Fn α) : hydraulicFromTexture F (0.4 : α) 0.6 8 1 = .error "E:value" := by
  have h := order_fails_40_60_8 (α := α)
  have h3 : (texRaw (0.4 : α) 0.6 8 1).thS - (texRaw (0.4 : α) 0.6 8 1).thFC < 0 := by linarith
  simp [hydraulicFromTexture, texRaises, h3]

/-- COUNTER-EXAMPLE in the triangle: pure clay with 8 % organic matter has `th_wp > th_fc` by more
than 0.1 and `th_fc < th_s`: the method does not raise and returns a wilting point above field
capacity (real method: 0.507 > 0.386). -/
theorem order_fails_0_100_8 :
    (texRaw (0 : α) 1 8 1).thFC + 0.1 < (texRaw (0 : α) 1 8 1).thWP ∧
      (texRaw (0 : α) 1 8 1).thFC < (texRaw (0 : α) 1 8 1).thS ∧ 0 < (texRaw (0 : α) 1 8 1).thFC := by
  obtain ⟨e1, e2, e3⟩ := texRaw_df_one (0 : α) 1 8
  rw [e1, e2, e3]
  norm_num [predAdjThFC, predAdjThS33, predThFC, predThS33, predThWP]

theorem returns_disordered_0_100_8 {F : Fn α} (hR : TexRoundLaws F) :
    ∃ wp fc ts k, hydraulicFromTexture F (0 : α) 1 8 1 = .ok (wp, fc, ts, k) ∧ fc < wp := by
  obtain ⟨h1, h2, h3⟩ := order_fails_0_100_8 (α := α)
  have a1 : ¬ (texRaw (0 : α) 1 8 1).thWP ≤ 0 := by intro hh; linarith
  have a2 : ¬ (texRaw (0 : α) 1 8 1).thFC ≤ 0 := by intro hh; linarith
  have a3 : ¬ (texRaw (0 : α) 1 8 1).thS - (texRaw (0 : α) 1 8 1).thFC < 0 := by intro hh; linarith
  have a4 : ¬ (texRaw (0 : α) 1 8 1).thS - (texRaw (0 : α) 1 8 1).thFC ≤ 0 := by intro hh; linarith
  have hlt : texRound3 F (texRaw (0 : α) 1 8 1).thFC < texRound3 F (texRaw (0 : α) 1 8 1).thWP :=
    texRound3_lt hR (by linarith [show (1 / 1000 : α) < 0.1 by norm_num])
  refine ⟨texRound3 F (texRaw (0 : α) 1 8 1).thWP, texRound3 F (texRaw (0 : α) 1 8 1).thFC,
    texRound3 F (texRaw (0 : α) 1 8 1).thS, texRound1 F (texKsat F (texRaw (0 : α) 1 8 1)), ?_, hlt⟩
  simp only [hydraulicFromTexture, texRaises, a1, a2, a3, a4]
  rfl

/-- COUNTER-EXAMPLE: pure sand without organic matter has `th_wp < 0`; the logarithm is `nan` and the
method raises.  (Organic matter ≥ 1 % excludes this: `raw_wp_pos`.) -/
theorem raises_pure_sand (F : Fn α) : hydraulicFromTexture F (1 : α) 0 0 1 = .error "E:value" := by
  have h : (texRaw (1 : α) 0 0 1).thWP ≤ 0 := by
    rw [(texRaw_df_one (1 : α) 0 0).1]
    norm_num [predThWP]
  simp [hydraulicFromTexture, texRaises, h]

/-! ## 5. `add_layer_from_texture` -/

/-- the `add_layer` call made by `add_layer_from_texture` carries the tuple of the method at
`Sand/100`, `Clay/100`, default `DF` -/
theorem layerFromTexture_ok {τ : Type} (F : Fn α) (t : τ) (sp cp om pen : α) (L : LayerSpec α τ)
    (h : layerFromTexture F t sp cp om pen = .ok L) :
    hydraulicFromTexture F (sp / 100) (cp / 100) om 1 = .ok (L.wp, L.fc, L.s, L.ksat) ∧
      L.thick = t ∧ L.pen = pen := by
  unfold layerFromTexture at h
  split at h
  · cases h
  · rename_i wp fc s k heq
    cases h
    exact ⟨heq, rfl, rfl⟩

/-- **The premise of `hydraulic_order_of_spec` is discharged for texture layers**: for sand and clay
percentages in the triangle with clay ≤ 50 %, organic matter ≤ 8 % and (organic matter ≥ 1 % or
clay ≥ 3 %), `add_layer_from_texture` succeeds and hands `add_layer` values with `0 < wp < fc ≤ s` (and `s < 1`, `0 < Ksat`). -/
theorem layerFromTexture_spec_ok {τ : Type} {F : Fn α} (hR : TexRoundLaws F) (hL : TexLogPowLaws F)
    (t : τ) {sp cp om : α} (pen : α) (hs : 0 ≤ sp) (hc : 0 ≤ cp) (hsc : sp + cp ≤ 100) (hc5 : cp ≤ 50)
    (ho0 : 0 ≤ om) (ho8 : om ≤ 8) (ho1 : 1 ≤ om ∨ 3 ≤ cp) :
    ∃ L : LayerSpec α τ, layerFromTexture F t sp cp om pen = .ok L ∧
      0 < L.wp ∧ L.wp < L.fc ∧ L.fc ≤ L.s ∧ L.s < 1 ∧ 0 < L.ksat := by
  have hreg : TexRegion (sp / 100) (cp / 100) om :=
    ⟨by positivity, by positivity, by rw [← add_div, div_le_one (by norm_num)]; exact hsc,
      ho0, ho8⟩
  have ho1' : 1 ≤ om ∨ (0.03 : α) ≤ cp / 100 := by
    rcases ho1 with h1 | h3
    · exact .inl h1
    · right; rw [le_div_iff₀ (by norm_num)]; norm_num; exact h3
  have hc5' : cp / 100 ≤ (0.5 : α) := by rw [div_le_iff₀ (by norm_num)]; norm_num; exact hc5
  obtain ⟨wp, fc, ts, k, e, p1, p2, p3, p4, p5⟩ := texture_order_region hR hL hreg hc5' ho1'
  refine ⟨{ thick := t, wp := wp, fc := fc, s := ts, ksat := k, pen := pen }, ?_, p1, p2, le_of_lt p3,
    p4, p5⟩
  simp only [layerFromTexture, e]

/-! ## 6. The 12 USDA texture-class centroids (organic matter 2.5 %) -/

end

/-- (sand %, clay %) of the 12 USDA texture classes as tabulated by Saxton & Rawls (2006), table 3:
Sand, Loamy sand, Sandy loam, Loam, Silt loam, Silt, Sandy clay loam, Clay loam, Silty clay loam,
Silty clay, Sandy clay, Clay. -/
def usdaCentroids : List (Nat × Nat) :=
  [(88, 5), (80, 5), (65, 10), (40, 20), (20, 15), (10, 5), (60, 25), (30, 35), (10, 35), (10, 45),
   (50, 40), (25, 50)]

section
variable {α : Type} [Field α] [LinearOrder α] [IsStrictOrderedRing α]

/-- **Lemma 1.**  For the 12 class centroids with 2.5 % organic matter the method returns
`0 < th_wp < th_fc < th_s < 1` and `0 < Ksat`. -/
theorem centroid_order {F : Fn α} (hR : TexRoundLaws F) (hL : TexLogPowLaws F) :
    ∀ c ∈ usdaCentroids, ∃ wp fc ts k,
      hydraulicFromTexture F ((c.1 : α) / 100) ((c.2 : α) / 100) 2.5 1 = .ok (wp, fc, ts, k) ∧
        0 < wp ∧ wp < fc ∧ fc < ts ∧ ts < 1 ∧ 0 < k := by
  intro c hc
  have hreg : TexRegion ((c.1 : α) / 100) ((c.2 : α) / 100) 2.5 ∧ (c.2 : α) / 100 ≤ 0.5 := by
    simp only [usdaCentroids, List.mem_cons, List.not_mem_nil, or_false] at hc
    rcases hc with rfl | rfl | rfl | rfl | rfl | rfl | rfl | rfl | rfl | rfl | rfl | rfl
    all_goals (refine ⟨⟨?_, ?_, ?_, ?_, ?_⟩, ?_⟩ <;> norm_num)
  exact texture_order_region hR hL hreg.1 hreg.2 (.inl (by norm_num))

/-- the unrounded `Ksat` of the centroids is positive from `pow_pos` alone -/
theorem centroid_ksat_pos {F : Fn α} (hP : TexPowLaws F) :
    ∀ c ∈ usdaCentroids, 0 < texKsat F (texRaw ((c.1 : α) / 100) ((c.2 : α) / 100) 2.5 1) := by
  intro c hc
  have hreg : TexRegion ((c.1 : α) / 100) ((c.2 : α) / 100) 2.5 ∧ (c.2 : α) / 100 ≤ 0.5 := by
    simp only [usdaCentroids, List.mem_cons, List.not_mem_nil, or_false] at hc
    rcases hc with rfl | rfl | rfl | rfl | rfl | rfl | rfl | rfl | rfl | rfl | rfl | rfl
    all_goals (refine ⟨⟨?_, ?_, ?_, ?_, ?_⟩, ?_⟩ <;> norm_num)
  have := raw_fc_lt_s hreg.1 hreg.2
  exact texKsat_pos hP (by linarith [show (0 : α) < 0.02 by norm_num])

end

/-! ### Exact computation over ℚ -/

/-- Python `round(x)` on a rational: nearest integer, ties to even -/
def roundHalfEvenQ (x : ℚ) : ℚ :=
  let f : ℤ := Rat.floor x
  let d : ℚ := x - f
  if d < 1 / 2 then f else if 1 / 2 < d then f + 1 else if f % 2 = 0 then f else f + 1

/-- exact rounding; the transcendental functions are placeholders (not used by the polynomial part) -/
def FqTex : Fn ℚ where
  exp := fun _ => 1
  log := fun _ => 0
  log10 := fun _ => 0
  pow := fun x y => if y = 2 then x * x else 1
  round0 := roundHalfEvenQ
  round2 := fun x => x
  round3 := fun x => x
  round4 := fun x => x
  pyRound2 := fun x => x

/-- exact half-even rounding satisfies the rounding laws (non-vacuity of `TexRoundLaws`) -/
theorem texRoundLaws_FqTex : TexRoundLaws FqTex := by
  have key : ∀ x : ℚ, x - 1 / 2 ≤ roundHalfEvenQ x ∧ roundHalfEvenQ x ≤ x + 1 / 2 ∧
      ((Rat.floor x : ℤ) : ℚ) ≤ roundHalfEvenQ x := by
    intro x
    have h1 : ((Rat.floor x : ℤ) : ℚ) ≤ x := Int.floor_le x
    have h2 : x < ((Rat.floor x : ℤ) : ℚ) + 1 := Int.lt_floor_add_one x
    unfold roundHalfEvenQ
    simp only
    split_ifs with a b c
    · exact ⟨by linarith, by linarith, le_refl _⟩
    · exact ⟨by linarith, by linarith, by linarith⟩
    · exact ⟨by linarith, by linarith, le_refl _⟩
    · exact ⟨by linarith, by linarith, by linarith⟩
  refine ⟨fun x => (key x).1, fun x => (key x).2.1, fun x hx => ?_⟩
  have h0 : (0 : ℤ) ≤ Rat.floor x := Int.floor_nonneg.2 hx
  have : (0 : ℚ) ≤ ((Rat.floor x : ℤ) : ℚ) := by exact_mod_cast h0
  exact le_trans this (key x).2.2

/-- … and its placeholders (`log = 0`, `pow = 1` except `x ** 2 = x · x`) satisfy the two other law structures, so `FqTex` is a
computable model of all the laws assumed in this file -/
theorem texPowLaws_FqTex : TexPowLaws FqTex := ⟨fun x y hx => by
  simp only [FqTex]; split_ifs
  · exact mul_pos hx hx
  · exact zero_lt_one⟩

theorem texLogPowLaws_FqTex : TexLogPowLaws FqTex :=
  ⟨fun _ _ _ _ => le_refl _, fun x y hx hx1 _ => by
    have h2 : x * x ≤ 1 := by nlinarith
    simp only [FqTex]; split_ifs
    · nlinarith [mul_pos hx hx]
    · nlinarith⟩

/-- non-vacuity of the region lemmas: loam (sand 40 %, clay 20 %, organic matter 2.5 %) lies in the
region, and the whole method evaluates on it (with the placeholder `pow = 1`: `Ksat = 1930·24`) -/
example : TexRegion (0.4 : ℚ) 0.2 2.5 ∧ (0.2 : ℚ) ≤ 0.5 ∧ (1 : ℚ) ≤ 2.5 := by
  refine ⟨⟨?_, ?_, ?_, ?_, ?_⟩, ?_, ?_⟩ <;> norm_num

example : hydraulicFromTexture FqTex 0.4 0.2 2.5 1 = .ok (137 / 1000, 7 / 25, 459 / 1000, 46320) := by
  decide +kernel

/-- (sand %, clay %, th_wp, th_fc, th_s in thousandths): the values the REAL method returns for the
centroids (`harness/tests/corr_soil_texture.py` reads this table and compares it with the method). -/
def centroidTable : List (Nat × Nat × Nat × Nat × Nat) :=
  [(88, 5, 50, 103, 462), (80, 5, 51, 120, 460), (65, 10, 81, 179, 450), (40, 20, 137, 280, 459),
   (20, 15, 110, 305, 479), (10, 5, 57, 305, 479), (60, 25, 166, 267, 434), (30, 35, 218, 358, 477),
   (10, 35, 215, 382, 511), (10, 45, 268, 409, 523), (50, 40, 249, 361, 444), (25, 50, 298, 421, 498)]

def centroidRowOK (e : Nat × Nat × Nat × Nat × Nat) : Bool :=
  let r := texRaw ((e.1 : ℚ) / 100) ((e.2.1 : ℚ) / 100) 2.5 1
  decide (texRound3 FqTex r.thWP = (e.2.2.1 : ℚ) / 1000) &&
  decide (texRound3 FqTex r.thFC = (e.2.2.2.1 : ℚ) / 1000) &&
  decide (texRound3 FqTex r.thS = (e.2.2.2.2 : ℚ) / 1000)

/-- **Lemma 1, by computation over ℚ**: with exact arithmetic and exact half-even rounding the
polynomial part of the method gives exactly the tabulated thousandths (which are the values the
floating-point method returns), and they are ordered. -/
theorem centroid_table : centroidTable.all centroidRowOK = true := by decide +kernel

theorem centroid_table_ordered :
    centroidTable.all (fun e => decide (0 < e.2.2.1 ∧ e.2.2.1 < e.2.2.2.1 ∧ e.2.2.2.1 < e.2.2.2.2 ∧
      e.2.2.2.2 < 1000)) = true := by decide

theorem centroid_table_covers : centroidTable.map (fun e => (e.1, e.2.1)) = usdaCentroids := by decide

/-! ## 7. Capillary-rise parameters -/

section
variable {α : Type} [Field α] [LinearOrder α] [IsStrictOrderedRing α]

/-- the leaf number is in 1..7 and determines the class as in the source -/
theorem crBranch_leaf (w f s k : α) :
    (crBranch w f s k) ∈ [(1, CrClass.siltyClayey), (2, .sandyClayey), (3, .sandy), (4, .sandyClayey),
      (5, .sandy), (6, .loamy), (7, .siltyClayey)] := by
  unfold crBranch
  split_ifs <;> simp

/-- **Totality of the `if` tree**: `crParams` (the model of `add_capillary_rise_params` for one layer,
`Model/SoilBuild.lean`) always selects the pair of formulas of the class `crBranch` names — no path leaves
the initial `aCR = bCR = 0` in place; the result is `none` (a failed `assert`) exactly when one of the two
class formulas itself evaluates to 0. -/
theorem crParams_eq_branch (F : Fn α) (w f s k : α) :
    crParams F w f s k =
      if (crOfClass F k (crBranch w f s k).2).1 = 0 ∨ (crOfClass F k (crBranch w f s k).2).2 = 0 then none
      else some (crOfClass F k (crBranch w f s k).2) := by
  have hz : ∀ x : α, (x ≤ 0 ∧ 0 ≤ x) ↔ x = 0 := fun x => ⟨fun h => le_antisymm h.1 h.2, fun h => by simp [h]⟩
  unfold crParams crBranch
  simp only [hz]
  split_ifs <;> simp_all [crOfClass]

theorem crParams_some (F : Fn α) (w f s k : α) (ab : α × α) (h : crParams F w f s k = some ab) :
    ab = crOfClass F k (crBranch w f s k).2 ∧ ab.1 ≠ 0 ∧ ab.2 ≠ 0 := by
  rw [crParams_eq_branch] at h
  split_ifs at h with hz
  cases h
  exact ⟨rfl, (not_or.mp hz).1, (not_or.mp hz).2⟩

/-- `aCR` of the sandy and sandy-clayey classes is negative for every `Ksat ≥ 0` … -/
theorem crA_sandy_neg (F : Fn α) {k : α} (hk : 0 ≤ k) :
    (crOfClass F k .sandy).1 < 0 ∧ (crOfClass F k .sandyClayey).1 < 0 := by
  simp only [crOfClass]
  constructor
  · have : 0 ≤ k / 100000 := by positivity
    linarith [show (0 : α) < 0.3112 by norm_num]
  · have : 0 ≤ 4 * k / 100000 := by positivity
    linarith [show (0 : α) < 0.5677 by norm_num]

/-- … but FINDING: the loamy formula gives `aCR = 0` at `Ksat = 5540` and the silty-clayey one at
`Ksat = 795.75` mm/day — `assert aCR != 0` then aborts the initialisation of a perfectly valid soil
(replayed on the real method: `AssertionError`). -/
theorem crA_loamy_zero_iff (F : Fn α) (k : α) : (crOfClass F k .loamy).1 = 0 ↔ k = 5540 := by
  simp only [crOfClass]
  constructor
  · intro h
    have : 9 * k / 100000 = 0.4986 := by linarith
    rw [div_eq_iff (by norm_num)] at this
    norm_num at this
    linarith
  · rintro rfl
    norm_num

theorem crA_silty_zero_iff (F : Fn α) (k : α) : (crOfClass F k .siltyClayey).1 = 0 ↔ k = 795.75 := by
  simp only [crOfClass]
  constructor
  · intro h
    have : 8 * k / 10000 = 0.6366 := by linarith
    rw [div_eq_iff (by norm_num)] at this
    norm_num at this
    linarith
  · rintro rfl
    norm_num

/-- `aCR` vanishes only in those two cases -/
theorem crA_zero_cases (F : Fn α) (cls : CrClass) {k : α} (hk : 0 ≤ k)
    (h : (crOfClass F k cls).1 = 0) : (cls = .loamy ∧ k = 5540) ∨ (cls = .siltyClayey ∧ k = 795.75) := by
  cases cls
  · have := (crA_sandy_neg F hk).1; linarith
  · exact .inl ⟨rfl, (crA_loamy_zero_iff F k).1 h⟩
  · have := (crA_sandy_neg F hk).2; linarith
  · exact .inr ⟨rfl, (crA_silty_zero_iff F k).1 h⟩

end

/-- the leaf of the `if` tree each layer of the 15 built-in soils falls into
(Clay, ClayLoam, Default, Loam, LoamySand, Sand, SandyClay, SandyClayLoam, SandyLoam, Silt,
SiltClayLoam, SiltLoam, SiltClay, Paddy 1–2, ac_TunisLocal 1–2) -/
theorem builtin_cr_leaves :
    builtinLayers.map (fun l => (crBranch l.wp l.fc l.s l.ksat).1) =
      [1, 2, 6, 6, 3, 3, 2, 2, 3, 6, 1, 6, 1, 1, 1, 1, 6] := by decide +kernel

/-! ## Axiom audit -/
#print axioms hydraulic_ok_of_raw
#print axioms hydraulic_ok_of_raw_ksat_pos
#print axioms texture_order_region
#print axioms texture_order_region_om3
#print axioms texture_order_region_df
#print axioms raises_40_60_8
#print axioms returns_disordered_0_100_8
#print axioms raises_pure_sand
#print axioms raises_silt_df13
#print axioms layerFromTexture_spec_ok
#print axioms centroid_order
#print axioms centroid_ksat_pos
#print axioms texRoundLaws_FqTex
#print axioms centroid_table
#print axioms crParams_eq_branch
#print axioms crA_zero_cases
#print axioms builtin_cr_leaves

end Aqua
