import AquaVerif.Proofs.HarvestIndex
import AquaVerif.Proofs.RealInstance
import Mathlib.Analysis.SpecialFunctions.Trigonometric.Basic
/-
Non-vacuity of the law structures and premises of `Proofs/HarvestIndex.lean`: the real
`sin`, `exp`, `x ^ y := exp (y · log x)` satisfy `SinLaw`, `ExpLinLaw`, `PowNonneg`; the built-in
Wheat crop (values of a model initialised at Tunis, see `corr_harvest_index.py`) satisfies
`HiCrop.BuildUp` and `HiCrop.PostOK`; the main lemmas instantiated at the reals.
-/

namespace Aqua.HarvestIndexReal
open Aqua Aqua.Response

noncomputable def realTrig : TrigFn ℝ := { sin := Real.sin, pi := Real.pi }

theorem sinLaw_real : SinLaw realTrig := ⟨Real.neg_one_le_sin, Real.sin_le_one⟩

theorem expLinLaw_real : ExpLinLaw realFn :=
  ⟨fun x => by have := Real.add_one_le_exp x; show 1 + x ≤ Real.exp x; linarith⟩

theorem powNonneg_real : PowNonneg realFn := ⟨fun _ y hx => realFn_pow_nonneg hx y⟩

/-- Wheat (calendar-day crop) after initialisation -/
noncomputable def wheat : HiCrop ℝ :=
  { cropType := 3, hiStartCD := 127, hiEndCD := 194, yldFormCD := 67, floweringCD := 15,
    canopyDevEndCD := 134, hi0 := 0.48, hiIni := 0.01, hiGC := 0.116, tLinSwitch := 20,
    dHILinear := 0.008395, dHIpre := 5, aHI := 10, bHI := 7, dHI0 := 15, exc := 100, ccMin := 0.05 }

example : wheat.BuildUp :=
  ⟨Or.inr (Or.inr rfl), by norm_num [wheat], by norm_num [wheat], by norm_num [wheat],
    by norm_num [wheat]⟩

example : wheat.PostOK := ⟨by norm_num [wheat], by norm_num [wheat], fun _ => by norm_num [wheat]⟩

/-- the reference harvest index never decreases (reals, no law hypotheses left) -/
theorem hiref_mono_real (c : HiCrop ℝ) (hb : c.BuildUp) (s s' : HiRefIn ℝ)
    (ht : s.dap - s.delayedCDs ≤ s'.dap - s'.delayedCDs) (hfin : s.hiFinal ≤ s'.hiFinal)
    (hf0 : 0 ≤ s.hiFinal) :
    (hiRefCurrentDay realFn c s true).hiRef ≤ (hiRefCurrentDay realFn c s' true).hiRef :=
  hiref_mono expOrdLaws_real c hb s s' ht hfin hf0

/-- `calculate_HIGC` terminates for Wheat's values within the driver's fuel -/
example : (calculateHIGC realFn 1000000 67 0.48 0.01).isSome = true :=
  calculateHIGC_isSome expOrdLaws_real expAddLaw_real expLinLaw_real 1000000 67 0.48 0.01
    (by norm_num) (by norm_num) (by norm_num) (by norm_num)

/-- `calculate_HI_linear` terminates within `YldFormCD` iterations -/
example : (calculateHILinear realFn 67 67 0.01 0.48 0.116).isSome = true :=
  calculateHILinear_isSome realFn 67 67 0.01 0.48 0.116 (by norm_num)

/-- C05 for `harvest_index` at the reals; the water-stress premise is on the raw crop
parameters (`p_up i ≤ p_lo i ≤ 1`, `0 ≤ beta ≤ 100`, non-zero shape factors) and `et0 ≥ 0`. -/
theorem harvestIndex_c05_real {cells : List (Cell ℝ)} {zTop : ℝ} {c : HiCrop ℝ} (hc : c.PostOK)
    {k : HiStressCrop ℝ} {s o : HiState ℝ} {et0 tmax tmin : ℝ} {gs : Bool}
    (h : harvestIndex realFn realTrig cells zTop c k s et0 tmax tmin gs = .ok o)
    (hp : ∀ i, k.pUp i ≤ k.pLo i) (hp1 : ∀ i, k.pLo i ≤ 1) (het0 : 0 ≤ et0)
    (hb0 : 0 ≤ k.beta) (hb1 : k.beta ≤ 100)
    (hf : ∀ i : Fin 4, i.val < 3 → k.fshapeW i ≠ 0)
    (h0 : 0 ≤ c.hi0) (hcap : 0 ≤ 1 + c.dHI0 / 100) (hleafy : c.cropType = 1 → 0 ≤ c.dHI0)
    (href : 0 ≤ s.hiRef) (href' : s.hiRef ≤ c.hi0)
    (hs : s.NN) (hprev : s.hi ≤ c.hi0) (inv : s.hiAdj ≤ (1 + c.dHI0 / 100) * s.hi) :
    o.NN ∧ o.hi ≤ c.hi0 ∧ o.hiAdj ≤ (1 + c.dHI0 / 100) * o.hi ∧
      o.hiAdj ≤ (1 + c.dHI0 / 100) * c.hi0 :=
  harvestIndex_c05 expOrdLaws_real sinLaw_real powNonneg_real hc h
    (wsOrdered_real k.pUp k.pLo k.etAdj k.beta s.tEarlySen et0 true hp hp1 het0 hb0 hb1) hf h0 hcap
    hleafy href href' hs hprev inv

end Aqua.HarvestIndexReal
