import AquaVerif.Proofs.SeasonIndep

/-
Non-vacuity of `Proofs/SeasonIndep.lean` over `ℚ`: the configuration of `Proofs/Run.lean`
(`RunExample.cfgq`: four compartments, water table, constant-depth irrigation) extended to **two
seasons** with the off-season skipped — planting on days 0 and 4, latest harvest days 3 and 9,
window of 8 days — and *different weather in the two seasons*.

* `pre2 : SeasonPre cfg2 1 cfg2.init` — every premise of `season_independent` holds for season 1;
* `runsB` / `reach2`: six `_perform_timestep`s succeed (three days of season 0, the jump to day 4,
  three days of season 1), the run finishes, season 1 has three day records;
* `season1_is_fresh_run`: `season_independent` applied to that state — the fresh run has three day
  records paired with those of season 1 and is finished;
* `fresh_run_computed`: cross-check by computation — the fresh configuration run for three steps
  gives flux rows equal to those of season 1 up to the two labels.
-/

set_option linter.unusedSectionVars false
set_option linter.unusedVariables false
namespace Aqua
namespace SeasonIndepExample
open Aqua.Clock DayExample FullDayExample RunExample

/-- `cfgq` with two seasons and season-dependent weather, before fixing the initial state -/
def cfg0 : RunCfg ℚ :=
  { cfgq with
    clock := { n := 8, planting := [0, 4], harvest := [3, 9], offSeason := false, season0 := 0 }
    weather := fun t => { tmin := 15, tmax := 25, rain := if t < 4 then 20 else 2, et0 := 5 } }

/-- the two-season configuration; its initial state object is a reset state -/
def cfg2 : RunCfg ℚ := { cfg0 with init := resetState cfg0 cropq' cfgq.init }

theorem valid2 : Valid cfg2.clock := by decide

theorem pre2 : SeasonPre cfg2 1 cfg2.init :=
  { valid := valid2
    hk := by decide
    initOK := ⟨rfl, rfl, rfl, rfl⟩
    off := rfl
    offW := rfl
    dz := by
      intro x hx
      simp only [cfg2, cfg0, cfgq, resetState, resetStateCore, stq, cellsq, setTh, List.map_cons,
        List.map_nil, Bool.false_eq_true, if_false, List.mem_cons, List.not_mem_nil, or_false] at hx
      rcases hx with rfl | rfl | rfl | rfl <;> norm_num [cq]
    thini := by decide
    ct := Or.inr (Or.inr rfl)
    fresh := rfl
    reset := Or.inl (by norm_num) }

/-- the run: 3 days of season 0, jump to the second planting date, 3 days of season 1 -/
theorem runsB :
    (match runInit cfg2 with
     | .error _ => false
     | .ok s0 =>
       match runStepsR Fq Tq cfg2 6 s0 with
       | .ok s => decide (s.finished = true ∧ s.season = 1 ∧
           (s.daysRev.map (·.D.tsc)) = [6, 5, 4, 2, 1, 0] ∧
           (s.daysRev.map (·.D.season)) = [1, 1, 1, 0, 0, 0] ∧
           (s.daysRev.map (·.D.gs)) = [true, true, true, true, true, true] ∧
           s.summaryTable.length = 1 ∧ (seasonRecs 1 s.daysRev).length = 3)
       | .error _ => false) = true := by decide +kernel

theorem reach2 : ∃ s, RunReach Fq Tq cfg2 s ∧ s.finished = true ∧ s.season = 1 ∧
    (seasonRecs 1 s.daysRev).length = 3 := by
  have h := runsB
  cases h0 : runInit cfg2 with
  | error e => rw [h0] at h; simp at h
  | ok s0 =>
    rw [h0] at h
    simp only at h
    cases h1 : runStepsR Fq Tq cfg2 6 s0 with
    | error e => rw [h1] at h; simp at h
    | ok s =>
      rw [h1] at h
      simp only [decide_eq_true_eq] at h
      refine ⟨s, runReach_runSteps 6 (RunReach.init h0) h1, h.1, h.2.1, ?_⟩
      exact h.2.2.2.2.2.2

/-- **`season_independent` applies**: season 1 of the two-season run is, record for record, the
(finished) run of the fresh configuration started on day 4 -/
theorem season1_is_fresh_run : ∃ s s1, RunReach Fq Tq cfg2 s ∧
    RunReach Fq Tq (freshCfg cfg2 1) s1 ∧ s1.finished = true ∧ s1.daysRev.length = 3 ∧
    List.Forall₂ (RecSh 1 4 1) (seasonRecs 1 s.daysRev) s1.daysRev := by
  obtain ⟨s, hr, hf, hs, hl⟩ := reach2
  obtain ⟨s1, hr1, hF, hfin⟩ := season_independent pre2 hr
  refine ⟨s, s1, hr, hr1, hfin (Or.inr ⟨hs, hf⟩), ?_, hF⟩
  rw [← hF.length_eq]; exact hl

/-- cross-check by computation: the fresh configuration, run for three steps, finishes and its
`water_flux` rows are those of season 1 of the two-season run up to the two clock labels -/
theorem fresh_run_computed :
    (match runInit cfg2, runInit (freshCfg cfg2 1) with
     | .ok s0, .ok t0 =>
       match runStepsR Fq Tq cfg2 6 s0, runStepsR Fq Tq (freshCfg cfg2 1) 3 t0 with
       | .ok s, .ok s1 =>
         decide (s1.finished = true ∧
           (s.fluxTable.filter (fun x => decide (x.season = 1))).map
               (fun x => (x.tsc, x.dap, x.wr, x.infl)) =
             s1.fluxTable.map (fun x => (x.tsc + 4, x.dap, x.wr, x.infl)) ∧
           (s.fluxTable.filter (fun x => decide (x.season = 1))).map
               (fun x => (x.runoff, x.cr, x.es, x.tr)) =
             s1.fluxTable.map (fun x => (x.runoff, x.cr, x.es, x.tr)) ∧
           (s.fluxTable.filter (fun x => decide (x.season = 0))).map (·.infl) ≠
             (s.fluxTable.filter (fun x => decide (x.season = 1))).map (·.infl))
       | _, _ => false
     | _, _ => false) = true := by decide +kernel

end SeasonIndepExample
end Aqua

#print axioms Aqua.SeasonIndepExample.pre2
#print axioms Aqua.SeasonIndepExample.season1_is_fresh_run
#print axioms Aqua.SeasonIndepExample.fresh_run_computed
