import AquaVerif.Proofs.PowSq
import AquaVerif.Proofs.RealInstance
import AquaVerif.Proofs.SoilEvaporation
import AquaVerif.Proofs.CropCalendar
import AquaVerif.Proofs.CapillaryRise
import AquaVerif.Proofs.Drainage
import AquaVerif.Proofs.SoilTexture
import AquaVerif.Proofs.IrrigationExamples
import AquaVerif.Proofs.Infiltration
import AquaVerif.Proofs.Transpiration
import AquaVerif.Proofs.WaterDay
import AquaVerif.Proofs.RunClosedExample
/-
Non-vacuity of `PowSqLaw` (`x ** 2 = x · x`, `Proofs/PowSq.lean`): the real power and every ℚ
instance the example sections of the proof files compute with satisfy it.  (The ℚ instances give
`pow` the value `x · x` at the literal exponent 2 and keep their placeholder elsewhere; the private
`idF` of `Proofs/InitWC.lean` is checked there.)
-/

namespace Aqua

theorem powSqLaw_real' : PowSqLaw Response.realFn := Response.powSqLaw_real

theorem powSqLaw_dayFq : PowSqLaw DayExample.Fq := DayExample.Fq_sq
theorem powSqLaw_Fq2 : PowSqLaw RunClosedExample.Fq2 := RunClosedExample.fnOK_q.powSq
theorem powSqLaw_FqTex : PowSqLaw FqTex := ⟨fun x => by simp [FqTex]⟩
theorem powSqLaw_esFq : PowSqLaw Example.Fq := ⟨fun x => by simp [Example.Fq]⟩
theorem powSqLaw_calFq : PowSqLaw CalExample.Fq := ⟨fun x => by simp [CalExample.Fq]⟩
theorem powSqLaw_trFq : PowSqLaw TrExample.Fq := ⟨fun x => by simp [TrExample.Fq]⟩
theorem powSqLaw_gwExF : PowSqLaw gwExF := ⟨fun x => by simp [gwExF]⟩
theorem powSqLaw_exF : PowSqLaw exF := ⟨fun x => by simp [exF]⟩
theorem powSqLaw_exFn : PowSqLaw exFn := ⟨fun x => by simp [exFn]⟩
theorem powSqLaw_idFn : PowSqLaw IrrEx.idFn := ⟨fun x => by simp [IrrEx.idFn]⟩

end Aqua

#print axioms Aqua.powSqLaw_real'
#print axioms Aqua.powSqLaw_Fq2
#print axioms Aqua.powSqLaw_FqTex
