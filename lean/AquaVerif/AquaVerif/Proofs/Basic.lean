import AquaVerif.Model.Profile
import Mathlib.Algebra.Order.Field.Basic
import Mathlib.Tactic.Ring
import Mathlib.Tactic.FieldSimp
import Mathlib.Tactic.Linarith
import Mathlib.Tactic.LinearCombination
import Mathlib.Tactic.Positivity
import Mathlib.Tactic.NormNum
import Mathlib.Tactic.NormNum.OfScientific
/-
Shared facts for the proof files: the model's `pmax`/`pmin` are the lattice `max`/`min`,
well-formedness predicates for compartments and cells, basic storage lemmas.

All proofs are carried out for an arbitrary linearly ordered field `α`.
-/

set_option linter.unusedSectionVars false
namespace Aqua
variable {α : Type} [Field α] [LinearOrder α] [IsStrictOrderedRing α]

theorem pmax_eq (a b : α) : pmax a b = max a b := by
  unfold pmax; split
  · rename_i h; exact (max_eq_right (le_of_lt h)).symm
  · rename_i h; exact (max_eq_left (not_lt.mp h)).symm

theorem pmin_eq (a b : α) : pmin a b = min a b := by
  unfold pmin; split
  · rename_i h; exact (min_eq_right (le_of_lt h)).symm
  · rename_i h; exact (min_eq_left (not_lt.mp h)).symm

/-- Well-formed compartment: the hydraulic ordering the soil builder guarantees (C18). -/
structure Comp.WF (c : Comp α) : Prop where
  dz_pos   : 0 < c.dz
  dry_pos  : 0 ≤ c.thDry
  dry_wp   : c.thDry ≤ c.thWP
  wp_fc    : c.thWP < c.thFC
  fc_s     : c.thFC ≤ c.thS
  tau_nn   : 0 ≤ c.tau
  tau_le   : c.tau ≤ 1
  ksat_nn  : 0 ≤ c.ksat

/-- Cell state within physical limits (the invariant of C03) with a consistent adjusted
field capacity (C19). -/
structure Cell.Inv (x : Cell α) : Prop where
  wf     : x.c.WF
  th_lo  : x.c.thDry ≤ x.th
  th_hi  : x.th ≤ x.c.thS
  fc_lo  : x.c.thFC ≤ x.fcAdj
  fc_hi  : x.fcAdj ≤ x.c.thS

@[simp] theorem storage_nil : storage ([] : List (Cell α)) = 0 := rfl
@[simp] theorem storage_cons (x : Cell α) (xs : List (Cell α)) :
    storage (x :: xs) = x.water + storage xs := rfl

theorem storage_append (xs ys : List (Cell α)) :
    storage (xs ++ ys) = storage xs + storage ys := by
  induction xs with
  | nil => simp
  | cons x xs ih => simp [ih, add_assoc]

theorem storage_reverse (xs : List (Cell α)) : storage xs.reverse = storage xs := by
  induction xs with
  | nil => simp
  | cons x xs ih => simp [storage_append, ih, add_comm]

end Aqua
