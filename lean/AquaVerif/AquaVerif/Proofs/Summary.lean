import AquaVerif.Properties.C13
import AquaVerif.Proofs.Transpiration
import AquaVerif.Model.Yield
/-
Seasonal irrigation totals (property C06, summary part): the running counter the summary row
reports equals the sum of the daily irrigation column.

* surface irrigation (methods 0–3, 5): `Aqua.C13.run` threads `IrrCum` through a history of days
  of `irrigation`; over in-season days the final counter is the initial one plus the sum of the
  applied depths (also when the seasonal cap binds — the capped depth is what is applied *and*
  what is added); an off-season day resets the counter to 0 and applies 0.
* net irrigation (method 4): one day of `transpiration` advances `irr_net_cum` by exactly the
  day's `IrrNet`, and step 21 adds the pre-irrigation to both.
-/

set_option linter.unusedSectionVars false
namespace Aqua
open Aqua.C13
variable {α : Type} [Field α] [LinearOrder α] [IsStrictOrderedRing α]

/-- unfolding one day of a history -/
theorem run_cons {F : Fn α} {P : IrrParams α} {c c' : α} {d : DayIn α} {ds : List (DayIn α)}
    {xs : List α} (h : run F P c (d :: ds) = some (c', xs)) :
    ∃ o ys, day F P c d = .ok o ∧ run F P o.irrCum ds = some (c', ys) ∧ xs = o.irr :: ys := by
  simp only [run] at h
  split at h
  · cases h
  · rename_i o ho
    cases hr : run F P o.irrCum ds with
    | none => rw [hr] at h; cases h
    | some p =>
      rw [hr] at h
      simp only [Option.map_some, Option.some.injEq, Prod.mk.injEq] at h
      obtain ⟨rfl, rfl⟩ := h
      exact ⟨o, p.2, ho, by rw [hr], rfl⟩

/-- **the seasonal counter is the sum of the daily depths**: over a history of in-season days the
final `IrrCum` is the initial one plus the sum of the applied depths. -/
theorem season_total_is_sum (F : Fn α) (P : IrrParams α) :
    ∀ (ds : List (DayIn α)) (c c' : α) (xs : List α), (∀ d ∈ ds, d.gs = true) →
      run F P c ds = some (c', xs) → c' = c + xs.sum := by
  intro ds
  induction ds with
  | nil =>
    intro c c' xs _ h
    simp only [run, Option.some.injEq, Prod.mk.injEq] at h
    obtain ⟨rfl, rfl⟩ := h
    simp
  | cons d ds ih =>
    intro c c' xs hg h
    obtain ⟨o, ys, ho, hr, rfl⟩ := run_cons h
    have h1 := counter_is_running_sum F P c d o ho (hg d (by simp))
    have h2 := ih o.irrCum c' ys (fun e he => hg e (by simp [he])) hr
    rw [h2, h1, List.sum_cons]; ring

/-- the history has one applied depth per day -/
theorem run_length (F : Fn α) (P : IrrParams α) :
    ∀ (ds : List (DayIn α)) (c c' : α) (xs : List α), run F P c ds = some (c', xs) →
      xs.length = ds.length := by
  intro ds
  induction ds with
  | nil =>
    intro c c' xs h
    simp only [run, Option.some.injEq, Prod.mk.injEq] at h
    obtain ⟨rfl, rfl⟩ := h; rfl
  | cons d ds ih =>
    intro c c' xs h
    obtain ⟨o, ys, _, hr, rfl⟩ := run_cons h
    simp [ih _ _ _ hr]

/-- an off-season day applies nothing and resets the counter -/
theorem offseason_day_resets (F : Fn α) (P : IrrParams α) (c : α) (d : DayIn α) (o : IrrOut α)
    (h : day F P c d = .ok o) (hg : d.gs = false) : o.irr = 0 ∧ o.irrCum = 0 := by
  unfold day at h; rw [hg] at h
  exact ⟨(irr_offseason h).1, (irr_offseason h).2.1⟩

/-- a non-empty stretch of off-season days ends with the counter at 0 and applied nothing -/
theorem offseason_run_resets (F : Fn α) (P : IrrParams α) :
    ∀ (ds : List (DayIn α)) (c c' : α) (xs : List α), ds ≠ [] → (∀ d ∈ ds, d.gs = false) →
      run F P c ds = some (c', xs) → c' = 0 ∧ ∀ x ∈ xs, x = 0 := by
  intro ds
  induction ds with
  | nil => intro c c' xs hne; exact absurd rfl hne
  | cons d ds ih =>
    intro c c' xs _ hg h
    obtain ⟨o, ys, ho, hr, rfl⟩ := run_cons h
    obtain ⟨hi, hc⟩ := offseason_day_resets F P c d o ho (hg d (by simp))
    cases ds with
    | nil =>
      simp only [run, Option.some.injEq, Prod.mk.injEq] at hr
      obtain ⟨rfl, rfl⟩ := hr
      exact ⟨hc, by simp [hi]⟩
    | cons e es =>
      obtain ⟨h1, h2⟩ := ih o.irrCum c' ys (by simp) (fun x hx => hg x (by simp [hx])) hr
      refine ⟨h1, ?_⟩
      intro x hx
      rcases List.mem_cons.mp hx with rfl | hx
      · exact hi
      · exact h2 x hx

/-- splitting a history -/
theorem run_append (F : Fn α) (P : IrrParams α) :
    ∀ (as bs : List (DayIn α)) (c c' : α) (xs : List α), run F P c (as ++ bs) = some (c', xs) →
      ∃ c1 xa xb, run F P c as = some (c1, xa) ∧ run F P c1 bs = some (c', xb) ∧ xs = xa ++ xb := by
  intro as
  induction as with
  | nil => intro bs c c' xs h; exact ⟨c, [], xs, rfl, by simpa using h, rfl⟩
  | cons a as ih =>
    intro bs c c' xs h
    obtain ⟨o, ys, ho, hr, rfl⟩ := run_cons (by simpa using h)
    obtain ⟨c1, xa, xb, h1, h2, rfl⟩ := ih bs o.irrCum c' ys hr
    refine ⟨c1, o.irr :: xa, xb, ?_, h2, rfl⟩
    simp only [run, ho, h1, Option.map_some]

/-- **one season after an off-season stretch**: whatever the counter was before, after a
non-empty off-season stretch followed by the in-season days of a season the counter equals the sum
of the daily depths of *that season* (and of the whole history, the off-season depths being 0). -/
theorem season_total_after_offseason (F : Fn α) (P : IrrParams α) (off ds : List (DayIn α))
    (c c' : α) (xs : List α) (hne : off ≠ []) (hoff : ∀ d ∈ off, d.gs = false)
    (hin : ∀ d ∈ ds, d.gs = true) (h : run F P c (off ++ ds) = some (c', xs)) :
    c' = (xs.drop off.length).sum ∧ c' = xs.sum := by
  obtain ⟨c1, xa, xb, h1, h2, rfl⟩ := run_append F P off ds c c' xs h
  obtain ⟨hc1, hz⟩ := offseason_run_resets F P off c c1 xa hne hoff h1
  have hlen := run_length F P off c c1 xa h1
  have hs := season_total_is_sum F P ds c1 c' xb hin h2
  have hza : ∀ l : List α, (∀ x ∈ l, x = 0) → l.sum = 0 := by
    intro l
    induction l with
    | nil => intro _; rfl
    | cons a as ih =>
      intro hl
      rw [List.sum_cons, hl a (by simp), ih (fun x hx => hl x (by simp [hx]))]; simp
  rw [hc1, zero_add] at hs
  constructor
  · rw [← hlen, List.drop_left]; exact hs
  · rw [List.sum_append, hza xa hz, zero_add]; exact hs

/-! ### net irrigation -/

/-- in net-irrigation mode one in-season day of `transpiration` advances the cumulative net
irrigation by exactly the day's net irrigation -/
theorem transp_irrNetCum_step {F : Fn α} {cells : List (Cell α)} {nComp : Nat} {zTop : α}
    {crop : TrCrop α} {smt : α} {st : TrState α} {et0 cur ref gdd : α} {out : TrOut α}
    (h : transpiration F cells nComp zTop crop 4 smt st et0 cur ref true gdd = .ok out) :
    out.st.irrNetCum = st.irrNetCum + out.irrNet := by
  unfold transpiration at h
  simp only [if_true] at h
  split at h
  · cases h
  · split at h
    · cases h
    · split at h
      · cases h
      · unfold trCore at h
        simp only [] at h
        split_ifs at h
        split at h
        · cases h
        · rename_i ni hni
          simp only [Except.ok.injEq] at h
          subst h
          simp only [trFinish]
          unfold trNetIrr at hni
          split_ifs at hni with h1 h2
          · split at hni
            · cases hni
            · simp only [Except.ok.injEq] at hni; subst hni; rfl
          · simp only [Except.ok.injEq] at hni; subst hni; simp
          · exfalso
            rcases lt_or_ge 0 (trPotRzOf 4 _ _ : α) with hp | hp
            · exact h1 ⟨rfl, hp⟩
            · exact h2 ⟨rfl, hp⟩

/-- with another method the net-irrigation counter and the day's net irrigation are 0 -/
theorem transp_irrNet_zero_of_not_net {F : Fn α} {cells : List (Cell α)} {nComp : Nat} {zTop : α}
    {crop : TrCrop α} {m : Nat} {smt : α} {st : TrState α} {et0 cur ref gdd : α} {gs : Bool}
    {out : TrOut α} (hm : m ≠ 4)
    (h : transpiration F cells nComp zTop crop m smt st et0 cur ref gs gdd = .ok out) :
    out.st.irrNetCum = 0 ∧ out.irrNet = 0 := by
  cases gs
  · obtain ⟨_, _, _, h4, _, h6⟩ := transp_offseason h
    rw [h6]; exact ⟨rfl, h4⟩
  · unfold transpiration at h
    simp only [if_true] at h
    split at h
    · cases h
    · split at h
      · cases h
      · split at h
        · cases h
        · unfold trCore at h
          simp only [] at h
          split_ifs at h
          split at h
          · cases h
          · rename_i ni hni
            simp only [Except.ok.injEq] at h
            subst h
            simp only [trFinish]
            unfold trNetIrr at hni
            simp only [hm, false_and, if_false, Except.ok.injEq] at hni
            subst hni; exact ⟨rfl, rfl⟩

/-- the reported daily / seasonal irrigation of a day (`irrReport`): under net irrigation the
reported total advances by the reported daily value (transpiration's net irrigation plus the
pre-irrigation), given the counter relation of the transpiration step -/
theorem irrReport_net (irr irrCum irrNet irrNetCum0 irrNetCum preIrr : α)
    (hstep : irrNetCum = irrNetCum0 + irrNet) :
    (irrReport 4 irr irrCum irrNet irrNetCum preIrr true).2.1 =
      irrNetCum0 + (irrReport 4 irr irrCum irrNet irrNetCum preIrr true).1 := by
  simp only [irrReport, if_true]
  rw [hstep]; ring

/-- under every other method the report is `(Irr, IrrCum)`, off season `(0, 0)` -/
theorem irrReport_surface (m : Nat) (hm : m ≠ 4) (irr irrCum irrNet irrNetCum preIrr : α) :
    (irrReport m irr irrCum irrNet irrNetCum preIrr true).1 = irr ∧
      (irrReport m irr irrCum irrNet irrNetCum preIrr true).2.1 = irrCum := by
  simp [irrReport, hm]

theorem irrReport_offseason (m : Nat) (irr irrCum irrNet irrNetCum preIrr : α) :
    (irrReport m irr irrCum irrNet irrNetCum preIrr false).1 = 0 ∧
      (irrReport m irr irrCum irrNet irrNetCum preIrr false).2.1 = 0 := by
  simp [irrReport]

end Aqua
