import AquaVerif.Proofs.RunTotalCatalogue
import AquaVerif.Proofs.CatalogueExample
/-
Work package Z, part 6: **non-vacuity of `catalogue_run_total`** — the catalogue configuration of
`Proofs/CatalogueExample.lean` (Wheat of the generated crop table on SandyLoam of the generated soil
table, 12 compartments deepened to 1.6 m for `Zmax = 1.5 m`, no water table, rainfed, window of
250 days) satisfies `CatTotOK` with `Zcap = 1.5`, `Zev = 0.301` and `TopOK`; hence its run
terminates without an error branch (`catalogue_total_example`).

The geometry of the built profile is made explicit: the rows `mkComps` returns match the integer
geometry `geo12` (`dzsum` = 10, 20, …, 100, 130, 160 cm), so every geometric premise of `ProfOK` is
a statement about that list.
-/

set_option linter.unusedSectionVars false
set_option linter.unusedVariables false
set_option linter.unusedSimpArgs false
namespace Aqua
namespace RunTotalCatalogueExample
open Aqua.Generated Aqua.Response Aqua.HarvestIndexReal Aqua.Clock Aqua.CatalogueExample

/-- the final integer geometry of the example profile -/
def geo12 : List GComp :=
  refreshFrom 0 (buildGeometry (List.replicate 12 10)) [10, 10, 10, 10, 10, 10, 10, 10, 10, 10, 30, 30]

theorem geo12_dzsum : geo12.map (·.dzsum) = [10, 20, 30, 40, 50, 60, 70, 80, 90, 100, 130, 160] := by
  decide

/-- `GeoMatch` of equally long lists fixes the `dzsum` column -/
theorem geoMatch_dzsum : ∀ (cs : List (Comp ℝ)) (geo : List GComp), GeoMatch cs geo →
    cs.length = geo.length → cs.map (·.dzsum) = geo.map (fun g => (cmToM g.dzsum : ℝ))
  | [], [], _, _ => rfl
  | [], _ :: _, _, h => by simp at h
  | _ :: _, [], h, _ => by simp [GeoMatch] at h
  | c :: cs, g :: gs, h, hl => by
    obtain ⟨_, h2, h3⟩ := h
    simp only [List.map_cons, h2, geoMatch_dzsum cs gs h3 (by simpa using hl)]

/-- `soil_built` of `Proofs/CatalogueExample.lean`, keeping the geometry of the rows -/
theorem soil_built' (l : BLayer) :
    ∃ so : SoilOut ℝ, ∃ o : InitOut ℝ,
      soilProfile realFn natGe1 natGe2 more150 10 (List.replicate 12 10) [l.toSpec 120] false false
        false 9 0.04 46 0.1 = .ok so ∧
      initWC realFn so.comps false 0 1.6 .prop .layer ptsFC = .ok o ∧
      so.comps.map (·.layer) = List.replicate 12 1 ∧ GeoMatch so.comps geo12 := by
  have hl : assignLayersG natGe1 natGe2 ((buildGeometry (10 :: List.replicate 11 10)).map (·.dzsum))
      (([l.toSpec 120] : List (LayerSpec ℝ Nat)).map (·.thick)) = .ok (List.replicate 12 (1, 0)) :=
    layers12
  obtain ⟨cs0, hm, hlay⟩ := mkComps_ok realFn ([l.toSpec 120] : List (LayerSpec ℝ Nat))
    (refreshFrom 0 (buildGeometry (10 :: List.replicate 11 10))
      [10, 10, 10, 10, 10, 10, 10, 10, 10, 10, 30, 30]) (List.replicate 12 (1, 0)) (by rfl)
    (fun lk hlk => by rw [(List.mem_replicate.mp hlk).2]; rfl)
  have hgm : GeoMatch cs0 geo12 := mkComps_geoMatch realFn _ _ _ _ hm
  have hlay' : cs0.map (·.layer) = List.replicate 12 1 := by rw [hlay]; rfl
  have hne : cs0 ≠ [] := by
    intro h; rw [h] at hlay'; cases hlay'
  obtain ⟨so, hs, hcomps⟩ := soilProfile_ok_noWT realFn natGe1 natGe2 more150 10 10
    (List.replicate 11 10) [l.toSpec 120] false 9 0.04 46 0.1 _ _ _ cs0 hl deepen12 hm hne
  have hex : ∃ c ∈ so.comps, c.layer = 1 := by
    rw [hcomps]
    cases cs0 with
    | nil => exact absurd rfl hne
    | cons c0 rest =>
      refine ⟨c0, by simp, ?_⟩
      have := congrArg List.head? hlay'
      simpa using this
  obtain ⟨o, ho⟩ := initWC_layer_ok_noWT realFn so.comps 0 1.6 .prop ptsFC (fun p hp => by
    simp only [ptsFC, List.mem_cons, List.not_mem_nil, or_false] at hp
    subst hp
    exact hex)
  exact ⟨so, o, hs, ho, by rw [hcomps]; exact hlay', by rw [hcomps]; exact hgm⟩

/-- membership in a profile from membership of the depth in its `dzsum` column -/
theorem exists_cell_of_dzsum {cells : List (Cell ℝ)} {ds : List ℝ}
    (h : cells.map (fun x => x.c.dzsum) = ds) {d : ℝ} (hd : d ∈ ds) (P : ℝ → Prop) (hP : P d) :
    ∃ x ∈ cells, P x.c.dzsum := by
  rw [← h] at hd
  obtain ⟨x, hx, e⟩ := List.mem_map.1 hd
  exact ⟨x, hx, by rw [e]; exact hP⟩

theorem countBelow_eq_filter (z : ℝ) : ∀ cells : List (Cell ℝ),
    countBelow z cells = ((cells.map (fun x => x.c.dzsum)).filter (fun d => decide (d < z))).length
  | [] => rfl
  | x :: xs => by
    simp only [countBelow, List.map_cons, List.filter_cons, countBelow_eq_filter z xs]
    by_cases h : x.c.dzsum < z
    · simp [h]; omega
    · simp [h]

/-- the `dzsum` column of the example profile, in metres -/
noncomputable def dzsum12 : List ℝ := [0.1, 0.2, 0.3, 0.4, 0.5, 0.6, 0.7, 0.8, 0.9, 1, 1.3, 1.6]

section
variable {c : CropFull} {l : BLayer} {so : SoilOut ℝ} {o : InitOut ℝ}

/-- the compartments of the initial cells are the rows of the builder -/
theorem cells_comps (hl : tableLayer "SandyLoam" = some l)
    (hs : soilProfile realFn natGe1 natGe2 more150 10 (List.replicate 12 10) [l.toSpec 120] false
      false false 9 0.04 46 0.1 = .ok so)
    (hi : initWC realFn so.comps false 0 1.6 .prop .layer ptsFC = .ok o)
    (hlay : so.comps.map (·.layer) = List.replicate 12 1) :
    (initCells so.comps o.th o.fcAdjInit).map (·.c) = so.comps := by
  obtain ⟨⟨wp, fc, sf, hL⟩, hfacts, _⟩ := soilProfile_facts realFn natGe1 natGe2 natGe1_anti
    natGe2_anti more150 10 (List.replicate 12 10) [l.toSpec 120] false false false 9 0.04 46 0.1
    so (fun sp hsp => by
      simp only [List.mem_cons, List.not_mem_nil, or_false] at hsp
      subst hsp
      exact specOK_of_builtin (tableLayer_mem hl) 120) hs
  have hwf : ∀ c ∈ so.comps, c.thDry ≤ c.thWP ∧ c.thWP ≤ c.thFC ∧ c.thFC ≤ c.thS :=
    fun c hc => by
      obtain ⟨_, f2, f3, f4, _⟩ := hfacts c hc
      exact ⟨f2, f3.le, f4.le⟩
  obtain ⟨hth, hfc⟩ := initWC_layer_bounds (F := realFn) false 0 1.6 .prop ptsFC o hL hwf
    (fun h => by cases h)
    (fun c hc => by
      have : c.layer ∈ so.comps.map (·.layer) := List.mem_map_of_mem hc
      rw [hlay] at this
      exact ⟨⟨1, 0, 0, .fc⟩, by simp [ptsFC], (List.mem_replicate.mp this).2.symm⟩)
    (fun p hp => by
      simp only [ptsFC, List.mem_cons, List.not_mem_nil, or_false] at hp
      subst hp
      show PropVal.fc ≠ PropVal.other
      decide) hi
  exact initCells_comps hth hfc

/-- the `dzsum` column of the initial cells -/
theorem cells_dzsum (hc : (initCells so.comps o.th o.fcAdjInit).map (·.c) = so.comps)
    (hlay : so.comps.map (·.layer) = List.replicate 12 1) (hgm : GeoMatch so.comps geo12) :
    (initCells so.comps o.th o.fcAdjInit).map (fun x => x.c.dzsum) = dzsum12 := by
  have hlen : so.comps.length = geo12.length := by
    have h12 : geo12.length = 12 := by decide
    have := congrArg List.length hlay
    rw [h12]
    simpa using this
  have h1 := geoMatch_dzsum so.comps geo12 hgm hlen
  have h2 : (initCells so.comps o.th o.fcAdjInit).map (fun x => x.c.dzsum)
      = so.comps.map (·.dzsum) := by
    have := congrArg (List.map (fun c : Comp ℝ => c.dzsum)) hc
    rw [List.map_map] at this
    exact this
  rw [h2, h1]
  have h3 : geo12.map (fun g => (cmToM g.dzsum : ℝ))
      = (geo12.map (·.dzsum)).map (fun n => (cmToM n : ℝ)) := by rw [List.map_map]; rfl
  rw [h3, geo12_dzsum]
  simp only [List.map_cons, List.map_nil, cmToM, dzsum12]
  norm_num

/-- **`ProfOK` of the example profile** (`Zcap = 1.5`, `Zev = 0.301`) and `TopOK` -/
theorem profOK_example (hc : tableCrop "Wheat" = some c) (hl : tableLayer "SandyLoam" = some l)
    (hs : soilProfile realFn natGe1 natGe2 more150 10 (List.replicate 12 10) [l.toSpec 120] false
      false false 9 0.04 46 0.1 = .ok so)
    (hi : initWC realFn so.comps false 0 1.6 .prop .layer ptsFC = .ok o)
    (hlay : so.comps.map (·.layer) = List.replicate 12 1) (hgm : GeoMatch so.comps geo12) :
    ProfOK realFn soilW 0 0.3 1.5 0.301 (initCells so.comps o.th o.fcAdjInit) ∧
      TopOK realFn 0.1 (initCells so.comps o.th o.fcAdjInit) := by
  have hcat := catCfg_example hc hl hs hi hlay
  have hS := hcat.soil.ok
  have hcm := cells_comps hl hs hi hlay
  have hdz := cells_dzsum hcm hlay hgm
  have hlen : (initCells so.comps o.th o.fcAdjInit).length = 12 := by
    have := congrArg List.length hdz
    simpa [dzsum12] using this
  have hlayers : (initCells so.comps o.th o.fcAdjInit).map (·.c.layer) = List.replicate 12 1 := by
    have := congrArg (List.map (fun c : Comp ℝ => c.layer)) hcm
    rw [List.map_map] at this
    rw [← hlay]
    exact this
  have hbot : ∀ z : ℝ, z ≤ 1.6 → ∃ x ∈ initCells so.comps o.th o.fcAdjInit, z ≤ x.c.dzsum :=
    fun z hz => exists_cell_of_dzsum hdz (d := 1.6) (by simp [dzsum12]) (fun d => z ≤ d) hz
  refine ⟨?_, exists_cell_of_dzsum hdz (d := 0.1) (by simp [dzsum12]) (fun d => d ≤ (0.1 : ℝ))
    (le_refl _)⟩
  exact
    { ne := fun h => by rw [h] at hlen; simp at hlen
      dz := fun x hx => (hS.cells0 x hx).inv.wf.dz_pos
      pen := fun x hx => ⟨(hS.pen x hx).1, (hS.pen x hx).2, (hS.cells0 x hx).inv.wf.wp_fc⟩
      deep2 := fun z hz => hbot z (by linarith)
      deepPy := fun z hz => hbot z (by linarith)
      tip := hbot 1.5 (by norm_num)
      germ := hbot 0.3 (by norm_num)
      cn := fun _ => hbot 0.3 (by norm_num)
      evap := by
        unfold EvapDeep
        rw [countBelow_eq_filter, hdz, hlen]
        have : (dzsum12.filter (fun d => decide (d < (0.301 : ℝ)))).length = 3 := by
          simp only [dzsum12, List.filter_cons, List.filter_nil]
          norm_num
        rw [this]
        norm_num
      lastLayer := fun h => absurd h (by decide)
      layers := by
        have hn : nLayers (initCells so.comps o.th o.fcAdjInit) = 1 := by
          unfold nLayers
          rw [hlayers]
          decide
        have hlo : layersOf (initCells so.comps o.th o.fcAdjInit)
            = [layerOf 1 (initCells so.comps o.th o.fcAdjInit)] := by
          unfold layersOf
          rw [hn]
          rfl
        rw [hlo]
        refine ⟨by simp, fun lay hlay' => ?_⟩
        simp only [List.mem_cons, List.not_mem_nil, or_false] at hlay'
        subst hlay'
        cases hcs : initCells so.comps o.th o.fcAdjInit with
        | nil => rw [hcs] at hlen; simp at hlen
        | cons x xs =>
          have hx1 : x.c.layer = 1 := by
            have := hlayers
            rw [hcs] at this
            simp only [List.map_cons] at this
            have h0 := congrArg List.head? this
            simpa using h0
          refine ⟨x.c.pen, ?_⟩
          unfold layerOf
          simp [List.filter_cons, hx1]
      nComp := by rw [hlen]; exact le_refl _ }

end

/-- **there is a catalogue configuration to which `catalogue_run_total` applies**: its run of 250
days terminates without an error branch, and from every reachable unfinished state every
`_perform_timestep` / `run_model(num_steps = k ≥ 1)` succeeds -/
theorem catalogue_total_example :
    ∃ cfg : RunCfg ℝ, CatCfg cfg ∧ CatTotOK cfg 1.5 0.301 ∧
      TopOK realFn cfg.W0.soil.zTop cfg.init.cells ∧
      (∃ s₀ s, runInit cfg = .ok s₀ ∧ runModel realFn realTrig cfg 250 s₀ = .ok s ∧
        s.finished = true) ∧
      ∀ s, RunReach realFn realTrig cfg s → s.finished = false →
        ∃ s', performR realFn realTrig cfg s = .ok s' := by
  obtain ⟨c, hc⟩ := Option.isSome_iff_exists.mp wheat_in_table
  obtain ⟨l, hl⟩ := Option.isSome_iff_exists.mp sandyLoam_in_table
  obtain ⟨so, o, hs, hi, hlay, hgm⟩ := soil_built' l
  have hcat := catCfg_example hc hl hs hi hlay
  obtain ⟨hprof, htop⟩ := profOK_example hc hl hs hi hlay hgm
  have hzmax : ((c.zmax : ℚ) : ℝ) ≤ 1.5 := by
    have h1 : (tableCrop "Wheat").map (·.zmax) = some (3 / 2) := by decide +kernel
    rw [hc] at h1
    simp only [Option.map_some, Option.some.injEq] at h1
    rw [h1]; norm_num
  have hX : CatTotOK (cfgW c (initCells so.comps o.th o.fcAdjInit) o.th) 1.5 0.301 :=
    { prof := hprof
      zmax := fun _ => hzmax
      zmaxF := hzmax
      fallowZmin := by norm_num
      irr := ⟨(by show (0 : Nat) ≤ 5; omega), (fun h => by have h' : (0 : Nat) = 2 := h; omega),
        (by show (0 : ℝ) ≤ 100; norm_num)⟩
      fallowIrr := ⟨(by show (0 : Nat) ≤ 5; omega),
        (fun h => by have h' : (0 : Nat) = 2 := h; omega), (by show (0 : ℝ) ≤ 100; norm_num)⟩
      sched := fun h => by have h' : (0 : Nat) = 3 := h; omega
      wt := Or.inl rfl
      zgw := fun h => by have h' : (0 : Nat) = 1 := h; omega
      steps := by show (20 : Nat) ≠ 0; omega
      evLo := by show (0.15 : ℝ) ≤ 0.301; norm_num
      evHi := by show (0.3 : ℝ) + 0.001 ≤ 0.301; norm_num
      evFuel := by show (0.3 : ℝ) - 0.15 ≤ 100; norm_num
      stage0 := by show (0 : Nat) ≤ 4; omega
      ev0 := by show (0.3 : ℝ) - 100 ≤ 0; norm_num
      ev1 := by show (0 : ℝ) ≤ 0.301; norm_num }
  obtain ⟨⟨s₀, s, h0, h1, h2, _⟩, hstep⟩ := catalogue_run_total hcat hX htop
  exact ⟨_, hcat, hX, htop, ⟨s₀, s, h0, h1, h2⟩, fun s hr hf => (hstep s hr hf).1⟩

end RunTotalCatalogueExample
end Aqua

#print axioms Aqua.RunTotalCatalogueExample.profOK_example
#print axioms Aqua.RunTotalCatalogueExample.catalogue_total_example
