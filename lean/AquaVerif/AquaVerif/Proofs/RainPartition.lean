import AquaVerif.Model.RainPartition
import AquaVerif.Proofs.PowSq

namespace Aqua
variable {α : Type} [Field α] [LinearOrder α] [IsStrictOrderedRing α]

/-- SCS curve-number split: for `0 < cn ≤ 100` and `0 ≤ p`, runoff lies in `[0, p]`
and runoff + infiltration = rain.  Law used: `PowSqLaw` (`term ** 2 = term · term`). -/
theorem scsSplit_bounds {F : Fn α} (hF : PowSqLaw F) (p cn : α) (hp : 0 ≤ p) (hcn : 0 < cn)
    (hcn' : cn ≤ 100) :
    0 ≤ (scsSplit F p cn).1 ∧ (scsSplit F p cn).1 ≤ p ∧
      (scsSplit F p cn).1 + (scsSplit F p cn).2 = p := by
  have hS : 0 ≤ 25400 / cn - 254 := by
    rw [sub_nonneg, le_div_iff₀ hcn]; norm_num; nlinarith
  unfold scsSplit
  simp only [hF.pow_two]
  split_ifs with h
  · exact ⟨le_refl _, hp, by simp⟩
  · rw [not_le] at h
    set s := (25400 / cn - 254 : α) with hs
    have hden : 0 < p + (1 - 5 / 100) * s := by
      have : (0:α) ≤ (1 - 5 / 100) * s := by
        apply mul_nonneg _ hS; norm_num
      have hp' : 0 < p := by
        have : (0:α) ≤ 5 / 100 * s := by apply mul_nonneg _ hS; norm_num
        linarith
      linarith
    refine ⟨?_, ?_, by ring⟩
    · apply div_nonneg (mul_self_nonneg _) hden.le
    · rw [div_le_iff₀ hden]
      norm_num at h ⊢
      nlinarith [mul_nonneg hp hS, mul_nonneg hS hS]

/-- without rain the split is `(0, 0)` — the `term ≤ 0` branch, no law of `pow` involved -/
theorem scsSplit_zero (F : Fn α) {cn : α} (hcn : 0 < cn) (hcn' : cn ≤ 100) :
    scsSplit F 0 cn = (0, 0) := by
  have hS : 0 ≤ 25400 / cn - 254 := by
    rw [sub_nonneg, le_div_iff₀ hcn]; nlinarith
  have h5 : (0:α) ≤ 5 / 100 * (25400 / cn - 254) := mul_nonneg (by norm_num) hS
  unfold scsSplit
  simp only []
  rw [if_pos (by linarith)]

end Aqua
