import AquaVerif.Model.Drainage
import AquaVerif.Proofs.Basic
/-
Lemmas about the model of `drainage` (`Model/Drainage.lean`) at an arbitrary linearly ordered
field.
-/

set_option linter.unusedSectionVars false
namespace Aqua
variable {α : Type} [Field α] [LinearOrder α] [IsStrictOrderedRing α]

/-! ## 1. Water balance (pure field algebra; no law of `exp`/`log` is used) -/

theorem capK_th (k thn ds ex : α) (br : Nat) : (capK k thn ds ex br).th = thn := by
  unfold capK; split <;> rfl

theorem capK_bal (k thn ds ex : α) (br : Nat) :
    (capK k thn ds ex br).ds + (capK k thn ds ex br).ex = ds + ex := by
  unfold capK; split <;> ring

theorem capK_water (k thn ds ex dz : α) (br : Nat) :
    1000 * (capK k thn ds ex br).th * dz + (capK k thn ds ex br).ds + (capK k thn ds ex br).ex
      = 1000 * thn * dz + ds + ex := by
  rw [capK_th]; linear_combination capK_bal k thn ds ex br

theorem drainFromNew_water (F : Fn α) (c : Comp α) (thn fcAdj : α) (br : Nat) :
    1000 * (drainFromNew F c thn fcAdj br).th * c.dz + (drainFromNew F c thn fcAdj br).ds
      + (drainFromNew F c thn fcAdj br).ex = 1000 * thn * c.dz := by
  unfold drainFromNew; simp only []; rw [capK_water]; ring

/-- one compartment: water in the cell + cumulative drainage arriving from above
= new water in the cell + cumulative drainage leaving + excess to be pushed back up. -/
theorem drainStep_balance (F : Fn α) (x : Cell α) (ds : α) (hdz : x.c.dz ≠ 0) :
    1000 * (drainStep F x ds).th * x.c.dz + (drainStep F x ds).ds + (drainStep F x ds).ex
      = 1000 * x.th * x.c.dz + ds := by
  unfold drainStep
  simp only []
  split_ifs
  · rw [capK_water]; ring
  · rw [capK_water]; field_simp; ring
  · rw [drainFromNew_water]; field_simp
  · simp only []; field_simp; ring
  · rw [drainFromNew_water]; field_simp
  · simp only []; field_simp; ring
  · rw [capK_water]; field_simp; ring
  · rename_i h4 h5
    exact absurd (lt_of_not_ge h4) h5
  · rename_i h2 h3
    exact absurd (lt_of_not_ge h2) h3

theorem pushUpAbove_balance (xs : List (Cell α)) (e : α) (hdz : ∀ x ∈ xs, x.c.dz ≠ 0) :
    storage (pushUpAbove xs e).1 + (pushUpAbove xs e).2 = storage xs + e := by
  induction xs generalizing e with
  | nil => simp [pushUpAbove]
  | cons x xs ih =>
    have hx : x.c.dz ≠ 0 := hdz x (by simp)
    have hxs : ∀ y ∈ xs, y.c.dz ≠ 0 := fun y hy => hdz y (by simp [hy])
    unfold pushUpAbove
    simp only []
    split_ifs with h1 h2
    · simp only [storage_cons, Cell.water]
      have := ih ((x.th + e / (1000 * x.c.dz) - x.c.thS) * 1000 * x.c.dz) hxs
      have e1 : (x.th + e / (1000 * x.c.dz) - x.c.thS) * 1000 * x.c.dz
          = 1000 * x.th * x.c.dz + e - 1000 * x.c.thS * x.c.dz := by field_simp
      linear_combination this + e1
    · simp only [storage_cons, Cell.water]; field_simp; ring
    · rfl

/-- the redistribution loop conserves water: what is not stored comes out as the leftover. -/
theorem pushUpDrain_balance (xs : List (Cell α)) (e : α) (hdz : ∀ x ∈ xs, x.c.dz ≠ 0) :
    storage (pushUpDrain xs e).1 + (pushUpDrain xs e).2 = storage xs + e := by
  cases xs with
  | nil => simp [pushUpDrain]
  | cons x xs =>
    have hx : x.c.dz ≠ 0 := hdz x (by simp)
    have hxs : ∀ y ∈ xs, y.c.dz ≠ 0 := fun y hy => hdz y (by simp [hy])
    unfold pushUpDrain
    simp only []
    split_ifs with h1 h2
    · simp only [storage_cons, Cell.water]
      have := pushUpAbove_balance xs ((x.th + e / (1000 * x.c.dz) - x.c.thS) * 1000 * x.c.dz) hxs
      have e1 : (x.th + e / (1000 * x.c.dz) - x.c.thS) * 1000 * x.c.dz
          = 1000 * x.th * x.c.dz + e - 1000 * x.c.thS * x.c.dz := by field_simp
      linear_combination this + e1
    · simp only [storage_cons, Cell.water]; field_simp; ring
    · rfl

/-- cells keep their compartment when pushed up (needed to carry `dz ≠ 0` along). -/
theorem pushUpAbove_comp (P : Comp α → Prop) (xs : List (Cell α)) (e : α)
    (h : ∀ x ∈ xs, P x.c) : ∀ y ∈ (pushUpAbove xs e).1, P y.c := by
  induction xs generalizing e with
  | nil => simp [pushUpAbove]
  | cons x xs ih =>
    have hx : P x.c := h x (by simp)
    have hxs : ∀ y ∈ xs, P y.c := fun y hy => h y (by simp [hy])
    unfold pushUpAbove
    simp only []
    split_ifs with h1 h2
    · intro y hy
      simp only [List.mem_cons] at hy
      rcases hy with rfl | hy
      · exact hx
      · exact ih _ hxs y hy
    · intro y hy
      simp only [List.mem_cons] at hy
      rcases hy with rfl | hy
      · exact hx
      · exact hxs y hy
    · exact h

theorem pushUpDrain_comp (P : Comp α → Prop) (xs : List (Cell α)) (e : α)
    (h : ∀ x ∈ xs, P x.c) : ∀ y ∈ (pushUpDrain xs e).1, P y.c := by
  cases xs with
  | nil => simp [pushUpDrain]
  | cons x xs =>
    have hx : P x.c := h x (by simp)
    have hxs : ∀ y ∈ xs, P y.c := fun y hy => h y (by simp [hy])
    unfold pushUpDrain
    simp only []
    split_ifs with h1 h2
    · intro y hy
      simp only [List.mem_cons] at hy
      rcases hy with rfl | hy
      · exact hx
      · exact pushUpAbove_comp P xs _ hxs y hy
    · intro y hy
      simp only [List.mem_cons] at hy
      rcases hy with rfl | hy
      · exact hx
      · exact hxs y hy
    · exact h

theorem drainLoop_balance (F : Fn α) (vis xs : List (Cell α)) (ds lost : α) (brs : List Nat)
    (hv : ∀ x ∈ vis, x.c.dz ≠ 0) (hx : ∀ x ∈ xs, x.c.dz ≠ 0) :
    storage (drainLoop F vis xs ds lost brs).cells + (drainLoop F vis xs ds lost brs).deepPerc
      + (drainLoop F vis xs ds lost brs).lost = storage vis + storage xs + ds + lost := by
  induction xs generalizing vis ds lost brs with
  | nil => simp [drainLoop, storage_reverse]
  | cons x xs ih =>
    have hx0 : x.c.dz ≠ 0 := hx x (by simp)
    have hxs : ∀ y ∈ xs, y.c.dz ≠ 0 := fun y hy => hx y (by simp [hy])
    unfold drainLoop
    simp only []
    set s := drainStep F x ds with hs
    have hv' : ∀ y ∈ ({ x with th := s.th, flux := s.ds } :: vis), y.c.dz ≠ 0 := by
      intro y hy
      simp only [List.mem_cons] at hy
      rcases hy with rfl | hy
      · exact hx0
      · exact hv y hy
    have hb := pushUpDrain_balance ({ x with th := s.th, flux := s.ds } :: vis) s.ex hv'
    have hr := pushUpDrain_comp (fun c => c.dz ≠ 0) _ s.ex hv'
    rw [ih _ _ _ _ hr hxs]
    have hstep := drainStep_balance F x ds hx0
    rw [← hs] at hstep
    simp only [storage_cons, Cell.water] at hb ⊢
    linear_combination hb + hstep

/-- **Water balance of `drainage`**: final storage + deep percolation + water dropped at the
soil surface = initial storage. -/
theorem drainage_balance (F : Fn α) (cells : List (Cell α)) (hdz : ∀ x ∈ cells, x.c.dz ≠ 0) :
    storage (drainage F cells).cells + (drainage F cells).deepPerc + (drainage F cells).lost
      = storage cells := by
  unfold drainage
  rw [drainLoop_balance F [] cells 0 0 [] (by simp) hdz]
  simp

/-! ## 2. Frame: only `th` and `flux` change -/

/-- the part of a cell that `drainage` must not touch -/
def Cell.frame (x : Cell α) : Comp α × α × α := (x.c, x.fcAdj, x.aer)

theorem pushUpAbove_frame (xs : List (Cell α)) (e : α) :
    (pushUpAbove xs e).1.map Cell.frame = xs.map Cell.frame := by
  induction xs generalizing e with
  | nil => simp [pushUpAbove]
  | cons x xs ih =>
    unfold pushUpAbove
    simp only []
    split_ifs with h1 h2
    · simp only [List.map_cons, ih]; rfl
    · rfl
    · rfl

theorem pushUpDrain_frame (xs : List (Cell α)) (e : α) :
    (pushUpDrain xs e).1.map Cell.frame = xs.map Cell.frame := by
  cases xs with
  | nil => simp [pushUpDrain]
  | cons x xs =>
    unfold pushUpDrain
    simp only []
    split_ifs with h1 h2
    · simp only [List.map_cons, pushUpAbove_frame]; rfl
    · rfl
    · rfl

theorem drainLoop_frame (F : Fn α) (vis xs : List (Cell α)) (ds lost : α) (brs : List Nat) :
    (drainLoop F vis xs ds lost brs).cells.map Cell.frame
      = (vis.reverse ++ xs).map Cell.frame := by
  induction xs generalizing vis ds lost brs with
  | nil => simp [drainLoop]
  | cons x xs ih =>
    unfold drainLoop
    simp only []
    rw [ih, List.map_append, List.map_append, List.map_reverse, pushUpDrain_frame]
    simp [Cell.frame]

theorem drainage_frame_all (F : Fn α) (cells : List (Cell α)) :
    (drainage F cells).cells.map Cell.frame = cells.map Cell.frame := by
  unfold drainage; rw [drainLoop_frame]; simp

/-- **Frame of `drainage`**: same number of compartments; compartment parameters, adjusted field
capacity and aeration counters unchanged. -/
theorem drainage_frame (F : Fn α) (cells : List (Cell α)) :
    (drainage F cells).cells.length = cells.length
    ∧ (drainage F cells).cells.map (·.c) = cells.map (·.c)
    ∧ (drainage F cells).cells.map (·.fcAdj) = cells.map (·.fcAdj)
    ∧ (drainage F cells).cells.map (·.aer) = cells.map (·.aer) := by
  have h := drainage_frame_all F cells
  refine ⟨?_, ?_, ?_, ?_⟩
  · simpa using congrArg List.length h
  · have := congrArg (List.map (fun t : Comp α × α × α => t.1)) h
    simpa [List.map_map, Function.comp_def, Cell.frame] using this
  · have := congrArg (List.map (fun t : Comp α × α × α => t.2.1)) h
    simpa [List.map_map, Function.comp_def, Cell.frame] using this
  · have := congrArg (List.map (fun t : Comp α × α × α => t.2.2)) h
    simpa [List.map_map, Function.comp_def, Cell.frame] using this

/-! ## 3. Drainage ability `dthdtOf` -/

/-- The only law of `exp` the lemmas below use: `exp x ≥ 1` for `x ≥ 0`. -/
structure ExpLaws (F : Fn α) : Prop where
  one_le : ∀ x : α, 0 ≤ x → 1 ≤ F.exp x

/-- `ExpLaws` follows from `exp 0 = 1` and monotonicity. -/
theorem ExpLaws.of_mono (F : Fn α) (h0 : F.exp 0 = 1)
    (hm : ∀ x y : α, x ≤ y → F.exp x ≤ F.exp y) : ExpLaws F :=
  ⟨fun x hx => h0 ▸ hm 0 x hx⟩

theorem dthdtOf_zero (F : Fn α) (c : Comp α) (th fcAdj : α) (h : th ≤ fcAdj) :
    dthdtOf F c th fcAdj = 0 := by
  unfold dthdtOf; simp [h]

/-- drainage ability is non-negative. -/
theorem dthdtOf_nonneg (F : Fn α) (E : ExpLaws F) (c : Comp α) (hc : c.WF) (th fcAdj : α)
    (hfc : c.thFC ≤ fcAdj) : 0 ≤ dthdtOf F c th fcAdj := by
  have htau := hc.tau_nn
  have hs : 0 ≤ c.thS - c.thFC := sub_nonneg.2 hc.fc_s
  unfold dthdtOf
  simp only []
  split_ifs with h1 h2 h3 h4
  · exact le_refl _
  · linarith [not_le.mp h1]
  · exact mul_nonneg htau hs
  · linarith [not_le.mp h1]
  · have h1' := not_le.mp h1
    have a : 0 ≤ F.exp (th - c.thFC) - 1 := sub_nonneg.2 (E.one_le _ (by linarith))
    have b : 0 ≤ F.exp (c.thS - c.thFC) - 1 := sub_nonneg.2 (E.one_le _ hs)
    exact mul_nonneg (mul_nonneg htau hs) (div_nonneg a b)

/-- draining by `dthdtOf` never takes the water content below the adjusted field capacity
(no premise on the compartment needed: this is what the two caps in the code enforce). -/
theorem dthdtOf_le (F : Fn α) (c : Comp α) (th fcAdj : α) (h : fcAdj < th) :
    fcAdj ≤ th - dthdtOf F c th fcAdj := by
  unfold dthdtOf
  simp only []
  split_ifs with h1 h2 h3 h4
  · exact absurd h1 (not_le.mpr h)
  · linarith
  · exact not_lt.mp h3
  · linarith
  · exact not_lt.mp h4

theorem dthdtOf_sub_ge (F : Fn α) (c : Comp α) (th fcAdj : α) (h : fcAdj ≤ th) :
    fcAdj ≤ th - dthdtOf F c th fcAdj := by
  rcases lt_or_eq_of_le h with h' | h'
  · exact dthdtOf_le F c th fcAdj h'
  · rw [dthdtOf_zero F c th fcAdj (le_of_eq h'.symm)]; linarith

theorem dthdtOf_sub_lo (F : Fn α) (c : Comp α) (th fcAdj lo : α) (h1 : lo ≤ fcAdj)
    (h2 : lo ≤ th) : lo ≤ th - dthdtOf F c th fcAdj := by
  rcases le_or_gt th fcAdj with h | h
  · rw [dthdtOf_zero F c th fcAdj h]; linarith
  · linarith [dthdtOf_le F c th fcAdj h]

/-- at or above saturation the drainage ability is at most `tau·(th_s − th_fc)`. -/
theorem dthdtOf_le_sat (F : Fn α) (c : Comp α) (hc : c.WF) (th fcAdj : α) (h : c.thS ≤ th) :
    dthdtOf F c th fcAdj ≤ c.tau * (c.thS - c.thFC) := by
  have h0 : 0 ≤ c.tau * (c.thS - c.thFC) := mul_nonneg hc.tau_nn (sub_nonneg.2 hc.fc_s)
  unfold dthdtOf
  simp only []
  split_ifs with h1 h2
  · exact h0
  · linarith
  · exact le_refl _

example : (0:ℚ) ≤ dthdtOf (α := ℚ) ⟨fun x => 1 + x, id, id, fun x _ => x, id, id, id, id, id⟩
    ⟨1/10, 1/5, 3/20, 1/2, 3/10, 1/10, 1/20, 1/2, 500, 100, 0, 0, 1⟩ (2/5) (3/10) := by
  apply dthdtOf_nonneg
  · exact ⟨fun x hx => by simpa using hx⟩
  · constructor <;> norm_num
  · norm_num

/-! ## 4./5. One compartment: signs and bounds -/

/-- Premises per compartment for the sign/bound lemmas.
`inv` is the physical-limits invariant.  `dzsum_nn` (a fact about the soil profile geometry that
`Comp.WF` does not contain) is needed for `0 ≤ drainsum` in the over-saturation arm, where the
code adds `dthdt*1000*(dzsum-dz)`.  `fc_lt_s` is *not used by the proofs*; it is there because
for `th_s = th_fc` (and `tau > 0`) the Python evaluates `0/0`: in a field that is `0`, in
`float64` it is NaN, after which the real code sets `thnew[ii] = 0` (see the report) -- so the
field model only speaks for the code when `th_fc < th_s`. -/
structure DrainPre (x : Cell α) : Prop where
  inv      : x.Inv
  dzsum_nn : 0 ≤ x.c.dzsum
  fc_lt_s  : x.c.thFC < x.c.thS

structure StepOK (x : Cell α) (s : DrainStep α) : Prop where
  ds_nn : 0 ≤ s.ds
  ex_nn : 0 ≤ s.ex
  th_lo : x.c.thDry ≤ s.th
  th_hi : s.th ≤ x.c.thS

theorem Cell.Inv.dry_le_fc {x : Cell α} (h : x.Inv) : x.c.thDry ≤ x.c.thFC :=
  le_trans h.wf.dry_wp h.wf.wp_fc.le

theorem capK_ok (x : Cell α) (k thn ds ex : α) (br : Nat) (hk : 0 ≤ k) (hds : 0 ≤ ds)
    (hex : 0 ≤ ex) (lo : x.c.thDry ≤ thn) (hi : thn ≤ x.c.thS) :
    StepOK x (capK k thn ds ex br) := by
  unfold capK
  split_ifs with h
  · exact ⟨hk, by simp only []; linarith, lo, hi⟩
  · exact ⟨hds, hex, lo, hi⟩

theorem thXOf_ge (F : Fn α) (c : Comp α) (fcAdj d : α) (h : fcAdj ≤ c.thS) :
    fcAdj ≤ thXOf F c fcAdj d := by
  unfold thXOf
  simp only []
  split_ifs with h1 h2 h3
  · exact le_refl _
  · exact le_refl _
  · exact not_lt.mp h3
  · have : (0:α) ≤ 0.01 := by norm_num
    linarith

theorem drainFromNew_ok (F : Fn α) (E : ExpLaws F) (x : Cell α) (hx : x.Inv) (thn : α)
    (br : Nat) (h1 : x.fcAdj ≤ thn) (h2 : thn ≤ x.c.thS) :
    StepOK x (drainFromNew F x.c thn x.fcAdj br) := by
  unfold drainFromNew
  simp only []
  have hD := dthdtOf_nonneg F E x.c hx.wf thn x.fcAdj hx.fc_lo
  have hge := dthdtOf_sub_ge F x.c thn x.fcAdj h1
  have hdz := hx.wf.dz_pos
  apply capK_ok x _ _ _ _ _ hx.wf.ksat_nn _ (le_refl _)
  · linarith [hx.dry_le_fc, hx.fc_lo]
  · linarith
  · positivity

/-- one compartment under the invariant: the outgoing cumulative drainage and the excess are
non-negative and the new water content is within `[th_dry, th_s]` (before redistribution). -/
theorem drainStep_ok (F : Fn α) (E : ExpLaws F) (x : Cell α) (hp : DrainPre x) (ds : α)
    (hds : 0 ≤ ds) : StepOK x (drainStep F x ds) := by
  have hx := hp.inv
  have hdz := hx.wf.dz_pos
  have hk := hx.wf.ksat_nn
  have hdry : x.c.thDry ≤ x.fcAdj := le_trans hx.dry_le_fc hx.fc_lo
  have hD0 : ∀ t, 0 ≤ dthdtOf F x.c t x.fcAdj :=
    fun t => dthdtOf_nonneg F E x.c hx.wf t x.fcAdj hx.fc_lo
  have hD1 : ∀ t, x.fcAdj ≤ t → x.fcAdj ≤ t - dthdtOf F x.c t x.fcAdj :=
    fun t => dthdtOf_sub_ge F x.c t x.fcAdj
  have hD2 : ∀ t, x.c.thDry ≤ t → x.c.thDry ≤ t - dthdtOf F x.c t x.fcAdj :=
    fun t => dthdtOf_sub_lo F x.c t x.fcAdj _ hdry
  have hD3 : ∀ t, x.c.thS ≤ t → dthdtOf F x.c t x.fcAdj ≤ x.c.thS - x.c.thFC := by
    intro t ht
    have := dthdtOf_le_sat F x.c hx.wf t x.fcAdj ht
    have h2 : x.c.tau * (x.c.thS - x.c.thFC) ≤ 1 * (x.c.thS - x.c.thFC) :=
      mul_le_mul_of_nonneg_right hx.wf.tau_le (sub_nonneg.2 hx.wf.fc_s)
    linarith
  have hq : 0 ≤ ds / (1000 * x.c.dz) := div_nonneg hds (by positivity)
  unfold drainStep
  simp only []
  split_ifs
  · -- 10: no storage needed
    have := hD0 x.th
    apply capK_ok x _ _ _ _ _ hk _ (le_refl _) (hD2 _ hx.th_lo)
    · linarith [hx.th_hi]
    · positivity
  · -- 20: stored water rises above thX
    rename_i hX hlt
    set thX := thXOf F x.c x.fcAdj (ds / (1000 * (x.c.dzsum - x.c.dz))) with hthX
    have hXge : x.fcAdj ≤ thX := thXOf_ge F x.c x.fcAdj _ hx.fc_hi
    have := hD0 thX
    have := hD1 thX hXge
    have hpos : 0 ≤ x.th + ds / (1000 * x.c.dz) - thX := sub_nonneg.2 hlt.le
    apply capK_ok x _ _ _ _ _ hk _ (le_refl _)
    · linarith
    · linarith
    · positivity
  · -- 30
    rename_i hX hnlt hfc
    exact drainFromNew_ok F E x hx _ _ hfc.le (le_trans (not_lt.mp hnlt) hX)
  · -- 40
    rename_i hX hnlt hfc
    exact ⟨le_refl _, le_refl _, by simp only []; linarith [hx.th_lo],
      le_trans (not_lt.mp hfc) hx.fc_hi⟩
  · -- 50
    rename_i hle hfc
    exact drainFromNew_ok F E x hx _ _ hfc.le hle
  · -- 60
    rename_i hle hfc
    exact ⟨le_refl _, le_refl _, by simp only []; linarith [hx.th_lo], hle⟩
  · -- 70: over-saturated
    rename_i hgt
    set thn := x.th + ds / (1000 * x.c.dz) with hthn
    have hD := hD0 thn
    have hle := hD3 thn hgt.le
    have hex0 : 0 ≤ (thn - x.c.thS) * 1000 * x.c.dz := by
      have : 0 ≤ thn - x.c.thS := sub_nonneg.2 hgt.le
      positivity
    rw [pmin_eq]
    apply capK_ok x _ _ _ _ _ hk
    · have h1 : 0 ≤ dthdtOf F x.c thn x.fcAdj * 1000 * x.c.dzsum := by
        have := hp.dzsum_nn
        positivity
      have h2 : 0 ≤ dthdtOf F x.c thn x.fcAdj * 1000 * x.c.dz := by positivity
      have : -(dthdtOf F x.c thn x.fcAdj * 1000 * x.c.dz)
          ≤ min (dthdtOf F x.c thn x.fcAdj * 1000 * (x.c.dzsum - x.c.dz))
              ((thn - x.c.thS) * 1000 * x.c.dz) := by
        apply le_min
        · linarith
        · linarith
      linarith
    · linarith [min_le_right (dthdtOf F x.c thn x.fcAdj * 1000 * (x.c.dzsum - x.c.dz))
        ((thn - x.c.thS) * 1000 * x.c.dz)]
    · linarith [hx.dry_le_fc]
    · linarith
  · rename_i h4 h5
    exact absurd (lt_of_not_ge h4) h5
  · rename_i h2 h3
    exact absurd (lt_of_not_ge h2) h3

/-! ## 4.–6. The whole profile -/

/-- pore volume of the cells in mm, `Σ 1000·th_sᵢ·dzᵢ` -/
def capac : List (Cell α) → α
  | [] => 0
  | x :: xs => 1000 * x.c.thS * x.c.dz + capac xs

theorem pushUpAbove_capac (xs : List (Cell α)) (e : α) :
    capac (pushUpAbove xs e).1 = capac xs := by
  induction xs generalizing e with
  | nil => simp [pushUpAbove]
  | cons x xs ih =>
    unfold pushUpAbove
    simp only []
    split_ifs with h1 h2
    · simp only [capac, ih]
    · rfl
    · rfl

theorem pushUpDrain_capac (xs : List (Cell α)) (e : α) :
    capac (pushUpDrain xs e).1 = capac xs := by
  cases xs with
  | nil => simp [pushUpDrain]
  | cons x xs =>
    unfold pushUpDrain
    simp only []
    split_ifs with h1 h2
    · simp only [capac, pushUpAbove_capac]
    · rfl
    · rfl

/-- if the excess fits into the free pore volume of the cells, nothing reaches the surface. -/
theorem pushUpAbove_lost_zero (xs : List (Cell α)) (e : α) (hdz : ∀ x ∈ xs, 0 < x.c.dz)
    (he : 0 ≤ e) (hcap : storage xs + e ≤ capac xs) : (pushUpAbove xs e).2 = 0 := by
  induction xs generalizing e with
  | nil =>
    simp only [pushUpAbove, storage_nil, capac, zero_add] at hcap ⊢
    exact le_antisymm hcap he
  | cons x xs ih =>
    have hx : 0 < x.c.dz := hdz x (by simp)
    have hxs : ∀ y ∈ xs, 0 < y.c.dz := fun y hy => hdz y (by simp [hy])
    unfold pushUpAbove
    simp only []
    split_ifs with h1 h2
    · simp only []
      have e1 : (x.th + e / (1000 * x.c.dz) - x.c.thS) * 1000 * x.c.dz
          = 1000 * x.th * x.c.dz + e - 1000 * x.c.thS * x.c.dz := by field_simp
      apply ih _ hxs
      · have : 0 ≤ x.th + e / (1000 * x.c.dz) - x.c.thS := sub_nonneg.2 h2.le
        positivity
      · simp only [storage_cons, Cell.water, capac] at hcap
        rw [e1]; linarith
    · rfl
    · exact le_antisymm (not_lt.mp h1) he

theorem pushUpDrain_lost_zero (xs : List (Cell α)) (e : α) (hdz : ∀ x ∈ xs, 0 < x.c.dz)
    (he : 0 ≤ e) (hcap : storage xs + e ≤ capac xs) : (pushUpDrain xs e).2 = 0 := by
  cases xs with
  | nil =>
    simp only [pushUpDrain, storage_nil, capac, zero_add] at hcap ⊢
    exact le_antisymm hcap he
  | cons x xs =>
    have hx : 0 < x.c.dz := hdz x (by simp)
    have hxs : ∀ y ∈ xs, 0 < y.c.dz := fun y hy => hdz y (by simp [hy])
    unfold pushUpDrain
    simp only []
    split_ifs with h1 h2
    · simp only []
      have e1 : (x.th + e / (1000 * x.c.dz) - x.c.thS) * 1000 * x.c.dz
          = 1000 * x.th * x.c.dz + e - 1000 * x.c.thS * x.c.dz := by field_simp
      apply pushUpAbove_lost_zero _ _ hxs
      · have : 0 ≤ x.th + e / (1000 * x.c.dz) - x.c.thS := sub_nonneg.2 h2.le
        positivity
      · simp only [storage_cons, Cell.water, capac] at hcap
        rw [e1]; linarith
    · rfl
    · exact le_antisymm (not_lt.mp h1) he

/-- storing pushed-up water keeps cells within their limits. -/
theorem pushUpAbove_inv (xs : List (Cell α)) (e : α) (h : ∀ x ∈ xs, x.Inv) :
    ∀ y ∈ (pushUpAbove xs e).1, y.Inv := by
  induction xs generalizing e with
  | nil => simp [pushUpAbove]
  | cons x xs ih =>
    have hx : x.Inv := h x (by simp)
    have hxs : ∀ y ∈ xs, y.Inv := fun y hy => h y (by simp [hy])
    have hdz := hx.wf.dz_pos
    unfold pushUpAbove
    simp only []
    split_ifs with h1 h2
    · intro y hy
      simp only [List.mem_cons] at hy
      rcases hy with rfl | hy
      · exact ⟨hx.wf, le_trans hx.th_lo hx.th_hi, le_refl _, hx.fc_lo, hx.fc_hi⟩
      · exact ih _ hxs y hy
    · intro y hy
      simp only [List.mem_cons] at hy
      rcases hy with rfl | hy
      · have : 0 ≤ e / (1000 * x.c.dz) := div_nonneg h1.le (by positivity)
        exact ⟨hx.wf, by simp only []; linarith [hx.th_lo], not_lt.mp h2, hx.fc_lo, hx.fc_hi⟩
      · exact hxs y hy
    · exact h

theorem pushUpDrain_inv (xs : List (Cell α)) (e : α) (h : ∀ x ∈ xs, x.Inv) :
    ∀ y ∈ (pushUpDrain xs e).1, y.Inv := by
  cases xs with
  | nil => simp [pushUpDrain]
  | cons x xs =>
    have hx : x.Inv := h x (by simp)
    have hxs : ∀ y ∈ xs, y.Inv := fun y hy => h y (by simp [hy])
    have hdz := hx.wf.dz_pos
    unfold pushUpDrain
    simp only []
    split_ifs with h1 h2
    · intro y hy
      simp only [List.mem_cons] at hy
      rcases hy with rfl | hy
      · exact ⟨hx.wf, le_trans hx.th_lo hx.th_hi, le_refl _, hx.fc_lo, hx.fc_hi⟩
      · exact pushUpAbove_inv _ _ hxs y hy
    · intro y hy
      simp only [List.mem_cons] at hy
      rcases hy with rfl | hy
      · have : 0 ≤ e / (1000 * x.c.dz) := div_nonneg h1.le (by positivity)
        exact ⟨hx.wf, by simp only []; linarith [hx.th_lo], not_lt.mp h2, hx.fc_lo, hx.fc_hi⟩
      · exact hxs y hy
    · exact h

/-- the loop invariant: visited cells within limits, cumulative drainage non-negative and not
more than the free pore volume of the visited cells (so it can always be pushed back). -/
theorem drainLoop_ok (F : Fn α) (E : ExpLaws F) (vis xs : List (Cell α)) (ds lost : α)
    (brs : List Nat) (hv : ∀ x ∈ vis, x.Inv) (hx : ∀ x ∈ xs, DrainPre x) (hds : 0 ≤ ds)
    (hcap : storage vis + ds ≤ capac vis) :
    0 ≤ (drainLoop F vis xs ds lost brs).deepPerc
    ∧ (∀ y ∈ (drainLoop F vis xs ds lost brs).cells, y.Inv)
    ∧ (drainLoop F vis xs ds lost brs).lost = lost := by
  induction xs generalizing vis ds lost brs with
  | nil =>
    refine ⟨hds, ?_, rfl⟩
    intro y hy
    simp only [drainLoop, List.mem_reverse] at hy
    exact hv y hy
  | cons x xs ih =>
    have hp : DrainPre x := hx x (by simp)
    have hxs : ∀ y ∈ xs, DrainPre y := fun y hy => hx y (by simp [hy])
    have hxi := hp.inv
    have hdz := hxi.wf.dz_pos
    unfold drainLoop
    simp only []
    have hok := drainStep_ok F E x hp ds hds
    have hbal := drainStep_balance F x ds hdz.ne'
    set s := drainStep F x ds with hs
    set vis1 : List (Cell α) := { x with th := s.th, flux := s.ds } :: vis with hvis1
    have hv1 : ∀ y ∈ vis1, y.Inv := by
      intro y hy
      simp only [hvis1, List.mem_cons] at hy
      rcases hy with rfl | hy
      · exact ⟨hxi.wf, hok.th_lo, hok.th_hi, hxi.fc_lo, hxi.fc_hi⟩
      · exact hv y hy
    have hdz1 : ∀ y ∈ vis1, 0 < y.c.dz := fun y hy => (hv1 y hy).wf.dz_pos
    have hdz1' : ∀ y ∈ vis1, y.c.dz ≠ 0 := fun y hy => (hdz1 y hy).ne'
    -- the excess fits: storage vis1 + s.ex + s.ds ≤ capac vis1
    have hth : 1000 * x.th * x.c.dz ≤ 1000 * x.c.thS * x.c.dz := by
      have := hxi.th_hi
      have h1 : (0:α) ≤ 1000 := by norm_num
      exact mul_le_mul_of_nonneg_right (mul_le_mul_of_nonneg_left this h1) hdz.le
    have hfit : storage vis1 + s.ex + s.ds ≤ capac vis1 := by
      simp only [hvis1, storage_cons, Cell.water, capac]
      linarith
    have hl := pushUpDrain_lost_zero vis1 s.ex hdz1 hok.ex_nn (by linarith [hok.ds_nn])
    have hb := pushUpDrain_balance vis1 s.ex hdz1'
    have hc := pushUpDrain_capac vis1 s.ex
    have hi := pushUpDrain_inv vis1 s.ex hv1
    rw [hl] at hb
    have hcap' : storage (pushUpDrain vis1 s.ex).1 + s.ds ≤ capac (pushUpDrain vis1 s.ex).1 := by
      rw [hc]; linarith
    obtain ⟨a, b, c⟩ := ih (pushUpDrain vis1 s.ex).1 s.ds (lost + (pushUpDrain vis1 s.ex).2)
      (s.br :: brs) hi hxs hok.ds_nn hcap'
    refine ⟨a, b, ?_⟩
    rw [c, hl, add_zero]

/-- **4.** deep percolation is non-negative. -/
theorem drainage_deepPerc_nonneg (F : Fn α) (E : ExpLaws F) (cells : List (Cell α))
    (h : ∀ x ∈ cells, DrainPre x) : 0 ≤ (drainage F cells).deepPerc :=
  (drainLoop_ok F E [] cells 0 0 [] (by simp) h (le_refl _) (by simp [capac])).1

/-- **5.** `drainage` preserves the physical-limits invariant `th_dry ≤ th ≤ th_s`. -/
theorem drainage_inv (F : Fn α) (E : ExpLaws F) (cells : List (Cell α))
    (h : ∀ x ∈ cells, DrainPre x) : ∀ y ∈ (drainage F cells).cells, y.Inv :=
  (drainLoop_ok F E [] cells 0 0 [] (by simp) h (le_refl _) (by simp [capac])).2.1

/-- **6.** under the invariant no water is dropped at the soil surface. -/
theorem drainage_lost_zero (F : Fn α) (E : ExpLaws F) (cells : List (Cell α))
    (h : ∀ x ∈ cells, DrainPre x) : (drainage F cells).lost = 0 :=
  (drainLoop_ok F E [] cells 0 0 [] (by simp) h (le_refl _) (by simp [capac])).2.2

/-- balance without the ghost term, under the invariant. -/
theorem drainage_balance_inv (F : Fn α) (E : ExpLaws F) (cells : List (Cell α))
    (h : ∀ x ∈ cells, DrainPre x) :
    storage (drainage F cells).cells + (drainage F cells).deepPerc = storage cells := by
  have hb := drainage_balance F cells (fun x hx => (h x hx).inv.wf.dz_pos.ne')
  rw [drainage_lost_zero F E cells h, add_zero] at hb
  exact hb

/-! ### Non-vacuity: a concrete two-compartment profile over `ℚ` satisfies the premises
(`exp x := 1 + x` satisfies `ExpLaws`), and the top cell drains. -/

section Example
def exF : Fn ℚ :=
  ⟨fun x => 1 + x, fun x => x - 1, id, fun x y => if y = 2 then x * x else x, id, id, id, id, id⟩
def exC1 : Comp ℚ := ⟨1/10, 1/10, 1/20, 1/2, 3/10, 1/10, 1/20, 1/2, 500, 100, 0, 0, 1⟩
def exC2 : Comp ℚ := ⟨1/10, 1/5, 3/20, 1/2, 3/10, 1/10, 1/20, 1/2, 500, 100, 0, 0, 1⟩
def exCells : List (Cell ℚ) := [⟨exC1, 1/2, 3/10, 0, 0⟩, ⟨exC2, 2/5, 3/10, 0, 0⟩]

theorem exF_laws : ExpLaws exF := ⟨fun x hx => by simp only [exF]; linarith⟩

theorem exCells_pre : ∀ x ∈ exCells, DrainPre x := by
  intro x hx
  simp only [exCells, List.mem_cons, List.not_mem_nil, or_false] at hx
  rcases hx with rfl | rfl <;>
    exact ⟨⟨⟨by norm_num [exC1, exC2], by norm_num [exC1, exC2], by norm_num [exC1, exC2],
      by norm_num [exC1, exC2], by norm_num [exC1, exC2], by norm_num [exC1, exC2],
      by norm_num [exC1, exC2], by norm_num [exC1, exC2]⟩,
      by norm_num [exC1, exC2], by norm_num [exC1, exC2], by norm_num [exC1, exC2],
      by norm_num [exC1, exC2]⟩, by norm_num [exC1, exC2], by norm_num [exC1, exC2]⟩

example : storage (drainage exF exCells).cells + (drainage exF exCells).deepPerc
    = storage exCells := drainage_balance_inv exF exF_laws exCells exCells_pre
end Example

end Aqua
