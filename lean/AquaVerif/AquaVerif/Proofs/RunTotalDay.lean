import AquaVerif.Proofs.RunTotalProc
import AquaVerif.Proofs.SeasonIndepDay
/-
Work package Z, part 2: **`fullDay_total` — a simulated day of a valid configuration takes no error
branch.**

Premises, in three named structures (none is about a value computed the same day):

* `ProfOK F soil wt zGerm Zcap Zev cells` — the *geometry* of the profile (compartment records,
  which no process changes: `ProfOK.congr`): non-empty, positive thicknesses; every depth
  `z ≤ Zcap` rounds (numpy and Python rounding) to a depth inside the profile and `Zcap` itself lies
  inside it (rooting depths never exceed `Zcap ≥ Zmax`); the germination depth and — when the
  curve number is adjusted — `z_cn` lie inside the profile; one whole compartment lies below the
  deepest evaporation layer `Zev`; with a water table the bottom compartment belongs to the last
  layer; every layer number `1 … nLayer` has a compartment; `nComp` compartments exist;
* `TopOK F zTop cells` — **named exception**: the top compartment ends inside the rounded top-soil
  depth `z_top` (otherwise `root_zone_water` fails its `assert comp_sto > 0` as soon as the roots
  are deeper than `z_top`: `Proofs/RunTotalExample.lean`, `top_assert_reachable`);
* `DayParOK F P D Zcap Zev` — option switches and parameter ranges of the day's parameter record
  and inputs; `DayStOK F P st Zev` — the start state: root envelope (`RootInv`),
  `growth_stage ≤ 4`, `EvapZmax − 100 ≤ evap_z ≤ Zev` (the loop fuel; `evap_z = 0` initially).

Conclusion: `∃ r, fullDay F T P st D = .ok r`, and `fullDay_stOK`: the end state satisfies the two
new state premises again (`growth_stage ≤ 4`, `evap_z` in range).
-/

set_option linter.unusedSectionVars false
set_option linter.unusedVariables false
set_option linter.unusedSimpArgs false
namespace Aqua
variable {α : Type} [Field α] [LinearOrder α] [IsStrictOrderedRing α]

/-! ## 1. the premises -/

/-- geometry of the profile as far as the error sites of the day read it -/
structure ProfOK (F : Fn α) (soil : SoilW α) (wt : Nat) (zGerm Zcap Zev : α)
    (cells : List (Cell α)) : Prop where
  ne : cells ≠ []
  dz : ∀ x ∈ cells, 0 < x.c.dz
  /-- `0 ≤ Penetrability ≤ 100`, `th_wp < th_fc` -/
  pen : ∀ x ∈ cells, 0 ≤ x.c.pen ∧ x.c.pen ≤ 100 ∧ x.c.thWP < x.c.thFC
  /-- numpy's `round(z, 2)` of a depth up to `Zcap` lies inside the profile -/
  deep2 : ∀ z, z ≤ Zcap → ∃ x ∈ cells, F.round2 z ≤ x.c.dzsum
  /-- Python's `round(z, 2)` of a depth up to `Zcap` lies inside the profile -/
  deepPy : ∀ z, z ≤ Zcap → ∃ x ∈ cells, F.pyRound2 z ≤ x.c.dzsum
  tip : ∃ x ∈ cells, Zcap ≤ x.c.dzsum
  germ : ∃ x ∈ cells, zGerm ≤ x.c.dzsum
  cn : soil.adjCN = true → ∃ x ∈ cells, soil.zCN ≤ x.c.dzsum
  evap : EvapDeep Zev cells
  lastLayer : wt = 1 → ∀ b, cells.getLast? = some b → b.c.layer = soil.nLayer
  layers : LaysFull (layersOf cells)
  nComp : soil.nComp ≤ cells.length

/-- **named exception** (`assert comp_sto > 0` of `root_zone_water`): the top compartment ends
inside the rounded top-soil depth -/
def TopOK (F : Fn α) (zTop : α) (cells : List (Cell α)) : Prop :=
  ∃ x ∈ cells, x.c.dzsum ≤ F.pyRound2 zTop

theorem TopOK.congr {F : Fn α} {zTop : α} {xs ys : List (Cell α)}
    (hc : ys.map (·.c) = xs.map (·.c)) (h : TopOK F zTop xs) : TopOK F zTop ys :=
  exists_of_map_c hc (fun c => c.dzsum ≤ F.pyRound2 zTop) h

theorem ProfOK.congr {F : Fn α} {soil : SoilW α} {wt : Nat} {zGerm Zcap Zev : α}
    {xs ys : List (Cell α)} (hc : ys.map (·.c) = xs.map (·.c))
    (h : ProfOK F soil wt zGerm Zcap Zev xs) : ProfOK F soil wt zGerm Zcap Zev ys :=
  { ne := by
      intro hy
      rw [hy] at hc
      exact h.ne (List.map_eq_nil_iff.mp hc.symm)
    dz := forall_of_map_eq (·.c) hc (fun c => 0 < c.dz) h.dz
    pen := forall_of_map_eq (·.c) hc (fun c => 0 ≤ c.pen ∧ c.pen ≤ 100 ∧ c.thWP < c.thFC) h.pen
    deep2 := fun z hz => exists_of_map_c hc (fun c => F.round2 z ≤ c.dzsum) (h.deep2 z hz)
    deepPy := fun z hz => exists_of_map_c hc (fun c => F.pyRound2 z ≤ c.dzsum) (h.deepPy z hz)
    tip := exists_of_map_c hc (fun c => Zcap ≤ c.dzsum) h.tip
    germ := exists_of_map_c hc (fun c => zGerm ≤ c.dzsum) h.germ
    cn := fun ha => exists_of_map_c hc (fun c => soil.zCN ≤ c.dzsum) (h.cn ha)
    evap := h.evap.congr hc
    lastLayer := fun hw b hb => by
      have e := getLast?_map_c hc
      rw [hb] at e
      cases hx : xs.getLast? with
      | none => rw [hx] at e; cases e
      | some b' =>
        rw [hx] at e
        simp only [Option.map_some, Option.some.injEq] at e
        rw [e]; exact h.lastLayer hw b' hx
    layers := by rw [layersOf_congr hc]; exact h.layers
    nComp := by rw [length_of_map_c hc]; exact h.nComp }

/-- option switches and parameter ranges of the day's parameter record and inputs -/
structure DayParOK (F : Fn α) (P : DayParams α) (D : DayIn' α) (Zcap Zev : α) : Prop where
  /-- `GDDmethod ∈ {1,2,3}` (`growing_degree_day`) -/
  gdd : D.gs = true → P.cx.gddMethod = 1 ∨ P.cx.gddMethod = 2 ∨ P.cx.gddMethod = 3
  /-- `water_table ∈ {0,1}` (`capillary_rise`) -/
  wt : P.W.waterTable = 0 ∨ P.W.waterTable = 1
  /-- the water-table depth of the day is defined and non-negative (`check_groundwater_table`) -/
  zgw : P.W.waterTable = 1 → 0 ≤ D.zGW
  /-- `CalendarType ∈ {1,2}`, in every record that carries it -/
  calW : D.gs = true → P.W.crop.calendarType = 1 ∨ P.W.crop.calendarType = 2
  calRd : D.gs = true → P.cx.rd.calendarType = 1 ∨ P.cx.rd.calendarType = 2
  calCc : D.gs = true → P.cx.cc.calendarType = 1 ∨ P.cx.cc.calendarType = 2
  -- irrigation
  irrM : P.W.irr.method ≤ 5
  irrInt : P.W.irr.method = 2 → 1 ≤ P.W.irr.interval
  irrSched : D.gs = true → P.W.irr.method = 3 → ∃ s, D.sched = some s ∧ 0 ≤ s
  appEff : 0 ≤ P.W.irr.appEff
  -- soil evaporation
  steps : P.W.evapTimeSteps ≠ 0
  evLo : P.W.soil.evapZMin ≤ Zev
  evHi : P.W.soil.evapZMax + 0.001 ≤ Zev
  evFuel : P.W.soil.evapZMax - P.W.soil.evapZMin ≤ 100
  -- transpiration
  co2 : P.W.co2Ref ≠ 550
  cold : P.W.crop.tr.trColdStress = 0 ∨ P.W.crop.tr.trColdStress = 1
  -- harvest index
  ctype : P.cx.hi.cropType = 1 ∨ P.cx.hi.cropType = 2 ∨ P.cx.hi.cropType = 3
  pol : (P.cx.hik.polHeatStress = 0 ∨ P.cx.hik.polHeatStress = 1) ∧
    (P.cx.hik.polColdStress = 0 ∨ P.cx.hik.polColdStress = 1)
  -- roots
  zminPos : 0 < P.cx.rd.zmin
  sxBot : P.cx.rd.sxBot ≠ 0
  -- every rooting depth the day rounds is at most `Zcap`
  capZmax : P.cx.rd.zmax ≤ Zcap
  capTr : P.W.crop.tr.zMin ≤ Zcap
  capCc : P.cx.cc.zMin ≤ Zcap
  capHi : P.cx.hik.zMin ≤ Zcap
  cap0 : 0 ≤ Zcap

/-- what the day needs of its start state -/
structure DayStOK (F : Fn α) (P : DayParams α) (st : DayState' α) (Zev : α) : Prop where
  root : RootInv F P st
  stage : st.growthStage ≤ 4
  evLo : P.W.soil.evapZMax - 100 ≤ st.evapZ
  evHi : st.evapZ ≤ Zev

/-! ## 2. small facts about single steps -/

theorem dayCounters_spec {X : CropX α} {st : DayState' α} {D : DayIn' α} {tc : DayCounters α}
    (h : dayCounters X st D = .ok tc) :
    (D.gs = true → tc.dap = st.dap + 1 ∧
      growingDegreeDay X.gddMethod X.tupp X.tbase D.tmax D.tmin = some tc.gdd ∧
      tc.gddCum = st.gddCum + tc.gdd) ∧
    (D.gs = false → tc.dap = 0) := by
  unfold dayCounters at h
  refine ⟨fun hg => ?_, fun hg => ?_⟩
  · rw [hg] at h
    simp only [if_true] at h
    split at h
    · cases h
    · rename_i g hgd
      have e := Except.ok.inj h
      rw [← e]
      exact ⟨rfl, hgd, rfl⟩
  · rw [hg] at h
    simp only [Bool.false_eq_true, if_false] at h
    have e := Except.ok.inj h
    rw [← e]

theorem stageOf_le (t a b c : α) (old : Nat) (h : old ≤ 4) : stageOf t a b c old ≤ 4 := by
  unfold stageOf
  split_ifs <;> omega

theorem growthStage_le {cal : Nat} {dap dc g dg c10 mx sen : α} {gs : Bool} {old n : Nat}
    (h : growthStage cal dap dc g dg c10 mx sen gs old = some n) (ho : old ≤ 4) : n ≤ 4 := by
  unfold growthStage at h
  split_ifs at h
  all_goals
    simp only [Option.some.injEq] at h
    rw [← h]
    first | exact stageOf_le _ _ _ _ _ ho | omega

/-- the rooting depth `root_development` returns is at most `Zcap ≥ Zmax` (and `0` off season) -/
theorem rootDevelopment_zRoot_le {F : Fn α} {C : RdCrop α} {cells : List (Cell α)}
    {dap zRoot dcd gddCum dgdd tr cc ccNS rCor tPot zGW gdd Zcap : α} {germ gs : Bool} {wt : Nat}
    {out : RdOut α}
    (h : rootDevelopment F C cells dap zRoot dcd gddCum dgdd tr cc ccNS germ rCor tPot zGW gdd gs wt
      = .ok out)
    (H : gs = true → RdHyp F C cells tr gdd) (hl1 : LaysLe100 (layersOf cells))
    (hs : SkipOK F C.zmin)
    (hi : gs = true → RdInv F C (layersOf cells) (zInitOf C dap zRoot)
      (rdTOld C dap dcd gddCum dgdd gdd))
    (hz : gs = true → C.zmin ≤ zInitOf C dap zRoot) (hcap : C.zmax ≤ Zcap) (h0 : 0 ≤ Zcap) :
    out.zRoot ≤ Zcap := by
  cases gs with
  | false => rw [(zroot_offseason h).1]; exact h0
  | true => exact le_trans (zroot_le_zmax (H rfl) hl1 hs h (hi rfl) (hz rfl)).1 hcap

theorem pmax_le_of {a b c : α} (h1 : a ≤ c) (h2 : b ≤ c) : pmax a b ≤ c := by
  rw [pmax_eq]; exact max_le h1 h2

/-! ## 3. the day -/

section day
variable {F : Fn α} {T : TrigFn α} {P : DayParams α} {st : DayState' α} {D : DayIn' α}
  {Zcap Zev : α}

/-- **`fullDay_total`: the simulated day takes no error branch** -/
theorem fullDay_total
    (hG : ProfOK F P.W.soil P.W.waterTable P.zGerm Zcap Zev st.cells)
    (hTop : TopOK F P.W.soil.zTop st.cells)
    (hP : DayParOK F P D Zcap Zev) (hR : RootPre F P st.cells) (hS : DayStOK F P st Zev) :
    ∃ r, fullDay F T P st D = .ok r := by
  -- time counters
  obtain ⟨tc, htc⟩ := dayCounters_total P.cx st D hP.gdd
  obtain ⟨tcS, tcO⟩ := dayCounters_spec htc
  -- 1. groundwater table
  have hg : ∃ g, checkGroundwaterTable F st.cells P.W.waterTable D.zGW = some g := by
    cases hgx : checkGroundwaterTable F st.cells P.W.waterTable D.zGW with
    | some g => exact ⟨g, rfl⟩
    | none =>
      obtain ⟨h1, h2⟩ := (checkGroundwaterTable_error_iff F st.cells _ _).mp hgx
      exact absurd h2 (not_lt.mpr (hP.zgw h1))
  obtain ⟨g, hg⟩ := hg
  have cg : g.cells.map (·.c) = st.cells.map (·.c) :=
    map_eq_of_forall₂ (·.c) (checkGroundwaterTable_frame F st.cells _ _ _ hg) (fun x y h => h.1)
  have Gg := hG.congr cg
  -- 2. root development: the premises of `rootDevelopment_total` on the profile after step 1
  have hlg : layersOf g.cells = layersOf st.cells := layersOf_congr cg
  have hgdd0 : D.gs = true → 0 ≤ tc.gdd := fun hgs => (gdd_range hR.temp (tcS hgs).2.1).1
  have H : D.gs = true → RdHyp F P.cx.rd g.cells st.trRatio tc.gdd := fun hgs =>
    { pow := hR.pow, exp := hR.exp, crop := hR.crop,
      lays := laysNN_layersOf (fun x hx => ⟨(Gg.dz x hx).le, (Gg.pen x hx).1⟩),
      tr0 := hS.root.tr0, tr1 := hS.root.tr1, gdd0 := hgdd0 hgs, pUp1 := hR.pUp1, fw1 := hR.fw1,
      cellsWF := fun x hx => (Gg.pen x hx).2.2 }
  have hl1 : LaysLe100 (layersOf g.cells) := laysLe100_layersOf (fun x hx => (Gg.pen x hx).2.1)
  have hzi : D.gs = true → zInitOf P.cx.rd (natNum tc.dap) st.zRoot =
      if st.dap = 0 then P.cx.rd.zmin else st.zRoot := by
    intro hgs
    rw [(tcS hgs).1]
    unfold zInitOf
    by_cases h0 : st.dap = 0
    · rw [if_pos ((natNum_succ_eq_one_iff st.dap).mpr h0), if_pos h0]
    · rw [if_neg (fun hh => h0 ((natNum_succ_eq_one_iff st.dap).mp hh)), if_neg h0]
  have hz : D.gs = true → P.cx.rd.zmin ≤ zInitOf P.cx.rd (natNum tc.dap) st.zRoot := by
    intro hgs
    rw [hzi hgs]
    split_ifs with h0
    · exact le_refl _
    · exact (hS.root.season h0).1
  have hinv : D.gs = true → RdInv F P.cx.rd (layersOf g.cells)
      (zInitOf P.cx.rd (natNum tc.dap) st.zRoot)
      (rdTOld P.cx.rd (natNum tc.dap) st.delayedCds tc.gddCum st.delayedGdds tc.gdd) := by
    intro hgs
    by_cases hc : st.dap = 0 ∨ st.germination = false
    · have : zInitOf P.cx.rd (natNum tc.dap) st.zRoot = P.cx.rd.zmin := by
        rw [hzi hgs]
        split_ifs with h0
        · rfl
        · rcases hc with hc | hc
          · exact absurd hc h0
          · exact (hS.root.season h0).2.2.1 hc
      rw [this]
      exact rdInv_zmin (H hgs).lays hR.skip _
    · have h0 : st.dap ≠ 0 := fun hh => hc (Or.inl hh)
      have hgm : st.germination = true := by
        cases hgm : st.germination with
        | true => rfl
        | false => exact absurd (Or.inr hgm) hc
      rw [hzi hgs, if_neg h0, hlg]
      have := (hS.root.season h0).2.2.2 hgm
      have et : rdTOld P.cx.rd (natNum tc.dap) st.delayedCds tc.gddCum st.delayedGdds tc.gdd =
          rdTAdj P.cx.rd (natNum st.dap) st.delayedCds st.gddCum st.delayedGdds := by
        rw [(tcS hgs).1, (tcS hgs).2.2]
        unfold rdTOld rdTAdj
        rw [natNum_succ]
        split_ifs <;> ring
      rw [et]; exact this
  obtain ⟨rd, hrd⟩ := rootDevelopment_total (F := F) (C := P.cx.rd) (cells := g.cells)
    (dap := natNum tc.dap) (zRoot := st.zRoot) (dcd := st.delayedCds) (gddCum := tc.gddCum)
    (dgdd := st.delayedGdds) (tr := st.trRatio) (cc := st.cc) (ccNS := st.ccNS)
    (rCor := st.rCor) (tPot := st.tPot) (zGW := g.zGW) (gdd := tc.gdd) (germ := st.germination)
    (gs := D.gs) (wt := P.W.waterTable) hP.calRd H hl1 hR.skip Gg.layers hinv hz hP.zminPos
    hP.sxBot (by
      obtain ⟨x, hx, hzx⟩ := Gg.tip
      exact ⟨x, hx, le_trans hP.capZmax hzx⟩)
  have hzr : rd.zRoot ≤ Zcap :=
    rootDevelopment_zRoot_le hrd H hl1 hR.skip hinv hz hP.capZmax hP.cap0
  -- every rounded rooting depth of the day lies inside the profile
  have capTr : pmax rd.zRoot P.W.crop.tr.zMin ≤ Zcap := pmax_le_of hzr hP.capTr
  have capCc : pmax rd.zRoot P.cx.cc.zMin ≤ Zcap := pmax_le_of hzr hP.capCc
  have capHi : pmax rd.zRoot P.cx.hik.zMin ≤ Zcap := pmax_le_of hzr hP.capHi
  -- 3. pre-irrigation
  obtain ⟨p, hp⟩ := preIrrigationT_total F (zRootNpOf P.cx.zMinNp rd.zRoot P.W.crop.tr.zMin)
    g.cells D.gs P.W.irr.method (Int.ofNat tc.dap) rd.zRoot P.W.crop.tr.zMin P.W.netIrrSMT
    (Gg.deep2 _ capTr) (Gg.deepPy _ capTr)
  have cp : p.1.map (·.c) = st.cells.map (·.c) :=
    (map_eq_of_forall₂ (·.c) (preIrrigationR_frame _ _ _ _ _ _ _ _ _ hp) (fun x y h => h.1)).trans cg
  -- 4. drainage
  have cd : (drainage F p.1).cells.map (·.c) = st.cells.map (·.c) :=
    (drainage_frame F p.1).2.1.trans cp
  have Gd := hG.congr cd
  have Td := hTop.congr cd
  -- 5. rainfall partition
  obtain ⟨r, hr⟩ := rainPartition_total F D.rain (drainage F p.1).cells st.water.daySubmerged
    P.fm.srInhb P.fm.bunds P.fm.zBund (if P.fm.cnAdj then P.fm.cnAdjPct else 0) P.W.soil.cn
    P.W.soil.adjCN P.W.soil.zCN Gd.cn
  -- 6. irrigation
  have hi : ∃ i, irrigation F P.W.irr (drainage F p.1).cells st.growthStage
      st.water.irrCum st.water.ePot st.water.tPot rd.zRoot tc.dap D.sched P.W.crop.tr.zMin
      P.W.crop.tr.aer P.W.soil.zTop D.gs D.rain r.runoff = .ok i := by
    cases hgs : D.gs with
    | false =>
      obtain ⟨o, ho, _⟩ := irrigation_offseason F P.W.irr (drainage F p.1).cells st.growthStage
        st.water.irrCum st.water.ePot st.water.tPot rd.zRoot tc.dap D.sched P.W.crop.tr.zMin
        P.W.crop.tr.aer P.W.soil.zTop D.rain r.runoff
      exact ⟨o, ho⟩
    | true =>
      exact irrigation_ok_of F P.W.irr (drainage F p.1).cells st.growthStage
        st.water.irrCum st.water.ePot st.water.tPot rd.zRoot tc.dap D.sched P.W.crop.tr.zMin
        P.W.crop.tr.aer P.W.soil.zTop true D.rain r.runoff
        (fun _ => by
          obtain ⟨rz, hrz⟩ := rootZoneWater_total F (drainage F p.1).cells rd.zRoot P.W.soil.zTop
            P.W.crop.tr.zMin P.W.crop.tr.aer (Gd.deep2 _ capTr) Td
          rw [hrz]; exact Option.some_ne_none _)
        hP.irrM
        (fun _ => by split_ifs <;> first | omega | exact hS.stage)
        hP.irrInt (hP.irrSched hgs)
  obtain ⟨i, hi⟩ := hi
  -- 7. infiltration
  have hf : ∃ f, infiltration F (drainage F p.1).cells st.water.pond r.infl i.irr P.W.irr.appEff
      P.fm.bunds P.fm.zBund (drainage F p.1).deepPerc r.runoff D.gs = .ok f := by
    cases hdc : (drainage F p.1).cells with
    | nil => exact absurd hdc Gd.ne
    | cons c0 cs0 =>
      rw [hdc] at hi
      exact infiltration_isOk F c0 cs0 st.water.pond r.infl i.irr P.W.irr.appEff P.fm.zBund
        (drainage F p.1).deepPerc r.runoff P.fm.bunds D.gs
        (fun _ => mul_nonneg (irr_nonneg hi) (div_nonneg hP.appEff (by norm_num)))
  obtain ⟨f, hf⟩ := hf
  have cf : f.cells.map (·.c) = st.cells.map (·.c) := (infiltration_frame hf).2.1.trans cd
  have Gf := hG.congr cf
  -- 8. capillary rise
  obtain ⟨c, hc⟩ := capillaryRise_total F f.cells P.W.soil.nLayer P.W.soil.fshapeCR g.zGW
    P.W.waterTable hP.wt Gf.ne Gf.lastLayer
  have cc' : c.cells.map (·.c) = st.cells.map (·.c) :=
    (map_eq_of_forall₂ (·.c) (capillaryRise_frame F _ _ _ _ _ _ hc) (fun x y h => h.1)).trans cf
  have Gc := hG.congr cc'
  have Tc := hTop.congr cc'
  -- 9. germination
  obtain ⟨ge, hge⟩ := germination_total F st.germ P.zGerm c.cells P.cx.germThr P.cx.sown tc.gdd
    D.gs Gc.germ
  -- 10. growth stage
  have hgst : ∃ n, growthStage P.W.crop.calendarType (natNum tc.dap) ge.s.delayedCds tc.gddCum
      ge.s.delayedGdds P.cx.canopy10 P.cx.maxCanopy P.W.crop.senescence D.gs st.growthStage
      = some n := by
    apply Option.isSome_iff_exists.mp
    rw [growthStage_isSome_iff]
    cases hgs : D.gs with
    | false => exact Or.inl rfl
    | true => exact Or.inr (hP.calW hgs)
  obtain ⟨gst, hgst⟩ := hgst
  -- 11. canopy cover
  obtain ⟨cv, hcv⟩ := canopyCover_total F P.cx.cc c.cells P.W.soil.zTop (ccStateOf st tc rd ge)
    tc.gdd D.et0 D.gs hP.calCc (fun _ => Gc.deep2 _ capCc) Tc
  -- 12. soil evaporation
  obtain ⟨e, he, _, _⟩ := soilEvaporation_total F (dayEvapParams P.W P.fm)
    (dayEvapState (cropDayOf P st tc rd ge cv) st.water f.pond) c.cells
    (dayEvapDay D.water f.infl i.irr) Zev hP.steps hP.calW hP.evLo hP.evHi Gc.evap hP.evFuel
    hS.evLo hS.evHi
  have ce : e.cells.map (·.c) = st.cells.map (·.c) :=
    (soilEvap_frame _ _ _ _ _ _ he Gc.dz).2.1.trans cc'
  have Ge := hG.congr ce
  have Te := hTop.congr ce
  -- 13. transpiration
  obtain ⟨t, ht⟩ := transpiration_total F e.cells P.W.soil.nComp P.W.soil.zTop P.W.crop.tr
    P.W.irr.method P.W.netIrrSMT
    (dayTrState (cropDayOf P st tc rd ge cv) st.water e.pond r.daySub i.depletion i.taw) D.et0
    P.W.co2Cur P.W.co2Ref D.gs tc.gdd hP.co2 hP.cold Ge.nComp (natNum_nonneg _)
    (fun _ => Ge.deep2 _ capTr) Te
  have ct : t.cells.map (·.c) = st.cells.map (·.c) := (transp_frame ht).2.1.trans ce
  -- 14. groundwater inflow
  have hw : ∃ w, groundwaterInflow t.cells g.wtInSoil g.zGW = some w := by
    cases hwx : groundwaterInflow t.cells g.wtInSoil g.zGW with
    | some w => exact ⟨w, rfl⟩
    | none =>
      exact absurd hwx (groundwaterInflow_ok_of_check F st.cells t.cells P.W.waterTable D.zGW g hg
        (forall₂_c_of_map_c ct))
  obtain ⟨w, hw⟩ := hw
  have cw : w.1.map (·.c) = st.cells.map (·.c) :=
    (map_eq_of_forall₂ (·.c) (groundwaterInflow_frame _ _ _ _ hw) (fun x y h => h.1)).trans ct
  have Gw := hG.congr cw
  have Tw := hTop.congr cw
  -- 15–16. reference harvest index, biomass
  obtain ⟨hr', hhr⟩ : ∃ x, x = hiRefCurrentDay F P.cx.hi (hiRefInOf st tc ge cv t) D.gs := ⟨_, rfl⟩
  obtain ⟨bio, hbio⟩ : ∃ x, x = biomassAccumulation P.cx.bio (natNum tc.dap) ge.s.delayedCds
    hr'.hiRef hr'.pctLagPhase st.biomass st.biomassNS t.trAct t.trPotNS D.et0 D.gs := ⟨_, rfl⟩
  -- 17. harvest index
  obtain ⟨hix, hhi⟩ := harvestIndex_total F T w.1 P.W.soil.zTop P.cx.hi P.cx.hik
    (hiStateOf st tc rd ge cv t hr' bio) D.et0 D.tmax D.tmin D.gs hP.ctype hP.pol
    (fun _ => Gw.deep2 _ capHi) Tw
  -- 20. root zone water
  obtain ⟨rz, hrz⟩ := rootZoneWater_total F w.1 rd.zRoot P.W.soil.zTop P.W.crop.tr.zMin
    P.W.crop.tr.aer (Gw.deep2 _ capTr) Tw
  -- assembly
  have hs : FullSteps F T P st D
      { tc := tc, g := g, rd := rd, p := p, d := drainage F p.1, r := r, i := i, f := f, c := c,
        ge := ge, gst := gst, cc := cv, e := e, t := t, w := w, hr := hr', bio := bio, hi := hix,
        y := yieldStep bio.2 bio.1 hix.hi hix.hiAdj P.cx.yldWC D.gs, rz := rz } :=
    { htc := htc, hrd := hrd, hge := hge, hgst := hgst, hcc := hcv, hhr := hhr, hbio := hbio,
      hhi := hhi, hy := rfl,
      water := ⟨hg, hp, rfl, hr, hi, hf, hc, he, ht, hw, hrz⟩ }
  exact ⟨dayResultOf P st D _, by unfold fullDay; rw [fullDayTrace_of_steps hs]⟩

/-- the two new state premises hold again at the end of a successful day (`RootInv`:
`fullDay_rootInv`) -/
theorem fullDay_stOK {r : DayResult α} (h : fullDay F T P st D = .ok r)
    (hG : ProfOK F P.W.soil P.W.waterTable P.zGerm Zcap Zev st.cells)
    (hP : DayParOK F P D Zcap Zev) (hS : DayStOK F P st Zev) :
    r.state.growthStage ≤ 4 ∧ P.W.soil.evapZMax - 100 ≤ r.state.evapZ ∧ r.state.evapZ ≤ Zev := by
  obtain ⟨X, hs, rfl⟩ := fullDay_ok' h
  refine ⟨growthStage_le hs.hgst hS.stage, ?_⟩
  have hc := (day_comps hs.water hG.dz).c
  have he := hs.water.he
  simp only [FullTrace.water_c, FullTrace.water_f, FullTrace.water_i, FullTrace.water_e] at hc he
  obtain ⟨e, he', lo, hi⟩ := soilEvaporation_total F (dayEvapParams P.W P.fm)
    (dayEvapState (X.cropDay P st) st.water X.f.pond) X.c.cells
    (dayEvapDay D.water X.f.infl X.i.irr) Zev hP.steps hP.calW hP.evLo hP.evHi
    (hG.evap.congr hc) hP.evFuel hS.evLo hS.evHi
  rw [he] at he'
  have e1 : X.e = e := Except.ok.inj he'
  show _ ≤ X.e.evapZ ∧ X.e.evapZ ≤ _
  rw [e1]
  exact ⟨lo, hi⟩

end day
end Aqua

#print axioms Aqua.fullDay_total
#print axioms Aqua.fullDay_stOK
