import AquaVerif.Model.WaterDay
import AquaVerif.Proofs.Basic
import AquaVerif.Proofs.GwCommon
import AquaVerif.Proofs.GroundwaterTable
import AquaVerif.Proofs.PreIrrigation
import AquaVerif.Proofs.Drainage
import AquaVerif.Proofs.RainPartition
import AquaVerif.Proofs.Irrigation
import AquaVerif.Proofs.Infiltration
import AquaVerif.Proofs.CapillaryRise
import AquaVerif.Proofs.SoilEvaporation
import AquaVerif.Proofs.Transpiration
import AquaVerif.Proofs.GroundwaterInflow
import AquaVerif.Proofs.RootZone
/-
Lemmas about `waterDay` (`Model/WaterDay.lean`), at an arbitrary linearly ordered field:

A. inversion of a successful day into the equations of its eleven process calls (`DaySteps`,
   `waterDay_ok`);
B. list helpers (transport of per-compartment facts along equal `map`s);
C. process-level lemmas the composition needs and the process files do not have:
   `rainPartition_sum` / `rainPartition_bounds` (both branches of `rainfall_partition`),
   `drainage_flux_le_ksat` (`FluxOut ≤ Ksat` after drainage — the entry condition of the
   infiltration bounds), `soilEvap_pond_of_nonpos`, `transp_pond`, `transp_trAct0_nonneg`,
   `checkGroundwaterTable_frame` / `_inv_any` (step 1 for any `water_table` flag);
D. the frame of the day (`day_comps`, `day_aer`, `day_fcAdj`);
E. the water balance of the day (`daySteps_balance`);
F. invariants along the day (`DayPre`, `day_mid`, `day_cr_inv`, `DayTrPre`, `day_late_inv`,
   `day_pond`);
G. the statements about the result of `waterDay` used by `Properties/C01, C02, C03, C04, C19`
   (`waterDay_*`);
H. `waterDay_far_table_eq_none`: a table far below the profile gives the same day as none;
and a concrete non-trivial day over `ℚ` (`DayExample`) satisfying every premise record.
-/

set_option linter.unusedSectionVars false
set_option linter.unusedVariables false
namespace Aqua
variable {α : Type} [Field α] [LinearOrder α] [IsStrictOrderedRing α]

/-! ## A. inversion of a successful day -/

theorem bind_ok {ε β γ : Type} {x : Except ε β} {f : β → Except ε γ} {y : γ}
    (h : (x >>= f) = .ok y) : ∃ a, x = .ok a ∧ f a = .ok y := by
  cases x with
  | error e => cases h
  | ok a => exact ⟨a, rfl, h⟩

theorem optErr_ok {β : Type} {m : String} {o : Option β} {b : β} (h : optErr m o = .ok b) :
    o = some b := by
  cases o with
  | none => cases h
  | some x => cases h; rfl

theorem mapErr_ok {ε β : Type} {f : ε → String} {x : Except ε β} {b : β}
    (h : mapErr f x = .ok b) : x = .ok b := by
  cases x with
  | error e => cases h
  | ok a => cases h; rfl

/-- the equations a successful day satisfies, process by process -/
structure DaySteps (F : Fn α) (W : WaterParams α) (fm : FieldMngt α) (C : CropDay α)
    (cells : List (Cell α)) (S : DayState α) (D : DayIn α) (T : DayTrace α) : Prop where
  hg : checkGroundwaterTable F cells W.waterTable D.zGW = some T.g
  hp : preIrrigationT F C.zRootNp T.g.cells D.gs W.irr.method (Int.ofNat C.dap) C.zRoot
        W.crop.tr.zMin W.netIrrSMT = some T.p
  hd : T.d = drainage F T.p.1
  hr : rainPartition F D.rain T.d.cells S.daySubmerged fm.srInhb fm.bunds fm.zBund
        (if fm.cnAdj then fm.cnAdjPct else 0) W.soil.cn W.soil.adjCN W.soil.zCN = some T.r
  hi : irrigation F W.irr T.d.cells C.growthStage S.irrCum S.ePot S.tPot C.zRoot C.dap D.sched
        W.crop.tr.zMin W.crop.tr.aer W.soil.zTop D.gs D.rain T.r.runoff = .ok T.i
  hf : infiltration F T.d.cells S.pond T.r.infl T.i.irr W.irr.appEff fm.bunds fm.zBund T.d.deepPerc
        T.r.runoff D.gs = .ok T.f
  hc : capillaryRise F T.f.cells W.soil.nLayer W.soil.fshapeCR T.g.zGW W.waterTable = .ok T.c
  he : soilEvaporation F (dayEvapParams W fm) (dayEvapState C S T.f.pond) T.c.cells
        (dayEvapDay D T.f.infl T.i.irr) = .ok T.e
  ht : transpiration F T.e.cells W.soil.nComp W.soil.zTop W.crop.tr W.irr.method W.netIrrSMT
        (dayTrState C S T.e.pond T.r.daySub T.i.depletion T.i.taw) D.et0 W.co2Cur W.co2Ref D.gs
        C.gdd = .ok T.t
  hw : groundwaterInflow T.t.cells T.g.wtInSoil T.g.zGW = some T.w
  hrz : rootZoneWater F T.w.1 C.zRoot W.soil.zTop W.crop.tr.zMin W.crop.tr.aer = some T.rz

theorem waterDayTrace_ok {F : Fn α} {W : WaterParams α} {fm : FieldMngt α} {C : CropDay α}
    {cells : List (Cell α)} {S : DayState α} {D : DayIn α} {T : DayTrace α}
    (h : waterDayTrace F W fm C cells S D = .ok T) : DaySteps F W fm C cells S D T := by
  unfold waterDayTrace at h
  obtain ⟨g, hg, h⟩ := bind_ok h
  unfold waterDayRest at h
  obtain ⟨p, hp, h⟩ := bind_ok h
  dsimp only at h
  obtain ⟨r, hr, h⟩ := bind_ok h
  obtain ⟨i, hi, h⟩ := bind_ok h
  obtain ⟨f, hf, h⟩ := bind_ok h
  obtain ⟨c, hc, h⟩ := bind_ok h
  obtain ⟨e, he, h⟩ := bind_ok h
  obtain ⟨t, ht, h⟩ := bind_ok h
  obtain ⟨w, hw, h⟩ := bind_ok h
  obtain ⟨rz, hrz, h⟩ := bind_ok h
  cases h
  exact ⟨optErr_ok hg, optErr_ok hp, rfl, optErr_ok hr, mapErr_ok hi, hf, mapErr_ok hc, he, ht,
    optErr_ok hw, optErr_ok hrz⟩

/-- a successful day is the row assembled from the outputs of its eleven process calls -/
theorem waterDay_ok {F : Fn α} {W : WaterParams α} {fm : FieldMngt α} {C : CropDay α}
    {cells : List (Cell α)} {S : DayState α} {D : DayIn α} {out : DayOut α}
    (h : waterDay F W fm C cells S D = .ok out) :
    ∃ T, DaySteps F W fm C cells S D T ∧ out = dayOutOf W D T := by
  unfold waterDay at h
  split at h
  · cases h
  · rename_i T hT
    cases h
    exact ⟨T, waterDayTrace_ok hT, rfl⟩

/-! ## B. list helpers -/

theorem forall_of_map_eq {β : Type} (k : Cell α → β) {xs ys : List (Cell α)}
    (h : ys.map k = xs.map k) (P : β → Prop) (hx : ∀ x ∈ xs, P (k x)) : ∀ y ∈ ys, P (k y) := by
  intro y hy
  have : k y ∈ xs.map k := by rw [← h]; exact List.mem_map_of_mem hy
  obtain ⟨x, hx', e⟩ := List.mem_map.1 this
  rw [← e]; exact hx x hx'

theorem map_eq_of_forall₂ {β : Type} (k : Cell α → β) {R : Cell α → Cell α → Prop}
    {xs ys : List (Cell α)} (h : List.Forall₂ R xs ys) (hR : ∀ x y, R x y → k y = k x) :
    ys.map k = xs.map k := by
  induction h with
  | nil => rfl
  | cons hxy _ ih => simp only [List.map_cons, hR _ _ hxy, ih]

theorem storage_eq_of_forall₂ {R : Cell α → Cell α → Prop} {xs ys : List (Cell α)}
    (h : List.Forall₂ R xs ys) (hR : ∀ x y, R x y → y.c = x.c ∧ y.th = x.th) :
    storage ys = storage xs := by
  induction h with
  | nil => rfl
  | cons hxy _ ih =>
    obtain ⟨e1, e2⟩ := hR _ _ hxy
    simp only [storage_cons, Cell.water, e1, e2, ih]

theorem forall₂_refl_of {R : Cell α → Cell α → Prop} (hR : ∀ x, R x x) :
    ∀ xs : List (Cell α), List.Forall₂ R xs xs
  | [] => List.Forall₂.nil
  | x :: xs => List.Forall₂.cons (hR x) (forall₂_refl_of hR xs)

/-- geometry only depends on the compartments -/
theorem trGeom_of_map_c : ∀ (xs ys : List (Cell α)) (top : α),
    ys.map (·.c) = xs.map (·.c) → TrGeom top xs → TrGeom top ys
  | [], [], _, _, _ => trivial
  | [], _ :: _, _, h, _ => by simp at h
  | _ :: _, [], _, h, _ => by simp at h
  | x :: xs, y :: ys, top, h, hg => by
    simp only [List.map_cons, List.cons.injEq] at h
    obtain ⟨h1, h2⟩ := h
    obtain ⟨g1, g2, g3⟩ := hg
    refine ⟨by rw [h1]; exact g1, by rw [h1]; exact g2, ?_⟩
    rw [h1]; exact trGeom_of_map_c xs ys _ h2 g3

theorem trLayersOK_of_map_c (wp fc : Nat → α) : ∀ (xs ys : List (Cell α)) (pl : Nat),
    ys.map (·.c) = xs.map (·.c) → TrLayersOK wp fc pl xs → TrLayersOK wp fc pl ys
  | [], [], _, _, _ => trivial
  | [], _ :: _, _, h, _ => by simp at h
  | _ :: _, [], _, h, _ => by simp at h
  | x :: xs, y :: ys, pl, h, hg => by
    simp only [List.map_cons, List.cons.injEq] at h
    obtain ⟨h1, h2⟩ := h
    obtain ⟨g1, g2, g3, g4, g5⟩ := hg
    refine ⟨by rw [h1]; exact g1, by rw [h1]; exact g2, by rw [h1]; exact g3,
      by rw [h1]; exact g4, ?_⟩
    rw [h1]; exact trLayersOK_of_map_c wp fc xs ys _ h2 g5

/-! ## C. process lemmas the composition needs -/

/-! ### rainfall partition -/

/-- the two branches of `rainfall_partition`: bypass (runoff inhibited, or bunds of at least 1 mm)
or the SCS split at the effective curve number `r.cn` -/
theorem rainPartition_cases {F : Fn α} {p : α} {cells : List (Cell α)} {daySub : Nat}
    {srInhb bunds : Bool} {zBund pct soilCN zCN : α} {adjCN : Bool} {r : RainOut α}
    (h : rainPartition F p cells daySub srInhb bunds zBund pct soilCN adjCN zCN = some r) :
    (¬ (srInhb = false ∧ (bunds = false ∨ zBund < 0.001)) ∧ r.runoff = 0 ∧ r.infl = p ∧
        r.daySub = daySub ∧ r.cn = 0) ∨
    ((srInhb = false ∧ (bunds = false ∨ zBund < 0.001)) ∧ r.runoff = (scsSplit F p r.cn).1 ∧
        r.infl = (scsSplit F p r.cn).2 ∧ r.daySub = 0) := by
  unfold rainPartition at h
  by_cases hb : srInhb = false ∧ (bunds = false ∨ zBund < 0.001)
  · rw [if_pos hb] at h
    right
    refine ⟨hb, ?_⟩
    dsimp only at h
    split at h
    · cases h
    · rename_i cn _
      cases h
      exact ⟨rfl, rfl, rfl⟩
  · rw [if_neg hb] at h
    cases h
    exact Or.inl ⟨hb, rfl, rfl, rfl, rfl⟩

/-- the SCS split returns `(R, P − R)`: the sum is the rain, for every curve number and whatever
`term ** 2` evaluates to -/
theorem scsSplit_sum (F : Fn α) (p cn : α) : (scsSplit F p cn).1 + (scsSplit F p cn).2 = p := by
  unfold scsSplit
  simp only []
  split_ifs <;> simp

/-- **`Runoff + Infl = P`** in both branches of `rainfall_partition`, without any premise -/
theorem rainPartition_sum {F : Fn α} {p : α} {cells : List (Cell α)} {daySub : Nat}
    {srInhb bunds : Bool} {zBund pct soilCN zCN : α} {adjCN : Bool} {r : RainOut α}
    (h : rainPartition F p cells daySub srInhb bunds zBund pct soilCN adjCN zCN = some r) :
    r.runoff + r.infl = p := by
  rcases rainPartition_cases h with ⟨_, h1, h2, _, _⟩ | ⟨_, h1, h2, _⟩
  · rw [h1, h2]; simp
  · rw [h1, h2]; exact scsSplit_sum F p r.cn

/-- signs: with non-negative rain and, where the SCS split runs, an effective curve number in
`(0, 100]`, both parts are non-negative (hence each is at most the rain).  Law: `PowSqLaw`. -/
theorem rainPartition_bounds {F : Fn α} (hF : PowSqLaw F) {p : α} {cells : List (Cell α)} {daySub : Nat}
    {srInhb bunds : Bool} {zBund pct soilCN zCN : α} {adjCN : Bool} {r : RainOut α}
    (h : rainPartition F p cells daySub srInhb bunds zBund pct soilCN adjCN zCN = some r)
    (hp : 0 ≤ p)
    (hcn : (srInhb = false ∧ (bunds = false ∨ zBund < 0.001)) → 0 < r.cn ∧ r.cn ≤ 100) :
    0 ≤ r.runoff ∧ r.runoff ≤ p ∧ 0 ≤ r.infl ∧ r.infl ≤ p := by
  have hs := rainPartition_sum h
  rcases rainPartition_cases h with ⟨_, h1, h2, _, _⟩ | ⟨hb, h1, h2, _⟩
  · rw [h1, h2]; exact ⟨le_refl _, hp, hp, le_refl _⟩
  · obtain ⟨c1, c2⟩ := hcn hb
    obtain ⟨b1, b2, _⟩ := scsSplit_bounds hF p r.cn hp c1 c2
    rw [← h1] at b1 b2
    exact ⟨b1, b2, by linarith, by linarith⟩

/-! ### drainage: `FluxOut ≤ Ksat` -/

theorem capK_ds_le (k thn ds ex : α) (br : Nat) : (capK k thn ds ex br).ds ≤ k := by
  unfold capK
  split_ifs with h
  · exact le_refl _
  · exact not_lt.mp h

theorem drainStep_ds_le (F : Fn α) (x : Cell α) (ds : α) (hk : 0 ≤ x.c.ksat) :
    (drainStep F x ds).ds ≤ x.c.ksat := by
  unfold drainStep drainFromNew
  simp only []
  split_ifs
  all_goals first
    | exact capK_ds_le _ _ _ _ _
    | exact hk
    | (rename_i h4 h5; exact absurd (lt_of_not_ge h4) h5)

theorem pushUpAbove_flux (xs : List (Cell α)) (e : α) (h : ∀ x ∈ xs, x.flux ≤ x.c.ksat) :
    ∀ y ∈ (pushUpAbove xs e).1, y.flux ≤ y.c.ksat := by
  induction xs generalizing e with
  | nil => simp [pushUpAbove]
  | cons x xs ih =>
    unfold pushUpAbove
    simp only []
    have hx := h x (by simp)
    have hxs : ∀ y ∈ xs, y.flux ≤ y.c.ksat := fun y hy => h y (by simp [hy])
    split_ifs with h1 h2
    · intro y hy
      rcases List.mem_cons.1 hy with rfl | hy
      · simp only []; linarith
      · exact ih _ hxs y hy
    · intro y hy
      rcases List.mem_cons.1 hy with rfl | hy
      · simp only []; linarith
      · exact hxs y hy
    · exact h

theorem pushUpDrain_flux (xs : List (Cell α)) (e : α) (h : ∀ x ∈ xs, x.flux ≤ x.c.ksat) :
    ∀ y ∈ (pushUpDrain xs e).1, y.flux ≤ y.c.ksat := by
  cases xs with
  | nil => simp [pushUpDrain]
  | cons x xs =>
    unfold pushUpDrain
    simp only []
    have hx := h x (by simp)
    have hxs : ∀ y ∈ xs, y.flux ≤ y.c.ksat := fun y hy => h y (by simp [hy])
    split_ifs with h1 h2
    · intro y hy
      rcases List.mem_cons.1 hy with rfl | hy
      · exact hx
      · exact pushUpAbove_flux _ _ hxs y hy
    · intro y hy
      rcases List.mem_cons.1 hy with rfl | hy
      · exact hx
      · exact hxs y hy
    · exact h

theorem drainLoop_flux (F : Fn α) (vis xs : List (Cell α)) (ds lost : α) (brs : List Nat)
    (hv : ∀ x ∈ vis, x.flux ≤ x.c.ksat) (hx : ∀ x ∈ xs, 0 ≤ x.c.ksat) :
    ∀ y ∈ (drainLoop F vis xs ds lost brs).cells, y.flux ≤ y.c.ksat := by
  induction xs generalizing vis ds lost brs with
  | nil =>
    intro y hy
    simp only [drainLoop, List.mem_reverse] at hy
    exact hv y hy
  | cons x xs ih =>
    rw [drainLoop]
    apply ih
    · apply pushUpDrain_flux
      intro y hy
      rcases List.mem_cons.1 hy with rfl | hy
      · exact drainStep_ds_le F x ds (hx x (by simp))
      · exact hv y hy
    · exact fun y hy => hx y (by simp [hy])

/-- after `drainage` the day's outgoing flux of every compartment is at most its saturated
hydraulic conductivity (needs only `Ksat ≥ 0`) -/
theorem drainage_flux_le_ksat (F : Fn α) (cells : List (Cell α)) (hk : ∀ x ∈ cells, 0 ≤ x.c.ksat) :
    ∀ y ∈ (drainage F cells).cells, y.flux ≤ y.c.ksat :=
  drainLoop_flux F [] cells 0 0 [] (by simp) hk

/-! ### soil evaporation and transpiration: the ponded water -/

/-- without ponded water the evaporation process leaves the surface storage alone -/
theorem soilEvap_pond_of_nonpos (F : Fn α) (P : EvapParams α) (S : EvapState α)
    (cells : List (Cell α)) (D : EvapDay α) (out : EvapOut α)
    (h : soilEvaporation F P S cells D = .ok out) (hp : S.pond ≤ 0) : out.pond = S.pond := by
  unfold soilEvaporation at h
  generalize hri : evapReinit F P cells D.tsc S.dap _ = ri at h
  cases ri with
  | error e => simp at h
  | ok sb =>
    obtain ⟨s0, b0⟩ := sb
    simp only [] at h
    generalize hep : esPotential F P S D = ep at h
    cases ep with
    | error e => simp at h
    | ok eb =>
      obtain ⟨esPot, b2⟩ := eb
      simp only [] at h
      have hpe : (pondEvap P esPot S.pond (evapRefresh P D s0).1).2.1 = S.pond := by
        unfold pondEvap
        rw [if_neg (not_lt.mpr hp)]
      generalize pondEvap P esPot S.pond (evapRefresh P D s0).1 = pe at h hpe
      obtain ⟨e0, pond', s2, b3⟩ := pe
      simp only [] at h hpe
      generalize evapStage1 F P cells s2 esPot e0 = r1 at h
      cases r1 with
      | error e => simp at h
      | ok g1 =>
        simp only [] at h
        generalize evapStage2 F P g1 = r2 at h
        cases r2 with
        | error e => simp at h
        | ok g2 =>
          simp only [Except.ok.injEq] at h
          subst h
          exact hpe

theorem trSurface_pond {l : α} {n : Nat} {cells : List (Cell α)} {pond ds tp0 : α}
    {sf : TrSurfR α} (h : trSurface l n cells pond ds tp0 = .ok sf) :
    (0 ≤ pond → 0 ≤ sf.pond) ∧ (pond ≤ 0 → sf.pond = pond) := by
  unfold trSurface at h
  by_cases h1 : 0 < pond ∧ ds < l
  · simp only [h1, and_self, if_true] at h
    cases hc : trIncAer l n cells with
    | none => simp [hc] at h
    | some cells' =>
      by_cases h2 : l ≤ 0 ∧ 0 ≤ l
      · simp [hc, h2] at h
      · simp only [hc, h2, if_false, Except.ok.injEq] at h
        subst h
        simp only []
        refine ⟨fun hp => ?_, fun hp => absurd h1.1 (not_lt.mpr hp)⟩
        split_ifs with h3
        · linarith
        · exact hp
  · simp only [h1, if_false, Except.ok.injEq] at h; subst h
    exact ⟨fun hp => hp, fun _ => rfl⟩

/-- the ponded water after transpiration: what left it is the ghost `trAct0`; it never becomes
negative; and without ponded water it is left alone -/
theorem transp_pond {F : Fn α} {cells : List (Cell α)} {nComp : Nat} {zTop : α}
    {crop : TrCrop α} {m : Nat} {smt : α} {st : TrState α} {et0 cur ref gdd : α} {gs : Bool}
    {out : TrOut α}
    (h : transpiration F cells nComp zTop crop m smt st et0 cur ref gs gdd = .ok out) :
    out.st.pond + out.trAct0 = st.pond ∧ (0 ≤ st.pond → 0 ≤ out.st.pond) ∧
      (st.pond ≤ 0 → out.st.pond = st.pond) := by
  cases gs with
  | false =>
    simp only [transpiration, Bool.false_eq_true, if_false, Except.ok.injEq] at h
    subst h
    exact ⟨by simp, fun hp => hp, fun _ => rfl⟩
  | true =>
    obtain ⟨pot, sf, rz, hpot, hsf, hrz, hcore⟩ := transp_ok_inv h
    obtain ⟨ni, hlen, hni, rfl⟩ := trCore_ok_inv hcore
    obtain ⟨_, _, b1⟩ := trSurface_spec hsf
    obtain ⟨p1, p2⟩ := trSurface_pond hsf
    simp only [trFinish]
    exact ⟨b1, p1, p2⟩

/-! ### step 1 for any `water_table` flag -/

/-- what `check_groundwater_table` never touches -/
def GwtFrame (x y : Cell α) : Prop :=
  y.c = x.c ∧ y.th = x.th ∧ y.flux = x.flux ∧ y.aer = x.aer

theorem checkGroundwaterTable_frame (F : Fn α) (cells : List (Cell α)) (wt : Nat) (zGW : α)
    (r : GwtOut α) (h : checkGroundwaterTable F cells wt zGW = some r) :
    List.Forall₂ GwtFrame cells r.cells := by
  by_cases hw : wt = 1
  · subst hw
    exact checkGroundwaterTable_frame1 F cells zGW r h
  · rw [checkGroundwaterTable_no_table F cells wt zGW hw] at h
    cases h
    exact forall₂_refl_of (fun x => ⟨rfl, rfl, rfl, rfl⟩) cells

theorem checkGroundwaterTable_inv_any {F : Fn α} (hF : PowSqLaw F) (cells : List (Cell α))
    (wt : Nat) (zGW : α) (r : GwtOut α) (hinv : ∀ x ∈ cells, x.Inv) (h : checkGroundwaterTable F cells wt zGW = some r) :
    ∀ y ∈ r.cells, y.Inv := by
  by_cases hw : wt = 1
  · subst hw; exact checkGroundwaterTable_inv hF cells zGW r hinv h
  · rw [checkGroundwaterTable_no_table F cells wt zGW hw] at h
    cases h; exact hinv

theorem transp_trAct0_nonneg {F : Fn α} {cells : List (Cell α)} {nComp : Nat} {zTop : α}
    {crop : TrCrop α} {m : Nat} {smt : α} {st : TrState α} {et0 cur ref gdd : α} {gs : Bool}
    {out : TrOut α} (hds : 0 ≤ st.daySubmerged)
    (hint : st.daySubmerged < crop.lagAer → st.daySubmerged + 1 ≤ crop.lagAer)
    (h : transpiration F cells nComp zTop crop m smt st et0 cur ref gs gdd = .ok out)
    (hp : 0 ≤ out.trPot0) : 0 ≤ out.trAct0 := by
  cases gs with
  | false =>
    simp only [transpiration, Bool.false_eq_true, if_false, Except.ok.injEq] at h
    subst h; exact le_refl _
  | true =>
    obtain ⟨pot, sf, rz, hpot, hsf, hrz, hcore⟩ := transp_ok_inv h
    obtain ⟨ni, hlen, hni, rfl⟩ := trCore_ok_inv hcore
    simp only [trFinish] at hp ⊢
    exact (trSurface_bounds hsf hds hp).2.2 hint

/-! ## D. the frame of the day -/

section day
variable {F : Fn α} {W : WaterParams α} {fm : FieldMngt α} {C : CropDay α}
  {cells : List (Cell α)} {S : DayState α} {D : DayIn α} {T : DayTrace α}

/-- every intermediate profile of the day has the compartments of the incoming one -/
structure DayComps (cells : List (Cell α)) (T : DayTrace α) : Prop where
  g : T.g.cells.map (·.c) = cells.map (·.c)
  p : T.p.1.map (·.c) = cells.map (·.c)
  d : T.d.cells.map (·.c) = cells.map (·.c)
  f : T.f.cells.map (·.c) = cells.map (·.c)
  c : T.c.cells.map (·.c) = cells.map (·.c)
  e : T.e.cells.map (·.c) = cells.map (·.c)
  t : T.t.cells.map (·.c) = cells.map (·.c)
  w : T.w.1.map (·.c) = cells.map (·.c)

theorem day_comps (hs : DaySteps F W fm C cells S D T) (hdz : ∀ x ∈ cells, 0 < x.c.dz) :
    DayComps cells T := by
  have g := map_eq_of_forall₂ (·.c) (checkGroundwaterTable_frame F cells _ _ _ hs.hg)
    (fun x y h => h.1)
  have p := (map_eq_of_forall₂ (·.c) (preIrrigationR_frame _ _ _ _ _ _ _ _ _ hs.hp)
    (fun x y h => h.1)).trans g
  have d : T.d.cells.map (·.c) = cells.map (·.c) := by
    rw [hs.hd]; exact (drainage_frame F T.p.1).2.1.trans p
  have f := (infiltration_frame hs.hf).2.1.trans d
  have c := (map_eq_of_forall₂ (·.c) (capillaryRise_frame F _ _ _ _ _ _ hs.hc)
    (fun x y h => h.1)).trans f
  have hpc : PosDz T.c.cells := forall_of_map_eq (·.c) c (fun c => 0 < c.dz) hdz
  have e := (soilEvap_frame _ _ _ _ _ _ hs.he hpc).2.1.trans c
  have t := (transp_frame hs.ht).2.1.trans e
  have w := (map_eq_of_forall₂ (·.c) (groundwaterInflow_frame _ _ _ _ hs.hw)
    (fun x y h => h.1)).trans t
  exact ⟨g, p, d, f, c, e, t, w⟩

/-- a property of compartments holds along the whole day -/
theorem DayComps.all {cells : List (Cell α)} {T : DayTrace α} (h : DayComps cells T)
    (P : Comp α → Prop) (hx : ∀ x ∈ cells, P x.c) :
    (∀ y ∈ T.g.cells, P y.c) ∧ (∀ y ∈ T.p.1, P y.c) ∧ (∀ y ∈ T.d.cells, P y.c) ∧
    (∀ y ∈ T.f.cells, P y.c) ∧ (∀ y ∈ T.c.cells, P y.c) ∧ (∀ y ∈ T.e.cells, P y.c) ∧
    (∀ y ∈ T.t.cells, P y.c) ∧ (∀ y ∈ T.w.1, P y.c) :=
  ⟨forall_of_map_eq (·.c) h.g P hx, forall_of_map_eq (·.c) h.p P hx,
   forall_of_map_eq (·.c) h.d P hx, forall_of_map_eq (·.c) h.f P hx,
   forall_of_map_eq (·.c) h.c P hx, forall_of_map_eq (·.c) h.e P hx,
   forall_of_map_eq (·.c) h.t P hx, forall_of_map_eq (·.c) h.w P hx⟩

/-- the aeration-day counters are untouched before transpiration -/
theorem day_aer (hs : DaySteps F W fm C cells S D T) (hdz : ∀ x ∈ cells, 0 < x.c.dz) :
    T.e.cells.map (·.aer) = cells.map (·.aer) := by
  have hc := day_comps hs hdz
  have g := map_eq_of_forall₂ (·.aer) (checkGroundwaterTable_frame F cells _ _ _ hs.hg)
    (fun x y h => h.2.2.2)
  have p := (map_eq_of_forall₂ (·.aer) (preIrrigationR_frame _ _ _ _ _ _ _ _ _ hs.hp)
    (fun x y h => h.2.2.2.1)).trans g
  have d : T.d.cells.map (·.aer) = cells.map (·.aer) := by
    rw [hs.hd]; exact (drainage_frame F T.p.1).2.2.2.trans p
  have f := (infiltration_frame hs.hf).2.2.2.trans d
  have c := (map_eq_of_forall₂ (·.aer) (capillaryRise_frame F _ _ _ _ _ _ hs.hc)
    (fun x y h => h.2.2.2.1)).trans f
  have hpc : PosDz T.c.cells := (hc.all (fun c => 0 < c.dz) hdz).2.2.2.2.1
  exact (soilEvap_frame _ _ _ _ _ _ hs.he hpc).2.2.2.2.trans c

/-- the adjusted field capacity is written by step 1 only -/
theorem day_fcAdj (hs : DaySteps F W fm C cells S D T) (hdz : ∀ x ∈ cells, 0 < x.c.dz) :
    T.c.cells.map (·.fcAdj) = T.g.cells.map (·.fcAdj) ∧
      T.w.1.map (·.fcAdj) = T.g.cells.map (·.fcAdj) := by
  have hc := day_comps hs hdz
  have p := map_eq_of_forall₂ (·.fcAdj) (preIrrigationR_frame _ _ _ _ _ _ _ _ _ hs.hp)
    (fun x y h => h.2.1)
  have d : T.d.cells.map (·.fcAdj) = T.g.cells.map (·.fcAdj) := by
    rw [hs.hd]; exact (drainage_frame F T.p.1).2.2.1.trans p
  have f := (infiltration_frame hs.hf).2.2.1.trans d
  have c := (map_eq_of_forall₂ (·.fcAdj) (capillaryRise_frame F _ _ _ _ _ _ hs.hc)
    (fun x y h => h.2.1)).trans f
  have hpc : PosDz T.c.cells := (hc.all (fun c => 0 < c.dz) hdz).2.2.2.2.1
  have e := (soilEvap_frame _ _ _ _ _ _ hs.he hpc).2.2.1.trans c
  have t := (transp_frame hs.ht).2.2.1.trans e
  have w := (map_eq_of_forall₂ (·.fcAdj) (groundwaterInflow_frame _ _ _ _ hs.hw)
    (fun x y h => h.2.1)).trans t
  exact ⟨c, w⟩

/-! ## E. the water balance of the day -/

/-- the balance in terms of the process outputs, with the two `lost` ghosts -/
theorem daySteps_balance (hs : DaySteps F W fm C cells S D T) (hdz : ∀ x ∈ cells, 0 < x.c.dz) :
    storage T.w.1 + T.t.st.pond =
      storage cells + S.pond + T.f.infl + T.p.2 + T.t.irrNet + T.c.crAdded + T.w.2
        - T.f.deepPerc - T.e.esAct - T.t.trAct - T.d.lost - T.f.lost := by
  have hc := day_comps hs hdz
  obtain ⟨_, zp, zd, _, zc, ze, _, _⟩ := hc.all (fun c => 0 < c.dz) hdz
  have bg : storage T.g.cells = storage cells :=
    storage_eq_of_forall₂ (checkGroundwaterTable_frame F cells _ _ _ hs.hg)
      (fun x y h => ⟨h.1, h.2.1⟩)
  have bp := preIrrigationT_balance F _ _ _ _ _ _ _ _ _ hs.hp
  have bd := drainage_balance F T.p.1 (fun x hx => (zp x hx).ne')
  rw [← hs.hd] at bd
  have bf := infiltration_balance_lost hs.hf zd
  have bc := capillaryRise_balance F _ _ _ _ _ _ hs.hc
  have be := soilEvap_balance _ _ _ _ _ _ hs.he zc
  have bt := transp_balance ze hs.ht
  have bw := groundwaterInflow_balance _ _ _ _ hs.hw
  simp only [dayEvapState, dayTrState] at be bt
  linear_combination bg + bp + bd + bf + bc + be + bt + bw

/-! ## F. invariants along the day -/

/-- premises on the day's inputs for "nothing is lost" and for the invariant up to infiltration:
the law `1 ≤ exp x` for `x ≥ 0`; incoming cells within limits (`DrainPre` = `Cell.Inv` +
`0 ≤ dzsum` + `th_fc < th_s`); non-negative ponding; in net-irrigation mode a threshold in
`[0, 100]` -/
structure DayPre (F : Fn α) (W : WaterParams α) (cells : List (Cell α)) (S : DayState α) :
    Prop where
  exp : ExpLaws F
  /-- `x ** 2 = x · x` (adjusted field capacity above the table, SCS runoff) -/
  sq : PowSqLaw F
  pre : ∀ x ∈ cells, DrainPre x
  pond : 0 ≤ S.pond
  smt : W.irr.method = 4 → 0 ≤ W.netIrrSMT ∧ W.netIrrSMT ≤ 100

/-- what holds after steps 1–7 -/
structure DayMid (fm : FieldMngt α) (S : DayState α) (T : DayTrace α) : Prop where
  g_inv : ∀ y ∈ T.g.cells, y.Inv
  p_pre : ∀ y ∈ T.p.1, DrainPre y
  d_inv : ∀ y ∈ T.d.cells, y.Inv
  d_flux : ∀ y ∈ T.d.cells, y.flux ≤ y.c.ksat
  d_lost : T.d.lost = 0
  d_dp : 0 ≤ T.d.deepPerc
  f_inv : ∀ y ∈ T.f.cells, y.Inv
  f_lost : T.f.lost = 0
  f_pond : 0 ≤ T.f.pond
  f_pond_le : fm.bunds = true → S.pond ≤ fm.zBund → T.f.pond ≤ fm.zBund
  f_pond_zero : fm.bunds = false ∨ fm.zBund ≤ 0.001 → T.f.pond = 0

theorem day_mid (hs : DaySteps F W fm C cells S D T) (hP : DayPre F W cells S) :
    DayMid fm S T := by
  have hinv : ∀ x ∈ cells, x.Inv := fun x hx => (hP.pre x hx).inv
  have hdz : ∀ x ∈ cells, 0 < x.c.dz := fun x hx => (hinv x hx).wf.dz_pos
  have hc := day_comps hs hdz
  have g_inv := checkGroundwaterTable_inv_any hP.sq cells _ _ _ hinv hs.hg
  have p_inv : ∀ y ∈ T.p.1, y.Inv := by
    rcases preIrrigationR_cases _ _ _ _ _ _ _ _ _ hs.hp with e | ⟨k, _, _, hm, _, _⟩
    · rw [e]; exact g_inv
    · obtain ⟨s0, s1⟩ := hP.smt hm
      exact fun y hy => (preIrrigationR_inv _ _ _ _ _ _ _ _ _ s0 s1 g_inv hs.hp y hy).1
  have p_geo := (hc.all (fun c => 0 ≤ c.dzsum ∧ c.thFC < c.thS)
    (fun x hx => ⟨(hP.pre x hx).dzsum_nn, (hP.pre x hx).fc_lt_s⟩)).2.1
  have p_pre : ∀ y ∈ T.p.1, DrainPre y :=
    fun y hy => ⟨p_inv y hy, (p_geo y hy).1, (p_geo y hy).2⟩
  have d_inv : ∀ y ∈ T.d.cells, y.Inv := by
    rw [hs.hd]; exact drainage_inv F hP.exp T.p.1 p_pre
  have d_flux : ∀ y ∈ T.d.cells, y.flux ≤ y.c.ksat := by
    rw [hs.hd]
    exact drainage_flux_le_ksat F T.p.1 (fun x hx => (p_inv x hx).wf.ksat_nn)
  have d_lost : T.d.lost = 0 := by rw [hs.hd]; exact drainage_lost_zero F hP.exp T.p.1 p_pre
  have d_dp : 0 ≤ T.d.deepPerc := by
    rw [hs.hd]; exact drainage_deepPerc_nonneg F hP.exp T.p.1 p_pre
  obtain ⟨f_inv, f_pond, f_le, f_zero⟩ := infiltration_inv hs.hf d_inv hP.pond
  have f_lost := infiltration_lost_eq_zero hs.hf hP.pond (fun c hc => (d_inv c hc).wf.ksat_nn)
  exact ⟨g_inv, p_pre, d_inv, d_flux, d_lost, d_dp, f_inv, f_lost, f_pond, f_le, f_zero⟩

/-- capillary rise keeps `Cell.Inv` **provided it did not lift a compartment above saturation**
(`hNo`); the laws of `exp` and of 4-decimal rounding are needed only with a water table -/
theorem day_cr_inv (hs : DaySteps F W fm C cells S D T) (hf : ∀ y ∈ T.f.cells, y.Inv)
    (hL : W.waterTable = 1 → GwExpLaws F ∧ GwRoundLaws F ∧ GwRoundSign F)
    (hNo : ∀ y ∈ T.c.cells, y.th ≤ y.c.thS) : ∀ y ∈ T.c.cells, y.Inv := by
  intro y hy
  rcases capillaryRise_wt F _ _ _ _ _ _ hs.hc with h0 | h1
  · have h := hs.hc
    rw [h0, capillaryRise_no_table] at h
    rw [← Except.ok.inj h] at hy
    exact hf y hy
  · obtain ⟨hE, hR, hS⟩ := hL h1
    obtain ⟨a, b, _, c, d⟩ := capillaryRise_inv_slack F hE hR hS _ _ _ _ _ _ hf hs.hc y hy
    exact ⟨a, b, hNo y hy, c, d⟩

/-- … and in any case it stays within `th_dry ≤ th ≤ th_s + 1/20000` -/
theorem day_cr_inv_slack (hs : DaySteps F W fm C cells S D T) (hf : ∀ y ∈ T.f.cells, y.Inv)
    (hL : W.waterTable = 1 → GwExpLaws F ∧ GwRoundLaws F ∧ GwRoundSign F) :
    ∀ y ∈ T.c.cells, y.c.WF ∧ y.c.thDry ≤ y.th ∧ y.th ≤ y.c.thS + 1 / 20000 ∧
      y.c.thFC ≤ y.fcAdj ∧ y.fcAdj ≤ y.c.thS := by
  intro y hy
  rcases capillaryRise_wt F _ _ _ _ _ _ hs.hc with h0 | h1
  · have h := hs.hc
    rw [h0, capillaryRise_no_table] at h
    rw [← Except.ok.inj h] at hy
    have hi := hf y hy
    have : (0:α) ≤ 1 / 20000 := by norm_num
    exact ⟨hi.wf, hi.th_lo, by linarith [hi.th_hi], hi.fc_lo, hi.fc_hi⟩
  · obtain ⟨hE, hR, hS⟩ := hL h1
    exact capillaryRise_inv_slack F hE hR hS _ _ _ _ _ _ hf hs.hc y hy

/-- premises of the transpiration invariant, on the day's inputs: idealised geometry (`dzsum`
is the running sum of positive thicknesses), non-negative aeration-day counters, sink terms and
root-correction factor, positive rounded rooting depth, and in net-irrigation mode
layer-consistent wilting point / field capacity -/
structure DayTrPre (F : Fn α) (W : WaterParams α) (C : CropDay α) (cells : List (Cell α))
    (wp fc : Nat → α) : Prop where
  geom : TrGeom 0 cells
  aer : ∀ x ∈ cells, 0 ≤ x.aer
  sxTop : 0 ≤ W.crop.tr.sxTop
  sxBot : 0 ≤ W.crop.tr.sxBot
  rCor : 0 ≤ C.rCor
  rd : 0 < F.pyRound2 (pmax C.zRoot W.crop.tr.zMin)
  layers : W.irr.method = 4 → TrLayersOK wp fc 0 cells

/-- steps 12–14 keep `Cell.Inv` -/
theorem day_late_inv (hs : DaySteps F W fm C cells S D T) (hdz : ∀ x ∈ cells, 0 < x.c.dz)
    (hsmt : W.irr.method = 4 → 0 ≤ W.netIrrSMT ∧ W.netIrrSMT ≤ 100) (wp fc : Nat → α)
    (hT : DayTrPre F W C cells wp fc) (hc : ∀ y ∈ T.c.cells, y.Inv) :
    (∀ y ∈ T.e.cells, y.Inv) ∧ (∀ y ∈ T.t.cells, y.Inv) ∧ (∀ y ∈ T.w.1, y.Inv) := by
  have hcs := day_comps hs hdz
  have e_inv := soilEvap_inv _ _ _ _ _ _ hs.he hc
  have e_geo : TrGeom 0 T.e.cells := trGeom_of_map_c cells T.e.cells 0 hcs.e hT.geom
  have e_aer : ∀ y ∈ T.e.cells, 0 ≤ y.aer :=
    forall_of_map_eq (·.aer) (day_aer hs hdz) (fun a => 0 ≤ a) hT.aer
  have t_inv := transp_inv (F := F)
    (st := dayTrState C S T.e.pond T.r.daySub T.i.depletion T.i.taw) wp fc e_geo e_inv e_aer
    hT.sxTop hT.sxBot hT.rCor hT.rd (natNum_nonneg _)
    (fun hm => ⟨(hsmt hm).1, (hsmt hm).2,
      trLayersOK_of_map_c wp fc cells T.e.cells 0 hcs.e (hT.layers hm)⟩) hs.ht
  exact ⟨e_inv, t_inv, groundwaterInflow_inv _ _ _ _ t_inv hs.hw⟩

/-- the ponded water along steps 12–13 -/
theorem day_pond (hs : DaySteps F W fm C cells S D T) (hdz : ∀ x ∈ cells, 0 < x.c.dz)
    (hf : 0 ≤ T.f.pond) :
    0 ≤ T.t.st.pond ∧ (T.f.pond = 0 → T.t.st.pond = 0) ∧
    (0 ≤ T.e.esPot → 0 ≤ T.t.trPot0 →
      (natNum T.r.daySub < W.crop.tr.lagAer → natNum T.r.daySub + 1 ≤ W.crop.tr.lagAer) →
      T.t.st.pond ≤ T.f.pond) := by
  have hcs := day_comps hs hdz
  have hpc : PosDz T.c.cells := (hcs.all (fun c => 0 < c.dz) hdz).2.2.2.2.1
  obtain ⟨e1, e2⟩ := soilEvap_pond' _ _ _ _ _ _ hs.he hpc hf
  obtain ⟨t1, t2, t3⟩ := transp_pond hs.ht
  simp only [dayEvapState, dayTrState] at e1 e2 t1 t2 t3
  refine ⟨t2 e1, fun h0 => ?_, fun hes htr hint => ?_⟩
  · have := soilEvap_pond_of_nonpos _ _ _ _ _ _ hs.he (by simp only [dayEvapState]; rw [h0])
    simp only [dayEvapState] at this
    rw [t3 (by rw [this, h0]), this, h0]
  · have := transp_trAct0_nonneg (natNum_nonneg _) hint hs.ht htr
    linarith [e2 hes]

/-! ## G. statements about the result of `waterDay` -/

variable {out : DayOut α}

/-! ### C01: balance -/

/-- the day's balance with the two `lost` ghosts; needs only positive thicknesses -/
theorem waterDay_balance_lost (h : waterDay F W fm C cells S D = .ok out)
    (hdz : ∀ x ∈ cells, 0 < x.c.dz) :
    storage out.cells + out.pond =
      storage cells + S.pond + out.infl + out.preIrr + out.irrNet + out.crAdded + out.gwIn
        - out.deepPerc - out.es - out.tr - out.drainLost - out.inflLost := by
  obtain ⟨T, hs, rfl⟩ := waterDay_ok h
  exact daySteps_balance hs hdz

theorem waterDay_lost_zero (h : waterDay F W fm C cells S D = .ok out)
    (hP : DayPre F W cells S) : out.drainLost = 0 ∧ out.inflLost = 0 := by
  obtain ⟨T, hs, rfl⟩ := waterDay_ok h
  have hm := day_mid hs hP
  exact ⟨hm.d_lost, hm.f_lost⟩

/-- reported vs. real capillary rise -/
theorem waterDay_cr_err (h : waterDay F W fm C cells S D = .ok out) (hR : GwRoundLaws F)
    (hdz : ∀ x ∈ cells, 0 < x.c.dz) :
    0 ≤ out.dzFill ∧ |out.cr - out.crAdded| ≤ out.dzFill * 1000 * (1 / 20000) := by
  obtain ⟨T, hs, rfl⟩ := waterDay_ok h
  have hf := ((day_comps hs hdz).all (fun c => 0 < c.dz) hdz).2.2.2.1
  exact capillaryRise_err F hR _ _ _ _ _ _ (fun x hx => (hf x hx).le) hs.hc

/-! ### C02: partition at the surface -/

/-- the guard of the SCS branch of `rainfall_partition` -/
def ScsRuns (fm : FieldMngt α) : Prop :=
  fm.srInhb = false ∧ (fm.bunds = false ∨ fm.zBund < 0.001)

/-- the efficiency-adjusted irrigation application of the day -/
def irrApplied (W : WaterParams α) (D : DayIn α) (out : DayOut α) : α :=
  if D.gs then out.irr * (W.irr.appEff / 100) else 0

theorem daySteps_rain (hF : PowSqLaw F) (hs : DaySteps F W fm C cells S D T) (hrain : 0 ≤ D.rain)
    (hcn : ScsRuns fm → 0 < T.r.cn ∧ T.r.cn ≤ 100) :
    T.r.runoff + T.r.infl = D.rain ∧ 0 ≤ T.r.runoff ∧ 0 ≤ T.r.infl ∧ pmax T.r.infl 0 = T.r.infl := by
  obtain ⟨b1, b2, b3, b4⟩ := rainPartition_bounds hF hs.hr hrain hcn
  refine ⟨rainPartition_sum hs.hr, b1, b3, ?_⟩
  rw [pmax_eq]; exact max_eq_left b3

theorem waterDay_partition (hF : PowSqLaw F) (h : waterDay F W fm C cells S D = .ok out)
    (hrain : 0 ≤ D.rain)
    (hcn : ScsRuns fm → 0 < out.cn ∧ out.cn ≤ 100) :
    out.infl + out.runoff = D.rain + irrApplied W D out := by
  obtain ⟨T, hs, rfl⟩ := waterDay_ok h
  obtain ⟨r1, r2, r3, r4⟩ := daySteps_rain hF hs hrain hcn
  have hp := infiltration_partition hs.hf
  rw [r4] at hp
  simp only [dayOutOf, irrApplied]
  linear_combination hp + r1

theorem waterDay_runoff_bounds (h : waterDay F W fm C cells S D = .ok out)
    (hP : DayPre F W cells S) (hrain : 0 ≤ D.rain)
    (hcn : ScsRuns fm → 0 < out.cn ∧ out.cn ≤ 100) :
    0 ≤ out.runoff ∧ out.runoff ≤ D.rain + irrApplied W D out + S.pond := by
  obtain ⟨T, hs, rfl⟩ := waterDay_ok h
  obtain ⟨r1, r2, r3, r4⟩ := daySteps_rain hP.sq hs hrain hcn
  have hm := day_mid hs hP
  have h1 := infiltration_runoff_nonneg hs.hf hP.pond (fun c hc => (hm.d_inv c hc).wf.ksat_nn)
  have h2 := infiltration_runoff_le hs.hf hm.d_inv hm.d_flux hP.pond
  have h3 := (infiltration_inflIn hs.hf).1
  rw [r4] at h3
  simp only [dayOutOf, irrApplied]
  constructor
  · linarith
  · linarith

theorem waterDay_infl_neg (h : waterDay F W fm C cells S D = .ok out)
    (hP : DayPre F W cells S)
    (hpz : fm.bunds = true → 0.001 < fm.zBund → S.pond ≤ fm.zBund) (hneg : out.infl < 0) :
    (fm.bunds = false ∨ fm.zBund ≤ 0.001) ∧ 0 < S.pond ∧ -out.infl ≤ S.pond := by
  obtain ⟨T, hs, rfl⟩ := waterDay_ok h
  have hm := day_mid hs hP
  exact infiltration_infl_neg hs.hf hm.d_inv hm.d_flux hP.pond hpz hneg

theorem waterDay_dry (h : waterDay F W fm C cells S D = .ok out)
    (hdz : ∀ x ∈ cells, 0 < x.c.dz) (hk : ∀ x ∈ cells, 0 ≤ x.c.ksat)
    (hcn : ScsRuns fm → 0 < out.cn ∧ out.cn ≤ 100)
    (hrain : D.rain = 0) (hirr : out.irr = 0) (hpond : S.pond = 0) :
    out.infl = 0 ∧ out.runoff = 0 := by
  obtain ⟨T, hs, rfl⟩ := waterDay_ok h
  -- no rain: the bypass returns `(0, P)`, the SCS split takes its `term ≤ 0` branch (no `pow`)
  have hr00 : T.r.runoff = 0 ∧ T.r.infl = 0 := by
    rcases rainPartition_cases hs.hr with ⟨_, h1, h2, _, _⟩ | ⟨hb, h1, h2, _⟩
    · exact ⟨h1, by rw [h2, hrain]⟩
    · have hc : 0 < T.r.cn ∧ T.r.cn ≤ 100 := hcn hb
      rw [h1, h2, hrain, scsSplit_zero F hc.1 hc.2]; exact ⟨rfl, rfl⟩
  have hi0 : T.r.infl = 0 := hr00.2
  have hr0 : T.r.runoff = 0 := hr00.1
  have r4 : pmax T.r.infl 0 = T.r.infl := by rw [hi0]; simp [pmax]
  have hkd := ((day_comps hs hdz).all (fun c => 0 ≤ c.ksat) hk).2.2.1
  simp only [dayOutOf] at hirr
  have := infiltration_dry hs.hf hkd (by rw [r4, hi0, hirr]; simp) hpond
  simp only [dayOutOf]
  exact ⟨this.1, by rw [this.2.1, hr0]⟩

/-! ### C03: limits -/

/-- `Cell.Inv` at the end of the day, provided capillary rise did not lift a compartment above
saturation (`hNo`, about the ghost `crCells` = the profile right after step 8) -/
theorem waterDay_inv (h : waterDay F W fm C cells S D = .ok out) (hP : DayPre F W cells S)
    (wp fc : Nat → α) (hT : DayTrPre F W C cells wp fc)
    (hL : W.waterTable = 1 → GwExpLaws F ∧ GwRoundLaws F ∧ GwRoundSign F)
    (hNo : ∀ y ∈ out.crCells, y.th ≤ y.c.thS) : ∀ y ∈ out.cells, y.Inv := by
  obtain ⟨T, hs, rfl⟩ := waterDay_ok h
  have hm := day_mid hs hP
  have hdz : ∀ x ∈ cells, 0 < x.c.dz := fun x hx => (hP.pre x hx).inv.wf.dz_pos
  exact (day_late_inv hs hdz hP.smt wp fc hT (day_cr_inv hs hm.f_inv hL hNo)).2.2

/-- after capillary rise the profile is within `th_dry ≤ th ≤ th_s + 1/20000` -/
theorem waterDay_cr_slack (h : waterDay F W fm C cells S D = .ok out) (hP : DayPre F W cells S)
    (hL : W.waterTable = 1 → GwExpLaws F ∧ GwRoundLaws F ∧ GwRoundSign F) :
    ∀ y ∈ out.crCells, y.c.WF ∧ y.c.thDry ≤ y.th ∧ y.th ≤ y.c.thS + 1 / 20000 ∧
      y.c.thFC ≤ y.fcAdj ∧ y.fcAdj ≤ y.c.thS := by
  obtain ⟨T, hs, rfl⟩ := waterDay_ok h
  exact day_cr_inv_slack hs (day_mid hs hP).f_inv hL

/-- without a water table capillary rise is the identity, so no premise about it is needed -/
theorem waterDay_inv_no_table (h : waterDay F W fm C cells S D = .ok out)
    (hP : DayPre F W cells S) (wp fc : Nat → α) (hT : DayTrPre F W C cells wp fc)
    (hwt : W.waterTable ≠ 1) : ∀ y ∈ out.cells, y.Inv := by
  obtain ⟨T, hs, rfl⟩ := waterDay_ok h
  have hm := day_mid hs hP
  have hdz : ∀ x ∈ cells, 0 < x.c.dz := fun x hx => (hP.pre x hx).inv.wf.dz_pos
  have hc : ∀ y ∈ T.c.cells, y.Inv := by
    rcases capillaryRise_wt F _ _ _ _ _ _ hs.hc with h0 | h1
    · have h := hs.hc
      rw [h0, capillaryRise_no_table] at h
      rw [← Except.ok.inj h]
      exact hm.f_inv
    · exact absurd h1 hwt
  exact (day_late_inv hs hdz hP.smt wp fc hT hc).2.2

/-- integrality of `LagAer` as far as the submergence counter needs it -/
def LagAerIntegral (W : WaterParams α) : Prop :=
  ∀ n : Nat, (natNum n : α) < W.crop.tr.lagAer → natNum n + 1 ≤ W.crop.tr.lagAer

theorem waterDay_pond (h : waterDay F W fm C cells S D = .ok out) (hP : DayPre F W cells S) :
    0 ≤ out.pond ∧ (fm.bunds = false ∨ fm.zBund ≤ 0.001 → out.pond = 0) ∧
    (fm.bunds = true → S.pond ≤ fm.zBund → 0 ≤ out.esPot → 0 ≤ out.trPot → LagAerIntegral W →
      out.pond ≤ fm.zBund) := by
  obtain ⟨T, hs, rfl⟩ := waterDay_ok h
  have hm := day_mid hs hP
  have hdz : ∀ x ∈ cells, 0 < x.c.dz := fun x hx => (hP.pre x hx).inv.wf.dz_pos
  obtain ⟨p1, p2, p3⟩ := day_pond hs hdz hm.f_pond
  refine ⟨p1, fun hb => p2 (hm.f_pond_zero hb), fun hb hz he ht hl => ?_⟩
  exact le_trans (p3 he ht (hl _)) (hm.f_pond_le hb hz)

theorem waterDay_wr_nonneg (h : waterDay F W fm C cells S D = .ok out) : 0 ≤ out.wr := by
  obtain ⟨T, hs, rfl⟩ := waterDay_ok h
  exact rootZoneWater_wrAct_nonneg F _ _ _ _ _ _ hs.hrz

/-! ### C04: signs and actual ≤ potential -/

theorem waterDay_irr_nonneg (h : waterDay F W fm C cells S D = .ok out) :
    0 ≤ out.irr ∧ (W.irr.method ≠ 4 → 0 ≤ out.irrDay) ∧
      (W.irr.method = 0 ∨ W.irr.method = 4 → out.irr = 0) := by
  obtain ⟨T, hs, rfl⟩ := waterDay_ok h
  have h0 := irr_nonneg hs.hi
  refine ⟨h0, fun hm => ?_, fun hm => ?_⟩
  · simp only [dayOutOf, hm, if_false]
    split_ifs
    · exact h0
    · exact le_refl _
  · rcases hm with hm | hm
    · exact irr_rainfed hs.hi hm
    · exact irr_net hs.hi hm

theorem waterDay_deepPerc_nonneg (h : waterDay F W fm C cells S D = .ok out)
    (hP : DayPre F W cells S) : 0 ≤ out.deepPerc := by
  obtain ⟨T, hs, rfl⟩ := waterDay_ok h
  have hm := day_mid hs hP
  have := infiltration_deepPerc_nonneg hs.hf
    (fun c hc => ⟨(hm.d_inv c hc).wf, hm.d_flux c hc⟩)
  simp only [dayOutOf]
  linarith [hm.d_dp]

theorem waterDay_cr_nonneg (h : waterDay F W fm C cells S D = .ok out) (hE : GwExpLaws F)
    (hdz : ∀ x ∈ cells, 0 < x.c.dz) : 0 ≤ out.cr := by
  obtain ⟨T, hs, rfl⟩ := waterDay_ok h
  have hf := ((day_comps hs hdz).all (fun c => 0 < c.dz) hdz).2.2.2.1
  exact (capillaryRise_nonneg F hE _ _ _ _ _ _ hf hs.hc).1

theorem waterDay_gwIn_nonneg (h : waterDay F W fm C cells S D = .ok out)
    (hdz : ∀ x ∈ cells, 0 < x.c.dz) : 0 ≤ out.gwIn := by
  obtain ⟨T, hs, rfl⟩ := waterDay_ok h
  have ht := ((day_comps hs hdz).all (fun c => 0 < c.dz) hdz).2.2.2.2.2.2.1
  exact groundwaterInflow_nonneg _ _ _ _ (fun x hx => (ht x hx).le) hs.hw

/-- the adjusted time of the withered-canopy test, from the day's inputs -/
def dayTAdj (W : WaterParams α) (C : CropDay α) : α :=
  if W.crop.calendarType = 1 then natNum C.dap - C.delayedCds else C.gddCum - C.delayedGdds

/-- the withered-canopy branch of the potential evaporation is active -/
def DaySen (W : WaterParams α) (C : CropDay α) : Prop :=
  W.crop.senescence < dayTAdj W C ∧ 0 < C.ccxAct

/-- `EsPotPre` on the day's inputs: `Kex, ET0 ≥ 0`; adjusted canopy cover `≤ 1` in season while
the withered-canopy branch is off; `CCxW·fwcc/100 ≤ 1` where the cap `EsPotMax` can bind; mulch
reduction `≤ 1`; wetted fraction `≥ 0` -/
structure DayEsPre (W : WaterParams α) (fm : FieldMngt α) (C : CropDay α) (D : DayIn α) :
    Prop where
  kex_nn : 0 ≤ W.soil.kex
  et0_nn : 0 ≤ D.et0
  ccAdj_le : D.gs = true → ¬ DaySen W C → C.ccAdj ≤ 1
  ccxW_le : D.gs = true → DaySen W C ∨ C.prematSenes = true → C.ccxW * (W.soil.fwcc / 100) ≤ 1
  mulch_le : fm.mulches = true → fm.fMulch * (fm.mulchPct / 100) ≤ 1
  wet_nn : W.irr.method ≠ 4 → 0 ≤ W.wetSurf

theorem DayEsPre.toEsPotPre (hp : DayEsPre W fm C D) (pond infl irr : α) :
    EsPotPre (dayEvapParams W fm) (dayEvapState C S pond) (dayEvapDay D infl irr) :=
  ⟨hp.kex_nn, hp.et0_nn, fun hg hs => hp.ccAdj_le hg hs, fun hg hs => hp.ccxW_le hg hs,
   fun hm _ => hp.mulch_le hm, fun _ hm => hp.wet_nn hm⟩

theorem waterDay_es_bounds (h : waterDay F W fm C cells S D = .ok out)
    (hdz : ∀ x ∈ cells, 0 < x.c.dz) (hp : DayEsPre W fm C D) :
    0 ≤ out.esPot ∧ 0 ≤ out.es ∧ out.es ≤ out.esPot := by
  obtain ⟨T, hs, rfl⟩ := waterDay_ok h
  have hc := ((day_comps hs hdz).all (fun c => 0 < c.dz) hdz).2.2.2.2.1
  obtain ⟨e1, e2⟩ := soilEvap_esAct_le_esPot_combined _ _ _ _ _ _ hs.he hc (hp.toEsPotPre _ _ _)
  exact ⟨e1, soilEvap_esAct_nonneg _ _ _ _ _ _ hs.he hc e1, e2⟩

/-- `EsAct ≤ EsPot` and `0 ≤ EsAct` need only the sign of the reported `EsPot` -/
theorem waterDay_es_bounds' (h : waterDay F W fm C cells S D = .ok out)
    (hdz : ∀ x ∈ cells, 0 < x.c.dz) (hp : 0 ≤ out.esPot) : 0 ≤ out.es ∧ out.es ≤ out.esPot := by
  obtain ⟨T, hs, rfl⟩ := waterDay_ok h
  have hc := ((day_comps hs hdz).all (fun c => 0 < c.dz) hdz).2.2.2.2.1
  exact ⟨soilEvap_esAct_nonneg _ _ _ _ _ _ hs.he hc hp,
    soilEvap_esAct_le_esPot _ _ _ _ _ _ hs.he hc hp⟩

theorem waterDay_tr_le (h : waterDay F W fm C cells S D = .ok out)
    (hdz : ∀ x ∈ cells, 0 < x.c.dz) (hp : 0 ≤ out.trPot) : out.tr ≤ out.trPot := by
  obtain ⟨T, hs, rfl⟩ := waterDay_ok h
  have he := ((day_comps hs hdz).all (fun c => 0 < c.dz) hdz).2.2.2.2.2.1
  exact transp_trAct_le_trPot0 he (natNum_nonneg _) hs.ht hp

theorem waterDay_tr_nonneg (h : waterDay F W fm C cells S D = .ok out)
    (hdz : ∀ x ∈ cells, 0 < x.c.dz) (wp fc : Nat → α) (hT : DayTrPre F W C cells wp fc)
    (hl : LagAerIntegral W) (hp : 0 ≤ out.trPot) : 0 ≤ out.tr := by
  obtain ⟨T, hs, rfl⟩ := waterDay_ok h
  have hcs := day_comps hs hdz
  have e_geo : TrGeom 0 T.e.cells := trGeom_of_map_c cells T.e.cells 0 hcs.e hT.geom
  have e_aer : ∀ y ∈ T.e.cells, 0 ≤ y.aer :=
    forall_of_map_eq (·.aer) (day_aer hs hdz) (fun a => 0 ≤ a) hT.aer
  exact (transp_trAct_nonneg (F := F)
    (st := dayTrState C S T.e.pond T.r.daySub T.i.depletion T.i.taw) e_geo e_aer hT.sxTop hT.sxBot
    hT.rCor hT.rd (natNum_nonneg _) (hl _) hs.ht hp).1

theorem waterDay_irrNet_lower (h : waterDay F W fm C cells S D = .ok out)
    (hdz : ∀ x ∈ cells, 0 < x.c.dz) (wp fc : Nat → α) (hT : DayTrPre F W C cells wp fc)
    (hsmt : W.irr.method = 4 → 0 ≤ W.netIrrSMT ∧ W.netIrrSMT ≤ 100)
    (ε : α) (hε : ∀ v, |F.round2 v - v| ≤ ε)
    (hround : F.round2 (pmax C.zRoot W.crop.tr.zMin) = F.pyRound2 (pmax C.zRoot W.crop.tr.zMin))
    (hn : cells.length ≤ W.soil.nComp) : -(2 * ε * out.compSto) ≤ out.irrNet := by
  obtain ⟨T, hs, rfl⟩ := waterDay_ok h
  have hcs := day_comps hs hdz
  have e_geo : TrGeom 0 T.e.cells := trGeom_of_map_c cells T.e.cells 0 hcs.e hT.geom
  have hlen : T.e.cells.length = cells.length := by
    have := congrArg List.length hcs.e
    simpa using this
  exact transp_irrNet_lower (F := F)
    (st := dayTrState C S T.e.pond T.r.daySub T.i.depletion T.i.taw) wp fc ε hε hround e_geo hT.rd
    (by rw [hlen]; exact hn)
    (fun hm => ⟨(hsmt hm).1, (hsmt hm).2,
      trLayersOK_of_map_c wp fc cells T.e.cells 0 hcs.e (hT.layers hm)⟩) hs.ht

theorem waterDay_offseason (h : waterDay F W fm C cells S D = .ok out) (hg : D.gs = false) :
    out.tr = 0 ∧ out.trPot = 0 ∧ out.irrDay = 0 ∧ out.irr = 0 ∧ out.irrNet = 0 ∧
      out.preIrr = 0 := by
  obtain ⟨T, hs, rfl⟩ := waterDay_ok h
  have ht := hs.ht
  have hi := hs.hi
  have hp := hs.hp
  rw [hg] at ht hi hp
  obtain ⟨t1, t2, _, t4, _, _⟩ := transp_offseason ht
  have hp' : T.p = (T.g.cells, 0) := by
    have := preIrrigationR_inactive (if C.zRootNp then F.round2 else F.pyRound2) T.g.cells false
      W.irr.method (Int.ofNat C.dap) C.zRoot W.crop.tr.zMin W.netIrrSMT (Or.inl rfl)
    unfold preIrrigationT at hp
    rw [this] at hp
    exact (Option.some.inj hp).symm
  simp only [dayOutOf, hg]
  exact ⟨t1, t2, by simp, (irr_offseason hi).1, t4, by rw [hp']⟩

/-! ### C19: groundwater -/

theorem map_pair_eq {β γ : Type} (f : Cell α → β) (g : Cell α → γ) :
    ∀ (xs ys : List (Cell α)), ys.map f = xs.map f → ys.map g = xs.map g →
      ys.map (fun x => (f x, g x)) = xs.map (fun x => (f x, g x))
  | [], [], _, _ => rfl
  | [], _ :: _, h, _ => by simp at h
  | _ :: _, [], h, _ => by simp at h
  | x :: xs, y :: ys, h1, h2 => by
    simp only [List.map_cons, List.cons.injEq] at h1 h2 ⊢
    exact ⟨by rw [h1.1, h2.1], map_pair_eq f g xs ys h1.2 h2.2⟩

/-- with a water table, at the end of the day (and at every moment after step 1) the adjusted
field capacity lies between field capacity and saturation -/
theorem waterDay_fcAdj_range (hF : PowSqLaw F) (h : waterDay F W fm C cells S D = .ok out)
    (hwt : W.waterTable = 1) (hwf : ∀ x ∈ cells, x.c.WF) :
    ∀ y ∈ out.cells, y.c.thFC ≤ y.fcAdj ∧ y.fcAdj ≤ y.c.thS := by
  obtain ⟨T, hs, rfl⟩ := waterDay_ok h
  have hdz : ∀ x ∈ cells, 0 < x.c.dz := fun x hx => (hwf x hx).dz_pos
  have hcs := day_comps hs hdz
  have hg := hs.hg
  rw [hwt] at hg
  have r := fcAdj_range hF cells D.zGW T.g hwf hg
  have hpair := map_pair_eq (·.c) (·.fcAdj) T.g.cells T.w.1 (hcs.w.trans hcs.g.symm)
    (day_fcAdj hs hdz).2
  exact forall_of_map_eq (fun x : Cell α => (x.c, x.fcAdj)) hpair
    (fun p => p.1.thFC ≤ p.2 ∧ p.2 ≤ p.1.thS) (fun x hx => (r x hx).2)

/-- what step 1 reports about the table -/
theorem waterDay_table (h : waterDay F W fm C cells S D = .ok out) (hwt : W.waterTable = 1) :
    out.zGW = D.zGW ∧ 0 ≤ D.zGW ∧ (out.wtInSoil = true ↔ ∃ x ∈ cells, D.zGW ≤ x.c.zMid) := by
  obtain ⟨T, hs, rfl⟩ := waterDay_ok h
  have hg := hs.hg
  rw [hwt] at hg
  obtain ⟨_, a, b, c⟩ := checkGroundwaterTable_wt F cells D.zGW T.g hg
  exact ⟨a, b, c⟩

/-- groundwater inflow is the last process that writes `th`: at the end of the day every
compartment whose centre is at or below the table holds at least its saturation content -/
theorem waterDay_below_table_ge (h : waterDay F W fm C cells S D = .ok out)
    (hin : out.wtInSoil = true) : ∀ y ∈ out.cells, out.zGW ≤ y.c.zMid → y.c.thS ≤ y.th := by
  obtain ⟨T, hs, rfl⟩ := waterDay_ok h
  have hw := hs.hw
  simp only [dayOutOf] at hin
  rw [hin] at hw
  simp only [groundwaterInflow, if_true] at hw
  exact gwSeek_sat _ _ _ hw

/-- … and exactly its saturation content when the invariant holds before the inflow -/
theorem waterDay_below_table_eq (h : waterDay F W fm C cells S D = .ok out)
    (hP : DayPre F W cells S) (wp fc : Nat → α) (hT : DayTrPre F W C cells wp fc)
    (hL : W.waterTable = 1 → GwExpLaws F ∧ GwRoundLaws F ∧ GwRoundSign F)
    (hNo : ∀ y ∈ out.crCells, y.th ≤ y.c.thS) (hin : out.wtInSoil = true) :
    ∀ y ∈ out.cells, out.zGW ≤ y.c.zMid → y.th = y.c.thS := by
  obtain ⟨T, hs, rfl⟩ := waterDay_ok h
  have hm := day_mid hs hP
  have hdz : ∀ x ∈ cells, 0 < x.c.dz := fun x hx => (hP.pre x hx).inv.wf.dz_pos
  have t_inv := (day_late_inv hs hdz hP.smt wp fc hT (day_cr_inv hs hm.f_inv hL hNo)).2.1
  have hw := hs.hw
  simp only [dayOutOf] at hin
  rw [hin] at hw
  exact gwInflow_saturates _ _ _ (fun x hx => (t_inv x hx).th_hi) hw

/-- without a water table the day has no capillary rise, no groundwater inflow and leaves the
adjusted field capacity alone -/
theorem waterDay_no_table (h : waterDay F W fm C cells S D = .ok out) (hwt : W.waterTable ≠ 1)
    (hdz : ∀ x ∈ cells, 0 < x.c.dz) :
    out.cr = 0 ∧ out.crAdded = 0 ∧ out.gwIn = 0 ∧ out.wtInSoil = false ∧
      out.cells.map (·.fcAdj) = cells.map (·.fcAdj) := by
  obtain ⟨T, hs, rfl⟩ := waterDay_ok h
  have hg := hs.hg
  rw [checkGroundwaterTable_no_table F cells _ D.zGW hwt] at hg
  have hg' := Option.some.inj hg
  have hwi : T.g.wtInSoil = false := by rw [← hg']
  have hgc : T.g.cells = cells := by rw [← hg']
  have hc := hs.hc
  have hw := hs.hw
  rw [hwi, groundwaterInflow_no_table] at hw
  have hw' := Option.some.inj hw
  rcases capillaryRise_wt F _ _ _ _ _ _ hs.hc with h0 | h1
  · rw [h0, capillaryRise_no_table] at hc
    have hc' := Except.ok.inj hc
    simp only [dayOutOf]
    refine ⟨by rw [← hc'], by rw [← hc'], by rw [← hw'], hwi, ?_⟩
    rw [(day_fcAdj hs hdz).2, hgc]
  · exact absurd h1 hwt

/-- a table below every compartment centre gives no groundwater inflow -/
theorem waterDay_table_below_profile (h : waterDay F W fm C cells S D = .ok out)
    (hlow : ∀ x ∈ cells, x.c.zMid < D.zGW) : out.wtInSoil = false ∧ out.gwIn = 0 := by
  obtain ⟨T, hs, rfl⟩ := waterDay_ok h
  have hwi : T.g.wtInSoil = false := by
    by_cases hwt : W.waterTable = 1
    · have hg := hs.hg
      rw [hwt] at hg
      obtain ⟨_, _, _, c⟩ := checkGroundwaterTable_wt F cells D.zGW T.g hg
      cases hb : T.g.wtInSoil with
      | false => rfl
      | true =>
        obtain ⟨x, hx, hz⟩ := c.1 hb
        exact absurd hz (not_le.mpr (hlow x hx))
    · have hg := hs.hg
      rw [checkGroundwaterTable_no_table F cells _ D.zGW hwt] at hg
      rw [← Option.some.inj hg]
  have hw := hs.hw
  rw [hwi, groundwaterInflow_no_table] at hw
  simp only [dayOutOf]
  exact ⟨hwi, by rw [← Option.some.inj hw]⟩

/-- a table 4 m or more below the centre of the bottom compartment gives no capillary rise -/
theorem waterDay_far_table (h : waterDay F W fm C cells S D = .ok out) (h0 : GwRound0Laws F)
    (front : List (Cell α)) (last : Cell α) (hcells : cells = front ++ [last])
    (hdz : ∀ x ∈ cells, 0 < x.c.dz) (hfar : 4 ≤ D.zGW - last.c.zMid) :
    out.cr = 0 ∧ out.crAdded = 0 ∧ out.dzFill = 0 := by
  obtain ⟨T, hs, rfl⟩ := waterDay_ok h
  have hc := hs.hc
  simp only [dayOutOf]
  rcases capillaryRise_wt F _ _ _ _ _ _ hs.hc with hw0 | hw1
  · rw [hw0, capillaryRise_no_table] at hc
    rw [← Except.ok.inj hc]
    exact ⟨rfl, rfl, rfl⟩
  · have hg := hs.hg
    rw [hw1] at hg
    obtain ⟨_, hz, _, _⟩ := checkGroundwaterTable_wt F cells D.zGW T.g hg
    have hmap := (day_comps hs hdz).f
    rw [hcells, List.map_append, List.map_singleton] at hmap
    obtain ⟨l1, l2, hl, _, h2⟩ := List.map_eq_append_iff.1 hmap
    obtain ⟨l', rfl, hl'⟩ := List.map_eq_singleton_iff.1 h2
    rw [hw1, hz, hl] at hc
    obtain ⟨b, above, hrev, hlay, _⟩ := capillaryRise_table F _ _ _ _ _ hc
    have hb : b = l' := by
      rw [List.reverse_append, List.reverse_singleton, List.singleton_append] at hrev
      exact (List.cons.inj hrev).1.symm
    rw [← hlay, hb, capillaryRise_far_table F h0 l1 l' _ _ (by rw [hl']; exact hfar)] at hc
    rw [← Except.ok.inj hc]
    exact ⟨rfl, rfl, rfl⟩

end day

/-! ## H. a table far below the profile gives the same day as no table -/

theorem bind_congr_ok {ε β γ : Type} {x : Except ε β} {f g : β → Except ε γ}
    (h : ∀ a, x = .ok a → f a = g a) : (x >>= f) = (x >>= g) := by
  cases x with
  | error e => rfl
  | ok a => exact h a rfl

theorem map_resetFC_id (cells : List (Cell α)) (h : ∀ x ∈ cells, x.fcAdj = x.c.thFC) :
    cells.map Cell.resetFC = cells := by
  induction cells with
  | nil => rfl
  | cons x xs ih =>
    have hx := h x (by simp)
    simp only [List.map_cons, ih (fun y hy => h y (by simp [hy]))]
    congr 1
    cases x
    simp only [Cell.resetFC] at hx ⊢
    rw [hx]

theorem anyMidGE_false (zGW : α) (cells : List (Cell α)) (h : ∀ x ∈ cells, x.c.zMid < zGW) :
    anyMidGE zGW cells = false := by
  cases hb : anyMidGE zGW cells with
  | false => rfl
  | true =>
    obtain ⟨x, hx, hz⟩ := (anyMidGE_iff zGW cells).1 hb
    exact absurd hz (not_le.mpr (h x hx))

/-- forget the reported table depth -/
def DayOut.noZGW (o : DayOut α) : DayOut α := { o with zGW := 0 }

/-- **`far_table_equals_none`.**  A water table at depth `D.zGW` that is below every compartment
centre, at least `Xmax` and at least 4 m below the centre of the bottom compartment, gives — for
a profile whose adjusted field capacity is the field capacity, as it is without a table — exactly
the day obtained without a water table (whatever depth `z'` is passed then; Python passes 0), in
every output except the reported table depth.  `hlay` is the assertion `capillary_rise` makes only
when there is a table. -/
theorem waterDay_far_table_eq_none (F : Fn α) (h0 : GwRound0Laws F) (W : WaterParams α)
    (fm : FieldMngt α) (C : CropDay α) (front : List (Cell α)) (last : Cell α) (S : DayState α)
    (D : DayIn α) (z' : α)
    (hdz : ∀ x ∈ front ++ [last], 0 < x.c.dz)
    (hfc : ∀ x ∈ front ++ [last], x.fcAdj = x.c.thFC)
    (hz : 0 ≤ D.zGW) (hlow : ∀ x ∈ front ++ [last], x.c.zMid < D.zGW)
    (hX : gwXmax F last.c.thFC ≤ D.zGW - last.c.zMid) (h4 : 4 ≤ D.zGW - last.c.zMid)
    (hlay : W.soil.nLayer = last.c.layer) :
    (waterDay F { W with waterTable := 1 } fm C (front ++ [last]) S D).map DayOut.noZGW =
      (waterDay F { W with waterTable := 0 } fm C (front ++ [last]) S { D with zGW := z' }).map
        DayOut.noZGW := by
  set cells := front ++ [last] with hcells
  have hg1 : checkGroundwaterTable F cells 1 D.zGW =
      some { cells := cells, table := true, wtInSoil := false, zGW := D.zGW } := by
    rw [hcells, fcAdj_far F front last D.zGW hz hX, ← hcells, map_resetFC_id cells hfc,
      anyMidGE_false D.zGW cells hlow]
  have hg0 : checkGroundwaterTable F cells 0 z' =
      some { cells := cells, table := false, wtInSoil := false, zGW := z' } :=
    checkGroundwaterTable_no_table F cells 0 z' (by decide)
  unfold waterDay waterDayTrace
  simp only [hg1, hg0, optErr]
  -- both sides: `waterDayRest` on the same cells
  show Except.map DayOut.noZGW
      (match waterDayRest F { W with waterTable := 1 } fm C S D
          { cells := cells, table := true, wtInSoil := false, zGW := D.zGW } with
        | .error e => .error e
        | .ok T => .ok (dayOutOf { W with waterTable := 1 } D T)) =
    Except.map DayOut.noZGW
      (match waterDayRest F { W with waterTable := 0 } fm C S { D with zGW := z' }
          { cells := cells, table := false, wtInSoil := false, zGW := z' } with
        | .error e => .error e
        | .ok T => .ok (dayOutOf { W with waterTable := 0 } { D with zGW := z' } T))
  unfold waterDayRest
  simp only []
  -- step 3
  generalize hp : optErr "E:index" (preIrrigationT F C.zRootNp cells D.gs W.irr.method
    (Int.ofNat C.dap) C.zRoot W.crop.tr.zMin W.netIrrSMT) = px
  cases px with
  | error e => rfl
  | ok p =>
    have hpc : p.1.map (·.c) = cells.map (·.c) :=
      map_eq_of_forall₂ (·.c) (preIrrigationR_frame _ _ _ _ _ _ _ _ _ (optErr_ok hp))
        (fun x y h => h.1)
    have hdc : (drainage F p.1).cells.map (·.c) = cells.map (·.c) :=
      (drainage_frame F p.1).2.1.trans hpc
    simp only [bind, Except.bind]
    generalize optErr "E:index" (rainPartition F D.rain (drainage F p.1).cells S.daySubmerged
      fm.srInhb fm.bunds fm.zBund (if fm.cnAdj then fm.cnAdjPct else 0) W.soil.cn W.soil.adjCN
      W.soil.zCN) = rx
    cases rx with
    | error e => rfl
    | ok r =>
      simp only []
      generalize mapErr irrErrStr (irrigation F W.irr (drainage F p.1).cells C.growthStage S.irrCum
        S.ePot S.tPot C.zRoot C.dap D.sched W.crop.tr.zMin W.crop.tr.aer W.soil.zTop D.gs D.rain
        r.runoff) = ix
      cases ix with
      | error e => rfl
      | ok i =>
        simp only []
        generalize hf : infiltration F (drainage F p.1).cells S.pond r.infl i.irr W.irr.appEff
          fm.bunds fm.zBund (drainage F p.1).deepPerc r.runoff D.gs = fx
        cases fx with
        | error e => rfl
        | ok f =>
          simp only []
          have hfc' : f.cells.map (·.c) = (front ++ [last]).map (·.c) :=
            (infiltration_frame hf).2.1.trans hdc
          rw [List.map_append, List.map_singleton] at hfc'
          obtain ⟨l1, l2, hl, _, h2⟩ := List.map_eq_append_iff.1 hfc'
          obtain ⟨l', rfl, hl'⟩ := List.map_eq_singleton_iff.1 h2
          have hc1 : capillaryRise F f.cells W.soil.nLayer W.soil.fshapeCR D.zGW 1 =
              .ok { cells := f.cells, crTot := 0, crAdded := 0, dzFill := 0, nIter := 0,
                    nCap := 0, nFill := 0 } := by
            rw [hl, hlay, ← congrArg Comp.layer hl']
            exact capillaryRise_far_table F h0 l1 l' _ _ (by rw [hl']; exact h4)
          rw [hc1, capillaryRise_no_table]
          simp only [mapErr, groundwaterInflow_no_table, optErr, dayEvapParams, dayEvapDay,
            dayEvapState]
          generalize soilEvaporation F _ _ f.cells _ = ex
          cases ex with
          | error e => rfl
          | ok e =>
            simp only []
            generalize transpiration F e.cells _ _ _ _ _ _ _ _ _ _ _ = tx
            cases tx with
            | error e => rfl
            | ok t =>
              simp only []
              generalize rootZoneWater F t.cells _ _ _ _ = rzx
              cases rzx with
              | none => rfl
              | some rz => rfl

/-! ## Non-vacuity: a concrete day over `ℚ`

A four-compartment loam-like profile with a water table at 1 m, 20 mm of rain, a constant-depth
irrigation of 10 mm at 90 % efficiency, a crop at 80 % canopy cover.  `exp x := max 1 (1 + x)`,
`log x := x − 1` and exact "rounding" satisfy every law the lemmas ask for.  The day succeeds with
runoff, infiltration, capillary rise, evaporation and transpiration all positive, and its inputs
satisfy `DayPre`, `DayTrPre`, `DayEsPre` and the no-overshoot premise of `waterDay_inv`. -/

namespace DayExample


def Fq : Fn ℚ :=
  { exp := fun x => if x ≤ 0 then 1 else 1 + x, log := fun x => x - 1, log10 := id,
    pow := fun x y => if y = 2 then x * x else x, round0 := id, round2 := id, round3 := id,
    round4 := id, pyRound2 := id }
def cq (zs : ℚ) : Comp ℚ :=
  { dz := 0.1, dzsum := zs, zMid := zs - 0.05, thS := 0.5, thFC := 0.3, thWP := 0.1,
    thDry := 0.05, tau := 0.5, ksat := 500, pen := 100, aCR := -0.5, bCR := -1, layer := 1 }
def cellsq : List (Cell ℚ) :=
  [ { c := cq 0.1, th := 0.2, fcAdj := 0.3, flux := 0, aer := 0 },
    { c := cq 0.2, th := 0.25, fcAdj := 0.3, flux := 0, aer := 0 },
    { c := cq 0.3, th := 0.35, fcAdj := 0.3, flux := 0, aer := 0 },
    { c := cq 0.4, th := 0.3, fcAdj := 0.3, flux := 0, aer := 0 } ]
def cropq : TrCrop ℚ :=
  { maxCanopyCD := 60, kcb := 1.1, fage := 0.15, aTr := 1, trColdStress := 0, gddUp := 14,
    gddLo := 0, lagAer := 3, zMin := 0.2, aer := 5, pUp := fun _ => 0.5, pLo := fun _ => 1,
    fshW := fun _ => 3, etAdj := true, beta := 12, sxTop := 0.048, sxBot := 0.012 }
def Wq : WaterParams ℚ :=
  { waterTable := 1,
    soil := { cn := 72, adjCN := false, zCN := 0.3, nComp := 4, nLayer := 1, fshapeCR := 16,
              zTop := 0.1, evapZMin := 0.15, evapZMax := 0.152, rew := 9, kex := 1.1, fwcc := 50,
              fWrelExp := 0.4, fevap := 4 },
    crop := { tr := cropq, calendarType := 1, senescence := 100 },
    irr := { method := 5, smt := fun _ => 50, appEff := 90, maxIrr := 25, interval := 3,
             depth := 10, maxSeason := 1000 },
    netIrrSMT := 80, wetSurf := 100, evapTimeSteps := 2, simOffSeason := false,
    co2Cur := 369, co2Ref := 369 }
def fmq : FieldMngt ℚ :=
  { srInhb := false, bunds := false, zBund := 0, cnAdj := false, cnAdjPct := 0, mulches := false,
    fMulch := 0.5, mulchPct := 50 }
def Cq : CropDay ℚ :=
  { dap := 30, gdd := 10, gddCum := 300, zRoot := 0.25, zRootNp := true, rCor := 1,
    growthStage := 2, delayedCds := 0, delayedGdds := 0, ccxW := 0.8, ccAdj := 0.9, ccxAct := 0.8,
    cc := 0.8, prematSenes := false, ccxWNS := 0.8, ccAdjNS := 0.9, ccNS := 0.8, ccPrev := 0.8,
    tEarlySen := 0 }
def Sq : DayState ℚ :=
  { pond := 0, daySubmerged := 0, irrCum := 0, ePot := 1, tPot := 3, wSurf := 1, evapZ := 0.15,
    stage2 := false, wStage2 := 0, ageDaysNS := 0, ageDays := 0, aerDays := 0, irrNetCum := 0,
    trRatio := 1 }
def Dq : DayIn ℚ := { gs := true, tsc := 5, rain := 20, et0 := 5, zGW := 1, sched := none }

/-- `infl 27.007… ro 1.992… dp 0 cr 0.313… gw 0 es 0.55 tr 4.95 irr 10 pond 0` -/
theorem runsB :
    (match waterDay Fq Wq fmq Cq cellsq Sq Dq with
     | .ok out => decide (out.crCells.all (fun y => decide (y.th ≤ y.c.thS)) = true ∧ 0 < out.cr ∧ 0 < out.infl ∧
                          0 < out.runoff ∧ 0 < out.es ∧ 0 < out.tr ∧ out.irr = 10 ∧ out.cn = 72 ∧ 0 < out.trPot)
     | .error _ => false) = true := by decide +kernel

theorem runs : ∃ out, waterDay Fq Wq fmq Cq cellsq Sq Dq = .ok out ∧
    (∀ y ∈ out.crCells, y.th ≤ y.c.thS) ∧ 0 < out.cr ∧ 0 < out.infl ∧ 0 < out.runoff ∧
    0 < out.es ∧ 0 < out.tr ∧ out.irr = 10 ∧ out.cn = 72 ∧ 0 < out.trPot := by
  have h := runsB
  cases hd : waterDay Fq Wq fmq Cq cellsq Sq Dq with
  | error e => rw [hd] at h; simp at h
  | ok out =>
    rw [hd] at h
    simp only [decide_eq_true_eq, List.all_eq_true] at h
    exact ⟨out, rfl, h⟩

theorem Fq_exp : ExpLaws Fq := ⟨fun x hx => by
  simp only [Fq]; split_ifs <;> linarith⟩
theorem Fq_sq : PowSqLaw Fq := ⟨fun x => by simp [Fq]⟩
theorem Fq_gw : GwExpLaws Fq ∧ GwRoundLaws Fq ∧ GwRoundSign Fq ∧ GwRound0Laws Fq :=
  ⟨⟨fun x => by simp only [Fq]; split_ifs with h <;> [norm_num; (have := not_le.mp h; linarith)]⟩,
   ⟨fun x => by simp [Fq]⟩, ⟨fun x h => by simpa [Fq] using h⟩, ⟨by simp [Fq]⟩⟩

theorem cells_pre : ∀ x ∈ cellsq, DrainPre x := by
  intro x hx
  simp only [cellsq, List.mem_cons, List.not_mem_nil, or_false] at hx
  rcases hx with rfl | rfl | rfl | rfl <;>
    exact { inv := { wf := by constructor <;> norm_num [cq]
                     th_lo := by norm_num [cq], th_hi := by norm_num [cq]
                     fc_lo := by norm_num [cq], fc_hi := by norm_num [cq] }
            dzsum_nn := by norm_num [cq], fc_lt_s := by norm_num [cq] }

theorem dayPre : DayPre Fq Wq cellsq Sq :=
  ⟨Fq_exp, Fq_sq, cells_pre, by norm_num [Sq], fun _ => by norm_num [Wq]⟩

theorem dayTrPre : DayTrPre Fq Wq Cq cellsq (fun _ => 0.1) (fun _ => 0.3) :=
  { geom := by simp only [cellsq, TrGeom, cq]; norm_num
    aer := by
      intro x hx
      simp only [cellsq, List.mem_cons, List.not_mem_nil, or_false] at hx
      rcases hx with rfl | rfl | rfl | rfl <;> norm_num
    sxTop := by norm_num [Wq, cropq]
    sxBot := by norm_num [Wq, cropq]
    rCor := by norm_num [Cq]
    rd := by simp only [Fq, Wq, cropq, Cq, pmax, id]; norm_num
    layers := fun _ => by simp only [cellsq, TrLayersOK, cq]; norm_num }

theorem dayEsPre : DayEsPre Wq fmq Cq Dq :=
  { kex_nn := by norm_num [Wq], et0_nn := by norm_num [Dq]
    ccAdj_le := fun _ _ => by norm_num [Cq]
    ccxW_le := fun _ _ => by norm_num [Cq, Wq]
    mulch_le := fun _ => by norm_num [fmq]
    wet_nn := fun _ => by norm_num [Wq] }

end DayExample

end Aqua
