import AquaVerif.Proofs.Day
import AquaVerif.Proofs.Totality
/-
Work package Z, part 1: **forward totality lemmas, process by process** — "under these premises the
process returns `.ok` / `some`" — for the processes of `fullDayTrace` (`Model/Day.lean`) that had
no such lemma yet (`Proofs/Totality.lean`, `Properties/C16.lean` have `irrigation`,
`infiltration`, `root_zone_water`, the groundwater pair, `growth_stage`, `growing_degree_day`,
`temperature_stress`).

Every premise is about parameters, the *geometry* of the profile (compartment records, which no
process changes) or the start state; none is about a value computed the same day.

* geometry helpers: `exists_of_map_c`, `countBelow_congr`, `firstGE_isSome`, `countBelow_lt_length`;
* `rootZoneWater_total`, `preIrrigationT_total`, `rainPartition_total`, `capillaryRise_total`,
  `germination_total`, `canopyCover_total`, `harvestIndex_total`, `dayCounters_total`;
* `rootDevelopment_total` (needs the root envelope `RdInv` of the start state: the new root tip
  stays above `Zmax`, which lies inside the profile);
* `soilEvaporation_total` (no `E:index`: one whole compartment below the deepest evaporation
  layer; no `E:fuel`; no `E:zerodiv`; no `E:unbound`) together with the bounds on the new
  `evap_z` that make it an invariant;
* `transpiration_total`.
-/

set_option linter.unusedSectionVars false
set_option linter.unusedVariables false
set_option linter.unusedSimpArgs false
namespace Aqua
variable {α : Type} [Field α] [LinearOrder α] [IsStrictOrderedRing α]

/-! ## 0. geometry: facts that depend on the compartment records only -/

theorem exists_of_map_c {xs ys : List (Cell α)} (h : ys.map (·.c) = xs.map (·.c))
    (P : Comp α → Prop) (hx : ∃ x ∈ xs, P x.c) : ∃ y ∈ ys, P y.c := by
  obtain ⟨x, hx, hp⟩ := hx
  have : x.c ∈ ys.map (·.c) := by rw [h]; exact List.mem_map_of_mem hx
  obtain ⟨y, hy, e⟩ := List.mem_map.1 this
  exact ⟨y, hy, by rw [e]; exact hp⟩

theorem length_of_map_c {xs ys : List (Cell α)} (h : ys.map (·.c) = xs.map (·.c)) :
    ys.length = xs.length := by
  have := congrArg List.length h
  simpa using this

theorem countBelow_congr (z : α) : ∀ {xs ys : List (Cell α)}, ys.map (·.c) = xs.map (·.c) →
    countBelow z ys = countBelow z xs
  | [], [], _ => rfl
  | [], _ :: _, h => by simp at h
  | _ :: _, [], h => by simp at h
  | x :: xs, y :: ys, h => by
    simp only [List.map_cons, List.cons.injEq] at h
    simp only [countBelow, h.1, countBelow_congr z h.2]

theorem getLast?_map_c {xs ys : List (Cell α)} (h : ys.map (·.c) = xs.map (·.c)) :
    ys.getLast?.map (·.c) = xs.getLast?.map (·.c) := by
  rw [← List.getLast?_map, ← List.getLast?_map, h]

theorem forall₂_c_of_map_c : ∀ {xs ys : List (Cell α)}, ys.map (·.c) = xs.map (·.c) →
    List.Forall₂ (fun x y : Cell α => y.c = x.c) xs ys
  | [], [], _ => List.Forall₂.nil
  | [], _ :: _, h => by simp at h
  | _ :: _, [], h => by simp at h
  | x :: xs, y :: ys, h => by
    simp only [List.map_cons, List.cons.injEq] at h
    exact List.Forall₂.cons h.1 (forall₂_c_of_map_c h.2)

theorem firstGE_isSome {z : α} {cells : List (Cell α)} (h : ∃ x ∈ cells, z ≤ x.c.dzsum) :
    ∃ k, firstGE z cells = some k := by
  cases hf : firstGE z cells with
  | some k => exact ⟨k, rfl⟩
  | none =>
    obtain ⟨x, hx, hz⟩ := h
    exact absurd hz (not_le.mpr ((firstGE_eq_none_iff z cells).mp hf x hx))

theorem countBelow_le_length (z : α) (cells : List (Cell α)) : countBelow z cells ≤ cells.length := by
  induction cells with
  | nil => simp [countBelow]
  | cons x xs ih => simp only [countBelow, List.length_cons]; split_ifs <;> omega

/-- a compartment whose bottom is not above `z` is not counted -/
theorem countBelow_lt_length {z : α} {cells : List (Cell α)} (h : ∃ x ∈ cells, z ≤ x.c.dzsum) :
    countBelow z cells < cells.length := by
  induction cells with
  | nil => obtain ⟨x, hx, _⟩ := h; cases hx
  | cons y ys ih =>
    simp only [countBelow, List.length_cons]
    obtain ⟨x, hx, hz⟩ := h
    rcases List.mem_cons.mp hx with rfl | hx
    · rw [if_neg (not_lt.mpr hz)]
      have := countBelow_le_length z ys
      omega
    · have := ih ⟨x, hx, hz⟩
      split_ifs <;> omega

theorem countBelow_mono {z z' : α} (hz : z ≤ z') (cells : List (Cell α)) :
    countBelow z cells ≤ countBelow z' cells := by
  induction cells with
  | nil => simp [countBelow]
  | cons x xs ih =>
    simp only [countBelow]
    by_cases h : x.c.dzsum < z
    · rw [if_pos h, if_pos (lt_of_lt_of_le h hz)]; omega
    · rw [if_neg h]; split_ifs <;> omega

/-! ## 1. `root_zone_water` -/

/-- **`root_zone_water` succeeds** when the rounded rooting depth lies inside the profile and the
top compartment ends inside the (rounded) top soil -/
theorem rootZoneWater_total (F : Fn α) (cells : List (Cell α)) (zRoot zTop zMin aer : α)
    (h1 : ∃ x ∈ cells, F.round2 (pmax zRoot zMin) ≤ x.c.dzsum)
    (h2 : ∃ x ∈ cells, x.c.dzsum ≤ F.pyRound2 zTop) :
    ∃ rz, rootZoneWater F cells zRoot zTop zMin aer = some rz := by
  have := (rootZoneWater_isSome_iff F cells zRoot zTop zMin aer).mpr ⟨h1, fun _ => h2⟩
  exact Option.isSome_iff_exists.mp this

/-! ## 2. time counters -/

theorem dayCounters_total (X : CropX α) (st : DayState' α) (D : DayIn' α)
    (h : D.gs = true → X.gddMethod = 1 ∨ X.gddMethod = 2 ∨ X.gddMethod = 3) :
    ∃ tc, dayCounters X st D = .ok tc := by
  unfold dayCounters
  cases hg : D.gs with
  | false => simp only [Bool.false_eq_true, if_false]; exact ⟨_, rfl⟩
  | true =>
    simp only [if_true]
    have := (gdd_isSome_iff X.gddMethod X.tupp X.tbase D.tmax D.tmin).mpr (h hg)
    obtain ⟨g, hg'⟩ := Option.isSome_iff_exists.mp this
    rw [hg']
    exact ⟨_, rfl⟩

/-! ## 3. `pre_irrigation` -/

theorem preIrrigationT_total (F : Fn α) (np : Bool) (cells : List (Cell α)) (gs : Bool) (m : Nat)
    (dap : Int) (zRoot zMin smt : α)
    (h2 : ∃ x ∈ cells, F.round2 (pmax zRoot zMin) ≤ x.c.dzsum)
    (hp : ∃ x ∈ cells, F.pyRound2 (pmax zRoot zMin) ≤ x.c.dzsum) :
    ∃ p, preIrrigationT F np cells gs m dap zRoot zMin smt = some p := by
  unfold preIrrigationT preIrrigationR
  cases gs with
  | false => simp only [Bool.false_eq_true, if_false]; exact ⟨_, rfl⟩
  | true =>
    simp only [if_true]
    by_cases hc : m ≠ 4 ∨ dap ≠ 1
    · rw [if_pos hc]; exact ⟨_, rfl⟩
    · rw [if_neg hc]
      cases np with
      | true =>
        obtain ⟨k, hk⟩ := firstGE_isSome h2
        simp only [if_true, hk]; exact ⟨_, rfl⟩
      | false =>
        obtain ⟨k, hk⟩ := firstGE_isSome hp
        simp only [Bool.false_eq_true, if_false, hk]; exact ⟨_, rfl⟩

/-! ## 4. `rainfall_partition` -/

theorem wetTopLoop_isSome (F : Fn α) (zCN : α) : ∀ (n : Nat) (cells : List (Cell α)) (xx acc : α),
    n ≤ cells.length → ∃ a, wetTopLoop F zCN n cells xx acc = some a := by
  intro n
  induction n with
  | zero => intro cells xx acc _; exact ⟨acc, by simp [wetTopLoop]⟩
  | succ n ih =>
    intro cells xx acc h
    cases cells with
    | nil => simp at h
    | cons x xs =>
      simp only [wetTopLoop]
      exact ih xs _ _ (by simpa using h)

/-- **`rainfall_partition` succeeds** when the curve-number depth `z_cn` lies inside the profile
(needed only when the curve number is adjusted for antecedent moisture) -/
theorem rainPartition_total (F : Fn α) (p : α) (cells : List (Cell α)) (daySub : Nat)
    (srInhb bunds : Bool) (zBund pct soilCN : α) (adjCN : Bool) (zCN : α)
    (h : adjCN = true → ∃ x ∈ cells, zCN ≤ x.c.dzsum) :
    ∃ r, rainPartition F p cells daySub srInhb bunds zBund pct soilCN adjCN zCN = some r := by
  unfold rainPartition
  by_cases hb : srInhb = false ∧ (bunds = false ∨ zBund < 0.001)
  · rw [if_pos hb]
    cases ha : adjCN with
    | false => simp only [Bool.false_eq_true, if_false]; exact ⟨_, rfl⟩
    | true =>
      simp only [if_true]
      obtain ⟨a, ha'⟩ := wetTopLoop_isSome F zCN (countBelow zCN cells + 1) cells 0 0
        (countBelow_lt_length (h ha))
      rw [ha']
      exact ⟨_, rfl⟩
  · rw [if_neg hb]; exact ⟨_, rfl⟩

/-! ## 5. `capillary_rise` -/

/-- **`capillary_rise` succeeds** for `water_table ∈ {0,1}` on a non-empty profile whose bottom
compartment lies in the last layer -/
theorem capillaryRise_total (F : Fn α) (cells : List (Cell α)) (nLayer : Nat) (fshape zGW : α)
    (wt : Nat) (hwt : wt = 0 ∨ wt = 1) (hne : cells ≠ [])
    (hl : wt = 1 → ∀ b, cells.getLast? = some b → b.c.layer = nLayer) :
    ∃ out, capillaryRise F cells nLayer fshape zGW wt = .ok out := by
  unfold capillaryRise
  rcases hwt with h0 | h1
  · rw [if_pos h0]; exact ⟨_, rfl⟩
  · have h0 : ¬ wt = 0 := by omega
    rw [if_neg h0, if_pos h1]
    cases hr : cells.reverse with
    | nil => exact absurd (List.reverse_eq_nil_iff.mp hr) hne
    | cons b above =>
      simp only
      have hb : cells.getLast? = some b := by
        rw [← List.head?_reverse, hr]; rfl
      rw [if_neg (not_not.mpr (hl h1 b hb))]
      exact ⟨_, rfl⟩

/-! ## 6. `germination` -/

theorem germination_total (F : Fn α) (s : GermState α) (zGerm : α) (cells : List (Cell α))
    (thr : α) (sown : Bool) (gdd : α) (gs : Bool) (h : ∃ x ∈ cells, zGerm ≤ x.c.dzsum) :
    ∃ out, germination F s zGerm cells thr sown gdd gs = .ok out := by
  unfold germination
  cases gs with
  | false => simp only [Bool.false_eq_true, if_false]; exact ⟨_, rfl⟩
  | true =>
    simp only [if_true]
    cases hg : s.germination with
    | true => simp only [if_true]; exact ⟨_, rfl⟩
    | false =>
      simp only [Bool.false_eq_true, if_false]
      have := (germLoop_isSome_iff F zGerm cells { wr := 0, fc := 0, wp := 0 }).mpr h
      obtain ⟨a, ha⟩ := Option.isSome_iff_exists.mp this
      rw [ha]
      simp only
      split_ifs <;> exact ⟨_, rfl⟩

/-! ## 7. `canopy_cover` -/

theorem canopyCover_total (F : Fn α) (crop : CcCrop α) (cells : List (Cell α)) (zTop : α)
    (s0 : CcState α) (gdd et0 : α) (gs : Bool)
    (hcal : gs = true → crop.calendarType = 1 ∨ crop.calendarType = 2)
    (h1 : gs = true → ∃ x ∈ cells, F.round2 (pmax s0.zRoot crop.zMin) ≤ x.c.dzsum)
    (h2 : ∃ x ∈ cells, x.c.dzsum ≤ F.pyRound2 zTop) :
    ∃ out, canopyCover F crop cells zTop s0 gdd et0 gs = .ok out := by
  unfold canopyCover
  cases gs with
  | false => simp only [Bool.false_eq_true, if_false]; exact ⟨_, rfl⟩
  | true =>
    simp only [if_true]
    obtain ⟨rz, hrz⟩ := rootZoneWater_total F cells s0.zRoot zTop crop.zMin crop.aer (h1 rfl) h2
    rw [hrz]
    simp only
    unfold ccTime
    rcases hcal rfl with hc | hc
    · rw [if_pos hc]; exact ⟨_, rfl⟩
    · have : ¬ crop.calendarType = 1 := by omega
      rw [if_neg this, if_pos hc]; exact ⟨_, rfl⟩

/-! ## 8. `harvest_index` -/

/-- with `HIt > 0` the fractional flowering is always assigned -/
theorem fracFlow_isSome (F : Fn α) (fl hit : α) (h : 0 < hit) : ∃ v, fracFlow F fl hit = some v := by
  unfold fracFlow
  rw [if_neg (fun hh => absurd hh.1 (not_le.mpr h)), if_pos h]
  simp only
  split_ifs <;> exact ⟨_, rfl⟩

theorem hiAdjPollination_isSome (F : Fn α) (cc fPol fl ccMin exc a b c hit : α) (h : 0 < hit) :
    ∃ v, hiAdjPollination F cc fPol fl ccMin exc a b c hit = some v := by
  unfold hiAdjPollination
  obtain ⟨v, hv⟩ := fracFlow_isSome F fl hit h
  rw [hv]
  simp only
  split_ifs <;> exact ⟨_, rfl⟩

theorem hiCore_total (F : Fn α) (T : TrigFn α) (c : HiCrop α) (s : HiState α) (kw : Ksw α)
    (polH polC : α) (ht : c.cropType = 1 ∨ c.cropType = 2 ∨ c.cropType = 3) :
    ∃ o, hiCore F T c s kw polH polC = .ok o := by
  unfold hiCore
  simp only
  split_ifs with h1 h2 h3
  · unfold hiYieldFormation
    simp only
    unfold hiPolStep
    split_ifs with h4 h5
    · obtain ⟨v, hv⟩ := hiAdjPollination_isSome F (hiPreStep F T c s).cc (hiPreStep F T c s).fPol
        c.floweringCD c.ccMin c.exc kw.pol polC polH (hiTime c s.dap s.delayedCDs) h5.1
      rw [hv]; exact ⟨_, rfl⟩
    · exact ⟨_, rfl⟩
    · exact ⟨_, rfl⟩
  · exact ⟨_, rfl⟩
  · exfalso; omega
  · exact ⟨_, rfl⟩

/-- **`harvest_index` succeeds** for crop types 1–3 and pollination-stress switches 0/1, once its
`root_zone_water` call does -/
theorem harvestIndex_total (F : Fn α) (T : TrigFn α) (cells : List (Cell α)) (zTop : α)
    (c : HiCrop α) (k : HiStressCrop α) (s : HiState α) (et0 tmax tmin : α) (gs : Bool)
    (ht : c.cropType = 1 ∨ c.cropType = 2 ∨ c.cropType = 3)
    (hp : (k.polHeatStress = 0 ∨ k.polHeatStress = 1) ∧ (k.polColdStress = 0 ∨ k.polColdStress = 1))
    (h1 : gs = true → ∃ x ∈ cells, F.round2 (pmax s.zRoot k.zMin) ≤ x.c.dzsum)
    (h2 : ∃ x ∈ cells, x.c.dzsum ≤ F.pyRound2 zTop) :
    ∃ o, harvestIndex F T cells zTop c k s et0 tmax tmin gs = .ok o := by
  unfold harvestIndex
  cases gs with
  | false => simp only [Bool.false_eq_true, if_false]; exact ⟨_, rfl⟩
  | true =>
    simp only [if_true]
    obtain ⟨rz, hrz⟩ := rootZoneWater_total F cells s.zRoot zTop k.zMin k.aer (h1 rfl) h2
    rw [hrz]
    simp only
    have := (temperatureStress_isSome_iff F k.polHeatStress k.polColdStress k.tmaxUp k.tmaxLo
      k.tminUp k.tminLo k.fshapeB tmax tmin).mpr hp
    obtain ⟨⟨a, b⟩, hab⟩ := Option.isSome_iff_exists.mp this
    rw [hab]
    exact hiCore_total F T c s _ a b ht


/-! ## 9. `root_development` -/

/-- every layer `1 … Soil_nLayer` has a compartment (so `l_idx[0]` exists) and there is a layer -/
def LaysFull (ls : List (Lay α)) : Prop := ls ≠ [] ∧ ∀ l ∈ ls, ∃ p, l.2 = some p

theorem limLoop_total : ∀ (rest : List (Lay α)), (∀ l ∈ rest, ∃ p, l.2 = some p) →
    ∀ (pen zAdj zRemain zSoil deltaZ : α), ∃ a, limLoop pen rest zAdj zRemain zSoil deltaZ = .ok a := by
  intro rest
  induction rest with
  | nil => intro _ pen zAdj zRemain zSoil deltaZ; exact ⟨_, rfl⟩
  | cons nxt rest ih =>
    intro h pen zAdj zRemain zSoil deltaZ
    unfold limLoop
    simp only
    split_ifs with hc
    · exact ⟨_, rfl⟩
    · obtain ⟨p', hp'⟩ := h nxt (by simp)
      rw [hp']
      exact ih (fun l hl => h l (by simp [hl])) _ _ _ _ _

theorem limSkip_full (F : Fn α) (zmin : α) : ∀ (rest : List (Lay α)) (cur : Lay α) (zs : α),
    (∃ p, cur.2 = some p) → (∀ l ∈ rest, ∃ p, l.2 = some p) →
    (∃ p, (limSkip F zmin cur rest zs).1.2 = some p) ∧
      ∀ l ∈ (limSkip F zmin cur rest zs).2.1, ∃ p, l.2 = some p := by
  intro rest
  induction rest with
  | nil => intro cur zs hc _; simp only [limSkip]; exact ⟨hc, fun l hl => by cases hl⟩
  | cons nxt rest ih =>
    intro cur zs hc hr
    simp only [limSkip]
    split_ifs with h
    · exact ih nxt _ (hr nxt (by simp)) (fun l hl => hr l (by simp [hl]))
    · exact ⟨hc, hr⟩

/-- the layer limitation evaluates on a profile in which every layer has a compartment -/
theorem limit_total (F : Fn α) {layers : List (Lay α)} (h : LaysFull layers) (zmin zIn : α) :
    ∃ a, limit F layers zmin zIn = .ok a := by
  obtain ⟨hne, hall⟩ := h
  cases layers with
  | nil => exact absurd rfl hne
  | cons l0 rest =>
    unfold limit
    simp only
    obtain ⟨⟨p, hp⟩, hr⟩ := limSkip_full F zmin rest l0 l0.1 (hall l0 (by simp))
      (fun l hl => hall l (by simp [hl]))
    generalize hsk : limSkip F zmin l0 rest l0.1 = sk at hp hr
    obtain ⟨cur, rest', zs⟩ := sk
    simp only at hp hr ⊢
    rw [hp]
    exact limLoop_total rest' hr _ _ _ _ _

theorem firstGECell_isSome {z : α} {cells : List (Cell α)} (h : ∃ x ∈ cells, z ≤ x.c.dzsum) :
    ∃ y, firstGECell z cells = some y := by
  induction cells with
  | nil => obtain ⟨x, hx, _⟩ := h; cases hx
  | cons y ys ih =>
    simp only [firstGECell]
    split_ifs with hc
    · exact ⟨_, rfl⟩
    · obtain ⟨x, hx, hz⟩ := h
      rcases List.mem_cons.mp hx with rfl | hx
      · exact absurd hz hc
      · exact ih ⟨x, hx, hz⟩

/-- **the in-season part of `root_development` succeeds**: the layer limitation evaluates, the new
root tip `Zroot_init + dZr` stays above `Zmax` (the start depth satisfies the root envelope `RdInv`
at yesterday's adjusted time), which lies inside the profile, and the `rCor` update divides by a
positive rooting depth and a non-zero `SxBot` -/
theorem rdSeason_total {F : Fn α} {C : RdCrop α} {cells : List (Cell α)}
    {tAdj tOld zInit tr cc ccNS tPot zGW gdd : α} {germ : Bool} {wt : Nat}
    (H : RdHyp F C cells tr gdd) (hl1 : LaysLe100 (layersOf cells)) (hs : SkipOK F C.zmin)
    (hfull : LaysFull (layersOf cells)) (ht : tOld ≤ tAdj)
    (hi : RdInv F C (layersOf cells) zInit tOld) (hz : C.zmin ≤ zInit) (hzpos : 0 < C.zmin)
    (hsx : C.sxBot ≠ 0) (htip : ∃ x ∈ cells, C.zmax ≤ x.c.dzsum) :
    ∃ out, rdSeason F C cells tAdj tOld zInit tr cc ccNS germ tPot zGW wt = .ok out := by
  unfold rdSeason
  have hfr : ¬ ((C.fshapeR ≤ 0 ∧ 0 ≤ C.fshapeR) ∧ (C.mid F tOld ∨ C.mid F tAdj)) :=
    fun h => absurd h.1.1 (not_le.mpr H.crop.fshapeR_pos)
  rw [if_neg hfr]
  simp only
  have hm := zrPot_mono H.pow H.crop ht
  -- the expansion before the stress reductions, and `zInit + d0 ≤ Zmax`
  have hd : ∃ d0 b0, rdDZr0 F C (layersOf cells) (C.zrPot F tOld) (C.zrPot F tAdj) = .ok (d0, b0) ∧
      zInit + d0 ≤ C.zmax := by
    unfold rdDZr0
    by_cases hc : C.zmin < C.zrPot F tAdj
    · rw [if_pos hc]
      obtain ⟨a, ha⟩ := limit_total F hfull C.zmin (C.zrPot F tOld)
      obtain ⟨b, hb⟩ := limit_total F hfull C.zmin (C.zrPot F tAdj)
      rw [ha, hb]
      refine ⟨_, _, rfl, ?_⟩
      have h1 := hi.2 a ha
      have h2 := limit_le H.lays hl1 hs hc.le hb
      have h3 := zrPot_le_zmax H.pow H.crop tAdj
      linarith
    · rw [if_neg hc]
      refine ⟨_, _, rfl, ?_⟩
      have h1 := hi.1
      have h3 := zrPot_le_zmax H.pow H.crop tAdj
      linarith
  obtain ⟨d0, b0, hd0, hle⟩ := hd
  rw [hd0]
  simp only
  have h0 : 0 ≤ d0 := rdDZr0_nonneg H.pow H.crop H.lays ht hd0
  obtain ⟨s0, s1⟩ := rdStomatal_range H.exp C H.tr0 H.tr1 h0
  -- the dry-front check
  have hdry : ∃ d2 b2, rdDry F C cells zInit (rdStomatal F C tr d0) = .ok (d2, b2) := by
    unfold rdDry
    split_ifs with hc
    · obtain ⟨x, hx, hzx⟩ := htip
      obtain ⟨y, hy⟩ := firstGECell_isSome (z := zInit + rdStomatal F C tr d0) (cells := cells)
        ⟨x, hx, by linarith⟩
      rw [hy]
      exact ⟨_, _, rfl⟩
    · exact ⟨_, _, rfl⟩
  obtain ⟨d2, b2, hd2⟩ := hdry
  rw [hd2]
  simp only
  obtain ⟨y0, y1⟩ := rdDry_range H.exp H.pUp1 H.fw1 H.cellsWF s0 hd2
  -- the `rCor` update
  have hz4 : 0 ≤ (if germ = true then if decide (cc ≤ 0 ∧ 0.5 < ccNS) = true then 0 else d2 else 0) := by
    split_ifs <;> first | exact le_refl _ | exact y0
  have hrcG : ∀ zNew : α, 0 < zNew → ∃ rc b3, rdRCor C (C.zrIsNp F tAdj) zNew
      (C.zrPot F tAdj) tr tPot = .ok (rc, b3) := by
    intro zNew hzn
    unfold rdRCor
    by_cases h1 : zNew < C.zrPot F tAdj
    · rw [if_pos h1]
      by_cases h2 : (!C.zrIsNp F tAdj) ∧ ((zNew ≤ 0 ∧ 0 ≤ zNew) ∨ (C.sxBot ≤ 0 ∧ 0 ≤ C.sxBot))
      · exfalso
        rcases h2.2 with h | h
        · linarith [h.1]
        · exact hsx (le_antisymm h.1 h.2)
      · rw [if_neg h2]
        by_cases h3 : 0 < tPot
        · rw [if_pos h3]; exact ⟨_, _, rfl⟩
        · rw [if_neg h3]; exact ⟨_, _, rfl⟩
    · rw [if_neg h1]; exact ⟨_, _, rfl⟩
  have hrc := hrcG (zInit + if germ = true then if decide (cc ≤ 0 ∧ 0.5 < ccNS) = true then 0
    else d2 else 0) (by linarith)
  obtain ⟨rc, b3, hrc'⟩ := hrc
  rw [hrc']
  exact ⟨_, rfl⟩

/-- **`root_development` succeeds** -/
theorem rootDevelopment_total {F : Fn α} {C : RdCrop α} {cells : List (Cell α)}
    {dap zRoot dcd gddCum dgdd tr cc ccNS rCor tPot zGW gdd : α} {germ : Bool} {gs : Bool}
    {wt : Nat}
    (hcal : gs = true → C.calendarType = 1 ∨ C.calendarType = 2)
    (H : gs = true → RdHyp F C cells tr gdd) (hl1 : LaysLe100 (layersOf cells))
    (hs : SkipOK F C.zmin) (hfull : LaysFull (layersOf cells))
    (hi : gs = true → RdInv F C (layersOf cells) (zInitOf C dap zRoot)
      (rdTOld C dap dcd gddCum dgdd gdd))
    (hz : gs = true → C.zmin ≤ zInitOf C dap zRoot) (hzpos : 0 < C.zmin) (hsx : C.sxBot ≠ 0)
    (htip : ∃ x ∈ cells, C.zmax ≤ x.c.dzsum) :
    ∃ out, rootDevelopment F C cells dap zRoot dcd gddCum dgdd tr cc ccNS germ rCor tPot zGW gdd gs
      wt = .ok out := by
  cases gs with
  | false =>
    exact rootDevelopment_offseason_ok F C cells dap zRoot dcd gddCum dgdd tr cc ccNS rCor
      tPot zGW gdd germ wt
  | true =>
    have hH := H rfl
    have hle := rdTOld_le C dap dcd gddCum dgdd hH.gdd0
    have hi' := hi rfl
    have hz' := hz rfl
    unfold rdTOld rdTAdj at hle
    unfold rdTOld at hi'
    unfold zInitOf at hi' hz'
    unfold rootDevelopment
    simp only [if_true]
    rcases hcal rfl with h1 | h2
    · rw [if_pos h1] at hle hi'
      rw [if_pos h1] at hle
      rw [if_pos h1]
      exact rdSeason_total hH hl1 hs hfull hle hi' hz' hzpos hsx htip
    · have h1 : ¬ C.calendarType = 1 := by omega
      rw [if_neg h1] at hle hi'
      rw [if_neg h1] at hle
      rw [if_neg h1, if_pos h2]
      exact rdSeason_total hH hl1 hs hfull hle hi' hz' hzpos hsx htip


/-! ## 10. `soil_evaporation` -/

theorem evapLayerLoop_isSome (z : α) : ∀ (n : Nat) (cells : List (Cell α)) (a : EvapW α),
    n ≤ cells.length → ∃ a', evapLayerLoop z n cells a = some a' := by
  intro n
  induction n with
  | zero => intro cells a _; exact ⟨a, by simp [evapLayerLoop]⟩
  | succ n ih =>
    intro cells a h
    cases cells with
    | nil => simp at h
    | cons x xs =>
      simp only [evapLayerLoop]
      exact ih xs _ (by simpa using h)

/-- `evap_layer_water_content` succeeds when the layer ends inside the profile -/
theorem evapLayerWater_total (cells : List (Cell α)) (z : α)
    (h : countBelow z cells + 1 ≤ cells.length) : ∃ w, evapLayerWater cells z = .ok w := by
  unfold evapLayerWater
  obtain ⟨a, ha⟩ := evapLayerLoop_isSome z (countBelow z cells + 1) cells ⟨0, 0, 0, 0, 0⟩ h
  rw [ha]
  exact ⟨_, rfl⟩

/-- the extraction loop succeeds when it cannot run past the profile, and keeps the compartments -/
theorem extractLoop_total (z : α) : ∀ (n : Nat) (cells : List (Cell α)) (a : ExtAcc α),
    n ≤ cells.length →
    ∃ cs' a', extractLoop z n cells a = .ok (cs', a') ∧ cs'.map (·.c) = cells.map (·.c) := by
  intro n
  induction n with
  | zero => intro cells a _; exact ⟨cells, a, by simp [extractLoop], rfl⟩
  | succ n ih =>
    intro cells a h
    unfold extractLoop
    by_cases hd : 0 < a.dem
    · rw [if_pos hd]
      cases cells with
      | nil => simp at h
      | cons x xs =>
        simp only
        obtain ⟨cs', a', h1, h2⟩ := ih xs
          { dem := (takeCell z x a.dem).dem, esAct := a.esAct + (takeCell z x a.dem).taken,
            toExt := a.toExt - (takeCell z x a.dem).taken,
            neg := a.neg || decide ((takeCell z x a.dem).taken < 0) } (by simpa using h)
        rw [h1]
        refine ⟨_, _, rfl, ?_⟩
        simp only [List.map_cons, h2, List.cons.injEq, and_true]
        unfold takeCell
        simp only
        split_ifs <;> rfl
    · rw [if_neg hd]; exact ⟨cells, a, rfl, rfl⟩

/-- "one whole compartment lies below the evaporation layer of depth `Z`" -/
def EvapDeep (Z : α) (cells : List (Cell α)) : Prop := countBelow Z cells + 2 ≤ cells.length

theorem EvapDeep.le {Z z : α} {cells : List (Cell α)} (h : EvapDeep Z cells) (hz : z ≤ Z) :
    countBelow z cells + 2 ≤ cells.length :=
  le_trans (Nat.add_le_add_right (countBelow_mono hz cells) 2) h

theorem EvapDeep.congr {Z : α} {xs ys : List (Cell α)} (hc : ys.map (·.c) = xs.map (·.c))
    (h : EvapDeep Z xs) : EvapDeep Z ys := by
  unfold EvapDeep at *
  rw [countBelow_congr Z hc, length_of_map_c hc]; exact h

theorem esPotential_total (F : Fn α) (P : EvapParams α) (S : EvapState α) (D : EvapDay α)
    (hcal : D.growingSeason = true → P.calendarType = 1 ∨ P.calendarType = 2) :
    ∃ e b, esPotential F P S D = .ok (e, b) := by
  unfold esPotential
  have hb : ∃ e b, esPotBase F P S D = .ok (e, b) := by
    unfold esPotBase
    cases hg : D.growingSeason with
    | false => simp only [Bool.false_eq_true, if_false]; exact ⟨_, _, rfl⟩
    | true =>
      simp only [if_true]
      rcases hcal hg with h1 | h2
      · rw [if_pos h1]; exact ⟨_, _, rfl⟩
      · have : ¬ P.calendarType = 1 := by omega
        rw [if_neg this, if_pos h2]; exact ⟨_, _, rfl⟩
  obtain ⟨e, b, hb⟩ := hb
  rw [hb]
  exact ⟨_, _, rfl⟩

/-- the expansion loop of stage 2: succeeds (fuel and depth suffice), and the new depth lies
between the old one and `Z` -/
theorem expandLoop_total (P : EvapParams α) (w2 : α) (cells : List (Cell α)) (Z : α)
    (hZ : P.zMax + 0.001 ≤ Z) (hdeep : EvapDeep Z cells) (fuel : Nat) :
    ∀ (z wrel wcheck : α), z ≤ Z → P.zMax - z ≤ natNum fuel * 0.001 →
    ∃ z' w', expandLoop P w2 cells fuel z wrel wcheck = .ok (z', w') ∧ z ≤ z' ∧ z' ≤ Z := by
  induction fuel with
  | zero =>
    intro z wrel wcheck hz hf
    have hnot : ¬ (wrel < wcheck ∧ z < P.zMax) := by
      intro hc
      simp only [natNum, zero_mul] at hf
      linarith [hc.2]
    unfold expandLoop
    rw [if_neg hnot]
    exact ⟨z, wrel, rfl, le_refl _, hz⟩
  | succ fuel ih =>
    intro z wrel wcheck hz hf
    unfold expandLoop
    by_cases hc : wrel < wcheck ∧ z < P.zMax
    · rw [if_pos hc]
      simp only
      have hz' : z + 0.001 ≤ Z := by linarith [hc.2]
      have hf' : P.zMax - (z + 0.001) ≤ natNum fuel * 0.001 := by
        simp only [natNum] at hf
        linarith
      obtain ⟨w, hw⟩ := evapLayerWater_total cells (z + 0.001) (by have := hdeep.le hz'; omega)
      rw [hw]
      simp only
      obtain ⟨z2, w2', h1, h2, h3⟩ := ih (z + 0.001) (wRelOf P w2 w) (wCheckOf P (z + 0.001)) hz' hf'
      have h001 : (0:α) ≤ 0.001 := by norm_num
      exact ⟨z2, w2', h1, by linarith, h3⟩
    · rw [if_neg hc]
      exact ⟨z, wrel, rfl, le_refl _, hz⟩

theorem stage2Step_total (F : Fn α) (P : EvapParams α) (w2 edt : α) (Z : α)
    (hZ : P.zMax + 0.001 ≤ Z) (st : SubSt α) (hdeep : EvapDeep Z st.cells) (hz : st.evapZ ≤ Z)
    (hf : FuelOk P st.evapZ) :
    ∃ st', stage2Step F P w2 edt st = .ok st' ∧ st'.cells.map (·.c) = st.cells.map (·.c) ∧
      st.evapZ ≤ st'.evapZ ∧ st'.evapZ ≤ Z := by
  unfold stage2Step
  obtain ⟨w, hw⟩ := evapLayerWater_total st.cells st.evapZ (by have := hdeep.le hz; omega)
  rw [hw]
  simp only
  have hex : ∃ z' w', (if P.zMin < P.zMax then
      expandLoop P w2 st.cells expandFuel st.evapZ (wRelOf P w2 w) (wCheckOf P st.evapZ)
      else (Except.ok (st.evapZ, wRelOf P w2 w) : Except String (α × α))) = .ok (z', w') ∧
      st.evapZ ≤ z' ∧ z' ≤ Z := by
    split_ifs
    · exact expandLoop_total P w2 st.cells Z hZ hdeep expandFuel _ _ _ hz hf
    · exact ⟨_, _, rfl, le_refl _, hz⟩
  obtain ⟨z', w', hex, h1, h2⟩ := hex
  rw [hex]
  simp only
  obtain ⟨cs', a', hx, hcs⟩ := extractLoop_total z' (countBelow z' st.cells + 1 + 1) st.cells
    { dem := krOf F P w' * edt, esAct := st.esAct, toExt := st.toExt, neg := st.neg }
    (hdeep.le h2)
  rw [hx]
  exact ⟨_, rfl, hcs, h1, h2⟩

theorem stage2Loop_total (F : Fn α) (P : EvapParams α) (w2 edt : α) (Z : α)
    (hZ : P.zMax + 0.001 ≤ Z) (n : Nat) : ∀ (st : SubSt α), EvapDeep Z st.cells → st.evapZ ≤ Z →
    FuelOk P st.evapZ →
    ∃ st', stage2Loop F P w2 edt n st = .ok st' ∧ st'.cells.map (·.c) = st.cells.map (·.c) ∧
      st.evapZ ≤ st'.evapZ ∧ st'.evapZ ≤ Z := by
  induction n with
  | zero => intro st _ hz _; exact ⟨st, rfl, rfl, le_refl _, hz⟩
  | succ n ih =>
    intro st hdeep hz hf
    unfold stage2Loop
    obtain ⟨s1, h1, c1, lo1, hi1⟩ := stage2Step_total F P w2 edt Z hZ st hdeep hz hf
    rw [h1]
    simp only
    obtain ⟨s2, h2, c2, lo2, hi2⟩ := ih s1 (hdeep.congr c1) hi1 (hf.mono lo1)
    exact ⟨s2, h2, c2.trans c1, le_trans lo1 lo2, hi2⟩

/-- **`soil_evaporation` succeeds**, and the evaporation depth it leaves lies in
`[EvapZmax − 100, Z]` again: `EvapTimeSteps ≠ 0`, calendar type 1/2 in season, `EvapZmin ≤ Z`, `EvapZmax + 1 mm ≤ Z`,
one whole compartment below `Z` (`EvapDeep`), `EvapZmax − EvapZmin ≤ 100 m` (loop fuel), and the
evaporation depth of the start state in `[EvapZmax − 100, Z]` (it is `0` in the state
`_initialize` leaves) -/
theorem soilEvaporation_total (F : Fn α) (P : EvapParams α) (S : EvapState α)
    (cells : List (Cell α)) (D : EvapDay α) (Z : α)
    (hsteps : P.steps ≠ 0)
    (hcal : D.growingSeason = true → P.calendarType = 1 ∨ P.calendarType = 2)
    (hZ0 : P.zMin ≤ Z) (hZ : P.zMax + 0.001 ≤ Z) (hdeep : EvapDeep Z cells)
    (hfuel : P.zMax - P.zMin ≤ 100) (hlo : P.zMax - 100 ≤ S.evapZ) (hhi : S.evapZ ≤ Z) :
    ∃ out, soilEvaporation F P S cells D = .ok out ∧ P.zMax - 100 ≤ out.evapZ ∧ out.evapZ ≤ Z := by
  have hmin : P.zMax - 100 ≤ P.zMin := by linarith
  unfold soilEvaporation
  -- re-initialisation on the first day of the simulation / season
  have hri : ∃ s0 b0, evapReinit F P cells D.tsc S.dap
      { wSurf := S.wSurf, evapZ := S.evapZ, stage2 := S.stage2, wStage2 := S.wStage2 } = .ok (s0, b0) ∧
      P.zMax - 100 ≤ s0.evapZ ∧ s0.evapZ ≤ Z := by
    unfold evapReinit
    split_ifs
    · obtain ⟨w, hw⟩ := evapLayerWater_total cells P.zMin (by have := hdeep.le hZ0; omega)
      rw [hw]
      exact ⟨_, _, rfl, hmin, hZ0⟩
    · exact ⟨_, _, rfl, hlo, hhi⟩
  obtain ⟨s0, b0, hri, l0, u0⟩ := hri
  rw [hri]
  simp only []
  have hs1 : P.zMax - 100 ≤ (evapRefresh P D s0).1.evapZ ∧ (evapRefresh P D s0).1.evapZ ≤ Z := by
    unfold evapRefresh
    split_ifs <;> first | exact ⟨hmin, hZ0⟩ | exact ⟨l0, u0⟩
  obtain ⟨esPot, b2, hep⟩ := esPotential_total F P S D hcal
  rw [hep]
  simp only []
  have hs2 : P.zMax - 100 ≤ (pondEvap P esPot S.pond (evapRefresh P D s0).1).2.2.1.evapZ ∧
      (pondEvap P esPot S.pond (evapRefresh P D s0).1).2.2.1.evapZ ≤ Z := by
    unfold pondEvap
    split_ifs <;> first | exact ⟨hmin, hZ0⟩ | exact hs1
  generalize hpe : pondEvap P esPot S.pond (evapRefresh P D s0).1 = pe at hs2
  obtain ⟨e0, pond', s2, b3⟩ := pe
  simp only [] at hs2 ⊢
  -- stage 1
  have hst1 : ∃ g1, evapStage1 F P cells s2 esPot e0 = .ok g1 ∧
      g1.cells.map (·.c) = cells.map (·.c) ∧ g1.surf.evapZ = s2.evapZ := by
    unfold evapStage1
    simp only []
    by_cases h1 : 0 < pmin (esPot - e0) s2.wSurf
    · rw [if_pos h1]
      obtain ⟨cs', a', hx, hcs⟩ := extractLoop_total P.zMin (countBelow P.zMin cells + 1 + 1) cells
        { dem := pmin (esPot - e0) s2.wSurf, esAct := e0, toExt := esPot - e0, neg := false }
        (hdeep.le hZ0)
      rw [hx]
      simp only []
      obtain ⟨w, hw⟩ := evapLayerWater_total cs' s2.evapZ (by
        have := (hdeep.congr hcs).le hs2.2; omega)
      rw [hw]
      split_ifs <;> exact ⟨_, rfl, hcs, rfl⟩
    · rw [if_neg h1]
      exact ⟨_, rfl, rfl, rfl⟩
  obtain ⟨g1, hg1, c1, z1⟩ := hst1
  rw [hg1]
  simp only []
  -- stage 2
  have hst2 : ∃ g2, evapStage2 F P g1 = .ok g2 ∧ P.zMax - 100 ≤ g2.surf.evapZ ∧
      g2.surf.evapZ ≤ Z := by
    unfold evapStage2
    by_cases h1 : 0 < g1.toExt
    · rw [if_pos h1, if_neg hsteps]
      simp only []
      have hf : FuelOk P g1.surf.evapZ := by
        rw [z1]; exact fuelOk_of_le P _ (by linarith [hs2.1])
      obtain ⟨st', h2, _, lo, hi'⟩ := stage2Loop_total F P g1.surf.wStage2
        (g1.toExt / natNum P.steps) Z hZ P.steps
        { cells := g1.cells, evapZ := g1.surf.evapZ, esAct := g1.esAct, toExt := g1.toExt,
          neg := g1.neg } (hdeep.congr c1) (by rw [z1]; exact hs2.2) hf
      rw [h2]
      refine ⟨_, rfl, ?_, hi'⟩
      show P.zMax - 100 ≤ st'.evapZ
      have : P.zMax - 100 ≤ g1.surf.evapZ := by rw [z1]; exact hs2.1
      exact le_trans this lo
    · rw [if_neg h1]
      exact ⟨g1, rfl, by rw [z1]; exact hs2.1, by rw [z1]; exact hs2.2⟩
  obtain ⟨g2, hg2, l2, u2⟩ := hst2
  rw [hg2]
  exact ⟨_, rfl, l2, u2⟩


/-! ## 11. `transpiration` -/

theorem map_c_of_trFrame {xs ys : List (Cell α)} (h : ys.map Cell.trFrame = xs.map Cell.trFrame) :
    ys.map (·.c) = xs.map (·.c) := by
  have := congrArg (List.map Prod.fst) h
  simpa only [List.map_map, Function.comp_def, Cell.trFrame] using this

theorem trIncAer_isSome (l : α) : ∀ (n : Nat) (cs : List (Cell α)), n ≤ cs.length →
    ∃ cs', trIncAer l n cs = some cs' := by
  intro n
  induction n with
  | zero => intro cs _; exact ⟨cs, rfl⟩
  | succ n ih =>
    intro cs h
    cases cs with
    | nil => simp at h
    | cons x xs =>
      simp only [trIncAer]
      obtain ⟨r, hr⟩ := ih xs (by simpa using h)
      rw [hr]
      exact ⟨_, rfl⟩

theorem trCo2Adj_isSome (k cur ref : α) (h : ref ≠ 550) : ∃ v, trCo2Adj k cur ref = some v := by
  unfold trCo2Adj
  split_ifs with h1 h2
  · exfalso
    apply h
    linarith [h2.1, h2.2]
  · exact ⟨_, rfl⟩
  · exact ⟨_, rfl⟩

theorem trKsCold_isSome (F : Fn α) (tcs : Nat) (up lo gdd : α) (h : tcs = 0 ∨ tcs = 1) :
    ∃ v, trKsCold F tcs up lo gdd = some v := by
  rcases h with rfl | rfl
  · exact ⟨_, rfl⟩
  · unfold trKsCold
    simp only
    split_ifs <;> exact ⟨_, rfl⟩

theorem trPotential_total (F : Fn α) (crop : TrCrop α) (st : TrState α) (et0 cur ref gdd : α)
    (hco2 : ref ≠ 550) (hcold : crop.trColdStress = 0 ∨ crop.trColdStress = 1) :
    ∃ pot, trPotential F crop st et0 cur ref gdd = .ok pot := by
  unfold trPotential
  simp only
  obtain ⟨k1, h1⟩ := trCo2Adj_isSome (trKcbAged crop.kcb crop.fage
    (if crop.maxCanopyCD < st.dap - st.delayedCds then st.dap - st.delayedCds - crop.maxCanopyCD
      else st.ageDaysNS) st.ccxWNS) cur ref hco2
  rw [h1]
  simp only
  obtain ⟨k2, h2⟩ := trCo2Adj_isSome (trKcbAged crop.kcb crop.fage
    (if crop.maxCanopyCD < st.dap - st.delayedCds then st.dap - st.delayedCds - crop.maxCanopyCD
      else st.ageDays) st.ccxW) cur ref hco2
  rw [h2]
  simp only
  obtain ⟨k3, h3⟩ := trKsCold_isSome F crop.trColdStress crop.gddUp crop.gddLo gdd hcold
  rw [h3]
  exact ⟨_, rfl⟩

theorem trSurface_total (l : α) (n : Nat) (cells : List (Cell α)) (pond ds tp0 : α)
    (hn : n ≤ cells.length) (hds : 0 ≤ ds) :
    ∃ sf, trSurface l n cells pond ds tp0 = .ok sf := by
  unfold trSurface
  by_cases h1 : 0 < pond ∧ ds < l
  · rw [if_pos h1]
    simp only
    obtain ⟨cs', hcs⟩ := trIncAer_isSome l n cells hn
    rw [hcs]
    simp only
    have hl : ¬ (l ≤ 0 ∧ 0 ≤ l) := fun h => by linarith [h1.2, h.1]
    rw [if_neg hl]
    exact ⟨_, rfl⟩
  · rw [if_neg h1]; exact ⟨_, rfl⟩

/-- **`transpiration` succeeds**: `CO2.ref ≠ 550`, `TrColdStress ∈ {0,1}`, `nComp` at most the
number of compartments, the rounded rooting depth inside the profile and the top compartment
inside the top soil (the three `root_zone_water` calls) -/
theorem transpiration_total (F : Fn α) (cells : List (Cell α)) (nComp : Nat) (zTop : α)
    (crop : TrCrop α) (m : Nat) (smt : α) (st : TrState α) (et0 cur ref : α) (gs : Bool) (gdd : α)
    (hco2 : ref ≠ 550) (hcold : crop.trColdStress = 0 ∨ crop.trColdStress = 1)
    (hn : nComp ≤ cells.length) (hds : 0 ≤ st.daySubmerged)
    (h1 : gs = true → ∃ x ∈ cells, F.round2 (pmax st.zRoot crop.zMin) ≤ x.c.dzsum)
    (h2 : ∃ x ∈ cells, x.c.dzsum ≤ F.pyRound2 zTop) :
    ∃ out, transpiration F cells nComp zTop crop m smt st et0 cur ref gs gdd = .ok out := by
  cases gs with
  | false => exact transp_offseason_ok F cells nComp zTop crop m smt st et0 cur ref gdd
  | true =>
    unfold transpiration
    simp only [if_true]
    obtain ⟨pot, hpot⟩ := trPotential_total F crop st et0 cur ref gdd hco2 hcold
    rw [hpot]
    simp only
    obtain ⟨sf, hsf⟩ := trSurface_total crop.lagAer nComp cells st.pond st.daySubmerged pot.trPot0
      hn hds
    rw [hsf]
    simp only
    have hc : sf.cells.map (·.c) = cells.map (·.c) := map_c_of_trFrame (trSurface_spec hsf).1
    obtain ⟨rz, hrz⟩ := rootZoneWater_total F sf.cells st.zRoot zTop crop.zMin crop.aer
      (exists_of_map_c hc (fun c => F.round2 (pmax st.zRoot crop.zMin) ≤ c.dzsum) (h1 rfl))
      (exists_of_map_c hc (fun c => c.dzsum ≤ F.pyRound2 zTop) h2)
    rw [hrz]
    simp only
    unfold trCore
    simp only
    have hlen : ¬ sf.cells.length < trCompSto (trRootdepth F crop st) sf.cells nComp := by
      unfold trCompSto
      rw [length_of_map_c hc]
      have := Nat.min_le_right (countBelow (trRootdepth F crop st) sf.cells + 1) nComp
      omega
    rw [if_neg hlen]
    generalize hex : trExtractLoop F (trLoopPOf F crop m st et0 sf.daySub)
      (trCompSto (trRootdepth F crop st) sf.cells nComp) sf.cells
      (trPotRzOf m sf.trPot (trKs F crop rz st.tEarlySen st.aerDays et0).1) 0 crop.sxTop = ex
    have hce : ex.1.map (·.c) = cells.map (·.c) := by
      rw [← hex]
      exact (map_c_of_trFrame (trExtractLoop_frame F _ _ _ _ _ _)).trans hc
    have hni : ∃ ni, trNetIrr F crop m smt zTop (trRootdepth F crop st)
        (trCompSto (trRootdepth F crop st) sf.cells nComp) ex.1 st
        (trPotRzOf m sf.trPot (trKs F crop rz st.tEarlySen st.aerDays et0).1) = .ok ni := by
      unfold trNetIrr
      split_ifs
      · obtain ⟨rz2, hrz2⟩ := rootZoneWater_total F ex.1 st.zRoot zTop crop.zMin crop.aer
          (exists_of_map_c hce (fun c => F.round2 (pmax st.zRoot crop.zMin) ≤ c.dzsum) (h1 rfl))
          (exists_of_map_c hce (fun c => c.dzsum ≤ F.pyRound2 zTop) h2)
        rw [hrz2]
        exact ⟨_, rfl⟩
      · exact ⟨_, rfl⟩
      · exact ⟨_, rfl⟩
    obtain ⟨ni, hni⟩ := hni
    rw [hni]
    exact ⟨_, rfl⟩

end Aqua

#print axioms Aqua.rootDevelopment_total
#print axioms Aqua.soilEvaporation_total
#print axioms Aqua.transpiration_total
#print axioms Aqua.harvestIndex_total
#print axioms Aqua.capillaryRise_total
#print axioms Aqua.rainPartition_total
