import AquaVerif.Proofs.CropFullReal
import AquaVerif.Proofs.RunClosedEs

/-
Work package R, part 1 (**crop side**): from the repository's crop catalogue to the crop premises
of the closed run-level theorems (`Proofs/RunClosed*.lean`).

* `CropFull.RunOK c` — four further decidable conjuncts on *raw* parameters, beyond `CropFullOK`
  (`Model/CropFull.lean`), that the closed theorems need: `0 < Zmin`, `0 ≤ Kcb`, `0 ≤ fage`, and
  "the crop coefficient survives `ageMax = 358` days of canopy ageing at full cover".
  `catalogue_runOK : ∀ c ∈ cropFullTable, c.RunOK` by kernel evaluation (no exception).
* `DerivedOK K` — **the facts about what initialisation derives** (`K : CropDerived α`) that
  `CropOK` needs: five inequalities.  `DerivedRunOK K` — two more for `CfgTrOK` / `CfgRwOK`.
* `cropOK_of_ok` (any ordered field, the laws of `F`, `T` as hypotheses) and
  `cropOK_of_catalogue` (`ℝ`, `realFn`, `realTrig`, no law left):
  `CropFullOK c → c.RunOK → c.LeafyOK → DerivedOK K → CropOK realFn realTrig (c.cropParams K)`,
  likewise for the fallow stand-in crop `fallowAdjust (c.cropParams K)` (`Aer := 5`, `Zmin := 0.3`).
* `trCropOK_of_ok` / `trCropOK_of_catalogue` (`TrCropOK`, premise of `0 ≤ TrPot`): the cold-stress
  coefficient of `transpiration` is non-negative for every `GDD` (`trKsCold_nonneg`, from the laws
  of `exp`/`log` only — no parameter premise).
-/

set_option linter.unusedSectionVars false
set_option linter.unusedVariables false
set_option linter.unusedSimpArgs false
namespace Aqua
open Aqua.Generated Aqua.Response Aqua.HarvestIndexReal

/-! ## 1. further raw-parameter premises, checked on the whole catalogue -/

/-- the bound on the days since maximum canopy (`age_days`) the catalogue is checked for -/
def ageMax : ℚ := 358

/-- **raw-parameter premises of the closed run theorems that are not part of `CropFullOK`**
1. `0 < Zmin`     — `CropOK.zminPos`, `CropOK.rdPos` (`round(max(z_root, Zmin), 2) > 0`)
2. `0 ≤ Kcb`      — `TrCropOK.kcb`
3. `0 ≤ fage`     — `TrCropOK.fage`
4. `(ageMax − 5)·fage/100·CCx ≤ Kcb` — `TrCropOK.aged` for `A = ageMax` -/
def CropFull.RunOK (c : CropFull) : Prop :=
  0 < c.zmin ∧ 0 ≤ c.kcb ∧ 0 ≤ c.fage ∧ (ageMax - 5) * (c.fage / 100) * c.ccx ≤ c.kcb

instance (c : CropFull) : Decidable (CropFull.RunOK c) := by unfold CropFull.RunOK; infer_instance

/-- every crop of the repository's catalogue satisfies `RunOK` (no exception) -/
theorem catalogue_runOK : ∀ c ∈ cropFullTable, CropFull.RunOK c := by decide +kernel

/-- `ageMax = 358` is sharp for the catalogue: DryBean's crop coefficient does not survive 359
days of ageing at full cover -/
theorem catalogue_ageMax_sharp : ∃ c ∈ cropFullTable,
    ¬ ((ageMax + 1 - 5) * (c.fage / 100) * c.ccx ≤ c.kcb) := by decide +kernel

variable {α : Type} [Field α] [LinearOrder α] [IsStrictOrderedRing α]

theorem CropFull.RunOK.cast {c : CropFull} (h : CropFull.RunOK c) :
    (0 : α) < (c.zmin : α) ∧ (0 : α) ≤ (c.kcb : α) ∧ (0 : α) ≤ (c.fage : α) ∧
    ((ageMax : α) - 5) * ((c.fage : α) / 100) * (c.ccx : α) ≤ (c.kcb : α) := by
  obtain ⟨h1, h2, h3, h4⟩ := h
  refine ⟨by exact_mod_cast h1, by exact_mod_cast h2, by exact_mod_cast h3, ?_⟩
  have : (((ageMax - 5) * (c.fage / 100) * c.ccx : ℚ) : α) ≤ ((c.kcb : ℚ) : α) := Rat.cast_le.mpr h4
  simpa only [Rat.cast_mul, Rat.cast_sub, Rat.cast_div, Rat.cast_ofNat] using this

theorem ageMax_cast : ((ageMax : ℚ) : α) = 358 := by unfold ageMax; norm_num

/-! ## 2. the facts about the derived values -/

/-- **what `CropOK` asks of the values initialisation derives** (`compute_crop_calendar`,
`calculate_HIGC`, `calculate_HI_linear`, the CO2 block of `compute_variables` /
`reset_initial_conditions`) -/
structure DerivedOK (K : CropDerived α) : Prop where
  /-- `HIstartCD ≤ CanopyDevEndCD` (`HiCrop.PostOK.tmax1`) -/
  hiStart_le_devEnd : K.hiStartCD ≤ K.canopyDevEndCD
  /-- `0 ≤ YldFormCD` (`HiCrop.PostOK.tmax2`) -/
  yldForm_nonneg : 0 ≤ K.yldFormCD
  /-- `0 ≤ HIGC` (`HiCrop.BuildUp.gc_nn`) -/
  hiGC_nonneg : 0 ≤ K.hiGC
  /-- `0 ≤ dHILinear` (`HiCrop.BuildUp.lin_nn`) -/
  dHILinear_nonneg : 0 ≤ K.dHILinear
  /-- `0 ≤ fCO2` (`CropOK.wp : 0 ≤ WP·fCO2`) -/
  fco2_nonneg : 0 ≤ K.fco2

/-- what `CfgRwOK` (rewatering cap) and `CfgTrOK` (`0 ≤ TrPot`) ask in addition -/
structure DerivedRunOK (K : CropDerived α) : Prop where
  ok : DerivedOK K
  /-- `CanopyDevEnd ≤ Senescence` in the crop's calendar mode (`CfgRwOK.devEnd`) -/
  devEnd_le_senescence : K.canopyDevEnd ≤ K.senescence
  /-- `0 ≤ MaxCanopyCD` (turns a bound on the season length into `CfgTrOK.age`) -/
  maxCanopyCD_nonneg : 0 ≤ K.maxCanopyCD

/-! ## 3. `CropOK` -/

section cropOK
variable {c : CropFull} {K : CropDerived α} {F : Fn α} {T : TrigFn α}

/-- the fields of `CropOK` that do not mention `cw.tr.zMin`, for any crop record with the
catalogue crop's `cx` and sink terms / aeration lag -/
theorem cropOK_of_ok (h : CropFullOK c) (hr : CropFull.RunOK c) (hl : CropFull.LeafyOK c)
    (hF : ExpOrdLaws F) (hG : ExpGeomLaw F) (hskip : SkipOK F (c.zmin : α))
    (hrd : ∀ z, (c.zmin : α) ≤ z → 0 < F.pyRound2 z) (hK : DerivedOK K) :
    CropOK F T (c.cropParams K) := by
  obtain ⟨r1, r2, r3, r4, r5, r6, r7, r8⟩ := (h.1.cast (α := α))
  obtain ⟨c1, c2, _⟩ := (h.2.2.1.cast (α := α))
  obtain ⟨_, _, _, i4, _⟩ := (h.2.2.2.1.cast (α := α))
  obtain ⟨_, _, _, s4, _⟩ := (h.2.2.2.2.1.cast (α := α))
  obtain ⟨b1, b2, b3⟩ := bioCrop_premises (K := K) h hK.fco2_nonneg
  have ht : (c.tbase : α) ≤ (c.tupp : α) := h.2.1.cast
  exact
    { sxTop := r7
      sxBot := r8
      rdPos := hrd
      lagAer := fun n hn => by
        have := lagAer_hint (α := α) (K := K) h n
        rw [natNum_eq_cast] at hn ⊢
        exact this hn
      ccx0 := c2.le
      temp := ht
      ccStep := fun dt d1 d2 => by
        have hcal : c.calendarType = 1 ∨ c.calendarType = 2 := h.2.2.1.2.1
        rcases hcal with hc | hc
        · have e : dt = 1 := d1 hc
          subst e
          exact ccParams_of_ok h hF hG zero_le_one (by rw [dtMax_cast, if_pos hc])
        · obtain ⟨a, b⟩ := d2 hc
          have hne : ¬ c.calendarType = 1 := by omega
          exact ccParams_of_ok h hF hG a (by rw [dtMax_cast, if_neg hne]; exact b)
      rdWF := rdCrop_wf h
      zminPos := hr.cast.1
      rdSxTop := r7
      rdSxBot := r8
      pUp1 := r5
      fw1 := r6
      skip := hskip
      post := hiCrop_postOK h hK.hiStart_le_devEnd hK.yldForm_nonneg
      build := hiCrop_buildUp h hK.hiGC_nonneg hK.dHILinear_nonneg
      fsh := s4
      cap := i4
      leafy := hiCrop_leafy hl
      hiStart := rfl
      wpy0 := b1
      wpy1 := b2
      wp := b3 }

/-- the fallow stand-in crop (`Crop_.Aer = 5; Crop_.Zmin = 0.3`): only `rdPos` reads an
overwritten field -/
theorem cropOK_fallowAdjust {p : CropParams α} (h : CropOK F T p)
    (hrd : ∀ z, (0.3 : α) ≤ z → 0 < F.pyRound2 z) : CropOK F T (fallowAdjust p) :=
  { h with
    sxTop := h.sxTop
    sxBot := h.sxBot
    rdPos := hrd
    lagAer := h.lagAer }

end cropOK

/-! ### over the reals -/

section real
variable {c : CropFull} {K : CropDerived ℝ}

/-- **`cropOK_of_catalogue`**: a catalogue crop (other than SugarCane: `LeafyOK`) with derived values
satisfying `DerivedOK` satisfies `CropOK` for the real `exp`/`log`/`pow`/`sin` -/
theorem cropOK_of_catalogue (h : CropFullOK c) (hr : CropFull.RunOK c) (hl : CropFull.LeafyOK c)
    (hK : DerivedOK K) : CropOK realFn realTrig (c.cropParams K) :=
  cropOK_of_ok h hr hl expOrdLaws_real expGeomLaw_real (skipOK_real _)
    (fun z hz => lt_of_lt_of_le hr.cast.1 hz) hK

/-- the same from membership in the generated table -/
theorem cropOK_of_mem (hc : c ∈ cropFullTable) (hl : CropFull.LeafyOK c) (hK : DerivedOK K) :
    CropOK realFn realTrig (c.cropParams K) :=
  cropOK_of_catalogue (catalogue_ok c hc) (catalogue_runOK c hc) hl hK

/-- the fallow stand-in crop built from a catalogue crop -/
theorem cropOK_fallow_of_catalogue (h : CropFullOK c) (hr : CropFull.RunOK c)
    (hl : CropFull.LeafyOK c) (hK : DerivedOK K) :
    CropOK realFn realTrig (fallowAdjust (c.cropParams K)) :=
  cropOK_fallowAdjust (cropOK_of_catalogue h hr hl hK)
    (fun z hz => lt_of_lt_of_le (by norm_num) hz)

end real

/-! ## 4. `TrCropOK` -/

/-- the law of `np.log` needed for the cold-stress curve: `log x ≤ 0` on `(0, 1]` -/
structure LogNonposLaw (F : Fn α) : Prop where
  log_nonpos : ∀ x, 0 < x → x ≤ 1 → F.log x ≤ 0

/-- **the cold-stress coefficient of `transpiration` is never negative**, whatever `GDD_up`,
`GDD_lo` and the day's growing degrees: on the middle branch the logistic term is at least `0.02`
(`fshape_b = −log(0.0004/0.9604) ≥ 0`) and the subtracted term at most `0.02` -/
theorem trKsCold_nonneg {F : Fn α} (hF : ExpOrdLaws F) (hL : LogNonposLaw F) (tcs : Nat)
    (gddUp gddLo gdd k : α) (h : trKsCold F tcs gddUp gddLo gdd = some k) : 0 ≤ k := by
  unfold trKsCold at h
  split at h
  · simp only [Option.some.injEq] at h; rw [← h]; exact zero_le_one
  · split_ifs at h with h1 h2
    · simp only [Option.some.injEq] at h; rw [← h]; exact zero_le_one
    · simp only [Option.some.injEq] at h; rw [← h]
    · simp only [Option.some.injEq] at h
      rw [not_le] at h1 h2
      have hd : 0 < gddUp - gddLo := by linarith
      set rel := (gdd - gddLo) / (gddUp - gddLo) with hrel
      have hrel0 : 0 ≤ rel := div_nonneg (by linarith) hd.le
      have hlog : F.log (((0.02 * 1) - 0.98 * 0.02) / (0.98 * (1 - 0.02))) ≤ 0 :=
        hL.log_nonpos _ (by norm_num) (by norm_num)
      set fb := (-1) * (F.log (((0.02 * 1) - 0.98 * 0.02) / (0.98 * (1 - 0.02)))) with hfb
      have hfb0 : 0 ≤ fb := by rw [hfb]; linarith
      have harg : -fb * rel ≤ 0 := by nlinarith [mul_nonneg hfb0 hrel0]
      have he1 : F.exp (-fb * rel) ≤ 1 := hF.exp_le_one harg
      have he0 : 0 < F.exp (-fb * rel) := hF.exp_pos _
      have hden : 0 < 0.02 + (1 - 0.02) * F.exp (-fb * rel) := by nlinarith
      have hden1 : 0.02 + (1 - 0.02) * F.exp (-fb * rel) ≤ 1 := by nlinarith
      have hk : (0.02 : α) ≤ (1 * 0.02) / (0.02 + (1 - 0.02) * F.exp (-fb * rel)) := by
        rw [le_div_iff₀ hden]; nlinarith
      rw [← h]
      nlinarith
  · cases h

theorem logNonposLaw_real : LogNonposLaw realFn :=
  ⟨fun x hx hx1 => Real.log_nonpos hx.le hx1⟩

section trCropOK
variable {c : CropFull} {K : CropDerived α} {F : Fn α}

/-- `TrCropOK` for the age bound `ageMax`, from the catalogue -/
theorem trCropOK_of_ok (h : CropFullOK c) (hr : CropFull.RunOK c) (hF : ExpOrdLaws F)
    (hL : LogNonposLaw F) : TrCropOK F (c.cropParams K) (ageMax : α) := by
  obtain ⟨_, k2, k3, k4⟩ := hr.cast (α := α)
  obtain ⟨_, _, c3, _⟩ := (h.2.2.1.cast (α := α))
  exact
    { kcb := k2
      fage := k3
      aged := k4
      ccx1 := c3
      ksCold := fun gdd k hk => trKsCold_nonneg hF hL _ _ _ _ _ hk }

theorem trCropOK_fallowAdjust {p : CropParams α} {A : α} (h : TrCropOK F p A) :
    TrCropOK F (fallowAdjust p) A :=
  { kcb := h.kcb, fage := h.fage, aged := h.aged, ccx1 := h.ccx1, ksCold := h.ksCold }

end trCropOK

theorem trCropOK_of_catalogue {c : CropFull} {K : CropDerived ℝ} (h : CropFullOK c)
    (hr : CropFull.RunOK c) : TrCropOK realFn (c.cropParams K) (ageMax : ℝ) :=
  trCropOK_of_ok h hr expOrdLaws_real logNonposLaw_real

/-! ## 5. Non-vacuity: Wheat with the values a model initialised at Tunis derives -/

/-- derived values of the built-in Wheat (calendar-day crop): `compute_crop_calendar` mode 1,
`calculate_HIGC`, `calculate_HI_linear` (`Proofs/HarvestIndexReal.lean`, `wheat`), `fCO2 = 1` -/
noncomputable def wheatDerived : CropDerived ℝ :=
  { emergence := 13, maxRooting := 93, senescence := 158, maturity := 197, canopyDevEnd := 134,
    canopy10 := 21, maxCanopy := 96, maxCanopyCD := 96, hiStartCD := 127, hiEndCD := 194,
    yldFormCD := 67, floweringCD := 15, canopyDevEndCD := 134, hiGC := 0.116, tLinSwitch := 20,
    dHILinear := 0.008395, fco2 := 1, zMinNp := false }

theorem wheatDerived_ok : DerivedRunOK wheatDerived := by
  refine ⟨⟨?_, ?_, ?_, ?_, ?_⟩, ?_, ?_⟩ <;> norm_num [wheatDerived]

example : CropOK realFn realTrig (wheatFull.cropParams wheatDerived) :=
  cropOK_of_catalogue (by decide +kernel) (by decide +kernel) (by decide +kernel) wheatDerived_ok.ok

end Aqua

section AxiomAudit
open Aqua
#print axioms catalogue_runOK
#print axioms catalogue_ageMax_sharp
#print axioms cropOK_of_ok
#print axioms cropOK_fallowAdjust
#print axioms cropOK_of_catalogue
#print axioms cropOK_of_mem
#print axioms cropOK_fallow_of_catalogue
#print axioms trKsCold_nonneg
#print axioms trCropOK_of_ok
#print axioms trCropOK_of_catalogue
#print axioms wheatDerived_ok
end AxiomAudit
