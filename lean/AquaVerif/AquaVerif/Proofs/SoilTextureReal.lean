import AquaVerif.Proofs.SoilTexture
import AquaVerif.Proofs.RealInstance
/-
Non-vacuity of the law structures of `Proofs/SoilTexture.lean`: the real logarithm and power
(`realFn` of `Proofs/RealInstance.lean`: `pow = Real.rpow`, roundings = identity) satisfy
`TexPowLaws`, `TexLogPowLaws`, `TexRoundLaws`; the main lemmas instantiated at the reals carry no law
hypothesis.  (Exact half-even rounding on ℚ satisfies `TexRoundLaws` too: `texRoundLaws_FqTex`.)
-/

namespace Aqua
open Aqua.Response

theorem texPowLaws_real : TexPowLaws realFn := ⟨fun _ y hx => realFn_pow_pos hx y⟩

theorem texRoundLaws_real : TexRoundLaws realFn :=
  ⟨fun x => by show x - 1 / 2 ≤ x; linarith, fun x => by show x ≤ x + 1 / 2; linarith,
    fun x hx => hx⟩

theorem texLogPowLaws_real : TexLogPowLaws realFn where
  log_mono := fun x y hx hxy => Real.log_le_log hx hxy
  pow_ge_cube := fun x y hx hx1 hy => by
    rw [realFn_pow_of_pos hx]
    have h3 : x * x * x = Real.exp (3 * Real.log x) := by
      have := Real.exp_nat_mul (Real.log x) 3
      rw [Real.exp_log hx] at this
      rw [show ((3 : ℕ) : ℝ) = 3 by norm_num] at this
      rw [this]; ring
    rw [h3]
    apply Real.exp_le_exp.mpr
    exact mul_le_mul_of_nonpos_right hy (Real.log_nonpos hx.le hx1)

/-- lemma 2 over the reals, no law hypothesis left -/
theorem texture_order_region_real {s c om df : ℝ} (h : TexRegion s c om) (hc5 : c ≤ 0.5)
    (ho1 : 1 ≤ om ∨ 0.03 ≤ c) (hd0 : 0.9 ≤ df) (hd1 : df ≤ 1) :
    ∃ wp fc ts k, hydraulicFromTexture realFn s c om df = .ok (wp, fc, ts, k) ∧
      0 < wp ∧ wp < fc ∧ fc < ts ∧ ts < 1 ∧ 0 < k :=
  texture_order_region_df texRoundLaws_real texLogPowLaws_real h hc5 ho1 hd0 hd1

/-- lemma 1 over the reals -/
theorem centroid_order_real :
    ∀ c ∈ usdaCentroids, ∃ wp fc ts k,
      hydraulicFromTexture realFn ((c.1 : ℝ) / 100) ((c.2 : ℝ) / 100) 2.5 1 = .ok (wp, fc, ts, k) ∧
        0 < wp ∧ wp < fc ∧ fc < ts ∧ ts < 1 ∧ 0 < k :=
  centroid_order texRoundLaws_real texLogPowLaws_real

#print axioms texLogPowLaws_real
#print axioms texture_order_region_real
#print axioms centroid_order_real

end Aqua
