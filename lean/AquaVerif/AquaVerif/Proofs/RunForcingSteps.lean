import AquaVerif.Proofs.RunForcing
/-
Work package V, part 5 — **stepping (property C09) on the full run model** (`Model/Run.lean`).
The clock-level statements of `Proofs/ClockRun.lean`, now for `runModel F T cfg` with the
biophysics inside; valid for every configuration, no premise.

What the model does (and the Python: the daily tables are DataFrames once the run has finished, the
table write of the next `solution_single_time_step` raises):

* inside one call, the loop stops at termination: a step count that overshoots the end gives the
  state at termination (`overshoot_stopsR`);
* a *further call* on a finished state is **not** the identity: it raises
  (`runModelR_finished`: `E:finished`, or `E:numsteps` for `k < 1`).  Hence
  `runModel (a + b) s = runModel a s >>= runModel b` holds exactly when the first call does not
  finish the run (`runModelR_add'`); in general the second call is skipped when the first one
  finished (`runModelR_add`).
* **`runCallsR_eq_one`**: any sequence of calls with positive step counts that succeeds equals one
  call with the sum; **`runCallsR_of_one`**: conversely one call with `k` steps that leaves the run
  unfinished can be cut into any list of positive step counts summing to `k`.
-/

set_option linter.unusedSectionVars false
set_option linter.unusedVariables false
namespace Aqua
open Aqua.Clock
variable {α : Type} [Field α] [LinearOrder α] [IsStrictOrderedRing α]
variable {F : Fn α} {T : TrigFn α} {cfg : RunCfg α}

/-- a `_perform_timestep` on a finished model raises -/
theorem performR_of_finished {s : RunState α} (h : s.finished = true) :
    performR F T cfg s = .error "E:finished" := by
  unfold performR
  rw [if_pos h]

theorem unfinished_of_performR_ok {s s' : RunState α} (h : performR F T cfg s = .ok s') :
    s.finished = false := by
  cases hf : s.finished with
  | false => rfl
  | true => rw [performR_of_finished hf] at h; cases h

@[simp] theorem runStepsR_zero (s : RunState α) : runStepsR F T cfg 0 s = .ok s := rfl

theorem runStepsR_succ (k : Nat) (s : RunState α) :
    runStepsR F T cfg (k + 1) s =
      (performR F T cfg s).bind (fun s' => if s'.finished then .ok s' else runStepsR F T cfg k s') := by
  simp only [runStepsR]
  cases performR F T cfg s <;> rfl

/-- **composition of step counts**: `k = a + b` steps on an unfinished model are `a` steps
followed — unless they ended the simulation — by `b` steps -/
theorem runStepsR_add (a b : Nat) (s : RunState α) (hs : s.finished = false) :
    runStepsR F T cfg (a + b) s =
      (runStepsR F T cfg a s).bind
        (fun s' => if s'.finished then .ok s' else runStepsR F T cfg b s') := by
  induction a generalizing s with
  | zero => simp [Except.bind, hs]
  | succ a ih =>
    have e : a + 1 + b = (a + b) + 1 := by omega
    rw [e, runStepsR_succ, runStepsR_succ]
    cases hp : performR F T cfg s with
    | error e => simp [Except.bind]
    | ok s1 =>
      simp only [Except.bind]
      cases hf : s1.finished with
      | true => simp [hf]
      | false =>
        have := ih s1 hf
        simp only [Except.bind] at this
        simpa [hf] using this

theorem runStepsR_add' {a b : Nat} {s s1 : RunState α} (h1 : runStepsR F T cfg a s = .ok s1)
    (hf : s1.finished = false) : runStepsR F T cfg (a + b) s = runStepsR F T cfg b s1 := by
  cases hs : s.finished with
  | false => rw [runStepsR_add a b s hs, h1]; simp [Except.bind, hf]
  | true =>
    cases a with
    | zero => simp at h1; subst h1; simp
    | succ a => rw [runStepsR_succ, performR_of_finished hs] at h1; cases h1

/-- **a step count that overshoots the end stops at termination** -/
theorem overshoot_stopsR {a : Nat} (b : Nat) {s s1 : RunState α} (hs : s.finished = false)
    (h1 : runStepsR F T cfg a s = .ok s1) (hf : s1.finished = true) :
    runStepsR F T cfg (a + b) s = .ok s1 := by
  rw [runStepsR_add a b s hs, h1]; simp [Except.bind, hf]

/-- **a call on a finished model raises** (it is *not* the identity) -/
theorem runModelR_finished {s : RunState α} (k : Nat) (hs : s.finished = true) :
    runModel F T cfg k s = .error (if k < 1 then "E:numsteps" else "E:finished") := by
  unfold runModel
  by_cases hk : k < 1
  · rw [if_pos hk, if_pos hk]
  · rw [if_neg hk, if_neg hk]
    cases k with
    | zero => omega
    | succ k => rw [runStepsR_succ, performR_of_finished hs]; rfl

theorem runModelR_ok {k : Nat} {s s' : RunState α} (h : runModel F T cfg k s = .ok s') :
    1 ≤ k ∧ runStepsR F T cfg k s = .ok s' ∧ s.finished = false := by
  unfold runModel at h
  by_cases hk : k < 1
  · rw [if_pos hk] at h; cases h
  · rw [if_neg hk] at h
    refine ⟨by omega, h, ?_⟩
    cases hf : s.finished with
    | false => rfl
    | true =>
      obtain ⟨k, rfl⟩ : ∃ j, k = j + 1 := ⟨k - 1, by omega⟩
      rw [runStepsR_succ, performR_of_finished hf] at h
      cases h

/-- **`run_model(num_steps = a + b)` in terms of two calls**: the call with `a` steps, then —
unless it ended the simulation, in which case a second call would raise — the call with `b` steps -/
theorem runModelR_add {a b : Nat} (ha : 1 ≤ a) (hb : 1 ≤ b) (s : RunState α) :
    runModel F T cfg (a + b) s =
      (runModel F T cfg a s).bind
        (fun s1 => if s1.finished then .ok s1 else runModel F T cfg b s1) := by
  unfold runModel
  have h1 : ¬ a + b < 1 := by omega
  have h2 : ¬ a < 1 := by omega
  have h3 : ¬ b < 1 := by omega
  simp only [if_neg h1, if_neg h2, if_neg h3]
  cases hs : s.finished with
  | false => exact runStepsR_add a b s hs
  | true =>
    obtain ⟨a, rfl⟩ : ∃ j, a = j + 1 := ⟨a - 1, by omega⟩
    have e : a + 1 + b = (a + b) + 1 := by omega
    rw [e, runStepsR_succ, runStepsR_succ, performR_of_finished hs]
    rfl

/-- … `runModel (a + b) s = runModel a s >>= runModel b` when the first call does not finish -/
theorem runModelR_add' {a b : Nat} (hb : 1 ≤ b) {s s1 : RunState α}
    (h1 : runModel F T cfg a s = .ok s1) (hf : s1.finished = false) :
    runModel F T cfg (a + b) s = (runModel F T cfg a s).bind (runModel F T cfg b) := by
  obtain ⟨ha, _, _⟩ := runModelR_ok h1
  rw [runModelR_add ha hb, h1]
  simp [Except.bind, hf]

/-- a sequence of `run_model(num_steps = k)` calls -/
def runCallsR (F : Fn α) (T : TrigFn α) (cfg : RunCfg α) : List Nat → RunState α →
    Except String (RunState α)
  | [], s => .ok s
  | k :: ks, s => (runModel F T cfg k s).bind (runCallsR F T cfg ks)

/-- in a successful sequence of calls, every call but the last leaves the model unfinished -/
theorem runCallsR_cons_unfinished {k k2 : Nat} {ks : List Nat} {s s1 r : RunState α}
    (h1 : runModel F T cfg k s = .ok s1) (h : runCallsR F T cfg (k2 :: ks) s1 = .ok r) :
    s1.finished = false := by
  cases hf : s1.finished with
  | false => rfl
  | true =>
    simp only [runCallsR, runModelR_finished k2 hf, Except.bind] at h
    cases h

/-- **Any partition equals one call.**  A non-empty sequence of calls (all step counts positive —
otherwise the call raises) that succeeds produces exactly the state — clock, state object, all day
records, summary, completion flag — of one call with the sum of the step counts. -/
theorem runCallsR_eq_one : ∀ (ks : List Nat) {s r : RunState α}, ks ≠ [] →
    runCallsR F T cfg ks s = .ok r → runModel F T cfg ks.sum s = .ok r
  | [], _, _, hne, _ => absurd rfl hne
  | [k], s, r, _, h => by
    simp only [runCallsR] at h
    cases h1 : runModel F T cfg k s with
    | error e => rw [h1] at h; cases h
    | ok s1 =>
      rw [h1] at h
      simp only [Except.bind] at h
      cases h
      simpa using h1
  | k :: k2 :: ks, s, r, _, h => by
    simp only [runCallsR] at h
    cases h1 : runModel F T cfg k s with
    | error e => rw [h1] at h; cases h
    | ok s1 =>
      rw [h1] at h
      simp only [Except.bind] at h
      have h' : runCallsR F T cfg (k2 :: ks) s1 = .ok r := h
      have hf := runCallsR_cons_unfinished h1 h'
      have ih := runCallsR_eq_one (k2 :: ks) (by simp) h'
      obtain ⟨hk, _, _⟩ := runModelR_ok h1
      obtain ⟨hk2, _, _⟩ := runModelR_ok ih
      rw [List.sum_cons, runModelR_add hk hk2, h1]
      simp only [Except.bind, hf, Bool.false_eq_true, if_false]
      exact ih

/-- `a + b` steps that leave the run unfinished are `a` steps that leave it unfinished, then `b` -/
theorem runStepsR_split {a b : Nat} {s r : RunState α} (h : runStepsR F T cfg (a + b) s = .ok r)
    (hf : r.finished = false) :
    ∃ s1, runStepsR F T cfg a s = .ok s1 ∧ s1.finished = false ∧ runStepsR F T cfg b s1 = .ok r := by
  cases hs : s.finished with
  | true =>
    cases a with
    | zero =>
      cases b with
      | zero => simp at h; subst h; rw [hs] at hf; cases hf
      | succ b =>
        rw [Nat.zero_add, runStepsR_succ, performR_of_finished hs] at h; cases h
    | succ a =>
      have e : a + 1 + b = (a + b) + 1 := by omega
      rw [e, runStepsR_succ, performR_of_finished hs] at h; cases h
  | false =>
    rw [runStepsR_add a b s hs] at h
    cases h1 : runStepsR F T cfg a s with
    | error e => rw [h1] at h; cases h
    | ok s1 =>
      rw [h1] at h
      simp only [Except.bind] at h
      cases hf1 : s1.finished with
      | true => rw [hf1] at h; simp at h; subst h; rw [hf1] at hf; cases hf
      | false => rw [hf1] at h; simp at h; exact ⟨s1, rfl, hf1, h⟩

/-- **Every way of cutting an unfinished run exists.**  If one call with `k` steps leaves the run
unfinished, every list of positive step counts summing to `k` gives the same state. -/
theorem runCallsR_of_one : ∀ (ks : List Nat) {s r : RunState α}, (∀ k ∈ ks, 1 ≤ k) →
    runStepsR F T cfg ks.sum s = .ok r → r.finished = false → runCallsR F T cfg ks s = .ok r
  | [], s, r, _, h, _ => h
  | k :: ks, s, r, hpos, h, hf => by
    rw [List.sum_cons] at h
    obtain ⟨s1, h1, hf1, h2⟩ := runStepsR_split h hf
    have hk : 1 ≤ k := hpos k List.mem_cons_self
    have ih := runCallsR_of_one ks (fun k' hk' => hpos k' (List.mem_cons_of_mem _ hk')) h2 hf
    simp only [runCallsR]
    have : runModel F T cfg k s = .ok s1 := by
      unfold runModel
      rw [if_neg (by omega)]
      exact h1
    rw [this]
    exact ih

end Aqua

#print axioms Aqua.runStepsR_add
#print axioms Aqua.overshoot_stopsR
#print axioms Aqua.runModelR_finished
#print axioms Aqua.runModelR_add
#print axioms Aqua.runModelR_add'
#print axioms Aqua.runCallsR_eq_one
#print axioms Aqua.runCallsR_of_one
