import AquaVerif.Proofs.RunForcingPrefix
import AquaVerif.Proofs.WeatherBind
/-
Work package V, part 4 — **binding (property C15) on the full run model**: the implementation's
weather handling (`Model/WeatherBind.lean`: `weatherMatrix` = `read_weather_inputs` + the matrix
line of `_initialize`; `dayRow` = `_weather[time_step_counter]`; `dayVars` = positions 0..3 of the
row) connected to `RunCfg.weather`.

* `weatherOfMatrix dflt m t` — the `Weather` record of day `t`: `dayVars (dayRow m t)` with the
  four numeric cells unwrapped.  `RunCfg.weather` is total, so a value `dflt` stands where the
  Python would raise (row `t` missing: `IndexError`; fewer than four columns; a non-numeric cell).
  `MatrixOK m n` says that this does not happen on the rows `t < n − 1` the run reads, and
  **`run_default_irrelevant`** shows that `dflt` is then never observed — no default is papered
  over.
* `cfgOfMatrix cfg dflt m` — the configuration whose weather is read from the matrix `m`;
  `runOfTable` — `weatherMatrix`, then `runInit`, then `run_model(num_steps = k)`.
* **`run_binding_invariant`**: two tables on which the set-up computes the same thing
  (`SameBinding`) give the same run — same set-up error, same run error, or the same final state
  with all day records; `sameBinding_perm_columns`, `sameBinding_extra_columns`,
  `sameBinding_reindex`, `sameBinding_extra_rows` are the four transformations of work package T.
* `run_table_prefix`: C14 through the binding — two tables that agree on their first `j` rows give
  runs with the same records on the first `q` days, `q` = number of in-window rows among them.
* `weatherOfMatrix_row`: row `t` of the matrix is bound to day `t` by *position* (the premise under
  which this is the row dated `start + t` is `dayRow_date_of_contiguous`, work package T).
-/

set_option linter.unusedSectionVars false
set_option linter.unusedVariables false
namespace Aqua
open Aqua.Clock Aqua.WeatherBind Aqua.RunShape
variable {α : Type} [Field α] [LinearOrder α] [IsStrictOrderedRing α]

/-! ## 1. from the matrix to `RunCfg.weather` -/

/-- the four variables of a day as numbers (`dflt` if a cell is not a number) -/
def cellsWeather (dflt : Weather α) : DayWeather (WCell α) → Weather α
  | ⟨.num a, .num b, .num c, .num d⟩ => { tmin := a, tmax := b, rain := c, et0 := d }
  | _ => dflt

/-- `dayVars (dayRow m t)` as a `Weather` record -/
def weatherOfMatrix (dflt : Weather α) (m : List (List (WCell α))) (t : Nat) : Weather α :=
  match dayRow m t with
  | .error _ => dflt
  | .ok r =>
    match dayVars r with
    | .error _ => dflt
    | .ok v => cellsWeather dflt v

/-- the configuration that reads its weather from the matrix `m` -/
def cfgOfMatrix (cfg : RunCfg α) (dflt : Weather α) (m : List (List (WCell α))) : RunCfg α :=
  { cfg with weather := weatherOfMatrix dflt m }

/-- the rows the run reads (`t < n − 1`) exist and start with four numbers -/
def MatrixOK (m : List (List (WCell α))) (n : Nat) : Prop :=
  ∀ t, t + 2 ≤ n → ∃ a b c d rest, m[t]? = some (.num a :: .num b :: .num c :: .num d :: rest)

/-- **row `t` is bound to day `t`, its first four cells to `MinTemp`, `MaxTemp`, `Precipitation`,
`ReferenceET`** -/
theorem weatherOfMatrix_row (dflt : Weather α) {m : List (List (WCell α))} {t : Nat} {a b c d : α}
    {rest : List (WCell α)} (h : m[t]? = some (.num a :: .num b :: .num c :: .num d :: rest)) :
    weatherOfMatrix dflt m t = { tmin := a, tmax := b, rain := c, et0 := d } := by
  unfold weatherOfMatrix dayRow
  rw [h]
  rfl

theorem weatherOfMatrix_default {m : List (List (WCell α))} {n : Nat} (hm : MatrixOK m n)
    (d1 d2 : Weather α) {t : Nat} (ht : t + 2 ≤ n) :
    weatherOfMatrix d1 m t = weatherOfMatrix d2 m t := by
  obtain ⟨a, b, c, d, rest, h⟩ := hm t ht
  rw [weatherOfMatrix_row d1 h, weatherOfMatrix_row d2 h]

/-- the weather of day `t` depends on row `t` only -/
theorem weatherOfMatrix_congr (dflt : Weather α) {m m' : List (List (WCell α))} {t : Nat}
    (h : m[t]? = m'[t]?) : weatherOfMatrix dflt m t = weatherOfMatrix dflt m' t := by
  unfold weatherOfMatrix dayRow
  rw [h]

theorem staticEq_cfgOfMatrix (cfg : RunCfg α) (d1 d2 : Weather α) (m m' : List (List (WCell α))) :
    StaticEq (cfgOfMatrix cfg d1 m) (cfgOfMatrix cfg d2 m') :=
  ⟨rfl, rfl, rfl, rfl, rfl, rfl, rfl, rfl, rfl, rfl, rfl, rfl, rfl, rfl, rfl, rfl⟩

section default
variable {F : Fn α} {T : TrigFn α}

/-- **the default is never observed**: if the rows `t < n − 1` of the matrix exist and start with
four numbers, the run does not depend on `dflt` -/
theorem run_default_irrelevant (cfg : RunCfg α) {m : List (List (WCell α))}
    (hm : MatrixOK m cfg.clock.n) (d1 d2 : Weather α) (k : Nat) :
    (runInit (cfgOfMatrix cfg d2 m)).bind (runModel F T (cfgOfMatrix cfg d2 m) k) =
      (runInit (cfgOfMatrix cfg d1 m)).bind (runModel F T (cfgOfMatrix cfg d1 m) k) :=
  run_weather_outside_window_init
    { static := staticEq_cfgOfMatrix cfg d1 d2 m m, clock := rfl, crop := rfl,
      day := fun t ht => ⟨weatherOfMatrix_default hm d2 d1 ht, fun _ => rfl, rfl, rfl⟩ } k

end default

/-! ## 2. from the table to the run -/

/-- set-up of the weather (`read_weather_inputs`, matrix line), `_initialize`, then
`run_model(num_steps = k)`; `s`, `e`: simulation start and end day -/
def runOfTable {ι : Type} (F : Fn α) (T : TrigFn α) (cfg : RunCfg α) (dflt : Weather α)
    (s e : Int) (tbl : WTable α ι) (k : Nat) : Except String (RunState α) :=
  match weatherMatrix s e tbl with
  | .error err => .error err
  | .ok m => (runInit (cfgOfMatrix cfg dflt m)).bind (runModel F T (cfgOfMatrix cfg dflt m) k)

/-- the set-up computes the same thing — the same matrix or the same error — on the two tables -/
def SameBinding {ι ι' : Type} (s e : Int) (t : WTable α ι) (t' : WTable α ι') : Prop :=
  weatherMatrix s e t' = weatherMatrix s e t

section binding
variable {F : Fn α} {T : TrigFn α} {ι ι' : Type}

/-- reordering the columns (distinct labels; any index) -/
theorem sameBinding_perm_columns (s e : Int) (t : WTable α ι) (t' : WTable α ι')
    (hp : t.cols.Perm t'.cols) (hnd : (t.cols.map (·.1)).Nodup) : SameBinding s e t t' :=
  (weatherMatrix_perm_columns s e t t' hp hnd).symm

/-- columns with other labels than the five required ones, inserted anywhere -/
theorem sameBinding_extra_columns (s e : Int) (pre extra post : List (String × List (WCell α)))
    (idx : List ι) (idx' : List ι') (hx : ∀ c ∈ extra, c.1 ∉ required) :
    SameBinding s e ({ cols := pre ++ post, index := idx' } : WTable α ι')
      ({ cols := pre ++ extra ++ post, index := idx } : WTable α ι) :=
  weatherMatrix_extra_columns s e pre extra post idx idx' hx

/-- any other index -/
theorem sameBinding_reindex (s e : Int) (t : WTable α ι) (idx' : List ι') :
    SameBinding s e t ({ cols := t.cols, index := idx' } : WTable α ι') :=
  weatherMatrix_reindex s e t idx'

/-- extra rows dated outside the window (the two positional checks coming out the same) -/
theorem sameBinding_extra_rows (s e : Int) (t : WTable α ι) (t' : WTable α ι') (m : List Bool)
    (hview : ∀ n ∈ required, sel n t.cols = (sel n t'.cols).map (keep m))
    (hout : ∀ c ∈ sel "Date" t'.cols, Forall2 (fun b x => b = false → Outside s e x) m c)
    (hfirst : dateEdgeTest false (fun d => decide (s < d)) t' =
              dateEdgeTest false (fun d => decide (s < d)) t)
    (hlast : dateEdgeTest true (fun d => decide (d < e)) t' =
             dateEdgeTest true (fun d => decide (d < e)) t) : SameBinding s e t t' :=
  weatherMatrix_extra_rows s e t t' m hview hout hfirst hlast

theorem SameBinding.trans {ι'' : Type} {s e : Int} {t : WTable α ι} {t' : WTable α ι'}
    {t'' : WTable α ι''} (h : SameBinding s e t t') (h' : SameBinding s e t' t'') :
    SameBinding s e t t'' := by
  unfold SameBinding at *
  rw [h', h]

/-- **Binding invariance of the run (C15).**  Two weather tables related by column permutation,
extra columns, re-indexing or extra out-of-window rows (any chain of them: `SameBinding`) give the
same outcome of set-up + run: the same set-up error, the same run error, or the same final state —
clock, state object and every day record. -/
theorem run_binding_invariant (cfg : RunCfg α) (dflt : Weather α) {s e : Int} {t : WTable α ι}
    {t' : WTable α ι'} (h : SameBinding s e t t') (k : Nat) :
    runOfTable F T cfg dflt s e t' k = runOfTable F T cfg dflt s e t k := by
  unfold runOfTable
  rw [h]

/-- … in the form of the task: whenever `weatherMatrix` succeeds on one table, it succeeds on the
other with the same matrix, and the `runModel` results from the initialised models coincide -/
theorem run_binding_invariant_ok (cfg : RunCfg α) (dflt : Weather α) {s e : Int} {t : WTable α ι}
    {t' : WTable α ι'} (h : SameBinding s e t t') {m : List (List (WCell α))}
    (hm : weatherMatrix s e t = .ok m) (k : Nat) :
    weatherMatrix s e t' = .ok m ∧
      ∀ m', weatherMatrix s e t' = .ok m' →
        cfgOfMatrix cfg dflt m' = cfgOfMatrix cfg dflt m ∧
        (runInit (cfgOfMatrix cfg dflt m')).bind (runModel F T (cfgOfMatrix cfg dflt m') k) =
          (runInit (cfgOfMatrix cfg dflt m)).bind (runModel F T (cfgOfMatrix cfg dflt m) k) := by
  have h1 : weatherMatrix s e t' = .ok m := by rw [h, hm]
  refine ⟨h1, fun m' hm' => ?_⟩
  rw [h1] at hm'
  cases hm'
  exact ⟨rfl, rfl⟩

end binding

/-! ## 3. C14 through the binding -/

section viaTables
variable {F : Fn α} {T : TrigFn α} {ι ι' : Type}

/-- two matrices with the same first `q` rows give configurations that agree before day `q` -/
theorem agreeBefore_of_take (cfg : RunCfg α) (dflt : Weather α) {m m' : List (List (WCell α))}
    {q : Nat} (h : m.take q = m'.take q) :
    AgreeBefore q (cfgOfMatrix cfg dflt m) (cfgOfMatrix cfg dflt m') :=
  { static := staticEq_cfgOfMatrix cfg dflt dflt m m', clock := rfl,
    day := fun t ht =>
      ⟨(weatherOfMatrix_congr dflt (by
          have h1 : (m.take q)[t]? = (m'.take q)[t]? := by rw [h]
          rwa [List.getElem?_take_of_lt ht, List.getElem?_take_of_lt ht] at h1)).symm,
       fun _ => rfl, rfl, rfl⟩,
    crop := fun _ _ => rfl }

/-- **No look-ahead through the implementation's own weather handling, on the full run model.**
Two weather tables with one `Date` column each that agree on their first `j` rows (on the columns
the five names select), on both of which the set-up succeeds: the runs of `k` steps have the same
day records on the first `q` days, `q` = number of in-window rows among the first `j` rows, and
are in the same state while one of the two clocks is before `q`.  (Calendar-day crops: `cfg`
fixes `seasonCrop`.) -/
theorem run_table_prefix (cfg : RunCfg α) (dflt : Weather α) (hw : WF cfg.clock) (hi : InitOK cfg)
    (s e : Int) (j : Nat) {t : WTable α ι} {t' : WTable α ι'} {c c' : List (WCell α)}
    (hd : sel "Date" t.cols = [c]) (hd' : sel "Date" t'.cols = [c'])
    (hview : ∀ n ∈ required, (sel n t.cols).map (List.take j) = (sel n t'.cols).map (List.take j))
    {m m' : List (List (WCell α))} (hm : weatherMatrix s e t = .ok m)
    (hm' : weatherMatrix s e t' = .ok m') {s0 r r' : RunState α}
    (h0 : runInit (cfgOfMatrix cfg dflt m) = .ok s0) {k : Nat}
    (hrun : runModel F T (cfgOfMatrix cfg dflt m) k s0 = .ok r)
    (hrun' : runModel F T (cfgOfMatrix cfg dflt m') k s0 = .ok r') :
    recsBefore (((c.take j).map (inWin s e)).count true) r'.daysRev =
        recsBefore (((c.take j).map (inWin s e)).count true) r.daysRev ∧
      (r.t < ((c.take j).map (inWin s e)).count true ∨
        r'.t < ((c.take j).map (inWin s e)).count true → r' = r) :=
  run_prefix_determined
    (agreeBefore_of_take cfg dflt (weatherMatrix_prefix s e j hd hd' hview hm hm'))
    hw ⟨hi.dap, hi.mature, hi.dead, hi.flag⟩ h0 hrun hrun'

end viaTables
end Aqua

#print axioms Aqua.run_default_irrelevant
#print axioms Aqua.run_binding_invariant
#print axioms Aqua.run_binding_invariant_ok
#print axioms Aqua.run_table_prefix
