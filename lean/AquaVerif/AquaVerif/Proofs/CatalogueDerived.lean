import AquaVerif.Proofs.CatalogueCrop
import AquaVerif.Proofs.CropCalendar

/-
Work package R, part 1b: **the conjuncts of `DerivedOK` / `DerivedRunOK` discharged from the
models of the initialisation routines**, so that for values produced by those routines nothing
about derived values is left to assume.

* `fco2Init_nonneg`, `fco2Reset_nonneg` — `0 ≤ fCO2` for every non-negative CO2 concentration
  (`CO2Params` from the catalogue: `co2Params_of_ok`).
* `hiBlock_nonneg` — `0 ≤ HIGC`, `0 ≤ dHILinear` for whatever `calculate_HIGC` /
  `calculate_HI_linear` return (`0 < HIini < HI0`, `0 ≤ YldFormCD`).
* calendar, calendar-day crops (`compute_crop_calendar`, mode 1: `calendarInitCD`):
  `derivedRunOK_CD`; thermal-time crops (mode 2 at initialisation: `calendarInit`; the reset block:
  `calendarDays` on the stored thresholds): `calendarDays_devEnd`, `derivedRunOK_GDD`.
  The raw-parameter facts they need are the decidable `CropFull.CalOK` (holds for the whole
  catalogue: `catalogue_calOK`) and `CropFull.DevEndOK` (`CanopyDevEnd ≤ Senescence` for
  determinant crops), which **fails for four catalogue crops**: `catalogue_devEnd_exceptions`
  (Barley, BarleyGDD, PaddyRice, PaddyRiceGDD: `HIstart + Flowering/2 > Senescence`).  For those
  four the premise `CfgRwOK.devEnd` of the rewatering-cap theorem is false: a finding.
-/

set_option linter.unusedSectionVars false
set_option linter.unusedVariables false
set_option linter.unusedSimpArgs false
namespace Aqua
open Aqua.Generated Aqua.Response Aqua.HarvestIndexReal

/-! ## 1. further raw-parameter facts about the calendar inputs -/

/-- **calendar inputs** (all decidable; `Rat.den = 1`: the value is a whole number)
calendar-day crops (`CalendarType = 1`):
 1. `HIstartCD`, `SenescenceCD`, `EmergenceCD` whole numbers, `0 ≤ EmergenceCD`
 2. `CC0 ≤ 0.1`, `0.008 ≤ CCx`            — `Emergence ≤ Canopy10Pct ≤ MaxCanopy`
 3. determinant: `0 ≤ FloweringCD`; otherwise `HIstartCD ≤ SenescenceCD` — `HIstartCD ≤ CanopyDevEndCD`
thermal-time crops (`CalendarType = 2`):
 4. `HIstart`, `Maturity`, `Senescence` whole numbers
 5. `0 ≤ YldForm`, `HIstart + YldForm ≤ Maturity`  — `0 ≤ YldFormCD`
 6. determinant: `0 ≤ Flowering`, `HIstart + Flowering/2 ≤ Maturity`;
    otherwise `HIstart ≤ Senescence ≤ Maturity`     — `HIstartCD ≤ CanopyDevEndCD` -/
def CropFull.CalOK (c : CropFull) : Prop :=
  (c.calendarType = 1 →
    c.hiStartCD.den = 1 ∧ c.senescenceCD.den = 1 ∧ c.emergenceCD.den = 1 ∧ 0 ≤ c.emergenceCD ∧
    c.cc0 ≤ 0.1 ∧ 0.008 ≤ c.ccx ∧ (c.determinant = 1 → 0 ≤ c.floweringCD) ∧
    (c.determinant ≠ 1 → c.hiStartCD ≤ c.senescenceCD)) ∧
  (c.calendarType = 2 →
    c.hiStart.den = 1 ∧ c.maturity.den = 1 ∧ c.senescence.den = 1 ∧ 0 ≤ c.yldForm ∧
    c.hiStart + c.yldForm ≤ c.maturity ∧
    (c.determinant = 1 → 0 ≤ c.flowering ∧ c.hiStart + c.flowering / 2 ≤ c.maturity) ∧
    (c.determinant ≠ 1 → c.hiStart ≤ c.senescence ∧ c.senescence ≤ c.maturity))

/-- `CanopyDevEnd ≤ Senescence` on raw parameters: for a determinant crop
`HIstart + Flowering/2 ≤ Senescence` in the crop's calendar mode (a non-determinant crop has
`CanopyDevEnd = Senescence`) -/
def CropFull.DevEndOK (c : CropFull) : Prop :=
  c.determinant = 1 →
    (c.calendarType = 1 → c.hiStartCD + c.floweringCD / 2 ≤ c.senescenceCD) ∧
    (c.calendarType = 2 → c.hiStart + c.flowering / 2 ≤ c.senescence)

instance (c : CropFull) : Decidable (CropFull.CalOK c) := by unfold CropFull.CalOK; infer_instance
instance (c : CropFull) : Decidable (CropFull.DevEndOK c) := by
  unfold CropFull.DevEndOK; infer_instance

/-- every catalogue crop satisfies `CalOK` -/
theorem catalogue_calOK : ∀ c ∈ cropFullTable, CropFull.CalOK c := by decide +kernel

/-- **`CanopyDevEnd ≤ Senescence` fails for exactly four catalogue crops** -/
theorem catalogue_devEnd_exceptions : ∀ c ∈ cropFullTable,
    (c.DevEndOK ↔ c.name ∉ ["Barley", "BarleyGDD", "PaddyRice", "PaddyRiceGDD"]) := by
  decide +kernel

/-- all four are beyond rounding: `HIstart + Flowering/2 ≥ Senescence + 1` -/
theorem catalogue_devEnd_violations : ∀ c ∈ cropFullTable,
    c.name ∈ ["Barley", "BarleyGDD", "PaddyRice", "PaddyRiceGDD"] →
    (c.calendarType = 1 → c.senescenceCD + 1 ≤ c.hiStartCD + c.floweringCD / 2) ∧
    (c.calendarType = 2 → c.senescence + 1 ≤ c.hiStart + c.flowering / 2) := by decide +kernel

variable {α : Type} [Field α] [LinearOrder α] [IsStrictOrderedRing α]

theorem rat_cast_int_of_den {q : ℚ} (h : q.den = 1) : ((q : ℚ) : α) = ((q.num : ℤ) : α) := by
  have e : ((q.num : ℤ) : ℚ) = q := Rat.coe_int_num_of_den_eq_one h
  rw [← e]
  simp

/-! ## 2. `fCO2` -/

theorem fco2Sel_nonneg {F : Fn α} (hF : ExpOrdLaws F) {c ref bsted bface fsink : α}
    (hp : CO2Params ref bsted bface fsink) (hc : 0 ≤ c) : 0 ≤ fco2Sel F c ref bsted bface fsink := by
  have hold : 0 ≤ fco2OldW c ref bsted bface fsink := by
    rw [fco2OldW_eq]
    exact div_nonneg (div_nonneg hc hp.ref_pos.le) (fco2Den_pos hp hc).le
  unfold fco2Sel
  split_ifs with h1 h2
  · exact hold
  · exact hold
  · have := fco2New_ge_one hF fsink (not_le.mp h1).le (by linarith [hp.ref_lt] : ref < 2000)
    linarith

/-- **`0 ≤ fCO2`** as `compute_variables` computes it -/
theorem fco2Init_nonneg {F : Fn α} (hF : ExpOrdLaws F) {c ref bsted bface fsink wp v : α}
    (hp : CO2Params ref bsted bface fsink) (hc : 0 ≤ c)
    (h : fco2Init F c ref bsted bface fsink wp = some v) : 0 ≤ v := by
  rw [fco2Init_eq] at h
  simp only [Option.some.injEq] at h
  obtain ⟨t0, t1⟩ := fco2Type_range wp
  have hs := fco2Sel_nonneg hF hp hc
  rw [← h]
  nlinarith

/-- … and as `reset_initial_conditions` computes it -/
theorem fco2Reset_nonneg {F : Fn α} (hF : ExpOrdLaws F) {c ref bsted bface fsink wp v : α}
    (hp : CO2Params ref bsted bface fsink) (hc : 0 ≤ c)
    (h : fco2Reset F c ref bsted bface fsink wp = some v) : 0 ≤ v :=
  fco2Init_nonneg hF hp hc (fco2Reset_some_imp h)

/-! ## 3. `HIGC`, `dHILinear` -/

/-- **`0 ≤ HIGC` and `0 ≤ dHILinear`** for the values of the harvest-index block of
`compute_variables` / `reset_initial_conditions` -/
theorem hiBlock_nonneg {F : Fn α} (hF : ExpOrdLaws F) {fuel ct : Nat} {y : Int} {hi0 hiIni g t d : α}
    (h1 : 0 < hiIni) (h2 : hiIni < hi0) (hy : 0 ≤ y)
    (h : hiBlock F fuel ct y hi0 hiIni = .ok (g, t, d)) : 0 ≤ g ∧ 0 ≤ d := by
  unfold hiBlock at h
  cases hg : calculateHIGC F fuel (y : α) hi0 hiIni with
  | none => simp [hg] at h
  | some g' =>
    simp only [hg] at h
    obtain ⟨n, _, e, _, _⟩ := calculateHIGC_spec hF fuel (y : α) hi0 hiIni g' h1 h2 hg
    have hg0 : 0 ≤ g' := by rw [e]; positivity
    by_cases h3 : ct = 3
    · simp only [h3, if_true] at h
      cases hl : calculateHILinear F fuel (y : α) hiIni hi0 g' with
      | none => simp [hl] at h
      | some td =>
        obtain ⟨t', d'⟩ := td
        simp only [hl, Except.ok.injEq, Prod.mk.injEq] at h
        obtain ⟨rfl, rfl, rfl⟩ := h
        refine ⟨hg0, ?_⟩
        obtain ⟨m, _, ets, _, hall, ed⟩ :=
          calculateHILinear_spec F fuel (y : α) hiIni hi0 g' t' d' hl
        have hy' : (0 : α) ≤ (y : α) := by exact_mod_cast hy
        have hden : 0 < (y : α) - t' := by
          rw [ets]
          cases m with
          | zero => push_cast; linarith
          | succ m =>
            have := (hall m (Nat.lt_succ_self m)).2
            push_cast
            linarith
        have hnum : 0 ≤ hi0 - (if 0 < t' then hiLogistic F hiIni hi0 g' t' else 0) := by
          split_ifs
          · have := hiLogistic_lt_hi0 hF g' t' h1 h2
            linarith
          · linarith
        rw [ed]
        exact div_nonneg hnum hden.le
    · simp only [h3, if_false, Except.ok.injEq, Prod.mk.injEq] at h
      obtain ⟨rfl, _, rfl⟩ := h
      exact ⟨hg0, le_refl _⟩

/-! ## 4. the calendar of a calendar-day crop (`compute_crop_calendar`, mode 1) -/

namespace CropFull

/-- what `compute_crop_calendar` reads of a calendar-day crop (raw values; `fe`: the previous
`FloweringEnd`) -/
def calCDIn (c : CropFull) (fe : α) : CalCDIn α :=
  { determinant := decide (c.determinant = 1), cropType := c.cropType,
    switchGDD := decide (c.switchGDD = 1), hiStartCD := (c.hiStartCD : α),
    floweringCD := (c.floweringCD : α), senescenceCD := (c.senescenceCD : α),
    emergenceCD := (c.emergenceCD : α), maxRootingCD := (c.maxRootingCD : α),
    maturityCD := (c.maturityCD : α), yldFormCD := (c.yldFormCD : α), cc0 := (c.cc0 : α),
    ccx := (c.ccx : α), cgcCD := (c.cgcCD : α), cdcCD := (c.cdcCD : α), floweringEnd := fe }

/-- the derived values of a calendar-day crop: calendar `o` (`compute_crop_calendar`), build-up
coefficients `g t d` (`calculate_HIGC`, `calculate_HI_linear`), CO2 factor `f` -/
def derivedCD (c : CropFull) (o : CalCDOut α) (g t d f : α) (np : Bool) : CropDerived α :=
  { emergence := o.emergence, maxRooting := o.maxRooting, senescence := o.senescence,
    maturity := o.maturity, canopyDevEnd := o.canopyDevEnd, canopy10 := o.canopy10Pct,
    maxCanopy := o.maxCanopy, maxCanopyCD := o.maxCanopyCD, hiStartCD := (c.hiStartCD : α),
    hiEndCD := o.hiEndCD, yldFormCD := (c.yldFormCD : α), floweringCD := o.floweringCD,
    canopyDevEndCD := o.canopyDevEndCD, hiGC := g, tLinSwitch := t, dHILinear := d, fco2 := f,
    zMinNp := np }

/-- what `compute_crop_calendar` reads of a thermal-time crop -/
def calGDDIn (c : CropFull) (fe : α) : CalGDDIn α :=
  { determinant := decide (c.determinant = 1), cropType := c.cropType, gddMethod := c.gddMethod,
    tbase := (c.tbase : α), tupp := (c.tupp : α), emergence := (c.emergence : α),
    maturity := (c.maturity : α), hiStart := (c.hiStart : α), flowering := (c.flowering : α),
    yldForm := (c.yldForm : α), senescence := (c.senescence : α), cc0 := (c.cc0 : α),
    ccx := (c.ccx : α), cgc := (c.cgc : α), floweringEnd := fe }

/-- the derived values of a thermal-time crop: thresholds `canopyDevEnd canopy10 maxCanopy`, the
calendar days `days` of the season, build-up coefficients, CO2 factor -/
def derivedGDD (c : CropFull) (canopyDevEnd canopy10 maxCanopy : α) (days : CalDays)
    (g t d f : α) (np : Bool) : CropDerived α :=
  { emergence := (c.emergence : α), maxRooting := (c.maxRooting : α),
    senescence := (c.senescence : α), maturity := (c.maturity : α), canopyDevEnd := canopyDevEnd,
    canopy10 := canopy10, maxCanopy := maxCanopy, maxCanopyCD := (days.maxCanopyCD : α),
    hiStartCD := (days.hiStartCD : α), hiEndCD := (days.hiEndCD : α),
    yldFormCD := ((days.yldFormCD : ℤ) : α), floweringCD := ((days.floweringCD : ℤ) : α),
    canopyDevEndCD := (days.canopyDevEndCD : α), hiGC := g, tLinSwitch := t, dHILinear := d,
    fco2 := f, zMinNp := np }

end CropFull

section calendarCD
variable {c : CropFull} {F : Fn α}

/-- `HIstartCD ≤ CanopyDevEndCD ≤ SenescenceCD` and `0 ≤ MaxCanopyCD` for a calendar-day crop -/
theorem calendarCD_facts (h : CropFullOK c) (hcal : CropFull.CalOK c) (hct : c.calendarType = 1)
    (hL : CalLogLaws F) (hR : CalRound0Laws F) {fe : α} {o : CalCDOut α}
    (ho : calendarInitCD F (c.calCDIn fe) = .ok o) :
    (c.hiStartCD : α) ≤ o.canopyDevEndCD ∧ 0 ≤ o.maxCanopyCD ∧
      (CropFull.DevEndOK c → o.canopyDevEnd ≤ o.senescence) := by
  obtain ⟨i1, i2, i3, e0, k1, k2, d1, d2⟩ := hcal.1 hct
  obtain ⟨cc0pos, _, _, cgcpos, _⟩ := (h.2.2.1.cast (α := α))
  have hdev := calendarInitCD_canopyDevEnd ho
  obtain ⟨_, _, _, _, _, _, fsen, _, _, _, fde, _⟩ := calendarInitCD_fields ho
  have hcgc : (0 : α) < (c.cgcCD : α) := by
    have : c.cgcUsed = c.cgcCD := by unfold CropFull.cgcUsed; rw [if_pos hct]
    rw [← this]; exact cgcpos
  have hcc0 : ((c.cc0 : ℚ) : α) ≤ 0.1 := by
    have : ((c.cc0 : ℚ) : α) ≤ ((0.1 : ℚ) : α) := Rat.cast_le.mpr k1
    norm_num at this ⊢; exact this
  have hccx : (0.008 : α) ≤ ((c.ccx : ℚ) : α) := by
    have : (((0.008 : ℚ)) : α) ≤ ((c.ccx : ℚ) : α) := Rat.cast_le.mpr k2
    norm_num at this ⊢; exact this
  have hstart := rat_cast_int_of_den (α := α) i1
  have hsen := rat_cast_int_of_den (α := α) i2
  have hem := rat_cast_int_of_den (α := α) i3
  refine ⟨?_, ?_, ?_⟩
  · rw [hdev]
    show (c.hiStartCD : α) ≤ if decide (c.determinant = 1) = true then
      F.round0 ((c.hiStartCD : α) + (c.floweringCD : α) / 2) else (c.senescenceCD : α)
    by_cases hd : c.determinant = 1
    · simp only [hd, decide_true, if_true]
      have hf : (0 : α) ≤ (c.floweringCD : α) := by exact_mod_cast d1 hd
      have := hR.round0_mono (c.hiStartCD : α) ((c.hiStartCD : α) + (c.floweringCD : α) / 2)
        (by linarith)
      rw [hstart, hR.round0_int] at this
      rw [hstart]; exact this
    · simp only [hd, decide_false, Bool.false_eq_true, if_false]
      exact_mod_cast d2 hd
  · have a1 := calendarInitCD_emergence_le_canopy10Pct hL hR ho cc0pos hcc0 hcgc hem
    have a2 := calendarInitCD_canopy10Pct_le_maxCanopy hL hR ho cc0pos hccx hcgc
    have e0' : (0 : α) ≤ (c.emergenceCD : α) := by exact_mod_cast e0
    exact le_trans e0' (le_trans a1 a2)
  · intro hde
    rw [fde, fsen, hdev]
    show (if decide (c.determinant = 1) = true then
      F.round0 ((c.hiStartCD : α) + (c.floweringCD : α) / 2) else (c.senescenceCD : α)) ≤
        (c.senescenceCD : α)
    by_cases hd : c.determinant = 1
    · simp only [hd, decide_true, if_true]
      have hq := (hde hd).1 hct
      have hq' : (c.hiStartCD : α) + (c.floweringCD : α) / 2 ≤ (c.senescenceCD : α) := by
        have : ((c.hiStartCD + c.floweringCD / 2 : ℚ) : α) ≤ ((c.senescenceCD : ℚ) : α) :=
          Rat.cast_le.mpr hq
        simpa only [Rat.cast_add, Rat.cast_div, Rat.cast_ofNat] using this
      have := hR.round0_mono _ _ hq'
      rw [hsen, hR.round0_int] at this
      rw [hsen]; exact this
    · simp only [hd, decide_false, Bool.false_eq_true, if_false]
      exact le_refl _

/-- **a calendar-day crop of the catalogue, with the derived values the modelled initialisation
routines return, satisfies `DerivedRunOK`** — except that `CanopyDevEnd ≤ Senescence` needs
`DevEndOK` (not Barley, PaddyRice) -/
theorem derivedRunOK_CD (h : CropFullOK c) (hcal : CropFull.CalOK c) (hde : CropFull.DevEndOK c)
    (hct : c.calendarType = 1) (hF : ExpOrdLaws F) (hL : CalLogLaws F) (hR : CalRound0Laws F)
    {fe : α} {o : CalCDOut α} (ho : calendarInitCD F (c.calCDIn fe) = .ok o)
    {fuel : Nat} {y : Int} (hy : ((y : ℤ) : ℚ) = c.yldFormCD) {g t d : α}
    (hb : hiBlock F fuel c.cropType y (c.hi0 : α) (c.hiIni : α) = .ok (g, t, d))
    {cur f : α} (hcur : 0 ≤ cur)
    (hf : fco2Init F cur 369.41 (c.bsted : α) (c.bface : α) (c.fsink : α) (c.wp : α) = some f)
    (np : Bool) : DerivedRunOK (c.derivedCD o g t d f np) := by
  obtain ⟨f1, f2, f3⟩ := calendarCD_facts h hcal hct hL hR ho
  obtain ⟨i1, i2, _⟩ := (h.2.2.2.1.cast (α := α))
  have hy0 : (0 : ℚ) ≤ c.yldFormCD := h.2.2.2.1.2.2.2.2.2 hct
  have hyI : 0 ≤ y := by
    have : (0 : ℚ) ≤ ((y : ℤ) : ℚ) := by rw [hy]; exact hy0
    exact_mod_cast this
  obtain ⟨g0, d0⟩ := hiBlock_nonneg hF i1 i2 hyI hb
  exact
    { ok :=
        { hiStart_le_devEnd := f1
          yldForm_nonneg := by
            show (0 : α) ≤ ((c.yldFormCD : ℚ) : α)
            exact_mod_cast hy0
          hiGC_nonneg := g0
          dHILinear_nonneg := d0
          fco2_nonneg := fco2Init_nonneg hF (co2Params_of_ok h) hcur hf }
      devEnd_le_senescence := f3 hde
      maxCanopyCD_nonneg := f2 }

end calendarCD

/-! ## 5. the calendar of a thermal-time crop (mode 2 and the reset block) -/

section calendarGDD
variable {c : CropFull} {F : Fn α}

/-- on the look-ups both sites share: `HIstart ≤ CanopyDevEnd ≤ Maturity` (thresholds) gives
`HIstartCD ≤ CanopyDevEndCD` (days) -/
theorem calendarDays_devEnd {ct : Nat} {th : CalThresh α} {cum : List α} {d : CalDays}
    (h : calendarDays ct th cum = .ok d) (h1 : th.hiStart ≤ th.canopyDevEnd)
    (h2 : th.canopyDevEnd ≤ th.maturity) : d.hiStartCD ≤ d.canopyDevEndCD := by
  obtain ⟨last, _, _, _, _, _, e3, e4, _⟩ := calendarDays_ok h
  have := firstAbove_mono h1 (calendarDays_exceeded h h2)
  omega

/-- the thresholds `compute_crop_calendar` (mode 2) computes from the raw values of a catalogue
crop are ordered: `HIstart ≤ CanopyDevEnd ≤ Maturity`, `HIstart ≤ HIend ≤ Maturity`, and
`CanopyDevEnd ≤ Senescence` for the crops satisfying `DevEndOK` -/
theorem initThresh_facts (hcal : CropFull.CalOK c) (hct : c.calendarType = 2)
    (hR : CalRound0Laws F) (fe : α) :
    (initThresh F (c.calGDDIn fe)).1.hiStart ≤ (initThresh F (c.calGDDIn fe)).1.canopyDevEnd ∧
    (initThresh F (c.calGDDIn fe)).1.canopyDevEnd ≤ (initThresh F (c.calGDDIn fe)).1.maturity ∧
    (initThresh F (c.calGDDIn fe)).1.hiStart ≤ (initThresh F (c.calGDDIn fe)).1.hiEnd ∧
    (initThresh F (c.calGDDIn fe)).1.hiEnd ≤ (initThresh F (c.calGDDIn fe)).1.maturity ∧
    (CropFull.DevEndOK c →
      (initThresh F (c.calGDDIn fe)).1.canopyDevEnd ≤ (c.senescence : α)) := by
  obtain ⟨i1, i2, i3, y0, ym, d1, d2⟩ := hcal.2 hct
  have hstart := rat_cast_int_of_den (α := α) i1
  have hmat := rat_cast_int_of_den (α := α) i2
  have hsen := rat_cast_int_of_den (α := α) i3
  have hy0 : (0 : α) ≤ (c.yldForm : α) := by exact_mod_cast y0
  have hym : (c.hiStart : α) + (c.yldForm : α) ≤ (c.maturity : α) := by
    have : ((c.hiStart + c.yldForm : ℚ) : α) ≤ ((c.maturity : ℚ) : α) := Rat.cast_le.mpr ym
    simpa only [Rat.cast_add] using this
  have hthr : (initThresh F (c.calGDDIn fe)).1.canopyDevEnd =
      if decide (c.determinant = 1) = true then F.round0 ((c.hiStart : α) + (c.flowering : α) / 2)
      else (c.senescence : α) := rfl
  have e1 : (initThresh F (c.calGDDIn fe)).1.hiStart = (c.hiStart : α) := rfl
  have e2 : (initThresh F (c.calGDDIn fe)).1.maturity = (c.maturity : α) := rfl
  have e3 : (initThresh F (c.calGDDIn fe)).1.hiEnd = (c.hiStart : α) + (c.yldForm : α) := rfl
  rw [hthr, e1, e2, e3]
  by_cases hd : c.determinant = 1
  · simp only [hd, decide_true, if_true]
    obtain ⟨f0, fm⟩ := d1 hd
    have hf : (0 : α) ≤ (c.flowering : α) := by exact_mod_cast f0
    have hfm : (c.hiStart : α) + (c.flowering : α) / 2 ≤ (c.maturity : α) := by
      have : ((c.hiStart + c.flowering / 2 : ℚ) : α) ≤ ((c.maturity : ℚ) : α) := Rat.cast_le.mpr fm
      simpa only [Rat.cast_add, Rat.cast_div, Rat.cast_ofNat] using this
    refine ⟨?_, ?_, by linarith, hym, fun hde => ?_⟩
    · have := hR.round0_mono (c.hiStart : α) ((c.hiStart : α) + (c.flowering : α) / 2) (by linarith)
      rw [hstart, hR.round0_int] at this
      rw [hstart]; exact this
    · have := hR.round0_mono _ _ hfm
      rw [hmat, hR.round0_int] at this
      rw [hmat]; exact this
    · have hq := (hde hd).2 hct
      have hq' : (c.hiStart : α) + (c.flowering : α) / 2 ≤ (c.senescence : α) := by
        have : ((c.hiStart + c.flowering / 2 : ℚ) : α) ≤ ((c.senescence : ℚ) : α) :=
          Rat.cast_le.mpr hq
        simpa only [Rat.cast_add, Rat.cast_div, Rat.cast_ofNat] using this
      have := hR.round0_mono _ _ hq'
      rw [hsen, hR.round0_int] at this
      rw [hsen]; exact this
  · simp only [hd, decide_false, Bool.false_eq_true, if_false]
    obtain ⟨s1, s2⟩ := d2 hd
    exact ⟨by exact_mod_cast s1, by exact_mod_cast s2, by linarith, hym, fun _ => le_refl _⟩

/-- **a thermal-time crop of the catalogue, with the derived values `compute_crop_calendar`
(mode 2), the harvest-index block and the CO2 block return, satisfies `DerivedRunOK`** — except
that `CanopyDevEnd ≤ Senescence` needs `DevEndOK` (not BarleyGDD, PaddyRiceGDD) -/
theorem derivedRunOK_GDD (h : CropFullOK c) (hcal : CropFull.CalOK c) (hde : CropFull.DevEndOK c)
    (hct : c.calendarType = 2) (hF : ExpOrdLaws F) (hR : CalRound0Laws F) {fe : α}
    {temps : List (α × α)} {o : CalGDDOut α} (ho : calendarInit F (c.calGDDIn fe) temps = .ok o)
    {fuel : Nat} {g t d : α}
    (hb : hiBlock F fuel c.cropType o.days.yldFormCD (c.hi0 : α) (c.hiIni : α) = .ok (g, t, d))
    {cur f : α} (hcur : 0 ≤ cur)
    (hf : fco2Init F cur 369.41 (c.bsted : α) (c.bface : α) (c.fsink : α) (c.wp : α) = some f)
    (np : Bool) :
    DerivedRunOK (c.derivedGDD o.canopyDevEnd o.canopy10Pct o.maxCanopy o.days g t d f np) := by
  obtain ⟨t1, t2, t3, t4, t5⟩ := initThresh_facts (F := F) hcal hct hR fe
  obtain ⟨m, _, hd⟩ := calendarInit_days ho
  have hdev : o.canopyDevEnd = (initThresh F (c.calGDDIn fe)).1.canopyDevEnd := by
    unfold calendarInit at ho
    simp only at ho
    split at ho
    · cases ho
    · split at ho
      · cases ho
      · simp only [Except.ok.injEq] at ho
        rw [← ho]
  have a1 := calendarDays_devEnd hd t1 t2
  have a2 := (calendarDays_hiStart_le_hiEnd hd t3 t4).2
  obtain ⟨i1, i2, _⟩ := (h.2.2.2.1.cast (α := α))
  obtain ⟨g0, d0⟩ := hiBlock_nonneg hF i1 i2 a2 hb
  exact
    { ok :=
        { hiStart_le_devEnd := by
            show ((o.days.hiStartCD : ℕ) : α) ≤ ((o.days.canopyDevEndCD : ℕ) : α)
            exact_mod_cast a1
          yldForm_nonneg := by
            show (0 : α) ≤ ((o.days.yldFormCD : ℤ) : α)
            exact_mod_cast a2
          hiGC_nonneg := g0
          dHILinear_nonneg := d0
          fco2_nonneg := fco2Init_nonneg hF (co2Params_of_ok h) hcur hf }
      devEnd_le_senescence := by
        show o.canopyDevEnd ≤ ((c.senescence : ℚ) : α)
        rw [hdev]; exact t5 hde
      maxCanopyCD_nonneg := by
        show (0 : α) ≤ ((o.days.maxCanopyCD : ℕ) : α)
        exact Nat.cast_nonneg _ }

end calendarGDD

/-! ## 6. over the reals: no law left -/

theorem calLogLaws_real : CalLogLaws realFn :=
  ⟨Real.log_one, fun _ _ hx hxy => Real.log_le_log hx hxy⟩

theorem calRound0Laws_real : CalRound0Laws realFn := ⟨fun _ _ h => h, fun _ => rfl⟩

/-- **calendar-day catalogue crops over `ℝ`**: membership in the table, `DevEndOK`, and the outputs
of the modelled initialisation routines — nothing else — give `DerivedRunOK` -/
theorem derivedRunOK_CD_real {c : CropFull} (hc : c ∈ cropFullTable) (hde : CropFull.DevEndOK c)
    (hct : c.calendarType = 1) {fe : ℝ} {o : CalCDOut ℝ}
    (ho : calendarInitCD realFn (c.calCDIn fe) = .ok o)
    {fuel : Nat} {y : Int} (hy : ((y : ℤ) : ℚ) = c.yldFormCD) {g t d : ℝ}
    (hb : hiBlock realFn fuel c.cropType y (c.hi0 : ℝ) (c.hiIni : ℝ) = .ok (g, t, d))
    {cur f : ℝ} (hcur : 0 ≤ cur)
    (hf : fco2Init realFn cur 369.41 (c.bsted : ℝ) (c.bface : ℝ) (c.fsink : ℝ) (c.wp : ℝ) = some f)
    (np : Bool) : DerivedRunOK (c.derivedCD o g t d f np) :=
  derivedRunOK_CD (catalogue_ok c hc) (catalogue_calOK c hc) hde hct expOrdLaws_real calLogLaws_real
    calRound0Laws_real ho hy hb hcur hf np

/-- **thermal-time catalogue crops over `ℝ`** -/
theorem derivedRunOK_GDD_real {c : CropFull} (hc : c ∈ cropFullTable) (hde : CropFull.DevEndOK c)
    (hct : c.calendarType = 2) {fe : ℝ} {temps : List (ℝ × ℝ)} {o : CalGDDOut ℝ}
    (ho : calendarInit realFn (c.calGDDIn fe) temps = .ok o) {fuel : Nat} {g t d : ℝ}
    (hb : hiBlock realFn fuel c.cropType o.days.yldFormCD (c.hi0 : ℝ) (c.hiIni : ℝ) = .ok (g, t, d))
    {cur f : ℝ} (hcur : 0 ≤ cur)
    (hf : fco2Init realFn cur 369.41 (c.bsted : ℝ) (c.bface : ℝ) (c.fsink : ℝ) (c.wp : ℝ) = some f)
    (np : Bool) :
    DerivedRunOK (c.derivedGDD o.canopyDevEnd o.canopy10Pct o.maxCanopy o.days g t d f np) :=
  derivedRunOK_GDD (catalogue_ok c hc) (catalogue_calOK c hc) hde hct expOrdLaws_real
    calRound0Laws_real ho hb hcur hf np

/-! ## 7. existence: every calendar-day catalogue crop has such derived values -/

/-- fuel for the `calculate_HIGC` loop (steps of `0.001` in `HIGC`) -/
def higcFuel : Nat := 10000000

/-- for a calendar-day crop `YldFormCD` is a whole number of days within the fuel, and the
logistic build-up curve reaches `0.98·HI0` within the fuel (`calculateHIGC_isSome`) -/
def CropFull.HigcOK (c : CropFull) : Prop :=
  c.calendarType = 1 → c.yldFormCD.den = 1 ∧ c.yldFormCD ≤ (higcFuel : ℚ) ∧
    49 * (c.hi0 - c.hiIni) < c.hiIni * (1 + (0.001 + (higcFuel : ℚ) * 0.001) * c.yldFormCD)

instance (c : CropFull) : Decidable (CropFull.HigcOK c) := by unfold CropFull.HigcOK; infer_instance

theorem catalogue_higcOK : ∀ c ∈ cropFullTable, CropFull.HigcOK c := by decide +kernel

/-- **for every calendar-day crop of the catalogue satisfying `DevEndOK` the modelled
initialisation routines succeed over `ℝ` and their outputs satisfy `DerivedRunOK`** (any
non-negative CO2 concentration) -/
theorem exists_derivedRunOK_CD_real {c : CropFull} (hc : c ∈ cropFullTable)
    (hde : CropFull.DevEndOK c) (hct : c.calendarType = 1) {cur : ℝ} (hcur : 0 ≤ cur) (fe : ℝ)
    (np : Bool) :
    ∃ (o : CalCDOut ℝ) (g t d f : ℝ),
      calendarInitCD realFn (c.calCDIn fe) = .ok o ∧
      hiBlock realFn higcFuel c.cropType c.yldFormCD.num (c.hi0 : ℝ) (c.hiIni : ℝ) = .ok (g, t, d) ∧
      fco2Init realFn cur 369.41 (c.bsted : ℝ) (c.bface : ℝ) (c.fsink : ℝ) (c.wp : ℝ) = some f ∧
      DerivedRunOK (c.derivedCD o g t d f np) := by
  have h := catalogue_ok c hc
  obtain ⟨yi, yf, ybig⟩ := catalogue_higcOK c hc hct
  have hyQ : ((c.yldFormCD.num : ℤ) : ℚ) = c.yldFormCD := Rat.coe_int_num_of_den_eq_one yi
  obtain ⟨o, ho⟩ := (calendarInitCD_ok_iff realFn (c.calCDIn fe)).mpr (by
    show decide (c.switchGDD = 1) = false
    rw [h.2.2.1.1]; rfl)
  obtain ⟨i1, i2, _⟩ := (h.2.2.2.1.cast (α := ℝ))
  have hyR : ((c.yldFormCD.num : ℤ) : ℝ) = ((c.yldFormCD : ℚ) : ℝ) := by
    rw [← hyQ]; simp
  have hle : c.yldFormCD.num ≤ ((higcFuel : ℕ) : ℤ) := by
    have : ((c.yldFormCD.num : ℤ) : ℚ) ≤ (((higcFuel : ℕ) : ℤ) : ℚ) := by rw [hyQ]; exact_mod_cast yf
    exact_mod_cast this
  have hsome : (calculateHIGC realFn higcFuel ((c.yldFormCD.num : ℤ) : ℝ) (c.hi0 : ℝ)
      (c.hiIni : ℝ)).isSome = true := by
    apply calculateHIGC_isSome expOrdLaws_real expAddLaw_real expLinLaw_real higcFuel _ _ _ i1 i2
      (by decide)
    rw [hyR]
    have : ((49 * (c.hi0 - c.hiIni) : ℚ) : ℝ) <
        ((c.hiIni * (1 + (0.001 + (higcFuel : ℚ) * 0.001) * c.yldFormCD) : ℚ) : ℝ) :=
      Rat.cast_lt.mpr ybig
    push_cast at this ⊢
    norm_num at this ⊢
    linarith
  obtain ⟨⟨g, t, d⟩, hb⟩ := (hiBlock_ok_iff realFn (ct := c.cropType) hle (c.hi0 : ℝ)
    (c.hiIni : ℝ)).mpr hsome
  have hfs := fco2Init_isSome realFn cur 369.41 (c.bsted : ℝ) (c.bface : ℝ) (c.fsink : ℝ) (c.wp : ℝ)
  obtain ⟨f, hf⟩ := Option.isSome_iff_exists.mp hfs
  exact ⟨o, g, t, d, f, ho, hb, hf, derivedRunOK_CD_real hc hde hct ho hyQ hb hcur hf np⟩

/-- the calendar-day crops of the catalogue to which it applies: all but Barley, PaddyRice
(`DevEndOK`); SugarCane is excluded later by `LeafyOK` -/
theorem catalogue_CD_devEndOK : ∀ c ∈ cropFullTable, c.calendarType = 1 →
    c.name ∉ ["Barley", "PaddyRice"] → CropFull.DevEndOK c := by decide +kernel

end Aqua

section AxiomAudit
open Aqua
#print axioms catalogue_calOK
#print axioms catalogue_devEnd_exceptions
#print axioms catalogue_devEnd_violations
#print axioms fco2Init_nonneg
#print axioms fco2Reset_nonneg
#print axioms hiBlock_nonneg
#print axioms calendarCD_facts
#print axioms derivedRunOK_CD
#print axioms calendarDays_devEnd
#print axioms initThresh_facts
#print axioms derivedRunOK_GDD
#print axioms derivedRunOK_CD_real
#print axioms derivedRunOK_GDD_real
#print axioms catalogue_higcOK
#print axioms exists_derivedRunOK_CD_real
#print axioms catalogue_CD_devEndOK
end AxiomAudit
