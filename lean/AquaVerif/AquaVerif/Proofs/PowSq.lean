import AquaVerif.Proofs.Basic
/-
The law of `x ** 2`.

Python's `x ** 2` on a Python float or a numpy float64 *scalar* is C `pow(x, 2.0)`; the model
therefore writes `F.pow x 2` at those sites (and `x * x` only where the Python has a product or
`np.power`, whose ufunc squares exactly).  C `pow` is not correctly rounded, so at `Float` the two
can differ by one unit in the last place; over an ordered field the algebra needs the real-number
identity `x ** 2 = x · x`.  It is the one law about `pow` with the literal exponent 2, stated for
*every* base (also `x ≤ 0`): the real power (`Real.rpow`, `Proofs/RealInstance.lean`:
`powSqLaw_real`) and the ℚ example instances satisfy it.
-/

set_option linter.unusedSectionVars false
namespace Aqua
variable {α : Type} [Field α] [LinearOrder α] [IsStrictOrderedRing α]

/-- `x ** 2 = x · x` for every `x`. -/
structure PowSqLaw (F : Fn α) : Prop where
  pow_two : ∀ x : α, F.pow x 2 = x * x

theorem PowSqLaw.nonneg {F : Fn α} (h : PowSqLaw F) (x : α) : 0 ≤ F.pow x 2 := by
  rw [h.pow_two]; exact mul_self_nonneg x

theorem PowSqLaw.pos {F : Fn α} (h : PowSqLaw F) {x : α} (hx : x ≠ 0) : 0 < F.pow x 2 := by
  rw [h.pow_two]; exact mul_self_pos.mpr hx

/-- monotone on the non-negative half line -/
theorem PowSqLaw.mono {F : Fn α} (h : PowSqLaw F) {x y : α} (hx : 0 ≤ x) (hxy : x ≤ y) :
    F.pow x 2 ≤ F.pow y 2 := by
  rw [h.pow_two, h.pow_two]; exact mul_self_le_mul_self hx hxy

end Aqua
