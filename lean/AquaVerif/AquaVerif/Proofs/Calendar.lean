import AquaVerif.Model.Calendar
/-
Facts about the civil-date arithmetic and the planting / harvest date logic (C07, last
sentence: seasons begin on the configured planting day of consecutive years, starting with the
first planting date on or after the start date).  Core Lean only.
-/

namespace Aqua.Calendar

/-! ### Civil dates -/

theorem isLeap_iff (y : Int) : isLeap y = true ↔ ((y % 4 = 0 ∧ y % 100 ≠ 0) ∨ y % 400 = 0) := by
  simp [isLeap]

theorem validDate_iff (y m d : Int) :
    validDate y m d = true ↔ 1 ≤ m ∧ m ≤ 12 ∧ 1 ≤ d ∧ d ≤ daysInMonth y m := by
  simp [validDate, and_assoc]

theorem daysInMonth_bounds (y m : Int) : 28 ≤ daysInMonth y m ∧ daysInMonth y m ≤ 31 := by
  unfold daysInMonth
  split
  · split <;> omega
  · split <;> omega

/-- a month/day that exists in the mock year 1990 exists in every year -/
theorem daysInMonth_1990_le (y m : Int) : daysInMonth 1990 m ≤ daysInMonth y m := by
  have h90 : isLeap 1990 = false := by decide
  by_cases h2 : m = 2
  · subst h2
    simp only [daysInMonth, h90, if_true, Bool.false_eq_true, if_false]
    split <;> omega
  · simp only [daysInMonth, h2, if_false]
    split <;> omega

theorem validDate_of_1990 {m d : Int} (h : validDate 1990 m d = true) (y : Int) :
    validDate y m d = true := by
  rw [validDate_iff] at h ⊢
  have := daysInMonth_1990_le y m
  omega

/-- days of one month are consecutive day numbers -/
theorem dfc_day (y m d : Int) : daysFromCivil y m d = daysFromCivil y m 1 + (d - 1) := by
  unfold daysFromCivil
  simp only []
  split <;> split <;> omega

/-- **year order**: any date of an earlier year precedes any date of a later year -/
theorem dfc_year_lt (y1 y2 m1 m2 d1 d2 : Int) (hy : y1 < y2)
    (hm1 : 1 ≤ m1) (hm1' : m1 ≤ 12) (hm2 : 1 ≤ m2) (hm2' : m2 ≤ 12)
    (hd1 : 1 ≤ d1) (hd1' : d1 ≤ 31) (hd2 : 1 ≤ d2) (hd2' : d2 ≤ 31) :
    daysFromCivil y1 m1 d1 < daysFromCivil y2 m2 d2 := by
  unfold daysFromCivil
  simp only []
  split <;> split <;> split <;> split <;> omega

/-- the first of the next month is the day after the last of a month -/
theorem dfc_month_step (y m : Int) (h1 : 1 ≤ m) (h2 : m ≤ 11) :
    daysFromCivil y (m + 1) 1 = daysFromCivil y m (daysInMonth y m) + 1 := by
  have hm : m = 1 ∨ m = 2 ∨ m = 3 ∨ m = 4 ∨ m = 5 ∨ m = 6 ∨ m = 7 ∨ m = 8 ∨ m = 9 ∨ m = 10 ∨
      m = 11 := by omega
  by_cases hl : isLeap y = true
  · have hl' := (isLeap_iff y).mp hl
    rcases hm with rfl | rfl | rfl | rfl | rfl | rfl | rfl | rfl | rfl | rfl | rfl <;>
      simp [daysFromCivil, daysInMonth, hl] <;> omega
  · have hl' : ¬ ((y % 4 = 0 ∧ y % 100 ≠ 0) ∨ y % 400 = 0) := fun h => hl ((isLeap_iff y).mpr h)
    rcases hm with rfl | rfl | rfl | rfl | rfl | rfl | rfl | rfl | rfl | rfl | rfl <;>
      simp [daysFromCivil, daysInMonth, hl] <;> omega

theorem dfc_first_lt (y : Int) : ∀ (k : Nat) (m : Int), 1 ≤ m → m + k + 1 ≤ 12 →
    daysFromCivil y m 1 < daysFromCivil y (m + k + 1) 1 := by
  intro k
  induction k with
  | zero =>
    intro m h1 h2
    have := dfc_month_step y m h1 (by omega)
    have := dfc_day y m (daysInMonth y m)
    have := daysInMonth_bounds y m
    simp only [Int.natCast_zero, Int.add_zero] at *
    omega
  | succ k ih =>
    intro m h1 h2
    have h := ih m h1 (by omega)
    have hs := dfc_month_step y (m + k + 1) (by omega) (by omega)
    have := dfc_day y (m + k + 1) (daysInMonth y (m + k + 1))
    have := daysInMonth_bounds y (m + k + 1)
    have e : m + ((k + 1 : Nat) : Int) + 1 = m + k + 1 + 1 := by omega
    rw [e]
    omega

/-- **month order** within a year (the earlier date must exist) -/
theorem dfc_month_lt (y m1 m2 d1 d2 : Int) (h1 : 1 ≤ m1) (h12 : m1 < m2) (h2 : m2 ≤ 12)
    (hd1 : d1 ≤ daysInMonth y m1) (hd2 : 1 ≤ d2) :
    daysFromCivil y m1 d1 < daysFromCivil y m2 d2 := by
  have a := dfc_day y m1 d1
  have b := dfc_day y m2 d2
  have s := dfc_month_step y m1 h1 (by omega)
  have s' := dfc_day y m1 (daysInMonth y m1)
  by_cases he : m2 = m1 + 1
  · subst he; omega
  · obtain ⟨k, hk⟩ : ∃ k : Nat, m2 = (m1 + 1) + k + 1 := ⟨(m2 - m1 - 2).toNat, by omega⟩
    have := dfc_first_lt y k (m1 + 1) (by omega) (by omega)
    rw [← hk] at this
    omega

/-- **calendar order** of two existing dates of one year is the lexicographic order of
(month, day) -/
theorem dfc_lt_iff_lex {y m1 d1 m2 d2 : Int} (h1 : validDate y m1 d1 = true)
    (h2 : validDate y m2 d2 = true) :
    daysFromCivil y m1 d1 < daysFromCivil y m2 d2 ↔ (m1 < m2 ∨ (m1 = m2 ∧ d1 < d2)) := by
  rw [validDate_iff] at h1 h2
  obtain ⟨a1, a2, a3, a4⟩ := h1
  obtain ⟨b1, b2, b3, b4⟩ := h2
  by_cases hlt : m1 < m2
  · have := dfc_month_lt y m1 m2 d1 d2 a1 hlt b2 a4 b3
    constructor
    · intro _; exact Or.inl hlt
    · intro _; exact this
  · by_cases heq : m1 = m2
    · subst heq
      have := dfc_day y m1 d1
      have := dfc_day y m1 d2
      omega
    · have := dfc_month_lt y m2 m1 d2 d1 b1 (by omega) a2 b4 a3
      omega

/-- the order of two month/days does not depend on the year in which it is evaluated (this is
what justifies the repo's comparisons in the mock year 1990) -/
theorem md_order_transfer {a b m1 d1 m2 d2 : Int}
    (ha1 : validDate a m1 d1 = true) (ha2 : validDate a m2 d2 = true)
    (hb1 : validDate b m1 d1 = true) (hb2 : validDate b m2 d2 = true) :
    daysFromCivil a m1 d1 < daysFromCivil a m2 d2 ↔ daysFromCivil b m1 d1 < daysFromCivil b m2 d2 := by
  rw [dfc_lt_iff_lex ha1 ha2, dfc_lt_iff_lex hb1 hb2]

/-- 1 January is the first day of its year -/
theorem dfc_jan1_le {y m d : Int} (h : validDate y m d = true) :
    daysFromCivil y 1 1 ≤ daysFromCivil y m d := by
  rw [validDate_iff] at h
  obtain ⟨a1, a2, a3, a4⟩ := h
  by_cases hm : m = 1
  · subst hm; have := dfc_day y 1 d; omega
  · have := dfc_month_lt y 1 m 1 d (by omega) (by omega) a2 (by have := daysInMonth_bounds y 1; omega) a3
    omega


/-! ### `range`, `to_datetime` over a list -/

theorem pyRange_nil {a b : Int} (h : b ≤ a) : pyRange a b = [] := by
  unfold pyRange
  have : (b - a).toNat = 0 := by omega
  rw [this]; rfl

theorem pyRange_cons {a b : Int} (h : a < b) : pyRange a b = a :: pyRange (a + 1) b := by
  unfold pyRange
  obtain ⟨n, hn⟩ : ∃ n : Nat, (b - a).toNat = n + 1 := ⟨(b - a).toNat - 1, by omega⟩
  have hn' : (b - (a + 1)).toNat = n := by omega
  rw [hn, hn', List.range_succ_eq_map]
  simp only [List.map_cons, List.map_map, Int.natCast_zero, Int.add_zero, List.cons.injEq, true_and]
  apply List.map_congr_left
  intro i _
  simp only [Function.comp_apply, Nat.succ_eq_add_one]
  omega

theorem mem_pyRange {a b y : Int} : y ∈ pyRange a b ↔ a ≤ y ∧ y < b := by
  simp only [pyRange, List.mem_map, List.mem_range]
  constructor
  · rintro ⟨i, hi, rfl⟩; omega
  · intro h; exact ⟨(y - a).toNat, by omega, by omega⟩

theorem pyRange_tail (a b : Int) : (pyRange a b).tail = pyRange (a + 1) b := by
  by_cases h : a < b
  · rw [pyRange_cons h]; rfl
  · rw [pyRange_nil (by omega), pyRange_nil (by omega)]; rfl

theorem toDate_ok {y m d v : Int} (h : toDate y m d = .ok v) :
    validDate y m d = true ∧ v = daysFromCivil y m d := by
  unfold toDate at h
  split at h
  · rename_i hv; cases h; exact ⟨hv, rfl⟩
  · cases h

theorem mapM_toDate (m d : Int) : ∀ (ys v : List Int),
    ys.mapM (fun y => toDate y m d) = .ok v →
    v = ys.map (fun y => daysFromCivil y m d) ∧ ∀ y ∈ ys, validDate y m d = true := by
  intro ys
  induction ys with
  | nil => intro v h; rw [List.mapM_nil] at h; cases h; simp
  | cons y ys ih =>
    intro v h
    rw [List.mapM_cons] at h
    cases h1 : toDate y m d with
    | error e => rw [h1] at h; cases h
    | ok v1 =>
      rw [h1] at h
      cases h2 : List.mapM (fun y => toDate y m d) ys with
      | error e => rw [h2] at h; cases h
      | ok v2 =>
        rw [h2] at h
        cases h
        obtain ⟨hv, rfl⟩ := toDate_ok h1
        obtain ⟨rfl, hall⟩ := ih v2 h2
        refine ⟨rfl, ?_⟩
        intro y' hy'
        rcases List.mem_cons.mp hy' with rfl | hy'
        · exact hv
        · exact hall y' hy'

/-! ### The planting / harvest year logic -/

/-- what `yearLists` returns: `plant_years = range(sy, a)`, `harvest_years = range(sy+δ, a+δ)`
with `δ = 0` for a season inside one calendar year, `δ = 1` for a season spanning New Year. -/
theorem yearLists_spec {sy ey em ed pm pd hm hd endD : Int} {py hy : List Int}
    (h : yearLists sy ey em ed pm pd hm hd endD = .ok (py, hy)) :
    validDate 1990 pm pd = true ∧ validDate 1990 hm hd = true ∧
    ((daysFromCivil 1990 pm pd < daysFromCivil 1990 hm hd ∧ validDate 1990 em ed = true ∧
        py = pyRange sy ((if daysFromCivil 1990 em ed ≤ daysFromCivil 1990 pm pd then ey - 1 else ey) + 1)
        ∧ hy = py) ∨
     (¬ daysFromCivil 1990 pm pd < daysFromCivil 1990 hm hd ∧ validDate (ey + 2) hm hd = true ∧
        ((daysFromCivil (ey + 2) hm hd < endD ∧ py = pyRange sy (ey + 1) ∧
            hy = pyRange (sy + 1) (ey + 2)) ∨
         (¬ daysFromCivil (ey + 2) hm hd < endD ∧ py = pyRange sy ey ∧
            hy = pyRange (sy + 1) (ey + 1))))) := by
  unfold yearLists at h
  simp only [bind, Except.bind, pure, Except.pure] at h
  cases h1 : toDate 1990 pm pd with
  | error e => rw [h1] at h; cases h
  | ok p90 =>
    rw [h1] at h
    obtain ⟨hv1, rfl⟩ := toDate_ok h1
    cases h2 : toDate 1990 hm hd with
    | error e => rw [h2] at h; cases h
    | ok h90 =>
      rw [h2] at h
      obtain ⟨hv2, rfl⟩ := toDate_ok h2
      refine ⟨hv1, hv2, ?_⟩
      simp only at h
      split at h
      · rename_i hlt
        left
        cases h3 : toDate 1990 em ed with
        | error e => rw [h3] at h; cases h
        | ok me =>
          rw [h3] at h
          obtain ⟨hv3, rfl⟩ := toDate_ok h3
          simp only at h
          cases h
          exact ⟨hlt, hv3, rfl, rfl⟩
      · rename_i hlt
        right
        cases h3 : toDate (ey + 2) hm hd with
        | error e => rw [h3] at h; cases h
        | ok hl =>
          rw [h3] at h
          obtain ⟨hv3, rfl⟩ := toDate_ok h3
          simp only at h
          refine ⟨hlt, hv3, ?_⟩
          split at h
          · rename_i hc; cases h; exact Or.inl ⟨hc, rfl, rfl⟩
          · rename_i hc; cases h; exact Or.inr ⟨hc, rfl, rfl⟩


/-- what `finishSeasons` returns for `plant_years = range(sy, a)`,
`harvest_years = range(sy+δ, a+δ)` -/
theorem finishSeasons_spec {start : Int} {n : Nat} {sy a δ pm pd hm hd : Int} {r : Seasons}
    (h : finishSeasons start n (pyRange sy a) (pyRange (sy + δ) (a + δ)) pm pd hm hd = .ok r) :
    ∃ y0 : Int, y0 < a ∧ validDate sy pm pd = true ∧
      ((y0 = sy ∧ start ≤ daysFromCivil sy pm pd) ∨
       (y0 = sy + 1 ∧ daysFromCivil sy pm pd < start)) ∧
      r.planting = (pyRange y0 a).map (fun y => daysFromCivil y pm pd - start) ∧
      r.harvest = (pyRange (y0 + δ) (a + δ)).map (fun y => daysFromCivil y hm hd - start) ∧
      r.season0 = (if start = daysFromCivil y0 pm pd then 0 else -1) ∧ r.n = n ∧
      (∀ y ∈ pyRange y0 a, validDate y pm pd = true) ∧
      (∀ y ∈ pyRange (y0 + δ) (a + δ), validDate y hm hd = true) := by
  unfold finishSeasons at h
  simp only [bind, Except.bind, pure, Except.pure, throw, throwThe, MonadExceptOf.throw] at h
  by_cases ha : sy < a
  · rw [pyRange_cons ha] at h
    simp only at h
    cases h1 : toDate sy pm pd with
    | error e => rw [h1] at h; cases h
    | ok first =>
      rw [h1] at h
      obtain ⟨hv1, rfl⟩ := toDate_ok h1
      simp only at h
      -- the two lists after the correction for a partial first season
      obtain ⟨y0, hy0, hpl, hhl⟩ : ∃ y0 : Int,
          ((y0 = sy ∧ start ≤ daysFromCivil sy pm pd) ∨
           (y0 = sy + 1 ∧ daysFromCivil sy pm pd < start)) ∧
          (if daysFromCivil sy pm pd < start then (sy :: pyRange (sy + 1) a).tail
            else sy :: pyRange (sy + 1) a) = pyRange y0 a ∧
          (if daysFromCivil sy pm pd < start then (pyRange (sy + δ) (a + δ)).tail
            else pyRange (sy + δ) (a + δ)) = pyRange (y0 + δ) (a + δ) := by
        by_cases hf : daysFromCivil sy pm pd < start
        · refine ⟨sy + 1, Or.inr ⟨rfl, hf⟩, by simp [hf], ?_⟩
          simp only [hf, if_true]
          rw [pyRange_tail]; congr 1; omega
        · refine ⟨sy, Or.inl ⟨rfl, by omega⟩, ?_, by simp [hf]⟩
          simp only [hf, if_false]
          rw [pyRange_cons ha]
      rw [hpl, hhl] at h
      cases h2 : List.mapM (fun y => toDate y pm pd) (pyRange y0 a) with
      | error e => rw [h2] at h; cases h
      | ok pl =>
        rw [h2] at h
        obtain ⟨rfl, hvp⟩ := mapM_toDate pm pd _ _ h2
        simp only at h
        cases h3 : List.mapM (fun y => toDate y hm hd) (pyRange (y0 + δ) (a + δ)) with
        | error e => rw [h3] at h; cases h
        | ok hl =>
          rw [h3] at h
          obtain ⟨rfl, hvh⟩ := mapM_toDate hm hd _ _ h3
          simp only at h
          by_cases hya : y0 < a
          · rw [pyRange_cons hya] at h
            simp only [List.map_cons] at h
            cases h
            refine ⟨y0, hya, hv1, hy0, ?_, ?_, rfl, rfl, hvp, hvh⟩
            · rw [pyRange_cons hya]; simp [List.map_map, Function.comp_def]
            · simp [List.map_map, Function.comp_def]
          · rw [pyRange_nil (by omega)] at h
            simp at h
  · rw [pyRange_nil (by omega)] at h
    simp at h

/-- The specification of a successful date set-up: there are a first planting year
`y0 ∈ {sy, sy+1}`, a bound `a` and `δ ∈ {0,1}` such that
* the planting dates are the configured month/day of the consecutive years `y0, y0+1, …, a−1`
  (at least one), the harvest dates the configured month/day of the years `y0+δ, …, a−1+δ`
  (`δ = 0` iff planting precedes harvest within the mock year);
* the first planting date is the first one on or after the start date
  (`start ≤ planting(y0)` and `planting(y0 − 1) < start`);
* the season counter starts at 0 iff the start date is that planting date, else at −1;
* `n` is the number of days of the window, at least 2; every planting date is before the end
  date. -/
def SeasonsSpec (sy sm sd ey em ed pm pd hm hd : Int) (r : Seasons) : Prop :=
    let start := daysFromCivil sy sm sd
    let endD := daysFromCivil ey em ed
    ∃ y0 a δ : Int, y0 < a ∧ (y0 = sy ∨ y0 = sy + 1) ∧ a ≤ ey + 1 ∧
      ((δ = 0 ∧ daysFromCivil 1990 pm pd < daysFromCivil 1990 hm hd) ∨
       (δ = 1 ∧ ¬ daysFromCivil 1990 pm pd < daysFromCivil 1990 hm hd)) ∧
      r.planting = (pyRange y0 a).map (fun y => daysFromCivil y pm pd - start) ∧
      r.harvest = (pyRange (y0 + δ) (a + δ)).map (fun y => daysFromCivil y hm hd - start) ∧
      start ≤ daysFromCivil y0 pm pd ∧ daysFromCivil (y0 - 1) pm pd < start ∧
      r.season0 = (if start = daysFromCivil y0 pm pd then 0 else -1) ∧
      (r.n : Int) = endD - start + 1 ∧ 2 ≤ r.n ∧
      (∀ y ∈ pyRange y0 a, daysFromCivil y pm pd < endD) ∧
      validDate 1990 pm pd = true ∧ validDate 1990 hm hd = true ∧
      validDate sy sm sd = true ∧ validDate ey em ed = true

/-- **Theorem 7 (`seasons_first_on_or_after_start`, `seasons_consecutive_years`).**
Whenever the date set-up succeeds its result satisfies `SeasonsSpec`. -/
theorem seasonDates_spec {sy sm sd ey em ed pm pd hm hd : Int} {r : Seasons}
    (h : seasonDates sy sm sd ey em ed pm pd hm hd = .ok r) :
    SeasonsSpec sy sm sd ey em ed pm pd hm hd r := by
  unfold SeasonsSpec
  intro start endD
  unfold seasonDates at h
  simp only [bind, Except.bind, throw, throwThe, MonadExceptOf.throw] at h
  split at h
  · cases h
  · cases h1 : toDate sy sm sd with
    | error e => rw [h1] at h; cases h
    | ok st =>
      rw [h1] at h
      obtain ⟨hvs, rfl⟩ := toDate_ok h1
      cases h2 : toDate ey em ed with
      | error e => rw [h2] at h; cases h
      | ok en =>
        rw [h2] at h
        obtain ⟨hve, rfl⟩ := toDate_ok h2
        simp only at h
        split at h
        · cases h
        · rename_i hn
          cases h3 : yearLists sy ey em ed pm pd hm hd (daysFromCivil ey em ed) with
          | error e => rw [h3] at h; cases h
          | ok pyhy =>
            obtain ⟨py, hy⟩ := pyhy
            rw [h3] at h
            simp only at h
            obtain ⟨hvp, hvh, hcases⟩ := yearLists_spec h3
            have hvs' := (validDate_iff _ _ _).mp hvs
            have hve' := (validDate_iff _ _ _).mp hve
            have hvp' := (validDate_iff _ _ _).mp hvp
            have hvh' := (validDate_iff _ _ _).mp hvh
            have bpm := daysInMonth_bounds 1990 pm
            have bhm := daysInMonth_bounds 1990 hm
            have bsm := daysInMonth_bounds sy sm
            have bem := daysInMonth_bounds ey em
            -- common conclusion from the shape of the year lists
            have key : ∀ (a δ : Int), py = pyRange sy a → hy = pyRange (sy + δ) (a + δ) →
                a ≤ ey + 1 →
                ((δ = 0 ∧ daysFromCivil 1990 pm pd < daysFromCivil 1990 hm hd) ∨
                 (δ = 1 ∧ ¬ daysFromCivil 1990 pm pd < daysFromCivil 1990 hm hd)) →
                (∀ y, y < a → validDate y pm pd = true → daysFromCivil y pm pd < endD) →
                SeasonsSpec sy sm sd ey em ed pm pd hm hd r := by
              intro a δ hpy hhy hale hδ hlast
              rw [hpy, hhy] at h
              obtain ⟨y0, hy0a, hvsy, hy0, hpl, hhl, hs0, hrn, hvall, _⟩ := finishSeasons_spec h
              unfold SeasonsSpec
              refine ⟨y0, a, δ, hy0a, ?_, hale, hδ, hpl, hhl, ?_, ?_, hs0, ?_, ?_, ?_, hvp, hvh,
                hvs, hve⟩
              · rcases hy0 with ⟨e, _⟩ | ⟨e, _⟩
                · exact Or.inl e
                · exact Or.inr e
              · rcases hy0 with ⟨e, hle⟩ | ⟨e, hlt⟩
                · rw [e]; exact hle
                · rw [e]
                  have := dfc_year_lt sy (sy + 1) sm pm sd pd (by omega) (by omega) (by omega)
                    (by omega) (by omega) (by omega) (by omega) (by omega) (by omega)
                  exact Int.le_of_lt this
              · rcases hy0 with ⟨e, _⟩ | ⟨e, hlt⟩
                · rw [e]
                  have h1 := dfc_year_lt (sy - 1) sy pm 1 pd 1 (by omega) (by omega) (by omega)
                    (by omega) (by omega) (by omega) (by omega) (by omega) (by omega)
                  have h2 := dfc_jan1_le hvs
                  show daysFromCivil (sy - 1) pm pd < daysFromCivil sy sm sd
                  omega
                · rw [e]
                  have : sy + 1 - 1 = sy := by omega
                  rw [this]; exact hlt
              · rw [hrn]
                show (((daysFromCivil ey em ed - daysFromCivil sy sm sd + 1).toNat : Nat) : Int) = _
                omega
              · rw [hrn]; omega
              · intro y hy
                have hmem := mem_pyRange.mp hy
                exact hlast y hmem.2 (hvall y hy)
            rcases hcases with ⟨hlt, hvme, hpy, hhy⟩ | ⟨hnlt, hvl, hc⟩
            · -- planting and harvest in one calendar year
              have hvme' := (validDate_iff _ _ _).mp hvme
              refine key _ 0 hpy (by rw [hhy, hpy]; simp) (by split <;> omega)
                (Or.inl ⟨rfl, hlt⟩) ?_
              intro y hya hvy
              split at hya
              · -- the end date does not reach the planting date of its year
                exact dfc_year_lt y ey pm em pd ed (by omega) (by omega) (by omega) (by omega)
                  (by omega) (by omega) (by omega) (by omega) (by omega)
              · rename_i hgt
                by_cases hy : y < ey
                · exact dfc_year_lt y ey pm em pd ed hy (by omega) (by omega) (by omega)
                    (by omega) (by omega) (by omega) (by omega) (by omega)
                · have hye : y = ey := by omega
                  subst hye
                  exact (md_order_transfer hvp hvme hvy hve).mp (by omega)
            · -- season spanning New Year
              have hlate : ¬ daysFromCivil (ey + 2) hm hd < daysFromCivil ey em ed := by
                have := dfc_year_lt ey (ey + 2) em hm ed hd (by omega) (by omega) (by omega)
                  (by omega) (by omega) (by omega) (by omega) (by omega) (by omega)
                omega
              rcases hc with ⟨hc, _⟩ | ⟨_, hpy, hhy⟩
              · exact absurd hc hlate
              · refine key ey 1 hpy hhy (by omega) (Or.inr ⟨rfl, hnlt⟩) ?_
                intro y hya _
                exact dfc_year_lt y ey pm em pd ed hya (by omega) (by omega) (by omega)
                  (by omega) (by omega) (by omega) (by omega) (by omega)

end Aqua.Calendar
