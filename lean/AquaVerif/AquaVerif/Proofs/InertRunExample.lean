import AquaVerif.Proofs.InertRunNeutral
import AquaVerif.Proofs.RunClosedExample
/-
Work package X, part 6 — **non-vacuity and counter-examples** over `ℚ`
(`Fq2`, `Tq`, `cfgE 0` of `Proofs/RunClosedExample.lean`: a run of ten growing-season days that gets
past emergence, with positive canopy cover, root deepening and transpiration).

A. `inertEq_example`: a configuration `cfgI` that differs from `cfgE 0` in *every* inert parameter
   at once (thresholds, interval, schedule, `NetIrrSMT` of a constant-depth strategy; the whole
   fallow irrigation record; mulch factor and cover without mulches; bund height and bund water
   without bunds; the curve-number percentage without its flag; `Aer` / `Zmin` of the fallow crop;
   the water-table series without a water table; the overwritten fields of `W0`);
   `inert_run_example`: its ten-day run shows exactly what the run of `cfgE 0` shows.
B. neutral settings, alone and **in combination** (`neutral_combination`): mulches on at 0 % cover
   + constant depth 0 + different thresholds ≡ no mulches, rain-fed.
C. `maxIrr0_example`: the premises of `run_maxIrr0_rainfed` / `run_maxSeason0_rainfed` hold for a
   fixed-interval strategy.
D. counter-examples (findings):
   * `bund_1mm_not_neutral` — bunds of **exactly** 1 mm (`z_bund = 0.001` in the model's unit;
     `FieldMngt(bunds=True, z_bund=1e-6)` for the user) are *not* equivalent to no bunds:
     `rainfall_partition` tests `zBund < 0.001`, `infiltration` tests `zBund > 0.001` /
     `zBund <= 0.001` — at the knife edge the day's runoff is 0 instead of the curve-number
     runoff;
   * `maxIrr0_interval0_raises`, `maxIrr0_no_schedule_raises` — `MaxIrr = 0` / `MaxIrrSeason = 0`
     do not silence the exceptions of the strategy (`IrrInterval = 0`: `ZeroDivisionError`; a
     schedule without an entry for the day: `IndexError`), which the rain-fed run does not raise:
     the premise `CfgNoIrrError` is necessary.
-/

set_option linter.unusedSectionVars false
set_option linter.unusedVariables false
namespace Aqua
namespace InertRunExample
open DayExample FullDayExample RunExample RunClosedExample

/-! ## A. all inert parameters at once -/

def cfgI : RunCfg ℚ :=
  { cfgE 0 with
    W0 := { (cfgE 0).W0 with
            crop := { (cfgE 0).W0.crop with senescence := 7 },
            irr := { (cfgE 0).W0.irr with method := 3, depth := 77 },
            netIrrSMT := 3, wetSurf := 4, co2Cur := 5 },
    irr := { irr := { (cfgE 0).irr.irr with smt := (fun _ => 11), interval := 0 },
             netIrrSMT := 12, wetSurf := (cfgE 0).irr.wetSurf, sched := fun t => some (t : ℚ) },
    fallowIrr := { irr := { method := 2, smt := (fun _ => 1), appEff := 2, maxIrr := 3, interval := 0,
                            depth := 4, maxSeason := -5 },
                   netIrrSMT := 6, wetSurf := 7, sched := fun _ => some (-1) },
    fm := { fmq with zBund := 0.5, cnAdjPct := 30, fMulch := 0.9, mulchPct := 80 },
    fallowFm := { fmq with zBund := 0.25, cnAdjPct := -10, fMulch := 1, mulchPct := 100 },
    bundWater := 40,
    fallowCrop :=
      { cropq' with cw := { cropq'.cw with tr := { cropq'.cw.tr with aer := 99, zMin := 98 } } },
    zgw := fun t => (t : ℚ) }

theorem inertEq_example : InertEq (cfgE 0) cfgI :=
  { clock := rfl, waterTable := rfl, soil := rfl, evapTimeSteps := rfl, simOffSeason := rfl,
    co2Ref := rfl, zGerm := rfl, seasonCrop := fun _ => rfl, fallowCrop := rfl,
    co2Cur := fun _ => rfl, weather := fun _ => rfl, init := rfl,
    zgw := fun h => absurd h (by decide),
    thini := fun _ => rfl,
    bundWater := fun _ h => absurd h (by decide),
    irr := { method := rfl
             smt := fun h => absurd h (by decide)
             interval := fun h => absurd h (by decide)
             sched := fun h => absurd h (by decide)
             depth := fun _ => rfl
             netIrrSMT := fun h => absurd h (by decide)
             appEff := fun _ _ => rfl
             maxIrr := fun _ _ => rfl
             maxSeason := fun _ _ => rfl
             wetSurf := fun _ _ => rfl }
    fm := { srInhb := rfl, bunds := rfl, cnAdj := rfl, mulches := rfl
            zBund := fun h => absurd h (by decide)
            cnAdjPct := fun h => absurd h (by decide)
            fMulch := fun h => absurd h (by decide)
            mulchPct := fun h => absurd h (by decide) }
    fallowFm := { srInhb := rfl, bunds := rfl, cnAdj := rfl, mulches := rfl
                  zBund := fun h => absurd h (by decide)
                  cnAdjPct := fun h => absurd h (by decide)
                  fMulch := fun h => absurd h (by decide)
                  mulchPct := fun h => absurd h (by decide) } }

/-- the ten-day run of `cfgE 0` as a `runModel` call -/
theorem run10 : ∃ s0 s, runInit (cfgE 0) = .ok s0 ∧ runModel Fq2 Tq (cfgE 0) 10 s0 = .ok s ∧
    s.t = 10 ∧ s.daysRev.length = 10 ∧ 0 < s.day.cc := by
  have hc := check10_0
  unfold check10 at hc
  cases h0 : runInit (cfgE 0) with
  | error e => rw [h0] at hc; simp at hc
  | ok s0 =>
    rw [h0] at hc
    simp only at hc
    cases h1 : runStepsR Fq2 Tq (cfgE 0) 10 s0 with
    | error e => rw [h1] at hc; simp at hc
    | ok s =>
      rw [h1] at hc
      simp only [decide_eq_true_eq] at hc
      exact ⟨s0, s, rfl, by unfold runModel; simpa using h1, hc.1, hc.2.2.2.1, hc.2.2.2.2.1⟩

/-- **`run_inert` applies non-vacuously**: the run of the configuration with all inert parameters
changed starts from the same initialised model, succeeds, and shows the same four tables and the
same final state (with positive canopy cover after ten simulated days) -/
theorem inert_run_example : ∃ s0 s s', runInit (cfgE 0) = .ok s0 ∧ runInit cfgI = .ok s0 ∧
    runModel Fq2 Tq (cfgE 0) 10 s0 = .ok s ∧ runModel Fq2 Tq cfgI 10 s0 = .ok s' ∧
    s'.storageTable = s.storageTable ∧ s'.fluxTable = s.fluxTable ∧
    s'.growthTable = s.growthTable ∧ s'.summaryTable = s.summaryTable ∧ s'.day = s.day ∧
    s.daysRev.length = 10 ∧ 0 < s.day.cc := by
  obtain ⟨s0, s, h0, h1, _, hl, hcc⟩ := run10
  obtain ⟨s', h2, a, b, c, d, e, _⟩ := run_inert_tables inertEq_example h1
  exact ⟨s0, s, s', h0, by rw [runInit_inert inertEq_example, h0], h1, h2, a, b, c, d, e, hl, hcc⟩

/-- the day-level relation holds between the day parameters of the two configurations -/
example : DayInert (paramsOf (cfgE 0) 0 true) (paramsOf cfgI 0 true)
    { gs := true, tsc := 3, season := 0, rain := 20, et0 := 5, tmax := 25, tmin := 15, zGW := 0,
      sched := none, lastDay := false }
    { gs := true, tsc := 3, season := 0, rain := 20, et0 := 5, tmax := 25, tmin := 15, zGW := 0,
      sched := some 3, lastDay := false } :=
  { cx := rfl, zGerm := rfl, waterTable := rfl, soil := rfl, crop := rfl, evapTimeSteps := rfl,
    simOffSeason := rfl, co2Cur := rfl, co2Ref := rfl, day := rfl,
    irr := fun _ => (inertEq_example.irr.day 3),
    fm := inertEq_example.fm }

/-! ## B. neutral settings in combination -/

/-- mulches on at 0 % cover, constant irrigation depth 0 -/
def cfgN : RunCfg ℚ :=
  { cfgE 0 with fm := { fmq with mulches := true, mulchPct := 0 },
                irr := { (cfgE 0).irr with irr := { (cfgE 0).irr.irr with depth := 0 } } }

/-- no mulches (other mulch parameters), rain-fed (other thresholds and schedule) -/
def irrN' : IrrParams ℚ :=
  { (cfgE 0).irr.irr with
    method := 0, depth := 50, smt := (fun _ => 1), maxIrr := 3, appEff := 4, maxSeason := -1 }
def cfgN' : RunCfg ℚ :=
  { cfgE 0 with fm := { fmq with mulches := false, mulchPct := 35, fMulch := 0.7 },
                irr := { (cfgE 0).irr with irr := irrN', wetSurf := 12, sched := fun _ => some 8 } }

/-- **combination**: neutral mulches + neutral irrigation depth + inert parameters, by
transitivity of the run equalities -/
theorem neutral_combination (k : Nat) (s : RunState ℚ) :
    (runModel Fq2 Tq cfgN' k s).map RunState.view = (runModel Fq2 Tq cfgN k s).map RunState.view := by
  -- step 1: mulches at 0 % ≡ no mulches
  have e1 := run_mulch_neutral (F := Fq2) (T := Tq) (cfg := cfgN) (Or.inl rfl) k s
  -- step 2: depth 0 ≡ rain-fed
  have e2 := run_depth0_rainfed (F := Fq2) (T := Tq)
    (cfg := { cfgN with fm := { cfgN.fm with mulches := false } }) rfl rfl k s
  -- step 3: inert parameters of a rain-fed, mulch-free configuration
  have e3 : InertEq ({ cfgN with fm := { cfgN.fm with mulches := false } } : RunCfg ℚ).rainfed
      cfgN' :=
    { clock := rfl, waterTable := rfl, soil := rfl, evapTimeSteps := rfl, simOffSeason := rfl,
      co2Ref := rfl, zGerm := rfl, seasonCrop := fun _ => rfl, fallowCrop := rfl,
      co2Cur := fun _ => rfl, weather := fun _ => rfl, init := rfl,
      zgw := fun h => absurd h (by decide), thini := fun _ => rfl,
      bundWater := fun _ h => absurd h (by decide),
      irr := { method := rfl
               smt := fun h => absurd h (by decide)
               interval := fun h => absurd h (by decide)
               sched := fun h => absurd h (by decide)
               depth := fun h => absurd h (by decide)
               netIrrSMT := fun h => absurd h (by decide)
               appEff := fun h => absurd rfl h
               maxIrr := fun h => absurd rfl h
               maxSeason := fun h => absurd rfl h
               wetSurf := fun h => absurd rfl h }
      fm := { srInhb := rfl, bunds := rfl, cnAdj := rfl, mulches := rfl
              zBund := fun h => absurd h (by decide)
              cnAdjPct := fun h => absurd h (by decide)
              fMulch := fun h => absurd h (by decide)
              mulchPct := fun h => absurd h (by decide) }
      fallowFm := { srInhb := rfl, bunds := rfl, cnAdj := rfl, mulches := rfl
                    zBund := fun _ => rfl, cnAdjPct := fun _ _ _ => rfl
                    fMulch := fun _ => rfl, mulchPct := fun _ => rfl } }
  exact (run_inert (F := Fq2) (T := Tq) e3 k s).trans (e2.trans e1)

/-- the neutral configuration really runs: three days, growing season, irrigation 0 every day -/
theorem neutral_runs :
    (match runInit cfgN with
     | .error _ => false
     | .ok s0 =>
       match runModel Fq2 Tq cfgN 3 s0 with
       | .ok s => decide (s.t = 3 ∧ (s.fluxTable.map (·.irrDay)) = [0, 0, 0] ∧
           (s.daysRev.map (·.D.gs)) = [true, true, true])
       | .error _ => false) = true := by decide +kernel

/-! ## C. the premises of the `MaxIrr = 0` / `MaxIrrSeason = 0` theorems -/

/-- fixed interval of 3 days with `MaxIrr = 0` and `MaxIrrSeason = 0` -/
def irrX : IrrParams ℚ := { (cfgE 0).irr.irr with method := 2, maxIrr := 0, maxSeason := 0 }
def cfgX : RunCfg ℚ := { cfgE 0 with irr := { (cfgE 0).irr with irr := irrX } }

theorem maxIrr0_example (k : Nat) (s0 : RunState ℚ) (h0 : runInit cfgX = .ok s0) :
    (runModel Fq2 Tq cfgX.rainfed k s0).map RunState.view =
      (runModel Fq2 Tq cfgX k s0).map RunState.view := by
  have he : CfgNoIrrError cfgX :=
    ⟨by decide, by decide, fun _ => by decide, fun h => absurd h (by decide)⟩
  have hI : IrrInv s0.day := by
    unfold runInit at h0
    split at h0
    · cases h0
    · cases h0
      exact ⟨le_refl _, Nat.zero_le _⟩
  exact run_maxIrr0_rainfed he rfl k hI

example (k : Nat) (s0 : RunState ℚ) (hI : IrrInv s0.day) :
    (runModel Fq2 Tq cfgX.rainfed k s0).map RunState.view =
      (runModel Fq2 Tq cfgX k s0).map RunState.view :=
  run_maxSeason0_rainfed
    ⟨by decide, by decide, fun _ => by decide, fun h => absurd h (by decide)⟩ rfl k hI

/-! ## D. counter-examples -/

/-- bunds of exactly 1 mm / no bunds -/
def cfgB (b : Bool) : RunCfg ℚ := { cfgE 0 with fm := { fmq with bunds := b, zBund := 0.001 } }

/-- the runoff column after one day -/
def runoff1 (cfg : RunCfg ℚ) : Option (List ℚ) :=
  match runInit cfg with
  | .error _ => none
  | .ok s0 =>
    match runModel Fq2 Tq cfg 1 s0 with
    | .ok s => some (s.fluxTable.map (·.runoff))
    | .error _ => none

/-- **FINDING (knife edge)**: with bunds of exactly 1 mm the day has no runoff, without bunds the
curve-number runoff `7349521/3688380 ≈ 1.99 mm` of 20 mm rain — `run_low_bund` cannot be extended
to `zBund ≤ 0.001` -/
theorem bund_1mm_not_neutral :
    runoff1 (cfgB true) = some [0] ∧ runoff1 (cfgB false) = some [7349521 / 3688380] := by
  constructor <;> decide +kernel

/-- fixed interval with `IrrInterval = 0`, `MaxIrr = 0`, `MaxIrrSeason = 0` -/
def irrZ : IrrParams ℚ :=
  { (cfgE 0).irr.irr with method := 2, interval := 0, maxIrr := 0, maxSeason := 0 }
def cfgZ : RunCfg ℚ := { cfgE 0 with irr := { (cfgE 0).irr with irr := irrZ } }

/-- schedule strategy without an entry for the day, `MaxIrr = 0`, `MaxIrrSeason = 0` -/
def irrS : IrrParams ℚ := { (cfgE 0).irr.irr with method := 3, maxIrr := 0, maxSeason := 0 }
def cfgS : RunCfg ℚ := { cfgE 0 with irr := { (cfgE 0).irr with irr := irrS } }

def outcome1 (cfg : RunCfg ℚ) : Option String :=
  match runInit cfg with
  | .error e => some e
  | .ok s0 =>
    match runModel Fq2 Tq cfg 1 s0 with
    | .ok _ => none
    | .error e => some e

/-- **FINDING**: zero maxima do not silence a zero interval — the run raises, the rain-fed run
does not -/
theorem maxIrr0_interval0_raises :
    outcome1 cfgZ = some "E:zerodiv" ∧ outcome1 cfgZ.rainfed = none := by
  constructor <;> decide +kernel

/-- **FINDING**: … nor a schedule without an entry for the day -/
theorem maxIrr0_no_schedule_raises :
    outcome1 cfgS = some "E:index" ∧ outcome1 cfgS.rainfed = none := by
  constructor <;> decide +kernel

end InertRunExample
end Aqua

#print axioms Aqua.fullDayTrace_sim
#print axioms Aqua.fullDay_sim
#print axioms Aqua.fullDay_of_sims
#print axioms Aqua.fullDay_inert
#print axioms Aqua.run_sim
#print axioms Aqua.run_inert
#print axioms Aqua.run_inert_tables
#print axioms Aqua.run_inert_error
#print axioms Aqua.runInit_inert
#print axioms Aqua.run_mulch_neutral
#print axioms Aqua.run_fallow_mulch_neutral
#print axioms Aqua.run_low_bund
#print axioms Aqua.run_fallow_low_bund
#print axioms Aqua.run_cnAdj_zero
#print axioms Aqua.run_fallow_cnAdj_zero
#print axioms Aqua.run_depth0_rainfed
#print axioms Aqua.run_zero_schedule_rainfed
#print axioms Aqua.run_maxIrr0_rainfed
#print axioms Aqua.run_maxSeason0_rainfed
#print axioms Aqua.run_maxSeason0_summary
#print axioms Aqua.InertRunExample.inertEq_example
#print axioms Aqua.InertRunExample.inert_run_example
#print axioms Aqua.InertRunExample.neutral_combination
#print axioms Aqua.InertRunExample.neutral_runs
#print axioms Aqua.InertRunExample.maxIrr0_example
#print axioms Aqua.InertRunExample.bund_1mm_not_neutral
#print axioms Aqua.InertRunExample.maxIrr0_interval0_raises
#print axioms Aqua.InertRunExample.maxIrr0_no_schedule_raises
