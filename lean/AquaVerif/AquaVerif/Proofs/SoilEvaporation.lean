import AquaVerif.Model.SoilEvaporation
import AquaVerif.Proofs.Basic
import Mathlib.Algebra.Order.Field.Rat

set_option linter.unusedSectionVars false
set_option linter.unusedVariables false
namespace Aqua
variable {α : Type} [Field α] [LinearOrder α] [IsStrictOrderedRing α]

/-! ### generalities -/

theorem natNum_eq_cast (n : Nat) : (natNum n : α) = (n : α) := by
  induction n with
  | zero => simp [natNum]
  | succ n ih => simp [natNum, ih]

theorem natNum_nonneg (n : Nat) : (0 : α) ≤ natNum n := by
  rw [natNum_eq_cast]; exact Nat.cast_nonneg n

theorem natNum_pos {n : Nat} (h : n ≠ 0) : (0 : α) < natNum n := by
  rw [natNum_eq_cast]; exact Nat.cast_pos.mpr (Nat.pos_of_ne_zero h)

/-- the per-cell data no evaporation step touches -/
def cellFrame (x : Cell α) : Comp α × α × α × α := (x.c, x.fcAdj, x.flux, x.aer)

/-- every compartment has positive thickness -/
def PosDz (cs : List (Cell α)) : Prop := ∀ x ∈ cs, 0 < x.c.dz

theorem PosDz.of_frame {cs cs' : List (Cell α)} (h : cs'.map cellFrame = cs.map cellFrame)
    (hp : PosDz cs) : PosDz cs' := by
  intro x hx
  have : cellFrame x ∈ cs'.map cellFrame := List.mem_map_of_mem hx
  rw [h] at this
  obtain ⟨y, hy, hxy⟩ := List.mem_map.mp this
  have : y.c = x.c := congrArg Prod.fst hxy
  rw [← this]; exact hp y hy

theorem PosDz.of_inv {cs : List (Cell α)} (h : ∀ x ∈ cs, Cell.Inv x) : PosDz cs :=
  fun x hx => (h x hx).wf.dz_pos

/-! ### one extraction step -/

theorem takeCell_frame (z : α) (x : Cell α) (d : α) :
    cellFrame (takeCell z x d).cell = cellFrame x := by
  unfold takeCell; simp only []; split_ifs <;> rfl

theorem takeCell_dem (z : α) (x : Cell α) (d : α) :
    (takeCell z x d).dem = d - (takeCell z x d).taken := by
  unfold takeCell; simp only []; split_ifs <;> simp

theorem takeCell_dem_nonneg (z : α) (x : Cell α) (d : α) :
    0 ≤ (takeCell z x d).dem := by
  unfold takeCell; simp only []
  split_ifs with h1 h2 h2
  all_goals first | exact le_refl _ | (simp only []; linarith [not_le.mp ‹¬ _ ≤ _›])

theorem takeCell_taken_le (z : α) (x : Cell α) (d : α) :
    (takeCell z x d).taken ≤ d := by
  have := takeCell_dem_nonneg z x d
  rw [takeCell_dem] at this; linarith

theorem takeCell_water (z : α) (x : Cell α) (d : α) (hdz : 0 < x.c.dz) :
    (takeCell z x d).cell.water + (takeCell z x d).taken = x.water := by
  have h : x.c.dz ≠ 0 := ne_of_gt hdz
  unfold takeCell Cell.water; simp only []
  split_ifs <;> (simp only []; field_simp; ring)

/-- thanks to the clamp `AvW ≥ 0` a positive demand never takes a negative amount -/
theorem takeCell_taken_nonneg (z : α) (x : Cell α) (d : α) (hd : 0 < d) :
    0 ≤ (takeCell z x d).taken := by
  unfold takeCell; simp only []
  split_ifs with h1 h2 h2 <;> simp only []
  · exact hd.le
  · exact le_refl _
  · exact hd.le
  · exact not_lt.mp h1

theorem evapFactor_le_one (z : α) (c : Comp α) (hdz : 0 < c.dz) : evapFactor z c ≤ 1 := by
  unfold evapFactor
  split_ifs with h
  · have : 0 ≤ (c.dzsum - z) / c.dz := div_nonneg (sub_nonneg.mpr h.le) hdz.le
    linarith
  · exact le_refl _

/-- what is taken never exceeds the water above air dryness -/
theorem takeCell_taken_le_avail (z : α) (x : Cell α) (d : α) (hdz : 0 < x.c.dz)
    (hlo : x.c.thDry ≤ x.th) (hd : 0 ≤ d) :
    (takeCell z x d).taken ≤ 1000 * x.th * x.c.dz - 1000 * x.c.thDry * x.c.dz := by
  have hf := evapFactor_le_one z x.c hdz
  have hw : 0 ≤ 1000 * x.th * x.c.dz - 1000 * x.c.thDry * x.c.dz := by
    have : 0 ≤ (x.th - x.c.thDry) * x.c.dz := mul_nonneg (sub_nonneg.mpr hlo) hdz.le
    nlinarith
  have hav : (1000 * x.th * x.c.dz - 1000 * x.c.thDry * x.c.dz) * evapFactor z x.c
      ≤ 1000 * x.th * x.c.dz - 1000 * x.c.thDry * x.c.dz := by nlinarith
  unfold takeCell; simp only []
  split_ifs with h1 h2 h2 <;> simp only [] <;> linarith

theorem takeCell_inv (z : α) (x : Cell α) (d : α) (hx : x.Inv) (hd : 0 ≤ d)
    (ht : 0 ≤ (takeCell z x d).taken) : (takeCell z x d).cell.Inv := by
  have hdz := hx.wf.dz_pos
  have hw := takeCell_water z x d hdz
  have ha := takeCell_taken_le_avail z x d hdz hx.th_lo hd
  have hfr := takeCell_frame z x d
  have hc : (takeCell z x d).cell.c = x.c := congrArg Prod.fst hfr
  have hfc : (takeCell z x d).cell.fcAdj = x.fcAdj := congrArg (fun p => p.2.1) hfr
  unfold Cell.water at hw
  rw [hc] at hw
  have h1 : (takeCell z x d).cell.th * (1000 * x.c.dz) ≤ x.th * (1000 * x.c.dz) := by linarith
  have h2 : x.c.thDry * (1000 * x.c.dz) ≤ (takeCell z x d).cell.th * (1000 * x.c.dz) := by
    linarith
  have hp : (0:α) < 1000 * x.c.dz := by positivity
  have h1' := le_of_mul_le_mul_right h1 hp
  have h2' := le_of_mul_le_mul_right h2 hp
  exact { wf := by rw [hc]; exact hx.wf
          th_lo := by rw [hc]; exact h2'
          th_hi := by rw [hc]; exact le_trans h1' hx.th_hi
          fc_lo := by rw [hc, hfc]; exact hx.fc_lo
          fc_hi := by rw [hc, hfc]; exact hx.fc_hi }

/-! ### the extraction loop (stage 1 and stage 2) -/

theorem extractLoop_spec (z : α) (n : Nat) :
    ∀ (cs : List (Cell α)) (a : ExtAcc α) (cs' : List (Cell α)) (a' : ExtAcc α),
    extractLoop z n cs a = .ok (cs', a') → PosDz cs →
    cs'.map cellFrame = cs.map cellFrame ∧
    storage cs' + a'.esAct = storage cs + a.esAct ∧
    a'.esAct + a'.toExt = a.esAct + a.toExt ∧
    a'.toExt - a'.dem = a.toExt - a.dem ∧
    (0 ≤ a.dem → 0 ≤ a'.dem) ∧
    (a.neg = true → a'.neg = true) := by
  induction n with
  | zero =>
    intro cs a cs' a' h _
    simp only [extractLoop, Except.ok.injEq, Prod.mk.injEq] at h
    obtain ⟨rfl, rfl⟩ := h
    exact ⟨rfl, rfl, rfl, rfl, id, id⟩
  | succ n ih =>
    intro cs a cs' a' h hp
    unfold extractLoop at h
    by_cases hd : 0 < a.dem
    · simp only [hd, if_true] at h
      cases cs with
      | nil => simp at h
      | cons x xs =>
        simp only [] at h
        have hx : 0 < x.c.dz := hp x (List.mem_cons_self)
        have hxs : PosDz xs := fun y hy => hp y (List.mem_cons_of_mem _ hy)
        generalize hr : extractLoop z n xs _ = r at h
        cases r with
        | error e => simp at h
        | ok v =>
          obtain ⟨cs1, a1⟩ := v
          simp only [Except.ok.injEq, Prod.mk.injEq] at h
          obtain ⟨rfl, rfl⟩ := h
          obtain ⟨i1, i2, i3, i4, i5, i6⟩ := ih _ _ _ _ hr hxs
          have hw := takeCell_water z x a.dem hx
          have hdm := takeCell_dem z x a.dem
          have hnn := takeCell_dem_nonneg z x a.dem
          simp only [] at i2 i3 i4 i5 i6
          refine ⟨?_, ?_, ?_, ?_, ?_, ?_⟩
          · simp only [List.map_cons, i1, takeCell_frame]
          · simp only [storage_cons]; linarith
          · linarith
          · rw [hdm] at i4; linarith
          · intro _; exact i5 hnn
          · intro hn; apply i6; simp [hn]
    · simp only [hd, if_false, Except.ok.injEq, Prod.mk.injEq] at h
      obtain ⟨rfl, rfl⟩ := h
      exact ⟨rfl, rfl, rfl, rfl, id, id⟩

/-- if the ghost flag is still clear at the end, no step took a negative amount: `EsAct` grew
and the cell invariant is preserved -/
theorem extractLoop_of_noNeg (z : α) (n : Nat) :
    ∀ (cs : List (Cell α)) (a : ExtAcc α) (cs' : List (Cell α)) (a' : ExtAcc α),
    extractLoop z n cs a = .ok (cs', a') → a'.neg = false →
    a.neg = false ∧ (PosDz cs → a.esAct ≤ a'.esAct) ∧
    ((∀ x ∈ cs, Cell.Inv x) → ∀ x ∈ cs', Cell.Inv x) := by
  induction n with
  | zero =>
    intro cs a cs' a' h hn
    simp only [extractLoop, Except.ok.injEq, Prod.mk.injEq] at h
    obtain ⟨rfl, rfl⟩ := h
    exact ⟨hn, fun _ => le_refl _, id⟩
  | succ n ih =>
    intro cs a cs' a' h hn
    unfold extractLoop at h
    by_cases hd : 0 < a.dem
    · simp only [hd, if_true] at h
      cases cs with
      | nil => simp at h
      | cons x xs =>
        simp only [] at h
        generalize hr : extractLoop z n xs _ = r at h
        cases r with
        | error e => simp at h
        | ok v =>
          obtain ⟨cs1, a1⟩ := v
          simp only [Except.ok.injEq, Prod.mk.injEq] at h
          obtain ⟨rfl, rfl⟩ := h
          obtain ⟨j1, j2, j3⟩ := ih _ _ _ _ hr hn
          simp only [Bool.or_eq_false_iff, decide_eq_false_iff_not, not_lt] at j1
          refine ⟨j1.1, ?_, ?_⟩
          · intro hp
            have hxs : PosDz xs := fun y hy => hp y (List.mem_cons_of_mem _ hy)
            have := j2 hxs
            simp only [] at this
            linarith [j1.2]
          · intro hinv y hy
            rcases List.mem_cons.mp hy with rfl | hy
            · exact takeCell_inv z x a.dem (hinv x List.mem_cons_self) hd.le j1.2
            · exact j3 (fun w hw => hinv w (List.mem_cons_of_mem _ hw)) y hy
    · simp only [hd, if_false, Except.ok.injEq, Prod.mk.injEq] at h
      obtain ⟨rfl, rfl⟩ := h
      exact ⟨hn, fun _ => le_refl _, id⟩

/-- the (clamped) loop never sets the ghost flag -/
theorem extractLoop_noNeg (z : α) (n : Nat) :
    ∀ (cs : List (Cell α)) (a : ExtAcc α) (cs' : List (Cell α)) (a' : ExtAcc α),
    extractLoop z n cs a = .ok (cs', a') → a.neg = false → a'.neg = false := by
  induction n with
  | zero =>
    intro cs a cs' a' h hn
    simp only [extractLoop, Except.ok.injEq, Prod.mk.injEq] at h
    obtain ⟨rfl, rfl⟩ := h
    exact hn
  | succ n ih =>
    intro cs a cs' a' h hn
    unfold extractLoop at h
    by_cases hd : 0 < a.dem
    · simp only [hd, if_true] at h
      cases cs with
      | nil => simp at h
      | cons x xs =>
        simp only [] at h
        generalize hr : extractLoop z n xs _ = r at h
        cases r with
        | error e => simp at h
        | ok v =>
          obtain ⟨cs1, a1⟩ := v
          simp only [Except.ok.injEq, Prod.mk.injEq] at h
          obtain ⟨rfl, rfl⟩ := h
          apply ih _ _ _ _ hr
          have := takeCell_taken_nonneg z x a.dem hd
          simp only [hn, Bool.false_or, decide_eq_false_iff_not, not_lt]
          exact this
    · simp only [hd, if_false, Except.ok.injEq, Prod.mk.injEq] at h
      obtain ⟨rfl, rfl⟩ := h
      exact hn

theorem extractLoop_nodem (z : α) (n : Nat) (cs : List (Cell α)) (a : ExtAcc α)
    (hd : a.dem ≤ 0) : extractLoop z n cs a = .ok (cs, a) := by
  cases n with
  | zero => rfl
  | succ n => unfold extractLoop; simp only [not_lt.mpr hd, if_false]

/-! ### stage 1 -/

theorem evapStage1_spec (F : Fn α) (P : EvapParams α) (cells : List (Cell α)) (s : EvapSurf α)
    (esPot esAct : α) (g : Stg α) (h : evapStage1 F P cells s esPot esAct = .ok g)
    (hp : PosDz cells) :
    g.cells.map cellFrame = cells.map cellFrame ∧
    storage g.cells + g.esAct = storage cells + esAct ∧
    g.esAct + g.toExt = esPot ∧
    (0 ≤ esPot - esAct → 0 ≤ g.toExt) ∧
    g.neg = false ∧ esAct ≤ g.esAct ∧
    ((∀ x ∈ cells, Cell.Inv x) → ∀ x ∈ g.cells, Cell.Inv x) := by
  unfold evapStage1 at h
  simp only [] at h
  by_cases h1 : 0 < pmin (esPot - esAct) s.wSurf
  · simp only [h1, if_true] at h
    generalize hr : extractLoop P.zMin _ cells _ = r at h
    cases r with
    | error e => simp at h
    | ok v =>
      obtain ⟨cs1, a1⟩ := v
      obtain ⟨i1, i2, i3, i4, i5, _⟩ := extractLoop_spec _ _ _ _ _ _ hr hp
      have hn := extractLoop_noNeg _ _ _ _ _ _ hr rfl
      obtain ⟨_, j2, j3⟩ := extractLoop_of_noNeg _ _ _ _ _ _ hr hn
      simp only [] at i2 i3 i4 i5 j2
      have hmin : pmin (esPot - esAct) s.wSurf ≤ esPot - esAct := by
        rw [pmin_eq]; exact min_le_left _ _
      have hdem := i5 h1.le
      have key : g.cells = cs1 ∧ g.esAct = a1.esAct ∧ g.toExt = a1.toExt ∧ g.neg = a1.neg := by
        simp only [] at h
        split_ifs at h <;>
          first
          | (simp only [Except.ok.injEq] at h; subst h; exact ⟨rfl, rfl, rfl, rfl⟩)
          | (generalize hw : evapLayerWater cs1 s.evapZ = w at h
             cases w with
             | error e => simp at h
             | ok w => simp only [Except.ok.injEq] at h; subst h; exact ⟨rfl, rfl, rfl, rfl⟩)
      obtain ⟨k1, k2, k3, k4⟩ := key
      rw [k1, k2, k3, k4]
      refine ⟨i1, i2, by linarith, fun _ => by linarith, hn, j2 hp, j3⟩
  · simp only [h1, if_false, Except.ok.injEq] at h
    subst h
    exact ⟨rfl, rfl, by show esAct + (esPot - esAct) = esPot; ring, id, rfl, le_refl _, id⟩

/-! ### stage 2 -/

theorem krOf_le_one (F : Fn α) (P : EvapParams α) (w : α) : krOf F P w ≤ 1 := by
  unfold krOf; simp only []
  split_ifs with h
  · exact le_refl _
  · exact not_lt.mp h

theorem stage2Step_spec (F : Fn α) (P : EvapParams α) (w2 edt : α) (st st' : SubSt α)
    (h : stage2Step F P w2 edt st = .ok st') (hp : PosDz st.cells) :
    st'.cells.map cellFrame = st.cells.map cellFrame ∧
    storage st'.cells + st'.esAct = storage st.cells + st.esAct ∧
    st'.esAct + st'.toExt = st.esAct + st.toExt ∧
    (0 ≤ edt → st.toExt - edt ≤ st'.toExt) ∧
    (st.neg = true → st'.neg = true) ∧
    (st'.neg = false → st.neg = false ∧ st.esAct ≤ st'.esAct ∧
      ((∀ x ∈ st.cells, Cell.Inv x) → ∀ x ∈ st'.cells, Cell.Inv x)) := by
  unfold stage2Step at h
  generalize hw : evapLayerWater st.cells st.evapZ = w at h
  cases w with
  | error e => simp at h
  | ok w =>
    simp only [] at h
    generalize hex : (if P.zMin < P.zMax then _ else _ : Except String (α × α)) = ex at h
    cases ex with
    | error e => simp at h
    | ok zw =>
      obtain ⟨z, wrel⟩ := zw
      simp only [] at h
      generalize hr : extractLoop z _ st.cells _ = r at h
      cases r with
      | error e => simp at h
      | ok v =>
        obtain ⟨cs1, a1⟩ := v
        simp only [Except.ok.injEq] at h
        subst h
        simp only []
        obtain ⟨i1, i2, i3, i4, i5, i6⟩ := extractLoop_spec _ _ _ _ _ _ hr hp
        simp only [] at i2 i3 i4 i5 i6
        refine ⟨i1, i2, i3, ?_, i6, ?_⟩
        · intro hedt
          have hk : krOf F P wrel * edt ≤ edt := by
            have := mul_le_mul_of_nonneg_right (krOf_le_one F P wrel) hedt
            linarith
          by_cases hd : 0 ≤ krOf F P wrel * edt
          · have := i5 hd; linarith
          · have hno := extractLoop_nodem z (countBelow z st.cells + 1 + 1) st.cells
              { dem := krOf F P wrel * edt, esAct := st.esAct, toExt := st.toExt, neg := st.neg }
              (le_of_lt (not_le.mp hd))
            rw [hno] at hr
            simp only [Except.ok.injEq, Prod.mk.injEq] at hr
            obtain ⟨_, rfl⟩ := hr
            simp only []; linarith
        · intro hn
          obtain ⟨j1, j2, j3⟩ := extractLoop_of_noNeg _ _ _ _ _ _ hr hn
          exact ⟨j1, j2 hp, j3⟩

theorem stage2Loop_spec (F : Fn α) (P : EvapParams α) (w2 edt : α) (n : Nat) :
    ∀ (st st' : SubSt α), stage2Loop F P w2 edt n st = .ok st' → PosDz st.cells →
    st'.cells.map cellFrame = st.cells.map cellFrame ∧
    storage st'.cells + st'.esAct = storage st.cells + st.esAct ∧
    st'.esAct + st'.toExt = st.esAct + st.toExt ∧
    (0 ≤ edt → natNum n * edt ≤ st.toExt → 0 ≤ st'.toExt) ∧
    (st.neg = true → st'.neg = true) ∧
    (st'.neg = false → st.neg = false ∧ st.esAct ≤ st'.esAct ∧
      ((∀ x ∈ st.cells, Cell.Inv x) → ∀ x ∈ st'.cells, Cell.Inv x)) := by
  induction n with
  | zero =>
    intro st st' h _
    simp only [stage2Loop, Except.ok.injEq] at h
    subst h
    refine ⟨rfl, rfl, rfl, ?_, id, fun hn => ⟨hn, le_refl _, id⟩⟩
    intro _ h0; simpa [natNum] using h0
  | succ n ih =>
    intro st st' h hp
    unfold stage2Loop at h
    generalize hs : stage2Step F P w2 edt st = r at h
    cases r with
    | error e => simp at h
    | ok s1 =>
      simp only [] at h
      obtain ⟨i1, i2, i3, i4, i5, i6⟩ := stage2Step_spec F P w2 edt st s1 hs hp
      have hp1 : PosDz s1.cells := PosDz.of_frame i1 hp
      obtain ⟨k1, k2, k3, k4, k5, k6⟩ := ih s1 st' h hp1
      refine ⟨k1.trans i1, by linarith, by linarith, ?_, fun hn => k5 (i5 hn), ?_⟩
      · intro hedt hle
        apply k4 hedt
        have := i4 hedt
        simp only [natNum] at hle
        linarith
      · intro hn
        obtain ⟨m1, m2, m3⟩ := k6 hn
        obtain ⟨l1, l2, l3⟩ := i6 m1
        exact ⟨l1, le_trans l2 m2, fun hinv => m3 (l3 hinv)⟩

theorem evapStage2_spec (F : Fn α) (P : EvapParams α) (g g' : Stg α)
    (h : evapStage2 F P g = .ok g') (hp : PosDz g.cells) :
    g'.cells.map cellFrame = g.cells.map cellFrame ∧
    storage g'.cells + g'.esAct = storage g.cells + g.esAct ∧
    g'.esAct + g'.toExt = g.esAct + g.toExt ∧
    (0 ≤ g.toExt → 0 ≤ g'.toExt) ∧
    (g'.neg = false → g.neg = false ∧ g.esAct ≤ g'.esAct ∧
      ((∀ x ∈ g.cells, Cell.Inv x) → ∀ x ∈ g'.cells, Cell.Inv x)) := by
  unfold evapStage2 at h
  by_cases h1 : 0 < g.toExt
  · simp only [h1, if_true] at h
    by_cases h0 : P.steps = 0
    · simp [h0] at h
    · simp only [h0, if_false] at h
      generalize hr : stage2Loop F P _ _ P.steps _ = r at h
      cases r with
      | error e => simp at h
      | ok st =>
        simp only [Except.ok.injEq] at h
        subst h
        obtain ⟨k1, k2, k3, k4, _, k6⟩ := stage2Loop_spec _ _ _ _ _ _ _ hr hp
        simp only [] at k1 k2 k3 k4 k6 ⊢
        have hpos : (0:α) < natNum P.steps := natNum_pos h0
        refine ⟨k1, k2, k3, fun _ => ?_, k6⟩
        apply k4 (div_nonneg h1.le hpos.le)
        rw [mul_div_cancel₀ _ (ne_of_gt hpos)]
  · simp only [h1, if_false, Except.ok.injEq] at h
    subst h
    exact ⟨rfl, rfl, rfl, id, fun hn => ⟨hn, le_refl _, id⟩⟩

/-! since repo fix 9c2fed8 stage 2 clamps `AvW` like stage 1: the ghost flag stays clear -/

theorem stage2Step_noNeg (F : Fn α) (P : EvapParams α) (w2 edt : α) (st st' : SubSt α)
    (h : stage2Step F P w2 edt st = .ok st') (hn : st.neg = false) : st'.neg = false := by
  unfold stage2Step at h
  generalize hw : evapLayerWater st.cells st.evapZ = w at h
  cases w with
  | error e => simp at h
  | ok w =>
    simp only [] at h
    generalize hex : (if P.zMin < P.zMax then _ else _ : Except String (α × α)) = ex at h
    cases ex with
    | error e => simp at h
    | ok zw =>
      obtain ⟨z, wrel⟩ := zw
      simp only [] at h
      generalize hr : extractLoop z _ st.cells _ = r at h
      cases r with
      | error e => simp at h
      | ok v =>
        obtain ⟨cs1, a1⟩ := v
        simp only [Except.ok.injEq] at h
        subst h
        exact extractLoop_noNeg _ _ _ _ _ _ hr hn

theorem stage2Loop_noNeg (F : Fn α) (P : EvapParams α) (w2 edt : α) (n : Nat) :
    ∀ (st st' : SubSt α), stage2Loop F P w2 edt n st = .ok st' → st.neg = false →
    st'.neg = false := by
  induction n with
  | zero =>
    intro st st' h hn
    simp only [stage2Loop, Except.ok.injEq] at h
    subst h; exact hn
  | succ n ih =>
    intro st st' h hn
    unfold stage2Loop at h
    generalize hs : stage2Step F P w2 edt st = r at h
    cases r with
    | error e => simp at h
    | ok s1 =>
      simp only [] at h
      exact ih s1 st' h (stage2Step_noNeg F P w2 edt st s1 hs hn)

theorem evapStage2_noNeg (F : Fn α) (P : EvapParams α) (g g' : Stg α)
    (h : evapStage2 F P g = .ok g') (hn : g.neg = false) : g'.neg = false := by
  unfold evapStage2 at h
  by_cases h1 : 0 < g.toExt
  · simp only [h1, if_true] at h
    by_cases h0 : P.steps = 0
    · simp [h0] at h
    · simp only [h0, if_false] at h
      generalize hr : stage2Loop F P _ _ P.steps _ = r at h
      cases r with
      | error e => simp at h
      | ok st =>
        simp only [Except.ok.injEq] at h
        subst h
        exact stage2Loop_noNeg _ _ _ _ _ _ _ hr hn
  · simp only [h1, if_false, Except.ok.injEq] at h
    subst h; exact hn

/-! ### ponded water and the entry point -/

theorem pondEvap_spec (P : EvapParams α) (e p : α) (s : EvapSurf α) :
    (pondEvap P e p s).1 + (pondEvap P e p s).2.1 = p ∧
    ((p ≤ 0 → 0 ≤ e) → 0 ≤ e - (pondEvap P e p s).1) ∧
    ((e < p → 0 ≤ e) → 0 ≤ (pondEvap P e p s).1) ∧
    (0 ≤ p → 0 ≤ (pondEvap P e p s).2.1 ∧ (0 ≤ e → (pondEvap P e p s).2.1 ≤ p)) := by
  unfold pondEvap
  split_ifs with h1 h2
  · exact ⟨by simp, fun _ => by simp, fun h => h h2,
      fun _ => ⟨by simpa using h2.le, fun he => by simpa using he⟩⟩
  · exact ⟨by simp, fun _ => by simpa using not_lt.mp h2, fun _ => h1.le,
      fun hp => ⟨le_refl _, fun _ => hp⟩⟩
  · exact ⟨by simp, fun h => by simpa using h (not_lt.mp h1), fun _ => le_refl _,
      fun hp => ⟨hp, fun _ => le_refl _⟩⟩

/-- everything the lemmas below need, in one statement about a successful call -/
theorem soilEvap_core (F : Fn α) (P : EvapParams α) (S : EvapState α) (cells : List (Cell α))
    (D : EvapDay α) (out : EvapOut α) (h : soilEvaporation F P S cells D = .ok out)
    (hp : PosDz cells) :
    out.cells.map cellFrame = cells.map cellFrame ∧
    storage out.cells + out.pond + out.esAct = storage cells + S.pond ∧
    out.epot = out.esPot ∧
    (∃ b, esPotential F P S D = .ok (out.esPot, b)) ∧
    ((S.pond ≤ 0 → 0 ≤ out.esPot) → out.esAct ≤ out.esPot) ∧
    out.negTake = false ∧
    ((out.esPot < S.pond → 0 ≤ out.esPot) → 0 ≤ out.esAct) ∧
    ((∀ x ∈ cells, Cell.Inv x) → ∀ x ∈ out.cells, Cell.Inv x) ∧
    (0 ≤ S.pond → 0 ≤ out.pond ∧ (0 ≤ out.esPot → out.pond ≤ S.pond)) := by
  unfold soilEvaporation at h
  generalize hri : evapReinit F P cells D.tsc S.dap _ = ri at h
  cases ri with
  | error e => simp at h
  | ok sb =>
    obtain ⟨s0, b0⟩ := sb
    simp only [] at h
    generalize hep : esPotential F P S D = ep at h
    cases ep with
    | error e => simp at h
    | ok eb =>
      obtain ⟨esPot, b2⟩ := eb
      simp only [] at h
      obtain ⟨q1, q2, q3, q4⟩ := pondEvap_spec P esPot S.pond (evapRefresh P D s0).1
      generalize hpe : pondEvap P esPot S.pond (evapRefresh P D s0).1 = pe at h q1 q2 q3 q4
      obtain ⟨e0, pond', s2, b3⟩ := pe
      simp only [] at h q1 q2 q3 q4
      generalize hs1 : evapStage1 F P cells s2 esPot e0 = r1 at h
      cases r1 with
      | error e => simp at h
      | ok g1 =>
        simp only [] at h
        generalize hs2 : evapStage2 F P g1 = r2 at h
        cases r2 with
        | error e => simp at h
        | ok g2 =>
          simp only [Except.ok.injEq] at h
          subst h
          simp only []
          obtain ⟨a1, a2, a3, a4, a5, a6, a7⟩ := evapStage1_spec F P cells s2 esPot e0 g1 hs1 hp
          have hp1 : PosDz g1.cells := PosDz.of_frame a1 hp
          obtain ⟨c1, c2, c3, c4, c5⟩ := evapStage2_spec F P g1 g2 hs2 hp1
          have hn : g2.neg = false := evapStage2_noNeg F P g1 g2 hs2 a5
          obtain ⟨_, d2, d3⟩ := c5 hn
          refine ⟨c1.trans a1, by linarith, trivial, ⟨b2, rfl⟩, ?_, hn, ?_, ?_, q4⟩
          · intro hpre
            have := c4 (a4 (q2 hpre))
            linarith
          · intro hpre
            have := q3 hpre
            linarith
          · intro hinv
            exact d3 (a7 hinv)

/-! ### potential evaporation -/

/-- the withered-canopy adjustment is active (`tAdj > Senescence and CCxAct > 0`) -/
def SenActive (P : EvapParams α) (S : EvapState α) (tAdj : α) : Prop :=
  P.senescence < tAdj ∧ 0 < S.ccxAct

/-- the value clamped into `[max m0 0, M]` (and optionally capped by `M` once more) is `≥ 0` -/
theorem clampAux (M e m0 : α) (pm : Bool) (hM : 0 ≤ M) :
    0 ≤ (if pm = true then
          (if M < (if e < (if m0 < 0 then 0 else m0) then (if m0 < 0 then 0 else m0)
                    else if M < e then M else e) then M
           else (if e < (if m0 < 0 then 0 else m0) then (if m0 < 0 then 0 else m0)
                    else if M < e then M else e))
         else (if e < (if m0 < 0 then 0 else m0) then (if m0 < 0 then 0 else m0)
                    else if M < e then M else e)) := by
  have hmin : 0 ≤ (if m0 < 0 then 0 else m0) := by
    split_ifs with c
    · exact le_refl _
    · exact not_lt.mp c
  generalize (if m0 < 0 then 0 else m0) = m at hmin ⊢
  have hX : 0 ≤ (if e < m then m else if M < e then M else e) := by
    split_ifs with c1 c2
    · exact hmin
    · exact hM
    · exact le_trans hmin (not_lt.mp c1)
  generalize (if e < m then m else if M < e then M else e) = X at hX ⊢
  split_ifs <;> assumption

theorem esPotGrow_nonneg (F : Fn α) (P : EvapParams α) (S : EvapState α) (D : EvapDay α) (tAdj : α)
    (hk : 0 ≤ P.kex) (he : 0 ≤ D.et0)
    (hcc : ¬ SenActive P S tAdj → S.ccAdj ≤ 1)
    (hmax : SenActive P S tAdj ∨ S.prematSenes = true → S.ccxW * (P.fwcc / 100) ≤ 1) :
    0 ≤ (esPotGrow F P S D tAdj).1 := by
  have hke : 0 ≤ P.kex * D.et0 := mul_nonneg hk he
  have hM : SenActive P S tAdj ∨ S.prematSenes = true →
      0 ≤ P.kex * D.et0 * (1 - S.ccxW * (P.fwcc / 100)) := fun h =>
    mul_nonneg hke (sub_nonneg.mpr (hmax h))
  have h0 : ¬ SenActive P S tAdj → 0 ≤ P.kex * (1 - S.ccAdj) * D.et0 := fun h =>
    mul_nonneg (mul_nonneg hk (sub_nonneg.mpr (hcc h))) he
  unfold esPotGrow
  simp only []
  by_cases hs : P.senescence < tAdj ∧ 0 < S.ccxAct
  · have hM' := hM (Or.inl hs)
    simp only [hs, and_self, decide_true, if_true]
    exact clampAux _ _ _ _ hM'
  · have h0' := h0 hs
    simp only [hs, decide_false, Bool.false_eq_true, if_false]
    split_ifs with c1 c2
    · exact hM (Or.inr c1)
    · exact h0'
    · exact h0'

theorem esPotAdjust_nonneg (P : EvapParams α) (S : EvapState α) (D : EvapDay α) (e : α)
    (he : 0 ≤ e)
    (hmul : P.mulches = true → S.pond < 0.000001 → P.fMulch * (P.mulchPct / 100) ≤ 1)
    (hwet : 0 < D.irr → P.irrMethod ≠ 4 → 0 ≤ P.wetSurf) :
    0 ≤ (esPotAdjust P S D e).1 := by
  unfold esPotAdjust
  simp only [pmin_eq]
  apply le_min
  · split_ifs with c
    · simp only [Bool.and_eq_true, decide_eq_true_eq] at c
      have := hwet c.1.1 c.1.2
      positivity
    · exact he
  · split_ifs with c
    · simp only [Bool.and_eq_true, decide_eq_true_eq] at c
      exact mul_nonneg he (sub_nonneg.mpr (hmul c.2 c.1))
    · exact he

/-- the adjusted time the Python binds, when it binds one -/
def tAdjOf (P : EvapParams α) (S : EvapState α) : α :=
  if P.calendarType = 1 then S.dap - S.delayedCDs else S.gddCum - S.delayedGDDs

/-- premises under which the potential soil evaporation is non-negative -/
structure EsPotPre (P : EvapParams α) (S : EvapState α) (D : EvapDay α) : Prop where
  kex_nn  : 0 ≤ P.kex
  et0_nn  : 0 ≤ D.et0
  /-- `CCadj ≤ 1` is needed exactly in the growing season while the withered-canopy branch is off
  (in that branch the clamp `EsPotMin ≥ 0` rescues the sign) -/
  ccAdj_le : D.growingSeason = true → ¬ SenActive P S (tAdjOf P S) → S.ccAdj ≤ 1
  /-- `EsPotMax ≥ 0` is needed where `EsPot` can be capped by it -/
  ccxW_le : D.growingSeason = true → SenActive P S (tAdjOf P S) ∨ S.prematSenes = true →
    S.ccxW * (P.fwcc / 100) ≤ 1
  mulch_le : P.mulches = true → S.pond < 0.000001 → P.fMulch * (P.mulchPct / 100) ≤ 1
  wet_nn : 0 < D.irr → P.irrMethod ≠ 4 → 0 ≤ P.wetSurf

theorem esPotential_nonneg (F : Fn α) (P : EvapParams α) (S : EvapState α) (D : EvapDay α)
    (e : α) (b : Nat) (h : esPotential F P S D = .ok (e, b)) (pre : EsPotPre P S D) : 0 ≤ e := by
  unfold esPotential at h
  generalize hb : esPotBase F P S D = r at h
  cases r with
  | error e => simp at h
  | ok eb =>
    obtain ⟨e0, b0⟩ := eb
    simp only [Except.ok.injEq, Prod.mk.injEq] at h
    obtain ⟨rfl, _⟩ := h
    apply esPotAdjust_nonneg P S D e0 _ pre.mulch_le pre.wet_nn
    unfold esPotBase at hb
    by_cases hg : D.growingSeason = true
    · simp only [hg, if_true] at hb
      by_cases c1 : P.calendarType = 1
      · simp only [c1, if_true, Except.ok.injEq] at hb
        have ht : tAdjOf P S = S.dap - S.delayedCDs := by simp [tAdjOf, c1]
        have := esPotGrow_nonneg F P S D (S.dap - S.delayedCDs) pre.kex_nn pre.et0_nn
          (by rw [← ht]; exact pre.ccAdj_le hg) (by rw [← ht]; exact pre.ccxW_le hg)
        rw [hb] at this; exact this
      · by_cases c2 : P.calendarType = 2
        · rw [if_neg c1, if_pos c2] at hb; simp only [Except.ok.injEq] at hb
          have ht : tAdjOf P S = S.gddCum - S.delayedGDDs := by simp [tAdjOf, c1]
          have := esPotGrow_nonneg F P S D (S.gddCum - S.delayedGDDs) pre.kex_nn pre.et0_nn
            (by rw [← ht]; exact pre.ccAdj_le hg) (by rw [← ht]; exact pre.ccxW_le hg)
          rw [hb] at this; exact this
        · rw [if_neg c1, if_neg c2] at hb; simp at hb
    · rw [if_neg hg] at hb; simp only [Except.ok.injEq, Prod.mk.injEq] at hb
      obtain ⟨rfl, _⟩ := hb
      exact mul_nonneg pre.kex_nn pre.et0_nn

/-- converse witness: canopy cover above 1 in the growing season, before senescence, without
mulches, premature senescence or irrigation, makes the potential evaporation negative -/
theorem esPotential_neg_of_ccAdj_gt_one (F : Fn α) (P : EvapParams α) (S : EvapState α)
    (D : EvapDay α) (e : α) (b : Nat) (h : esPotential F P S D = .ok (e, b))
    (hg : D.growingSeason = true) (hsen : ¬ SenActive P S (tAdjOf P S))
    (hpm : S.prematSenes = false) (hmu : P.mulches = false) (hirr : D.irr ≤ 0)
    (hk : 0 < P.kex) (he : 0 < D.et0) (hcc : 1 < S.ccAdj) : e < 0 := by
  have hneg : P.kex * (1 - S.ccAdj) * D.et0 < 0 := by
    have : P.kex * (1 - S.ccAdj) < 0 := mul_neg_of_pos_of_neg hk (by linarith)
    exact mul_neg_of_neg_of_pos this he
  have hgrow : ∀ t, ¬ SenActive P S t → (esPotGrow F P S D t).1 = P.kex * (1 - S.ccAdj) * D.et0 := by
    intro t ht
    unfold SenActive at ht
    unfold esPotGrow
    simp only [ht, hpm, decide_false, Bool.false_eq_true, if_false]
  have hadj : ∀ x, (esPotAdjust P S D x).1 = x := by
    intro x
    unfold esPotAdjust
    simp only [hmu, Bool.and_false, Bool.false_eq_true, if_false, not_lt.mpr hirr, false_and,
      decide_false, Bool.false_and, pmin_eq, min_self]
  unfold esPotential at h
  generalize hb : esPotBase F P S D = r at h
  cases r with
  | error e => simp at h
  | ok eb =>
    obtain ⟨e0, b0⟩ := eb
    simp only [Except.ok.injEq, Prod.mk.injEq] at h
    obtain ⟨rfl, _⟩ := h
    rw [hadj]
    unfold esPotBase at hb
    simp only [hg, if_true] at hb
    by_cases c1 : P.calendarType = 1
    · simp only [c1, if_true, Except.ok.injEq] at hb
      have ht : tAdjOf P S = S.dap - S.delayedCDs := by simp [tAdjOf, c1]
      have := hgrow _ (ht ▸ hsen)
      rw [hb] at this; simp only [] at this; rw [this]; exact hneg
    · by_cases c2 : P.calendarType = 2
      · rw [if_neg c1, if_pos c2] at hb; simp only [Except.ok.injEq] at hb
        have ht : tAdjOf P S = S.gddCum - S.delayedGDDs := by simp [tAdjOf, c1]
        have := hgrow _ (ht ▸ hsen)
        rw [hb] at this; simp only [] at this; rw [this]; exact hneg
      · rw [if_neg c1, if_neg c2] at hb; simp at hb

/-! ### the lemmas of the work package

All are statements about a successful call on a profile whose compartments have positive
thickness (`PosDz`, implied by `Cell.Inv`). -/

section Main
variable (F : Fn α) (P : EvapParams α) (S : EvapState α) (cells : List (Cell α)) (D : EvapDay α)
  (out : EvapOut α)

/-- 1. water balance: what leaves the soil and the ponded layer is exactly `EsAct` -/
theorem soilEvap_balance (h : soilEvaporation F P S cells D = .ok out) (hp : PosDz cells) :
    storage out.cells + out.pond + out.esAct = storage cells + S.pond :=
  (soilEvap_core F P S cells D out h hp).2.1

/-- 2. frame: only `th` changes -/
theorem soilEvap_frame (h : soilEvaporation F P S cells D = .ok out) (hp : PosDz cells) :
    out.cells.length = cells.length ∧
    out.cells.map (·.c) = cells.map (·.c) ∧
    out.cells.map (·.fcAdj) = cells.map (·.fcAdj) ∧
    out.cells.map (·.flux) = cells.map (·.flux) ∧
    out.cells.map (·.aer) = cells.map (·.aer) := by
  have hf := (soilEvap_core F P S cells D out h hp).1
  have hl : out.cells.length = cells.length := by
    simpa using congrArg List.length hf
  refine ⟨hl, ?_, ?_, ?_, ?_⟩
  · simpa [List.map_map, Function.comp_def, cellFrame] using congrArg (List.map (fun p => p.1)) hf
  · simpa [List.map_map, Function.comp_def, cellFrame] using congrArg (List.map (fun p => p.2.1)) hf
  · simpa [List.map_map, Function.comp_def, cellFrame] using congrArg (List.map (fun p => p.2.2.1)) hf
  · simpa [List.map_map, Function.comp_def, cellFrame] using congrArg (List.map (fun p => p.2.2.2)) hf

/-- `Epot` returned for the next day's irrigation is `EsPot` -/
theorem soilEvap_epot (h : soilEvaporation F P S cells D = .ok out) (hp : PosDz cells) :
    out.epot = out.esPot :=
  (soilEvap_core F P S cells D out h hp).2.2.1

/-- 3. actual ≤ potential.  No law about `exp` is needed: `Kr` is clamped at 1, and a negative
`Kr` makes the sub-step a no-op (`while ToExtractStg2 > 0`).  The premise on `EsPot` is needed
only when there is no ponded water (with `EsPot < 0` and no pond, `EsAct = 0 > EsPot`). -/
theorem soilEvap_esAct_le_esPot' (h : soilEvaporation F P S cells D = .ok out) (hp : PosDz cells)
    (hpot : S.pond ≤ 0 → 0 ≤ out.esPot) : out.esAct ≤ out.esPot :=
  (soilEvap_core F P S cells D out h hp).2.2.2.2.1 hpot

theorem soilEvap_esAct_le_esPot (h : soilEvaporation F P S cells D = .ok out) (hp : PosDz cells)
    (hpot : 0 ≤ out.esPot) : out.esAct ≤ out.esPot :=
  soilEvap_esAct_le_esPot' F P S cells D out h hp (fun _ => hpot)

/-- 4. sign of the potential evaporation -/
theorem soilEvap_esPot_nonneg (h : soilEvaporation F P S cells D = .ok out) (hp : PosDz cells)
    (pre : EsPotPre P S D) : 0 ≤ out.esPot := by
  obtain ⟨b, hb⟩ := (soilEvap_core F P S cells D out h hp).2.2.2.1
  exact esPotential_nonneg F P S D _ b hb pre

/-- 4'. converse witness: `CCadj > 1` (reachable: crops with `CCx = 0.98` give `CCadj = 1.0076`)
makes `EsPot` negative -/
theorem soilEvap_esPot_neg_of_ccAdj_gt_one (h : soilEvaporation F P S cells D = .ok out)
    (hp : PosDz cells) (hg : D.growingSeason = true) (hsen : ¬ SenActive P S (tAdjOf P S))
    (hpm : S.prematSenes = false) (hmu : P.mulches = false) (hirr : D.irr ≤ 0)
    (hk : 0 < P.kex) (he : 0 < D.et0) (hcc : 1 < S.ccAdj) : out.esPot < 0 := by
  obtain ⟨b, hb⟩ := (soilEvap_core F P S cells D out h hp).2.2.2.1
  exact esPotential_neg_of_ccAdj_gt_one F P S D _ b hb hg hsen hpm hmu hirr hk he hcc

/-- … and then, without ponded water, nothing evaporates although `EsAct > EsPot` -/
theorem soilEvap_esAct_le_esPot_combined (h : soilEvaporation F P S cells D = .ok out)
    (hp : PosDz cells) (pre : EsPotPre P S D) : 0 ≤ out.esPot ∧ out.esAct ≤ out.esPot :=
  ⟨soilEvap_esPot_nonneg F P S cells D out h hp pre,
   soilEvap_esAct_le_esPot F P S cells D out h hp (soilEvap_esPot_nonneg F P S cells D out h hp pre)⟩

/-- the ghost flag "some extraction step took a negative amount" is never set (it could be, in
stage 2, before repo fix 9c2fed8) -/
theorem soilEvap_negTake_false (h : soilEvaporation F P S cells D = .ok out) (hp : PosDz cells) :
    out.negTake = false :=
  (soilEvap_core F P S cells D out h hp).2.2.2.2.2.1

/-- 5a. `EsAct ≥ 0` (unconditional since stage 2 clamps `AvW` at 0; the premise on `EsPot` is
needed only when the ponded water exceeds `EsPot`, where `EsAct = EsPot`) -/
theorem soilEvap_esAct_nonneg' (h : soilEvaporation F P S cells D = .ok out) (hp : PosDz cells)
    (hpot : out.esPot < S.pond → 0 ≤ out.esPot) : 0 ≤ out.esAct :=
  (soilEvap_core F P S cells D out h hp).2.2.2.2.2.2.1 hpot

theorem soilEvap_esAct_nonneg (h : soilEvaporation F P S cells D = .ok out) (hp : PosDz cells)
    (hpot : 0 ≤ out.esPot) : 0 ≤ out.esAct :=
  soilEvap_esAct_nonneg' F P S cells D out h hp (fun _ => hpot)

/-- 5b. the water contents stay within `[th_dry, th_s]` (and the rest of `Cell.Inv`) -/
theorem soilEvap_inv (h : soilEvaporation F P S cells D = .ok out)
    (hinv : ∀ x ∈ cells, Cell.Inv x) : ∀ x ∈ out.cells, Cell.Inv x :=
  (soilEvap_core F P S cells D out h (PosDz.of_inv hinv)).2.2.2.2.2.2.2.1 hinv

/-- 6. ponded water never becomes negative, and only decreases — the latter needs `0 ≤ EsPot`
(with `EsPot < 0 < pond` the Python *adds* `−EsPot` to the ponded water) -/
theorem soilEvap_pond' (h : soilEvaporation F P S cells D = .ok out) (hp : PosDz cells)
    (hpond : 0 ≤ S.pond) : 0 ≤ out.pond ∧ (0 ≤ out.esPot → out.pond ≤ S.pond) :=
  (soilEvap_core F P S cells D out h hp).2.2.2.2.2.2.2.2 hpond

theorem soilEvap_pond (h : soilEvaporation F P S cells D = .ok out) (hp : PosDz cells)
    (hpond : 0 ≤ S.pond) (hpot : 0 ≤ out.esPot) : 0 ≤ out.pond ∧ out.pond ≤ S.pond :=
  ⟨(soilEvap_pond' F P S cells D out h hp hpond).1,
   (soilEvap_pond' F P S cells D out h hp hpond).2 hpot⟩

/-- everything together under the sign premises of `EsPotPre` -/
theorem soilEvap_all (h : soilEvaporation F P S cells D = .ok out)
    (hinv : ∀ x ∈ cells, Cell.Inv x) (pre : EsPotPre P S D) (hpond : 0 ≤ S.pond) :
    0 ≤ out.esAct ∧ out.esAct ≤ out.esPot ∧ 0 ≤ out.pond ∧ out.pond ≤ S.pond ∧
    (∀ x ∈ out.cells, Cell.Inv x) ∧
    storage out.cells + out.pond + out.esAct = storage cells + S.pond := by
  have hp := PosDz.of_inv hinv
  have hpot := soilEvap_esPot_nonneg F P S cells D out h hp pre
  obtain ⟨p1, p2⟩ := soilEvap_pond F P S cells D out h hp hpond hpot
  exact ⟨soilEvap_esAct_nonneg F P S cells D out h hp hpot,
    soilEvap_esAct_le_esPot F P S cells D out h hp hpot, p1, p2,
    soilEvap_inv F P S cells D out h hinv, soilEvap_balance F P S cells D out h hp⟩

end Main


/-! ### the fuel of the layer-expansion loop suffices

`expandFuel = 100000` one-millimetre steps: enough whenever `EvapZmax` is at most 100 m below the
current (or minimum) evaporation depth. -/

theorem evapLayerWater_error (cells : List (Cell α)) (z : α) (e : String)
    (h : evapLayerWater cells z = .error e) : e = "E:index" := by
  unfold evapLayerWater at h
  generalize evapLayerLoop z _ cells _ = r at h
  cases r with
  | none => simp only [Except.error.injEq] at h; exact h.symm
  | some a => simp at h

theorem extractLoop_error (z : α) (n : Nat) :
    ∀ (cs : List (Cell α)) (a : ExtAcc α) (e : String),
    extractLoop z n cs a = .error e → e = "E:index" := by
  induction n with
  | zero => intro cs a e h; simp [extractLoop] at h
  | succ n ih =>
    intro cs a e h
    unfold extractLoop at h
    by_cases hd : 0 < a.dem
    · simp only [hd, if_true] at h
      cases cs with
      | nil => simp only [Except.error.injEq] at h; exact h.symm
      | cons x xs =>
        simp only [] at h
        generalize hr : extractLoop z n xs _ = r at h
        cases r with
        | error e' =>
          simp only [Except.error.injEq] at h
          subst h; exact ih _ _ _ hr
        | ok v => simp at h
    · simp [hd] at h

theorem expandLoop_spec (P : EvapParams α) (w2 : α) (cells : List (Cell α)) (fuel : Nat) :
    ∀ (z wrel wcheck : α), P.zMax - z ≤ natNum fuel * 0.001 →
    (∀ e, expandLoop P w2 cells fuel z wrel wcheck = .error e → e = "E:index") ∧
    (∀ z' w', expandLoop P w2 cells fuel z wrel wcheck = .ok (z', w') → z ≤ z') := by
  induction fuel with
  | zero =>
    intro z wrel wcheck hz
    have hnot : ¬ (wrel < wcheck ∧ z < P.zMax) := by
      intro hc
      simp only [natNum, zero_mul] at hz
      linarith [hc.2]
    unfold expandLoop
    simp only [hnot, if_false]
    refine ⟨fun e h => by simp at h, fun z' w' h => ?_⟩
    simp only [Except.ok.injEq, Prod.mk.injEq] at h
    exact h.1 ▸ le_refl _
  | succ fuel ih =>
    intro z wrel wcheck hz
    unfold expandLoop
    by_cases hc : wrel < wcheck ∧ z < P.zMax
    · simp only [hc, and_self, if_true]
      have hz' : P.zMax - (z + 0.001) ≤ natNum fuel * 0.001 := by
        simp only [natNum] at hz
        linarith
      generalize hw : evapLayerWater cells (z + 0.001) = r
      cases r with
      | error e' =>
        refine ⟨fun e h => ?_, fun z' w' h => by simp at h⟩
        simp only [Except.error.injEq] at h
        subst h; exact evapLayerWater_error _ _ _ hw
      | ok w =>
        simp only []
        obtain ⟨i1, i2⟩ := ih (z + 0.001) (wRelOf P w2 w) (wCheckOf P (z + 0.001)) hz'
        refine ⟨i1, fun z' w' h => ?_⟩
        have := i2 z' w' h
        have h001 : (0:α) ≤ 0.001 := by norm_num
        linarith
    · simp only [hc, if_false]
      refine ⟨fun e h => by simp at h, fun z' w' h => ?_⟩
      simp only [Except.ok.injEq, Prod.mk.injEq] at h
      exact h.1 ▸ le_refl _

/-- the expansion fuel covers the distance from `z` to `EvapZmax` -/
def FuelOk (P : EvapParams α) (z : α) : Prop := P.zMax - z ≤ natNum expandFuel * 0.001

theorem FuelOk.mono {P : EvapParams α} {z z' : α} (h : FuelOk P z) (hz : z ≤ z') : FuelOk P z' := by
  unfold FuelOk at *; linarith

theorem stage2Step_noFuel (F : Fn α) (P : EvapParams α) (w2 edt : α) (st : SubSt α)
    (hz : FuelOk P st.evapZ) :
    (∀ e, stage2Step F P w2 edt st = .error e → e = "E:index") ∧
    (∀ st', stage2Step F P w2 edt st = .ok st' → FuelOk P st'.evapZ) := by
  unfold stage2Step
  generalize hw : evapLayerWater st.cells st.evapZ = w
  cases w with
  | error e' =>
    refine ⟨fun e h => ?_, fun st' h => by simp at h⟩
    simp only [Except.error.injEq] at h
    subst h; exact evapLayerWater_error _ _ _ hw
  | ok w =>
    simp only []
    obtain ⟨x1, x2⟩ := expandLoop_spec P w2 st.cells expandFuel st.evapZ (wRelOf P w2 w)
      (wCheckOf P st.evapZ) hz
    generalize hex : (if P.zMin < P.zMax then
        expandLoop P w2 st.cells expandFuel st.evapZ (wRelOf P w2 w) (wCheckOf P st.evapZ)
        else (Except.ok (st.evapZ, wRelOf P w2 w) : Except String (α × α))) = ex
    cases ex with
    | error e' =>
      refine ⟨fun e h => ?_, fun st' h => by simp at h⟩
      simp only [Except.error.injEq] at h
      subst h
      split_ifs at hex
      exact x1 _ hex
    | ok zw =>
      obtain ⟨z, wrel⟩ := zw
      have hzz : st.evapZ ≤ z := by
        split_ifs at hex
        · exact x2 _ _ hex
        · simp only [Except.ok.injEq, Prod.mk.injEq] at hex
          exact hex.1 ▸ le_refl _
      simp only []
      generalize hr : extractLoop z _ st.cells _ = r
      cases r with
      | error e' =>
        refine ⟨fun e h => ?_, fun st' h => by simp at h⟩
        simp only [Except.error.injEq] at h
        subst h; exact extractLoop_error _ _ _ _ _ hr
      | ok v =>
        obtain ⟨cs1, a1⟩ := v
        refine ⟨fun e h => by simp at h, fun st' h => ?_⟩
        simp only [Except.ok.injEq] at h
        subst h
        exact hz.mono hzz

theorem stage2Loop_noFuel (F : Fn α) (P : EvapParams α) (w2 edt : α) (n : Nat) :
    ∀ (st : SubSt α), FuelOk P st.evapZ →
    ∀ e, stage2Loop F P w2 edt n st = .error e → e = "E:index" := by
  induction n with
  | zero => intro st _ e h; simp [stage2Loop] at h
  | succ n ih =>
    intro st hz e h
    unfold stage2Loop at h
    obtain ⟨y1, y2⟩ := stage2Step_noFuel F P w2 edt st hz
    generalize hs : stage2Step F P w2 edt st = r at h y1 y2
    cases r with
    | error e' =>
      simp only [Except.error.injEq] at h
      subst h; exact y1 _ rfl
    | ok s1 =>
      simp only [] at h
      exact ih s1 (y2 s1 rfl) e h

theorem evapStage2_noFuel (F : Fn α) (P : EvapParams α) (g : Stg α) (hz : FuelOk P g.surf.evapZ)
    (e : String) (h : evapStage2 F P g = .error e) : e = "E:index" ∨ e = "E:zerodiv" := by
  unfold evapStage2 at h
  by_cases h1 : 0 < g.toExt
  · simp only [h1, if_true] at h
    by_cases h0 : P.steps = 0
    · simp only [h0, if_true, Except.error.injEq] at h
      exact Or.inr h.symm
    · simp only [h0, if_false] at h
      generalize hr : stage2Loop F P _ _ P.steps _ = r at h
      cases r with
      | error e' =>
        simp only [Except.error.injEq] at h
        subst h
        exact Or.inl (stage2Loop_noFuel _ _ _ _ _ _ hz _ hr)
      | ok st => simp at h
  · simp [h1] at h

theorem evapStage1_evapZ (F : Fn α) (P : EvapParams α) (cells : List (Cell α)) (s : EvapSurf α)
    (esPot esAct : α) :
    (∀ e, evapStage1 F P cells s esPot esAct = .error e → e = "E:index") ∧
    (∀ g, evapStage1 F P cells s esPot esAct = .ok g → g.surf.evapZ = s.evapZ) := by
  unfold evapStage1
  simp only []
  by_cases h1 : 0 < pmin (esPot - esAct) s.wSurf
  · simp only [h1, if_true]
    generalize hr : extractLoop P.zMin _ cells _ = r
    cases r with
    | error e' =>
      refine ⟨fun e h => ?_, fun g h => by simp at h⟩
      simp only [Except.error.injEq] at h
      subst h; exact extractLoop_error _ _ _ _ _ hr
    | ok v =>
      obtain ⟨cs1, a1⟩ := v
      simp only []
      generalize hw : evapLayerWater cs1 s.evapZ = w
      constructor
      · intro e h
        split_ifs at h <;>
          first
          | (simp at h; done)
          | (cases w with
             | error e' =>
               simp only [Except.error.injEq] at h
               subst h; exact evapLayerWater_error _ _ _ hw
             | ok w => simp at h)
      · intro g h
        split_ifs at h <;>
          first
          | (simp only [Except.ok.injEq] at h; subst h; rfl)
          | (cases w with
             | error e' => simp at h
             | ok w => simp only [Except.ok.injEq] at h; subst h; rfl)
  · simp only [h1, if_false]
    refine ⟨fun e h => by simp at h, fun g h => ?_⟩
    simp only [Except.ok.injEq] at h
    subst h; rfl

theorem esPotential_error (F : Fn α) (P : EvapParams α) (S : EvapState α) (D : EvapDay α)
    (e : String) (h : esPotential F P S D = .error e) : e = "E:unbound" := by
  unfold esPotential at h
  generalize hb : esPotBase F P S D = r at h
  cases r with
  | error e' =>
    simp only [Except.error.injEq] at h
    subst h
    unfold esPotBase at hb
    split_ifs at hb
    simp_all
  | ok eb => simp at h

/-- the model never answers `E:fuel` when `EvapZmax` is within 100 m of the evaporation depths -/
theorem soilEvap_fuel_suffices (F : Fn α) (P : EvapParams α) (S : EvapState α)
    (cells : List (Cell α)) (D : EvapDay α) (h1 : FuelOk P S.evapZ) (h2 : FuelOk P P.zMin)
    (e : String) (h : soilEvaporation F P S cells D = .error e) :
    e = "E:index" ∨ e = "E:zerodiv" ∨ e = "E:unbound" := by
  unfold soilEvaporation at h
  generalize hri : evapReinit F P cells D.tsc S.dap _ = ri at h
  cases ri with
  | error e' =>
    simp only [Except.error.injEq] at h
    subst h
    unfold evapReinit at hri
    split_ifs at hri
    generalize hw : evapLayerWater cells P.zMin = w at hri
    cases w with
    | error e'' =>
      simp only [Except.error.injEq] at hri
      subst hri; exact Or.inl (evapLayerWater_error _ _ _ hw)
    | ok w => simp at hri
  | ok sb =>
    obtain ⟨s0, b0⟩ := sb
    have hs0 : FuelOk P s0.evapZ := by
      unfold evapReinit at hri
      split_ifs at hri
      · generalize hw : evapLayerWater cells P.zMin = w at hri
        cases w with
        | error e'' => simp at hri
        | ok w =>
          simp only [Except.ok.injEq, Prod.mk.injEq] at hri
          rw [← hri.1]; exact h2
      · simp only [Except.ok.injEq, Prod.mk.injEq] at hri
        rw [← hri.1]; exact h1
    have hs1 : FuelOk P (evapRefresh P D s0).1.evapZ := by
      unfold evapRefresh
      split_ifs <;> first | exact h2 | exact hs0
    simp only [] at h
    generalize hep : esPotential F P S D = ep at h
    cases ep with
    | error e' =>
      simp only [Except.error.injEq] at h
      subst h; exact Or.inr (Or.inr (esPotential_error _ _ _ _ _ hep))
    | ok eb =>
      obtain ⟨esPot, b2⟩ := eb
      simp only [] at h
      have hs2 : FuelOk P (pondEvap P esPot S.pond (evapRefresh P D s0).1).2.2.1.evapZ := by
        unfold pondEvap
        split_ifs <;> first | exact h2 | exact hs1
      generalize hpe : pondEvap P esPot S.pond (evapRefresh P D s0).1 = pe at h hs2
      obtain ⟨e0, pond', s2, b3⟩ := pe
      simp only [] at h hs2
      obtain ⟨t1, t2⟩ := evapStage1_evapZ F P cells s2 esPot e0
      generalize hst1 : evapStage1 F P cells s2 esPot e0 = r1 at h t1 t2
      cases r1 with
      | error e' =>
        simp only [Except.error.injEq] at h
        subst h; exact Or.inl (t1 _ rfl)
      | ok g1 =>
        simp only [] at h
        have hg1 : FuelOk P g1.surf.evapZ := by rw [t2 g1 rfl]; exact hs2
        generalize hst2 : evapStage2 F P g1 = r2 at h
        cases r2 with
        | error e' =>
          simp only [Except.error.injEq] at h
          subst h
          rcases evapStage2_noFuel F P g1 hg1 _ hst2 with h' | h'
          · exact Or.inl h'
          · exact Or.inr (Or.inl h')
        | ok g2 => simp at h


theorem fuelOk_of_le (P : EvapParams α) (z : α) (h : P.zMax - z ≤ 100) : FuelOk P z := by
  unfold FuelOk
  rw [natNum_eq_cast]
  have : ((expandFuel : ℕ) : α) * 0.001 = 100 := by
    unfold expandFuel; norm_num
  rw [this]; exact h

/-! ### non-vacuity: a concrete call at `ℚ` that succeeds, runs stage 1 and stage 2, and satisfies
the hypotheses of all lemmas above (`exp x := 1 + x` etc. — the lemmas assume nothing about `F`) -/

namespace Example
def Fq : Fn ℚ :=
  { exp := fun x => 1 + x, log := id, log10 := id, pow := fun x y => if y = 2 then x * x else x,
    round0 := id, round2 := id, round3 := id, round4 := id, pyRound2 := id }
def cq (zs : ℚ) : Comp ℚ :=
  { dz := 0.1, dzsum := zs, zMid := zs - 0.05, thS := 0.5, thFC := 0.3, thWP := 0.1,
    thDry := 0.05, tau := 0.5, ksat := 500, pen := 100, aCR := 0, bCR := 0, layer := 1 }
def cellsq : List (Cell ℚ) :=
  [ { c := cq 0.1, th := 0.2, fcAdj := 0.3, flux := 0, aer := 0 },
    { c := cq 0.2, th := 0.25, fcAdj := 0.3, flux := 0, aer := 0 },
    { c := cq 0.3, th := 0.3, fcAdj := 0.3, flux := 0, aer := 0 },
    { c := cq 0.4, th := 0.3, fcAdj := 0.3, flux := 0, aer := 0 } ]
def Pq : EvapParams ℚ :=
  { steps := 2, simOffSeason := false, zMin := 0.15, zMax := 0.152, rew := 9, kex := 1.1,
    fwcc := 50, fWrelExp := 0.4, fevap := 4, calendarType := 1, senescence := 100, irrMethod := 0,
    wetSurf := 100, mulches := false, fMulch := 0.5, mulchPct := 50 }
def Sq : EvapState ℚ :=
  { dap := 10, wSurf := 1, evapZ := 0.15, stage2 := false, delayedCDs := 0, gddCum := 0,
    delayedGDDs := 0, ccxW := 0.5, ccAdj := 0.5, ccxAct := 0.5, cc := 0.5, prematSenes := false,
    pond := 0, wStage2 := 0, epot := 0 }
def Dq : EvapDay ℚ := { tsc := 5, et0 := 5, infl := 0, rain := 0, irr := 0, growingSeason := true }

/-- the call succeeds with stage 1 → stage-2 preparation → stage 2 (branch mask 512+1024+2048),
`negTake = false` and `0 < EsAct < EsPot` -/
theorem runs :
    (match soilEvaporation Fq Pq Sq cellsq Dq with
     | .ok out => decide (out.negTake = false ∧ out.branch = 3584 ∧ 0 < out.esAct ∧
                          out.esAct < out.esPot)
     | .error _ => false) = true := by decide +kernel

theorem inv : ∀ x ∈ cellsq, Cell.Inv x := by
  intro x hx
  simp only [cellsq, List.mem_cons, List.not_mem_nil, or_false] at hx
  rcases hx with rfl | rfl | rfl | rfl <;>
    exact { wf := by constructor <;> norm_num [cq]
            th_lo := by norm_num [cq], th_hi := by norm_num [cq]
            fc_lo := by norm_num [cq], fc_hi := by norm_num [cq] }

theorem pre : EsPotPre Pq Sq Dq :=
  { kex_nn := by norm_num [Pq], et0_nn := by norm_num [Dq]
    ccAdj_le := fun _ _ => by norm_num [Sq]
    ccxW_le := fun _ _ => by norm_num [Sq, Pq]
    mulch_le := fun h => by simp [Pq] at h
    wet_nn := fun _ _ => by norm_num [Pq] }
end Example

end Aqua
