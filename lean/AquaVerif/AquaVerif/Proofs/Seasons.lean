import AquaVerif.Proofs.Clock
/-
Season independence at the level of the clock / season state machine (property C08, clock part).

`single c k` is the single-season configuration that starts on the planting date of season `k` of
the multi-season configuration `c` (window cut at that date, same end date, same latest harvest
date, off-season skipped); `shiftEv ev p` is the day oracle re-indexed to that start.

Main results
* `step_shift`       – one `_perform_timestep` from two states related by `Sim` (same flags and
                       counters, clocks shifted by the planting index) writes the same row
                       (`dap, gs, mature, dead, endc`), writes the summary row on the same relative
                       day, and either keeps the states related or ends the season in both runs.
* `season_path_shift`– the same along every in-season execution path (induction).
* `season_start_fresh`, `sim_at_season_start` – every reachable first day of a season is related
                       to the *initial* state of `single c k`.
Core Lean only.
-/

namespace Aqua.Clock

/-- the single-season configuration started on the planting date of season `k` of `c` -/
def single (c : Cfg) (k : Nat) : Cfg :=
  { n := c.n - c.pl k, planting := [0], harvest := [c.hv k - (c.pl k : Int)], offSeason := false,
    season0 := 0 }

/-- the day oracle seen from a run that starts `p` days later -/
def shiftEv (ev : Ev) (p : Nat) : Ev := fun t => ev (t + p)

@[simp] theorem single_pl0 (c : Cfg) (k : Nat) : (single c k).pl 0 = 0 := rfl
@[simp] theorem single_hv0 (c : Cfg) (k : Nat) : (single c k).hv 0 = c.hv k - (c.pl k : Int) := rfl
@[simp] theorem single_n (c : Cfg) (k : Nat) : (single c k).n = c.n - c.pl k := rfl
@[simp] theorem single_nSeasons (c : Cfg) (k : Nat) : (single c k).nSeasons = 1 := rfl
@[simp] theorem single_off (c : Cfg) (k : Nat) : (single c k).offSeason = false := rfl

theorem wf_single {c : Cfg} (hw : WF c) {k : Nat} (hk : k < c.planting.length) :
    WF (single c k) := by
  have := hw.pl_in hk
  refine ⟨by simp only [single_n]; omega, by simp [single], by simp [single], by simp [single],
    ?_, by simp [single]⟩
  intro p hp
  simp only [single, List.mem_singleton] at hp
  subst hp
  simp only [single]; omega

/-- the fresh initial state of `single c k` -/
def freshSt : St :=
  { t := 0, season := 0, dap := 0, mature := false, dead := false, harvestFlag := false,
    finished := false, rowsRev := [], summaryRev := [] }

theorem init_single {c : Cfg} (hw : WF c) {k : Nat} (hk : k < c.planting.length) :
    init (single c k) = .ok freshSt := by
  have := hw.pl_in hk
  unfold init
  have e1 : ¬ (single c k).n < 2 := by show ¬ c.n - c.pl k < 2; omega
  rw [if_neg e1]
  rfl

/-- two rows that agree up to the shift of the day index and the season label -/
def RowSh (p : Nat) (k : Nat) (r r1 : Row) : Prop :=
  r.t = r1.t + p ∧ r.season = (k : Int) ∧ r1.season = 0 ∧ r.dap = r1.dap ∧ r.gs = r1.gs ∧
    r.mature = r1.mature ∧ r.dead = r1.dead ∧ r.endc = r1.endc

/-- two summary rows that agree up to the shift -/
def SumSh (p : Nat) (k : Nat) (e e1 : Int × Nat) : Prop :=
  e.1 = (k : Int) ∧ e1.1 = 0 ∧ e.2 = e1.2 + p

/-- `R` holds between the two lists position by position (same length) -/
inductive Pairs {α β : Type} (R : α → β → Prop) : List α → List β → Prop
  | nil : Pairs R [] []
  | cons {a : α} {b : β} {as : List α} {bs : List β} : R a b → Pairs R as bs →
      Pairs R (a :: as) (b :: bs)

/-- simulation relation between a state of the multi-season run inside season `k` and a state
of the single-season run -/
structure Sim (c : Cfg) (k : Nat) (s s1 : St) : Prop where
  live : Live c s
  live1 : Live (single c k) s1
  t : s.t = s1.t + c.pl k
  season : s.season = (k : Int)
  season1 : s1.season = 0
  dap : s.dap = s1.dap
  mature : s.mature = s1.mature
  dead : s.dead = s1.dead
  flag : s.harvestFlag = s1.harvestFlag
  /-- the latest harvest date has not been passed while the harvest flag is still down -/
  before : s.harvestFlag = false → (s.t : Int) + 1 ≤ c.hv k

section
variable {c : Cfg} {ev : Ev} {k : Nat} {s s1 : St}

theorem Sim.gs (h : Sim c k s s1) : gsOf c s = gsOf (single c k) s1 := by
  have ht := h.t
  have p0 : (single c k).pl (Int.toNat 0) = 0 := rfl
  have v0 : (single c k).hv (Int.toNat 0) = c.hv k - (c.pl k : Int) := rfl
  unfold gsOf
  rw [h.season, h.season1, h.mature, h.dead, Bool.eq_iff_iff]
  simp only [Bool.and_eq_true, decide_eq_true_eq, Int.toNat_natCast, p0, v0]
  constructor
  · rintro ⟨⟨⟨⟨_, _⟩, h3⟩, h4⟩, h5⟩
    exact ⟨⟨⟨⟨by omega, by omega⟩, by omega⟩, h4⟩, h5⟩
  · rintro ⟨⟨⟨⟨_, _⟩, h3⟩, h4⟩, h5⟩
    exact ⟨⟨⟨⟨by omega, by omega⟩, by omega⟩, h4⟩, h5⟩

theorem Sim.evAt (h : Sim c k s s1) : shiftEv ev (c.pl k) s1.t = ev s.t := by
  unfold shiftEv; rw [h.t]

theorem Sim.mat (h : Sim c k s s1) : matOf c ev s = matOf (single c k) (shiftEv ev (c.pl k)) s1 := by
  unfold matOf; rw [h.gs, h.mature, h.evAt]

theorem Sim.deadOf (h : Sim c k s s1) :
    deadOf c ev s = Clock.deadOf (single c k) (shiftEv ev (c.pl k)) s1 := by
  unfold Clock.deadOf; rw [h.gs, h.dead, h.evAt]

theorem Sim.endc (h : Sim c k s s1) :
    endcOf c ev s = endcOf (single c k) (shiftEv ev (c.pl k)) s1 := by
  have ht := h.t
  have v0 : (single c k).hv (Int.toNat 0) = c.hv k - (c.pl k : Int) := rfl
  unfold endcOf
  rw [h.mat, h.deadOf, h.season, h.season1, Bool.eq_iff_iff]
  simp only [Bool.and_eq_true, Bool.or_eq_true, decide_eq_true_eq, Int.toNat_natCast, v0]
  constructor
  · rintro ⟨_, h2⟩
    refine ⟨by omega, ?_⟩
    rcases h2 with h2 | h2
    · exact Or.inl h2
    · exact Or.inr (by omega)
  · rintro ⟨_, h2⟩
    refine ⟨by omega, ?_⟩
    rcases h2 with h2 | h2
    · exact Or.inl h2
    · exact Or.inr (by omega)

theorem Sim.dapOf (h : Sim c k s s1) : dapOf c s = Clock.dapOf (single c k) s1 := by
  unfold Clock.dapOf; rw [h.gs, h.dap]

theorem Sim.row (h : Sim c k s s1) :
    RowSh (c.pl k) k (rowOf c ev s) (rowOf (single c k) (shiftEv ev (c.pl k)) s1) :=
  ⟨h.t, h.season, h.season1, h.dapOf, h.gs, h.mat, h.deadOf, h.endc⟩

/-- the single-season run is finished as soon as the multi-season run is, or has harvested -/
theorem Sim.fin1_of (h : Sim c k s s1)
    (hx : finOf c ev s = true ∨ (s.harvestFlag || endcOf c ev s) = true) :
    finOf (single c k) (shiftEv ev (c.pl k)) s1 = true := by
  have ht := h.t
  have htn := h.live.tn
  have hn1 : (single c k).n = c.n - c.pl k := rfl
  have hs1 : (single c k).nSeasons = 1 := rfl
  unfold finOf
  rw [← h.endc (ev := ev), ← h.flag, h.season1, hs1]
  simp only [Bool.or_eq_true, Bool.and_eq_true, decide_eq_true_eq]
  rcases hx with hx | hx
  · unfold finOf at hx
    simp only [Bool.or_eq_true, Bool.and_eq_true, decide_eq_true_eq] at hx
    rcases hx with hx | ⟨hx, _⟩
    · left
      split at hx
      · cases hx
      · rename_i hlt
        rw [if_neg]; rw [hn1]; omega
    · right; exact ⟨hx, by omega⟩
  · right; exact ⟨by simpa using hx, by omega⟩

/-- … and not otherwise -/
theorem Sim.fin1_false (h : Sim c k s s1) (hfin : finOf c ev s = false)
    (hfl : (s.harvestFlag || endcOf c ev s) = false) :
    finOf (single c k) (shiftEv ev (c.pl k)) s1 = false := by
  have ht := h.t
  have h3 := (finOf_false hfin).1
  have hn1 : (single c k).n = c.n - c.pl k := rfl
  unfold finOf
  rw [← h.endc (ev := ev), ← h.flag, hfl]
  simp only [Bool.false_and, Bool.or_false]
  rw [if_pos]; rw [hn1]; omega

end

/-- **One step.** From related states, a successful `_perform_timestep` of the multi-season run is
matched by a successful one of the single-season run: the two new daily rows agree (`RowSh`), a
summary row is written in both or in neither (on the same relative day), and afterwards either the
multi-season run is still unfinished in season `k` and the states are related again, or the
single-season run is finished and the multi-season run is finished or has moved to season `k+1`.
Premises: `WF c`, off-season skipped, and (from `Valid`) the latest harvest date of season `k` is
not after the next planting date. -/
theorem step_shift {c : Cfg} {ev : Ev} {k : Nat} {s s1 s' : St} (hw : WF c)
    (hk : k < c.planting.length) (hoff : c.offSeason = false)
    (hnext : k + 1 < c.planting.length → c.hv k ≤ (c.pl (k + 1) : Int))
    (hS : Sim c k s s1) (hp : perform c ev s = .ok s') :
    ∃ s1', perform (single c k) (shiftEv ev (c.pl k)) s1 = .ok s1' ∧
      (∃ r r1, s'.rowsRev = r :: s.rowsRev ∧ s1'.rowsRev = r1 :: s1.rowsRev ∧
        RowSh (c.pl k) k r r1) ∧
      ((s'.summaryRev = s.summaryRev ∧ s1'.summaryRev = s1.summaryRev) ∨
        (s'.summaryRev = ((k : Int), s.t) :: s.summaryRev ∧
          s1'.summaryRev = (0, s1.t) :: s1.summaryRev)) ∧
      ((s'.finished = false ∧ s'.season = (k : Int) ∧ Sim c k s' s1') ∨
        ((s'.finished = true ∨ s'.season = (k : Int) + 1) ∧ s1'.finished = true)) := by
  have hw1 := wf_single hw hk
  have hL := hS.live
  have hL1 := hS.live1
  rw [perform_eq hw ev hL] at hp
  cases hp
  refine ⟨stepT (single c k) (shiftEv ev (c.pl k)) s1, perform_eq hw1 _ hL1, ?_, ?_, ?_⟩
  · refine ⟨rowOf c ev s, rowOf (single c k) (shiftEv ev (c.pl k)) s1, ?_, ?_, hS.row⟩
    · rw [stepT_rows]; rfl
    · rw [stepT_rows]; rfl
  · rw [stepT_summary, stepT_summary, sol_summary, sol_summary, ← hS.endc (ev := ev), ← hS.flag,
      hS.season, hS.season1]
    cases (endcOf c ev s && !s.harvestFlag) <;> simp
  · cases hfin : finOf c ev s with
    | true =>
      right
      have hf1 := hS.fin1_of (ev := ev) (Or.inl hfin)
      rw [stepT_fin c ev s hfin, stepT_fin _ _ s1 hf1]
      exact ⟨Or.inl rfl, rfl⟩
    | false =>
      obtain ⟨h3, hlast⟩ := finOf_false hfin
      cases hfl : (s.harvestFlag || endcOf c ev s) with
      | true =>
        right
        have hf1 := hS.fin1_of (ev := ev) (Or.inr hfl)
        have hj : ((s.harvestFlag || endcOf c ev s) && !c.offSeason) = true := by
          rw [hfl, hoff]; rfl
        have hn : s.season < c.nSeasons - 1 := by
          have := hL.shi
          by_cases hs : s.season = c.nSeasons - 1
          · have := hlast hs; rw [hfl] at this; cases this
          · omega
        rw [stepT_jump c ev s hfin hj hn, stepT_fin _ _ s1 hf1]
        refine ⟨Or.inr ?_, rfl⟩
        show s.season + 1 = (k : Int) + 1
        rw [hS.season]
      | false =>
        left
        have hf1 := hS.fin1_false (ev := ev) hfin hfl
        have hj : ((s.harvestFlag || endcOf c ev s) && !c.offSeason) = false := by
          rw [hfl]; rfl
        have hfl1 : (s1.harvestFlag || endcOf (single c k) (shiftEv ev (c.pl k)) s1) = false := by
          rw [← hS.endc (ev := ev), ← hS.flag]; exact hfl
        have hj1 : ((s1.harvestFlag || endcOf (single c k) (shiftEv ev (c.pl k)) s1) &&
            !(single c k).offSeason) = false := by rw [hfl1]; rfl
        have hflag : s.harvestFlag = false := by
          cases h : s.harvestFlag with
          | false => rfl
          | true => rw [h] at hfl; simp at hfl
        have hend : endcOf c ev s = false := by
          cases h : endcOf c ev s with
          | false => rfl
          | true => rw [h] at hfl; simp at hfl
        -- the latest harvest date is not tomorrow, hence still ahead
        have hne : c.hv k ≠ (s.t : Int) + 1 := by
          intro he
          unfold endcOf at hend
          rw [hS.season] at hend
          simp only [Int.toNat_natCast, Bool.and_eq_false_iff, Bool.or_eq_false_iff,
            decide_eq_false_iff_not] at hend
          rcases hend with h | ⟨_, h⟩
          · omega
          · exact h he
        have hbef := hS.before hflag
        have hnp : ¬ (s.season < c.nSeasons - 1 ∧ s.t + 1 = c.pl (s.season + 1).toNat) := by
          rintro ⟨hn, hpl⟩
          rw [hS.season, nSeasons_eq] at hn
          have hk1 : k + 1 < c.planting.length := by omega
          have := hnext hk1
          rw [hS.season] at hpl
          have e : ((k : Int) + 1).toNat = k + 1 := by omega
          rw [e] at hpl
          omega
        have hnp1 : ¬ (s1.season < (single c k).nSeasons - 1 ∧
            s1.t + 1 = (single c k).pl (s1.season + 1).toNat) := by
          rintro ⟨hn, _⟩
          rw [hS.season1, single_nSeasons] at hn
          omega
        have e := stepT_same c ev s hfin hj hnp
        have e1 := stepT_same (single c k) (shiftEv ev (c.pl k)) s1 hf1 hj1 hnp1
        have hfs : (stepT c ev s).finished = false := by rw [e]
        have hfs1 : (stepT (single c k) (shiftEv ev (c.pl k)) s1).finished = false := by rw [e1]
        refine ⟨hfs, by rw [e]; exact hS.season, ?_⟩
        refine ⟨(live_step hw ev hL hfs).1, (live_step hw1 _ hL1 hfs1).1, ?_, ?_, ?_, ?_, ?_, ?_,
          ?_, ?_⟩
        · rw [e, e1]; show s.t + 1 = s1.t + 1 + c.pl k; have := hS.t; omega
        · rw [e]; exact hS.season
        · rw [e1]; exact hS.season1
        · rw [e, e1]; exact hS.dapOf
        · rw [e, e1]; exact hS.mat
        · rw [e, e1]; exact hS.deadOf
        · rw [e, e1]
          show (s.harvestFlag || endcOf c ev s) =
            (s1.harvestFlag || endcOf (single c k) (shiftEv ev (c.pl k)) s1)
          rw [hfl, hfl1]
        · intro _
          rw [e]; show ((s.t + 1 : Nat) : Int) + 1 ≤ c.hv k
          omega

/-- in-season execution paths: every step is taken from an unfinished state of season `k` -/
inductive SeasonPath (c : Cfg) (ev : Ev) (k : Int) : St → St → Prop
  | refl (s : St) : SeasonPath c ev k s s
  | step {s s' s'' : St} : SeasonPath c ev k s s' → s'.finished = false → s'.season = k →
      perform c ev s' = .ok s'' → SeasonPath c ev k s s''

/-- **Season rows are shift invariant.**  Every in-season execution path of the multi-season run
that starts in a state related to a state of the single-season run is matched, step for step, by
a path of the single-season run: the daily rows written along the two paths agree pairwise up to
the shift of the day index and the season label, so do the summary rows, and at the end either the
states are related again or the season is over in both runs. -/
theorem season_path_shift {c : Cfg} {ev : Ev} {k : Nat} {s s1 s' : St} (hw : WF c)
    (hk : k < c.planting.length) (hoff : c.offSeason = false)
    (hnext : k + 1 < c.planting.length → c.hv k ≤ (c.pl (k + 1) : Int))
    (hS : Sim c k s s1) (hpath : SeasonPath c ev (k : Int) s s') :
    ∃ s1' rs rs1 sm sm1, SeasonPath (single c k) (shiftEv ev (c.pl k)) 0 s1 s1' ∧
      s'.rowsRev = rs ++ s.rowsRev ∧ s1'.rowsRev = rs1 ++ s1.rowsRev ∧
      Pairs (RowSh (c.pl k) k) rs rs1 ∧
      s'.summaryRev = sm ++ s.summaryRev ∧ s1'.summaryRev = sm1 ++ s1.summaryRev ∧
      Pairs (SumSh (c.pl k) k) sm sm1 ∧
      ((s'.finished = false ∧ s'.season = (k : Int) ∧ Sim c k s' s1') ∨
        ((s'.finished = true ∨ s'.season = (k : Int) + 1) ∧ s1'.finished = true)) := by
  induction hpath with
  | refl =>
    exact ⟨s1, [], [], [], [], SeasonPath.refl s1, rfl, rfl, Pairs.nil, rfl, rfl,
      Pairs.nil, Or.inl ⟨hS.live.notFin, hS.season, hS⟩⟩
  | @step s' s'' hpre hf hs hp ih =>
    obtain ⟨s1', rs, rs1, sm, sm1, hp1, hr, hr1, hrr, hm, hm1, hmm, hcase⟩ := ih
    have hS' : Sim c k s' s1' := by
      rcases hcase with ⟨_, _, h⟩ | ⟨h, _⟩
      · exact h
      · rcases h with h | h
        · rw [hf] at h; cases h
        · rw [hs] at h; omega
    obtain ⟨s1'', hq, ⟨r, r1, hrow, hrow1, hrs⟩, hsum, hcase'⟩ :=
      step_shift hw hk hoff hnext hS' hp
    have hp1' := SeasonPath.step hp1 hS'.live1.notFin hS'.season1 hq
    rcases hsum with ⟨hs0, hs1⟩ | ⟨hs0, hs1⟩
    · exact ⟨s1'', r :: rs, r1 :: rs1, sm, sm1, hp1', by rw [hrow, hr]; rfl, by rw [hrow1, hr1]; rfl,
        Pairs.cons hrs hrr, by rw [hs0, hm], by rw [hs1, hm1], hmm, hcase'⟩
    · exact ⟨s1'', r :: rs, r1 :: rs1, ((k : Int), s'.t) :: sm, (0, s1'.t) :: sm1, hp1',
        by rw [hrow, hr]; rfl, by rw [hrow1, hr1]; rfl, Pairs.cons hrs hrr,
        by rw [hs0, hm]; rfl, by rw [hs1, hm1]; rfl,
        Pairs.cons ⟨rfl, rfl, hS'.t⟩ hmm, hcase'⟩

/-! ### Every season starts reset -/

/-- the clock-level state components `reset_initial_conditions` resets -/
def Fresh (s : St) : Prop :=
  s.dap = 0 ∧ s.mature = false ∧ s.dead = false ∧ s.harvestFlag = false

theorem fresh_resetSeason (s : St) : Fresh (resetSeason s) := ⟨rfl, rfl, rfl, rfl⟩

theorem fresh_init {c : Cfg} {s : St} (h : init c = .ok s) : Fresh s := by
  unfold init at h
  split at h
  · cases h
  · split at h
    · cases h
    · cases h; exact ⟨rfl, rfl, rfl, rfl⟩

/-- **Whenever a step changes the season counter, the new state is the reset one** — `dap`,
`crop_mature`, `crop_dead`, `harvest_flag` are cleared, the season counter advanced by one and the
clock stands on the new season's planting date. -/
theorem season_change_resets {c : Cfg} {ev : Ev} {s s' : St} (hw : WF c) (hr : Reach c ev s)
    (hp : perform c ev s = .ok s') (hne : s'.season ≠ s.season) :
    Fresh s' ∧ s'.season = s.season + 1 ∧ s'.t = c.pl s'.season.toNat ∧ s'.finished = false := by
  have hL := (good_of_reach hw hr).live (unfinished_of_perform_ok hp)
  rw [perform_eq hw ev hL] at hp
  cases hp
  cases hfin : finOf c ev s with
  | true => rw [stepT_fin c ev s hfin] at hne; exact absurd rfl hne
  | false =>
    obtain ⟨_, hlast⟩ := finOf_false hfin
    cases hj : ((s.harvestFlag || endcOf c ev s) && !c.offSeason) with
    | true =>
      by_cases hn : s.season < c.nSeasons - 1
      · rw [stepT_jump c ev s hfin hj hn]
        exact ⟨fresh_resetSeason _, rfl, rfl, rfl⟩
      · have hs : s.season = c.nSeasons - 1 := by have := hL.shi; omega
        have := hlast hs
        rw [this] at hj; simp at hj
    | false =>
      by_cases hnp : s.season < c.nSeasons - 1 ∧ s.t + 1 = c.pl (s.season + 1).toNat
      · rw [stepT_new c ev s hfin hj hnp.1 hnp.2]
        exact ⟨fresh_resetSeason _, rfl, hnp.2, rfl⟩
      · rw [stepT_same c ev s hfin hj hnp] at hne; exact absurd rfl hne

/-- **Every season starts from the reset clock state**: a reachable unfinished state standing on
the planting date of its season has `dap = 0` and all three flags cleared. -/
theorem season_start_fresh {c : Cfg} {ev : Ev} {s : St} (hw : WF c) (hr : Reach c ev s)
    (hf : s.finished = false) (h0 : 0 ≤ s.season) (ht : s.t = c.pl s.season.toNat) : Fresh s := by
  cases hr with
  | init hi => exact fresh_init hi
  | @step s₀ _ hr₀ hp =>
    by_cases hne : s.season = s₀.season
    · -- same season: the previous day lies before the planting date — impossible
      exfalso
      have hL := (good_of_reach hw hr₀).live (unfinished_of_perform_ok hp)
      rw [perform_eq hw ev hL] at hp
      cases hp
      cases hfin : finOf c ev s₀ with
      | true => rw [stepT_fin c ev s₀ hfin] at hf; cases hf
      | false =>
        obtain ⟨_, hlast⟩ := finOf_false hfin
        cases hj : ((s₀.harvestFlag || endcOf c ev s₀) && !c.offSeason) with
        | true =>
          by_cases hn : s₀.season < c.nSeasons - 1
          · rw [stepT_jump c ev s₀ hfin hj hn] at hne
            have : s₀.season + 1 = s₀.season := hne
            omega
          · have hs : s₀.season = c.nSeasons - 1 := by have := hL.shi; omega
            have := hlast hs
            rw [this] at hj; simp at hj
        | false =>
          by_cases hnp : s₀.season < c.nSeasons - 1 ∧ s₀.t + 1 = c.pl (s₀.season + 1).toNat
          · rw [stepT_new c ev s₀ hfin hj hnp.1 hnp.2] at hne
            have : s₀.season + 1 = s₀.season := hne
            omega
          · rw [stepT_same c ev s₀ hfin hj hnp] at ht h0
            have h0' : 0 ≤ s₀.season := h0
            have ht' : s₀.t + 1 = c.pl s₀.season.toNat := ht
            have := hL.cur h0'
            omega
    · exact (season_change_resets hw hr₀ hp hne).1

/-- A reachable unfinished state on the first day of season `k` is related to the *initial* state
of the single-season run started on that planting date (`Valid`: the planting date lies before
the latest harvest date). -/
theorem sim_at_season_start {c : Cfg} {ev : Ev} {k : Nat} {s : St} (hv : Valid c)
    (hr : Reach c ev s) (hf : s.finished = false) (hs : s.season = (k : Int))
    (ht : s.t = c.pl k) : Sim c k s freshSt := by
  have hw := hv.wf
  have hL := (good_of_reach hw hr).live hf
  have hk : k < c.planting.length := by
    have := hL.shi; rw [hs, nSeasons_eq] at this; omega
  have hfr := season_start_fresh hw hr hf (by rw [hs]; omega) (by rw [hs]; simpa using ht)
  have hL1 : Live (single c k) freshSt := live_init (wf_single hw hk) (init_single hw hk)
  refine ⟨hL, hL1, by rw [ht]; simp [freshSt], hs, rfl, hfr.1, hfr.2.1, hfr.2.2.1, hfr.2.2.2, ?_⟩
  intro _
  have := hv.2.1 k hk
  rw [ht]; omega

end Aqua.Clock
