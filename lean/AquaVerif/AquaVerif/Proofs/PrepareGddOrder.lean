import AquaVerif.Proofs.PrepareGdd

/-
Order of the converted calendar (`Model/PrepareGdd.lean`) for ANY number of seasons and for
`sum_fun = 'median'`.

A. `npSum_eq_sum`: over a field numpy's pairwise / eight-lane order of additions gives the plain
   sum, for every length (`Proofs/PrepareGdd.lean` had it only for fewer than 8 terms).  Hence
   `gddNpMean_eq'`, `gddNpMean_mono'` without a length premise.
B. `prepareGdd_mean_mono'`, `calendarInitCDSwitch_mean_order'`: the order theorems of
   `Proofs/PrepareGdd.lean` without the premise "fewer than eight seasons".
C. `sortAsc` keeps pointwise order (`sortAsc_forall₂`), so `np.median` is monotone
   (`gddNpMedian_mono`); `prepareGdd_median_mono`, `calendarInitCDSwitch_median_order`.
-/

set_option linter.unusedSectionVars false
set_option linter.unusedVariables false
set_option linter.unusedSimpArgs false
namespace Aqua
variable {α : Type} [Field α] [LinearOrder α] [IsStrictOrderedRing α]

/-! ## A. numpy's summation order is irrelevant over a field -/

theorem zipWith_add_sum (l1 l2 : List α) (h : l1.length = l2.length) :
    (List.zipWith (· + ·) l1 l2).sum = l1.sum + l2.sum := by
  induction l1 generalizing l2 with
  | nil => cases l2 with
    | nil => simp
    | cons y ys => simp at h
  | cons x xs ih =>
    cases l2 with
    | nil => simp at h
    | cons y ys =>
      simp only [List.length_cons, Nat.add_right_cancel_iff] at h
      simp only [List.zipWith_cons_cons, List.sum_cons, ih ys h]
      ring

/-- the eight lanes after all complete blocks: still eight, and they add up to everything fed in -/
theorem lanes8_spec (fuel : Nat) (r xs : List α) (hr : r.length = 8) (hx : xs.length % 8 = 0)
    (hf : xs.length ≤ fuel) :
    (lanes8 fuel r xs).length = 8 ∧ (lanes8 fuel r xs).sum = r.sum + xs.sum := by
  induction fuel generalizing r xs with
  | zero =>
    have : xs = [] := List.length_eq_zero_iff.mp (by omega)
    subst this
    simp [lanes8, hr]
  | succ fuel ih =>
    unfold lanes8
    by_cases h8 : xs.length < 8
    · have : xs = [] := List.length_eq_zero_iff.mp (by omega)
      subst this
      simp [hr]
    · simp only [h8, if_false]
      have ht : (xs.take 8).length = 8 := by simp; omega
      have hr' : (List.zipWith (· + ·) r (xs.take 8)).length = 8 := by
        simp [List.length_zipWith, hr]; omega
      have hd : (xs.drop 8).length = xs.length - 8 := by simp
      obtain ⟨h1, h2⟩ := ih (List.zipWith (· + ·) r (xs.take 8)) (xs.drop 8) hr'
        (by rw [hd]; omega) (by rw [hd]; omega)
      refine ⟨h1, ?_⟩
      rw [h2, zipWith_add_sum r (xs.take 8) (by rw [hr, ht]), add_assoc,
        List.sum_take_add_sum_drop]

theorem npSumBlock_eq_sum (a : List α) : npSumBlock a = a.sum := by
  unfold npSumBlock
  by_cases h8 : a.length < 8
  · simp [h8, sumFrom_eq_sum]
  · simp only [h8, if_false]
    have hm8 : 8 ≤ a.length - a.length % 8 := by omega
    have hml : a.length - a.length % 8 ≤ a.length := by omega
    have hr : (a.take 8).length = 8 := by simp; omega
    have hxl : ((a.take (a.length - a.length % 8)).drop 8).length
        = a.length - a.length % 8 - 8 := by
      simp
    obtain ⟨h1, h2⟩ := lanes8_spec a.length (a.take 8)
      ((a.take (a.length - a.length % 8)).drop 8) hr (by rw [hxl]; omega) (by rw [hxl]; omega)
    have htt : a.take 8 = (a.take (a.length - a.length % 8)).take 8 := by
      rw [List.take_take]; congr 1; omega
    have hs : (a.take 8).sum + ((a.take (a.length - a.length % 8)).drop 8).sum +
        (a.drop (a.length - a.length % 8)).sum = a.sum := by
      rw [htt, List.sum_take_add_sum_drop, List.sum_take_add_sum_drop]
    generalize lanes8 a.length (a.take 8) ((a.take (a.length - a.length % 8)).drop 8) = L
      at h1 h2
    match L, h1 with
    | [r0, r1, r2, r3, r4, r5, r6, r7], _ =>
      simp only [sumFrom_eq_sum]
      rw [← hs, ← h2]
      simp only [List.sum_cons, List.sum_nil]
      ring

theorem npSumAux_eq_sum (fuel : Nat) (a : List α) : npSumAux fuel a = a.sum := by
  induction fuel generalizing a with
  | zero => simp [npSumAux, npSumBlock_eq_sum]
  | succ fuel ih =>
    unfold npSumAux
    by_cases h : a.length ≤ 128
    · simp [h, npSumBlock_eq_sum]
    · simp only [h, if_false, ih, List.sum_take_add_sum_drop]

/-- **numpy's order of additions gives, over a field, the plain sum — for every length** -/
theorem npSum_eq_sum (l : List α) : npSum l = l.sum := by
  simp [npSum, npSumAux_eq_sum]

theorem gddNpMean_eq' (l : List α) : gddNpMean l = l.sum / (l.length : α) := by
  simp [gddNpMean, npSum_eq_sum]

/-- **`np.mean` preserves pointwise order** (any number of values) -/
theorem gddNpMean_mono' {a b : List α} (h : List.Forall₂ (· ≤ ·) a b) :
    gddNpMean a ≤ gddNpMean b := by
  rw [gddNpMean_eq', gddNpMean_eq', h.length_eq]
  exact div_le_div_of_nonneg_right h.sum_le_sum (Nat.cast_nonneg _)

/-! ## C1. the median -/

theorem mem_insertAsc (x z : α) (l : List α) : z ∈ insertAsc x l ↔ z = x ∨ z ∈ l := by
  induction l with
  | nil => simp [insertAsc]
  | cons y ys ih =>
    unfold insertAsc
    by_cases h : x ≤ y
    · simp [h]
    · simp only [h, if_false, List.mem_cons, ih]
      tauto

theorem insertAsc_pairwise (x : α) {l : List α} (hl : l.Pairwise (· ≤ ·)) :
    (insertAsc x l).Pairwise (· ≤ ·) := by
  induction l with
  | nil => simp [insertAsc]
  | cons y ys ih =>
    unfold insertAsc
    rw [List.pairwise_cons] at hl
    by_cases h : x ≤ y
    · simp only [h, if_true, List.pairwise_cons]
      refine ⟨?_, hl.1, hl.2⟩
      intro z hz
      rcases List.mem_cons.mp hz with rfl | hz
      · exact h
      · exact le_trans h (hl.1 z hz)
    · simp only [h, if_false, List.pairwise_cons]
      refine ⟨?_, ih hl.2⟩
      intro z hz
      rcases (mem_insertAsc x z ys).mp hz with rfl | hz
      · exact le_of_lt (not_le.mp h)
      · exact hl.1 z hz

theorem sortAsc_pairwise (l : List α) : (sortAsc l).Pairwise (· ≤ ·) := by
  induction l with
  | nil => simp [sortAsc]
  | cons x xs ih => exact insertAsc_pairwise x ih

/-- inserting above the head of the left list -/
theorem forall₂_cons_insertAsc {s t : List α} (h : List.Forall₂ (· ≤ ·) s t) :
    ∀ (a y : α), a ≤ y → (a :: s).Pairwise (· ≤ ·) →
      List.Forall₂ (· ≤ ·) (a :: s) (insertAsc y t) := by
  induction h with
  | nil => intro a y hay _; simp [insertAsc, hay]
  | @cons a' b' s' t' hab hst ih =>
    intro a y hay hs
    unfold insertAsc
    rw [List.pairwise_cons] at hs
    by_cases hyb : y ≤ b'
    · simp only [hyb, if_true]
      exact List.Forall₂.cons hay (List.Forall₂.cons hab hst)
    · simp only [hyb, if_false]
      have h1 : a ≤ a' := hs.1 a' (by simp)
      refine List.Forall₂.cons (le_trans h1 hab) ?_
      exact ih a' y (le_trans hab (le_of_lt (not_le.mp hyb))) hs.2

/-- inserting below the head of the right list -/
theorem forall₂_insertAsc_cons {s t : List α} (h : List.Forall₂ (· ≤ ·) s t) :
    ∀ (x b : α), x ≤ b → (b :: t).Pairwise (· ≤ ·) →
      List.Forall₂ (· ≤ ·) (insertAsc x s) (b :: t) := by
  induction h with
  | nil => intro x b hxb _; simp [insertAsc, hxb]
  | @cons a' b' s' t' hab hst ih =>
    intro x b hxb ht
    unfold insertAsc
    rw [List.pairwise_cons] at ht
    have h1 : b ≤ b' := ht.1 b' (by simp)
    by_cases hxa : x ≤ a'
    · simp only [hxa, if_true]
      exact List.Forall₂.cons hxb (List.Forall₂.cons hab hst)
    · simp only [hxa, if_false]
      have hax : a' ≤ x := le_of_lt (not_le.mp hxa)
      refine List.Forall₂.cons (le_trans hax hxb) ?_
      exact ih x b' (le_trans hxb h1) ht.2

/-- **the insertion step keeps pointwise order of two ascending lists** -/
theorem forall₂_insertAsc {s t : List α} (h : List.Forall₂ (· ≤ ·) s t) :
    ∀ (x y : α), x ≤ y → s.Pairwise (· ≤ ·) → t.Pairwise (· ≤ ·) →
      List.Forall₂ (· ≤ ·) (insertAsc x s) (insertAsc y t) := by
  induction h with
  | nil => intro x y hxy _ _; simp [insertAsc, hxy]
  | @cons a b s' t' hab hst ih =>
    intro x y hxy hs ht
    by_cases hxa : x ≤ a
    · by_cases hyb : y ≤ b
      · simp only [insertAsc, hxa, hyb, if_true]
        exact List.Forall₂.cons hxy (List.Forall₂.cons hab hst)
      · have hby : b ≤ y := le_of_lt (not_le.mp hyb)
        have := forall₂_cons_insertAsc hst a y (le_trans hab hby) hs
        simp only [insertAsc, hxa, hyb, if_true, if_false]
        exact List.Forall₂.cons (le_trans hxa hab) this
    · have hax : a ≤ x := le_of_lt (not_le.mp hxa)
      by_cases hyb : y ≤ b
      · have := forall₂_insertAsc_cons hst x b (le_trans hxy hyb) ht
        simp only [insertAsc, hxa, hyb, if_true, if_false]
        exact List.Forall₂.cons (le_trans hax hxy) this
      · simp only [insertAsc, hxa, hyb, if_false]
        rw [List.pairwise_cons] at hs ht
        exact List.Forall₂.cons hab (ih x y hxy hs.2 ht.2)

/-- **sorting keeps pointwise order** (the k-th smallest is monotone) -/
theorem sortAsc_forall₂ {a b : List α} (h : List.Forall₂ (· ≤ ·) a b) :
    List.Forall₂ (· ≤ ·) (sortAsc a) (sortAsc b) := by
  induction h with
  | nil => simp [sortAsc]
  | @cons x y a' b' hxy hab ih =>
    exact forall₂_insertAsc ih x y hxy (sortAsc_pairwise a') (sortAsc_pairwise b')

/-- **`np.median` preserves pointwise order** (any number of values) -/
theorem gddNpMedian_mono {a b : List α} (h : List.Forall₂ (· ≤ ·) a b) :
    gddNpMedian a ≤ gddNpMedian b := by
  have hs := sortAsc_forall₂ h
  have hl := hs.length_eq
  unfold gddNpMedian
  simp only [← hl]
  by_cases h0 : (sortAsc a).length = 0
  · simp [h0]
  · simp only [h0, if_false]
    by_cases h1 : (sortAsc a).length % 2 = 1
    · simp only [h1, if_true]
      exact gddNpMean_mono' (List.forall₂_take _ (List.forall₂_drop _ hs))
    · simp only [h1, if_false]
      exact gddNpMean_mono' (List.forall₂_take _ (List.forall₂_drop _ hs))

/-! ## B, C2. the converted calendar keeps the order of the calendar-day indexes -/

/-- `'mean'` and `'median'` preserve pointwise order -/
theorem summarise_mono {sumFun : Nat} (hsf : sumFun = 0 ∨ sumFun = 1) (o1 o2 : α) {a b : List α}
    (h : List.Forall₂ (· ≤ ·) a b) : summarise sumFun o1 a ≤ summarise sumFun o2 b := by
  rcases hsf with rfl | rfl
  · simpa [summarise] using gddNpMean_mono' h
  · simpa [summarise] using gddNpMedian_mono h

/-- thermal-calendar order for `sum_fun` `'mean'` or `'median'`, any number of seasons -/
theorem prepareGdd_mono' {toInt : α → Int} {cropType : Nat} {hasCol : Bool} {sumFun : Nat}
    {s : GddStagesIn α} {old g : GddStages α} {rows : List (Option Nat × α)}
    (hsf : sumFun = 0 ∨ sumFun = 1) (hg : ∀ r ∈ rows, 0 ≤ r.2)
    (h : prepareGdd toInt cropType hasCol sumFun s old rows = .ok g) {a b : Stage}
    (ha : 0 ≤ toInt (a.cd s)) (hab : toInt (a.cd s) ≤ toInt (b.cd s)) : a.val g ≤ b.val g := by
  obtain ⟨vs, hall, hv⟩ := prepareGdd_val h
  rw [hv a, hv b]
  refine summarise_mono hsf _ _ ?_
  apply forall₂_map_of_forall
  intro v hvm
  obtain ⟨k, _, hs⟩ := allSeasons_mem hall v hvm
  exact seasonStages_mono (seasonGdd_nonneg hg k) hs ha hab

/-- **thermal-calendar order (C05), `sum_fun = 'mean'`, any number of seasons**: with non-negative
daily growing degrees the converted calendar keeps the order of the (non-negative) calendar-day
indexes: `int(aCD) ≤ int(bCD) → a ≤ b`. -/
theorem prepareGdd_mean_mono' {toInt : α → Int} {cropType : Nat} {hasCol : Bool}
    {s : GddStagesIn α} {old g : GddStages α} {rows : List (Option Nat × α)}
    (hg : ∀ r ∈ rows, 0 ≤ r.2)
    (h : prepareGdd toInt cropType hasCol 0 s old rows = .ok g) {a b : Stage}
    (ha : 0 ≤ toInt (a.cd s)) (hab : toInt (a.cd s) ≤ toInt (b.cd s)) : a.val g ≤ b.val g :=
  prepareGdd_mono' (Or.inl rfl) hg h ha hab

/-- **thermal-calendar order (C05), `sum_fun = 'median'`, any number of seasons** -/
theorem prepareGdd_median_mono {toInt : α → Int} {cropType : Nat} {hasCol : Bool}
    {s : GddStagesIn α} {old g : GddStages α} {rows : List (Option Nat × α)}
    (hg : ∀ r ∈ rows, 0 ≤ r.2)
    (h : prepareGdd toInt cropType hasCol 1 s old rows = .ok g) {a b : Stage}
    (ha : 0 ≤ toInt (a.cd s)) (hab : toInt (a.cd s) ≤ toInt (b.cd s)) : a.val g ≤ b.val g :=
  prepareGdd_mono' (Or.inr rfl) hg h ha hab

section entry
variable {F : Fn α} {toInt : α → Int} {c : CalCDIn α} {gddMethod : Nat} {tbase tupp : α}
  {hasCol : Bool} {sumFun : Nat} {oldYF oldFD : α} {rows : List (Option Nat × α × α)}
  {r : CalSwitchOut α}

/-- thermal-calendar order of the converted calendar, `sum_fun` `'mean'` or `'median'`, any number
of seasons, `Tbase ≤ Tupp` -/
theorem calendarInitCDSwitch_order' (hsf : sumFun = 0 ∨ sumFun = 1) (htb : tbase ≤ tupp)
    (h : calendarInitCDSwitch F toInt c gddMethod tbase tupp hasCol sumFun oldYF oldFD rows
      = .ok r) :
    (0 ≤ toInt c.emergenceCD → toInt c.emergenceCD ≤ toInt r.cal.maxCanopyCD →
      r.cal.emergence ≤ r.cal.maxCanopy) ∧
    (0 ≤ toInt r.cal.maxCanopyCD → toInt r.cal.maxCanopyCD ≤ toInt c.senescenceCD →
      r.cal.maxCanopy ≤ r.cal.senescence) ∧
    (0 ≤ toInt c.emergenceCD → toInt c.emergenceCD ≤ toInt c.senescenceCD →
      r.cal.emergence ≤ r.cal.senescence) ∧
    (0 ≤ toInt c.senescenceCD → toInt c.senescenceCD ≤ toInt c.maturityCD →
      r.cal.senescence ≤ r.cal.maturity) ∧
    (0 ≤ toInt c.hiStartCD → toInt c.hiStartCD ≤ toInt r.cal.hiEndCD →
      r.cal.hiStart ≤ r.cal.hiEnd) ∧
    (0 ≤ toInt r.cal.hiEndCD → toInt r.cal.hiEndCD ≤ toInt c.maturityCD →
      r.cal.hiEnd ≤ r.cal.maturity) := by
  unfold calendarInitCDSwitch at h
  cases h0 : calendarInitCD F { c with switchGDD := false } with
  | error e => simp [h0] at h
  | ok o =>
    simp only [h0] at h
    cases hm : GddMethod.ofNat? gddMethod with
    | none => simp [hm] at h
    | some m =>
      simp only [hm] at h
      split at h
      · simp at h
      · rename_i g hg
        cases h
        have hnn : ∀ q ∈ rows.map (fun q => (q.1, gddDayInit m tbase tupp q.2.1 q.2.2)),
            0 ≤ q.2 := by
          intro q hq
          obtain ⟨q0, _, rfl⟩ := List.mem_map.mp hq
          exact (gddDayInit_range m htb q0.2.1 q0.2.2).1
        refine ⟨fun h1 h2 => ?_, fun h1 h2 => ?_, fun h1 h2 => ?_, fun h1 h2 => ?_,
          fun h1 h2 => ?_, fun h1 h2 => ?_⟩
        · exact prepareGdd_mono' hsf hnn hg (a := .emergence) (b := .maxCanopy) h1 h2
        · exact prepareGdd_mono' hsf hnn hg (a := .maxCanopy) (b := .senescence) h1 h2
        · exact prepareGdd_mono' hsf hnn hg (a := .emergence) (b := .senescence) h1 h2
        · exact prepareGdd_mono' hsf hnn hg (a := .senescence) (b := .maturity) h1 h2
        · exact prepareGdd_mono' hsf hnn hg (a := .hiStart) (b := .hiEnd) h1 h2
        · exact prepareGdd_mono' hsf hnn hg (a := .hiEnd) (b := .maturity) h1 h2

/-- **thermal-calendar order of the converted calendar (feeds C05)**, `sum_fun = 'mean'`,
`Tbase ≤ Tupp`, ANY number of seasons -/
theorem calendarInitCDSwitch_mean_order' (htb : tbase ≤ tupp)
    (h : calendarInitCDSwitch F toInt c gddMethod tbase tupp hasCol 0 oldYF oldFD rows = .ok r) :
    (0 ≤ toInt c.emergenceCD → toInt c.emergenceCD ≤ toInt r.cal.maxCanopyCD →
      r.cal.emergence ≤ r.cal.maxCanopy) ∧
    (0 ≤ toInt r.cal.maxCanopyCD → toInt r.cal.maxCanopyCD ≤ toInt c.senescenceCD →
      r.cal.maxCanopy ≤ r.cal.senescence) ∧
    (0 ≤ toInt c.emergenceCD → toInt c.emergenceCD ≤ toInt c.senescenceCD →
      r.cal.emergence ≤ r.cal.senescence) ∧
    (0 ≤ toInt c.senescenceCD → toInt c.senescenceCD ≤ toInt c.maturityCD →
      r.cal.senescence ≤ r.cal.maturity) ∧
    (0 ≤ toInt c.hiStartCD → toInt c.hiStartCD ≤ toInt r.cal.hiEndCD →
      r.cal.hiStart ≤ r.cal.hiEnd) ∧
    (0 ≤ toInt r.cal.hiEndCD → toInt r.cal.hiEndCD ≤ toInt c.maturityCD →
      r.cal.hiEnd ≤ r.cal.maturity) :=
  calendarInitCDSwitch_order' (Or.inl rfl) htb h

/-- **thermal-calendar order of the converted calendar (feeds C05)**, `sum_fun = 'median'`,
`Tbase ≤ Tupp`, ANY number of seasons -/
theorem calendarInitCDSwitch_median_order (htb : tbase ≤ tupp)
    (h : calendarInitCDSwitch F toInt c gddMethod tbase tupp hasCol 1 oldYF oldFD rows = .ok r) :
    (0 ≤ toInt c.emergenceCD → toInt c.emergenceCD ≤ toInt r.cal.maxCanopyCD →
      r.cal.emergence ≤ r.cal.maxCanopy) ∧
    (0 ≤ toInt r.cal.maxCanopyCD → toInt r.cal.maxCanopyCD ≤ toInt c.senescenceCD →
      r.cal.maxCanopy ≤ r.cal.senescence) ∧
    (0 ≤ toInt c.emergenceCD → toInt c.emergenceCD ≤ toInt c.senescenceCD →
      r.cal.emergence ≤ r.cal.senescence) ∧
    (0 ≤ toInt c.senescenceCD → toInt c.senescenceCD ≤ toInt c.maturityCD →
      r.cal.senescence ≤ r.cal.maturity) ∧
    (0 ≤ toInt c.hiStartCD → toInt c.hiStartCD ≤ toInt r.cal.hiEndCD →
      r.cal.hiStart ≤ r.cal.hiEnd) ∧
    (0 ≤ toInt r.cal.hiEndCD → toInt r.cal.hiEndCD ≤ toInt c.maturityCD →
      r.cal.hiEnd ≤ r.cal.maturity) :=
  calendarInitCDSwitch_order' (Or.inr rfl) htb h

end entry

/-! ## non-vacuity: nine values (eight-lane regime), three values (median) -/

example : npSum ([1, 2, 3, 4, 5, 6, 7, 8, 9] : List ℚ) = 45 := by
  rw [npSum_eq_sum]; norm_num

example : gddNpMedian ([3, 1, 2] : List ℚ) = 2 ∧ gddNpMedian ([4, 1, 3, 2] : List ℚ) = 5 / 2 := by
  constructor <;>
    norm_num [gddNpMedian, sortAsc, insertAsc, gddNpMean, npSum, npSumAux, npSumBlock, sumFrom]

#print axioms npSum_eq_sum
#print axioms gddNpMean_eq'
#print axioms gddNpMean_mono'
#print axioms prepareGdd_mean_mono'
#print axioms calendarInitCDSwitch_mean_order'
#print axioms sortAsc_forall₂
#print axioms gddNpMedian_mono
#print axioms prepareGdd_median_mono
#print axioms calendarInitCDSwitch_median_order

end Aqua
