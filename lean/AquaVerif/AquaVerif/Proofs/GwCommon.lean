import AquaVerif.Proofs.Basic
/-
Helpers shared by the proof files of work package E (groundwater table, capillary rise,
groundwater inflow, pre-irrigation): a membership lemma for `List.Forall₂`, the laws assumed
about the non-algebraic functions `F : Fn α`, and a concrete compartment for non-vacuity examples.
-/

set_option linter.unusedSectionVars false
namespace Aqua
variable {α : Type} [Field α] [LinearOrder α] [IsStrictOrderedRing α]

theorem gw_forall₂_mem_right {β γ : Type} {R : β → γ → Prop} {xs : List β} {ys : List γ}
    (h : List.Forall₂ R xs ys) {y : γ} (hy : y ∈ ys) : ∃ x ∈ xs, R x y := by
  induction h with
  | nil => simp at hy
  | cons hr _ ih =>
    rcases List.mem_cons.mp hy with rfl | hy'
    · exact ⟨_, by simp, hr⟩
    · obtain ⟨x, hx, hR⟩ := ih hy'
      exact ⟨x, by simp [hx], hR⟩

theorem gw_forall₂_mem_left {β γ : Type} {R : β → γ → Prop} {xs : List β} {ys : List γ}
    (h : List.Forall₂ R xs ys) {x : β} (hx : x ∈ xs) : ∃ y ∈ ys, R x y := by
  induction h with
  | nil => simp at hx
  | cons hr _ ih =>
    rcases List.mem_cons.mp hx with rfl | hx'
    · exact ⟨_, by simp, hr⟩
    · obtain ⟨y, hy, hR⟩ := ih hx'
      exact ⟨y, by simp [hy], hR⟩

theorem gw_forall₂_and {β γ : Type} {R S : β → γ → Prop} {xs : List β} {ys : List γ}
    (h1 : List.Forall₂ R xs ys) (h2 : List.Forall₂ S xs ys) :
    List.Forall₂ (fun x y => R x y ∧ S x y) xs ys := by
  induction h1 with
  | nil => exact List.Forall₂.nil
  | cons hr _ ih =>
    cases h2 with
    | cons hs ht => exact List.Forall₂.cons ⟨hr, hs⟩ (ih ht)

/-- the only law of `exp` used: positivity. -/
structure GwExpLaws (F : Fn α) : Prop where
  exp_pos : ∀ x, 0 < F.exp x

/-- 4-decimal rounding is within half a unit of the last place: `|round(x,4) − x| ≤ 1/20000`. -/
structure GwRoundLaws (F : Fn α) : Prop where
  round4_err : ∀ x, |F.round4 x - x| ≤ 1 / 20000

/-- a positive rounded value comes from a positive argument (true of round-half-even: the result
is positive only if `x > 1/20000`). -/
structure GwRoundSign (F : Fn α) : Prop where
  round4_pos : ∀ x, 0 < F.round4 x → 0 < x

/-- `round(0) = 0` (integer rounding). -/
structure GwRound0Laws (F : Fn α) : Prop where
  round0_zero : F.round0 0 = 0

/-- a loam-like compartment over `ℚ` for non-vacuity examples -/
def gwExComp (dzsum zMid : ℚ) : Comp ℚ :=
  { dz := 1/10, dzsum := dzsum, zMid := zMid, thS := 1/2, thFC := 3/10, thWP := 1/10,
    thDry := 1/20, tau := 1/2, ksat := 500, pen := 100, aCR := -1/2, bCR := 1, layer := 1 }

theorem gwExComp_wf (a b : ℚ) : (gwExComp a b).WF := by
  constructor <;> simp [gwExComp] <;> norm_num

end Aqua
