import AquaVerif.Model.WeatherBind
/-
Lemmas about the implementation's weather handling (`Model/WeatherBind.lean`, work package T).
Core Lean only (no Mathlib needed).

§0  list facts about `keep` (boolean-mask selection) and `rowsOf`
§1  `weatherMatrix` depends on the table only through what the five names select (`SameView`):
    invariance under column permutation, extra columns, any index            (lemma 1 a–c)
§2  closed form for a single `Date` column (`wmSingle`)
§3  extra rows dated outside the window                                       (lemma 1 d)
§4  connection with `Aqua.RunShape.clip` / `bindTable`                        (lemma 3)
§5  contiguous sorted tables: positional access = access by date; counter-examples (lemma 2)
§6  no look-ahead at this level                                              (lemma 4)
-/

namespace Aqua.WeatherBind
open Aqua.RunShape

variable {κ ι ι' γ δ : Type}

/-! ## §0 `keep`, `rowsOf` -/

@[simp] theorem keep_nil_left (xs : List γ) : keep [] xs = [] := by
  cases xs <;> rfl

@[simp] theorem keep_nil_right (m : List Bool) : keep m ([] : List γ) = [] := by
  cases m <;> rfl

@[simp] theorem keep_cons_cons (b : Bool) (bs : List Bool) (x : γ) (xs : List γ) :
    keep (b :: bs) (x :: xs) = if b then x :: keep bs xs else keep bs xs := rfl

theorem keep_map (f : γ → δ) (m : List Bool) (xs : List γ) :
    keep m (xs.map f) = (keep m xs).map f := by
  induction m generalizing xs with
  | nil => simp
  | cons b bs ih =>
    cases xs with
    | nil => simp
    | cons x xs => cases b <;> simp [ih]

theorem keep_zipWith (f : γ → δ → ι) (m : List Bool) (xs : List γ) (ys : List δ) :
    keep m (List.zipWith f xs ys) = List.zipWith f (keep m xs) (keep m ys) := by
  induction m generalizing xs ys with
  | nil => simp
  | cons b bs ih =>
    cases xs with
    | nil => simp
    | cons x xs =>
      cases ys with
      | nil => simp
      | cons y ys => cases b <;> simp [ih]

/-- masking every column = masking the rows -/
theorem rowsOf_keep (m : List Bool) (cols : List (List γ)) :
    rowsOf (cols.map (keep m)) = keep m (rowsOf cols) := by
  induction cols with
  | nil => simp [rowsOf]
  | cons c cs ih =>
    cases cs with
    | nil => simp [rowsOf, keep_map]
    | cons c' cs =>
      simp only [List.map_cons, rowsOf] at ih ⊢
      rw [keep_zipWith, ← ih]

/-- a mask computed from a list selects what `filter` selects -/
theorem keep_map_self (f : γ → Bool) (l : List γ) : keep (l.map f) l = l.filter f := by
  induction l with
  | nil => rfl
  | cons a l ih => by_cases h : f a <;> simp [h, ih]

/-- the second mask is computed on the already masked column: both together are one mask -/
theorem keep_keep (f g : γ → Bool) (l : List γ) (xs : List δ) :
    keep ((l.filter f).map g) (keep (l.map f) xs) = keep (l.map (fun a => f a && g a)) xs := by
  induction l generalizing xs with
  | nil => simp
  | cons a l ih =>
    cases xs with
    | nil => simp
    | cons x xs => by_cases h : f a <;> simp [h, ih]

/-- masking with a mask computed from dates = filtering the dated records -/
theorem keep_map_zip (f : γ → Bool) (l : List γ) (xs : List δ) :
    keep (l.map f) xs = ((l.zip xs).filter (fun p => f p.1)).map (·.2) := by
  induction l generalizing xs with
  | nil => simp
  | cons a l ih =>
    cases xs with
    | nil => simp
    | cons x xs => by_cases h : f a <;> simp [h, ih]

/-- pointwise relation of two lists of equal length (core Lean has no `List.Forall₂`) -/
inductive Forall2 (R : γ → δ → Prop) : List γ → List δ → Prop
  | nil : Forall2 R [] []
  | cons {a b l l'} : R a b → Forall2 R l l' → Forall2 R (a :: l) (b :: l')

theorem Forall2.length_eq {R : γ → δ → Prop} {l : List γ} {l' : List δ} (h : Forall2 R l l') :
    l.length = l'.length := by
  induction h with
  | nil => rfl
  | cons _ _ ih => simp [ih]

/-- rows that the coarser mask `m` removes are not selected by `w` anyway -/
theorem keep_sub {m w : List Bool} (h : Forall2 (fun b v => b = false → v = false) m w)
    (xs : List γ) : keep (keep m w) (keep m xs) = keep w xs := by
  induction h generalizing xs with
  | nil => simp
  | @cons b v m w hbv _ ih =>
    cases xs with
    | nil => simp
    | cons x xs =>
      cases b with
      | true => cases v <;> simp [ih]
      | false => simp [hbv rfl, ih]

theorem keep_take (m : List Bool) (xs : List γ) (j : Nat) :
    keep (m.take j) (xs.take j) = (keep m xs).take ((m.take j).count true) := by
  induction j generalizing m xs with
  | zero => simp
  | succ j ih =>
    cases m with
    | nil => simp
    | cons b bs =>
      cases xs with
      | nil => simp
      | cons x xs => cases b <;> simp [ih]

theorem keep_append {m₁ : List Bool} {xs₁ : List γ} (h : m₁.length = xs₁.length) (m₂ : List Bool)
    (xs₂ : List γ) : keep (m₁ ++ m₂) (xs₁ ++ xs₂) = keep m₁ xs₁ ++ keep m₂ xs₂ := by
  induction m₁ generalizing xs₁ with
  | nil =>
    cases xs₁ with
    | nil => simp
    | cons _ _ => simp at h
  | cons b bs ih =>
    cases xs₁ with
    | nil => simp at h
    | cons x xs =>
      simp only [List.length_cons, Nat.add_right_cancel_iff] at h
      cases b <;> simp [ih h]

/-! ## §1 the matrix depends on the table only through what the five names select -/

theorem sel_filterRows (n : String) (t : WTable κ ι) (m : List Bool) :
    sel n (t.filterRows m).cols = (sel n t.cols).map (keep m) := by
  simp [sel, WTable.filterRows, List.filter_map, Function.comp_def]

/-- selection from a frame whose selected columns are the images under `f` of another frame's -/
theorem selectCols_map (f : List γ → List γ) (names : List String) (cs cs' : List (String × List γ))
    (h : ∀ n ∈ names, sel n cs = (sel n cs').map f) :
    selectCols names cs = match selectCols names cs' with
                          | .error err => .error err
                          | .ok r => .ok (r.map f) := by
  induction names with
  | nil => simp [selectCols]
  | cons n ns ih =>
    have hn := h n (by simp)
    have ih' := ih (fun k hk => h k (by simp [hk]))
    unfold selectCols
    rw [hn, ih']
    cases sel n cs' with
    | nil => simp
    | cons c rest =>
      cases selectCols ns cs' with
      | error err => simp
      | ok r => simp

theorem selectCols_congr (names : List String) (cs cs' : List (String × List γ))
    (h : ∀ n ∈ names, sel n cs = sel n cs') : selectCols names cs = selectCols names cs' := by
  have := selectCols_map id names cs cs' (by simpa using h)
  rw [this]
  cases selectCols names cs' <;> simp

/-- the checks and the two masks of `read_weather_inputs`, as a function of what `weather_df.Date`
selects (proof device: the model re-reads `Date` on the masked frame) -/
def windowMasks (s e : Int) (dcols : List (List (WCell κ))) : Except String (List Bool × List Bool) :=
  match edgeTestOn false (fun d => decide (s < d)) dcols with
  | .error err => .error err
  | .ok true => .error "E:first-date"
  | .ok false =>
    match edgeTestOn true (fun d => decide (d < e)) dcols with
    | .error err => .error err
    | .ok true => .error "E:last-date"
    | .ok false =>
      match maskOn (fun d => decide (s ≤ d)) dcols with
      | .error err => .error err
      | .ok m1 =>
        match maskOn (fun d => decide (d ≤ e)) (dcols.map (keep m1)) with
        | .error err => .error err
        | .ok m2 => .ok (m1, m2)

theorem readWeatherInputs_eq (s e : Int) (t : WTable κ ι) :
    readWeatherInputs s e t = match windowMasks s e (sel "Date" t.cols) with
                              | .error err => .error err
                              | .ok (m1, m2) => .ok ((t.filterRows m1).filterRows m2) := by
  unfold readWeatherInputs windowMasks dateEdgeTest dateMask
  simp only [sel_filterRows]
  repeat' split
  all_goals simp_all

/-- **View form.**  The matrix is a function of what `Date` selects and of what the five names
select; the index and every other column are never consulted. -/
theorem weatherMatrix_eq (s e : Int) (t : WTable κ ι) :
    weatherMatrix s e t = match windowMasks s e (sel "Date" t.cols) with
                          | .error err => .error err
                          | .ok (m1, m2) =>
                            match selectCols required t.cols with
                            | .error err => .error err
                            | .ok cs => .ok (keep m2 (keep m1 (rowsOf cs))) := by
  unfold weatherMatrix
  rw [readWeatherInputs_eq]
  cases windowMasks s e (sel "Date" t.cols) with
  | error err => rfl
  | ok mm =>
    obtain ⟨m1, m2⟩ := mm
    simp only [matrixOf]
    rw [selectCols_map (keep m2 ∘ keep m1) required _ t.cols
      (by intro n _; simp [sel_filterRows, List.map_map])]
    cases selectCols required t.cols with
    | error err => rfl
    | ok cs =>
      simp only
      rw [← List.map_map, rowsOf_keep, rowsOf_keep]

/-- two tables (possibly with different index types) in which each of the five names selects the
same columns -/
def SameView (t : WTable κ ι) (t' : WTable κ ι') : Prop :=
  ∀ n ∈ required, sel n t.cols = sel n t'.cols

theorem weatherMatrix_congr (s e : Int) {t : WTable κ ι} {t' : WTable κ ι'} (h : SameView t t') :
    weatherMatrix s e t = weatherMatrix s e t' := by
  rw [weatherMatrix_eq, weatherMatrix_eq, h "Date" (by simp [required]),
    selectCols_congr required t.cols t'.cols h]

/-! ### lemma 1 a–c: column permutation, extra columns, any index -/

theorem sel_cons (n : String) (x : String × List γ) (l : List (String × List γ)) :
    sel n (x :: l) = if x.1 == n then x.2 :: sel n l else sel n l := by
  unfold sel
  by_cases h : (x.1 == n) = true <;> simp [h]

/-- with distinct labels, what a name selects does not depend on the order of the columns -/
theorem sel_perm {cs cs' : List (String × List γ)} (hp : cs.Perm cs')
    (hnd : (cs.map (·.1)).Nodup) (n : String) : sel n cs = sel n cs' := by
  induction hp with
  | nil => rfl
  | cons x _ ih =>
    simp only [List.map_cons, List.nodup_cons] at hnd
    simp only [sel_cons, ih hnd.2]
  | swap x y l =>
    simp only [List.map_cons, List.nodup_cons, List.mem_cons, not_or] at hnd
    simp only [sel_cons]
    by_cases hx : (x.1 == n) = true <;> by_cases hy : (y.1 == n) = true
    · exfalso
      have h1 : x.1 = n := by simpa using hx
      have h2 : y.1 = n := by simpa using hy
      exact hnd.1.1 (by rw [h2, h1])
    · simp [hx, hy]
    · simp [hx, hy]
    · simp [hx, hy]
  | trans h1 _ ih1 ih2 =>
    rw [ih1 hnd]
    exact ih2 ((h1.map _).nodup_iff.mp hnd)

/-- **Lemma 1a.** Reordering the columns of a table with distinct labels (and replacing its index
by anything) does not change the result of `weatherMatrix` — value or error. -/
theorem weatherMatrix_perm_columns (s e : Int) (t : WTable κ ι) (t' : WTable κ ι')
    (hp : t.cols.Perm t'.cols) (hnd : (t.cols.map (·.1)).Nodup) :
    weatherMatrix s e t = weatherMatrix s e t' :=
  weatherMatrix_congr s e (fun n _ => sel_perm hp hnd n)

theorem sel_insert (pre extra post : List (String × List γ)) (n : String)
    (hx : ∀ c ∈ extra, c.1 ≠ n) : sel n (pre ++ extra ++ post) = sel n (pre ++ post) := by
  unfold sel
  have : extra.filter (fun c => c.1 == n) = [] := by
    simp only [List.filter_eq_nil_iff, beq_iff_eq]
    exact fun c hc => hx c hc
  simp [List.filter_append, this]

/-- **Lemma 1b.** Columns with other labels than the five names, inserted anywhere (labels need not
be distinct), do not change the result of `weatherMatrix` — value or error. -/
theorem weatherMatrix_extra_columns (s e : Int) (pre extra post : List (String × List (WCell κ)))
    (idx : List ι) (idx' : List ι') (hx : ∀ c ∈ extra, c.1 ∉ required) :
    weatherMatrix s e ({ cols := pre ++ extra ++ post, index := idx } : WTable κ ι) =
      weatherMatrix s e ({ cols := pre ++ post, index := idx' } : WTable κ ι') :=
  weatherMatrix_congr s e
    (fun n hn => sel_insert pre extra post n (fun c hc heq => hx c hc (heq ▸ hn)))

/-- **Lemma 1c.** Any change of the index (labels, type, even length) leaves the result unchanged. -/
theorem weatherMatrix_reindex (s e : Int) (t : WTable κ ι) (idx' : List ι') :
    weatherMatrix s e ({ cols := t.cols, index := idx' } : WTable κ ι') = weatherMatrix s e t :=
  weatherMatrix_congr s e (fun _ _ => rfl)

/-! ### the setter -/

theorem any_label_iff (n : String) (cs : List (String × List γ)) :
    cs.any (fun c => c.1 == n) = true ↔ sel n cs ≠ [] := by
  induction cs with
  | nil => simp [sel]
  | cons x l ih =>
    rw [sel_cons]
    by_cases h : (x.1 == n) = true
    · simp [h]
    · simp only [List.any_cons, h, Bool.false_or, ih]
      simp

theorem formatCheck_ok_iff (t : WTable κ ι) :
    formatCheck t = .ok () ↔ ∀ n ∈ required, sel n t.cols ≠ [] := by
  unfold formatCheck
  split
  · rename_i h
    simp only [List.all_eq_true] at h
    refine ⟨fun _ n hn => (any_label_iff n t.cols).mp (h n ?_), fun _ => rfl⟩
    simp [required] at hn ⊢
    rcases hn with h | h | h | h | h <;> simp [h]
  · rename_i h
    refine ⟨fun h' => (by cases h'), fun h' => absurd ?_ h⟩
    simp only [List.all_eq_true]
    intro n hn
    refine (any_label_iff n t.cols).mpr (h' n ?_)
    simp [required] at hn ⊢
    rcases hn with h | h | h | h | h <;> simp [h]

theorem formatCheck_eq (t : WTable κ ι) : formatCheck t = .ok () ∨ formatCheck t = .error "E:format" := by
  unfold formatCheck; split <;> simp

/-- the setter sees only the labels, which masking keeps -/
theorem formatCheck_filterRows (t : WTable κ ι) (m : List Bool) :
    formatCheck (t.filterRows m) = formatCheck t := by
  have key (n : String) : ((t.filterRows m).cols.any fun c => c.1 == n) = t.cols.any fun c => c.1 == n := by
    unfold WTable.filterRows
    induction t.cols with
    | nil => rfl
    | cons x l ih => simp only [List.map_cons, List.any_cons, ih]
  have hb : (["Date", "MinTemp", "MaxTemp", "Precipitation", "ReferenceET"].all
        fun n => (t.filterRows m).cols.any fun c => c.1 == n) =
      ["Date", "MinTemp", "MaxTemp", "Precipitation", "ReferenceET"].all
        fun n => t.cols.any fun c => c.1 == n := by
    simp only [key]
  unfold formatCheck
  rw [hb]

/-- As the model object does it: the format check first, then exactly `weatherMatrix`; the second
run of the setter (on the clipped frame) never fires. -/
theorem modelWeather_eq (s e : Int) (t : WTable κ ι) :
    modelWeather s e t = match formatCheck t with
                         | .error err => .error err
                         | .ok () => weatherMatrix s e t := by
  unfold modelWeather weatherMatrix
  cases hf : formatCheck t with
  | error err => rfl
  | ok u =>
    cases u
    simp only
    rw [readWeatherInputs_eq]
    cases windowMasks s e (sel "Date" t.cols) with
    | error err => rfl
    | ok mm =>
      obtain ⟨m1, m2⟩ := mm
      simp only [formatCheck_filterRows, hf]

theorem formatCheck_congr {t : WTable κ ι} {t' : WTable κ ι'} (h : SameView t t') :
    formatCheck t = formatCheck t' := by
  rcases formatCheck_eq t with h1 | h1 <;> rcases formatCheck_eq t' with h2 | h2
  · rw [h1, h2]
  · exfalso
    have := (formatCheck_ok_iff t).mp h1
    have h3 : formatCheck t' = .ok () :=
      (formatCheck_ok_iff t').mpr (fun n hn => by rw [← h n hn]; exact this n hn)
    rw [h3] at h2; cases h2
  · exfalso
    have := (formatCheck_ok_iff t').mp h2
    have h3 : formatCheck t = .ok () :=
      (formatCheck_ok_iff t).mpr (fun n hn => by rw [h n hn]; exact this n hn)
    rw [h3] at h1; cases h1
  · rw [h1, h2]

/-- lemma 1 a–c hold for `modelWeather` (setter included) as well -/
theorem modelWeather_congr (s e : Int) {t : WTable κ ι} {t' : WTable κ ι'} (h : SameView t t') :
    modelWeather s e t = modelWeather s e t' := by
  rw [modelWeather_eq, modelWeather_eq, formatCheck_congr h, weatherMatrix_congr s e h]

/-! ## §2 closed form for a table with exactly one column labelled `Date` -/

/-- the row mask of the window: dated inside `[s, e]` (`NaT` and missing values: outside) -/
def inWin (s e : Int) (x : WCell κ) : Bool :=
  x.test (fun d => decide (s ≤ d)) && x.test (fun d => decide (d ≤ e))

/-- `weatherMatrix` for one `Date` column `c`, given the selection `sc` of the five names from the
unclipped table: positional first / last checks, type check of the column, one combined mask -/
def wmSingle (s e : Int) (c : List (WCell κ)) (sc : Except String (List (List (WCell κ)))) :
    Except String (List (List (WCell κ))) :=
  match edgeTestOn false (fun d => decide (s < d)) [c] with
  | .error err => .error err
  | .ok true => .error "E:first-date"
  | .ok false =>
    match edgeTestOn true (fun d => decide (d < e)) [c] with
    | .error err => .error err
    | .ok true => .error "E:last-date"
    | .ok false =>
      if c.all (·.maskable) then
        match sc with
        | .error err => .error err
        | .ok cs => .ok (keep (c.map (inWin s e)) (rowsOf cs))
      else .error "E:type"

theorem all_maskable_filter {c : List (WCell κ)} (h : c.all (·.maskable) = true) (f : WCell κ → Bool) :
    (c.filter f).all (·.maskable) = true := by
  simp only [List.all_eq_true, List.mem_filter] at h ⊢
  exact fun x hx => h x hx.1

theorem weatherMatrix_single (s e : Int) {t : WTable κ ι} {c : List (WCell κ)}
    (h : sel "Date" t.cols = [c]) :
    weatherMatrix s e t = wmSingle s e c (selectCols required t.cols) := by
  rw [weatherMatrix_eq, h]
  unfold windowMasks wmSingle
  cases edgeTestOn false (fun d => decide (s < d)) [c] with
  | error err => rfl
  | ok b =>
    cases b with
    | true => rfl
    | false =>
      simp only
      cases edgeTestOn true (fun d => decide (d < e)) [c] with
      | error err => rfl
      | ok b' =>
        cases b' with
        | true => rfl
        | false =>
          simp only [maskOn, maskOf, List.map_cons, List.map_nil]
          by_cases hm : c.all (·.maskable) = true
          · have hm' := all_maskable_filter hm (fun x => x.test (fun d => decide (s ≤ d)))
            simp only [hm, if_true, keep_map_self, hm']
            cases selectCols required t.cols with
            | error err => rfl
            | ok cs => simp only [keep_keep]; rfl
          · simp only [hm]; rfl

/-- the edge tests of a single `Date` column, spelled out -/
theorem edgeTestOn_single (last : Bool) (p : Int → Bool) (c : List (WCell κ)) :
    edgeTestOn last p [c] = match edge last c with
                            | none => .error "E:index"
                            | some x => cmpCell p x := rfl

/-! ### the error alphabet; `E:frame-mask` is unreachable -/

theorem cmpCell_error {p : Int → Bool} {x : WCell κ} {err : String} (h : cmpCell p x = .error err) :
    err = "E:type" := by
  unfold cmpCell at h
  split at h
  · cases h
  · exact (Except.error.inj h).symm

theorem maskOf_error {p : Int → Bool} {c : List (WCell κ)} {err : String}
    (h : maskOf p c = .error err) : err = "E:type" := by
  unfold maskOf at h
  split at h
  · cases h
  · exact (Except.error.inj h).symm

theorem edgeTestOn_error {last : Bool} {p : Int → Bool} {dcols : List (List (WCell κ))} {err : String}
    (h : edgeTestOn last p dcols = .error err) :
    (err = "E:attr" ∧ dcols = []) ∨ err ∈ ["E:index", "E:type", "E:ambiguous"] := by
  match dcols, h with
  | [], h => simp only [edgeTestOn] at h; cases h; simp
  | [c], h =>
    simp only [edgeTestOn] at h
    split at h
    · cases h; simp
    · rw [cmpCell_error h]; simp
  | c :: c' :: cs, h =>
    simp only [edgeTestOn] at h
    split at h
    · cases h; simp
    · split at h <;> (cases h; simp)

/-- with two or more columns labelled `Date` the very first test raises -/
theorem edgeTestOn_many (last : Bool) (p : Int → Bool) (c c' : List (WCell κ))
    (cs : List (List (WCell κ))) : ∃ err, edgeTestOn last p (c :: c' :: cs) = .error err := by
  simp only [edgeTestOn]
  split
  · exact ⟨_, rfl⟩
  · split <;> exact ⟨_, rfl⟩

theorem windowMasks_error {s e : Int} {dcols : List (List (WCell κ))} {err : String}
    (h : windowMasks s e dcols = .error err) :
    (err = "E:attr" ∧ dcols = []) ∨
      err ∈ ["E:index", "E:type", "E:ambiguous", "E:first-date", "E:last-date"] := by
  unfold windowMasks at h
  split at h
  · rename_i h1
    cases h
    rcases edgeTestOn_error h1 with h | h
    · exact Or.inl h
    · right
      simp only [List.mem_cons, List.not_mem_nil, or_false] at h ⊢
      rcases h with h | h | h <;> simp [h]
  · cases h; simp
  · rename_i h0
    split at h
    · rename_i h1
      cases h
      rcases edgeTestOn_error h1 with h | h
      · exact Or.inl h
      · right
        simp only [List.mem_cons, List.not_mem_nil, or_false] at h ⊢
        rcases h with h | h | h <;> simp [h]
    · cases h; simp
    · -- both edge tests passed: exactly one `Date` column
      match dcols, h0 with
      | [], h0 => simp [edgeTestOn] at h0
      | c :: c' :: cs, h0 =>
        obtain ⟨err', he⟩ := edgeTestOn_many false (fun d => decide (s < d)) c c' cs
        rw [he] at h0; cases h0
      | [c], _ =>
        simp only [maskOn, List.map_cons, List.map_nil] at h
        split at h
        · rename_i h2
          cases h
          rw [maskOf_error h2]; simp
        · split at h
          · rename_i h3
            cases h
            rw [maskOf_error h3]; simp
          · cases h

theorem selectCols_error {names : List String} {cs : List (String × List γ)} {err : String}
    (h : selectCols names cs = .error err) : err = "E:key" ∧ ∃ n ∈ names, sel n cs = [] := by
  induction names with
  | nil => simp [selectCols] at h
  | cons n ns ih =>
    unfold selectCols at h
    split at h
    · rename_i h3
      exact ⟨(Except.error.inj h).symm, n, by simp, h3⟩
    · split at h
      · rename_i h3
        cases h
        obtain ⟨h4, k, hk, h5⟩ := ih h3
        exact ⟨h4, k, by simp [hk], h5⟩
      · cases h

/-- every error `weatherMatrix` can return; in particular the defensive `E:frame-mask` of
`maskOn` never surfaces.  `E:attr` only without a `Date` label, `E:key` only when one of the five
names is no label. -/
theorem weatherMatrix_error {s e : Int} {t : WTable κ ι} {err : String}
    (h : weatherMatrix s e t = .error err) :
    (err = "E:attr" ∧ sel "Date" t.cols = []) ∨ (err = "E:key" ∧ ∃ n ∈ required, sel n t.cols = []) ∨
      err ∈ ["E:index", "E:type", "E:ambiguous", "E:first-date", "E:last-date"] := by
  rw [weatherMatrix_eq] at h
  split at h
  · rename_i h1
    cases h
    rcases windowMasks_error h1 with h | h
    · exact Or.inl h
    · exact Or.inr (Or.inr h)
  · split at h
    · rename_i h2
      cases h
      exact Or.inr (Or.inl (selectCols_error h2))
    · cases h

theorem readWeatherInputs_ne_frameMask (s e : Int) (t : WTable κ ι) :
    readWeatherInputs s e t ≠ .error "E:frame-mask" := by
  rw [readWeatherInputs_eq]
  intro h
  split at h
  · rename_i h1
    cases h
    rcases windowMasks_error h1 with h | h
    · exact absurd h.1 (by decide)
    · revert h; decide
  · cases h

/-- after a successful format check (as in the model object) neither `AttributeError` nor
`KeyError` can occur -/
theorem modelWeather_error {s e : Int} {t : WTable κ ι} {err : String}
    (h : modelWeather s e t = .error err) :
    err ∈ ["E:format", "E:index", "E:type", "E:ambiguous", "E:first-date", "E:last-date"] := by
  rw [modelWeather_eq] at h
  rcases formatCheck_eq t with hf | hf
  · rw [hf] at h
    simp only at h
    have hsel := (formatCheck_ok_iff t).mp hf
    rcases weatherMatrix_error h with ⟨_, h1⟩ | ⟨_, n, hn, h1⟩ | h1
    · exact absurd h1 (hsel "Date" (by simp [required]))
    · exact absurd h1 (hsel n hn)
    · simp only [List.mem_cons, List.not_mem_nil, or_false] at h1 ⊢
      rcases h1 with h | h | h | h | h <;> simp [h]
  · rw [hf] at h
    cases h; simp

/-! ## §3 lemma 1d: extra rows dated outside the window -/

/-- a `Date` cell that the window mask rejects without a `TypeError`: a date outside `[s, e]`,
`NaT`, or a missing value -/
def Outside (s e : Int) (x : WCell κ) : Prop := x.maskable = true ∧ inWin s e x = false

theorem outside_date (s e d : Int) : Outside s e (.date d : WCell κ) ↔ d < s ∨ e < d := by
  simp only [Outside, WCell.maskable, inWin, WCell.test, true_and, Bool.and_eq_false_iff,
    decide_eq_false_iff_not]
  omega

theorem outside_nat (s e : Int) : Outside s e (.nat : WCell κ) := by
  simp [Outside, WCell.maskable, inWin, WCell.test]

theorem all_maskable_keep {s e : Int} {m : List Bool} {c : List (WCell κ)}
    (h : Forall2 (fun b x => b = false → Outside s e x) m c) :
    (keep m c).all (·.maskable) = c.all (·.maskable) := by
  induction h with
  | nil => rfl
  | @cons b x m c hbx _ ih =>
    cases b with
    | true => simp [ih]
    | false => simp [ih, (hbx rfl).1]

theorem mask_sub {s e : Int} {m : List Bool} {c : List (WCell κ)}
    (h : Forall2 (fun b x => b = false → Outside s e x) m c) :
    Forall2 (fun b v => b = false → v = false) m (c.map (inWin s e)) := by
  induction h with
  | nil => exact .nil
  | cons hbx _ ih => exact .cons (fun hb => (hbx hb).2) ih

/-- **Lemma 1d.**  `t` is `t'` with the rows removed where `m` is `false` (`hview`, on the columns
the five names select); the removed rows carry, in the `Date` column(s), dates outside `[s, e]`
(or `NaT` / missing values) (`hout`); and the two positional checks on the first and the last row
come out the same on both tables (`hfirst`, `hlast` — e.g. both pass).  Then the results of
`weatherMatrix` coincide — value or error. -/
theorem weatherMatrix_extra_rows (s e : Int) (t : WTable κ ι) (t' : WTable κ ι') (m : List Bool)
    (hview : ∀ n ∈ required, sel n t.cols = (sel n t'.cols).map (keep m))
    (hout : ∀ c ∈ sel "Date" t'.cols, Forall2 (fun b x => b = false → Outside s e x) m c)
    (hfirst : dateEdgeTest false (fun d => decide (s < d)) t' =
              dateEdgeTest false (fun d => decide (s < d)) t)
    (hlast : dateEdgeTest true (fun d => decide (d < e)) t' =
             dateEdgeTest true (fun d => decide (d < e)) t) :
    weatherMatrix s e t' = weatherMatrix s e t := by
  have hD := hview "Date" (by simp [required])
  unfold dateEdgeTest at hfirst hlast
  match hd : sel "Date" t'.cols with
  | [] =>
    rw [hd] at hD
    rw [weatherMatrix_eq, weatherMatrix_eq, hd, hD]
    rfl
  | c :: c' :: cs =>
    rw [hd] at hD hfirst
    obtain ⟨err, he⟩ := edgeTestOn_many false (fun d => decide (s < d)) c c' cs
    rw [weatherMatrix_eq, weatherMatrix_eq, hd]
    unfold windowMasks
    rw [← hfirst, he]
  | [c] =>
    rw [hd] at hD hfirst hlast
    simp only [List.map_cons, List.map_nil] at hD
    rw [hD] at hfirst hlast
    have hc := hout c (by rw [hd]; simp)
    rw [weatherMatrix_single s e hd, weatherMatrix_single s e hD]
    unfold wmSingle
    rw [hfirst, hlast, all_maskable_keep hc, selectCols_map (keep m) required t.cols t'.cols hview]
    cases selectCols required t'.cols with
    | error err => rfl
    | ok cs =>
      simp only
      rw [rowsOf_keep, ← keep_map, keep_sub (mask_sub hc)]

/-! ## §4 lemma 3: connection with `Aqua.RunShape.clip` and `bindTable` -/

/-- **Lemma 3 (rows).**  For a table with one `Date` column holding proper dates `ds`: after the
two positional checks, the matrix is the `clip` of the dated rows of the *unclipped* selection —
`Aqua.RunShape.clip` is exactly what `read_weather_inputs` does to the rows. -/
theorem weatherMatrix_eq_clip (s e : Int) {t : WTable κ ι} {ds : List Int}
    (h : sel "Date" t.cols = [ds.map .date]) :
    weatherMatrix s e t =
      match ds.head?, ds.getLast? with
      | some d0, some d1 =>
        if s < d0 then .error "E:first-date"
        else if d1 < e then .error "E:last-date"
        else match selectCols required t.cols with
          | .error err => .error err
          | .ok cs => .ok ((clip s e (ds.zip (rowsOf cs))).map (·.2))
      | _, _ => .error "E:index" := by
  rw [weatherMatrix_single s e h]
  unfold wmSingle
  simp only [edgeTestOn_single, edge, Bool.false_eq_true, if_false, if_true, List.head?_map,
    List.getLast?_map]
  cases ds with
  | nil => rfl
  | cons d rest =>
    rw [List.getLast?_eq_some_getLast (l := d :: rest) (by simp)]
    simp only [List.head?_cons, Option.map_some, cmpCell, WCell.isDateLike, if_true, WCell.test]
    by_cases h1 : s < d
    · simp [h1]
    · simp only [h1, decide_false, if_false]
      by_cases h2 : (d :: rest).getLast (by simp) < e
      · simp [h2]
      · simp only [h2, decide_false, if_false]
        have hm : ((d :: rest).map (WCell.date (κ := κ))).all (·.maskable) = true := by
          simp [WCell.maskable]
        rw [hm]
        simp only [if_true]
        cases selectCols required t.cols with
        | error err => rfl
        | ok cs =>
          simp only [List.map_map]
          rw [keep_map_zip]
          rfl

theorem len_le_one {l : List γ} (h : l.length ≤ 1) : l = [] ∨ ∃ c, l = [c] := by
  match l, h with
  | [], _ => exact Or.inl rfl
  | [c], _ => exact Or.inr ⟨c, rfl⟩
  | _ :: _ :: _, h => simp at h

/-- `Table.col` (first match) is the head of what the label selects -/
theorem col_eq_head_sel (t : Table γ) (n : String) : t.col n = (sel n t.cols).head? := by
  unfold Table.col sel
  rw [List.head?_map, List.head?_filter]

/-- **Lemma 3 (columns).**  When each of the five names labels at most one column (in particular
when all labels are distinct), pandas' label selection is `Aqua.RunShape.bindTable`. -/
theorem selectCols_eq_bindTable (t : Table γ) (h : ∀ n ∈ required, (sel n t.cols).length ≤ 1) :
    selectCols required t.cols = match bindTable t with
                                 | some cs => .ok cs
                                 | none => .error "E:key" := by
  have h1 := len_le_one (h "MinTemp" (by simp [required]))
  have h2 := len_le_one (h "MaxTemp" (by simp [required]))
  have h3 := len_le_one (h "Precipitation" (by simp [required]))
  have h4 := len_le_one (h "ReferenceET" (by simp [required]))
  have h5 := len_le_one (h "Date" (by simp [required]))
  simp only [required, selectCols, bindTable, col_eq_head_sel]
  rcases h1 with h1 | ⟨a, h1⟩ <;> rw [h1]
  · rfl
  rcases h2 with h2 | ⟨b, h2⟩ <;> rw [h2]
  · rfl
  rcases h3 with h3 | ⟨c, h3⟩ <;> rw [h3]
  · rfl
  rcases h4 with h4 | ⟨d, h4⟩ <;> rw [h4]
  · rfl
  rcases h5 with h5 | ⟨e, h5⟩ <;> rw [h5]
  · rfl
  rfl

/-- distinct labels: every name selects at most one column -/
theorem sel_length_le_one {cs : List (String × List γ)} (hnd : (cs.map (·.1)).Nodup) (n : String) :
    (sel n cs).length ≤ 1 := by
  induction cs with
  | nil => simp [sel]
  | cons x l ih =>
    simp only [List.map_cons, List.nodup_cons] at hnd
    rw [sel_cons]
    by_cases hx : (x.1 == n) = true
    · have hx' : x.1 = n := by simpa using hx
      have : sel n l = [] := by
        unfold sel
        simp only [List.map_eq_nil_iff, List.filter_eq_nil_iff, beq_iff_eq]
        intro c hc heq
        exact hnd.1 (by rw [hx', ← heq]; exact List.mem_map_of_mem hc)
      simp [hx, this]
    · simp only [hx]
      exact ih hnd.2

/-- **Lemma 3.**  `weatherMatrix` of a table with distinct labels and proper dates =
positional checks, then `bindTable` (C15's object) on the unclipped table, then `clip` (C14's
object) on the dated rows. -/
theorem weatherMatrix_eq_bind_clip (s e : Int) {t : WTable κ ι} {ds : List Int}
    (hnd : (t.cols.map (·.1)).Nodup) (h : sel "Date" t.cols = [ds.map .date]) :
    weatherMatrix s e t =
      match ds.head?, ds.getLast? with
      | some d0, some d1 =>
        if s < d0 then .error "E:first-date"
        else if d1 < e then .error "E:last-date"
        else match bindTable t.toTable with
          | none => .error "E:key"
          | some cs => .ok ((clip s e (ds.zip (rowsOf cs))).map (·.2))
      | _, _ => .error "E:index" := by
  rw [weatherMatrix_eq_clip s e h,
    selectCols_eq_bindTable t.toTable (fun n _ => sel_length_le_one hnd n)]
  cases bindTable t.toTable <;> rfl

/-! ## §5 lemma 2: sorted, gap-free, duplicate-free tables — positional access is access by date -/

/-- `n` consecutive days from `d` on -/
def contig : Int → Nat → List Int
  | _, 0 => []
  | d, n + 1 => d :: contig (d + 1) n

theorem mem_contig {x d : Int} {n : Nat} : x ∈ contig d n ↔ d ≤ x ∧ x < d + n := by
  induction n generalizing d with
  | zero => simp [contig] <;> omega
  | succ n ih => simp only [contig, List.mem_cons, ih]; omega

theorem contig_getElem? (d : Int) (n k : Nat) :
    (contig d n)[k]? = if k < n then some (d + k) else none := by
  induction n generalizing d k with
  | zero => simp [contig]
  | succ n ih =>
    cases k with
    | zero => simp [contig]
    | succ k =>
      simp only [contig, List.getElem?_cons_succ, ih, Nat.add_lt_add_iff_right]
      split
      · congr 1; omega
      · rfl

/-- clipping consecutive days that cover the window leaves exactly the days of the window -/
theorem filter_contig (d0 s e : Int) (n : Nat) (h0 : d0 ≤ s) (h1 : e < d0 + n) :
    (contig d0 n).filter (fun d => decide (s ≤ d) && decide (d ≤ e)) = contig s (e + 1 - s).toNat := by
  induction n generalizing d0 s with
  | zero =>
    have : (e + 1 - s).toNat = 0 := by omega
    simp [contig, this]
  | succ n ih =>
    by_cases hlt : d0 < s
    · have : ¬ s ≤ d0 := by omega
      simp only [contig, List.filter_cons, this, decide_false, Bool.false_and]
      exact ih (d0 + 1) s (by omega) (by omega)
    · have hd : d0 = s := by omega
      subst hd
      by_cases hse : d0 ≤ e
      · have h2 : (e + 1 - d0).toNat = (e + 1 - (d0 + 1)).toNat + 1 := by omega
        rw [h2]
        simp only [contig, List.filter_cons, Int.le_refl, hse, decide_true, Bool.and_self, if_true]
        congr 1
        have h3 := ih (d0 + 1) (d0 + 1) (by omega) (by omega)
        rw [← h3]
        apply List.filter_congr
        intro x hx
        have := (mem_contig.mp hx).1
        have e1 : decide (d0 ≤ x) = true := by simp; omega
        have e2 : decide (d0 + 1 ≤ x) = true := by simpa using this
        rw [e1, e2]
      · have h2 : (e + 1 - d0).toNat = 0 := by omega
        rw [h2]
        simp only [contig, List.filter_eq_nil_iff, Bool.and_eq_true, decide_eq_true_eq, not_and]
        intro x hx _
        have := (mem_contig (n := n + 1) |>.mp hx).1
        omega

/-- the last cell of row `j` of the selection `pre ++ [dcol]` is cell `j` of `dcol` -/
theorem rowsOf_getLast (pre : List (List γ)) (dcol : List γ) (j : Nat) (r : List γ)
    (h : (rowsOf (pre ++ [dcol]))[j]? = some r) : ∃ x, dcol[j]? = some x ∧ r.getLast? = some x := by
  induction pre generalizing r with
  | nil =>
    simp only [List.nil_append, rowsOf, List.getElem?_map, Option.map_eq_some_iff] at h
    obtain ⟨x, hx, rfl⟩ := h
    exact ⟨x, hx, rfl⟩
  | cons c pre ih =>
    have hne : ∃ c' cs, pre ++ [dcol] = c' :: cs := by
      cases pre with
      | nil => exact ⟨dcol, [], rfl⟩
      | cons a l => exact ⟨a, l ++ [dcol], rfl⟩
    obtain ⟨c', cs, hcs⟩ := hne
    rw [List.cons_append, hcs] at h
    simp only [rowsOf] at h
    rw [← hcs] at h
    rw [List.getElem?_zipWith] at h
    cases hc : c[j]? with
    | none => simp [hc] at h
    | some x0 =>
      cases hr : (rowsOf (pre ++ [dcol]))[j]? with
      | none => simp [hc, hr] at h
      | some r' =>
        simp only [hc, hr] at h
        obtain ⟨x, hx, hl⟩ := ih r' hr
        refine ⟨x, hx, ?_⟩
        have : r = x0 :: r' := by simpa using h.symm
        subst this
        cases r' with
        | nil => simp at hl
        | cons a l => simpa using hl

/-- masking keeps rows and `Date` cells aligned -/
theorem keep_rows_last (w : List Bool) (rows : List (List γ)) (dcol : List γ)
    (h : ∀ (j : Nat) (r : List γ), rows[j]? = some r → ∃ x, dcol[j]? = some x ∧ r.getLast? = some x) :
    ∀ (k : Nat) (r : List γ), (keep w rows)[k]? = some r →
      ∃ x, (keep w dcol)[k]? = some x ∧ r.getLast? = some x := by
  induction w generalizing rows dcol with
  | nil => intro k r hk; simp at hk
  | cons b w ih =>
    intro k r hk
    cases rows with
    | nil => simp at hk
    | cons r0 rows =>
      obtain ⟨x0, hx0, hl0⟩ := h 0 r0 rfl
      cases dcol with
      | nil => simp at hx0
      | cons y dcol =>
        simp only [List.getElem?_cons_zero, Option.some.injEq] at hx0
        subst hx0
        have h' : ∀ (j : Nat) (r : List γ), rows[j]? = some r →
            ∃ x, dcol[j]? = some x ∧ r.getLast? = some x := by
          intro j r hj
          simpa using h (j + 1) r (by simpa using hj)
        cases b with
        | false =>
          simp only [keep_cons_cons, Bool.false_eq_true, if_false] at hk ⊢
          exact ih rows dcol h' k r hk
        | true =>
          simp only [keep_cons_cons, if_true] at hk ⊢
          cases k with
          | zero =>
            simp only [List.getElem?_cons_zero, Option.some.injEq] at hk
            subst hk
            exact ⟨y, rfl, hl0⟩
          | succ k =>
            simp only [List.getElem?_cons_succ] at hk ⊢
            exact ih rows dcol h' k r hk

/-- the selection of `names ++ [n]` ends with what `n` selects -/
theorem selectCols_append_last (names : List String) (n : String) (cols : List (String × List γ))
    (cs : List (List γ)) (h : selectCols (names ++ [n]) cols = .ok cs) :
    ∃ pre, cs = pre ++ sel n cols := by
  induction names generalizing cs with
  | nil =>
    simp only [List.nil_append, selectCols] at h
    split at h
    · cases h
    · rename_i c rest hs
      simp only [List.append_nil, Except.ok.injEq] at h
      exact ⟨[], by rw [hs, ← h]; rfl⟩
  | cons k ks ih =>
    simp only [List.cons_append] at h
    unfold selectCols at h
    cases hk : sel k cols with
    | nil => rw [hk] at h; cases h
    | cons c rest =>
      rw [hk] at h
      cases hr : selectCols (ks ++ [n]) cols with
      | error err => rw [hr] at h; cases h
      | ok r =>
        rw [hr] at h
        obtain ⟨pre, hpre⟩ := ih r hr
        simp only [Except.ok.injEq] at h
        exact ⟨(c :: rest) ++ pre, by rw [← h, hpre, List.append_assoc]⟩

/-- **Lemma 2.**  A table whose `Date` column holds `n` consecutive days from `d0` on, in order
(sorted, no gap, no duplicate), covering the window (`d0 ≤ s`, `e < d0 + n`): whenever
`weatherMatrix` succeeds, the row handed to time step `k` carries date `s + k` — positional
access is access by date. -/
theorem dayRow_date_of_contiguous (s e d0 : Int) (n : Nat) {t : WTable κ ι}
    (h : sel "Date" t.cols = [(contig d0 n).map .date]) (h0 : d0 ≤ s) (h1 : e < d0 + n)
    {m : List (List (WCell κ))} (hm : weatherMatrix s e t = .ok m) (k : Nat) (r : List (WCell κ))
    (hr : dayRow m k = .ok r) : r.getLast? = some (.date (s + k)) := by
  rw [weatherMatrix_single s e h] at hm
  unfold wmSingle at hm
  repeat' split at hm
  all_goals first
    | cases hm
    | skip
  rename_i cs hsel
  obtain ⟨pre, hpre⟩ := selectCols_append_last ["MinTemp", "MaxTemp", "Precipitation", "ReferenceET"]
    "Date" t.cols cs hsel
  rw [h] at hpre
  subst hpre
  have hk : (keep (((contig d0 n).map (WCell.date (κ := κ))).map (inWin s e))
      (rowsOf (pre ++ [(contig d0 n).map .date])))[k]? = some r := by
    unfold dayRow at hr
    split at hr
    · rename_i r' hr'; cases hr; exact hr'
    · cases hr
  obtain ⟨x, hx, hl⟩ := keep_rows_last _ _ _ (rowsOf_getLast pre _) k r hk
  rw [hl]
  congr 1
  rw [keep_map_self, List.filter_map] at hx
  have hf : (contig d0 n).filter (inWin s e ∘ WCell.date (κ := κ)) =
      (contig d0 n).filter (fun d => decide (s ≤ d) && decide (d ≤ e)) := rfl
  rw [hf, filter_contig d0 s e n h0 h1, List.getElem?_map, contig_getElem?] at hx
  split at hx
  · simpa using hx.symm
  · cases hx

/-! ### examples: non-vacuity of lemma 2, and the counter-examples with a gap / unsorted rows -/

deriving instance DecidableEq for Except

/-- a four-variable table with the given `Date` column (columns deliberately not in the order of
the matrix, one extra column) -/
def exTableV (dates : List (WCell Nat)) (vals : List Nat) : WTable Nat Nat :=
  { cols := [("Date", dates), ("ReferenceET", vals.map (fun i => .num (30 + i))),
             ("Wind", vals.map (fun _ => .other)),
             ("MinTemp", vals.map (fun i => .num i)),
             ("Precipitation", vals.map (fun i => .num (20 + i))),
             ("MaxTemp", vals.map (fun i => .num (10 + i)))],
    index := List.range dates.length }

/-- … row `i` carrying the values `i, 10+i, 20+i, 30+i` -/
def exTable (dates : List (WCell Nat)) : WTable Nat Nat := exTableV dates (List.range dates.length)

/-- the day's row after a successful `weatherMatrix` -/
def exDay (s e : Int) (t : WTable Nat Nat) (k : Nat) : Except String (List (WCell Nat)) :=
  match weatherMatrix s e t with
  | .error err => .error err
  | .ok m => dayRow m k

/-- lemma 2 applies: days 9..14, window 10..13 — step 2 gets the row dated 12 (table row 3) -/
example : exDay 10 13 (exTable ((contig 9 6).map .date)) 2
    = .ok [.num 3, .num 13, .num 23, .num 33, .date 12] := by decide

/-- **Counter-example (gap).**  Day 12 is missing; the checks pass (first row ≤ start, last row
≥ end) and step 2 is handed the row dated 13. -/
example : exDay 10 14 (exTable [.date 10, .date 11, .date 13, .date 14]) 2
    = .ok [.num 2, .num 12, .num 22, .num 32, .date 13] := by decide

/-- … and a read of row 4 raises `IndexError` (4 rows for 5 days).  (The implementation runs `n − 1`
steps on a window of `n` days, so a *single* missing day is never noticed; two missing days end the
run with this `IndexError`: `harness/tests/repro_weather_bind_findings.py`, 3a / 3b.) -/
example : exDay 10 14 (exTable [.date 10, .date 11, .date 13, .date 14]) 4 = .error "E:index" := by
  decide

/-- **Counter-example (unsorted rows).**  Step 1 of the window 10..13 is handed the row dated 12. -/
example : exDay 10 13 (exTable [.date 10, .date 12, .date 11, .date 13]) 1
    = .ok [.num 1, .num 11, .num 21, .num 31, .date 12] := by decide

/-- **Counter-example (gap hidden by a duplicate).**  As many rows as days, both checks pass, no
error anywhere: day 12 silently runs on the weather dated 13. -/
example : exDay 10 13 (exTable [.date 10, .date 11, .date 13, .date 13]) 2
    = .ok [.num 2, .num 12, .num 22, .num 32, .date 13] := by decide

/-- the checks are positional, not min / max: a table that covers the window but is sorted
descending is rejected … -/
example : weatherMatrix 10 13 (exTable [.date 13, .date 12, .date 11, .date 10])
    = .error "E:first-date" := by decide

/-- … and a table that does *not* cover the window passes when its first and last rows happen to
satisfy them (every row is clipped away: an empty matrix, `IndexError` on day 0) -/
example : weatherMatrix 10 13 (exTable [.date 9, .date 20, .date 2, .date 14]) = .ok [] := by decide

/-- `NaT` in the first row passes the first-date check (the comparison is `False`) -/
example : exDay 10 11 (exTable [.nat, .date 10, .date 11]) 0
    = .ok [.num 1, .num 11, .num 21, .num 31, .date 10] := by decide

/-! ## §6 lemma 4: no look-ahead at this level -/

theorem rowsOf_take (j : Nat) (cols : List (List γ)) :
    rowsOf (cols.map (List.take j)) = (rowsOf cols).take j := by
  induction cols with
  | nil => simp [rowsOf]
  | cons c cs ih =>
    cases cs with
    | nil => simp [rowsOf, List.map_take]
    | cons c' cs =>
      simp only [List.map_cons, rowsOf] at ih ⊢
      rw [List.take_zipWith, ← ih]

theorem selectCols_agree (f : List γ → List γ) (names : List String)
    (cols cols' : List (String × List γ)) (cs cs' : List (List γ))
    (h : ∀ n ∈ names, (sel n cols).map f = (sel n cols').map f)
    (h1 : selectCols names cols = .ok cs) (h2 : selectCols names cols' = .ok cs') :
    cs.map f = cs'.map f := by
  induction names generalizing cs cs' with
  | nil =>
    simp only [selectCols, Except.ok.injEq] at h1 h2
    subst h1; subst h2; rfl
  | cons n ns ih =>
    unfold selectCols at h1 h2
    have hn := h n (by simp)
    cases hs : sel n cols with
    | nil => rw [hs] at h1; cases h1
    | cons c rest =>
      cases hs' : sel n cols' with
      | nil => rw [hs'] at h2; cases h2
      | cons c' rest' =>
        rw [hs] at h1 hn
        rw [hs'] at h2 hn
        cases hr : selectCols ns cols with
        | error err => rw [hr] at h1; cases h1
        | ok r =>
          cases hr' : selectCols ns cols' with
          | error err => rw [hr'] at h2; cases h2
          | ok r' =>
            rw [hr] at h1
            rw [hr'] at h2
            simp only [Except.ok.injEq] at h1 h2
            subst h1; subst h2
            rw [List.map_append, List.map_append, hn,
              ih r r' (fun k hk => h k (by simp [hk])) hr hr']

/-- when `wmSingle` succeeds it is the mask applied to the rows of the selection -/
theorem wmSingle_ok {s e : Int} {c : List (WCell κ)} {sc : Except String (List (List (WCell κ)))}
    {m : List (List (WCell κ))} (h : wmSingle s e c sc = .ok m) :
    ∃ cs, sc = .ok cs ∧ m = keep (c.map (inWin s e)) (rowsOf cs) := by
  unfold wmSingle at h
  repeat' split at h
  all_goals first
    | exact ⟨_, rfl, (Except.ok.inj h).symm⟩
    | cases h

/-- **Lemma 4 (no look-ahead, positional).**  Two tables, each with one `Date` column, that agree
on their first `j` rows (in the columns the five names select) and on both of which
`weatherMatrix` succeeds: their matrices agree on the first `q` rows, `q` = the number of
in-window rows among the first `j`.  So the row handed to step `k` depends only on the table rows
up to (and including) the `k+1`-th in-window row — for a table sorted by date: only on rows dated
`≤` that row's date.

What is *not* true: success itself depends on the whole table — the last-date check reads the last
row, the masks raise `TypeError` for an ill-typed `Date` cell anywhere (examples below). -/
theorem weatherMatrix_prefix (s e : Int) (j : Nat) {t : WTable κ ι} {t' : WTable κ ι'}
    {c c' : List (WCell κ)} (hd : sel "Date" t.cols = [c]) (hd' : sel "Date" t'.cols = [c'])
    (hview : ∀ n ∈ required, (sel n t.cols).map (List.take j) = (sel n t'.cols).map (List.take j))
    {m m' : List (List (WCell κ))} (hm : weatherMatrix s e t = .ok m)
    (hm' : weatherMatrix s e t' = .ok m') :
    m.take (((c.take j).map (inWin s e)).count true) =
      m'.take (((c.take j).map (inWin s e)).count true) := by
  rw [weatherMatrix_single s e hd] at hm
  rw [weatherMatrix_single s e hd'] at hm'
  obtain ⟨cs, hcs, rfl⟩ := wmSingle_ok hm
  obtain ⟨cs', hcs', rfl⟩ := wmSingle_ok hm'
  have hc : c.take j = c'.take j := by
    have := hview "Date" (by simp [required])
    rw [hd, hd'] at this
    simpa using this
  have hrows : (rowsOf cs).take j = (rowsOf cs').take j := by
    rw [← rowsOf_take, ← rowsOf_take, selectCols_agree (List.take j) required _ _ cs cs' hview hcs hcs']
  have e1 := keep_take (c.map (inWin s e)) (rowsOf cs) j
  have e2 := keep_take (c'.map (inWin s e)) (rowsOf cs') j
  rw [← List.map_take] at e1 e2
  rw [← e1, hc, ← e2, hrows]

/-- … in terms of the row handed to the day -/
theorem dayRow_prefix (s e : Int) (j : Nat) {t : WTable κ ι} {t' : WTable κ ι'}
    {c c' : List (WCell κ)} (hd : sel "Date" t.cols = [c]) (hd' : sel "Date" t'.cols = [c'])
    (hview : ∀ n ∈ required, (sel n t.cols).map (List.take j) = (sel n t'.cols).map (List.take j))
    {m m' : List (List (WCell κ))} (hm : weatherMatrix s e t = .ok m)
    (hm' : weatherMatrix s e t' = .ok m') (k : Nat)
    (hk : k < ((c.take j).map (inWin s e)).count true) : dayRow m k = dayRow m' k := by
  have h := weatherMatrix_prefix s e j hd hd' hview hm hm'
  have : m[k]? = m'[k]? := by
    have h1 : (m.take (((c.take j).map (inWin s e)).count true))[k]? =
        (m'.take (((c.take j).map (inWin s e)).count true))[k]? := by rw [h]
    rwa [List.getElem?_take_of_lt hk, List.getElem?_take_of_lt hk] at h1
  unfold dayRow
  rw [this]

/- non-vacuity: the tables differ from row 3 on; window 10..14; two of the first three rows are in
the window, so steps 0 and 1 read the same rows -/
/-- matrices of the two tables of the example below -/
def exM : List (List (WCell Nat)) :=
  [[.num 1, .num 11, .num 21, .num 31, .date 10], [.num 2, .num 12, .num 22, .num 32, .date 11],
   [.num 3, .num 13, .num 23, .num 33, .date 12], [.num 4, .num 14, .num 24, .num 34, .date 13],
   [.num 5, .num 15, .num 25, .num 35, .date 14]]
def exM' : List (List (WCell Nat)) :=
  [[.num 1, .num 11, .num 21, .num 31, .date 10], [.num 2, .num 12, .num 22, .num 32, .date 11],
   [.num 3, .num 13, .num 23, .num 33, .date 14], [.num 4, .num 14, .num 24, .num 34, .date 12]]

example : dayRow exM 1 = dayRow exM' 1 :=
  dayRow_prefix 10 14 3
    (t := exTable [.date 9, .date 10, .date 11, .date 12, .date 13, .date 14])
    (t' := exTable [.date 9, .date 10, .date 11, .date 14, .date 12, .date 20])
    (c := [.date 9, .date 10, .date 11, .date 12, .date 13, .date 14])
    (c' := [.date 9, .date 10, .date 11, .date 14, .date 12, .date 20])
    (by decide) (by decide) (by decide) (by decide) (by decide) 1 (by decide)

/-- the one dependence on the future: whether the run starts.  Changing only the *last* row turns
a successful set-up into `E:last-date` … -/
example : weatherMatrix 10 12 (exTable [.date 10, .date 11, .date 12]) ≠
    weatherMatrix 10 12 (exTable [.date 10, .date 11, .date 11]) := by decide

/-- … and an ill-typed `Date` cell anywhere raises -/
example : weatherMatrix 10 11 (exTable [.date 10, .date 11, .other, .date 12]) = .error "E:type" := by
  decide

/-! ### example for lemma 1d -/

/-- padding rows before and after the window (one dated, one `NaT`, one dated after), both checks
passing on both tables: the hypotheses of `weatherMatrix_extra_rows` are satisfiable -/
example : weatherMatrix 10 11 (exTableV [.date 3, .date 10, .date 11, .nat, .date 12, .date 40] [7, 0, 1, 8, 2, 9]) =
    weatherMatrix 10 11 (exTableV [.date 10, .date 11, .date 12] [0, 1, 2]) :=
  weatherMatrix_extra_rows 10 11 _ _ [false, true, true, false, true, false] (by decide)
    (by
      intro c hc
      have : c = [.date 3, .date 10, .date 11, .nat, .date 12, .date 40] := by
        simpa [exTableV, sel] using hc
      subst this
      exact .cons (fun _ => (outside_date 10 11 3).mpr (by omega))
        (.cons (fun h => by cases h) (.cons (fun h => by cases h)
          (.cons (fun _ => outside_nat 10 11) (.cons (fun h => by cases h)
            (.cons (fun _ => (outside_date 10 11 40).mpr (by omega)) .nil))))))
    (by decide) (by decide)

end Aqua.WeatherBind
