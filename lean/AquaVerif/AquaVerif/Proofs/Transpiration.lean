import AquaVerif.Model.Transpiration
import AquaVerif.Proofs.Basic

set_option linter.unusedSectionVars false
set_option linter.unusedVariables false
namespace Aqua
variable {α : Type} [Field α] [LinearOrder α] [IsStrictOrderedRing α]

/-! ## Frame: the parts of a cell `transpiration` never writes -/

/-- the constant part of a cell as far as `transpiration` is concerned -/
def Cell.trFrame (x : Cell α) : Comp α × α × α := (x.c, x.fcAdj, x.flux)

theorem tr_storage_eq_of_th_frame :
    ∀ (xs ys : List (Cell α)), xs.map Cell.trFrame = ys.map Cell.trFrame →
      xs.map (·.th) = ys.map (·.th) → storage xs = storage ys
  | [], [], _, _ => rfl
  | [], _ :: _, h, _ => by simp at h
  | _ :: _, [], h, _ => by simp at h
  | x :: xs, y :: ys, h, h' => by
    simp only [List.map_cons, List.cons.injEq] at h h'
    have := tr_storage_eq_of_th_frame xs ys h.2 h'.2
    have hc : x.c = y.c := congrArg Prod.fst h.1
    simp only [storage_cons, Cell.water, this, h'.1, hc]

theorem trIncAer_frame (l : α) : ∀ (n : Nat) (cs cs' : List (Cell α)), trIncAer l n cs = some cs' →
    cs'.map Cell.trFrame = cs.map Cell.trFrame ∧ cs'.map (·.th) = cs.map (·.th)
  | 0, cs, cs', h => by simp only [trIncAer, Option.some.injEq] at h; subst h; exact ⟨rfl, rfl⟩
  | n+1, [], cs', h => by simp [trIncAer] at h
  | n+1, x :: xs, cs', h => by
    simp only [trIncAer] at h
    split at h
    · simp at h
    · rename_i r hr
      simp only [Option.some.injEq] at h; subst h
      obtain ⟨h1, h2⟩ := trIncAer_frame l n xs r hr
      simp [h1, h2, Cell.trFrame]

theorem trExtractLoop_frame (F : Fn α) (p : TrLoopP α) : ∀ (n : Nat) (cs : List (Cell α))
    (te ta sp : α), (trExtractLoop F p n cs te ta sp).1.map Cell.trFrame = cs.map Cell.trFrame
  | 0, cs, te, ta, sp => by simp [trExtractLoop]
  | n+1, [], te, ta, sp => by simp [trExtractLoop]
  | n+1, x :: xs, te, ta, sp => by
    by_cases h : 0 < te
    · simp only [trExtractLoop, h, if_true, List.map_cons, trExtractLoop_frame F p n xs, Cell.trFrame]
    · simp only [trExtractLoop, h, if_false]

theorem trNetIrrLoop_frame (smt rd : α) : ∀ (n : Nat) (cs : List (Cell α)) (pl : Nat)
    (tc irr : α), (trNetIrrLoop smt rd n cs pl tc irr).1.map Cell.trFrame = cs.map Cell.trFrame
  | 0, cs, pl, tc, irr => by simp [trNetIrrLoop]
  | n+1, [], pl, tc, irr => by simp [trNetIrrLoop]
  | n+1, x :: xs, pl, tc, irr => by
    simp only [trNetIrrLoop, List.map_cons, trNetIrrLoop_frame smt rd n xs, Cell.trFrame]

/-! ## Stage lemmas: frame and water balance -/

theorem trSurface_spec {l : α} {n : Nat} {cells : List (Cell α)} {pond ds tp0 : α}
    {sf : TrSurfR α} (h : trSurface l n cells pond ds tp0 = .ok sf) :
    sf.cells.map Cell.trFrame = cells.map Cell.trFrame ∧ sf.cells.map (·.th) = cells.map (·.th) ∧
      sf.pond + sf.trAct0 = pond := by
  unfold trSurface at h
  by_cases h1 : 0 < pond ∧ ds < l
  · simp only [h1, and_self, if_true] at h
    cases hc : trIncAer l n cells with
    | none => simp [hc] at h
    | some cells' =>
      obtain ⟨f1, f2⟩ := trIncAer_frame l n cells cells' hc
      by_cases h2 : l ≤ 0 ∧ 0 ≤ l
      · simp [hc, h2] at h
      · simp only [hc, h2, if_false, Except.ok.injEq] at h
        subst h
        refine ⟨f1, f2, ?_⟩
        simp only []
        split_ifs <;> ring
  · simp only [h1, if_false, Except.ok.injEq] at h; subst h; simp

theorem trExtractLoop_balance (F : Fn α) (p : TrLoopP α) : ∀ (n : Nat) (cs : List (Cell α))
    (te ta sp : α), storage (trExtractLoop F p n cs te ta sp).1 + (trExtractLoop F p n cs te ta sp).2
      = storage cs + ta
  | 0, cs, te, ta, sp => by simp [trExtractLoop]
  | n+1, [], te, ta, sp => by simp [trExtractLoop]
  | n+1, x :: xs, te, ta, sp => by
    by_cases h : 0 < te
    · simp only [trExtractLoop, h, if_true, storage_cons, Cell.water]
      have ih := trExtractLoop_balance F p n xs
      generalize (trSink _ _ _ te x) = sink at *
      generalize trSxBotOf _ _ _ _ x = sb at *
      have := ih (te - sink * 1000 * x.c.dz) (ta + sink * 1000 * x.c.dz) sb
      linear_combination this
    · simp only [trExtractLoop, h, if_false, storage_cons]

theorem trNetIrrLoop_balance (smt rd : α) : ∀ (n : Nat) (cs : List (Cell α)) (pl : Nat)
    (tc irr : α), (∀ x ∈ cs, x.c.dz ≠ 0) →
      storage (trNetIrrLoop smt rd n cs pl tc irr).1 + irr
        = storage cs + (trNetIrrLoop smt rd n cs pl tc irr).2
  | 0, cs, pl, tc, irr, _ => by simp [trNetIrrLoop]
  | n+1, [], pl, tc, irr, _ => by simp [trNetIrrLoop]
  | n+1, x :: xs, pl, tc, irr, hdz => by
    have hx : x.c.dz ≠ 0 := hdz x (by simp)
    have hxs : ∀ y ∈ xs, y.c.dz ≠ 0 := fun y hy => hdz y (by simp [hy])
    simp only [trNetIrrLoop, storage_cons, Cell.water]
    have ih := trNetIrrLoop_balance smt rd n xs
    generalize (if pl < x.c.layer then _ else tc) = tc' at *
    generalize (if pl < x.c.layer then x.c.layer else pl) = pl' at *
    have := ih pl' tc' (irr + trRootFact rd x * (tc' - x.th) * 1000 * x.c.dz) hxs
    have e1 : 1000 * (x.th + trRootFact rd x * (tc' - x.th) * 1000 * x.c.dz / (1000 * x.c.dz)) * x.c.dz
        = 1000 * x.th * x.c.dz + trRootFact rd x * (tc' - x.th) * 1000 * x.c.dz := by
      field_simp
    linear_combination this + e1

theorem trNetIrr_spec {F : Fn α} {crop : TrCrop α} {m : Nat} {smt zTop rd : α} {cs : Nat}
    {cells : List (Cell α)} {st : TrState α} {tp : α} {ni : TrNetR α}
    (h : trNetIrr F crop m smt zTop rd cs cells st tp = .ok ni) :
    ni.cells.map Cell.trFrame = cells.map Cell.trFrame ∧
      ((∀ x ∈ cells, x.c.dz ≠ 0) → storage ni.cells = storage cells + ni.irrNet) := by
  unfold trNetIrr at h
  split_ifs at h with h1 h2
  · split at h
    · simp at h
    · rename_i rz hrz
      simp only [Except.ok.injEq] at h; subst h
      simp only []
      split_ifs with h3
      · refine ⟨trNetIrrLoop_frame _ _ _ _ _ _ _, fun hdz => ?_⟩
        have := trNetIrrLoop_balance smt rd cs cells 0
          (rz.thWP + smt / 100 * (rz.thFC - rz.thWP)) 0 hdz
        linear_combination this
      · simp
  · simp only [Except.ok.injEq] at h; subst h; simp
  · simp only [Except.ok.injEq] at h; subst h; simp

/-! ## Bounds on the extraction loop -/

theorem trSink_mul_le (stress sx rf te : α) (x : Cell α) (hdz : 0 < x.c.dz) (hte : 0 < te) :
    trSink stress sx rf te x * 1000 * x.c.dz ≤ te := by
  have ht : 0 < te / 1000 / x.c.dz := by positivity
  have key : trSink stress sx rf te x ≤ te / 1000 / x.c.dz := by
    unfold trSink
    simp only []
    split_ifs <;> linarith
  have e : te / 1000 / x.c.dz * 1000 * x.c.dz = te := by field_simp
  have : trSink stress sx rf te x * 1000 * x.c.dz ≤ te / 1000 / x.c.dz * 1000 * x.c.dz := by
    have h1000 : (0:α) < 1000 := by norm_num
    have := mul_le_mul_of_nonneg_right key (mul_pos h1000 hdz).le
    linarith
  linarith

theorem trSink_nonneg (stress sx rf te : α) (x : Cell α) (hdz : 0 < x.c.dz) (hte : 0 < te)
    (h0 : 0 ≤ stress * sx * rf) : 0 ≤ trSink stress sx rf te x := by
  have ht : 0 < te / 1000 / x.c.dz := by positivity
  unfold trSink
  simp only []
  split_ifs <;> linarith

/-- after the air-dry clamp the water content stays at or above air-dry -/
theorem trSink_dry (stress sx rf te : α) (x : Cell α) (hx : x.c.thDry ≤ x.th) :
    x.c.thDry ≤ x.th - trSink stress sx rf te x := by
  unfold trSink
  simp only []
  split_ifs <;> linarith

/-- the loop never extracts more than the demand (only `0 < dz` is needed) -/
theorem trExtractLoop_le (F : Fn α) (p : TrLoopP α) : ∀ (n : Nat) (cs : List (Cell α))
    (te ta sp : α), (∀ x ∈ cs, 0 < x.c.dz) →
      (trExtractLoop F p n cs te ta sp).2 ≤ ta + max 0 te
  | 0, cs, te, ta, sp, _ => by simp [trExtractLoop]
  | n+1, [], te, ta, sp, _ => by simp [trExtractLoop]
  | n+1, x :: xs, te, ta, sp, hdz => by
    have hx : 0 < x.c.dz := hdz x (by simp)
    have hxs : ∀ y ∈ xs, 0 < y.c.dz := fun y hy => hdz y (by simp [hy])
    by_cases h : 0 < te
    · simp only [trExtractLoop, h, if_true]
      have ih := trExtractLoop_le F p n xs
      have hs := trSink_mul_le (if p.net = true then (trAerComp p.lagAer p.aer p.daySub x).1
          else pmin (trKsComp F p.pUp1 p.pLo1 p.fsh1 p.pUpSto x)
            (trAerComp p.lagAer p.aer p.daySub x).1)
        (if p.net = true then (p.sxTop + p.sxBot) / 2
          else (sp + trSxBotOf p.sxTop p.sxBot p.rCor p.rootdepth x) / 2)
        (trRootFact p.rootdepth x) te x hx h
      generalize (trSink _ _ _ te x) = sink at *
      generalize trSxBotOf _ _ _ _ x = sb at *
      have := ih (te - sink * 1000 * x.c.dz) (ta + sink * 1000 * x.c.dz) sb hxs
      have h1 : max 0 (te - sink * 1000 * x.c.dz) = te - sink * 1000 * x.c.dz :=
        max_eq_right (by linarith)
      have h2 : max 0 te = te := max_eq_right h.le
      rw [h1] at this; rw [h2]; linarith
    · simp only [trExtractLoop, h, if_false]
      have : 0 ≤ max 0 te := le_max_left _ _
      linarith

theorem trKsComp_bounds (F : Fn α) (a b c d : α) (x : Cell α) :
    0 ≤ trKsComp F a b c d x ∧ trKsComp F a b c d x ≤ 1 := by
  unfold trKsComp
  simp only []
  split_ifs <;> constructor <;> linarith

theorem trAerComp_nonneg (l a ds : α) (x : Cell α) (hx : 0 ≤ x.aer) :
    0 ≤ (trAerComp l a ds x).1 := by
  unfold trAerComp
  by_cases h1 : l ≤ ds
  · simp [h1]
  · by_cases h2 : x.c.thS - a / 100 < x.th
    · simp only [h1, h2, if_false, if_true]
      set ac : α := (if (x.c.thS - x.th) / (x.c.thS - (x.c.thS - a / 100)) < 0 then 0
        else (x.c.thS - x.th) / (x.c.thS - (x.c.thS - a / 100))) with hac
      have hac0 : 0 ≤ ac := by
        rw [hac]; split_ifs with h3
        · exact le_refl _
        · exact not_lt.mp h3
      by_cases h3 : l ≤ x.aer + 1
      · simp only [h3, if_true, zero_add]
        by_cases h4 : l - 1 = 0
        · simp [h4]
        · rw [mul_div_cancel_left₀ _ h4]; exact hac0
      · simp only [h3, if_false]
        apply div_nonneg
        · have : 0 ≤ (x.aer + 1 - 1) * ac := by
            apply mul_nonneg _ hac0; linarith
          linarith
        · linarith
    · simp [h1, h2]

theorem tr_sxBotOf_nonneg (sxTop sxBot rCor rd : α) (x : Cell α) (h1 : 0 ≤ sxTop) (h2 : 0 ≤ sxBot)
    (h3 : 0 ≤ rCor) (hrd : 0 < rd) (hz : 0 ≤ x.c.dzsum) : 0 ≤ trSxBotOf sxTop sxBot rCor rd x := by
  unfold trSxBotOf
  have hb : 0 ≤ sxBot * rCor := mul_nonneg h2 h3
  split_ifs with h
  · set t := (rd - x.c.dzsum) / rd with ht
    have t0 : 0 ≤ t := div_nonneg (by linarith) hrd.le
    have t1 : t ≤ 1 := by rw [ht, div_le_one hrd]; linarith
    have : sxBot * rCor + (sxTop - sxBot * rCor) * t = (1 - t) * (sxBot * rCor) + t * sxTop := by
      ring
    rw [this]
    have := mul_nonneg (sub_nonneg.mpr t1) hb
    have := mul_nonneg t0 h1
    linarith
  · exact hb

/-- premises under which every sink of the extraction loop is non-negative -/
structure TrLoopP.NonnegOK (p : TrLoopP α) : Prop where
  sxTop : 0 ≤ p.sxTop
  sxBot : 0 ≤ p.sxBot
  rCor : 0 ≤ p.rCor
  rd : 0 < p.rootdepth

/-- what the first `n` cells must satisfy for non-negative sinks -/
def TrCellNonnegOK (rd : α) (x : Cell α) : Prop :=
  0 < x.c.dz ∧ 0 ≤ x.aer ∧ 0 ≤ trRootFact rd x ∧ 0 ≤ x.c.dzsum

theorem trExtractLoop_ge (F : Fn α) (p : TrLoopP α) (hp : p.NonnegOK) : ∀ (n : Nat)
    (cs : List (Cell α)) (te ta sp : α), 0 ≤ sp → (∀ x ∈ cs.take n, TrCellNonnegOK p.rootdepth x) →
      ta ≤ (trExtractLoop F p n cs te ta sp).2
  | 0, cs, te, ta, sp, _, _ => by simp [trExtractLoop]
  | n+1, [], te, ta, sp, _, _ => by simp [trExtractLoop]
  | n+1, x :: xs, te, ta, sp, hsp, hc => by
    obtain ⟨hdz, haer, hrf, hzs⟩ := hc x (by simp)
    have hxs : ∀ y ∈ xs.take n, TrCellNonnegOK p.rootdepth y := fun y hy => hc y (by simp [hy])
    by_cases h : 0 < te
    · simp only [trExtractLoop, h, if_true]
      have hsb := tr_sxBotOf_nonneg p.sxTop p.sxBot p.rCor p.rootdepth x hp.sxTop hp.sxBot hp.rCor
        hp.rd hzs
      have hks := (trKsComp_bounds F p.pUp1 p.pLo1 p.fsh1 p.pUpSto x).1
      have hac := trAerComp_nonneg p.lagAer p.aer p.daySub x haer
      have hstress : 0 ≤ (if p.net = true then (trAerComp p.lagAer p.aer p.daySub x).1
          else pmin (trKsComp F p.pUp1 p.pLo1 p.fsh1 p.pUpSto x)
            (trAerComp p.lagAer p.aer p.daySub x).1) := by
        split_ifs
        · exact hac
        · rw [pmin_eq]; exact le_min hks hac
      have hsx : 0 ≤ (if p.net = true then (p.sxTop + p.sxBot) / 2
          else (sp + trSxBotOf p.sxTop p.sxBot p.rCor p.rootdepth x) / 2) := by
        have := hp.sxTop; have := hp.sxBot
        split_ifs <;> linarith
      have hs := trSink_nonneg _ _ _ te x hdz h (mul_nonneg (mul_nonneg hstress hsx) hrf)
      have ih := trExtractLoop_ge F p hp n xs
      generalize (trSink _ _ _ te x) = sink at *
      generalize trSxBotOf _ _ _ _ x = sb at *
      have := ih (te - sink * 1000 * x.c.dz) (ta + sink * 1000 * x.c.dz) sb hsb hxs
      have : 0 ≤ sink * 1000 * x.c.dz := by positivity
      linarith
    · simp only [trExtractLoop, h, if_false]; exact le_refl _

/-! ## Ponded uptake, `Ks`, geometry -/

theorem trSurface_bounds {l : α} {n : Nat} {cells : List (Cell α)} {pond ds tp0 : α}
    {sf : TrSurfR α} (h : trSurface l n cells pond ds tp0 = .ok sf) (hds : 0 ≤ ds)
    (htp : 0 ≤ tp0) : 0 ≤ sf.trPot ∧ sf.trAct0 + sf.trPot ≤ tp0 ∧
      ((ds < l → ds + 1 ≤ l) → 0 ≤ sf.trAct0) := by
  unfold trSurface at h
  by_cases h1 : 0 < pond ∧ ds < l
  · simp only [h1, and_self, if_true] at h
    cases hc : trIncAer l n cells with
    | none => simp [hc] at h
    | some cells' =>
      by_cases h2 : l ≤ 0 ∧ 0 ≤ l
      · simp [hc, h2] at h
      · simp only [hc, h2, if_false, Except.ok.injEq] at h
        subst h
        have hl : 0 < l := lt_of_le_of_lt hds h1.2
        have hq : 0 ≤ (ds + 1) / l := div_nonneg (by linarith) hl.le
        have hf : (1 - (ds + 1) / l) * tp0 ≤ tp0 := by
          have := mul_nonneg hq htp
          linarith
        simp only []
        refine ⟨?_, ?_, ?_⟩
        · split_ifs <;> linarith
        · split_ifs <;> linarith
        · intro hint
          have hq1 : (ds + 1) / l ≤ 1 := by rw [div_le_one hl]; exact hint h1.2
          have : 0 ≤ (1 - (ds + 1) / l) * tp0 := mul_nonneg (by linarith) htp
          split_ifs <;> linarith
  · simp only [h1, if_false, Except.ok.injEq] at h; subst h
    simp only []
    exact ⟨htp, by linarith, fun _ => le_refl _⟩

theorem tr_drel_bounds (up lo dr taw : α) (htaw : 0 ≤ taw) :
    0 ≤ drel up lo dr taw ∧ drel up lo dr taw ≤ 1 := by
  unfold drel
  split_ifs with h1 h2
  · exact ⟨le_refl _, zero_le_one⟩
  · have h1' : up * taw < dr := not_le.mp h1
    have ht : 0 < taw := by
      rcases htaw.lt_or_eq with h | h
      · exact h
      · rw [← h] at h1' h2; simp at h1' h2; linarith
    have hup : up < dr / taw := by rw [lt_div_iff₀ ht]; exact h1'
    have hlo : dr / taw < lo := by rw [div_lt_iff₀ ht]; exact h2
    have hd : 0 < lo - up := by linarith
    have q0 : 0 ≤ (lo - dr / taw) / (lo - up) := div_nonneg (by linarith) hd.le
    have q1 : (lo - dr / taw) / (lo - up) ≤ 1 := by rw [div_le_one hd]; linarith
    constructor <;> linarith
  · exact ⟨zero_le_one, le_refl _⟩

theorem tr_rootZoneWater_taw_nonneg {F : Fn α} {cells : List (Cell α)} {zRoot zTop zMin aer : α}
    {rz : RZ α} (h : rootZoneWater F cells zRoot zTop zMin aer = some rz) :
    0 ≤ rz.tawRz ∧ 0 ≤ rz.tawZt := by
  unfold rootZoneWater at h
  simp only [] at h
  split at h
  · simp at h
  · split at h
    · simp at h
    · rename_i a _
      have hp : ∀ v : α, 0 ≤ pmax v 0 := fun v => by rw [pmax_eq]; exact le_max_right _ _
      split_ifs at h
      all_goals first
        | (simp only [Option.some.injEq] at h; subst h; exact ⟨hp _, hp _⟩)
        | (split at h
           · simp at h
           · simp only [Option.some.injEq] at h; subst h; exact ⟨hp _, hp _⟩)

/-- `Ks ≤ 1` needs no law about `exp`/`log10`: `Ks ≤ Ksw.sto_lin = 1 - Drel ≤ 1`. -/
theorem trKs_le_one {F : Fn α} (crop : TrCrop α) {rz : RZ α} (tes ad et0 : α)
    (h1 : 0 ≤ rz.tawRz) (h2 : 0 ≤ rz.tawZt) : (trKs F crop rz tes ad et0).1 ≤ 1 := by
  unfold trKs
  simp only [pmin_eq]
  apply le_trans (min_le_left _ _)
  unfold waterStress
  simp only []
  have : ∀ up lo dr : α, 0 ≤ drel up lo dr
      (if decide (rz.drRz / rz.tawRz ≤ rz.drZt / rz.tawZt) = true then rz.tawRz else rz.tawZt) := by
    intro up lo dr
    apply (tr_drel_bounds _ _ _ _ _).1
    split_ifs <;> assumption
  exact sub_le_self _ (this _ _ _)

/-- idealised compartment geometry: `dzsum` is the running sum of the positive thicknesses -/
def TrGeom : α → List (Cell α) → Prop
  | _, [] => True
  | top, x :: xs => 0 < x.c.dz ∧ x.c.dzsum = top + x.c.dz ∧ TrGeom x.c.dzsum xs

theorem tr_countBelow_eq_zero_of_geom (rd : α) : ∀ (cs : List (Cell α)) (top : α),
    TrGeom top cs → rd ≤ top → countBelow rd cs = 0
  | [], _, _, _ => rfl
  | x :: xs, top, hg, ht => by
    obtain ⟨hdz, hs, hg'⟩ := hg
    have : ¬ x.c.dzsum < rd := by rw [hs]; intro h; linarith
    simp only [countBelow, this, if_false, Nat.zero_add]
    exact tr_countBelow_eq_zero_of_geom rd xs _ hg' (by linarith)

theorem tr_rootFact_le_one (rd : α) (x : Cell α) (hdz : 0 < x.c.dz) : trRootFact rd x ≤ 1 := by
  unfold trRootFact
  split_ifs with h
  · have : 0 ≤ (x.c.dzsum - rd) / x.c.dz := div_nonneg (by linarith) hdz.le
    linarith
  · exact le_refl _

/-- in the compartments of the root zone (the first `np.sum(dzsum < rootdepth) + 1`) the root
fraction lies in `[0, 1]` -/
theorem tr_rootFact_bounds_of_geom (rd : α) : ∀ (cs : List (Cell α)) (top : α),
    TrGeom top cs → top ≤ rd → ∀ x ∈ cs.take (countBelow rd cs + 1),
      0 ≤ trRootFact rd x ∧ trRootFact rd x ≤ 1
  | [], _, _, _ => by simp
  | x :: xs, top, hg, ht => by
    obtain ⟨hdz, hs, hg'⟩ := hg
    intro y hy
    simp only [List.take_succ_cons, List.mem_cons] at hy
    rcases hy with rfl | hy
    · refine ⟨?_, tr_rootFact_le_one rd _ hdz⟩
      unfold trRootFact
      split_ifs with h
      · have : (y.c.dzsum - rd) / y.c.dz ≤ 1 := by rw [div_le_one hdz]; linarith
        linarith
      · exact zero_le_one
    · by_cases h : x.c.dzsum < rd
      · simp only [countBelow, h, if_true] at hy
        rw [Nat.add_comm 1] at hy
        exact tr_rootFact_bounds_of_geom rd xs _ hg' h.le y hy
      · have h0 := tr_countBelow_eq_zero_of_geom rd xs _ hg' (not_lt.mp h)
        simp only [countBelow, h, if_false, h0] at hy
        simp at hy

theorem trGeom_dz_pos : ∀ (cs : List (Cell α)) (top : α), TrGeom top cs → ∀ x ∈ cs, 0 < x.c.dz
  | [], _, _ => by simp
  | x :: xs, top, hg => by
    intro y hy
    rcases List.mem_cons.mp hy with rfl | hy
    · exact hg.1
    · exact trGeom_dz_pos xs _ hg.2.2 y hy

theorem trGeom_dzsum_nonneg : ∀ (cs : List (Cell α)) (top : α), TrGeom top cs → 0 ≤ top →
    ∀ x ∈ cs, 0 ≤ x.c.dzsum
  | [], _, _, _ => by simp
  | x :: xs, top, hg, ht => by
    intro y hy
    have hx : 0 ≤ x.c.dzsum := by rw [hg.2.1]; linarith [hg.1]
    rcases List.mem_cons.mp hy with rfl | hy
    · exact hx
    · exact trGeom_dzsum_nonneg xs _ hg.2.2 hx y hy

theorem trGeom_of_frame : ∀ (xs ys : List (Cell α)) (top : α),
    ys.map Cell.trFrame = xs.map Cell.trFrame → TrGeom top xs → TrGeom top ys
  | [], [], _, _, _ => trivial
  | [], _ :: _, _, h, _ => by simp at h
  | _ :: _, [], _, h, _ => by simp at h
  | x :: xs, y :: ys, top, h, hg => by
    simp only [List.map_cons, List.cons.injEq] at h
    have hc : y.c = x.c := congrArg Prod.fst h.1
    obtain ⟨g1, g2, g3⟩ := hg
    refine ⟨hc ▸ g1, hc ▸ g2, ?_⟩
    rw [hc]; exact trGeom_of_frame xs ys _ h.2 g3

theorem tr_countBelow_of_frame (rd : α) : ∀ (xs ys : List (Cell α)),
    ys.map Cell.trFrame = xs.map Cell.trFrame → countBelow rd ys = countBelow rd xs
  | [], [], _ => rfl
  | [], _ :: _, h => by simp at h
  | _ :: _, [], h => by simp at h
  | x :: xs, y :: ys, h => by
    simp only [List.map_cons, List.cons.injEq] at h
    have hc : y.c = x.c := congrArg Prod.fst h.1
    simp only [countBelow, hc, tr_countBelow_of_frame rd xs ys h.2]

theorem trIncAer_aer_nonneg (l : α) (hl : 0 ≤ l) : ∀ (n : Nat) (cs cs' : List (Cell α)),
    trIncAer l n cs = some cs' → (∀ x ∈ cs, 0 ≤ x.aer) → ∀ y ∈ cs', 0 ≤ y.aer
  | 0, cs, cs', h, hx => by simp only [trIncAer, Option.some.injEq] at h; subst h; exact hx
  | n+1, [], cs', h, _ => by simp [trIncAer] at h
  | n+1, x :: xs, cs', h, hx => by
    simp only [trIncAer] at h
    split at h
    · simp at h
    · rename_i r hr
      simp only [Option.some.injEq] at h; subst h
      have ih := trIncAer_aer_nonneg l hl n xs r hr (fun y hy => hx y (by simp [hy]))
      intro y hy
      rcases List.mem_cons.mp hy with rfl | hy
      · have := hx x (by simp)
        simp only []
        split_ifs
        · exact hl
        · linarith
      · exact ih y hy

theorem trSurface_aer_nonneg {l : α} {n : Nat} {cells : List (Cell α)} {pond ds tp0 : α}
    {sf : TrSurfR α} (h : trSurface l n cells pond ds tp0 = .ok sf) (hds : 0 ≤ ds)
    (hx : ∀ x ∈ cells, 0 ≤ x.aer) : ∀ y ∈ sf.cells, 0 ≤ y.aer := by
  unfold trSurface at h
  by_cases h1 : 0 < pond ∧ ds < l
  · simp only [h1, and_self, if_true] at h
    cases hc : trIncAer l n cells with
    | none => simp [hc] at h
    | some cells' =>
      by_cases h2 : l ≤ 0 ∧ 0 ≤ l
      · simp [hc, h2] at h
      · simp only [hc, h2, if_false, Except.ok.injEq] at h
        subst h
        exact trIncAer_aer_nonneg l (le_trans hds h1.2.le) n cells cells' hc hx
  · simp only [h1, if_false, Except.ok.injEq] at h; subst h; exact hx

/-! ## Inversion of the top-level function -/

theorem transp_ok_inv {F : Fn α} {cells : List (Cell α)} {nComp : Nat} {zTop : α}
    {crop : TrCrop α} {m : Nat} {smt : α} {st : TrState α} {et0 cur ref gdd : α} {out : TrOut α}
    (h : transpiration F cells nComp zTop crop m smt st et0 cur ref true gdd = .ok out) :
    ∃ pot sf rz, trPotential F crop st et0 cur ref gdd = .ok pot ∧
      trSurface crop.lagAer nComp cells st.pond st.daySubmerged pot.trPot0 = .ok sf ∧
      rootZoneWater F sf.cells st.zRoot zTop crop.zMin crop.aer = some rz ∧
      trCore F nComp zTop crop m smt st et0 pot sf rz = .ok out := by
  simp only [transpiration, if_true] at h
  split at h
  · simp at h
  · rename_i pot hpot
    split at h
    · simp at h
    · rename_i sf hsf
      split at h
      · simp at h
      · rename_i rz hrz
        exact ⟨pot, sf, rz, hpot, hsf, hrz, h⟩

theorem trCore_ok_inv {F : Fn α} {nComp : Nat} {zTop : α}
    {crop : TrCrop α} {m : Nat} {smt : α} {st : TrState α} {et0 : α} {pot : TrPotR α}
    {sf : TrSurfR α} {rz : RZ α} {out : TrOut α}
    (h : trCore F nComp zTop crop m smt st et0 pot sf rz = .ok out) :
    ∃ ni, trCompSto (trRootdepth F crop st) sf.cells nComp ≤ sf.cells.length ∧
      trNetIrr F crop m smt zTop (trRootdepth F crop st)
        (trCompSto (trRootdepth F crop st) sf.cells nComp)
        (trExtractLoop F (trLoopPOf F crop m st et0 sf.daySub)
          (trCompSto (trRootdepth F crop st) sf.cells nComp) sf.cells
          (trPotRzOf m sf.trPot (trKs F crop rz st.tEarlySen st.aerDays et0).1) 0 crop.sxTop).1
        st (trPotRzOf m sf.trPot (trKs F crop rz st.tEarlySen st.aerDays et0).1) = .ok ni ∧
      out = trFinish st pot sf (trKs F crop rz st.tEarlySen st.aerDays et0).2 ni
        (trExtractLoop F (trLoopPOf F crop m st et0 sf.daySub)
          (trCompSto (trRootdepth F crop st) sf.cells nComp) sf.cells
          (trPotRzOf m sf.trPot (trKs F crop rz st.tEarlySen st.aerDays et0).1) 0 crop.sxTop).2
        (trPotRzOf m sf.trPot (trKs F crop rz st.tEarlySen st.aerDays et0).1)
        (trCompSto (trRootdepth F crop st) sf.cells nComp) := by
  simp only [trCore] at h
  split_ifs at h with h1
  split at h
  · simp at h
  · rename_i ni hni
    simp only [Except.ok.injEq] at h
    exact ⟨ni, not_lt.mp h1, hni, h.symm⟩

theorem tr_comp_prop_of_frame {xs ys : List (Cell α)} (h : ys.map Cell.trFrame = xs.map Cell.trFrame)
    (P : Comp α → Prop) (hx : ∀ x ∈ xs, P x.c) : ∀ y ∈ ys, P y.c := by
  intro y hy
  have : y.trFrame ∈ xs.map Cell.trFrame := h ▸ List.mem_map_of_mem hy
  obtain ⟨x, hx', e⟩ := List.mem_map.mp this
  have : x.c = y.c := congrArg Prod.fst e
  exact this ▸ hx x hx'

/-! ## Main lemmas 1–3 -/

/-- **Frame** (lemma 2): `transpiration` writes only `th` and `aer_days_comp`; number of
compartments, soil constants, adjusted field capacity and the day's fluxes are unchanged. -/
theorem transp_frame {F : Fn α} {cells : List (Cell α)} {nComp : Nat} {zTop : α}
    {crop : TrCrop α} {m : Nat} {smt : α} {st : TrState α} {et0 cur ref gdd : α} {gs : Bool}
    {out : TrOut α}
    (h : transpiration F cells nComp zTop crop m smt st et0 cur ref gs gdd = .ok out) :
    out.cells.length = cells.length ∧ out.cells.map (·.c) = cells.map (·.c) ∧
      out.cells.map (·.fcAdj) = cells.map (·.fcAdj) ∧
      out.cells.map (·.flux) = cells.map (·.flux) := by
  have key : out.cells.map Cell.trFrame = cells.map Cell.trFrame := by
    cases gs with
    | false =>
      simp only [transpiration, Bool.false_eq_true, if_false, Except.ok.injEq] at h
      subst h; rfl
    | true =>
      obtain ⟨pot, sf, rz, hpot, hsf, hrz, hcore⟩ := transp_ok_inv h
      obtain ⟨ni, hlen, hni, rfl⟩ := trCore_ok_inv hcore
      obtain ⟨f1, _, _⟩ := trSurface_spec hsf
      obtain ⟨f3, _⟩ := trNetIrr_spec hni
      simp only [trFinish]
      rw [f3, trExtractLoop_frame, f1]
  refine ⟨?_, ?_, ?_, ?_⟩
  · simpa using congrArg List.length key
  · have := congrArg (List.map Prod.fst) key
    simpa [List.map_map, Function.comp_def, Cell.trFrame] using this
  · have := congrArg (List.map (fun t : Comp α × α × α => t.2.1)) key
    simpa [List.map_map, Function.comp_def, Cell.trFrame] using this
  · have := congrArg (List.map (fun t : Comp α × α × α => t.2.2)) key
    simpa [List.map_map, Function.comp_def, Cell.trFrame] using this

/-- **Water balance** (lemma 1): what leaves the ponded water and the compartments is the actual
transpiration; what enters the compartments is the net irrigation. -/
theorem transp_balance {F : Fn α} {cells : List (Cell α)} {nComp : Nat} {zTop : α}
    {crop : TrCrop α} {m : Nat} {smt : α} {st : TrState α} {et0 cur ref gdd : α} {gs : Bool}
    {out : TrOut α} (hdz : ∀ x ∈ cells, 0 < x.c.dz)
    (h : transpiration F cells nComp zTop crop m smt st et0 cur ref gs gdd = .ok out) :
    storage out.cells + out.st.pond + out.trAct = storage cells + st.pond + out.irrNet := by
  cases gs with
  | false =>
    simp only [transpiration, Bool.false_eq_true, if_false, Except.ok.injEq] at h
    subst h; simp
  | true =>
    obtain ⟨pot, sf, rz, hpot, hsf, hrz, hcore⟩ := transp_ok_inv h
    obtain ⟨ni, hlen, hni, rfl⟩ := trCore_ok_inv hcore
    obtain ⟨f1, t1, b1⟩ := trSurface_spec hsf
    obtain ⟨f3, b3⟩ := trNetIrr_spec hni
    have s1 : storage sf.cells = storage cells := tr_storage_eq_of_th_frame _ _ f1 t1
    have hdz2 : ∀ x ∈ (trExtractLoop F (trLoopPOf F crop m st et0 sf.daySub)
          (trCompSto (trRootdepth F crop st) sf.cells nComp) sf.cells
          (trPotRzOf m sf.trPot (trKs F crop rz st.tEarlySen st.aerDays et0).1) 0 crop.sxTop).1,
          x.c.dz ≠ 0 :=
      tr_comp_prop_of_frame ((trExtractLoop_frame _ _ _ _ _ _ _).trans f1) (fun c => c.dz ≠ 0)
        (fun x hx => (hdz x hx).ne')
    have b3' := b3 hdz2
    have b2 := trExtractLoop_balance F (trLoopPOf F crop m st et0 sf.daySub)
          (trCompSto (trRootdepth F crop st) sf.cells nComp) sf.cells
          (trPotRzOf m sf.trPot (trKs F crop rz st.tEarlySen st.aerDays et0).1) 0 crop.sxTop
    simp only [trFinish]
    linear_combination b3' + b2 + s1 + b1

/-- **Off season** (lemma 3): no transpiration, no net irrigation, water contents untouched. -/
theorem transp_offseason {F : Fn α} {cells : List (Cell α)} {nComp : Nat} {zTop : α}
    {crop : TrCrop α} {m : Nat} {smt : α} {st : TrState α} {et0 cur ref gdd : α}
    {out : TrOut α}
    (h : transpiration F cells nComp zTop crop m smt st et0 cur ref false gdd = .ok out) :
    out.trAct = 0 ∧ out.trPot0 = 0 ∧ out.trPotNS = 0 ∧ out.irrNet = 0 ∧ out.cells = cells ∧
      out.st = { st with irrNetCum := 0, tPot := 0 } := by
  simp only [transpiration, Bool.false_eq_true, if_false, Except.ok.injEq] at h
  subst h; simp

/-- off season never fails -/
theorem transp_offseason_ok (F : Fn α) (cells : List (Cell α)) (nComp : Nat) (zTop : α)
    (crop : TrCrop α) (m : Nat) (smt : α) (st : TrState α) (et0 cur ref gdd : α) :
    ∃ out, transpiration F cells nComp zTop crop m smt st et0 cur ref false gdd = .ok out := by
  simp [transpiration]

/-! ## Lemma 4: bounds on the actual transpiration -/

/-- **`TrAct ≤ TrPot0`** (lemma 4b).  Premises beyond success: positive thicknesses, a
non-negative submergence counter and a non-negative potential transpiration.  No law about
`exp/log/pow/round` is needed: `Ks ≤ Ksw.sto_lin ≤ 1` holds structurally, the extraction loop
never takes more than `ToExtract`, and `fSub ≤ 1`. -/
theorem transp_trAct_le_trPot0 {F : Fn α} {cells : List (Cell α)} {nComp : Nat} {zTop : α}
    {crop : TrCrop α} {m : Nat} {smt : α} {st : TrState α} {et0 cur ref gdd : α} {gs : Bool}
    {out : TrOut α} (hdz : ∀ x ∈ cells, 0 < x.c.dz) (hds : 0 ≤ st.daySubmerged)
    (h : transpiration F cells nComp zTop crop m smt st et0 cur ref gs gdd = .ok out)
    (hp : 0 ≤ out.trPot0) : out.trAct ≤ out.trPot0 := by
  cases gs with
  | false =>
    simp only [transpiration, Bool.false_eq_true, if_false, Except.ok.injEq] at h
    subst h; simp
  | true =>
    obtain ⟨pot, sf, rz, hpot, hsf, hrz, hcore⟩ := transp_ok_inv h
    obtain ⟨ni, hlen, hni, rfl⟩ := trCore_ok_inv hcore
    obtain ⟨f1, t1, b1⟩ := trSurface_spec hsf
    simp only [trFinish] at hp ⊢
    obtain ⟨s1, s2, _⟩ := trSurface_bounds hsf hds hp
    have hdz1 : ∀ x ∈ sf.cells, 0 < x.c.dz := tr_comp_prop_of_frame f1 (fun c => 0 < c.dz) hdz
    have b2 := trExtractLoop_le F (trLoopPOf F crop m st et0 sf.daySub)
          (trCompSto (trRootdepth F crop st) sf.cells nComp) sf.cells
          (trPotRzOf m sf.trPot (trKs F crop rz st.tEarlySen st.aerDays et0).1) 0 crop.sxTop hdz1
    obtain ⟨t1, t2⟩ := tr_rootZoneWater_taw_nonneg hrz
    have hk := trKs_le_one (F := F) crop st.tEarlySen st.aerDays et0 t1 t2
    have hrzp : max 0 (trPotRzOf m sf.trPot (trKs F crop rz st.tEarlySen st.aerDays et0).1)
        ≤ sf.trPot := by
      apply max_le s1
      unfold trPotRzOf
      split_ifs
      · have := mul_le_mul_of_nonneg_left hk s1
        linarith
      · exact le_refl _
    linarith

/-- **`0 ≤ TrAct`** (lemma 4a).  Needs the sinks to be non-negative: idealised geometry
(`RootFact ∈ [0,1]` in the root zone), non-negative `aer_days_comp`, `SxTop`, `SxBot`, `r_cor`,
a positive rooting depth; and `0 ≤ fSub`, which for a *real-valued* counter needs the integrality
premise `day_submerged < LagAer → day_submerged + 1 ≤ LagAer`. -/
theorem transp_trAct_nonneg {F : Fn α} {cells : List (Cell α)} {nComp : Nat} {zTop : α}
    {crop : TrCrop α} {m : Nat} {smt : α} {st : TrState α} {et0 cur ref gdd : α} {gs : Bool}
    {out : TrOut α} (hgeo : TrGeom 0 cells) (haer : ∀ x ∈ cells, 0 ≤ x.aer)
    (hsxT : 0 ≤ crop.sxTop) (hsxB : 0 ≤ crop.sxBot) (hrc : 0 ≤ st.rCor)
    (hrd : 0 < trRootdepth F crop st) (hds : 0 ≤ st.daySubmerged)
    (hint : st.daySubmerged < crop.lagAer → st.daySubmerged + 1 ≤ crop.lagAer)
    (h : transpiration F cells nComp zTop crop m smt st et0 cur ref gs gdd = .ok out)
    (hp : 0 ≤ out.trPot0) : 0 ≤ out.trAct ∧ 0 ≤ out.trAct0 := by
  cases gs with
  | false =>
    simp only [transpiration, Bool.false_eq_true, if_false, Except.ok.injEq] at h
    subst h; simp
  | true =>
    obtain ⟨pot, sf, rz, hpot, hsf, hrz, hcore⟩ := transp_ok_inv h
    obtain ⟨ni, hlen, hni, rfl⟩ := trCore_ok_inv hcore
    obtain ⟨f1, t1, b1⟩ := trSurface_spec hsf
    simp only [trFinish] at hp ⊢
    obtain ⟨s1, s2, s3⟩ := trSurface_bounds hsf hds hp
    have hgeo1 : TrGeom 0 sf.cells := trGeom_of_frame _ _ _ f1 hgeo
    have haer1 := trSurface_aer_nonneg hsf hds haer
    have hP : (trLoopPOf F crop m st et0 sf.daySub).NonnegOK := ⟨hsxT, hsxB, hrc, hrd⟩
    have hcells : ∀ x ∈ sf.cells.take (trCompSto (trRootdepth F crop st) sf.cells nComp),
        TrCellNonnegOK (trLoopPOf F crop m st et0 sf.daySub).rootdepth x := by
      intro x hx
      have hx' : x ∈ sf.cells := List.mem_of_mem_take hx
      have hx'' : x ∈ sf.cells.take (countBelow (trRootdepth F crop st) sf.cells + 1) :=
        List.take_subset_take_left _ (Nat.min_le_left _ _) hx
      exact ⟨trGeom_dz_pos _ _ hgeo1 x hx', haer1 x hx',
        (tr_rootFact_bounds_of_geom _ _ _ hgeo1 hrd.le x hx'').1,
        trGeom_dzsum_nonneg _ _ hgeo1 (le_refl _) x hx'⟩
    have b2 := trExtractLoop_ge F (trLoopPOf F crop m st et0 sf.daySub) hP
          (trCompSto (trRootdepth F crop st) sf.cells nComp) sf.cells
          (trPotRzOf m sf.trPot (trKs F crop rz st.tEarlySen st.aerDays et0).1) 0 crop.sxTop
          hsxT hcells
    have := s3 hint
    exact ⟨by linarith, this⟩

/-! ## Lemma 5: the water-content invariant -/

theorem tr_inv_of_frame_th : ∀ (xs ys : List (Cell α)), ys.map Cell.trFrame = xs.map Cell.trFrame →
    ys.map (·.th) = xs.map (·.th) → (∀ x ∈ xs, x.Inv) → ∀ y ∈ ys, y.Inv
  | [], [], _, _, _ => by simp
  | [], _ :: _, h, _, _ => by simp at h
  | _ :: _, [], h, _, _ => by simp at h
  | x :: xs, y :: ys, h, h', hx => by
    simp only [List.map_cons, List.cons.injEq] at h h'
    have hc : y.c = x.c := congrArg Prod.fst h.1
    have hf : y.fcAdj = x.fcAdj := congrArg (fun t : Comp α × α × α => t.2.1) h.1
    have ih := tr_inv_of_frame_th xs ys h.2 h'.2 (fun z hz => hx z (by simp [hz]))
    have i := hx x (by simp)
    intro z hz
    rcases List.mem_cons.mp hz with rfl | hz
    · exact ⟨hc ▸ i.wf, by rw [hc, h'.1]; exact i.th_lo, by rw [hc, h'.1]; exact i.th_hi,
        by rw [hc, hf]; exact i.fc_lo, by rw [hc, hf]; exact i.fc_hi⟩
    · exact ih z hz

/-- extraction keeps every compartment at or above air-dry (the `Sink` clamp); no premise on
the signs of the stress factors is needed -/
theorem trExtractLoop_th_lo (F : Fn α) (p : TrLoopP α) : ∀ (n : Nat) (cs : List (Cell α))
    (te ta sp : α), (∀ x ∈ cs, x.c.thDry ≤ x.th) →
      ∀ y ∈ (trExtractLoop F p n cs te ta sp).1, y.c.thDry ≤ y.th
  | 0, cs, te, ta, sp, hx => by simpa [trExtractLoop] using hx
  | n+1, [], te, ta, sp, hx => by simp [trExtractLoop]
  | n+1, x :: xs, te, ta, sp, hx => by
    by_cases h : 0 < te
    · simp only [trExtractLoop, h, if_true]
      intro y hy
      rcases List.mem_cons.mp hy with rfl | hy
      · exact trSink_dry _ _ _ _ x (hx x (by simp))
      · exact trExtractLoop_th_lo F p n xs _ _ _ (fun z hz => hx z (by simp [hz])) y hy
    · simpa only [trExtractLoop, h, if_false] using hx

theorem trExtractLoop_inv (F : Fn α) (p : TrLoopP α) (hp : p.NonnegOK) : ∀ (n : Nat)
    (cs : List (Cell α)) (te ta sp : α), 0 ≤ sp →
      (∀ x ∈ cs.take n, TrCellNonnegOK p.rootdepth x) → (∀ x ∈ cs, x.Inv) →
      ∀ y ∈ (trExtractLoop F p n cs te ta sp).1, y.Inv
  | 0, cs, te, ta, sp, _, _, hx => by simpa [trExtractLoop] using hx
  | n+1, [], te, ta, sp, _, _, hx => by simp [trExtractLoop]
  | n+1, x :: xs, te, ta, sp, hsp, hc, hx => by
    by_cases h : 0 < te
    · obtain ⟨hdz, haer, hrf, hzs⟩ := hc x (by simp)
      have hxs : ∀ y ∈ xs.take n, TrCellNonnegOK p.rootdepth y := fun y hy => hc y (by simp [hy])
      have hsb := tr_sxBotOf_nonneg p.sxTop p.sxBot p.rCor p.rootdepth x hp.sxTop hp.sxBot hp.rCor
        hp.rd hzs
      have hks := (trKsComp_bounds F p.pUp1 p.pLo1 p.fsh1 p.pUpSto x).1
      have hac := trAerComp_nonneg p.lagAer p.aer p.daySub x haer
      have hstress : 0 ≤ (if p.net = true then (trAerComp p.lagAer p.aer p.daySub x).1
          else pmin (trKsComp F p.pUp1 p.pLo1 p.fsh1 p.pUpSto x)
            (trAerComp p.lagAer p.aer p.daySub x).1) := by
        split_ifs
        · exact hac
        · rw [pmin_eq]; exact le_min hks hac
      have hsx : 0 ≤ (if p.net = true then (p.sxTop + p.sxBot) / 2
          else (sp + trSxBotOf p.sxTop p.sxBot p.rCor p.rootdepth x) / 2) := by
        have := hp.sxTop; have := hp.sxBot
        split_ifs <;> linarith
      have hs := trSink_nonneg _ _ _ te x hdz h (mul_nonneg (mul_nonneg hstress hsx) hrf)
      have hd := trSink_dry (if p.net = true then (trAerComp p.lagAer p.aer p.daySub x).1
          else pmin (trKsComp F p.pUp1 p.pLo1 p.fsh1 p.pUpSto x)
            (trAerComp p.lagAer p.aer p.daySub x).1)
        (if p.net = true then (p.sxTop + p.sxBot) / 2
          else (sp + trSxBotOf p.sxTop p.sxBot p.rCor p.rootdepth x) / 2)
        (trRootFact p.rootdepth x) te x (hx x (by simp)).th_lo
      simp only [trExtractLoop, h, if_true]
      intro y hy
      have i := hx x (by simp)
      rcases List.mem_cons.mp hy with rfl | hy
      · exact ⟨i.wf, hd, by simp only []; linarith [i.th_hi], i.fc_lo, i.fc_hi⟩
      · exact trExtractLoop_inv F p hp n xs _ _ _ hsb hxs (fun z hz => hx z (by simp [hz])) y hy
    · simpa only [trExtractLoop, h, if_false] using hx

/-- layers are numbered from 1, non-decreasing down the profile, and compartments of one layer
share their wilting point and field capacity (`wp`, `fc` : layer ↦ value) -/
def TrLayersOK (wp fc : Nat → α) : Nat → List (Cell α) → Prop
  | _, [] => True
  | pl, x :: xs => pl ≤ x.c.layer ∧ 1 ≤ x.c.layer ∧ x.c.thWP = wp x.c.layer ∧
      x.c.thFC = fc x.c.layer ∧ TrLayersOK wp fc x.c.layer xs

theorem trLayersOK_of_frame (wp fc : Nat → α) : ∀ (xs ys : List (Cell α)) (pl : Nat),
    ys.map Cell.trFrame = xs.map Cell.trFrame → TrLayersOK wp fc pl xs → TrLayersOK wp fc pl ys
  | [], [], _, _, _ => trivial
  | [], _ :: _, _, h, _ => by simp at h
  | _ :: _, [], _, h, _ => by simp at h
  | x :: xs, y :: ys, pl, h, hg => by
    simp only [List.map_cons, List.cons.injEq] at h
    have hc : y.c = x.c := congrArg Prod.fst h.1
    obtain ⟨g1, g2, g3, g4, g5⟩ := hg
    refine ⟨hc ▸ g1, hc ▸ g2, hc ▸ g3, hc ▸ g4, ?_⟩
    rw [hc]; exact trLayersOK_of_frame wp fc xs ys _ h.2 g5

/-- the refill moves each root-zone compartment towards its layer's target
`thWP + SMT/100·(thFC − thWP) ∈ [thWP, thFC]`, by the fraction `RootFact ∈ [0,1]` -/
theorem trNetIrrLoop_inv (smt rd : α) (hs0 : 0 ≤ smt) (hs1 : smt ≤ 100) (wp fc : Nat → α) :
    ∀ (n : Nat) (cs : List (Cell α)) (pl : Nat) (tc irr : α),
      TrLayersOK wp fc pl cs → (pl = 0 ∨ tc = wp pl + smt / 100 * (fc pl - wp pl)) →
      (∀ x ∈ cs.take n, 0 ≤ trRootFact rd x ∧ trRootFact rd x ≤ 1) → (∀ x ∈ cs, x.Inv) →
      ∀ y ∈ (trNetIrrLoop smt rd n cs pl tc irr).1, y.Inv
  | 0, cs, pl, tc, irr, _, _, _, hx => by simpa [trNetIrrLoop] using hx
  | n+1, [], pl, tc, irr, _, _, _, hx => by simp [trNetIrrLoop]
  | n+1, x :: xs, pl, tc, irr, hl, htc, hrf, hx => by
    obtain ⟨l1, l2, l3, l4, l5⟩ := hl
    obtain ⟨r0, r1⟩ := hrf x (by simp)
    have i := hx x (by simp)
    have hdz := i.wf.dz_pos
    set tc' := (if pl < x.c.layer then x.c.thWP + smt / 100 * (x.c.thFC - x.c.thWP) else tc)
      with htc'
    have htarget : tc' = x.c.thWP + smt / 100 * (x.c.thFC - x.c.thWP) := by
      rw [htc']
      split_ifs with hlt
      · rfl
      · have : pl = x.c.layer := le_antisymm l1 (not_lt.mp hlt)
        rcases htc with h0 | h0
        · omega
        · rw [h0, this, l3, l4]
    have hq0 : 0 ≤ smt / 100 := div_nonneg hs0 (by norm_num)
    have hq1 : smt / 100 ≤ 1 := by rw [div_le_one (by norm_num)]; exact hs1
    have hfw : 0 ≤ x.c.thFC - x.c.thWP := by linarith [i.wf.wp_fc]
    have t0 : x.c.thWP ≤ tc' := by rw [htarget]; nlinarith
    have t1 : tc' ≤ x.c.thFC := by rw [htarget]; nlinarith
    have e : x.th + trRootFact rd x * (tc' - x.th) * 1000 * x.c.dz / (1000 * x.c.dz)
        = x.th + trRootFact rd x * (tc' - x.th) := by field_simp
    simp only [trNetIrrLoop]
    rw [← htc']
    intro y hy
    rcases List.mem_cons.mp hy with rfl | hy
    · refine ⟨i.wf, ?_, ?_, i.fc_lo, i.fc_hi⟩
      · simp only []; rw [e]
        have := i.th_lo; have := i.wf.dry_wp
        nlinarith [mul_nonneg r0 (show 0 ≤ tc' - x.c.thDry by linarith),
          mul_nonneg (sub_nonneg.mpr r1) (show 0 ≤ x.th - x.c.thDry by linarith)]
      · simp only []; rw [e]
        have := i.th_hi; have := i.wf.fc_s
        nlinarith [mul_nonneg r0 (show 0 ≤ x.c.thS - tc' by linarith),
          mul_nonneg (sub_nonneg.mpr r1) (show 0 ≤ x.c.thS - x.th by linarith)]
    · refine trNetIrrLoop_inv smt rd hs0 hs1 wp fc n xs _ tc' _ ?_ ?_
        (fun z hz => hrf z (by simp [hz])) (fun z hz => hx z (by simp [hz])) y hy
      · split_ifs with hlt
        · exact l5
        · have : pl = x.c.layer := le_antisymm l1 (not_lt.mp hlt)
          rw [this]; exact l5
      · right
        split_ifs with hlt
        · rw [htarget, l3, l4]
        · have : pl = x.c.layer := le_antisymm l1 (not_lt.mp hlt)
          rw [htarget, this, ← l3, ← l4]

theorem trNetIrr_inv {F : Fn α} {crop : TrCrop α} {m : Nat} {smt zTop rd : α} {cs : Nat}
    {cells : List (Cell α)} {st : TrState α} {tp : α} {ni : TrNetR α} (wp fc : Nat → α)
    (h : trNetIrr F crop m smt zTop rd cs cells st tp = .ok ni)
    (hnet : m = 4 → 0 ≤ smt ∧ smt ≤ 100 ∧ TrLayersOK wp fc 0 cells)
    (hrf : ∀ x ∈ cells.take cs, 0 ≤ trRootFact rd x ∧ trRootFact rd x ≤ 1)
    (hx : ∀ x ∈ cells, x.Inv) : ∀ y ∈ ni.cells, y.Inv := by
  unfold trNetIrr at h
  split_ifs at h with h1 h2
  · split at h
    · simp at h
    · rename_i rz hrz
      simp only [Except.ok.injEq] at h; subst h
      simp only []
      obtain ⟨s0, s1, hl⟩ := hnet h1.1
      split_ifs with h3
      · exact trNetIrrLoop_inv smt rd s0 s1 wp fc cs cells 0 _ 0 hl (Or.inl rfl) hrf hx
      · exact hx
  · simp only [Except.ok.injEq] at h; subst h; exact hx
  · simp only [Except.ok.injEq] at h; subst h; exact hx

/-- **Invariant** (lemma 5): `th_dry ≤ th ≤ th_s` (and the rest of `Cell.Inv`) is preserved.
Lower bound after extraction: the `Sink` clamp.  Upper bound after extraction: sinks are
non-negative (geometry, non-negative `aer_days_comp`, `SxTop`, `SxBot`, `r_cor`, positive rooting
depth).  Net irrigation: `th' = th + RootFact·(thCrit − th)` is a convex combination of `th` and the
layer target `thCrit ∈ [th_wp, th_fc]`, given `0 ≤ NetIrrSMT ≤ 100` and layer-consistent
`th_wp`/`th_fc` (`TrLayersOK`). -/
theorem transp_inv {F : Fn α} {cells : List (Cell α)} {nComp : Nat} {zTop : α}
    {crop : TrCrop α} {m : Nat} {smt : α} {st : TrState α} {et0 cur ref gdd : α} {gs : Bool}
    {out : TrOut α} (wp fc : Nat → α) (hgeo : TrGeom 0 cells) (hinv : ∀ x ∈ cells, x.Inv)
    (haer : ∀ x ∈ cells, 0 ≤ x.aer)
    (hsxT : 0 ≤ crop.sxTop) (hsxB : 0 ≤ crop.sxBot) (hrc : 0 ≤ st.rCor)
    (hrd : 0 < trRootdepth F crop st) (hds : 0 ≤ st.daySubmerged)
    (hnet : m = 4 → 0 ≤ smt ∧ smt ≤ 100 ∧ TrLayersOK wp fc 0 cells)
    (h : transpiration F cells nComp zTop crop m smt st et0 cur ref gs gdd = .ok out) :
    ∀ y ∈ out.cells, y.Inv := by
  cases gs with
  | false =>
    simp only [transpiration, Bool.false_eq_true, if_false, Except.ok.injEq] at h
    subst h; exact hinv
  | true =>
    obtain ⟨pot, sf, rz, hpot, hsf, hrz, hcore⟩ := transp_ok_inv h
    obtain ⟨ni, hlen, hni, rfl⟩ := trCore_ok_inv hcore
    obtain ⟨f1, t1, b1⟩ := trSurface_spec hsf
    simp only [trFinish]
    have hgeo1 : TrGeom 0 sf.cells := trGeom_of_frame _ _ _ f1 hgeo
    have haer1 := trSurface_aer_nonneg hsf hds haer
    have hinv1 := tr_inv_of_frame_th _ _ f1 t1 hinv
    have hP : (trLoopPOf F crop m st et0 sf.daySub).NonnegOK := ⟨hsxT, hsxB, hrc, hrd⟩
    have hrf1 : ∀ x ∈ sf.cells.take (trCompSto (trRootdepth F crop st) sf.cells nComp),
        0 ≤ trRootFact (trRootdepth F crop st) x ∧ trRootFact (trRootdepth F crop st) x ≤ 1 := by
      intro x hx
      exact tr_rootFact_bounds_of_geom _ _ _ hgeo1 hrd.le x
        (List.take_subset_take_left _ (Nat.min_le_left _ _) hx)
    have hcells : ∀ x ∈ sf.cells.take (trCompSto (trRootdepth F crop st) sf.cells nComp),
        TrCellNonnegOK (trLoopPOf F crop m st et0 sf.daySub).rootdepth x := by
      intro x hx
      have hx' : x ∈ sf.cells := List.mem_of_mem_take hx
      exact ⟨trGeom_dz_pos _ _ hgeo1 x hx', haer1 x hx', (hrf1 x hx).1,
        trGeom_dzsum_nonneg _ _ hgeo1 (le_refl _) x hx'⟩
    have hinv2 := trExtractLoop_inv F (trLoopPOf F crop m st et0 sf.daySub) hP
          (trCompSto (trRootdepth F crop st) sf.cells nComp) sf.cells
          (trPotRzOf m sf.trPot (trKs F crop rz st.tEarlySen st.aerDays et0).1) 0 crop.sxTop
          hsxT hcells hinv1
    have fE := trExtractLoop_frame F (trLoopPOf F crop m st et0 sf.daySub)
          (trCompSto (trRootdepth F crop st) sf.cells nComp) sf.cells
          (trPotRzOf m sf.trPot (trKs F crop rz st.tEarlySen st.aerDays et0).1) 0 crop.sxTop
    refine trNetIrr_inv wp fc hni ?_ ?_ hinv2
    · intro hm
      obtain ⟨a, b, c⟩ := hnet hm
      exact ⟨a, b, trLayersOK_of_frame wp fc _ _ _ (fE.trans f1) c⟩
    · intro x hx
      have hmapP : ∀ (xs ys : List (Cell α)) (k : Nat), ys.map Cell.trFrame = xs.map Cell.trFrame →
          (ys.take k).map Cell.trFrame = (xs.take k).map Cell.trFrame := by
        intro xs ys k e; rw [List.map_take, List.map_take, e]
      have := tr_comp_prop_of_frame (hmapP _ _ _ fE)
        (fun c => 0 ≤ (if trRootdepth F crop st < c.dzsum then
            1 - ((c.dzsum - trRootdepth F crop st) / c.dz) else 1) ∧
          (if trRootdepth F crop st < c.dzsum then
            1 - ((c.dzsum - trRootdepth F crop st) / c.dz) else 1) ≤ 1) hrf1 x hx
      exact this

/-- the air-dry lower bound alone needs nothing but the input bound (and success) -/
theorem transp_th_dry_of_not_net {F : Fn α} {cells : List (Cell α)} {nComp : Nat} {zTop : α}
    {crop : TrCrop α} {m : Nat} {smt : α} {st : TrState α} {et0 cur ref gdd : α} {gs : Bool}
    {out : TrOut α} (hm : m ≠ 4) (hlo : ∀ x ∈ cells, x.c.thDry ≤ x.th)
    (h : transpiration F cells nComp zTop crop m smt st et0 cur ref gs gdd = .ok out) :
    ∀ y ∈ out.cells, y.c.thDry ≤ y.th := by
  cases gs with
  | false =>
    simp only [transpiration, Bool.false_eq_true, if_false, Except.ok.injEq] at h
    subst h; exact hlo
  | true =>
    obtain ⟨pot, sf, rz, hpot, hsf, hrz, hcore⟩ := transp_ok_inv h
    obtain ⟨ni, hlen, hni, rfl⟩ := trCore_ok_inv hcore
    obtain ⟨f1, t1, b1⟩ := trSurface_spec hsf
    simp only [trFinish]
    have hlo1 : ∀ x ∈ sf.cells, x.c.thDry ≤ x.th := by
      have : ∀ (xs ys : List (Cell α)), ys.map Cell.trFrame = xs.map Cell.trFrame →
          ys.map (·.th) = xs.map (·.th) → (∀ x ∈ xs, x.c.thDry ≤ x.th) →
          ∀ y ∈ ys, y.c.thDry ≤ y.th := by
        intro xs
        induction xs with
        | nil => intro ys h; cases ys <;> simp at h ⊢
        | cons x xs ih =>
          intro ys h h' hx
          cases ys with
          | nil => simp at h
          | cons y ys =>
            simp only [List.map_cons, List.cons.injEq] at h h'
            have hc : y.c = x.c := congrArg Prod.fst h.1
            intro z hz
            rcases List.mem_cons.mp hz with rfl | hz
            · rw [hc, h'.1]; exact hx x (by simp)
            · exact ih ys h.2 h'.2 (fun w hw => hx w (by simp [hw])) z hz
      exact this _ _ f1 t1 hlo
    have h2 := trExtractLoop_th_lo F (trLoopPOf F crop m st et0 sf.daySub)
          (trCompSto (trRootdepth F crop st) sf.cells nComp) sf.cells
          (trPotRzOf m sf.trPot (trKs F crop rz st.tEarlySen st.aerDays et0).1) 0 crop.sxTop hlo1
    unfold trNetIrr at hni
    simp only [hm, false_and, if_false, Except.ok.injEq] at hni
    subst hni
    exact h2

/-! ## Lemma 6: lower bound of the net irrigation

In exact arithmetic the refill trigger `thRZ.Act < thCrit` (root-zone averages) is *equivalent* to
`0 < IrrNet`, because both are the same `RootFact`-weighted sums.  The Python rounds every
compartment's contribution to the root-zone sums to 2 decimals (mm), so the trigger can fire
although the exact sum is (slightly) on the other side: `IrrNet` can be negative, but by no more
than `2·ε` per root-zone compartment, `ε` the rounding error of `round(·, 2)` (0.005 mm). -/

/-- exact (unrounded) root-zone sum `Σ_{i<n} RootFact_i · 1000 · g_i · dz_i` -/
def trRzExact (g : Cell α → α) (rd : α) : Nat → List (Cell α) → α
  | 0, _ => 0
  | _+1, [] => 0
  | n+1, x :: xs => trRootFact rd x * 1000 * g x * x.c.dz + trRzExact g rd n xs

theorem tr_rzLoop_exact (F : Fn α) (rd aer ε : α) (hε : ∀ v, |F.round2 v - v| ≤ ε) :
    ∀ (n : Nat) (cs : List (Cell α)) (acc a : RZAcc α), rzLoop F rd aer n cs acc = some a →
      |a.act - acc.act - trRzExact (·.th) rd n cs| ≤ ε * n ∧
      |a.fc - acc.fc - trRzExact (·.c.thFC) rd n cs| ≤ ε * n ∧
      |a.wp - acc.wp - trRzExact (·.c.thWP) rd n cs| ≤ ε * n ∧ n ≤ cs.length
  | 0, cs, acc, a, h => by
    simp only [rzLoop, Option.some.injEq] at h; subst h; simp [trRzExact]
  | n+1, [], acc, a, h => by simp [rzLoop] at h
  | n+1, x :: xs, acc, a, h => by
    simp only [rzLoop] at h
    obtain ⟨i1, i2, i3, i4⟩ := tr_rzLoop_exact F rd aer ε hε n xs _ a h
    simp only [] at i1 i2 i3
    have e1 := hε ((if rd < x.c.dzsum then 1 - (x.c.dzsum - rd) / x.c.dz else 1) * 1000 * x.th * x.c.dz)
    have e2 := hε ((if rd < x.c.dzsum then 1 - (x.c.dzsum - rd) / x.c.dz else 1) * 1000 * x.c.thFC * x.c.dz)
    have e3 := hε ((if rd < x.c.dzsum then 1 - (x.c.dzsum - rd) / x.c.dz else 1) * 1000 * x.c.thWP * x.c.dz)
    rw [abs_le] at i1 i2 i3 e1 e2 e3
    simp only [trRzExact, trRootFact, List.length_cons, Nat.cast_add, Nat.cast_one, abs_le]
    refine ⟨⟨by linarith, by linarith⟩, ⟨by linarith, by linarith⟩, ⟨by linarith, by linarith⟩,
      by omega⟩

theorem trNetIrrLoop_exact (smt rd : α) (wp fc : Nat → α) :
    ∀ (n : Nat) (cs : List (Cell α)) (pl : Nat) (tc irr : α),
      TrLayersOK wp fc pl cs → (pl = 0 ∨ tc = wp pl + smt / 100 * (fc pl - wp pl)) →
      (trNetIrrLoop smt rd n cs pl tc irr).2 = irr + ((1 - smt / 100) * trRzExact (·.c.thWP) rd n cs
        + smt / 100 * trRzExact (·.c.thFC) rd n cs - trRzExact (·.th) rd n cs)
  | 0, cs, pl, tc, irr, _, _ => by simp [trNetIrrLoop, trRzExact]
  | n+1, [], pl, tc, irr, _, _ => by simp [trNetIrrLoop, trRzExact]
  | n+1, x :: xs, pl, tc, irr, hl, htc => by
    obtain ⟨l1, l2, l3, l4, l5⟩ := hl
    set tc' := (if pl < x.c.layer then x.c.thWP + smt / 100 * (x.c.thFC - x.c.thWP) else tc)
      with htc'
    have htarget : tc' = x.c.thWP + smt / 100 * (x.c.thFC - x.c.thWP) := by
      rw [htc']
      split_ifs with hlt
      · rfl
      · have : pl = x.c.layer := le_antisymm l1 (not_lt.mp hlt)
        rcases htc with h0 | h0
        · omega
        · rw [h0, this, l3, l4]
    simp only [trNetIrrLoop]
    rw [← htc']
    rw [trNetIrrLoop_exact smt rd wp fc n xs _ tc' _ ?_ ?_]
    · simp only [trRzExact]; rw [htarget]; ring
    · split_ifs with hlt
      · exact l5
      · have : pl = x.c.layer := le_antisymm l1 (not_lt.mp hlt)
        rw [this]; exact l5
    · right
      split_ifs with hlt
      · rw [htarget, l3, l4]
      · have : pl = x.c.layer := le_antisymm l1 (not_lt.mp hlt)
        rw [htarget, this, ← l3, ← l4]

theorem tr_firstGE_eq_countBelow (rd : α) : ∀ (cs : List (Cell α)) (top : α) (k : Nat),
    TrGeom top cs → firstGE rd cs = some k → k = countBelow rd cs
  | [], _, _, _, h => by simp [firstGE] at h
  | x :: xs, top, k, hg, h => by
    obtain ⟨hdz, hs, hg'⟩ := hg
    by_cases hle : rd ≤ x.c.dzsum
    · simp only [firstGE, hle, if_true, Option.some.injEq] at h
      have h0 := tr_countBelow_eq_zero_of_geom rd xs _ hg' hle
      simp only [countBelow, not_lt.mpr hle, if_false, h0]; omega
    · simp only [firstGE, hle, if_false] at h
      cases hk : firstGE rd xs with
      | none => simp [hk] at h
      | some k' =>
        simp only [hk, Option.map_some, Option.some.injEq] at h
        have := tr_firstGE_eq_countBelow rd xs _ k' hg' hk
        simp only [countBelow, not_le.mp hle, if_true]; omega

theorem tr_rootZoneWater_inv {F : Fn α} {cells : List (Cell α)} {zRoot zTop zMin aer : α}
    {rz : RZ α} (h : rootZoneWater F cells zRoot zTop zMin aer = some rz) :
    ∃ k a, firstGE (F.round2 (pmax zRoot zMin)) cells = some k ∧
      rzLoop F (F.round2 (pmax zRoot zMin)) aer (k + 1) cells ⟨0, 0, 0, 0, 0, 0⟩ = some a ∧
      rz.thAct = (if a.act < 0 then 0 else a.act) / (F.round2 (pmax zRoot zMin) * 1000) ∧
      rz.thFC = a.fc / (F.round2 (pmax zRoot zMin) * 1000) ∧
      rz.thWP = a.wp / (F.round2 (pmax zRoot zMin) * 1000) := by
  unfold rootZoneWater at h
  simp only [] at h
  split at h
  · simp at h
  · rename_i k hk
    split at h
    · simp at h
    · rename_i a ha
      refine ⟨k, a, hk, ha, ?_⟩
      split_ifs at h
      all_goals first
        | (simp only [Option.some.injEq] at h; subst h; simp [*])
        | (split at h
           · simp at h
           · simp only [Option.some.injEq] at h; subst h; simp [*])

theorem trNetIrr_lower {F : Fn α} {crop : TrCrop α} {m : Nat} {smt zTop : α} {cs : Nat}
    {cells : List (Cell α)} {st : TrState α} {tp : α} {ni : TrNetR α} (wp fc : Nat → α) (ε : α)
    (hε : ∀ v, |F.round2 v - v| ≤ ε)
    (hround : F.round2 (pmax st.zRoot crop.zMin) = F.pyRound2 (pmax st.zRoot crop.zMin))
    (hgeo : TrGeom 0 cells) (hrd : 0 < trRootdepth F crop st)
    (hcs : cs = countBelow (trRootdepth F crop st) cells + 1)
    (hnet : m = 4 → 0 ≤ smt ∧ smt ≤ 100 ∧ TrLayersOK wp fc 0 cells)
    (h : trNetIrr F crop m smt zTop (trRootdepth F crop st) cs cells st tp = .ok ni) :
    -(2 * ε * cs) ≤ ni.irrNet := by
  have hε0 : 0 ≤ ε := le_trans (abs_nonneg _) (hε 0)
  have hneg : -(2 * ε * (cs : α)) ≤ 0 := by
    have : (0 : α) ≤ cs := Nat.cast_nonneg _
    nlinarith [mul_nonneg hε0 this]
  unfold trNetIrr at h
  split_ifs at h with h1 h2
  · split at h
    · simp at h
    · rename_i rz hrz
      simp only [Except.ok.injEq] at h; subst h
      simp only []
      obtain ⟨hs0, hs1, hlay⟩ := hnet h1.1
      split_ifs with h3
      · obtain ⟨k, a, hk, ha, eA, eF, eW⟩ := tr_rootZoneWater_inv hrz
        have hrdeq : F.round2 (pmax st.zRoot crop.zMin) = trRootdepth F crop st := hround
        rw [hrdeq] at hk ha eA eF eW
        have hkc := tr_firstGE_eq_countBelow _ _ _ _ hgeo hk
        obtain ⟨i1, i2, i3, _⟩ := tr_rzLoop_exact F _ crop.aer ε hε _ _ _ _ ha
        rw [trNetIrrLoop_exact smt _ wp fc cs cells 0 _ 0 hlay (Or.inl rfl)]
        rw [hcs, ← hkc]
        simp only [sub_zero] at i1 i2 i3
        rw [abs_le] at i1 i2 i3
        have hd : 0 < trRootdepth F crop st * 1000 := by positivity
        rw [eA, eF, eW] at h3
        have hre : a.wp / (trRootdepth F crop st * 1000) + smt / 100 *
            (a.fc / (trRootdepth F crop st * 1000) - a.wp / (trRootdepth F crop st * 1000))
            = (a.wp + smt / 100 * (a.fc - a.wp)) / (trRootdepth F crop st * 1000) := by ring
        rw [hre, div_lt_div_iff_of_pos_right hd] at h3
        have hq0 : 0 ≤ smt / 100 := div_nonneg hs0 (by norm_num)
        have hq1 : smt / 100 ≤ 1 := by rw [div_le_one (by norm_num)]; exact hs1
        have hact : a.act ≤ (if a.act < 0 then 0 else a.act) := by
          split_ifs with hh
          · exact hh.le
          · exact le_refl _
        set A := trRzExact (fun x => x.th) (trRootdepth F crop st) (k + 1) cells
        set W := trRzExact (fun x => x.c.thWP) (trRootdepth F crop st) (k + 1) cells
        set Fc := trRzExact (fun x => x.c.thFC) (trRootdepth F crop st) (k + 1) cells
        set s := smt / 100
        set n : α := ((k + 1 : ℕ) : α)
        have hn : 0 ≤ ε * n := mul_nonneg hε0 (Nat.cast_nonneg _)
        have b1 : s * (a.fc - Fc) ≤ s * (ε * n) := mul_le_mul_of_nonneg_left (by linarith) hq0
        have b2 : (1 - s) * (a.wp - W) ≤ (1 - s) * (ε * n) :=
          mul_le_mul_of_nonneg_left (by linarith) (by linarith)
        nlinarith
      · simpa using hneg
  · simp only [Except.ok.injEq] at h; subst h; simpa using hneg
  · simp only [Except.ok.injEq] at h; subst h; simpa using hneg

/-- **Lower bound of `IrrNet`** (lemma 6).  With `|round(v,2) − v| ≤ ε` (ε = 0.005 for the real
rounding), both roundings of the rooting depth agreeing, idealised geometry, layer-consistent soil
constants, `0 ≤ NetIrrSMT ≤ 100` and `len ≤ nComp`:  `−2·ε·comp_sto ≤ IrrNet`.  The refill
trigger compares *rounded* root-zone sums, the refill itself adds the *exact* ones. -/
theorem transp_irrNet_lower {F : Fn α} {cells : List (Cell α)} {nComp : Nat} {zTop : α}
    {crop : TrCrop α} {m : Nat} {smt : α} {st : TrState α} {et0 cur ref gdd : α} {gs : Bool}
    {out : TrOut α} (wp fc : Nat → α) (ε : α) (hε : ∀ v, |F.round2 v - v| ≤ ε)
    (hround : F.round2 (pmax st.zRoot crop.zMin) = F.pyRound2 (pmax st.zRoot crop.zMin))
    (hgeo : TrGeom 0 cells) (hrd : 0 < trRootdepth F crop st) (hn : cells.length ≤ nComp)
    (hnet : m = 4 → 0 ≤ smt ∧ smt ≤ 100 ∧ TrLayersOK wp fc 0 cells)
    (h : transpiration F cells nComp zTop crop m smt st et0 cur ref gs gdd = .ok out) :
    -(2 * ε * out.compSto) ≤ out.irrNet := by
  cases gs with
  | false =>
    simp only [transpiration, Bool.false_eq_true, if_false, Except.ok.injEq] at h
    subst h; simp
  | true =>
    obtain ⟨pot, sf, rz, hpot, hsf, hrz, hcore⟩ := transp_ok_inv h
    obtain ⟨ni, hlen, hni, rfl⟩ := trCore_ok_inv hcore
    obtain ⟨f1, t1, b1⟩ := trSurface_spec hsf
    simp only [trFinish]
    have hgeo1 : TrGeom 0 sf.cells := trGeom_of_frame _ _ _ f1 hgeo
    have fE := trExtractLoop_frame F (trLoopPOf F crop m st et0 sf.daySub)
          (trCompSto (trRootdepth F crop st) sf.cells nComp) sf.cells
          (trPotRzOf m sf.trPot (trKs F crop rz st.tEarlySen st.aerDays et0).1) 0 crop.sxTop
    -- `comp_sto = count + 1`: the first `root_zone_water` call succeeded
    obtain ⟨k, a, hk, ha, _, _, _⟩ := tr_rootZoneWater_inv hrz
    have hrdeq : F.round2 (pmax st.zRoot crop.zMin) = trRootdepth F crop st := hround
    rw [hrdeq] at hk ha
    have hkc := tr_firstGE_eq_countBelow _ _ _ _ hgeo1 hk
    obtain ⟨_, _, _, hkl⟩ := tr_rzLoop_exact F _ crop.aer ε hε _ _ _ _ ha
    have hl1 : sf.cells.length = cells.length := by simpa using congrArg List.length f1
    have hcs : trCompSto (trRootdepth F crop st) sf.cells nComp
        = countBelow (trRootdepth F crop st) (trExtractLoop F (trLoopPOf F crop m st et0 sf.daySub)
          (trCompSto (trRootdepth F crop st) sf.cells nComp) sf.cells
          (trPotRzOf m sf.trPot (trKs F crop rz st.tEarlySen st.aerDays et0).1) 0 crop.sxTop).1
          + 1 := by
      rw [tr_countBelow_of_frame _ _ _ fE]
      unfold trCompSto
      rw [← hkc]; omega
    refine trNetIrr_lower wp fc ε hε hround (trGeom_of_frame _ _ _ fE hgeo1) hrd hcs ?_ hni
    intro hm
    obtain ⟨a', b', c'⟩ := hnet hm
    exact ⟨a', b', trLayersOK_of_frame wp fc _ _ _ (fE.trans f1) c'⟩

/-- with exact "rounding" the net irrigation is never negative: a negative `IrrNet` is purely an
artefact of the 2-decimal rounding inside `root_zone_water` -/
theorem transp_irrNet_nonneg_of_exact_round {F : Fn α} {cells : List (Cell α)} {nComp : Nat}
    {zTop : α} {crop : TrCrop α} {m : Nat} {smt : α} {st : TrState α} {et0 cur ref gdd : α}
    {gs : Bool} {out : TrOut α} (wp fc : Nat → α) (hε : ∀ v, F.round2 v = v)
    (hround : F.pyRound2 (pmax st.zRoot crop.zMin) = pmax st.zRoot crop.zMin)
    (hgeo : TrGeom 0 cells) (hrd : 0 < trRootdepth F crop st) (hn : cells.length ≤ nComp)
    (hnet : m = 4 → 0 ≤ smt ∧ smt ≤ 100 ∧ TrLayersOK wp fc 0 cells)
    (h : transpiration F cells nComp zTop crop m smt st et0 cur ref gs gdd = .ok out) :
    0 ≤ out.irrNet := by
  have := transp_irrNet_lower wp fc 0 (by intro v; simp [hε v]) (by rw [hε, hround]) hgeo hrd hn
    hnet h
  simpa using this

/-! ## Non-vacuity: a concrete rational instance satisfies the hypotheses of the lemmas -/

namespace TrExample

def Fq : Fn ℚ where
  exp := fun x => 1 + x
  log := fun x => x - 1
  log10 := fun x => x - 1
  pow := fun x y => if y = 2 then x * x else x
  round0 := id
  round2 := id
  round3 := id
  round4 := id
  pyRound2 := id

def cmpq (dz dzsum : ℚ) : Comp ℚ where
  dz := dz
  dzsum := dzsum
  zMid := dzsum - dz/2
  thS := 0.46
  thFC := 0.31
  thWP := 0.15
  thDry := 0.075
  tau := 0.76
  ksat := 500
  pen := 100
  aCR := 0
  bCR := 0
  layer := 1
def cellsq : List (Cell ℚ) := [⟨cmpq 0.1 0.1, 0.25, 0.31, 0, 0⟩, ⟨cmpq 0.1 0.2, 0.2, 0.31, 0, 0⟩,
  ⟨cmpq 0.1 0.3, 0.3, 0.31, 0, 0⟩]
def cropq : TrCrop ℚ where
  maxCanopyCD := 60
  kcb := 1.1
  fage := 0.15
  aTr := 1
  trColdStress := 0
  gddUp := 14
  gddLo := 0
  lagAer := 3
  zMin := 0.2
  aer := 5
  pUp := fun _ => 0.5
  pLo := fun _ => 1
  fshW := fun _ => 3
  etAdj := true
  beta := 12
  sxTop := 0.048
  sxBot := 0.012
def stq : TrState ℚ where
  dap := 30
  delayedCds := 0
  ageDaysNS := 0
  ageDays := 0
  ccxWNS := 0.8
  ccxW := 0.8
  ccAdjNS := 0.9
  ccNS := 0.8
  ccAdj := 0.9
  cc := 0.8
  ccPrev := 0.8
  pond := 0
  daySubmerged := 0
  zRoot := 0.25
  tEarlySen := 0
  aerDays := 0
  rCor := 1
  irrNetCum := 0
  trRatio := 1
  tPot := 0
  depletion := 0
  taw := 0

-- result: "99/20 99/20 289/20 [139/500, 139/500, 289/1000] 3"  (75 + 14.45 = 84.5 + 4.95)
#eval match transpiration Fq cellsq 3 0.1 cropq 4 80 stq 5 369 369 true 10 with
  | .ok o => s!"{o.trAct} {o.trPot0} {o.irrNet} {o.cells.map (fun (c : Cell ℚ) => c.th)} {o.compSto}"
  | .error e => e

example : TrGeom (0:ℚ) cellsq := by
  simp only [cellsq, TrGeom, cmpq]; norm_num
example : TrLayersOK (fun _ => (0.15:ℚ)) (fun _ => 0.31) 0 cellsq := by
  simp only [cellsq, TrLayersOK, cmpq]; norm_num
example : ∀ x ∈ cellsq, x.Inv := by
  intro x hx
  simp only [cellsq, List.mem_cons, List.not_mem_nil, or_false] at hx
  rcases hx with rfl | rfl | rfl <;>
    exact ⟨⟨by norm_num [cmpq], by norm_num [cmpq], by norm_num [cmpq], by norm_num [cmpq],
      by norm_num [cmpq], by norm_num [cmpq], by norm_num [cmpq], by norm_num [cmpq]⟩,
      by norm_num [cmpq], by norm_num [cmpq], by norm_num [cmpq], by norm_num [cmpq]⟩

example : ∀ x ∈ cellsq, 0 ≤ x.aer := by
  intro x hx
  simp only [cellsq, List.mem_cons, List.not_mem_nil, or_false] at hx
  rcases hx with rfl | rfl | rfl <;> norm_num
example : 0 < trRootdepth Fq cropq stq := by
  simp only [trRootdepth, Fq, cropq, stq, pmax, id]; norm_num
example : ∀ v, |Fq.round2 v - v| ≤ 0 := by intro v; simp [Fq]
example : Fq.round2 (pmax stq.zRoot cropq.zMin) = Fq.pyRound2 (pmax stq.zRoot cropq.zMin) := rfl

end TrExample

end Aqua
