import AquaVerif.Proofs.RunForcing
/-
Work package V, part 2 — **no look-ahead (property C14) on the full run model**.

`AgreeBefore t₀ cfg cfg'`: the two configurations share the static part and the clock, the forcing
(weather rows, water-table depths, schedule entries) of every day `t < t₀`, and the crops of the
seasons planted before `t₀`.  Nothing is assumed about the forcing from day `t₀` on, nor about the
crops of the seasons planted on day `t₀` or later.

* `reach_prefix_determined` / **`run_prefix_determined`**: two runs of the same number of steps
  have the same day records for all days `tsc < t₀` (`recsBefore`), and are in the *same state*
  as long as one of the two clocks is before `t₀`;
* `reach_state_at` : … and also when the clock stands at `t₀` (the state in which day `t₀` starts),
  if the season planted on day `t₀` — if any — has the same crop;
* `run_prefix_tables`: the rows `tsc < t₀` of the three daily tables and of the summary coincide;
* `run_prefix_determined_calendar`: the statement for calendar-day crops (`seasonCrop` shared);
  for thermal-time crops `AgreeBefore.crop` is the explicit calendar premise: `seasonCrop k` is
  computed at the start of season `k` from the temperatures of the whole season
  (`Model/CropCalendar.lean`, `calendarReset`), so it is *not* implied by agreement of the weather
  before `t₀` when season `k` is under way on day `t₀`.

Premises on the clock: `WF cfg.clock` and `InitOK cfg` — they make the clock strictly increasing
along a run (`performR_clock_mono`), without which "the days before `t₀`" would not be a prefix of
the run.
-/

set_option linter.unusedSectionVars false
set_option linter.unusedVariables false
namespace Aqua
open Aqua.Clock
variable {α : Type} [Field α] [LinearOrder α] [IsStrictOrderedRing α]

/-- the records of the days before `t₀` (newest first, as `daysRev`) -/
def recsBefore (t₀ : Nat) (l : List (DayRec α)) : List (DayRec α) :=
  l.filter (fun d => decide (d.D.tsc < t₀))

/-- **the two configurations cannot be told apart before day `t₀`** -/
structure AgreeBefore (t₀ : Nat) (cfg cfg' : RunCfg α) : Prop where
  static : StaticEq cfg cfg'
  clock : cfg'.clock = cfg.clock
  /-- the forcing of the days before `t₀` -/
  day : ∀ t, t < t₀ → DayEq cfg cfg' t
  /-- the crops of the seasons planted before `t₀` (all seasons for calendar-day crops; for
  thermal-time crops: the calendar premise) -/
  crop : ∀ n, cfg.clock.pl n < t₀ → cfg'.seasonCrop n = cfg.seasonCrop n

theorem AgreeBefore.symm {t₀ : Nat} {cfg cfg' : RunCfg α} (h : AgreeBefore t₀ cfg cfg') :
    AgreeBefore t₀ cfg' cfg :=
  ⟨h.static.symm, h.clock.symm, fun t ht => (h.day t ht).symm h.static,
   fun n hn => (h.crop n (by rw [← h.clock]; exact hn)).symm⟩

/-- calendar-day crops: the crops of all seasons are shared -/
theorem AgreeBefore.of_sameCrops {t₀ : Nat} {cfg cfg' : RunCfg α} (hs : StaticEq cfg cfg')
    (hclk : cfg'.clock = cfg.clock) (hd : ∀ t, t < t₀ → DayEq cfg cfg' t)
    (hc : cfg'.seasonCrop = cfg.seasonCrop) : AgreeBefore t₀ cfg cfg' :=
  ⟨hs, hclk, hd, fun n _ => by rw [hc]⟩

/-- e.g. other weather rows and water-table depths from day `t₀` on (`withForcing`) -/
theorem AgreeBefore.withForcing {t₀ : Nat} (cfg : RunCfg α) (w2 : Nat → Weather α) (z2 : Nat → α)
    (hw2 : ∀ t, t < t₀ → w2 t = cfg.weather t) (hz2 : ∀ t, t < t₀ → z2 t = cfg.zgw t) :
    AgreeBefore t₀ cfg (withForcing cfg w2 z2) :=
  ⟨⟨rfl, rfl, rfl, rfl, rfl, rfl, rfl, rfl, rfl, rfl, rfl, rfl, rfl, rfl, rfl, rfl⟩, rfl,
   fun t ht => ⟨hw2 t ht, fun _ => hz2 t ht, rfl, rfl⟩, fun _ _ => rfl⟩

/-- the configuration with other schedule entries -/
def withSchedule (cfg : RunCfg α) (sc fsc : Nat → Option α) : RunCfg α :=
  { cfg with irr := { cfg.irr with sched := sc }, fallowIrr := { cfg.fallowIrr with sched := fsc } }

theorem AgreeBefore.withSchedule {t₀ : Nat} (cfg : RunCfg α) (sc fsc : Nat → Option α)
    (h1 : ∀ t, t < t₀ → sc t = cfg.irr.sched t) (h2 : ∀ t, t < t₀ → fsc t = cfg.fallowIrr.sched t) :
    AgreeBefore t₀ cfg (withSchedule cfg sc fsc) :=
  ⟨⟨rfl, rfl, rfl, rfl, rfl, rfl, rfl, rfl, rfl, rfl, rfl, rfl, rfl, rfl, rfl, rfl⟩, rfl,
   fun t ht => ⟨rfl, fun _ => rfl, h1 t ht, h2 t ht⟩, fun _ _ => rfl⟩

/-! ## 1. the clock along a run -/

section clock
variable {F : Fn α} {T : TrigFn α} {cfg : RunCfg α} {s a : RunState α}

/-- the clock invariant `Live` of `Proofs/Clock.lean` holds of every unfinished reachable state -/
theorem reach_live (hw : WF cfg.clock) (hi : InitOK cfg) (hr : RunReach F T cfg s)
    (hf : s.finished = false) : Live cfg.clock s.clockOf := by
  obtain ⟨ev, hre, _⟩ := run_refines_clock hw hi hr
  exact (good_of_reach hw hre).live hf

/-- a step that finishes the run leaves clock and season counter where they were -/
theorem performR_finished (hp : performR F T cfg s = .ok a) (hf : a.finished = true) :
    a.t = s.t ∧ a.season = s.season := by
  obtain ⟨ph, r, s1, _, _, _, hs1, hu⟩ := performR_ok hp
  obtain ⟨c', hc', hcl, _, hfin, _⟩ := updateTimeR_ok hu
  have hf2 : (checkFinishedR cfg s1).clockOf.finished = true := by
    show (checkFinishedR cfg s1).finished = true
    rw [← hfin]; exact hf
  unfold updateTime at hc'
  rw [if_pos hf2] at hc'
  cases hc'
  have e1 : a.clockOf.t = (checkFinishedR cfg s1).clockOf.t := by rw [hcl]
  have e2 : a.clockOf.season = (checkFinishedR cfg s1).clockOf.season := by rw [hcl]
  have e3 : (checkFinishedR cfg s1).clockOf.t = s.t := by rw [hs1]; rfl
  have e4 : (checkFinishedR cfg s1).clockOf.season = s.season := by rw [hs1]; rfl
  exact ⟨e1.trans e3, e2.trans e4⟩

/-- **the clock is strictly increasing along a run** (until the run finishes) -/
theorem performR_clock_mono (hw : WF cfg.clock) (hi : InitOK cfg) (hr : RunReach F T cfg s)
    (hp : performR F T cfg s = .ok a) :
    (a.finished = false → s.t < a.t) ∧ (a.finished = true → a.t = s.t) := by
  constructor
  · intro hf
    have hL := reach_live hw hi (RunReach.step hr hp) hf
    obtain ⟨_, d, hd, _, ht, _⟩ := performR_info hp
    have hm : DayRec.clockRow d ∈ a.clockOf.rowsRev := by
      show DayRec.clockRow d ∈ a.daysRev.map DayRec.clockRow
      rw [hd]; exact List.mem_map_of_mem List.mem_cons_self
    have := (hL.rowsB _ hm).1
    have e : (DayRec.clockRow d).t = s.t := ht
    rw [e] at this
    exact this
  · intro hf
    exact (performR_finished hp hf).1

end clock

/-! ## 2. the relation between the two runs -/

/-- the states up to (and, under `E`, including) the one in which day `t₀` starts -/
def Upto (t₀ : Nat) (E : Prop) (s : RunState α) : Prop :=
  s.t < t₀ ∨ (E ∧ s.t = t₀ ∧ s.finished = false)

structure PrefixRel (t₀ : Nat) (E : Prop) (s s' : RunState α) : Prop where
  eq : Upto t₀ E s ∨ Upto t₀ E s' → s' = s
  recs : recsBefore t₀ s'.daysRev = recsBefore t₀ s.daysRev

theorem recsBefore_cons_ge {t₀ : Nat} {d : DayRec α} (h : t₀ ≤ d.D.tsc) (l : List (DayRec α)) :
    recsBefore t₀ (d :: l) = recsBefore t₀ l := by
  unfold recsBefore
  rw [List.filter_cons_of_neg]
  simp only [decide_eq_true_eq]
  omega

section rel
variable {F : Fn α} {T : TrigFn α} {cfg cfg' : RunCfg α} {t₀ : Nat} {E : Prop}

/-- a step from a state at or after `t₀` adds a record at or after `t₀` and ends after `t₀`
(or at `t₀`, finished) -/
theorem step_beyond (hw : WF cfg.clock) (hi : InitOK cfg) {s a : RunState α}
    (hr : RunReach F T cfg s) (hp : performR F T cfg s = .ok a) (ht : t₀ ≤ s.t) :
    t₀ ≤ a.t ∧ ¬ Upto t₀ E a ∧ recsBefore t₀ a.daysRev = recsBefore t₀ s.daysRev := by
  obtain ⟨m1, m2⟩ := performR_clock_mono hw hi hr hp
  obtain ⟨_, d, hd, _, hdt, _⟩ := performR_info hp
  have hge : t₀ ≤ a.t ∧ ¬ Upto t₀ E a := by
    cases hf : a.finished with
    | false =>
      have := m1 hf
      refine ⟨by omega, ?_⟩
      rintro (h | ⟨_, h, _⟩) <;> omega
    | true =>
      have := m2 hf
      refine ⟨by omega, ?_⟩
      rintro (h | ⟨_, _, h⟩)
      · omega
      · rw [hf] at h; cases h
  refine ⟨hge.1, hge.2, ?_⟩
  rw [hd]
  exact recsBefore_cons_ge (by rw [hdt]; exact ht) _

theorem initOK_agree (hs : StaticEq cfg cfg') (hi : InitOK cfg) : InitOK cfg' := by
  obtain ⟨h1, h2, h3, h4⟩ := hi
  constructor <;> rw [hs.init] <;> assumption

/-- a step from a state before `t₀` that ends in a state `Upto t₀` is the same step in the other
run (success of the other run is a conclusion) -/
theorem step_same (hA : AgreeBefore t₀ cfg cfg')
    (hE : E → ∀ n, cfg.clock.pl n = t₀ → cfg'.seasonCrop n = cfg.seasonCrop n)
    (hw : WF cfg.clock) (hi : InitOK cfg) {s a : RunState α}
    (hr : RunReach F T cfg s) (ht : s.t < t₀) (hp : performR F T cfg s = .ok a)
    (hUa : Upto t₀ E a) : performR F T cfg' s = .ok a := by
  obtain ⟨hf, d, hd, _, _, hcase⟩ := performR_info hp
  have hL := reach_live hw hi hr hf
  have hc : CropEq cfg cfg' s.season := by
    intro h0
    have := hL.cur h0
    exact hA.crop _ (by
      have e : s.clockOf.t = s.t := rfl
      have e2 : s.clockOf.season = s.season := rfl
      rw [e, e2] at this; omega)
  obtain ⟨a'', hp'', f1, f2, f3, f4, heq⟩ := performR_agree hA.static hA.clock (hA.day _ ht) hc hp
  rw [hp'']
  congr 1
  apply heq
  cases hfa : a.finished with
  | true => exact Or.inl (performR_finished hp hfa).2
  | false =>
    by_cases hse : a.season = s.season
    · exact Or.inl hse
    · right
      have hsa : a.season = s.season + 1 := by
        rcases hcase with ⟨e, _⟩ | ⟨e, _⟩
        · exact absurd e hse
        · exact e
      have hLa := reach_live hw hi (RunReach.step hr hp) hfa
      have hslo : -1 ≤ s.season := hL.slo
      have h0 : 0 ≤ a.season := by omega
      have hcur : cfg.clock.pl a.season.toNat ≤ a.t := hLa.cur h0
      rcases hUa with h | ⟨hEE, h, _⟩
      · exact hA.crop _ (by omega)
      · by_cases hpl : cfg.clock.pl a.season.toNat < t₀
        · exact hA.crop _ hpl
        · exact hE hEE _ (by omega)

/-- **one step of each run keeps the relation** -/
theorem prefix_step (hA : AgreeBefore t₀ cfg cfg')
    (hE : E → ∀ n, cfg.clock.pl n = t₀ → cfg'.seasonCrop n = cfg.seasonCrop n)
    (hw : WF cfg.clock) (hi : InitOK cfg) {s s' a a' : RunState α}
    (hr : RunReach F T cfg s) (hr' : RunReach F T cfg' s') (hR : PrefixRel t₀ E s s')
    (hp : performR F T cfg s = .ok a) (hp' : performR F T cfg' s' = .ok a') :
    PrefixRel t₀ E a a' := by
  have hw' : WF cfg'.clock := by rw [hA.clock]; exact hw
  have hi' : InitOK cfg' := initOK_agree hA.static hi
  by_cases hlt : s.t < t₀ ∨ s'.t < t₀
  · -- the two runs are in the same state, before `t₀`
    have hss : s' = s := hR.eq (hlt.elim (fun h => Or.inl (Or.inl h)) (fun h => Or.inr (Or.inl h)))
    subst hss
    have ht : s'.t < t₀ := hlt.elim id id
    obtain ⟨hf, _⟩ := performR_info hp
    have hL := reach_live hw hi hr hf
    have hc : CropEq cfg cfg' s'.season := by
      intro h0
      have := hL.cur h0
      exact hA.crop _ (by
        have e : s'.clockOf.t = s'.t := rfl
        have e2 : s'.clockOf.season = s'.season := rfl
        rw [e, e2] at this; omega)
    obtain ⟨a'', hp'', f1, f2, f3, f4, _⟩ := performR_agree hA.static hA.clock (hA.day _ ht) hc hp
    rw [hp'] at hp''
    cases hp''
    refine ⟨?_, by rw [f4]⟩
    intro hU
    have hUa : Upto t₀ E a := by
      rcases hU with h | h
      · exact h
      · unfold Upto at h ⊢; rw [f1, f3] at h; exact h
    have := step_same hA hE hw hi hr ht hp hUa
    rw [hp'] at this
    exact Except.ok.inj this
  · -- both runs are at or after `t₀`
    have h1 : t₀ ≤ s.t := by omega
    have h2 : t₀ ≤ s'.t := by omega
    obtain ⟨_, n1, r1⟩ := step_beyond (E := E) hw hi hr hp h1
    obtain ⟨_, n2, r2⟩ := step_beyond (E := E) hw' hi' hr' hp' h2
    refine ⟨?_, by rw [r1, r2, hR.recs]⟩
    rintro (h | h)
    · exact absurd h n1
    · exact absurd h n2

/-- a state the initialised model reaches by `j` successful steps is reachable -/
theorem reach_of_iter {s0 : RunState α} (h0 : runInit cfg = .ok s0) :
    ∀ (j : Nat) {s : RunState α}, iterR F T cfg j s0 = .ok s → RunReach F T cfg s := by
  intro j
  induction j with
  | zero => intro s h; cases h; exact RunReach.init h0
  | succ j ih =>
    intro s h
    simp only [iterR] at h
    split at h
    · cases h
    · rename_i x hx
      exact RunReach.step (ih hx) h

theorem reach_of_iter_from {s1 : RunState α} (hr : RunReach F T cfg s1) :
    ∀ (j : Nat) {s : RunState α}, iterR F T cfg j s1 = .ok s → RunReach F T cfg s := by
  intro j
  induction j with
  | zero => intro s h; cases h; exact hr
  | succ j ih =>
    intro s h
    simp only [iterR] at h
    split at h
    · cases h
    · rename_i x hx
      exact RunReach.step (ih hx) h

/-- **the relation holds after any number `j` of steps of both runs** -/
theorem iter_prefix (hA : AgreeBefore t₀ cfg cfg')
    (hE : E → ∀ n, cfg.clock.pl n = t₀ → cfg'.seasonCrop n = cfg.seasonCrop n)
    (hw : WF cfg.clock) (hi : InitOK cfg) {s0 : RunState α} (h0 : runInit cfg = .ok s0) :
    ∀ (j : Nat) {s s' : RunState α}, iterR F T cfg j s0 = .ok s → iterR F T cfg' j s0 = .ok s' →
      PrefixRel t₀ E s s' := by
  have h0' : runInit cfg' = .ok s0 := by rw [runInit_agree hA.static hA.clock]; exact h0
  intro j
  induction j with
  | zero =>
    intro s s' h h'
    cases h; cases h'
    exact ⟨fun _ => rfl, rfl⟩
  | succ j ih =>
    intro s s' h h'
    simp only [iterR] at h h'
    split at h
    · cases h
    · rename_i x hx
      split at h'
      · cases h'
      · rename_i x' hx'
        exact prefix_step hA hE hw hi (reach_of_iter h0 j hx) (reach_of_iter h0' j hx') (ih hx hx')
          h h'

/-- further steps from a state at or after `t₀` add no record before `t₀` -/
theorem iter_beyond (hw : WF cfg.clock) (hi : InitOK cfg) {a : RunState α}
    (hr : RunReach F T cfg a) (ht : t₀ ≤ a.t) :
    ∀ (m : Nat) {b : RunState α}, iterR F T cfg m a = .ok b →
      t₀ ≤ b.t ∧ recsBefore t₀ b.daysRev = recsBefore t₀ a.daysRev := by
  intro m
  induction m with
  | zero => intro b h; cases h; exact ⟨ht, rfl⟩
  | succ m ih =>
    intro b h
    simp only [iterR] at h
    split at h
    · cases h
    · rename_i x hx
      obtain ⟨i1, i2⟩ := ih hx
      obtain ⟨j1, _, j3⟩ := step_beyond (E := False) hw hi (reach_of_iter_from hr m hx) h i1
      exact ⟨j1, by rw [j3, i2]⟩

end rel

/-! ## 3. the theorems -/

section main
variable {F : Fn α} {T : TrigFn α} {cfg cfg' : RunCfg α} {t₀ : Nat}

/-- **No look-ahead, reachable states.**  Two states reached by equally many steps under
configurations that agree before day `t₀` have the same records of all days before `t₀`, and are
the same state if one of the two clocks is before `t₀`. -/
theorem reach_prefix_determined (hA : AgreeBefore t₀ cfg cfg') (hw : WF cfg.clock)
    (hi : InitOK cfg) {s s' : RunState α} (hr : RunReach F T cfg s) (hr' : RunReach F T cfg' s')
    (hlen : s.daysRev.length = s'.daysRev.length) :
    recsBefore t₀ s'.daysRev = recsBefore t₀ s.daysRev ∧ (s.t < t₀ ∨ s'.t < t₀ → s' = s) := by
  obtain ⟨s0, h0, hit⟩ := reach_iter hr
  obtain ⟨s0', h0', hit'⟩ := reach_iter hr'
  rw [runInit_agree hA.static hA.clock, h0] at h0'
  cases h0'
  rw [← hlen] at hit'
  have hR := iter_prefix (E := False) hA (fun h => h.elim) hw hi h0 _ hit hit'
  exact ⟨hR.recs, fun h => hR.eq (h.elim (fun h => Or.inl (Or.inl h)) (fun h => Or.inr (Or.inl h)))⟩

/-- **The state in which day `t₀` starts** is the same as well, provided the season planted on
day `t₀` (if there is one) has the same crop in both configurations. -/
theorem reach_state_at (hA : AgreeBefore t₀ cfg cfg') (hw : WF cfg.clock) (hi : InitOK cfg)
    (hc0 : ∀ n, cfg.clock.pl n = t₀ → cfg'.seasonCrop n = cfg.seasonCrop n)
    {s s' : RunState α} (hr : RunReach F T cfg s) (hr' : RunReach F T cfg' s')
    (hlen : s.daysRev.length = s'.daysRev.length)
    (h : (s.t = t₀ ∧ s.finished = false) ∨ (s'.t = t₀ ∧ s'.finished = false)) : s' = s := by
  obtain ⟨s0, h0, hit⟩ := reach_iter hr
  obtain ⟨s0', h0', hit'⟩ := reach_iter hr'
  rw [runInit_agree hA.static hA.clock, h0] at h0'
  cases h0'
  rw [← hlen] at hit'
  have hR := iter_prefix (E := True) hA (fun _ => hc0) hw hi h0 _ hit hit'
  exact hR.eq (h.elim (fun h => Or.inl (Or.inr ⟨trivial, h⟩)) (fun h => Or.inr (Or.inr ⟨trivial, h⟩)))

/-- `run_model(num_steps = k)` is `j ≤ k` single steps, `j < k` only if the run finished -/
theorem runStepsR_iter : ∀ (k : Nat) {s r : RunState α}, runStepsR F T cfg k s = .ok r →
    ∃ j, j ≤ k ∧ iterR F T cfg j s = .ok r ∧ (j < k → r.finished = true) := by
  intro k
  induction k with
  | zero => intro s r h; cases h; exact ⟨0, Nat.le_refl _, rfl, fun h => absurd h (Nat.lt_irrefl _)⟩
  | succ k ih =>
    intro s r h
    simp only [runStepsR] at h
    split at h
    · cases h
    · rename_i s1 hp
      have h1 : iterR F T cfg 1 s = .ok s1 := by simp only [iterR]; exact hp
      by_cases hf : s1.finished = true
      · rw [if_pos hf] at h
        cases h
        exact ⟨1, by omega, h1, fun _ => hf⟩
      · rw [if_neg hf] at h
        obtain ⟨j, hj, hit, hfin⟩ := ih h
        refine ⟨j + 1, by omega, ?_, fun hlt => hfin (by omega)⟩
        rw [iterR_add j 1, h1]
        exact hit

theorem iter_split (m n : Nat) {s0 r : RunState α} (h : iterR F T cfg (m + n) s0 = .ok r) :
    ∃ a, iterR F T cfg n s0 = .ok a ∧ iterR F T cfg m a = .ok r := by
  rw [iterR_add] at h
  split at h
  · cases h
  · rename_i a ha
    exact ⟨a, ha, h⟩

/-- **No look-ahead (C14) on the full run model.**  `cfg` and `cfg'` agree on everything except
the forcing (weather rows, water-table depths, schedule entries) of the days `≥ t₀` and the crops
of the seasons planted on day `t₀` or later.  Then the two results of `run_model(num_steps = k)`
from the initialised model have the same day records — parameters, start state, forcing,
complete `DayResult` — for all days before `t₀`; and if one of the two final clocks is before
`t₀`, the two final states are equal. -/
theorem run_prefix_determined (hA : AgreeBefore t₀ cfg cfg') (hw : WF cfg.clock) (hi : InitOK cfg)
    {s0 r r' : RunState α} (h0 : runInit cfg = .ok s0) {k : Nat}
    (hrun : runModel F T cfg k s0 = .ok r) (hrun' : runModel F T cfg' k s0 = .ok r') :
    recsBefore t₀ r'.daysRev = recsBefore t₀ r.daysRev ∧ (r.t < t₀ ∨ r'.t < t₀ → r' = r) := by
  have hw' : WF cfg'.clock := by rw [hA.clock]; exact hw
  have hi' : InitOK cfg' := initOK_agree hA.static hi
  have h0' : runInit cfg' = .ok s0 := by rw [runInit_agree hA.static hA.clock]; exact h0
  unfold runModel at hrun hrun'
  split_ifs at hrun hrun'
  obtain ⟨j, hj, hit, hfin⟩ := runStepsR_iter k hrun
  obtain ⟨j', hj', hit', hfin'⟩ := runStepsR_iter k hrun'
  have key := fun {s s' : RunState α} (j : Nat) (h : iterR F T cfg j s0 = .ok s)
      (h' : iterR F T cfg' j s0 = .ok s') => iter_prefix (E := False) hA (fun h => h.elim) hw hi h0 j h h'
  have up : ∀ {x y : RunState α}, (x.t < t₀ ∨ y.t < t₀) → Upto t₀ False x ∨ Upto t₀ False y :=
    fun h => h.elim (fun h => Or.inl (Or.inl h)) (fun h => Or.inr (Or.inl h))
  rcases Nat.lt_trichotomy j j' with hlt | heq | hgt
  · -- the run of `cfg` finished first
    obtain ⟨m, hm⟩ : ∃ m, j' = (m + 1) + j := ⟨j' - j - 1, by omega⟩
    rw [hm] at hit'
    obtain ⟨a', ha', hrest⟩ := iter_split (m + 1) j hit'
    have hR := key j hit ha'
    have hrf : r.finished = true := hfin (by omega)
    by_cases hb : r.t < t₀ ∨ a'.t < t₀
    · have := hR.eq (up hb)
      subst this
      have := iterR_finished (m + 1) hrf hrest
      omega
    · have hb2 : t₀ ≤ a'.t := by omega
      obtain ⟨b1, b2⟩ := iter_beyond hw' hi' (reach_of_iter h0' j ha') hb2 (m + 1) hrest
      refine ⟨by rw [b2, hR.recs], ?_⟩
      rintro (h | h) <;> omega
  · subst heq
    have hR := key j hit hit'
    exact ⟨hR.recs, fun h => hR.eq (up h)⟩
  · -- the run of `cfg'` finished first
    obtain ⟨m, hm⟩ : ∃ m, j = (m + 1) + j' := ⟨j - j' - 1, by omega⟩
    rw [hm] at hit
    obtain ⟨a, ha, hrest⟩ := iter_split (m + 1) j' hit
    have hR := key j' ha hit'
    have hrf : r'.finished = true := hfin' (by omega)
    by_cases hb : a.t < t₀ ∨ r'.t < t₀
    · have := hR.eq (up hb)
      subst this
      have := iterR_finished (m + 1) hrf hrest
      omega
    · have hb2 : t₀ ≤ a.t := by omega
      obtain ⟨b1, b2⟩ := iter_beyond hw hi (reach_of_iter h0 j' ha) hb2 (m + 1) hrest
      refine ⟨by rw [b2, hR.recs], ?_⟩
      rintro (h | h) <;> omega

/-- **C14 for calendar-day crops**: the crops of all seasons are configuration constants
(`seasonCrop` shared), so the only premise on the inputs is agreement of the forcing before `t₀`. -/
theorem run_prefix_determined_calendar (hs : StaticEq cfg cfg') (hclk : cfg'.clock = cfg.clock)
    (hd : ∀ t, t < t₀ → DayEq cfg cfg' t) (hc : cfg'.seasonCrop = cfg.seasonCrop)
    (hw : WF cfg.clock) (hi : InitOK cfg) {s0 r r' : RunState α} (h0 : runInit cfg = .ok s0)
    {k : Nat} (hrun : runModel F T cfg k s0 = .ok r) (hrun' : runModel F T cfg' k s0 = .ok r') :
    recsBefore t₀ r'.daysRev = recsBefore t₀ r.daysRev ∧ (r.t < t₀ ∨ r'.t < t₀ → r' = r) :=
  run_prefix_determined (AgreeBefore.of_sameCrops hs hclk hd hc) hw hi h0 hrun hrun'

/-- **while the run of `cfg` has not reached day `t₀`, the run of `cfg'` exists and is the same**
(success of the second run need not be assumed) -/
theorem run_prefix_exists (hA : AgreeBefore t₀ cfg cfg') (hw : WF cfg.clock) (hi : InitOK cfg)
    {s0 : RunState α} (h0 : runInit cfg = .ok s0) :
    ∀ (j : Nat) {s : RunState α}, iterR F T cfg j s0 = .ok s → s.t < t₀ →
      iterR F T cfg' j s0 = .ok s := by
  intro j
  induction j with
  | zero => intro s h _; exact h
  | succ j ih =>
    intro s h hst
    simp only [iterR] at h ⊢
    split at h
    · cases h
    · rename_i x hx
      have hr := reach_of_iter h0 j hx
      obtain ⟨m1, m2⟩ := performR_clock_mono hw hi hr h
      have hxt : x.t < t₀ := by
        cases hf : s.finished with
        | false => have := m1 hf; omega
        | true => have := m2 hf; omega
      rw [ih hx hxt]
      exact step_same (E := False) hA (fun h => h.elim) hw hi hr hxt h (Or.inl hst)

/-- … in terms of `run_model(num_steps = k)` -/
theorem run_prefix_exists_model (hA : AgreeBefore t₀ cfg cfg') (hw : WF cfg.clock)
    (hi : InitOK cfg) {s0 r : RunState α} (h0 : runInit cfg = .ok s0) {k : Nat}
    (hrun : runModel F T cfg k s0 = .ok r) (ht : r.t < t₀) : runModel F T cfg' k s0 = .ok r := by
  have hboth : ∀ (k : Nat) {s r : RunState α}, RunReach F T cfg s → runStepsR F T cfg k s = .ok r →
      r.t < t₀ → runStepsR F T cfg' k s = .ok r := by
    intro k
    induction k with
    | zero => intro s r _ h _; exact h
    | succ k ih =>
      intro s r hr h hrt
      simp only [runStepsR] at h ⊢
      split at h
      · cases h
      · rename_i s1 hp
        have hr1 := RunReach.step hr hp
        obtain ⟨m1, m2⟩ := performR_clock_mono hw hi hr hp
        by_cases hf : s1.finished = true
        · rw [if_pos hf] at h
          cases h
          have hst : s.t < t₀ := by have := m2 hf; omega
          rw [step_same (E := False) hA (fun h => h.elim) hw hi hr hst hp (Or.inl hrt)]
          simp only [hf, if_true]
        · rw [if_neg hf] at h
          -- the clock of the final state bounds the clocks on the way
          have hmono : ∀ (k : Nat) {u v : RunState α}, RunReach F T cfg u →
              runStepsR F T cfg k u = .ok v → u.t ≤ v.t := by
            intro k
            induction k with
            | zero => intro u v _ h; cases h; exact Nat.le_refl _
            | succ k ih2 =>
              intro u v hu h
              simp only [runStepsR] at h
              split at h
              · cases h
              · rename_i u1 hp1
                obtain ⟨n1, n2⟩ := performR_clock_mono hw hi hu hp1
                by_cases hf1 : u1.finished = true
                · rw [if_pos hf1] at h; cases h; have := n2 hf1; omega
                · rw [if_neg hf1] at h
                  have := ih2 (RunReach.step hu hp1) h
                  have := n1 (by simpa using hf1)
                  omega
          have h1t : s1.t < t₀ := by have := hmono k hr1 h; omega
          have hst : s.t < t₀ := by have := m1 (by simpa using hf); omega
          rw [step_same (E := False) hA (fun h => h.elim) hw hi hr hst hp (Or.inl h1t)]
          simp only [hf, if_false, Bool.false_eq_true]
          exact ih hr1 h hrt
  unfold runModel at hrun ⊢
  by_cases hk : k < 1
  · rw [if_pos hk] at hrun; cases hrun
  · rw [if_neg hk] at hrun ⊢
    exact hboth k (RunReach.init h0) hrun ht

/-! ### the tables -/

theorem filter_map_recs {β : Type} (f : DayRec α → β) (key : β → Nat) (l : List (DayRec α))
    (hk : ∀ d ∈ l, key (f d) = d.D.tsc) :
    (l.reverse.map f).filter (fun x => decide (key x < t₀)) =
      ((recsBefore t₀ l).reverse).map f := by
  unfold recsBefore
  rw [List.filter_map, ← List.filter_reverse]
  congr 1
  apply List.filter_congr
  intro d hd
  simp only [Function.comp, hk d (List.mem_reverse.mp hd)]

theorem filter_filterMap_of {β γ : Type} (g : γ → Option β) (p : β → Bool) (q : γ → Bool) :
    ∀ (m : List γ), (∀ d ∈ m, ∀ x, g d = some x → p x = q d) →
      (m.filterMap g).filter p = (m.filter q).filterMap g
  | [], _ => rfl
  | d :: m, h => by
    have ih := filter_filterMap_of g p q m (fun d' hd' => h d' (List.mem_cons_of_mem _ hd'))
    cases hg : g d with
    | none =>
      rw [List.filterMap_cons_none hg]
      by_cases hq : q d = true
      · rw [List.filter_cons_of_pos hq, List.filterMap_cons_none hg, ih]
      · rw [List.filter_cons_of_neg hq, ih]
    | some x =>
      have hpx := h d List.mem_cons_self x hg
      rw [List.filterMap_cons_some hg]
      by_cases hq : q d = true
      · rw [List.filter_cons_of_pos hq, List.filterMap_cons_some hg,
          List.filter_cons_of_pos (by rw [hpx]; exact hq), ih]
      · rw [List.filter_cons_of_neg hq, List.filter_cons_of_neg (by rw [hpx]; exact hq), ih]

theorem filter_filterMap_recs {β : Type} (g : DayRec α → Option β) (key : β → Nat)
    (l : List (DayRec α)) (hk : ∀ d ∈ l, ∀ x, g d = some x → key x = d.D.tsc) :
    (l.reverse.filterMap g).filter (fun x => decide (key x < t₀)) =
      ((recsBefore t₀ l).reverse).filterMap g := by
  unfold recsBefore
  rw [← List.filter_reverse]
  apply filter_filterMap_of
  intro d hd x hx
  rw [hk d (List.mem_reverse.mp hd) x hx]

/-- the key column `time_step_counter` of the rows a day writes is the day's -/
theorem fullDay_tsc {P : DayParams α} {st : DayState' α} {D : DayIn' α} {r : DayResult α}
    (h : fullDay F T P st D = .ok r) :
    r.storage.tsc = D.tsc ∧ r.flux.tsc = D.tsc ∧ r.growth.tsc = D.tsc ∧
      ∀ x, r.summary = some x → x.tsc = D.tsc := by
  refine ⟨?_, ?_, ?_, fun x hx => ((fullDay_summary h).2.2.2 x hx).2.1⟩
  all_goals
    obtain ⟨X, hs, rfl⟩ := fullDay_ok' h
    rfl

/-- the rows `time_step_counter < t₀` of the four output tables are functions of the records of
the days before `t₀` -/
theorem tables_of_recs {s : RunState α} (hr : RunReach F T cfg s) :
    s.storageTable.filter (fun x => decide (x.tsc < t₀)) =
        ((recsBefore t₀ s.daysRev).reverse).map (·.r.storage) ∧
    s.fluxTable.filter (fun x => decide (x.tsc < t₀)) =
        ((recsBefore t₀ s.daysRev).reverse).map (·.r.flux) ∧
    s.growthTable.filter (fun x => decide (x.tsc < t₀)) =
        ((recsBefore t₀ s.daysRev).reverse).map (·.r.growth) ∧
    s.summaryTable.filter (fun x => decide (x.tsc < t₀)) =
        ((recsBefore t₀ s.daysRev).reverse).filterMap (·.r.summary) := by
  have hd := run_days hr
  refine ⟨?_, ?_, ?_, ?_⟩
  · exact filter_map_recs (·.r.storage) (·.tsc) _ (fun d h => (fullDay_tsc (hd d h)).1)
  · exact filter_map_recs (·.r.flux) (·.tsc) _ (fun d h => (fullDay_tsc (hd d h)).2.1)
  · exact filter_map_recs (·.r.growth) (·.tsc) _ (fun d h => (fullDay_tsc (hd d h)).2.2.1)
  · exact filter_filterMap_recs (·.r.summary) (·.tsc) _ (fun d h => (fullDay_tsc (hd d h)).2.2.2)

/-- **C14 in terms of the output tables**: the rows of `water_storage`, `water_flux`,
`crop_growth` for the days before `t₀`, and the summary rows written before `t₀` (the seasons
that ended before `t₀`), are the same in the two runs. -/
theorem run_prefix_tables (hA : AgreeBefore t₀ cfg cfg') (hw : WF cfg.clock) (hi : InitOK cfg)
    {s0 r r' : RunState α} (h0 : runInit cfg = .ok s0) {k : Nat}
    (hrun : runModel F T cfg k s0 = .ok r) (hrun' : runModel F T cfg' k s0 = .ok r') :
    r'.storageTable.filter (fun x => decide (x.tsc < t₀)) =
        r.storageTable.filter (fun x => decide (x.tsc < t₀)) ∧
    r'.fluxTable.filter (fun x => decide (x.tsc < t₀)) =
        r.fluxTable.filter (fun x => decide (x.tsc < t₀)) ∧
    r'.growthTable.filter (fun x => decide (x.tsc < t₀)) =
        r.growthTable.filter (fun x => decide (x.tsc < t₀)) ∧
    r'.summaryTable.filter (fun x => decide (x.tsc < t₀)) =
        r.summaryTable.filter (fun x => decide (x.tsc < t₀)) := by
  have h0' : runInit cfg' = .ok s0 := by rw [runInit_agree hA.static hA.clock]; exact h0
  obtain ⟨hrec, _⟩ := run_prefix_determined hA hw hi h0 hrun hrun'
  obtain ⟨a1, a2, a3, a4⟩ := tables_of_recs (t₀ := t₀) (runReach_runModel (RunReach.init h0) hrun)
  obtain ⟨b1, b2, b3, b4⟩ := tables_of_recs (t₀ := t₀) (runReach_runModel (RunReach.init h0') hrun')
  rw [a1, a2, a3, a4, b1, b2, b3, b4, hrec]
  exact ⟨rfl, rfl, rfl, rfl⟩

end main
end Aqua

#print axioms Aqua.reach_prefix_determined
#print axioms Aqua.reach_state_at
#print axioms Aqua.run_prefix_determined
#print axioms Aqua.run_prefix_determined_calendar
#print axioms Aqua.run_prefix_exists
#print axioms Aqua.run_prefix_exists_model
#print axioms Aqua.run_prefix_tables
