import AquaVerif.Proofs.Run
import AquaVerif.Proofs.RunClosedDay

/-
Work package L: **the per-day premises of the run-level theorems, discharged from premises on the
configuration and the weather only.**

`Proofs/Run.lean` proves `run_inv`, `run_pond_bounds`, `run_closes` (C03/C01 on every simulated
day of every run) under `DayOK` on every simulated day, and `run_cropInv` (C05) under `DayCropOK`
on every simulated day.  Both are premises about *computed* values.  Here:

1. `CfgOK F T cfg` — premises on the configuration only (laws of `F`/`T`, initial profile and
   state, the crop record of every season and the fallow crop (`CropOK`), irrigation / field
   management parameters); `WeatherOK F cfg` — premises on the weather table only (`0 < ET0` on
   every day; ordered water-stress thresholds of the harvest-index routine at that `ET0`).
2. `dayOK_<field>` / `dayCropOK_<field>`: every field of `DayOK` and `DayCropOK` either proved for
   the day simulated from a run state satisfying the invariants (`DayOf`, `RunInvW`, `RunInvAll`),
   or reduced to the explicitly named `Residual` of that day.
3. The combined invariant `RunInvAll` (water invariant + non-negative aeration counters and root
   correction + the crop envelope) holds in every reachable state (`run_invW`, `run_invAll`), and
   the final theorems `run_inv_closed`, `run_closes_closed`, `run_pond_bounds_closed`,
   `run_cropInv_closed` have the conclusions of the originals with hypotheses `CfgOK`,
   `WeatherOK`, `Residual` only.

**What is discharged here** (from `CfgOK`/`WeatherOK` and the invariants at the start of the
day): `DayOK.tr` entirely — `geom`, `aer` (new invariant: `aer_days_comp ≥ 0`,
`fullDay_aer_nonneg`), `sxTop`, `sxBot`, `rCor` (new invariant `r_cor ≥ 0`: `fullDay_rCor_nonneg`,
needs the root envelope of the same day), `rd`, `layers`; the law part of `DayOK.gw`; of
`DayCropOK`: `cc`, `root`, `hi`, `wpy0`, `wpy1`, `wp`, `sw` (`fullDay_bioSwitch`), `et`, and the
first half of `tr` (`0 ≤ Tr`, and `Tr ≤ TrPot`).

**What remains in this file (`Residual d`), and what becomes of it in the follow-up files:**
* `cr` (= `ResidualW`) — with a water table, capillary rise did not lift a compartment above
  saturation that day.  Genuinely not derivable: `capillary_rise` can overshoot `th_s` by up to
  1/20000 (`Properties/C03.lean`, `capillary_rise_inv_with_slack`).  Trivially true without a
  water table (`residualW_of_no_table`).  **This is the only residual that survives.**
* `rw` — on a day on which the late-season rewatering branch of `canopy_cover` runs, the
  `ccx_act := CCXadj` of `update_CCx_CDC(cc_prev, CDC, CCx, dt)` is at most `CCx`.  Not a
  consequence of `CropInv` (`cc_prev ≤ CCx` only), but **discharged in `Proofs/RunClosedRw.lean`**
  by a further invariant (the canopy lies below the decline curve from `CCx`: `CcCurve`).
* `trPot` — in season `0 ≤ TrPot ≤ TrPot_NS` (the *potential* transpirations of `transpiration`).
  The lower half `0 ≤ TrPot` is **discharged in `Proofs/RunClosedTr.lean`** (canopy age bounded
  through the clock, `ccx_w ∈ [0, CCx]`, …).  The upper half `TrPot ≤ TrPot_NS` is **false for
  states inside the envelope**: the ageing term `(age−5)·fage/100·CCxW` is *larger* for the larger
  no-stress canopy, so with both adjusted canopies capped at 1 the no-stress potential is the
  *smaller* one (`Proofs/RunClosedExample.lean`, `trPot_gt_trPotNS`).  It is needed only for
  `biomass ≤ biomass_ns` (`BioInv.b_le`), which is not part of property C05: section 7 (`CropEnv`)
  drops it.  From the residual, `DayCropOK.tr` (`0 ≤ Tr ≤ TrPot_NS`) follows (`dayCropOK_tr`).
The water theorems (`run_inv_closed`, `run_closes_closed`, `run_pond_bounds_closed`,
`run_flux_signs_closed`) need only the `cr` part (`ResidualW`).  End result of the four files:
`run_crop_closed` (`RunClosedRw`) and `run_flux_closed` (`RunClosedEs`) have `ResidualW` as their
only hypothesis about computed values.
-/

set_option linter.unusedSectionVars false
set_option linter.unusedVariables false
set_option linter.unusedSimpArgs false
namespace Aqua
open Aqua.Clock
variable {α : Type} [Field α] [LinearOrder α] [IsStrictOrderedRing α]

/-! ## 1. premises on the configuration and on the weather -/

/-- laws of the elementary functions -/
structure FnOK (F : Fn α) (T : TrigFn α) : Prop where
  /-- `exp` positive, `exp 0 = 1`, strictly monotone -/
  expOrd : ExpOrdLaws F
  /-- `x ** y` for a positive base: non-negative, `≤ 1` on `(0,1]`, monotone in the base -/
  pow : PowLaws F
  /-- `x ** y ≥ 0` for `x ≥ 0` -/
  powNN : PowNonneg F
  /-- `x ** 2 = x · x` (the sites where the Python writes `** 2`: adjusted field capacity above a
  water table, SCS runoff, micro-advection polynomial of the canopy cover) -/
  powSq : PowSqLaw F
  /-- `-1 ≤ sin ≤ 1` -/
  sin : SinLaw T

theorem FnOK.exp {F : Fn α} {T : TrigFn α} (h : FnOK F T) : ExpLaws F := by
  refine ⟨fun x hx => ?_⟩
  rcases hx.lt_or_eq with h1 | h1
  · have := h.expOrd.exp_mono 0 x h1
    rw [h.expOrd.exp_zero] at this; exact this.le
  · rw [← h1, h.expOrd.exp_zero]

theorem FnOK.gwExp {F : Fn α} {T : TrigFn α} (h : FnOK F T) : GwExpLaws F := ⟨h.expOrd.exp_pos⟩

/-- what one crop record (a season's crop, or the fallow filler crop after `fallowAdjust`) has to
satisfy: parameter ranges only -/
structure CropOK (F : Fn α) (T : TrigFn α) (c : CropParams α) : Prop where
  -- what `transpiration` reads
  sxTop : 0 ≤ c.cw.tr.sxTop
  sxBot : 0 ≤ c.cw.tr.sxBot
  /-- Python's `round(·, 2)` of a depth of at least `Zmin` is positive (`Zmin ≥ 0.005` and a
  monotone rounding) -/
  rdPos : ∀ z, c.cw.tr.zMin ≤ z → 0 < F.pyRound2 z
  /-- `LagAer` is integral as far as the submergence counter needs it -/
  lagAer : ∀ n : Nat, (natNum n : α) < c.cw.tr.lagAer → natNum n + 1 ≤ c.cw.tr.lagAer
  -- canopy
  ccx0 : 0 ≤ c.cx.cc.ccx
  temp : c.cx.tbase ≤ c.cx.tupp
  /-- `CcParams` (`0 ≤ CC0`, `0 ≤ CDC`, `CC0·exp(CGC·dt) ≤ CCx`) for the time steps that occur -/
  ccStep : ∀ dt, (c.cx.cc.calendarType = 1 → dt = 1) →
    (c.cx.cc.calendarType = 2 → 0 ≤ dt ∧ dt ≤ c.cx.tupp - c.cx.tbase) → CcParams F c.cx.cc dt
  -- roots
  rdWF : c.cx.rd.WF
  zminPos : 0 < c.cx.rd.zmin
  rdSxTop : 0 ≤ c.cx.rd.sxTop
  rdSxBot : 0 ≤ c.cx.rd.sxBot
  pUp1 : c.cx.rd.pUp1 < 1
  fw1 : c.cx.rd.fshapeW1 ≠ 0
  skip : SkipOK F c.cx.rd.zmin
  -- harvest index
  post : c.cx.hi.PostOK
  build : c.cx.hi.BuildUp
  fsh : ∀ i : Fin 4, i.val < 3 → c.cx.hik.fshapeW i ≠ 0
  cap : 0 ≤ 1 + c.cx.hi.dHI0 / 100
  leafy : c.cx.hi.cropType = 1 → 0 ≤ c.cx.hi.dHI0
  /-- the two copies of `HIstartCD` agree -/
  hiStart : c.cx.bio.hiStartCD = c.cx.hi.hiStartCD
  -- biomass
  wpy0 : 0 ≤ c.cx.bio.wpy
  wpy1 : c.cx.bio.wpy ≤ 100
  wp : 0 ≤ c.cx.bio.wp * c.cx.bio.fco2

/-- `ResetCropOK` is a consequence -/
theorem CropOK.reset {F : Fn α} {T : TrigFn α} {c : CropParams α} (h : CropOK F T c) :
    ResetCropOK c := by
  have hb := h.build
  have hcc : 0 ≤ c.cx.cc.cc0 := by
    by_cases h1 : c.cx.cc.calendarType = 1
    · exact (h.ccStep 1 (fun _ => rfl) (fun h2 => by rw [h1] at h2; cases h2)).cc0_nonneg
    · exact (h.ccStep 0 (fun h' => absurd h' h1)
        (fun _ => ⟨le_refl _, sub_nonneg.mpr h.temp⟩)).cc0_nonneg
  exact ⟨hcc, h.ccx0, (lt_trans hb.ini_pos hb.ini_lt).le, by have := hb.ini_pos; linarith⟩

/-- **premises on the configuration only** -/
structure CfgOK (F : Fn α) (T : TrigFn α) (cfg : RunCfg α) : Prop where
  fn : FnOK F T
  /-- with a water table: `|round(x,4) − x| ≤ 1/20000`, `round(x,4) > 0 → x > 0` -/
  gw : cfg.W0.waterTable = 1 → GwRoundLaws F ∧ GwRoundSign F
  -- the initial profile
  /-- every compartment well-formed, `th_dry ≤ th ≤ th_s`, `th_fc ≤ th_fc_Adj ≤ th_s`,
  `0 ≤ dzsum`, `th_fc < th_s` -/
  cells0 : ∀ x ∈ cfg.init.cells, DrainPre x
  /-- `dzsum` is the running sum of the thicknesses -/
  geom : TrGeom 0 cfg.init.cells
  aer0 : ∀ x ∈ cfg.init.cells, 0 ≤ x.aer
  /-- `0 ≤ Penetrability ≤ 100` -/
  pen : ∀ x ∈ cfg.init.cells, 0 ≤ x.c.pen ∧ x.c.pen ≤ 100
  /-- in net-irrigation mode the compartments of one layer share wilting point and field capacity
  and the layers are numbered from 1, non-decreasing -/
  layers : cfg.irr.irr.method = 4 ∨ cfg.fallowIrr.irr.method = 4 →
    ∃ wp fc : Nat → α, TrLayersOK wp fc 0 cfg.init.cells
  pond0 : 0 ≤ cfg.init.pond
  thini : ThiniOK (cfg.init.cells.map (·.c)) cfg.thini
  -- irrigation and field management
  smt : cfg.irr.irr.method = 4 → 0 ≤ cfg.irr.netIrrSMT ∧ cfg.irr.netIrrSMT ≤ 100
  smtF : cfg.fallowIrr.irr.method = 4 →
    0 ≤ cfg.fallowIrr.netIrrSMT ∧ cfg.fallowIrr.netIrrSMT ≤ 100
  bundWater : 0 ≤ cfg.bundWater
  -- crops: the crop of every season and (negative season counter) the adjusted fallow crop
  crop : ∀ season : Int, CropOK F T (cropOf cfg season)
  -- the initial state
  season0 : -1 ≤ cfg.clock.season0
  init : CropInv F (paramsOf cfg cfg.clock.season0 false) cfg.init
  rCor0 : 0 ≤ cfg.init.rCor

/-- **premises on the weather table only**: positive reference evapotranspiration on every day,
and — for the crop records of the configuration — ordered water-stress thresholds after the `ET0`
adjustment of that day (`water_stress` as called by `harvest_index`) -/
structure WeatherOK (F : Fn α) (cfg : RunCfg α) : Prop where
  et0 : ∀ t, 0 < (cfg.weather t).et0
  hiOrd : ∀ t (season : Int) tes i,
    wsUp F (cropOf cfg season).cx.hik.pUp (cropOf cfg season).cx.hik.etAdj
        (cropOf cfg season).cx.hik.beta tes (cfg.weather t).et0 true i ≤
      wsLo F (cropOf cfg season).cx.hik.pLo (cropOf cfg season).cx.hik.etAdj
        (cfg.weather t).et0 i

/-- the water residual of a day: with a water table, capillary rise did not lift a compartment
above saturation -/
def ResidualW (d : DayRec α) : Prop :=
  d.P.W.waterTable = 1 → ∀ y ∈ d.r.water.crCells, y.th ≤ y.c.thS

/-- **what genuinely cannot be discharged** for a simulated day (see the file header) -/
structure Residual (d : DayRec α) : Prop where
  cr : ResidualW d
  rw : Rewatering d.P d.st d.D d.r.trace → d.r.state.ccxAct ≤ d.P.cx.cc.ccx
  trPot : d.D.gs = true → 0 ≤ d.r.flux.trPot ∧ d.r.flux.trPot ≤ d.r.water.trPotNS

/-- without a water table the water residual is trivially true -/
theorem residualW_of_no_table {d : DayRec α} (h : d.P.W.waterTable ≠ 1) : ResidualW d :=
  fun h1 => absurd h1 h

/-- the rewatering residual is vacuous on a day that is not a rewatering day -/
theorem residual_rw_of_not_rewatering {d : DayRec α} (h : ¬ Rewatering d.P d.st d.D d.r.trace) :
    Rewatering d.P d.st d.D d.r.trace → d.r.state.ccxAct ≤ d.P.cx.cc.ccx :=
  fun h1 => absurd h1 h

section cfg
variable {F : Fn α} {T : TrigFn α} {cfg : RunCfg α}

theorem CfgOK.runPre (h : CfgOK F T cfg) : RunPre F cfg :=
  ⟨h.fn.exp, h.fn.powSq, h.cells0, h.pond0, h.smt, h.smtF, h.thini, h.bundWater⟩

theorem paramsOf_crop (cfg : RunCfg α) (season : Int) (gs : Bool) :
    (paramsOf cfg season gs).W.crop = (cropOf cfg season).cw ∧
      (paramsOf cfg season gs).cx = (cropOf cfg season).cx := ⟨rfl, rfl⟩

theorem paramsOf_waterTable (cfg : RunCfg α) (season : Int) (gs : Bool) :
    (paramsOf cfg season gs).W.waterTable = cfg.W0.waterTable := rfl

theorem paramsOf_method (cfg : RunCfg α) (season : Int) (gs : Bool) :
    (paramsOf cfg season gs).W.irr.method = 4 →
      cfg.irr.irr.method = 4 ∨ cfg.fallowIrr.irr.method = 4 := by
  unfold paramsOf
  by_cases h0 : 0 ≤ season
  · simp only [h0, if_true]; exact Or.inl
  · simp only [h0, if_false]; exact Or.inr

end cfg

/-! ## 2. the invariants of a run state, and the day simulated from it -/

/-- the water-side invariant: `WaterInv` of `Proofs/Run.lean`, non-negative aeration-day counters
and root-correction factor, the root envelope (the latter feeds `r_cor ≥ 0`) -/
structure RunInvW (F : Fn α) (cfg : RunCfg α) (s : RunState α) : Prop where
  water : WaterInv cfg s
  aer : ∀ x ∈ s.day.cells, 0 ≤ x.aer
  rCor : 0 ≤ s.day.rCor
  root : RootInv F (paramsOf cfg s.season false) s.day
  season : -1 ≤ s.season

/-- **the combined invariant of a run state**: water side and crop envelope -/
structure RunInvAll (F : Fn α) (cfg : RunCfg α) (s : RunState α) : Prop where
  w : RunInvW F cfg s
  crop : CropInv F (paramsOf cfg s.season false) s.day

/-- `d` is the day `_perform_timestep` simulates from the run state `s` -/
structure DayOf (F : Fn α) (T : TrigFn α) (cfg : RunCfg α) (s : RunState α) (d : DayRec α) :
    Prop where
  st : d.st = s.day
  P : d.P = paramsOf cfg s.season d.D.gs
  et0 : d.D.et0 = (cfg.weather s.t).et0
  day : fullDay F T d.P d.st d.D = .ok d.r

theorem rootInv_of_cx_eq {F : Fn α} {P P' : DayParams α} {st : DayState' α} (h : P.cx = P'.cx)
    (hi : RootInv F P st) : RootInv F P' st := by
  obtain ⟨W, fm, z, cx⟩ := P
  obtain ⟨W', fm', z', cx'⟩ := P'
  simp only at h
  subst h
  exact ⟨hi.tr0, hi.tr1, hi.season⟩

section step
variable {F : Fn α} {T : TrigFn α} {cfg : RunCfg α} {s s' : RunState α}

/-- one `_perform_timestep`: the day it records and the state it leaves -/
theorem performR_step (h : performR F T cfg s = .ok s') :
    ∃ d, s'.daysRev = d :: s.daysRev ∧ DayOf F T cfg s d ∧
      ((s'.season = s.season ∧ s'.day = d.r.state) ∨
       (s'.season = s.season + 1 ∧
          s'.day = resetState cfg (cfg.seasonCrop s'.season.toNat) d.r.state)) := by
  obtain ⟨ph, r, s1, _, _, hr, hs1, hu⟩ := performR_ok h
  obtain ⟨c', _, _, hdays, _, hcase⟩ := updateTimeR_ok hu
  refine ⟨{ P := paramsOf cfg s.season (dayInOf cfg s ph).gs, st := s.day, D := dayInOf cfg s ph,
            r := r }, ?_, ⟨rfl, rfl, rfl, hr⟩, ?_⟩
  · rw [hdays, hs1]; rfl
  · have hs1day : (checkFinishedR cfg s1).day = r.state := by rw [hs1]; rfl
    have hs1se : (checkFinishedR cfg s1).season = s.season := by rw [hs1]; rfl
    rcases hcase with ⟨e1, e2⟩ | ⟨e1, e2⟩
    · left; exact ⟨by rw [e1, hs1se], by rw [e2, hs1day]⟩
    · right; exact ⟨by rw [e1, hs1se], by rw [e2, hs1day]⟩

end step

/-! ## 3. the fields of `DayOK`, one by one -/

section dayOK
variable {F : Fn α} {T : TrigFn α} {cfg : RunCfg α} {s : RunState α} {d : DayRec α}

theorem dayOf_dz (hI : RunInvW F cfg s) (hd : DayOf F T cfg s d) : ∀ x ∈ d.st.cells, 0 < x.c.dz := by
  rw [hd.st]; exact fun x hx => (hI.water.pre x hx).inv.wf.dz_pos

/-- `geom`: the compartments never change (`WaterInv.comps`) -/
theorem dayOK_geom (hC : CfgOK F T cfg) (hI : RunInvW F cfg s) (hd : DayOf F T cfg s d) :
    TrGeom 0 d.st.cells := by
  rw [hd.st]; exact trGeom_of_map_c _ _ 0 hI.water.comps hC.geom

/-- `aer`: the invariant `aer_days_comp ≥ 0` -/
theorem dayOK_aer (hI : RunInvW F cfg s) (hd : DayOf F T cfg s d) : ∀ x ∈ d.st.cells, 0 ≤ x.aer := by
  rw [hd.st]; exact hI.aer

theorem dayOK_sxTop (hC : CfgOK F T cfg) (hd : DayOf F T cfg s d) : 0 ≤ d.P.W.crop.tr.sxTop := by
  rw [hd.P]; exact (hC.crop s.season).sxTop

theorem dayOK_sxBot (hC : CfgOK F T cfg) (hd : DayOf F T cfg s d) : 0 ≤ d.P.W.crop.tr.sxBot := by
  rw [hd.P]; exact (hC.crop s.season).sxBot

/-- `rd`: `max(z_root, Zmin) ≥ Zmin`, whatever the computed rooting depth -/
theorem dayOK_rd (hC : CfgOK F T cfg) (hd : DayOf F T cfg s d) :
    0 < F.pyRound2 (pmax d.r.crop.zRoot d.P.W.crop.tr.zMin) := by
  rw [pmax_eq, hd.P]
  exact (hC.crop s.season).rdPos _ (le_max_right _ _)

theorem dayOK_layers (hC : CfgOK F T cfg) (wp fc : Nat → α)
    (hL : cfg.irr.irr.method = 4 ∨ cfg.fallowIrr.irr.method = 4 →
      TrLayersOK wp fc 0 cfg.init.cells)
    (hI : RunInvW F cfg s) (hd : DayOf F T cfg s d) :
    d.P.W.irr.method = 4 → TrLayersOK wp fc 0 d.st.cells := by
  intro hm
  rw [hd.P] at hm
  rw [hd.st]
  exact trLayersOK_of_map_c wp fc _ _ 0 hI.water.comps (hL (paramsOf_method cfg _ _ hm))

/-- the premises of the root envelope on the day's parameter record and profile -/
theorem dayOf_rootPre (hC : CfgOK F T cfg) (hI : RunInvW F cfg s) (hd : DayOf F T cfg s d) :
    RootPre F d.P d.st.cells := by
  have hc := hC.crop s.season
  have hcells : ∀ x ∈ d.st.cells, 0 < x.c.dz ∧ 0 ≤ x.c.pen ∧ x.c.pen ≤ 100 ∧ x.c.thWP < x.c.thFC := by
    rw [hd.st]
    exact forall_of_map_eq (·.c) hI.water.comps
      (fun c => 0 < c.dz ∧ 0 ≤ c.pen ∧ c.pen ≤ 100 ∧ c.thWP < c.thFC)
      (fun x hx => ⟨(hC.cells0 x hx).inv.wf.dz_pos, (hC.pen x hx).1, (hC.pen x hx).2,
        (hC.cells0 x hx).inv.wf.wp_fc⟩)
  rw [hd.P]
  exact ⟨hC.fn.pow, hC.fn.expOrd, hc.rdWF, hc.temp, hc.pUp1, hc.fw1, hc.skip,
    hcells⟩

theorem dayOf_rootInv (hI : RunInvW F cfg s) (hd : DayOf F T cfg s d) : RootInv F d.P d.st := by
  rw [hd.st]
  exact rootInv_of_cx_eq (by rw [hd.P]; rfl) hI.root

/-- `rCor`: the invariant `r_cor ≥ 0` and `fullDay_rCor_nonneg` -/
theorem dayOK_rCor (hC : CfgOK F T cfg) (hI : RunInvW F cfg s) (hd : DayOf F T cfg s d) :
    0 ≤ d.r.crop.rCor ∧ d.r.state.rCor = d.r.crop.rCor := by
  have hc := hC.crop s.season
  have h0 : 0 ≤ d.st.rCor := by rw [hd.st]; exact hI.rCor
  apply fullDay_rCor_nonneg hd.day (dayOf_rootPre hC hI hd) (dayOf_rootInv hI hd) h0
  · rw [hd.P]; exact hc.zminPos
  · rw [hd.P]; exact hc.rdSxTop
  · rw [hd.P]; exact hc.rdSxBot

/-- **`DayOK.tr`**, every field discharged -/
theorem dayOK_tr (hC : CfgOK F T cfg) (wp fc : Nat → α)
    (hL : cfg.irr.irr.method = 4 ∨ cfg.fallowIrr.irr.method = 4 →
      TrLayersOK wp fc 0 cfg.init.cells)
    (hI : RunInvW F cfg s) (hd : DayOf F T cfg s d) :
    DayTrPre F d.P.W d.r.crop d.st.cells wp fc :=
  { geom := dayOK_geom hC hI hd, aer := dayOK_aer hI hd, sxTop := dayOK_sxTop hC hd,
    sxBot := dayOK_sxBot hC hd, rCor := (dayOK_rCor hC hI hd).1, rd := dayOK_rd hC hd,
    layers := dayOK_layers hC wp fc hL hI hd }

/-- **`DayOK`** for the day simulated from a state satisfying `RunInvW`, from `CfgOK` and the
water residual of that day -/
theorem dayOK_of_inv (hC : CfgOK F T cfg) (wp fc : Nat → α)
    (hL : cfg.irr.irr.method = 4 ∨ cfg.fallowIrr.irr.method = 4 →
      TrLayersOK wp fc 0 cfg.init.cells)
    (hI : RunInvW F cfg s) (hd : DayOf F T cfg s d) (hR : ResidualW d) : DayOK F wp fc d :=
  { tr := dayOK_tr hC wp fc hL hI hd
    gw := fun hwt => by
      have hwt' : cfg.W0.waterTable = 1 := by rw [hd.P] at hwt; exact hwt
      exact ⟨⟨hC.fn.gwExp, (hC.gw hwt').1, (hC.gw hwt').2⟩, hR hwt⟩ }

end dayOK

/-! ## 4. the water-side invariant along a run -/

theorem setTh_aer : ∀ (cells : List (Cell α)) (vs : List α),
    (setTh cells vs).map (·.aer) = cells.map (·.aer)
  | [], _ => by simp [setTh]
  | x :: xs, [] => by simp [setTh]
  | x :: xs, v :: vs => by simp [setTh, setTh_aer xs vs]

theorem resetState_aer (cfg : RunCfg α) (crop : CropParams α) (st : DayState' α) :
    ∀ y ∈ (resetState cfg crop st).cells, 0 ≤ y.aer := by
  have h0 : ∀ y ∈ st.cells.map (fun x => { x with aer := 0 }), 0 ≤ y.aer := by
    intro y hy
    obtain ⟨x, _, rfl⟩ := List.mem_map.mp hy
    exact le_refl _
  unfold resetState resetStateCore
  simp only
  cases cfg.clock.offSeason with
  | true => simpa only [if_true] using h0
  | false =>
    simp only [Bool.false_eq_true, if_false]
    exact forall_of_map_eq (·.aer) (setTh_aer _ _) (fun a => 0 ≤ a) h0

theorem resetState_rootInv {F : Fn α} (cfg : RunCfg α) (crop : CropParams α) (st : DayState' α)
    (P : DayParams α) : RootInv F P (resetState cfg crop st) := by
  refine ⟨?_, ?_, ?_⟩
  all_goals simp only [resetState, resetStateCore]
  · exact zero_le_one
  · exact le_refl _
  · intro h; exact absurd rfl h

section runW
variable {F : Fn α} {T : TrigFn α} {cfg : RunCfg α} {s s' : RunState α}

/-- one `_perform_timestep` preserves `RunInvW`, and the day it simulates satisfies `DayOK` -/
theorem performR_invW (hC : CfgOK F T cfg) (wp fc : Nat → α)
    (hL : cfg.irr.irr.method = 4 ∨ cfg.fallowIrr.irr.method = 4 →
      TrLayersOK wp fc 0 cfg.init.cells)
    (hI : RunInvW F cfg s) (h : performR F T cfg s = .ok s')
    (hR : ∀ d, s'.daysRev = d :: s.daysRev → ResidualW d) :
    RunInvW F cfg s' ∧ ∃ d, s'.daysRev = d :: s.daysRev ∧ DayOf F T cfg s d ∧ DayOK F wp fc d := by
  obtain ⟨d, hdl, hd, hcase⟩ := performR_step h
  have ok : DayOK F wp fc d := dayOK_of_inv hC wp fc hL hI hd (hR d hdl)
  obtain ⟨hW', _⟩ := performR_waterInv hC.runPre wp fc hI.water h (fun d' hd' => by
    rw [hdl] at hd'
    rw [← (List.cons.inj hd').1]; exact ok)
  have hdz := dayOf_dz hI hd
  have haer := fullDay_aer_nonneg hd.day hdz (dayOK_aer hI hd)
  obtain ⟨hrc, erc⟩ := dayOK_rCor hC hI hd
  have hroot : RootInv F d.P d.r.state :=
    fullDay_rootInv hd.day (dayOf_rootPre hC hI hd) (dayOf_rootInv hI hd)
  refine ⟨?_, d, hdl, hd, ok⟩
  rcases hcase with ⟨e1, e2⟩ | ⟨e1, e2⟩
  · refine ⟨hW', by rw [e2]; exact haer, by rw [e2, erc]; exact hrc, ?_, by rw [e1]; exact hI.season⟩
    rw [e2, e1]
    exact rootInv_of_cx_eq (by rw [hd.P]; rfl) hroot
  · refine ⟨hW', by rw [e2]; exact resetState_aer _ _ _, ?_, ?_,
      by rw [e1]; have := hI.season; omega⟩
    · rw [e2]
      simp only [resetState, resetStateCore]
      exact zero_le_one
    · rw [e2]; exact resetState_rootInv cfg _ _ _

/-- **`RunInvW` holds in every reachable state, and every simulated day satisfies `DayOK`** —
from `CfgOK` and the water residual (`ResidualW`) of the simulated days only -/
theorem run_invW (hC : CfgOK F T cfg) (wp fc : Nat → α)
    (hL : cfg.irr.irr.method = 4 ∨ cfg.fallowIrr.irr.method = 4 →
      TrLayersOK wp fc 0 cfg.init.cells)
    (hr : RunReach F T cfg s) (hR : ∀ d ∈ s.daysRev, ResidualW d) :
    RunInvW F cfg s ∧ ∀ d ∈ s.daysRev, DayOK F wp fc d := by
  induction hr with
  | init h0 =>
    unfold runInit at h0
    split at h0
    · cases h0
    · rename_i c hc
      cases h0
      unfold Clock.init at hc
      split_ifs at hc
      cases hc
      exact ⟨⟨⟨rfl, hC.cells0, hC.pond0⟩, hC.aer0, hC.rCor0, hC.init.root, hC.season0⟩,
        fun d hd => by cases hd⟩
  | @step s s' hr hp ih =>
    obtain ⟨d0, hd0, _⟩ := performR_step hp
    obtain ⟨hI, hdays⟩ := ih (fun d hd => hR d (by rw [hd0]; exact List.mem_cons_of_mem _ hd))
    obtain ⟨hI', d, hdl, _, ok⟩ := performR_invW hC wp fc hL hI hp
      (fun d hd => hR d (by rw [hd]; exact List.mem_cons_self))
    refine ⟨hI', fun d' hd' => ?_⟩
    rw [hdl] at hd'
    rcases List.mem_cons.mp hd' with rfl | hd'
    · exact ok
    · exact hdays d' hd'

/-- the layer functions `CfgOK.layers` provides (arbitrary when no net irrigation is configured) -/
theorem CfgOK.layerFns (hC : CfgOK F T cfg) :
    ∃ wp fc : Nat → α, cfg.irr.irr.method = 4 ∨ cfg.fallowIrr.irr.method = 4 →
      TrLayersOK wp fc 0 cfg.init.cells := by
  by_cases h : cfg.irr.irr.method = 4 ∨ cfg.fallowIrr.irr.method = 4
  · obtain ⟨wp, fc, hl⟩ := hC.layers h
    exact ⟨wp, fc, fun _ => hl⟩
  · exact ⟨fun _ => 0, fun _ => 0, fun h' => absurd h' h⟩

/-- **`run_inv_closed` (C03 along a run)**: the conclusion of `run_inv` from premises on the
configuration only and the capillary-rise residual of the simulated days -/
theorem run_inv_closed (hC : CfgOK F T cfg) (hr : RunReach F T cfg s)
    (hR : ∀ d ∈ s.daysRev, ResidualW d) :
    WaterInv cfg s ∧ ∀ d ∈ s.daysRev, DayPre F d.P.W d.st.cells d.st.water ∧
      (∀ y ∈ d.r.state.cells, y.Inv) ∧ 0 ≤ d.r.state.pond := by
  obtain ⟨wp, fc, hL⟩ := hC.layerFns
  exact run_inv hC.runPre wp fc hr (run_invW hC wp fc hL hr hR).2

/-- **`run_closes_closed` (C01 along a run)**: the daily soil-water balance closes on every
simulated day of every run -/
theorem run_closes_closed (hC : CfgOK F T cfg) (hr : RunReach F T cfg s)
    (hR : ∀ d ∈ s.daysRev, ResidualW d) :
    ∀ d ∈ s.daysRev,
      storage d.r.state.cells + d.r.state.pond =
        storage d.st.cells + d.st.pond + d.r.flux.infl + d.r.water.preIrr + d.r.water.irrNet
          + d.r.water.crAdded + d.r.flux.gwIn - d.r.flux.deepPerc - d.r.flux.es - d.r.flux.tr := by
  obtain ⟨wp, fc, hL⟩ := hC.layerFns
  exact run_closes hC.runPre wp fc hr (run_invW hC wp fc hL hr hR).2

/-- **`run_pond_bounds_closed`**: the bund-height part of C03 on every simulated day -/
theorem run_pond_bounds_closed (hC : CfgOK F T cfg) (hr : RunReach F T cfg s)
    (hR : ∀ d ∈ s.daysRev, ResidualW d) :
    ∀ d ∈ s.daysRev, (d.P.fm.bunds = false ∨ d.P.fm.zBund ≤ 0.001 → d.r.state.pond = 0) ∧
      (d.P.fm.bunds = true → d.st.pond ≤ d.P.fm.zBund → 0 ≤ d.r.flux.esPot →
        0 ≤ d.r.flux.trPot → LagAerIntegral d.P.W → d.r.state.pond ≤ d.P.fm.zBund) := by
  obtain ⟨wp, fc, hL⟩ := hC.layerFns
  exact run_pond_bounds hC.runPre wp fc hr (run_invW hC wp fc hL hr hR).2

/-- without a water table no residual at all is left on the water side -/
theorem run_inv_closed_no_table (hC : CfgOK F T cfg) (hwt : cfg.W0.waterTable ≠ 1)
    (hr : RunReach F T cfg s) :
    WaterInv cfg s ∧ (∀ x ∈ s.day.cells, 0 ≤ x.aer) ∧ 0 ≤ s.day.rCor := by
  obtain ⟨wp, fc, hL⟩ := hC.layerFns
  have key : ∀ {s : RunState α}, RunReach F T cfg s → ∀ d ∈ s.daysRev, ResidualW d := by
    intro s hr
    induction hr with
    | init h0 =>
      unfold runInit at h0
      split at h0
      · cases h0
      · cases h0; intro d hd; cases hd
    | @step s s' hr hp ih =>
      obtain ⟨d, hdl, hd, _⟩ := performR_step hp
      intro d' hd'
      rw [hdl] at hd'
      rcases List.mem_cons.mp hd' with rfl | hd'
      · exact residualW_of_no_table (by rw [hd.P]; exact hwt)
      · exact ih d' hd'
  obtain ⟨hI, _⟩ := run_invW hC wp fc hL hr (key hr)
  exact ⟨hI.water, hI.aer, hI.rCor⟩

end runW

/-! ## 5. the fields of `DayCropOK`, one by one -/

section dayCropOK
variable {F : Fn α} {T : TrigFn α} {cfg : RunCfg α} {s : RunState α} {d : DayRec α}

theorem dayCropOK_cc (hC : CfgOK F T cfg) (hd : DayOf F T cfg s d) : CcCropPre F d.P := by
  have hc := hC.crop s.season
  rw [hd.P]
  exact ⟨hC.fn.expOrd, hc.ccx0, hc.temp, hc.ccStep⟩

theorem dayCropOK_root (hC : CfgOK F T cfg) (hI : RunInvW F cfg s) (hd : DayOf F T cfg s d) :
    RootPre F d.P d.st.cells := dayOf_rootPre hC hI hd

theorem dayCropOK_hi (hC : CfgOK F T cfg) (hW : WeatherOK F cfg) (hd : DayOf F T cfg s d) :
    HiPre F T d.P d.D := by
  have hc := hC.crop s.season
  have ho := hW.hiOrd s.t s.season
  rw [hd.P]
  exact ⟨hC.fn.expOrd, hC.fn.sin, hC.fn.powNN, hc.post, hc.build, hc.temp,
    fun tes i => by rw [hd.et0]; exact ho tes i, hc.fsh, hc.cap, hc.leafy⟩

theorem dayCropOK_wpy0 (hC : CfgOK F T cfg) (hd : DayOf F T cfg s d) : 0 ≤ d.P.cx.bio.wpy := by
  rw [hd.P]; exact (hC.crop s.season).wpy0

theorem dayCropOK_wpy1 (hC : CfgOK F T cfg) (hd : DayOf F T cfg s d) : d.P.cx.bio.wpy ≤ 100 := by
  rw [hd.P]; exact (hC.crop s.season).wpy1

theorem dayCropOK_wp (hC : CfgOK F T cfg) (hd : DayOf F T cfg s d) :
    0 ≤ d.P.cx.bio.wp * d.P.cx.bio.fco2 := by
  rw [hd.P]; exact (hC.crop s.season).wp

/-- `sw`: a positive reference harvest index means yield formation has started -/
theorem dayCropOK_sw (hC : CfgOK F T cfg) (hd : DayOf F T cfg s d) :
    d.D.gs = true → 0 < d.r.state.hiRef →
      BioSwitchOK d.P.cx.bio (natNum d.r.growth.dap) d.r.state.delayedCds d.r.state.pctLagPhase := by
  have hc := hC.crop s.season
  apply fullDay_bioSwitch hd.day
  · rw [hd.P]; exact hc.build.type123
  · rw [hd.P]; exact hc.hiStart

/-- `tr` (`0 ≤ Tr ≤ TrPot_NS`) from the residual `0 ≤ TrPot ≤ TrPot_NS`: `0 ≤ Tr ≤ TrPot` is
proved (`fullDay_tr_bounds`, under the `DayTrPre` of the same day and an integral `LagAer`) -/
theorem dayCropOK_tr (hC : CfgOK F T cfg) (wp fc : Nat → α)
    (hL : cfg.irr.irr.method = 4 ∨ cfg.fallowIrr.irr.method = 4 →
      TrLayersOK wp fc 0 cfg.init.cells)
    (hI : RunInvW F cfg s) (hd : DayOf F T cfg s d)
    (hR : d.D.gs = true → 0 ≤ d.r.flux.trPot ∧ d.r.flux.trPot ≤ d.r.water.trPotNS) :
    d.D.gs = true → 0 ≤ d.r.flux.tr ∧ d.r.flux.tr ≤ d.r.water.trPotNS := by
  intro hg
  obtain ⟨p0, p1⟩ := hR hg
  obtain ⟨t1, t2⟩ := fullDay_tr_bounds hd.day (dayOf_dz hI hd) p0
  have hl : LagAerIntegral d.P.W := by
    unfold LagAerIntegral
    rw [hd.P]; exact (hC.crop s.season).lagAer
  exact ⟨t2 wp fc (dayOK_tr hC wp fc hL hI hd) hl, le_trans t1 p1⟩

theorem dayCropOK_et (hW : WeatherOK F cfg) (hd : DayOf F T cfg s d) :
    d.D.gs = true → 0 < d.D.et0 := by
  intro _; rw [hd.et0]; exact hW.et0 s.t

/-- **`DayCropOK`** for the day simulated from a state satisfying `RunInvW`, from `CfgOK`,
`WeatherOK` and the residual of that day -/
theorem dayCropOK_of_inv (hC : CfgOK F T cfg) (hW : WeatherOK F cfg) (wp fc : Nat → α)
    (hL : cfg.irr.irr.method = 4 ∨ cfg.fallowIrr.irr.method = 4 →
      TrLayersOK wp fc 0 cfg.init.cells)
    (hI : RunInvW F cfg s) (hd : DayOf F T cfg s d) (hR : Residual d) : DayCropOK F T d :=
  { cc := dayCropOK_cc hC hd, root := dayCropOK_root hC hI hd, hi := dayCropOK_hi hC hW hd,
    wpy0 := dayCropOK_wpy0 hC hd, wpy1 := dayCropOK_wpy1 hC hd, wp := dayCropOK_wp hC hd,
    rw := hR.rw, sw := dayCropOK_sw hC hd, tr := dayCropOK_tr hC wp fc hL hI hd hR.trPot,
    et := dayCropOK_et hW hd }

end dayCropOK

/-! ## 6. the combined invariant along a run; the closed crop theorem -/

section runAll
variable {F : Fn α} {T : TrigFn α} {cfg : RunCfg α} {s s' : RunState α}

/-- every simulated day of a reachable state satisfies `DayOK` and `DayCropOK` -/
theorem run_dayCropOK (hC : CfgOK F T cfg) (hW : WeatherOK F cfg) (wp fc : Nat → α)
    (hL : cfg.irr.irr.method = 4 ∨ cfg.fallowIrr.irr.method = 4 →
      TrLayersOK wp fc 0 cfg.init.cells)
    (hr : RunReach F T cfg s) (hR : ∀ d ∈ s.daysRev, Residual d) :
    ∀ d ∈ s.daysRev, DayOK F wp fc d ∧ DayCropOK F T d := by
  induction hr with
  | init h0 =>
    unfold runInit at h0
    split at h0
    · cases h0
    · cases h0; intro d hd; cases hd
  | @step s s' hr hp ih =>
    obtain ⟨d, hdl, hd, _⟩ := performR_step hp
    have hRs : ∀ d ∈ s.daysRev, Residual d :=
      fun d hd => hR d (by rw [hdl]; exact List.mem_cons_of_mem _ hd)
    have ihs := ih hRs
    obtain ⟨hI, _⟩ := run_invW hC wp fc hL hr (fun d hd => (hRs d hd).cr)
    have hRd : Residual d := hR d (by rw [hdl]; exact List.mem_cons_self)
    intro d' hd'
    rw [hdl] at hd'
    rcases List.mem_cons.mp hd' with rfl | hd'
    · exact ⟨dayOK_of_inv hC wp fc hL hI hd hRd.cr, dayCropOK_of_inv hC hW wp fc hL hI hd hRd⟩
    · exact ihs d' hd'

/-- **the combined invariant `RunInvAll` holds in every reachable state of every run**, and every
simulated day started and ended inside the crop envelope — from `CfgOK`, `WeatherOK` and the
residual of the simulated days -/
theorem run_invAll (hC : CfgOK F T cfg) (hW : WeatherOK F cfg) (hr : RunReach F T cfg s)
    (hR : ∀ d ∈ s.daysRev, Residual d) :
    RunInvAll F cfg s ∧ ∀ d ∈ s.daysRev, CropInv F d.P d.st ∧ CropInv F d.P d.r.state := by
  obtain ⟨wp, fc, hL⟩ := hC.layerFns
  have hok := run_dayCropOK hC hW wp fc hL hr hR
  obtain ⟨hI, _⟩ := run_invW hC wp fc hL hr (fun d hd => (hR d hd).cr)
  obtain ⟨_, hc, hdays⟩ := run_cropInv hr hC.season0 hC.init (fun k => by
    have := (hC.crop (k : Int)).reset
    unfold cropOf at this
    rw [if_pos (Int.natCast_nonneg k), Int.toNat_natCast] at this
    exact this) (fun d hd => (hok d hd).2)
  exact ⟨⟨hI, hc⟩, hdays⟩

/-- **`run_cropInv_closed` (C05 along a run)**: the conclusion of `run_cropInv` from `CfgOK`,
`WeatherOK` and the residual of the simulated days -/
theorem run_cropInv_closed (hC : CfgOK F T cfg) (hW : WeatherOK F cfg) (hr : RunReach F T cfg s)
    (hR : ∀ d ∈ s.daysRev, Residual d) :
    -1 ≤ s.season ∧ CropInv F (paramsOf cfg s.season false) s.day ∧
      ∀ d ∈ s.daysRev, CropInv F d.P d.st ∧ CropInv F d.P d.r.state := by
  obtain ⟨hI, hdays⟩ := run_invAll hC hW hr hR
  exact ⟨hI.w.season, hI.crop, hdays⟩

/-- the water theorems with the full residual as hypothesis (same shape as the crop theorem) -/
theorem run_inv_closed' (hC : CfgOK F T cfg) (hr : RunReach F T cfg s)
    (hR : ∀ d ∈ s.daysRev, Residual d) :
    WaterInv cfg s ∧ ∀ d ∈ s.daysRev, DayPre F d.P.W d.st.cells d.st.water ∧
      (∀ y ∈ d.r.state.cells, y.Inv) ∧ 0 ≤ d.r.state.pond :=
  run_inv_closed hC hr (fun d hd => (hR d hd).cr)

end runAll

/-! ## 7. the C05 envelope without `B ≤ B_NS`: only `0 ≤ TrPot` is left of the `trPot` residual

`CropInv` contains `biomass ≤ biomass_ns` (`BioInv.b_le`), which is what needs `Tr ≤ TrPot_NS` —
false inside the envelope (`RunClosedExample.trPot_gt_trPotNS`) and not part of property C05.
`CropEnv` is `CropInv` with `0 ≤ biomass` in place of `BioInv`; it is preserved under the weaker
residual `ResidualE` (`0 ≤ TrPot` instead of `0 ≤ TrPot ≤ TrPot_NS`), and the C05 monotonicity
statements (harvest index and biomass never decrease within a season) come with it. -/

/-- the crop envelope of C05: canopy, roots, harvest index, `0 ≤ biomass` -/
structure CropEnv (F : Fn α) (P : DayParams α) (st : DayState' α) : Prop where
  cc : CcInv P.cx.cc st
  root : RootInv F P st
  hi : HiInv F P st
  b0 : 0 ≤ st.biomass

theorem CropInv.toEnv {F : Fn α} {P : DayParams α} {st : DayState' α} (h : CropInv F P st) :
    CropEnv F P st := ⟨h.cc, h.root, h.hi, h.bio.b0⟩

theorem cropEnv_of_cx_eq {F : Fn α} {P P' : DayParams α} {st : DayState' α} (h : P.cx = P'.cx)
    (hi : CropEnv F P st) : CropEnv F P' st := by
  obtain ⟨W, fm, z, cx⟩ := P
  obtain ⟨W', fm', z', cx'⟩ := P'
  simp only at h
  subst h
  exact ⟨hi.cc, ⟨hi.root.tr0, hi.root.tr1, hi.root.season⟩,
    ⟨hi.hi.fPre, hi.hi.fPost, hi.hi.sCor1, hi.hi.sCor2, hi.hi.upp, hi.hi.dwn, hi.hi.hi_le,
     hi.hi.adj_le, hi.hi.fin0, hi.hi.fut⟩, hi.b0⟩

/-- the residual of a day for `CropEnv`: capillary-rise overshoot, rewatering cap, `0 ≤ TrPot` -/
structure ResidualE (d : DayRec α) : Prop where
  cr : ResidualW d
  rw : Rewatering d.P d.st d.D d.r.trace → d.r.state.ccxAct ≤ d.P.cx.cc.ccx
  trPot0 : d.D.gs = true → 0 ≤ d.r.flux.trPot

theorem Residual.toE {d : DayRec α} (h : Residual d) : ResidualE d :=
  ⟨h.cr, h.rw, fun hg => (h.trPot hg).1⟩

section env
variable {F : Fn α} {T : TrigFn α} {P : DayParams α} {st : DayState' α} {D : DayIn' α}
  {r : DayResult α}

/-- one day preserves `CropEnv`; within a season neither the harvest index nor the biomass
decreases.  Compared with `fullDay_cropInv` only `0 ≤ Tr` is asked of the transpiration. -/
theorem fullDay_cropEnv (h : fullDay F T P st D = .ok r) (hi : CropEnv F P st)
    (hcc : CcCropPre F P) (hrt : RootPre F P st.cells) (hhi : HiPre F T P D)
    (hy0 : 0 ≤ P.cx.bio.wpy) (hy1 : P.cx.bio.wpy ≤ 100) (hw : 0 ≤ P.cx.bio.wp * P.cx.bio.fco2)
    (hrw : Rewatering P st D r.trace → r.state.ccxAct ≤ P.cx.cc.ccx)
    (hsw : D.gs = true → 0 < r.state.hiRef →
      BioSwitchOK P.cx.bio (natNum r.growth.dap) r.state.delayedCds r.state.pctLagPhase)
    (htr : D.gs = true → 0 ≤ r.flux.tr) (het : D.gs = true → 0 < D.et0) :
    CropEnv F P r.state ∧
      (D.gs = true → st.hi ≤ r.state.hi ∧ st.biomass ≤ r.state.biomass) := by
  obtain ⟨hH, _, _, _, _, hmono⟩ := fullDay_hiInv h hhi hi.hi
  obtain ⟨_, hy, _⟩ := fullDay_yields h
  obtain ⟨_, _, _, e4, _⟩ := (fullDay_yields h).2.2
  have hb : 0 ≤ r.state.biomass ∧ (D.gs = true → st.biomass ≤ r.state.biomass) := by
    cases hg : D.gs with
    | false =>
      obtain ⟨_, ⟨_, _, _, _, _, _, b1, _⟩, _⟩ := fullDay_offseason_zero h hg
      exact ⟨by rw [e4, b1], fun hh => by cases hh⟩
    | true =>
      obtain ⟨_, _, e1, _⟩ := hy hg
      have hW := bioWPadj_nonneg P.cx.bio (natNum r.growth.dap) r.state.delayedCds r.state.hiRef
        r.state.pctLagPhase hy0 hy1 hw (hsw hg)
      have q1 : 0 ≤ r.flux.tr / D.et0 := div_nonneg (htr hg) (het hg).le
      have m1 := mul_nonneg hW q1
      exact ⟨by rw [e4, e1]; linarith [hi.b0], fun _ => by rw [e4, e1]; linarith⟩
  exact ⟨⟨fullDay_ccInv h hcc hi.cc hrw, fullDay_rootInv h hrt hi.root, hH, hb.1⟩,
    fun hg => ⟨hmono hg, hb.2 hg⟩⟩

end env

section runEnv
variable {F : Fn α} {T : TrigFn α} {cfg : RunCfg α} {s s' : RunState α}

/-- `0 ≤ Tr ≤ TrPot` on the day simulated from a state satisfying `RunInvW`, given `0 ≤ TrPot` -/
theorem dayOf_tr_bounds {d : DayRec α} (hC : CfgOK F T cfg) (wp fc : Nat → α)
    (hL : cfg.irr.irr.method = 4 ∨ cfg.fallowIrr.irr.method = 4 →
      TrLayersOK wp fc 0 cfg.init.cells)
    (hI : RunInvW F cfg s) (hd : DayOf F T cfg s d) (hp : 0 ≤ d.r.flux.trPot) :
    0 ≤ d.r.flux.tr ∧ d.r.flux.tr ≤ d.r.flux.trPot := by
  obtain ⟨t1, t2⟩ := fullDay_tr_bounds hd.day (dayOf_dz hI hd) hp
  have hl : LagAerIntegral d.P.W := by
    unfold LagAerIntegral
    rw [hd.P]; exact (hC.crop s.season).lagAer
  exact ⟨t2 wp fc (dayOK_tr hC wp fc hL hI hd) hl, t1⟩

/-- one `_perform_timestep` preserves `CropEnv` (`d`, `hd`, `hcase` as `performR_step` gives
them); the day started and ended inside the envelope and was monotone -/
theorem performR_cropEnv {d : DayRec α} (hC : CfgOK F T cfg) (hW : WeatherOK F cfg)
    (wp fc : Nat → α)
    (hL : cfg.irr.irr.method = 4 ∨ cfg.fallowIrr.irr.method = 4 →
      TrLayersOK wp fc 0 cfg.init.cells)
    (hI : RunInvW F cfg s) (hinv : CropEnv F (paramsOf cfg s.season false) s.day)
    (hd : DayOf F T cfg s d)
    (hcase : (s'.season = s.season ∧ s'.day = d.r.state) ∨
      (s'.season = s.season + 1 ∧
        s'.day = resetState cfg (cfg.seasonCrop s'.season.toNat) d.r.state))
    (hRd : ResidualE d) :
    CropEnv F (paramsOf cfg s'.season false) s'.day ∧ CropEnv F d.P d.st ∧
      CropEnv F d.P d.r.state ∧
      (d.D.gs = true → d.st.hi ≤ d.r.state.hi ∧ d.st.biomass ≤ d.r.state.biomass ∧
        0 ≤ d.r.flux.tr ∧ d.r.flux.tr ≤ d.r.flux.trPot) := by
  have hlo := hI.season
  have hin : CropEnv F d.P d.st := by
    rw [hd.st]
    exact cropEnv_of_cx_eq (by rw [hd.P]; rfl) hinv
  have htr : d.D.gs = true → 0 ≤ d.r.flux.tr ∧ d.r.flux.tr ≤ d.r.flux.trPot :=
    fun hg => dayOf_tr_bounds hC wp fc hL hI hd (hRd.trPot0 hg)
  obtain ⟨hout, hmono⟩ := fullDay_cropEnv hd.day hin (dayCropOK_cc hC hd)
    (dayCropOK_root hC hI hd) (dayCropOK_hi hC hW hd) (dayCropOK_wpy0 hC hd)
    (dayCropOK_wpy1 hC hd) (dayCropOK_wp hC hd) hRd.rw (dayCropOK_sw hC hd)
    (fun hg => (htr hg).1) (dayCropOK_et hW hd)
  refine ⟨?_, hin, hout, fun hg => ⟨(hmono hg).1, (hmono hg).2, htr hg⟩⟩
  rcases hcase with ⟨e1, e2⟩ | ⟨e1, e2⟩
  · rw [e2, e1]
    exact cropEnv_of_cx_eq (by rw [hd.P]; rfl) hout
  · rw [e2]
    have hpos : 0 ≤ s'.season := by rw [e1]; omega
    have hreset : ResetCropOK (cfg.seasonCrop s'.season.toNat) := by
      have := (hC.crop s'.season).reset
      unfold cropOf at this
      rw [if_pos hpos] at this
      exact this
    apply CropInv.toEnv
    apply resetState_cropInv cfg _ _ _ _ hreset
    show (cropOf cfg s'.season).cx = _
    unfold cropOf
    rw [if_pos hpos]

/-- **`CropEnv` along a run**: in every reachable state, and at the start and the end of every
simulated day; within a season neither harvest index nor biomass decreases — from `CfgOK`,
`WeatherOK` and `ResidualE` -/
theorem run_cropEnv_closed (hC : CfgOK F T cfg) (hW : WeatherOK F cfg) (hr : RunReach F T cfg s)
    (hR : ∀ d ∈ s.daysRev, ResidualE d) :
    -1 ≤ s.season ∧ CropEnv F (paramsOf cfg s.season false) s.day ∧
      ∀ d ∈ s.daysRev, CropEnv F d.P d.st ∧ CropEnv F d.P d.r.state ∧
        (d.D.gs = true → d.st.hi ≤ d.r.state.hi ∧ d.st.biomass ≤ d.r.state.biomass ∧
          0 ≤ d.r.flux.tr ∧ d.r.flux.tr ≤ d.r.flux.trPot) := by
  obtain ⟨wp, fc, hL⟩ := hC.layerFns
  induction hr with
  | init hi =>
    unfold runInit at hi
    split at hi
    · cases hi
    · rename_i c hc
      cases hi
      unfold Clock.init at hc
      split_ifs at hc
      cases hc
      exact ⟨hC.season0, hC.init.toEnv, fun d hd => by cases hd⟩
  | @step s s' hr hp ih =>
    obtain ⟨d, hdl, hd, hcase⟩ := performR_step hp
    have hRs : ∀ d ∈ s.daysRev, ResidualE d :=
      fun d hd => hR d (by rw [hdl]; exact List.mem_cons_of_mem _ hd)
    obtain ⟨hlo, hinv, hdays⟩ := ih hRs
    obtain ⟨hI, _⟩ := run_invW hC wp fc hL hr (fun d hd => (hRs d hd).cr)
    have hRd : ResidualE d := hR d (by rw [hdl]; exact List.mem_cons_self)
    obtain ⟨h1, h2, h3, h4⟩ := performR_cropEnv hC hW wp fc hL hI hinv hd hcase hRd
    refine ⟨?_, h1, ?_⟩
    · rcases hcase with ⟨e, _⟩ | ⟨e, _⟩ <;> rw [e] <;> omega
    · intro d' hd'
      rw [hdl] at hd'
      rcases List.mem_cons.mp hd' with rfl | hd'
      · exact ⟨h2, h3, h4⟩
      · exact hdays d' hd'

end runEnv

/-! ## 8. C04 along a run: signs of the fluxes, actual ≤ potential -/

section runFlux
variable {F : Fn α} {T : TrigFn α} {cfg : RunCfg α} {s s' : RunState α}

/-- every recorded day uses the parameter record of some season counter value -/
theorem run_days_params (hr : RunReach F T cfg s) :
    ∀ d ∈ s.daysRev, ∃ season : Int, d.P = paramsOf cfg season d.D.gs := by
  induction hr with
  | init h0 =>
    unfold runInit at h0
    split at h0
    · cases h0
    · cases h0; intro d hd; cases hd
  | @step s s' hr hp ih =>
    obtain ⟨d, hdl, hd, _⟩ := performR_step hp
    intro d' hd'
    rw [hdl] at hd'
    rcases List.mem_cons.mp hd' with rfl | hd'
    · exact ⟨s.season, hd.P⟩
    · exact ih d' hd'

/-- **C04 along a run**: on every simulated day of every run deep percolation, capillary rise,
groundwater inflow and irrigation are non-negative; `0 ≤ Es ≤ EsPot` whenever `0 ≤ EsPot`, and
`0 ≤ Tr ≤ TrPot` whenever `0 ≤ TrPot` — from `CfgOK` and the capillary-rise residual only -/
theorem run_flux_signs_closed (hC : CfgOK F T cfg) (hr : RunReach F T cfg s)
    (hR : ∀ d ∈ s.daysRev, ResidualW d) :
    ∀ d ∈ s.daysRev,
      0 ≤ d.r.flux.deepPerc ∧ 0 ≤ d.r.flux.cr ∧ 0 ≤ d.r.flux.gwIn ∧ 0 ≤ d.r.water.irr ∧
      (d.P.W.irr.method ≠ 4 → 0 ≤ d.r.flux.irrDay) ∧
      (0 ≤ d.r.flux.esPot → 0 ≤ d.r.flux.es ∧ d.r.flux.es ≤ d.r.flux.esPot) ∧
      (0 ≤ d.r.flux.trPot → 0 ≤ d.r.flux.tr ∧ d.r.flux.tr ≤ d.r.flux.trPot) := by
  obtain ⟨wp, fc, hL⟩ := hC.layerFns
  obtain ⟨_, hOK⟩ := run_invW hC wp fc hL hr hR
  obtain ⟨_, hdays⟩ := run_inv hC.runPre wp fc hr hOK
  intro d hd
  have hday := run_days hr d hd
  obtain ⟨hpre, _, _⟩ := hdays d hd
  have hdz : ∀ x ∈ d.st.cells, 0 < x.c.dz := fun x hx => (hpre.pre x hx).inv.wf.dz_pos
  obtain ⟨a1, a2, a3, a4, a5⟩ := fullDay_flux_signs hday hpre hC.fn.gwExp
  obtain ⟨season, hP⟩ := run_days_params hr d hd
  refine ⟨a1, a2, a3, a4, a5, fun he => fullDay_es_bounds_of_espot_nonneg hday hdz he, fun hp => ?_⟩
  obtain ⟨t1, t2⟩ := fullDay_tr_bounds hday hdz hp
  have hl : LagAerIntegral d.P.W := by
    unfold LagAerIntegral
    rw [hP]; exact (hC.crop season).lagAer
  exact ⟨t2 wp fc (hOK d hd).tr hl, t1⟩

end runFlux

end Aqua

#print axioms Aqua.run_cropEnv_closed
#print axioms Aqua.run_flux_signs_closed
#print axioms Aqua.run_invW
#print axioms Aqua.run_inv_closed
#print axioms Aqua.run_closes_closed
#print axioms Aqua.run_pond_bounds_closed
#print axioms Aqua.run_inv_closed_no_table
#print axioms Aqua.run_dayCropOK
#print axioms Aqua.run_invAll
#print axioms Aqua.run_cropInv_closed
