import AquaVerif.Proofs.RunClosedRw

/-
Work package L, fourth part: **C04 and the bund part of C03 along a run, closed.**

With `ccx_w ∈ [0, CCx]` (`RunInvT`), `CCx ≤ 1` and the canopy envelope at the start of every day
(`run_crop_closed`) the premise record `DayEsPre` of the potential soil evaporation is a consequence
of premises on the configuration (`CfgEsOK`: `Kex ≥ 0`, `0 ≤ fwcc ≤ 100`, mulch reduction `≤ 1`,
wetted fraction `≥ 0`), so that on every simulated day of every run

  `0 ≤ EsPot`, `0 ≤ Es ≤ EsPot`, `0 ≤ TrPot`, `0 ≤ Tr ≤ TrPot`, deep percolation, capillary rise,
  groundwater inflow, irrigation `≥ 0`, and ponded water never above the bunds

(`run_flux_closed`) — with the capillary-rise overshoot (`ResidualW`) as the only hypothesis about
computed values.  (Runoff `≥ 0` additionally needs `rain ≥ 0` and the range of the adjusted curve
number, not treated here.)
-/

set_option linter.unusedSectionVars false
set_option linter.unusedVariables false
set_option linter.unusedSimpArgs false
namespace Aqua
open Aqua.Clock
variable {α : Type} [Field α] [LinearOrder α] [IsStrictOrderedRing α]

/-- premises on the configuration for `0 ≤ EsPot` -/
structure CfgEsOK (cfg : RunCfg α) : Prop where
  kex : 0 ≤ cfg.W0.soil.kex
  fwcc0 : 0 ≤ cfg.W0.soil.fwcc
  fwcc1 : cfg.W0.soil.fwcc ≤ 100
  mulch : cfg.fm.mulches = true → cfg.fm.fMulch * (cfg.fm.mulchPct / 100) ≤ 1
  mulchF : cfg.fallowFm.mulches = true → cfg.fallowFm.fMulch * (cfg.fallowFm.mulchPct / 100) ≤ 1
  wet : cfg.irr.irr.method ≠ 4 → 0 ≤ cfg.irr.wetSurf
  wetF : cfg.fallowIrr.irr.method ≠ 4 → 0 ≤ cfg.fallowIrr.wetSurf

section day
variable {F : Fn α} {T : TrigFn α} {P : DayParams α} {st : DayState' α} {D : DayIn' α}
  {r : DayResult α}

theorem fullDay_ccAdj_le_one (h : fullDay F T P st D = .ok r) : r.crop.ccAdj ≤ 1 := by
  obtain ⟨X, hs, rfl⟩ := fullDay_ok' h
  exact (ccadj_le_one hs.hcc).1

end day

section run
variable {F : Fn α} {T : TrigFn α} {cfg : RunCfg α} {s s' : RunState α} {A : α}

/-- every recorded day read its `ET0` from the weather table -/
theorem run_days_et0 (hr : RunReach F T cfg s) :
    ∀ d ∈ s.daysRev, ∃ t, d.D.et0 = (cfg.weather t).et0 := by
  induction hr with
  | init h0 =>
    unfold runInit at h0
    split at h0
    · cases h0
    · cases h0; intro d hd; cases hd
  | @step s s' hr hp ih =>
    obtain ⟨d, hdl, hd, _⟩ := performR_step hp
    intro d' hd'
    rw [hdl] at hd'
    rcases List.mem_cons.mp hd' with rfl | hd'
    · exact ⟨s.t, hd.et0⟩
    · exact ih d' hd'

/-- **C04 and the bund part of C03 on every simulated day of every run** -/
theorem run_flux_closed (hC : CfgOK F T cfg) (hT : CfgTrOK F cfg A) (hJ0 : CfgRwOK F cfg)
    (hE : CfgEsOK cfg) (hW : WeatherOK F cfg) (hr : RunReach F T cfg s)
    (hR : ∀ d ∈ s.daysRev, ResidualW d) :
    ∀ d ∈ s.daysRev,
      (0 ≤ d.r.flux.esPot ∧ 0 ≤ d.r.flux.es ∧ d.r.flux.es ≤ d.r.flux.esPot) ∧
      (0 ≤ d.r.flux.trPot ∧ 0 ≤ d.r.flux.tr ∧ d.r.flux.tr ≤ d.r.flux.trPot) ∧
      (0 ≤ d.r.flux.deepPerc ∧ 0 ≤ d.r.flux.cr ∧ 0 ≤ d.r.flux.gwIn ∧ 0 ≤ d.r.water.irr ∧
        (d.P.W.irr.method ≠ 4 → 0 ≤ d.r.flux.irrDay)) ∧
      (0 ≤ d.r.state.pond ∧
        (d.P.fm.bunds = false ∨ d.P.fm.zBund ≤ 0.001 → d.r.state.pond = 0) ∧
        (d.P.fm.bunds = true → d.st.pond ≤ d.P.fm.zBund → d.r.state.pond ≤ d.P.fm.zBund)) := by
  obtain ⟨_, hcrop⟩ := run_crop_closed hC hT hJ0 hW hr hR
  obtain ⟨_, hwater⟩ := run_inv_closed hC hr hR
  have hsign := run_flux_signs_closed hC hr hR
  intro d hd
  have hday := run_days hr d hd
  obtain ⟨hpre, _, _⟩ := hwater d hd
  have hdz : ∀ x ∈ d.st.cells, 0 < x.c.dz := fun x hx => (hpre.pre x hx).inv.wf.dz_pos
  obtain ⟨season, hP⟩ := run_days_params hr d hd
  obtain ⟨t, het⟩ := run_days_et0 hr d hd
  obtain ⟨henv, _, _, p0, _, w0, w1⟩ := hcrop d hd
  obtain ⟨a1, a2, a3, a4, a5, _, a7⟩ := hsign d hd
  have hc := hC.crop season
  have hcc : CcCropPre F d.P := by
    rw [hP]; exact ⟨hC.fn.expOrd, hc.ccx0, hc.temp, hc.ccStep⟩
  have hx1 : d.P.cx.cc.ccx ≤ 1 := by rw [hP]; exact (hT.crop season).ccx1
  -- the premises of the potential evaporation
  have hes : DayEsPre d.P.W d.P.fm d.r.crop d.D.water :=
    { kex_nn := by rw [hP]; exact hE.kex
      et0_nn := by
        show 0 ≤ d.D.et0
        rw [het]; exact (hW.et0 t).le
      ccAdj_le := fun _ _ => fullDay_ccAdj_le_one hday
      ccxW_le := fun hg _ => by
        obtain ⟨_, f2, f3, _⟩ := fullDay_canopy_facts hday hg hcc hC.fn.powNN hC.fn.powSq henv.cc hx1 w0 w1
        have q0 : 0 ≤ d.P.W.soil.fwcc / 100 := by
          rw [hP]; exact div_nonneg hE.fwcc0 (by norm_num)
        have q1 : d.P.W.soil.fwcc / 100 ≤ 1 := by
          rw [hP, div_le_one (by norm_num)]; exact hE.fwcc1
        calc d.r.crop.ccxW * (d.P.W.soil.fwcc / 100) ≤ 1 * 1 :=
              mul_le_mul (le_trans f3 hx1) q1 q0 zero_le_one
          _ = 1 := one_mul 1
      mulch_le := by
        rw [hP]
        unfold paramsOf
        cases d.D.gs with
        | true => simpa using hE.mulch
        | false => simpa using hE.mulchF
      wet_nn := by
        rw [hP]
        unfold paramsOf
        by_cases h0 : 0 ≤ season
        · simp only [h0, if_true]; exact hE.wet
        · simp only [h0, if_false]; exact hE.wetF }
  obtain ⟨e1, e2, e3⟩ := fullDay_es_bounds hday hdz hes
  obtain ⟨b1, b2, b3⟩ := fullDay_pond hday hpre
  have hl : LagAerIntegral d.P.W := by
    unfold LagAerIntegral
    rw [hP]; exact hc.lagAer
  exact ⟨⟨e1, e2, e3⟩, ⟨p0, a7 p0⟩, ⟨a1, a2, a3, a4, a5⟩, b1, b2,
    fun hb hz => b3 hb hz e1 p0 hl⟩

end run

end Aqua

#print axioms Aqua.run_flux_closed
