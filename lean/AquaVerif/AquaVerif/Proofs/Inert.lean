import AquaVerif.Proofs.SoilEvaporation
import AquaVerif.Proofs.Infiltration
import AquaVerif.Proofs.Irrigation
import AquaVerif.Proofs.RainPartition
/-
Relational lemmas for property C20 — parameters of a switched-off feature have no effect, a
feature switched on at its neutral value behaves as off.  Every statement compares two calls of
the same model function; equalities are equalities of the complete results (errors included)
unless a ghost `branch` output necessarily differs, in which case it is projected away
(`EvapOut.noBranch`, `InfOut.noBranch`, `IrrOut.core`).
-/

set_option linter.unusedSectionVars false
namespace Aqua
variable {α : Type} [Field α] [LinearOrder α] [IsStrictOrderedRing α]

/-! ## 1. `soil_evaporation`: mulches, wetted surface -/

/-- the four parameters that enter only the mulch / partial-wetting adjustment replaced -/
@[reducible] def EvapParams.withSurf (P : EvapParams α) (m : Bool) (f p w : α) : EvapParams α :=
  { P with mulches := m, fMulch := f, mulchPct := p, wetSurf := w }

def EvapOut.noBranch (o : EvapOut α) : EvapOut α := { o with branch := 0 }

section evap
variable (F : Fn α) (P : EvapParams α) (m : Bool) (f p w : α)

theorem evapReinit_withSurf (cells : List (Cell α)) (tsc : Nat) (dap : α) (s : EvapSurf α) :
    evapReinit F (P.withSurf m f p w) cells tsc dap s = evapReinit F P cells tsc dap s := rfl

theorem evapRefresh_withSurf (D : EvapDay α) (s : EvapSurf α) :
    evapRefresh (P.withSurf m f p w) D s = evapRefresh P D s := rfl

theorem esPotBase_withSurf (S : EvapState α) (D : EvapDay α) :
    esPotBase F (P.withSurf m f p w) S D = esPotBase F P S D := rfl

theorem pondEvap_withSurf (e pond : α) (s : EvapSurf α) :
    pondEvap (P.withSurf m f p w) e pond s = pondEvap P e pond s := rfl

theorem evapStage1_withSurf (cells : List (Cell α)) (s : EvapSurf α) (e a : α) :
    evapStage1 F (P.withSurf m f p w) cells s e a = evapStage1 F P cells s e a := rfl

theorem wRelOf_withSurf (ws : α) (x : EvapW α) :
    wRelOf (P.withSurf m f p w) ws x = wRelOf P ws x := rfl

theorem wCheckOf_withSurf (z : α) : wCheckOf (P.withSurf m f p w) z = wCheckOf P z := rfl

theorem krOf_withSurf (x : α) : krOf F (P.withSurf m f p w) x = krOf F P x := rfl

theorem expandLoop_withSurf (ws : α) (cells : List (Cell α)) :
    ∀ (fuel : Nat) (z wr wc : α),
      expandLoop (P.withSurf m f p w) ws cells fuel z wr wc = expandLoop P ws cells fuel z wr wc := by
  intro fuel
  induction fuel with
  | zero => intro z wr wc; rfl
  | succ n ih =>
    intro z wr wc
    show (if wr < wc ∧ z < P.zMax then
        (match evapLayerWater cells (z + 0.001) with
          | Except.error e => Except.error e
          | Except.ok x => expandLoop (P.withSurf m f p w) ws cells n (z + 0.001)
              (wRelOf P ws x) (wCheckOf P (z + 0.001)))
        else Except.ok (z, wr)) = _
    simp only [ih]
    rfl

theorem stage2Step_withSurf (ws edt : α) (st : SubSt α) :
    stage2Step F (P.withSurf m f p w) ws edt st = stage2Step F P ws edt st := by
  unfold stage2Step
  simp only [expandLoop_withSurf]
  rfl

theorem stage2Loop_withSurf (ws edt : α) :
    ∀ (n : Nat) (st : SubSt α),
      stage2Loop F (P.withSurf m f p w) ws edt n st = stage2Loop F P ws edt n st := by
  intro n
  induction n with
  | zero => intro st; rfl
  | succ n ih =>
    intro st
    simp only [stage2Loop, stage2Step_withSurf, ih]

theorem evapStage2_withSurf (g : Stg α) :
    evapStage2 F (P.withSurf m f p w) g = evapStage2 F P g := by
  unfold evapStage2
  simp only [stage2Loop_withSurf]

/-- everything `soil_evaporation` does once the potential evaporation `(esPot, b2)` is known -/
def evapTail (F : Fn α) (P : EvapParams α) (S : EvapState α) (cells : List (Cell α))
    (s1 : EvapSurf α) (b01 : Nat) (esPot : α) (b2 : Nat) : Except String (EvapOut α) :=
  let (esAct0, pond, s2, b3) := pondEvap P esPot S.pond s1
  match evapStage1 F P cells s2 esPot esAct0 with
  | .error e => .error e
  | .ok g1 =>
    match evapStage2 F P g1 with
    | .error e => .error e
    | .ok g2 =>
      .ok { cells := g2.cells, epot := esPot, stage2 := g2.surf.stage2,
            wStage2 := g2.surf.wStage2, wSurf := g2.surf.wSurf, pond := pond,
            evapZ := g2.surf.evapZ, esAct := g2.esAct, esPot := esPot,
            negTake := g2.neg,
            branch := b01 + b2 + b3 + g2.branch + (if g2.neg then 8192 else 0) }

theorem soilEvaporation_eq_tail (S : EvapState α) (cells : List (Cell α)) (D : EvapDay α) :
    soilEvaporation F P S cells D =
      match evapReinit F P cells D.tsc S.dap
          { wSurf := S.wSurf, evapZ := S.evapZ, stage2 := S.stage2, wStage2 := S.wStage2 } with
      | .error e => .error e
      | .ok (s0, b0) =>
        match esPotBase F P S D with
        | .error e => .error e
        | .ok (e, b) =>
          evapTail F P S cells (evapRefresh P D s0).1 (b0 + (evapRefresh P D s0).2)
            (esPotAdjust P S D e).1 (b + (esPotAdjust P S D e).2) := by
  unfold soilEvaporation esPotential evapTail
  cases evapReinit F P cells D.tsc S.dap
      { wSurf := S.wSurf, evapZ := S.evapZ, stage2 := S.stage2, wStage2 := S.wStage2 } with
  | error e => rfl
  | ok sb =>
    obtain ⟨s0, b0⟩ := sb
    cases esPotBase F P S D with
    | error e => rfl
    | ok eb => rfl

theorem evapTail_withSurf (S : EvapState α) (cells : List (Cell α)) (s1 : EvapSurf α) (b01 : Nat)
    (e : α) (b2 : Nat) :
    evapTail F (P.withSurf m f p w) S cells s1 b01 e b2 = evapTail F P S cells s1 b01 e b2 := by
  unfold evapTail
  simp only [pondEvap_withSurf, evapStage1_withSurf, evapStage2_withSurf]

/-- the ghost branch mask is the only place the branch id of the potential evaporation enters -/
theorem evapTail_noBranch (S : EvapState α) (cells : List (Cell α)) (s1 : EvapSurf α)
    (b01 b01' : Nat) (e : α) (b2 b2' : Nat) :
    (evapTail F P S cells s1 b01 e b2).map EvapOut.noBranch =
      (evapTail F P S cells s1 b01' e b2').map EvapOut.noBranch := by
  unfold evapTail
  simp only []
  cases evapStage1 F P cells (pondEvap P e S.pond s1).2.2.1 e (pondEvap P e S.pond s1).1 with
  | error x => rfl
  | ok g1 =>
    simp only []
    cases evapStage2 F P g1 with
    | error x => rfl
    | ok g2 => rfl

/-- **master lemma (exact)**: if the mulch / wetting adjustment of the potential evaporation is
the same under the replaced parameters, so is the whole result. -/
theorem soilEvaporation_withSurf_of_adjust (S : EvapState α) (cells : List (Cell α))
    (D : EvapDay α)
    (h : ∀ e, esPotAdjust (P.withSurf m f p w) S D e = esPotAdjust P S D e) :
    soilEvaporation F (P.withSurf m f p w) S cells D = soilEvaporation F P S cells D := by
  rw [soilEvaporation_eq_tail, soilEvaporation_eq_tail]
  simp only [evapReinit_withSurf, esPotBase_withSurf, evapRefresh_withSurf, evapTail_withSurf, h]

/-- **master lemma (up to the ghost branch mask)**: the same when only the *value* of the
adjusted potential evaporation agrees. -/
theorem soilEvaporation_withSurf_of_adjust_value (S : EvapState α) (cells : List (Cell α))
    (D : EvapDay α)
    (h : ∀ e, (esPotAdjust (P.withSurf m f p w) S D e).1 = (esPotAdjust P S D e).1) :
    (soilEvaporation F (P.withSurf m f p w) S cells D).map EvapOut.noBranch =
      (soilEvaporation F P S cells D).map EvapOut.noBranch := by
  rw [soilEvaporation_eq_tail, soilEvaporation_eq_tail]
  simp only [evapReinit_withSurf, esPotBase_withSurf, evapRefresh_withSurf, evapTail_withSurf]
  cases evapReinit F P cells D.tsc S.dap
      { wSurf := S.wSurf, evapZ := S.evapZ, stage2 := S.stage2, wStage2 := S.wStage2 } with
  | error e => rfl
  | ok sb =>
    obtain ⟨s0, b0⟩ := sb
    cases esPotBase F P S D with
    | error e => rfl
    | ok eb =>
      obtain ⟨e, b⟩ := eb
      simp only [h]
      exact evapTail_noBranch F P S cells _ _ _ _ _ _

end evap

/-- without mulches the mulch parameters are not read -/
theorem esPotAdjust_mulch_off (P : EvapParams α) (S : EvapState α) (D : EvapDay α) (f p e : α)
    (hm : P.mulches = false) :
    esPotAdjust (P.withSurf P.mulches f p P.wetSurf) S D e = esPotAdjust P S D e := by
  unfold esPotAdjust
  simp [hm]

/-- mulches with zero cover or zero factor reduce nothing -/
theorem esPotAdjust_mulch_neutral (P : EvapParams α) (S : EvapState α) (D : EvapDay α) (e : α)
    (h0 : P.mulchPct = 0 ∨ P.fMulch = 0) :
    (esPotAdjust (P.withSurf false P.fMulch P.mulchPct P.wetSurf) S D e).1 =
      (esPotAdjust P S D e).1 := by
  unfold esPotAdjust
  have hz : e * (1 - P.fMulch * (P.mulchPct / 100)) = e := by
    rcases h0 with h | h <;> rw [h] <;> ring
  simp only [Bool.and_false, Bool.false_eq_true, if_false]
  split_ifs <;> simp_all

/-- without an irrigation event that wets the surface the wetted fraction is not read -/
theorem esPotAdjust_wetSurf_inert (P : EvapParams α) (S : EvapState α) (D : EvapDay α) (w e : α)
    (h : D.irr ≤ 0 ∨ P.irrMethod = 4) :
    esPotAdjust (P.withSurf P.mulches P.fMulch P.mulchPct w) S D e = esPotAdjust P S D e := by
  unfold esPotAdjust
  have hw : ¬ (0 < D.irr ∧ P.irrMethod ≠ 4) := by
    rintro ⟨h1, h2⟩
    rcases h with h | h
    · exact absurd h1 (not_lt.mpr h)
    · exact h2 h
  simp [hw]

/-! ## 2. `rainfall_partition` and `infiltration`: bunds, curve-number adjustment, efficiency -/

section rain
variable (F : Fn α)

/-- without bunds the bund height is not read by `rainfall_partition` -/
theorem rainPartition_bunds_off (p : α) (cells : List (Cell α)) (daySub : Nat) (srInhb : Bool)
    (zBund zBund' cnAdjPct soilCN : α) (adjCN : Bool) (zCN : α) :
    rainPartition F p cells daySub srInhb false zBund cnAdjPct soilCN adjCN zCN =
      rainPartition F p cells daySub srInhb false zBund' cnAdjPct soilCN adjCN zCN := by
  unfold rainPartition
  simp

/-- bunds lower than 1 mm are no bunds for `rainfall_partition` -/
theorem rainPartition_low_bund (p : α) (cells : List (Cell α)) (daySub : Nat) (srInhb : Bool)
    (zBund cnAdjPct soilCN : α) (adjCN : Bool) (zCN : α) (hz : zBund < 0.001) :
    rainPartition F p cells daySub srInhb true zBund cnAdjPct soilCN adjCN zCN =
      rainPartition F p cells daySub srInhb false zBund cnAdjPct soilCN adjCN zCN := by
  unfold rainPartition
  simp [hz]

/-- the call-site expression of `run_single_timestep.py` line 217:
`FieldMngt.curve_number_adj_pct if FieldMngt.curve_number_adj else 0` -/
def cnAdjArg (flag : Bool) (pct : α) : α := if flag then pct else 0

/-- with the curve-number adjustment switched off the percentage is not read -/
theorem rainPartition_cnadj_off (p : α) (cells : List (Cell α)) (daySub : Nat) (srInhb bunds : Bool)
    (zBund pct pct' soilCN : α) (adjCN : Bool) (zCN : α) :
    rainPartition F p cells daySub srInhb bunds zBund (cnAdjArg false pct) soilCN adjCN zCN =
      rainPartition F p cells daySub srInhb bunds zBund (cnAdjArg false pct') soilCN adjCN zCN := rfl

/-- the function depends on the pair (percentage, curve number) only through the adjusted curve
number `CN·(1 + pct/100)` -/
theorem rainPartition_cnadj_factors (p : α) (cells : List (Cell α)) (daySub : Nat)
    (srInhb bunds : Bool) (zBund pct soilCN : α) (adjCN : Bool) (zCN : α) :
    rainPartition F p cells daySub srInhb bunds zBund pct soilCN adjCN zCN =
      rainPartition F p cells daySub srInhb bunds zBund 0 (soilCN * (1 + pct / 100)) adjCN zCN := by
  unfold rainPartition
  have e : soilCN * (1 + pct / 100) * (1 + (0 : α) / 100) = soilCN * (1 + pct / 100) := by ring
  simp only [e]

/-- with percentage 0 (what the call site passes when the flag is off) the soil's own curve number
is used: without the antecedent-moisture adjustment the split is the SCS split at `Soil.cn` -/
theorem rainPartition_cnadj_zero (p : α) (cells : List (Cell α)) (daySub : Nat) (zBund soilCN zCN : α) :
    rainPartition F p cells daySub false false zBund 0 soilCN false zCN =
      some { runoff := (scsSplit F p soilCN).1, infl := (scsSplit F p soilCN).2, daySub := 0,
             cn := soilCN } := by
  unfold rainPartition
  simp

/-- without bunds the bund height is not read by `infiltration` -/
theorem infiltration_bunds_off (cells : List (Cell α)) (pond infl irr appEff zBund zBund' dp0 ro0 : α)
    (gs : Bool) :
    infiltration F cells pond infl irr appEff false zBund dp0 ro0 gs =
      infiltration F cells pond infl irr appEff false zBund' dp0 ro0 gs := by
  unfold infiltration
  simp only []
  split_ifs
  · simp only [infSurface, Bool.false_eq_true, false_and, if_false, true_or, if_true]
    cases noBunds (cells.head?.map (·.c.ksat)) pond (infIntake infl irr appEff gs) 6 with
    | error e => rfl
    | ok s => simp [infFinish, bundRestore]
  · rfl

/-- without irrigation the application efficiency is not read by `infiltration` -/
theorem infiltration_appEff_inert (cells : List (Cell α)) (pond infl appEff appEff' zBund dp0 ro0 : α)
    (bunds gs : Bool) :
    infiltration F cells pond infl 0 appEff bunds zBund dp0 ro0 gs =
      infiltration F cells pond infl 0 appEff' bunds zBund dp0 ro0 gs := by
  have e : infIntake infl 0 appEff gs = infIntake infl 0 appEff' gs := by
    unfold infIntake; simp
  unfold infiltration
  simp only [e]

end rain

/-! ## 3. `irrigation`: parameters of the other strategies, neutral settings -/

/-- the four returned values (without the ghost branch id) -/
def IrrOut.core (o : IrrOut α) : α × α × α × α := (o.depletion, o.taw, o.irrCum, o.irr)

section irr
variable (F : Fn α) (cells : List (Cell α)) (st : Nat) (irrCum ePot tPot zRoot : α) (dap : Nat)
  (zMin aer zTop : α) (gs : Bool) (rain runoff : α)

theorem irrFinish_congr {P P' : IrrParams α} (hs : P'.maxSeason = P.maxSeason)
    (dep taw c x : α) (br : Nat) : irrFinish P' dep taw c x br = irrFinish P dep taw c x br := by
  unfold irrFinish; rw [hs]

/-- two calls whose strategy computes the same demand and that share method and seasonal maximum
return the same result -/
theorem irrigation_congr {P P' : IrrParams α} (sched sched' : Option α)
    (hm : P'.method = P.method) (hs : P'.maxSeason = P.maxSeason)
    (hd : ∀ stage dep taw, irrDemand P' stage dep taw dap sched' = irrDemand P stage dep taw dap sched) :
    irrigation F P' cells st irrCum ePot tPot zRoot dap sched' zMin aer zTop gs rain runoff =
      irrigation F P cells st irrCum ePot tPot zRoot dap sched zMin aer zTop gs rain runoff := by
  unfold irrigation
  cases gs
  · simp only [Bool.false_eq_true, if_false, irrFinish_congr hs]
  · simp only [if_true]
    cases rootZoneWater F cells zRoot zTop zMin aer with
    | none => rfl
    | some rz =>
      simp only [hd, hm, irrFinish_congr hs]

/-- rainfed / net irrigation: threshold, interval, depth, schedule, efficiency and event maximum
are not read -/
theorem irrigation_params_inert_rainfed_net {P P' : IrrParams α} (sched sched' : Option α)
    (h04 : P.method = 0 ∨ P.method = 4) (hm : P'.method = P.method)
    (hs : P'.maxSeason = P.maxSeason) :
    irrigation F P' cells st irrCum ePot tPot zRoot dap sched' zMin aer zTop gs rain runoff =
      irrigation F P cells st irrCum ePot tPot zRoot dap sched zMin aer zTop gs rain runoff := by
  apply irrigation_congr F cells st irrCum ePot tPot zRoot dap zMin aer zTop gs rain runoff
    sched sched' hm hs
  intro stage dep taw
  unfold irrDemand
  rcases h04 with h | h <;> simp [hm, h]

/-- soil-moisture thresholds (method 1): interval, depth and schedule are not read -/
theorem irrigation_params_inert_smt {P P' : IrrParams α} (sched sched' : Option α)
    (h1 : P.method = 1) (hm : P'.method = P.method) (hs : P'.maxSeason = P.maxSeason)
    (hsmt : P'.smt = P.smt) (he : P'.appEff = P.appEff) (hx : P'.maxIrr = P.maxIrr) :
    irrigation F P' cells st irrCum ePot tPot zRoot dap sched' zMin aer zTop gs rain runoff =
      irrigation F P cells st irrCum ePot tPot zRoot dap sched zMin aer zTop gs rain runoff := by
  apply irrigation_congr F cells st irrCum ePot tPot zRoot dap zMin aer zTop gs rain runoff
    sched sched' hm hs
  intro stage dep taw
  unfold irrDemand irrGross
  simp [hm, h1, hsmt, he, hx]

/-- fixed interval (method 2): thresholds, depth and schedule are not read -/
theorem irrigation_params_inert_interval {P P' : IrrParams α} (sched sched' : Option α)
    (h2 : P.method = 2) (hm : P'.method = P.method) (hs : P'.maxSeason = P.maxSeason)
    (hi : P'.interval = P.interval) (he : P'.appEff = P.appEff) (hx : P'.maxIrr = P.maxIrr) :
    irrigation F P' cells st irrCum ePot tPot zRoot dap sched' zMin aer zTop gs rain runoff =
      irrigation F P cells st irrCum ePot tPot zRoot dap sched zMin aer zTop gs rain runoff := by
  apply irrigation_congr F cells st irrCum ePot tPot zRoot dap zMin aer zTop gs rain runoff
    sched sched' hm hs
  intro stage dep taw
  unfold irrDemand irrGross
  simp [hm, h2, hi, he, hx]

/-- schedule (method 3): thresholds, interval and depth (and, inside `irrigation`, the application
efficiency) are not read -/
theorem irrigation_params_inert_schedule {P P' : IrrParams α} (sched : Option α)
    (h3 : P.method = 3) (hm : P'.method = P.method) (hs : P'.maxSeason = P.maxSeason)
    (hx : P'.maxIrr = P.maxIrr) :
    irrigation F P' cells st irrCum ePot tPot zRoot dap sched zMin aer zTop gs rain runoff =
      irrigation F P cells st irrCum ePot tPot zRoot dap sched zMin aer zTop gs rain runoff := by
  apply irrigation_congr F cells st irrCum ePot tPot zRoot dap zMin aer zTop gs rain runoff
    sched sched hm hs
  intro stage dep taw
  unfold irrDemand
  simp [hm, h3, hx]

/-- constant depth (method 5): thresholds, interval and schedule (and, inside `irrigation`, the
application efficiency) are not read -/
theorem irrigation_params_inert_constant {P P' : IrrParams α} (sched sched' : Option α)
    (h5 : P.method = 5) (hm : P'.method = P.method) (hs : P'.maxSeason = P.maxSeason)
    (hx : P'.maxIrr = P.maxIrr) (hd : P'.depth = P.depth) :
    irrigation F P' cells st irrCum ePot tPot zRoot dap sched' zMin aer zTop gs rain runoff =
      irrigation F P cells st irrCum ePot tPot zRoot dap sched zMin aer zTop gs rain runoff := by
  apply irrigation_congr F cells st irrCum ePot tPot zRoot dap zMin aer zTop gs rain runoff
    sched sched' hm hs
  intro stage dep taw
  unfold irrDemand
  simp [hm, h5, hx, hd]

/-- the rainfed variant of a parameter record -/
@[reducible] def IrrParams.rainfed (P : IrrParams α) : IrrParams α := { P with method := 0 }

theorem pmax0_pmin_nonpos (a b : α) (hb : b ≤ 0) : pmax 0 (pmin a b) = 0 := by
  rw [pmax_eq, pmin_eq]
  exact max_eq_left (le_trans (min_le_right _ _) hb)

theorem pmax0_pmin_left_nonpos (a b : α) (ha : a ≤ 0) : pmax 0 (pmin a b) = 0 := by
  rw [pmax_eq, pmin_eq]
  exact max_eq_left (le_trans (min_le_left _ _) ha)

/-- **neutral settings behave as rainfed**: whenever a call succeeds and the demand its strategy
computes is non-positive, or the seasonal cap is 0 with a non-negative counter, the rainfed call
succeeds too and returns the same depletion, TAW, counter and (zero) depth. -/
theorem irrigation_as_rainfed_of_zero {P : IrrParams α} (sched : Option α) {out : IrrOut α}
    (h : irrigation F P cells st irrCum ePot tPot zRoot dap sched zMin aer zTop gs rain runoff
      = .ok out)
    (hz : gs = true → out.irr = 0) :
    ∃ o0, irrigation F P.rainfed cells st irrCum ePot tPot zRoot dap sched zMin aer zTop gs rain
        runoff = .ok o0 ∧ o0.core = out.core ∧ out.irr = 0 := by
  cases gs with
  | false =>
    obtain ⟨o0, ho0, a1, a2, a3, a4⟩ := irrigation_offseason F P.rainfed cells st irrCum ePot tPot
      zRoot dap sched zMin aer zTop rain runoff
    obtain ⟨b1, b2, b3, b4⟩ := irr_offseason h
    exact ⟨o0, ho0, by simp [IrrOut.core, a1, a2, a3, a4, b1, b2, b3, b4], b1⟩
  | true =>
    have hz := hz rfl
    obtain ⟨rz, irr0, fired, hrz, hdep, htaw, _, hirr, hcum⟩ := irrigation_spec h
    have hp : pmax (0 : α) 0 = 0 := by rw [pmax_eq]; exact max_self _
    have hc : irrCap P.maxSeason irrCum (0 : α) = 0 := irrCap_zero _ _
    have hr : ∃ o0, irrigation F P.rainfed cells st irrCum ePot tPot zRoot dap sched zMin aer zTop
        true rain runoff = .ok o0 ∧ o0.depletion = irrDepletion rz ePot tPot zRoot zMin rain runoff ∧
        o0.taw = rz.tawRz ∧ o0.irrCum = irrCum + irrCap P.maxSeason irrCum (pmax 0 0) ∧
        o0.irr = irrCap P.maxSeason irrCum (pmax 0 0) := by
      unfold irrigation
      simp only [if_true, hrz, irrDemand]
      exact ⟨_, rfl, rfl, rfl, rfl, rfl⟩
    obtain ⟨o0, ho0, a1, a2, a3, a4⟩ := hr
    refine ⟨o0, ho0, ?_, hz⟩
    simp only [IrrOut.core, Prod.mk.injEq]
    refine ⟨by rw [a1, hdep], by rw [a2, htaw], ?_, ?_⟩
    · rw [a3, hp, hc, hcum, hz]
    · rw [a4, hp, hc, hz]

end irr

section neutral
variable {F : Fn α} {P : IrrParams α} {cells : List (Cell α)} {st : Nat}
  {irrCum ePot tPot zRoot : α} {dap : Nat} {sched : Option α} {zMin aer zTop rain runoff : α}
  {out : IrrOut α}

/-- constant depth 0 applies nothing -/
theorem irr_zero_of_depth_zero
    (h : irrigation F P cells st irrCum ePot tPot zRoot dap sched zMin aer zTop true rain runoff
      = .ok out) (hm : P.method = 5) (hd : P.depth = 0) : out.irr = 0 := by
  obtain ⟨rz, irr0, fired, -, -, -, hdm, hi, -⟩ := irrigation_spec h
  rw [irrDemand_constant P _ _ _ _ _ hm] at hdm
  simp only [Except.ok.injEq, Prod.mk.injEq] at hdm
  rw [hi, ← hdm.1, hd, pmax0_pmin_nonpos _ _ (le_refl _), irrCap_zero]

/-- an event maximum of 0 applies nothing, whatever the strategy -/
theorem irr_zero_of_maxIrr_zero
    (h : irrigation F P cells st irrCum ePot tPot zRoot dap sched zMin aer zTop true rain runoff
      = .ok out) (hx : P.maxIrr = 0) : out.irr = 0 := by
  have h0 : 0 ≤ out.irr := irr_nonneg h
  have h1 : out.irr ≤ P.maxIrr := irr_le_max h (by rw [hx])
  rw [hx] at h1
  exact le_antisymm h1 h0

/-- a seasonal maximum of 0 applies nothing (the counter being non-negative) -/
theorem irr_zero_of_maxSeason_zero
    (h : irrigation F P cells st irrCum ePot tPot zRoot dap sched zMin aer zTop true rain runoff
      = .ok out) (hs : P.maxSeason = 0) (hc : 0 ≤ irrCum) : out.irr = 0 :=
  irr_zero_of_cum_above h (by rw [hs]; exact hc)

end neutral

end Aqua
