import AquaVerif.Proofs.CatalogueCfg
import AquaVerif.Proofs.CatalogueDefaults

/-
Work package R, part 5 (**non-vacuity**): a concrete catalogue configuration over `ℝ` — the crop
named "Wheat" of the generated table `cropFullTable`, the soil named "SandyLoam" of the generated
table `builtinLayersGen`, 12 compartments of 0.1 m, initial water content at field capacity
(`Prop`/`Layer` specification, layer 1 at `FC`), no water table, no irrigation, a single season of
198 days in a window of 250 days, constant weather with `ET0 = 5`.

Every hypothesis of the corollaries of `Proofs/CatalogueCfg.lean` is discharged: membership in the
two generated tables by `find?`, the builder and `initWC` by computation on the integer geometry
(`rfl`) and the totality lemmas of `Proofs/CatalogueSoil.lean`, `DerivedRunOK` for the values a
model initialised at Tunis derives for Wheat (`wheatDerived`), `InitScalars` by `rfl`, the clock by
`decide`, the ranges by `cfgRanges_of_defaults` (the configuration uses the generated program
defaults `runDefaults`).  Hence (`example_closed`) for **every** reachable state of
**every** run of that configuration the conclusions of the four corollaries hold with no
hypothesis left; the initial state is reachable (`example_reach`).
-/

set_option linter.unusedSectionVars false
set_option linter.unusedVariables false
set_option linter.unusedSimpArgs false
namespace Aqua
namespace CatalogueExample
open Aqua.Generated Aqua.Response Aqua.HarvestIndexReal Aqua.Clock

/-- the catalogue crop of a given name -/
def tableCrop (n : String) : Option CropFull := cropFullTable.find? (fun c => c.name == n)

/-- the first layer of the built-in soil of a given name -/
def tableLayer (n : String) : Option BLayer := builtinLayersGen.find? (fun l => l.soil == n)

theorem wheat_in_table : (tableCrop "Wheat").isSome = true := by decide +kernel
theorem sandyLoam_in_table : (tableLayer "SandyLoam").isSome = true := by decide +kernel

theorem tableCrop_mem {n : String} {c : CropFull} (h : tableCrop n = some c) :
    c ∈ cropFullTable ∧ c.name = n := by
  refine ⟨List.mem_of_find?_eq_some h, ?_⟩
  have := List.find?_some h
  simpa using this

theorem tableLayer_mem {n : String} {l : BLayer} (h : tableLayer n = some l) :
    l ∈ builtinLayersGen := List.mem_of_find?_eq_some h

/-! ### the configuration -/

noncomputable def soilW : SoilW ℝ :=
  { cn := 46, adjCN := true, zCN := 0.3, nComp := 12, nLayer := 1, fshapeCR := 16, zTop := 0.1,
    evapZMin := 0.15, evapZMax := 0.3, rew := 9, kex := (runDefaults.kex : ℝ),
    fwcc := (runDefaults.fwcc : ℝ), fWrelExp := 0.4, fevap := 4 }

noncomputable def irrNone : IrrParams ℝ :=
  { method := 0, smt := fun _ => 100, appEff := 100, maxIrr := 25, interval := 3, depth := 0,
    maxSeason := 10000 }

noncomputable def irrSet : IrrSet ℝ :=
  { irr := irrNone, netIrrSMT := (runDefaults.netIrrSMT : ℝ), wetSurf := (runDefaults.wetSurf : ℝ),
    sched := fun _ => none }

noncomputable def fmNone : FieldMngt ℝ :=
  { srInhb := false, bunds := false, zBund := 0, cnAdj := false, cnAdjPct := 0, mulches := false,
    fMulch := (runDefaults.fMulch : ℝ), mulchPct := (runDefaults.mulchPct : ℝ) }

/-- the state `_initialize` leaves for a run that starts on the planting date -/
noncomputable def initState (cells : List (Cell ℝ)) (zmin cc0 hi0 : ℝ) : DayState' ℝ :=
  { cells := cells, pond := 0, daySubmerged := 0, irrCum := 0, ePot := 0, tPot := 0, wSurf := 0,
    evapZ := 0, stage2 := false, wStage2 := 0, ageDaysNS := 0, ageDays := 0, aerDays := 0,
    irrNetCum := 0, trRatio := 1, dap := 0, gddCum := 0, zRoot := zmin, rCor := 1,
    growthStage := 0, germination := false, protectedSeed := false, delayedCds := 0,
    delayedGdds := 0, cc := 0, ccNS := 0, cc0Adj := cc0, ccxAct := 0, ccxActNS := 0,
    ccxW := 0, ccxWNS := 0, ccxEarlySen := 0, ccPrev := 0, tEarlySen := 0, ccAdj := 0,
    ccAdjNS := 0, prematSenes := false, cropDead := false, hiRef := 0, hiFinal := hi0,
    yieldForm := false, pctLagPhase := 0, biomass := 0, biomassNS := 0, preAdj := false,
    fPre := 1, fPol := 0, sCor1 := 0, sCor2 := 0, fpostUpp := 1, fpostDwn := 1, fPost := 1,
    hi := 0, hiAdj := 0, cropMature := false, harvestFlag := false, depletion := 0, taw := 0,
    zGW := -999, wtInSoil := false, yieldPot := 0, dryYield := 0, freshYield := 0 }

/-- the configuration: crop `c` (Wheat) in every season and as fallow filler crop, the given
initial cells and `thini` -/
noncomputable def cfgW (c : CropFull) (cells : List (Cell ℝ)) (thini : List ℝ) : RunCfg ℝ :=
  { clock := { n := 250, planting := [0], harvest := [197], offSeason := false, season0 := 0 },
    W0 := { waterTable := 0, soil := soilW, crop := c.cropW wheatDerived, irr := irrNone,
            netIrrSMT := 80, wetSurf := 100, evapTimeSteps := 20, simOffSeason := false,
            co2Cur := (runDefaults.co2Ref : ℝ), co2Ref := (runDefaults.co2Ref : ℝ) },
    zGerm := 0.3, irr := irrSet, fallowIrr := irrSet, fm := fmNone, fallowFm := fmNone,
    bundWater := (runDefaults.bundWater : ℝ), fallowCrop := c.cropParams wheatDerived,
    seasonCrop := fun _ => c.cropParams wheatDerived,
    co2Cur := fun _ => (runDefaults.co2Ref : ℝ),
    weather := fun _ => { tmin := 10, tmax := 20, rain := 0, et0 := 5 },
    zgw := fun _ => 0, thini := thini,
    init := initState cells (c.zmin : ℝ) (c.cc0 : ℝ) (c.hi0 : ℝ) }

/-! ### the soil: SandyLoam, 12 × 0.1 m, deepened for a rooting depth of 1.5 m, at field capacity -/

/-- the deepening loop condition for `Zmax = 1.5 m` (`zSoil < Zmax + 0.1`) on whole centimetres -/
def more150 : Nat → Bool := fun c => decide (c < 160)

/-- `InitialWaterContent(value=['FC'])`: layer 1 at field capacity -/
noncomputable def ptsFC : List (WcPoint ℝ) := [{ lay := 1, depth := 0, num := 0, prop := .fc }]

theorem layers12 :
    assignLayersG natGe1 natGe2 ((buildGeometry (List.replicate 12 10)).map (·.dzsum)) [120] =
      .ok (List.replicate 12 (1, 0)) := by rfl

theorem deepen12 :
    deepen more150 10 (List.replicate 12 10) 0 = .ok ([10, 10, 10, 10, 10, 10, 10, 10, 10, 10, 30, 30], 4) := by
  rfl

/-- the builder and `initWC` succeed; all twelve compartments are in layer 1 -/
theorem soil_built (l : BLayer) :
    ∃ so : SoilOut ℝ, ∃ o : InitOut ℝ,
      soilProfile realFn natGe1 natGe2 more150 10 (List.replicate 12 10) [l.toSpec 120] false false
        false 9 0.04 46 0.1 = .ok so ∧
      initWC realFn so.comps false 0 1.6 .prop .layer ptsFC = .ok o ∧
      so.comps.map (·.layer) = List.replicate 12 1 := by
  have hl : assignLayersG natGe1 natGe2 ((buildGeometry (10 :: List.replicate 11 10)).map (·.dzsum))
      (([l.toSpec 120] : List (LayerSpec ℝ Nat)).map (·.thick)) = .ok (List.replicate 12 (1, 0)) :=
    layers12
  obtain ⟨cs0, hm, hlay⟩ := mkComps_ok realFn ([l.toSpec 120] : List (LayerSpec ℝ Nat))
    (refreshFrom 0 (buildGeometry (10 :: List.replicate 11 10))
      [10, 10, 10, 10, 10, 10, 10, 10, 10, 10, 30, 30]) (List.replicate 12 (1, 0)) (by rfl)
    (fun lk hlk => by rw [(List.mem_replicate.mp hlk).2]; rfl)
  have hlay' : cs0.map (·.layer) = List.replicate 12 1 := by rw [hlay]; rfl
  have hne : cs0 ≠ [] := by
    intro h; rw [h] at hlay'; cases hlay'
  obtain ⟨so, hs, hcomps⟩ := soilProfile_ok_noWT realFn natGe1 natGe2 more150 10 10
    (List.replicate 11 10) [l.toSpec 120] false 9 0.04 46 0.1 _ _ _ cs0 hl deepen12 hm hne
  have hex : ∃ c ∈ so.comps, c.layer = 1 := by
    rw [hcomps]
    cases cs0 with
    | nil => exact absurd rfl hne
    | cons c0 rest =>
      refine ⟨c0, by simp, ?_⟩
      have := congrArg List.head? hlay'
      simpa using this
  obtain ⟨o, ho⟩ := initWC_layer_ok_noWT realFn so.comps 0 1.6 .prop ptsFC (fun p hp => by
    simp only [ptsFC, List.mem_cons, List.not_mem_nil, or_false] at hp
    subst hp
    exact hex)
  exact ⟨so, o, hs, ho, by rw [hcomps]; exact hlay'⟩

/-! ### `CatCfg` -/

theorem catCrop_wheat {c : CropFull} (hc : tableCrop "Wheat" = some c) :
    CatCrop (c.cropParams wheatDerived) := by
  obtain ⟨hm, hn⟩ := tableCrop_mem hc
  refine ⟨c, hm, ?_, wheatDerived, wheatDerived_ok, rfl⟩
  apply (catalogue_exceptions c hm).1.mpr
  rw [hn]; decide

theorem soilBuilt_example {l : BLayer} (hl : tableLayer "SandyLoam" = some l) {so : SoilOut ℝ}
    {o : InitOut ℝ}
    (hs : soilProfile realFn natGe1 natGe2 more150 10 (List.replicate 12 10) [l.toSpec 120] false
      false false 9 0.04 46 0.1 = .ok so)
    (hi : initWC realFn so.comps false 0 1.6 .prop .layer ptsFC = .ok o)
    (hlay : so.comps.map (·.layer) = List.replicate 12 1) :
    SoilBuilt false (initCells so.comps o.th o.fcAdjInit) o.th := by
  refine ⟨more150, 10, List.replicate 12 10, [l.toSpec 120], false, false, 9, 0.04, 46, 0.1, so, 0,
    1.6, .prop, ptsFC, o, ?_, ?_, hs, hi, ?_, ?_, rfl, rfl⟩
  · intro d hd; rw [(List.mem_replicate.mp hd).2]; decide
  · intro sp hsp
    simp only [List.mem_cons, List.not_mem_nil, or_false] at hsp
    subst hsp
    exact specOK_of_builtin (tableLayer_mem hl) 120
  · intro c hc
    have : c.layer ∈ so.comps.map (·.layer) := List.mem_map_of_mem hc
    rw [hlay] at this
    exact ⟨⟨1, 0, 0, .fc⟩, by simp [ptsFC], (List.mem_replicate.mp this).2.symm⟩
  · intro wp fc s _ p hp
    simp only [ptsFC, List.mem_cons, List.not_mem_nil, or_false] at hp
    subst hp
    show PropVal.fc ≠ PropVal.other
    decide

/-- **the example configuration is a catalogue configuration** -/
theorem catCfg_example {c : CropFull} {l : BLayer} (hc : tableCrop "Wheat" = some c)
    (hl : tableLayer "SandyLoam" = some l) {so : SoilOut ℝ} {o : InitOut ℝ}
    (hs : soilProfile realFn natGe1 natGe2 more150 10 (List.replicate 12 10) [l.toSpec 120] false
      false false 9 0.04 46 0.1 = .ok so)
    (hi : initWC realFn so.comps false 0 1.6 .prop .layer ptsFC = .ok o)
    (hlay : so.comps.map (·.layer) = List.replicate 12 1) :
    CatCfg (cfgW c (initCells so.comps o.th o.fcAdjInit) o.th) := by
  have hcrop := catCrop_wheat hc
  have hhi0 : (0 : ℝ) ≤ (c.hi0 : ℝ) := (resetCropOK_of_ok (K := wheatDerived)
    (catalogue_ok c (tableCrop_mem hc).1)).hi0
  exact
    { crops := fun _ => hcrop
      fallow := hcrop
      soil := by
        have : decide ((cfgW c (initCells so.comps o.th o.fcAdjInit) o.th).W0.waterTable = 1)
            = false := by
          show decide ((0 : Nat) = 1) = false
          decide
        rw [this]
        exact soilBuilt_example hl hs hi hlay
      init :=
        { dap := rfl, mature := rfl, dead := rfl, flag := rfl, cc := rfl, ccNS := rfl, ccAdj := rfl,
          ccAdjNS := rfl, ccxAct := rfl, ccxActNS := rfl, ccxW := rfl, cc0Adj := Or.inr rfl,
          trRatio := rfl, rCor := rfl, fPre := rfl, fPost := rfl, fpostUpp := rfl, fpostDwn := rfl,
          sCor1 := rfl, sCor2 := rfl, hi := rfl, hiAdj := rfl, hiFinal := hhi0, biomass := rfl,
          biomassNS := rfl, ageDays := rfl, delayedCds := rfl, pond := le_refl _ }
      clock := by
        show WF { n := 250, planting := [0], harvest := [197], offSeason := false, season0 := 0 }
        decide
      seasonLen := fun k => by
        cases k with
        | zero => simp [cfgW, Cfg.hv, Cfg.pl]
        | succ k => simp [cfgW, Cfg.hv, Cfg.pl]
      ranges := cfgRanges_of_defaults
        { kex := rfl, fwcc := rfl, fMulch := rfl, mulchPct := rfl, fMulchF := rfl, mulchPctF := rfl,
          wetSurf := rfl, wetSurfF := rfl, netIrrSMT := rfl, netIrrSMTF := rfl, bundWater := rfl,
          co2Ref := rfl
          co2Cur := fun _ => by
            show ((runDefaults.co2Ref : ℚ) : ℝ) ≤ ((runDefaults.co2DataMax : ℚ) : ℝ)
            have : runDefaults.co2Ref ≤ runDefaults.co2DataMax := by decide +kernel
            exact_mod_cast this } }

/-! ### the corollaries apply -/

/-- **there is a catalogue configuration** (Wheat on SandyLoam at field capacity): its twelve
initial cells satisfy the profile premises, the initial state is reachable, and for **every**
reachable state of **every** run of it the conclusions of the corollaries hold — no hypothesis
about computed values is left (no water table) -/
theorem example_closed :
    ∃ cfg : RunCfg ℝ, CatCfg cfg ∧ cfg.init.cells.length = 12 ∧
      (∃ s0, RunReach realFn realTrig cfg s0) ∧
      ∀ s, RunReach realFn realTrig cfg s →
        (WaterInv cfg s ∧ CropEnv realFn (paramsOf cfg s.season false) s.day) ∧
        ∀ d ∈ s.daysRev,
          ((∀ y ∈ d.r.state.cells, y.Inv) ∧ 0 ≤ d.r.state.pond) ∧
          storage d.r.state.cells + d.r.state.pond =
            storage d.st.cells + d.st.pond + d.r.flux.infl + d.r.water.preIrr + d.r.water.irrNet
              + d.r.water.crAdded + d.r.flux.gwIn - d.r.flux.deepPerc - d.r.flux.es - d.r.flux.tr ∧
          (0 ≤ d.r.flux.esPot ∧ 0 ≤ d.r.flux.es ∧ d.r.flux.es ≤ d.r.flux.esPot) ∧
          (0 ≤ d.r.flux.trPot ∧ 0 ≤ d.r.flux.tr ∧ d.r.flux.tr ≤ d.r.flux.trPot) ∧
          (0 ≤ d.r.flux.deepPerc ∧ 0 ≤ d.r.flux.cr ∧ 0 ≤ d.r.flux.gwIn ∧ 0 ≤ d.r.water.irr) ∧
          CropEnv realFn d.P d.st ∧ CropEnv realFn d.P d.r.state ∧
          d.r.state.ccxAct ≤ d.P.cx.cc.ccx := by
  obtain ⟨c, hc⟩ := Option.isSome_iff_exists.mp wheat_in_table
  obtain ⟨l, hl⟩ := Option.isSome_iff_exists.mp sandyLoam_in_table
  obtain ⟨so, o, hs, hi, hlay⟩ := soil_built l
  have hcat := catCfg_example hc hl hs hi hlay
  have hcells := hcat.soil
  refine ⟨_, hcat, ?_, ?_, fun s hr => ?_⟩
  · -- twelve cells
    have hS := (catCfg_example hc hl hs hi hlay).soil.ok
    have hlen : (initCells so.comps o.th o.fcAdjInit).map (·.c) = so.comps := by
      obtain ⟨⟨wp, fc, sf, hL⟩, hfacts, _⟩ := soilProfile_facts realFn natGe1 natGe2 natGe1_anti
        natGe2_anti more150 10 (List.replicate 12 10) [l.toSpec 120] false false false 9 0.04 46 0.1
        so (fun sp hsp => by
          simp only [List.mem_cons, List.not_mem_nil, or_false] at hsp
          subst hsp
          exact specOK_of_builtin (tableLayer_mem hl) 120) hs
      have hwf : ∀ c ∈ so.comps, c.thDry ≤ c.thWP ∧ c.thWP ≤ c.thFC ∧ c.thFC ≤ c.thS :=
        fun c hc => by
          obtain ⟨_, f2, f3, f4, _⟩ := hfacts c hc
          exact ⟨f2, f3.le, f4.le⟩
      obtain ⟨hth, hfc⟩ := initWC_layer_bounds (F := realFn) false 0 1.6 .prop ptsFC o hL hwf
        (fun h => by cases h)
        (fun c hc => by
          have : c.layer ∈ so.comps.map (·.layer) := List.mem_map_of_mem hc
          rw [hlay] at this
          exact ⟨⟨1, 0, 0, .fc⟩, by simp [ptsFC], (List.mem_replicate.mp this).2.symm⟩)
        (fun p hp => by
          simp only [ptsFC, List.mem_cons, List.not_mem_nil, or_false] at hp
          subst hp
          show PropVal.fc ≠ PropVal.other
          decide) hi
      exact initCells_comps hth hfc
    show (initCells so.comps o.th o.fcAdjInit).length = 12
    have := congrArg List.length hlen
    rw [List.length_map] at this
    rw [this]
    have h12 := congrArg List.length hlay
    simpa using h12
  · exact ⟨_, RunReach.init (by
      show runInit (cfgW c (initCells so.comps o.th o.fcAdjInit) o.th) = .ok _
      unfold runInit Clock.init
      simp [cfgW]
      rfl)⟩
  · exact catalogue_run_no_table hcat (fun _ => by show (0 : ℝ) < 5; norm_num)
      (by show (0 : Nat) ≠ 1; decide) hr

end CatalogueExample
end Aqua

section AxiomAudit
open Aqua.CatalogueExample
#print axioms wheat_in_table
#print axioms soil_built
#print axioms catCfg_example
#print axioms example_closed
end AxiomAudit
