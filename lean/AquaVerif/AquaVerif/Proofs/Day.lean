import AquaVerif.Model.Day
import AquaVerif.Proofs.WaterDay
import AquaVerif.Proofs.CanopyCover
import AquaVerif.Proofs.RootDevelopment
import AquaVerif.Proofs.Germination
import AquaVerif.Proofs.GrowthStage
import AquaVerif.Proofs.HarvestIndex
import AquaVerif.Proofs.Response
import AquaVerif.Proofs.Yield
import AquaVerif.Proofs.Summary

/-
Lemmas about `fullDay` (`Model/Day.lean`), at an arbitrary linearly ordered field:

A. inversion of a successful day into the equations of its process calls (`FullSteps`,
   `fullDayTrace_ok`, `fullDay_ok`), the converse of `waterDayTrace_ok`
   (`waterDayTrace_of_steps`), and the bridge **`fullDay_water`**: a successful `fullDay` is a
   successful `waterDay` for the `CropDay` it computed — so every theorem about `waterDay`
   (quantified over all `CropDay`) applies; `fullDay_rows` says how rows and final state repeat
   the `waterDay` outputs;
B. the water theorems of `Properties/C01–C04` for the full day (`fullDay_closes`,
   `fullDay_partition`, `fullDay_inv`, `fullDay_pond`, `fullDay_flux_signs`, …);
C. the rows: time counters (`fullDay_counters`), the C06 daily identities (`fullDay_yields`,
   `fullDay_biomass_bounds`, `fullDay_irrTot`), the summary row and the harvest flag
   (`fullDay_summary`, `fullDay_flags`), off-season zeros (`fullDay_offseason_zero`);
D. the crop-side envelope of C05 along one day: `CcInv`, `RootInv`, `HiInv`, `BioInv`, together
   `CropInv`, each preserved by a successful day (`fullDay_ccInv`, `fullDay_rootInv`,
   `fullDay_hiInv`, `fullDay_bioInv`, `fullDay_cropInv`), `fullDay_gdd`;
and a concrete non-trivial day over `ℚ` (`FullDayExample`).
-/

set_option linter.unusedSectionVars false
set_option linter.unusedVariables false
set_option linter.unusedSimpArgs false
namespace Aqua
variable {α : Type} [Field α] [LinearOrder α] [IsStrictOrderedRing α]

/-! ## A. inversion of a successful full day -/

theorem hiErr_ok {β : Type} {x : Except String β} {b : β} (h : hiErr x = .ok b) : x = .ok b := by
  cases x with
  | error e => cases h
  | ok a => cases h; rfl

/-- the equations a successful full day satisfies, process by process -/
structure FullSteps (F : Fn α) (T : TrigFn α) (P : DayParams α) (st : DayState' α) (D : DayIn' α)
    (X : FullTrace α) : Prop where
  htc : dayCounters P.cx st D = .ok X.tc
  hrd : rootDevelopment F P.cx.rd X.g.cells (natNum X.tc.dap) st.zRoot st.delayedCds X.tc.gddCum
          st.delayedGdds st.trRatio st.cc st.ccNS st.germination st.rCor st.tPot X.g.zGW X.tc.gdd
          D.gs P.W.waterTable = .ok X.rd
  hge : germination F st.germ P.zGerm X.c.cells P.cx.germThr P.cx.sown X.tc.gdd D.gs = .ok X.ge
  hgst : growthStage P.W.crop.calendarType (natNum X.tc.dap) X.ge.s.delayedCds X.tc.gddCum
          X.ge.s.delayedGdds P.cx.canopy10 P.cx.maxCanopy P.W.crop.senescence D.gs st.growthStage
          = some X.gst
  hcc : canopyCover F P.cx.cc X.c.cells P.W.soil.zTop (ccStateOf st X.tc X.rd X.ge) X.tc.gdd D.et0
          D.gs = .ok X.cc
  hhr : X.hr = hiRefCurrentDay F P.cx.hi (hiRefInOf st X.tc X.ge X.cc X.t) D.gs
  hbio : X.bio = biomassAccumulation P.cx.bio (natNum X.tc.dap) X.ge.s.delayedCds X.hr.hiRef
          X.hr.pctLagPhase st.biomass st.biomassNS X.t.trAct X.t.trPotNS D.et0 D.gs
  hhi : harvestIndex F T X.w.1 P.W.soil.zTop P.cx.hi P.cx.hik
          (hiStateOf st X.tc X.rd X.ge X.cc X.t X.hr X.bio) D.et0 D.tmax D.tmin D.gs = .ok X.hi
  hy : X.y = yieldStep X.bio.2 X.bio.1 X.hi.hi X.hi.hiAdj P.cx.yldWC D.gs
  /-- the water processes: the equations of `waterDay` for the `CropDay` of the trace -/
  water : DaySteps F P.W P.fm (X.cropDay P st) st.cells st.water D.water X.water

theorem fullDayTrace_ok {F : Fn α} {T : TrigFn α} {P : DayParams α} {st : DayState' α}
    {D : DayIn' α} {X : FullTrace α} (h : fullDayTrace F T P st D = .ok X) :
    FullSteps F T P st D X := by
  unfold fullDayTrace at h
  try dsimp only at h
  obtain ⟨tc, htc, h⟩ := bind_ok h
  obtain ⟨g, hg, h⟩ := bind_ok h
  obtain ⟨rd, hrd, h⟩ := bind_ok h
  obtain ⟨p, hp, h⟩ := bind_ok h
  try dsimp only at h
  obtain ⟨r, hr, h⟩ := bind_ok h
  obtain ⟨i, hi, h⟩ := bind_ok h
  obtain ⟨f, hf, h⟩ := bind_ok h
  obtain ⟨c, hc, h⟩ := bind_ok h
  obtain ⟨ge, hge, h⟩ := bind_ok h
  obtain ⟨gst, hgst, h⟩ := bind_ok h
  obtain ⟨cc, hcc, h⟩ := bind_ok h
  try dsimp only at h
  obtain ⟨e, he, h⟩ := bind_ok h
  obtain ⟨t, ht, h⟩ := bind_ok h
  obtain ⟨w, hw, h⟩ := bind_ok h
  try dsimp only at h
  obtain ⟨hix, hhi, h⟩ := bind_ok h
  try dsimp only at h
  obtain ⟨rz, hrz, h⟩ := bind_ok h
  cases h
  exact
    { htc := htc, hrd := hrd, hge := hge, hgst := optErr_ok hgst, hcc := hcc, hhr := rfl,
      hbio := rfl, hhi := hiErr_ok hhi, hy := rfl,
      water := ⟨optErr_ok hg, optErr_ok hp, rfl, optErr_ok hr, mapErr_ok hi, hf, mapErr_ok hc, he,
        ht, optErr_ok hw, optErr_ok hrz⟩ }

@[simp] theorem FullTrace.water_g (X : FullTrace α) : X.water.g = X.g := rfl
@[simp] theorem FullTrace.water_p (X : FullTrace α) : X.water.p = X.p := rfl
@[simp] theorem FullTrace.water_d (X : FullTrace α) : X.water.d = X.d := rfl
@[simp] theorem FullTrace.water_r (X : FullTrace α) : X.water.r = X.r := rfl
@[simp] theorem FullTrace.water_i (X : FullTrace α) : X.water.i = X.i := rfl
@[simp] theorem FullTrace.water_f (X : FullTrace α) : X.water.f = X.f := rfl
@[simp] theorem FullTrace.water_c (X : FullTrace α) : X.water.c = X.c := rfl
@[simp] theorem FullTrace.water_e (X : FullTrace α) : X.water.e = X.e := rfl
@[simp] theorem FullTrace.water_t (X : FullTrace α) : X.water.t = X.t := rfl
@[simp] theorem FullTrace.water_w (X : FullTrace α) : X.water.w = X.w := rfl
@[simp] theorem FullTrace.water_rz (X : FullTrace α) : X.water.rz = X.rz := rfl

/-- converse of `waterDayTrace_ok`: the eleven equations make the day succeed with that trace -/
theorem waterDayTrace_of_steps {F : Fn α} {W : WaterParams α} {fm : FieldMngt α} {C : CropDay α}
    {cells : List (Cell α)} {S : DayState α} {D : DayIn α} {T : DayTrace α}
    (hs : DaySteps F W fm C cells S D T) : waterDayTrace F W fm C cells S D = .ok T := by
  obtain ⟨hg, hp, hd, hr, hi, hf, hc, he, ht, hw, hrz⟩ := hs
  unfold waterDayTrace
  rw [hg]
  unfold waterDayRest
  simp only [optErr, bind, Except.bind, hp, ← hd, hr, hi, mapErr, hf, hc, he, ht, hw, hrz]
  rfl

theorem waterDay_of_steps {F : Fn α} {W : WaterParams α} {fm : FieldMngt α} {C : CropDay α}
    {cells : List (Cell α)} {S : DayState α} {D : DayIn α} {T : DayTrace α}
    (hs : DaySteps F W fm C cells S D T) : waterDay F W fm C cells S D = .ok (dayOutOf W D T) := by
  unfold waterDay
  rw [waterDayTrace_of_steps hs]

section full
variable {F : Fn α} {T : TrigFn α} {P : DayParams α} {st : DayState' α} {D : DayIn' α}
  {r : DayResult α}

theorem fullDay_ok (h : fullDay F T P st D = .ok r) :
    FullSteps F T P st D r.trace ∧ r = dayResultOf P st D r.trace := by
  unfold fullDay at h
  split at h
  · cases h
  · rename_i X hX
    cases h
    exact ⟨fullDayTrace_ok hX, rfl⟩

/-- **a successful full day is a successful `waterDay`** for the `CropDay` it computed: every
theorem about `waterDay` (which quantifies over all `CropDay`) applies to `r.water` -/
theorem fullDay_water (h : fullDay F T P st D = .ok r) :
    waterDay F P.W P.fm r.crop st.cells st.water D.water = .ok r.water := by
  obtain ⟨hs, e⟩ := fullDay_ok h
  rw [e]
  exact waterDay_of_steps hs.water

/-- how the rows and the final state repeat the outputs of `waterDay` -/
theorem fullDay_rows (h : fullDay F T P st D = .ok r) :
    r.state.cells = r.water.cells ∧ r.state.pond = r.water.pond ∧
    r.storage.th = r.water.cells.map (·.th) ∧
    r.flux.wr = r.water.wr ∧ r.flux.zGW = r.water.zGW ∧ r.flux.pond = r.water.pond ∧
    r.flux.irrDay = r.water.irrDay ∧ r.flux.infl = r.water.infl ∧
    r.flux.runoff = r.water.runoff ∧ r.flux.deepPerc = r.water.deepPerc ∧
    r.flux.cr = r.water.cr ∧ r.flux.gwIn = r.water.gwIn ∧ r.flux.es = r.water.es ∧
    r.flux.esPot = r.water.esPot ∧ r.flux.tr = r.water.tr ∧ r.flux.trPot = r.water.trPot := by
  obtain ⟨hs, e⟩ := fullDay_ok h
  rw [e]
  refine ⟨rfl, rfl, rfl, rfl, rfl, rfl, ?_, rfl, rfl, rfl, rfl, rfl, rfl, rfl, rfl, rfl⟩
  simp only [dayResultOf, irrReportOf, irrReport, dayOutOf, DayIn'.water, FullTrace.water]
  by_cases hg : D.gs = true
  · by_cases hm : P.W.irr.method = 4 <;> simp [hg, hm]
  · simp [hg]

/-! ## B. the water theorems (C01–C04) for the full day

`r.water` are the ghost outputs of the water part (`preIrr`, `irrNet`, `crAdded`, `dzFill`,
`drainLost`, `inflLost`, `cn`, `crCells`, …); `r.flux` is the `water_flux` row, `r.state` the state
after the day. -/

/-- **C01 for the full day**: under `DayPre` the change in stored soil water plus ponded water
equals reported infiltration + pre-irrigation + net irrigation + capillary rise (as added) +
groundwater inflow − reported deep percolation − soil evaporation − transpiration. -/
theorem fullDay_closes (h : fullDay F T P st D = .ok r) (hP : DayPre F P.W st.cells st.water) :
    storage r.state.cells + r.state.pond =
      storage st.cells + st.pond + r.flux.infl + r.water.preIrr + r.water.irrNet
        + r.water.crAdded + r.flux.gwIn - r.flux.deepPerc - r.flux.es - r.flux.tr := by
  have hw := fullDay_water h
  obtain ⟨e1, e2, _, _, _, _, _, e3, _, e4, _, e5, e6, _, e7, _⟩ := fullDay_rows h
  have hb := waterDay_balance_lost hw (fun x hx => (hP.pre x hx).inv.wf.dz_pos)
  obtain ⟨l1, l2⟩ := waterDay_lost_zero hw hP
  rw [e1, e2, e3, e4, e5, e6, e7]
  rw [l1, l2] at hb
  have : st.water.pond = st.pond := rfl
  rw [this] at hb
  linarith

/-- the unconditional variant with the two `lost` ghosts (positive thicknesses only) -/
theorem fullDay_closes_with_lost (h : fullDay F T P st D = .ok r)
    (hdz : ∀ x ∈ st.cells, 0 < x.c.dz) :
    storage r.state.cells + r.state.pond =
      storage st.cells + st.pond + r.flux.infl + r.water.preIrr + r.water.irrNet
        + r.water.crAdded + r.flux.gwIn - r.flux.deepPerc - r.flux.es - r.flux.tr
        - r.water.drainLost - r.water.inflLost := by
  have hw := fullDay_water h
  obtain ⟨e1, e2, _, _, _, _, _, e3, _, e4, _, e5, e6, _, e7, _⟩ := fullDay_rows h
  have hb := waterDay_balance_lost hw hdz
  rw [e1, e2, e3, e4, e5, e6, e7]
  exact hb

/-- reported vs. real capillary rise -/
theorem fullDay_capillary_rise_reported (h : fullDay F T P st D = .ok r) (hR : GwRoundLaws F)
    (hdz : ∀ x ∈ st.cells, 0 < x.c.dz) :
    0 ≤ r.water.dzFill ∧ |r.flux.cr - r.water.crAdded| ≤ r.water.dzFill * 1000 * (1 / 20000) := by
  rw [(fullDay_rows h).2.2.2.2.2.2.2.2.2.2.1]
  exact waterDay_cr_err (fullDay_water h) hR hdz

/-- the irrigation column of the row -/
theorem fullDay_row_irrigation (h : fullDay F T P st D = .ok r) :
    r.flux.irrDay = if D.gs then (if P.W.irr.method = 4 then r.water.irrNet + r.water.preIrr
      else r.water.irr) else 0 := by
  rw [(fullDay_rows h).2.2.2.2.2.2.1]
  obtain ⟨X, _, e⟩ := waterDay_ok (fullDay_water h)
  rw [e]; rfl

/-- **C02 for the full day**: infiltration + runoff = rain + applied irrigation -/
theorem fullDay_partition (hF : PowSqLaw F) (h : fullDay F T P st D = .ok r) (hrain : 0 ≤ D.rain)
    (hcn : ScsRuns P.fm → 0 < r.water.cn ∧ r.water.cn ≤ 100) :
    r.flux.infl + r.flux.runoff = D.rain + irrApplied P.W D.water r.water := by
  obtain ⟨_, _, _, _, _, _, _, e3, e4, _⟩ := fullDay_rows h
  rw [e3, e4]
  exact waterDay_partition hF (fullDay_water h) hrain hcn

theorem fullDay_runoff_bounds (h : fullDay F T P st D = .ok r)
    (hP : DayPre F P.W st.cells st.water) (hrain : 0 ≤ D.rain)
    (hcn : ScsRuns P.fm → 0 < r.water.cn ∧ r.water.cn ≤ 100) :
    0 ≤ r.flux.runoff ∧ r.flux.runoff ≤ D.rain + irrApplied P.W D.water r.water + st.pond := by
  obtain ⟨_, _, _, _, _, _, _, _, e4, _⟩ := fullDay_rows h
  rw [e4]
  exact waterDay_runoff_bounds (fullDay_water h) hP hrain hcn

/-- **C03 for the full day**: every compartment ends the day within `Cell.Inv`, provided
capillary rise did not overshoot saturation that day (`hNo`, see `Properties/C03.lean`) -/
theorem fullDay_inv (h : fullDay F T P st D = .ok r) (hP : DayPre F P.W st.cells st.water)
    (wp fc : Nat → α) (hT : DayTrPre F P.W r.crop st.cells wp fc)
    (hL : P.W.waterTable = 1 → GwExpLaws F ∧ GwRoundLaws F ∧ GwRoundSign F)
    (hNo : ∀ y ∈ r.water.crCells, y.th ≤ y.c.thS) : ∀ y ∈ r.state.cells, y.Inv := by
  rw [(fullDay_rows h).1]
  exact waterDay_inv (fullDay_water h) hP wp fc hT hL hNo

theorem fullDay_inv_no_table (h : fullDay F T P st D = .ok r)
    (hP : DayPre F P.W st.cells st.water) (wp fc : Nat → α)
    (hT : DayTrPre F P.W r.crop st.cells wp fc) (hwt : P.W.waterTable ≠ 1) :
    ∀ y ∈ r.state.cells, y.Inv := by
  rw [(fullDay_rows h).1]
  exact waterDay_inv_no_table (fullDay_water h) hP wp fc hT hwt

theorem fullDay_cr_slack (h : fullDay F T P st D = .ok r) (hP : DayPre F P.W st.cells st.water)
    (hL : P.W.waterTable = 1 → GwExpLaws F ∧ GwRoundLaws F ∧ GwRoundSign F) :
    ∀ y ∈ r.water.crCells, y.c.WF ∧ y.c.thDry ≤ y.th ∧ y.th ≤ y.c.thS + 1 / 20000 ∧
      y.c.thFC ≤ y.fcAdj ∧ y.fcAdj ≤ y.c.thS :=
  waterDay_cr_slack (fullDay_water h) hP hL

/-- ponded water at the end of the full day -/
theorem fullDay_pond (h : fullDay F T P st D = .ok r) (hP : DayPre F P.W st.cells st.water) :
    0 ≤ r.state.pond ∧ (P.fm.bunds = false ∨ P.fm.zBund ≤ 0.001 → r.state.pond = 0) ∧
    (P.fm.bunds = true → st.pond ≤ P.fm.zBund → 0 ≤ r.flux.esPot → 0 ≤ r.flux.trPot →
      LagAerIntegral P.W → r.state.pond ≤ P.fm.zBund) := by
  obtain ⟨_, e2, _, _, _, _, _, _, _, _, _, _, _, e8, _, e9⟩ := fullDay_rows h
  rw [e2, e8, e9]
  exact waterDay_pond (fullDay_water h) hP

theorem fullDay_wr_nonneg (h : fullDay F T P st D = .ok r) : 0 ≤ r.flux.wr := by
  rw [(fullDay_rows h).2.2.2.1]
  exact waterDay_wr_nonneg (fullDay_water h)

/-- the day never changes the compartments (geometry and hydraulic properties) -/
theorem fullDay_comps (h : fullDay F T P st D = .ok r) (hdz : ∀ x ∈ st.cells, 0 < x.c.dz) :
    r.state.cells.map (·.c) = st.cells.map (·.c) := by
  rw [(fullDay_rows h).1]
  obtain ⟨X, hs, e⟩ := waterDay_ok (fullDay_water h)
  rw [e]
  exact (day_comps hs hdz).w

/-- `DrainPre` (the entry condition of the next day) at the end of the day, from `Cell.Inv` -/
theorem fullDay_drainPre (h : fullDay F T P st D = .ok r) (hpre : ∀ x ∈ st.cells, DrainPre x)
    (hinv : ∀ y ∈ r.state.cells, y.Inv) : ∀ y ∈ r.state.cells, DrainPre y := by
  have hc := fullDay_comps h (fun x hx => (hpre x hx).inv.wf.dz_pos)
  have := forall_of_map_eq (·.c) hc (fun c => 0 ≤ c.dzsum ∧ c.thFC < c.thS)
    (fun x hx => ⟨(hpre x hx).dzsum_nn, (hpre x hx).fc_lt_s⟩)
  exact fun y hy => ⟨hinv y hy, (this y hy).1, (this y hy).2⟩

/-- **C04 for the full day**: signs of the reported fluxes and actual ≤ potential -/
theorem fullDay_flux_signs (h : fullDay F T P st D = .ok r) (hP : DayPre F P.W st.cells st.water)
    (hE : GwExpLaws F) :
    0 ≤ r.flux.deepPerc ∧ 0 ≤ r.flux.cr ∧ 0 ≤ r.flux.gwIn ∧ 0 ≤ r.water.irr ∧
      (P.W.irr.method ≠ 4 → 0 ≤ r.flux.irrDay) := by
  have hw := fullDay_water h
  have hdz : ∀ x ∈ st.cells, 0 < x.c.dz := fun x hx => (hP.pre x hx).inv.wf.dz_pos
  obtain ⟨_, _, _, _, _, _, e1, _, _, e2, e3, e4, _⟩ := fullDay_rows h
  rw [e1, e2, e3, e4]
  exact ⟨waterDay_deepPerc_nonneg hw hP, waterDay_cr_nonneg hw hE hdz,
    waterDay_gwIn_nonneg hw hdz, (waterDay_irr_nonneg hw).1, (waterDay_irr_nonneg hw).2.1⟩

theorem fullDay_runoff_nonneg (h : fullDay F T P st D = .ok r)
    (hP : DayPre F P.W st.cells st.water) (hrain : 0 ≤ D.rain)
    (hcn : ScsRuns P.fm → 0 < r.water.cn ∧ r.water.cn ≤ 100) : 0 ≤ r.flux.runoff :=
  (fullDay_runoff_bounds h hP hrain hcn).1

theorem fullDay_es_bounds (h : fullDay F T P st D = .ok r) (hdz : ∀ x ∈ st.cells, 0 < x.c.dz)
    (hp : DayEsPre P.W P.fm r.crop D.water) :
    0 ≤ r.flux.esPot ∧ 0 ≤ r.flux.es ∧ r.flux.es ≤ r.flux.esPot := by
  obtain ⟨_, _, _, _, _, _, _, _, _, _, _, _, e7, e8, _⟩ := fullDay_rows h
  rw [e7, e8]
  exact waterDay_es_bounds (fullDay_water h) hdz hp

theorem fullDay_es_bounds_of_espot_nonneg (h : fullDay F T P st D = .ok r)
    (hdz : ∀ x ∈ st.cells, 0 < x.c.dz) (hp : 0 ≤ r.flux.esPot) :
    0 ≤ r.flux.es ∧ r.flux.es ≤ r.flux.esPot := by
  obtain ⟨_, _, _, _, _, _, _, _, _, _, _, _, e7, e8, _⟩ := fullDay_rows h
  rw [e8] at hp
  rw [e7, e8]
  exact waterDay_es_bounds' (fullDay_water h) hdz hp

theorem fullDay_tr_bounds (h : fullDay F T P st D = .ok r) (hdz : ∀ x ∈ st.cells, 0 < x.c.dz)
    (hp : 0 ≤ r.flux.trPot) :
    r.flux.tr ≤ r.flux.trPot ∧
      (∀ wp fc : Nat → α, DayTrPre F P.W r.crop st.cells wp fc → LagAerIntegral P.W →
        0 ≤ r.flux.tr) := by
  obtain ⟨_, _, _, _, _, _, _, _, _, _, _, _, _, _, e9, e10⟩ := fullDay_rows h
  rw [e10] at hp
  rw [e9, e10]
  exact ⟨waterDay_tr_le (fullDay_water h) hdz hp,
    fun wp fc hT hl => waterDay_tr_nonneg (fullDay_water h) hdz wp fc hT hl hp⟩

end full

/-! ## C. yields (C06) and off-season zeros (C04/C05) on the emitted rows -/

section rows
variable {F : Fn α} {T : TrigFn α} {P : DayParams α} {st : DayState' α} {D : DayIn' α}
  {r : DayResult α}

theorem fullDay_ok' (h : fullDay F T P st D = .ok r) :
    ∃ X, FullSteps F T P st D X ∧ r = dayResultOf P st D X :=
  ⟨r.trace, (fullDay_ok h).1, (fullDay_ok h).2⟩

/-- the time counters of the rows: in season `dap + 1` and `gdd_cum + gdd` with the day's degree
days, off season `0`, `0.3`, `0`; all three rows carry the same `dap` -/
theorem fullDay_counters (h : fullDay F T P st D = .ok r) :
    r.storage.dap = r.growth.dap ∧ r.flux.dap = r.growth.dap ∧ r.state.dap = r.growth.dap ∧
    r.state.gddCum = r.growth.gddCum ∧
    (D.gs = true → r.growth.dap = st.dap + 1 ∧
      growingDegreeDay P.cx.gddMethod P.cx.tupp P.cx.tbase D.tmax D.tmin = some r.growth.gdd ∧
      r.growth.gddCum = st.gddCum + r.growth.gdd) ∧
    (D.gs = false → r.growth.dap = 0 ∧ r.growth.gdd = 0.3 ∧ r.growth.gddCum = 0) := by
  obtain ⟨X, hs, rfl⟩ := fullDay_ok' h
  have htc := hs.htc
  unfold dayCounters at htc
  refine ⟨rfl, rfl, rfl, rfl, fun hg => ?_, fun hg => ?_⟩
  · rw [hg] at htc
    simp only [if_true] at htc
    split at htc
    · cases htc
    · rename_i g hgd
      have e := Except.ok.inj htc
      show X.tc.dap = _ ∧ _ = some X.tc.gdd ∧ X.tc.gddCum = _ + X.tc.gdd
      rw [← e]
      exact ⟨rfl, hgd, rfl⟩
  · rw [hg] at htc
    simp only [Bool.false_eq_true, if_false] at htc
    have e := Except.ok.inj htc
    show X.tc.dap = _ ∧ X.tc.gdd = _ ∧ X.tc.gddCum = _
    rw [← e]
    exact ⟨rfl, rfl, rfl⟩

/-- **C06, daily identities on the emitted rows** — no premise: potential yield = no-stress
biomass/100 × harvest index (every day); in season dry yield = biomass/100 × adjusted harvest
index, fresh yield = dry yield / (YldWC/100), the biomass gain is the adjusted water productivity
× reported transpiration / ET0 and the no-stress gain the same with the potential no-stress
transpiration; the state object carries the same three yields. -/
theorem fullDay_yields (h : fullDay F T P st D = .ok r) :
    r.growth.yieldPot = (r.growth.biomassNS / 100) * r.growth.hi ∧
    (D.gs = true →
      r.growth.dryYield = (r.growth.biomass / 100) * r.growth.hiAdj ∧
      r.growth.freshYield = r.growth.dryYield / (P.cx.yldWC / 100) ∧
      r.growth.biomass = st.biomass +
        bioWPadj P.cx.bio (natNum r.growth.dap) r.state.delayedCds r.state.hiRef
          r.state.pctLagPhase * (r.flux.tr / D.et0) ∧
      r.growth.biomassNS = st.biomassNS +
        bioWPadj P.cx.bio (natNum r.growth.dap) r.state.delayedCds r.state.hiRef
          r.state.pctLagPhase * (r.water.trPotNS / D.et0)) ∧
    (r.state.yieldPot = r.growth.yieldPot ∧ r.state.dryYield = r.growth.dryYield ∧
      r.state.freshYield = r.growth.freshYield ∧ r.state.biomass = r.growth.biomass ∧
      r.state.biomassNS = r.growth.biomassNS ∧ r.state.hi = r.growth.hi ∧
      r.state.hiAdj = r.growth.hiAdj ∧ r.state.cc = r.growth.cc ∧ r.state.ccNS = r.growth.ccNS ∧
      r.state.zRoot = r.growth.zRoot) := by
  obtain ⟨X, hs, rfl⟩ := fullDay_ok' h
  have hy := hs.hy
  have hb := hs.hbio
  refine ⟨?_, fun hg => ?_, ⟨rfl, rfl, rfl, rfl, rfl, rfl, rfl, rfl, rfl, rfl⟩⟩
  · show X.y.yieldPot = _
    rw [hy]; exact yieldStep_pot _ _ _ _ _ _
  · rw [hg] at hy hb
    rw [biomass_step] at hb
    refine ⟨?_, ?_, ?_, ?_⟩
    · show X.y.dryYield = _
      rw [hy]; exact yieldStep_dry _ _ _ _ _
    · show X.y.freshYield = X.y.dryYield / _
      rw [hy]; exact yieldStep_fresh _ _ _ _ _
    · show X.bio.1 = _
      rw [hb]; rfl
    · show X.bio.2 = _
      rw [hb]; rfl

/-- the biomass gain lies between `WP·fCO2·(WPy/100)·Tr/ET0` and `WP·fCO2·Tr/ET0`
(premises of `Properties/C06.lean`: `0 ≤ WPy ≤ 100`, `0 ≤ WP·fCO2`, `BioSwitchOK`, `0 ≤ Tr`,
`0 < ET0`) -/
theorem fullDay_biomass_bounds (h : fullDay F T P st D = .ok r) (hg : D.gs = true)
    (hy0 : 0 ≤ P.cx.bio.wpy) (hy1 : P.cx.bio.wpy ≤ 100) (hw : 0 ≤ P.cx.bio.wp * P.cx.bio.fco2)
    (hsw : BioSwitchOK P.cx.bio (natNum r.growth.dap) r.state.delayedCds r.state.pctLagPhase)
    (htr : 0 ≤ r.flux.tr) (het : 0 < D.et0) :
    st.biomass + P.cx.bio.wp * P.cx.bio.fco2 * (P.cx.bio.wpy / 100) * (r.flux.tr / D.et0)
        ≤ r.growth.biomass ∧
      r.growth.biomass ≤ st.biomass + P.cx.bio.wp * P.cx.bio.fco2 * (r.flux.tr / D.et0) := by
  obtain ⟨X, hs, rfl⟩ := fullDay_ok' h
  have hb := hs.hbio
  rw [hg] at hb
  have := biomass_gain_bounds P.cx.bio (natNum X.tc.dap) X.ge.s.delayedCds X.hr.hiRef
    X.hr.pctLagPhase st.biomass st.biomassNS X.t.trAct X.t.trPotNS D.et0 hy0 hy1 hw hsw htr het
  rw [← hb] at this
  exact this

/-- the summary row, when one is written, repeats the day's values; it is written exactly when
the end-of-season condition holds and the harvest flag was not yet set, and the flag is set by
that -/
theorem fullDay_summary (h : fullDay F T P st D = .ok r) :
    (r.summary.isSome = (r.endc && !st.harvestFlag)) ∧
    r.state.harvestFlag = (st.harvestFlag || r.endc) ∧
    r.endc = (decide (0 ≤ D.season) && (r.state.cropMature || r.state.cropDead || D.lastDay)) ∧
    (∀ s, r.summary = some s → s.season = D.season ∧ s.tsc = D.tsc ∧
      s.dryYield = r.growth.dryYield ∧ s.freshYield = r.growth.freshYield ∧
      s.yieldPot = r.growth.yieldPot ∧ s.irrTot = r.irrTot) := by
  obtain ⟨X, hs, rfl⟩ := fullDay_ok' h
  refine ⟨?_, rfl, rfl, ?_⟩
  · simp only [dayResultOf]
    split_ifs with hc
    · simp [hc]
    · simp only [Option.isSome_none]
      exact (Bool.eq_false_iff.mpr hc).symm
  · intro s hsome
    simp only [dayResultOf] at hsome
    split_ifs at hsome with hc
    rw [← Option.some.inj hsome]
    exact ⟨rfl, rfl, rfl, rfl, rfl, rfl⟩

/-- maturity and death flags: set only in season, never cleared by the day -/
theorem fullDay_flags (h : fullDay F T P st D = .ok r) :
    r.state.cropMature = (st.cropMature || (D.gs && matureTest P r.trace.tc)) ∧
    (D.gs = false → r.state.cropDead = st.cropDead) := by
  obtain ⟨X, hs, rfl⟩ := fullDay_ok' h
  refine ⟨rfl, fun hg => ?_⟩
  have hcc := hs.hcc
  rw [hg, canopyCover_offseason] at hcc
  show X.cc.cropDead = _
  rw [← Except.ok.inj hcc]
  rfl

/-- **seasonal irrigation total = running sum** (one day): in season the total reported in the
summary row (`IrrTot`) is yesterday's seasonal counter plus the irrigation column of today's
row — the counter is `irr_cum`, or `irr_net_cum` in net-irrigation mode; off season it is 0 -/
theorem fullDay_irrTot (h : fullDay F T P st D = .ok r) :
    (D.gs = true → P.W.irr.method ≠ 4 →
      r.irrTot = r.state.irrCum ∧ r.irrTot = st.irrCum + r.flux.irrDay) ∧
    (D.gs = true → P.W.irr.method = 4 →
      r.irrTot = r.state.irrNetCum ∧ r.irrTot = st.irrNetCum + r.flux.irrDay) ∧
    (D.gs = false → r.irrTot = 0 ∧ r.flux.irrDay = 0) := by
  obtain ⟨X, hs, rfl⟩ := fullDay_ok' h
  have hi := hs.water.hi
  have ht := hs.water.ht
  refine ⟨fun hg hm => ?_, fun hg hm => ?_, fun hg => ?_⟩
  · simp only [DayIn'.water, hg, FullTrace.water_g, FullTrace.water_p, FullTrace.water_d, FullTrace.water_r, FullTrace.water_i, FullTrace.water_f, FullTrace.water_c, FullTrace.water_e, FullTrace.water_t, FullTrace.water_w, FullTrace.water_rz] at hi
    have := irr_cum_step hi
    simp only [dayResultOf, stateAfter, irrReportOf, irrReport, hg, hm, if_true, if_false]
    exact ⟨by first | rfl | trivial, this⟩
  · simp only [DayIn'.water, hg, hm, FullTrace.water_g, FullTrace.water_p, FullTrace.water_d, FullTrace.water_r, FullTrace.water_i, FullTrace.water_f, FullTrace.water_c, FullTrace.water_e, FullTrace.water_t, FullTrace.water_w, FullTrace.water_rz] at ht
    have := transp_irrNetCum_step ht
    simp only [dayTrState, DayState'.water] at this
    simp only [dayResultOf, stateAfter, irrReportOf, irrReport, hg, hm, if_true]
    refine ⟨by first | rfl | trivial, ?_⟩
    show X.t.st.irrNetCum + X.p.2 = st.irrNetCum + (X.t.irrNet + X.p.2)
    rw [this]; ring
  · simp only [dayResultOf, irrReportOf, irrReport, hg, Bool.false_eq_true, if_false]
    exact ⟨by first | rfl | trivial, by first | rfl | trivial⟩

/-- **off-season zeros of the rows** (C04/C05): outside a growing season transpiration, potential
transpiration and irrigation are zero, and so are days after planting, cumulative degree days,
rooting depth, canopy cover (actual and potential), biomass (actual and potential), both harvest
indices and all three yields; the daily degree days column holds the dummy 0.3 -/
theorem fullDay_offseason_zero (h : fullDay F T P st D = .ok r) (hg : D.gs = false) :
    (r.flux.tr = 0 ∧ r.flux.trPot = 0 ∧ r.flux.irrDay = 0 ∧ r.flux.dap = 0) ∧
    (r.growth.dap = 0 ∧ r.growth.gdd = 0.3 ∧ r.growth.gddCum = 0 ∧ r.growth.zRoot = 0 ∧
      r.growth.cc = 0 ∧ r.growth.ccNS = 0 ∧ r.growth.biomass = 0 ∧ r.growth.biomassNS = 0 ∧
      r.growth.hi = 0 ∧ r.growth.hiAdj = 0 ∧ r.growth.dryYield = 0 ∧ r.growth.freshYield = 0 ∧
      r.growth.yieldPot = 0) ∧
    (r.state.germination = false ∧ r.state.delayedCds = 0 ∧ r.state.delayedGdds = 0 ∧
      r.state.growthStage = 0 ∧ r.state.hiRef = 0 ∧ r.state.ccAdj = 0 ∧ r.state.ccxAct = 0 ∧
      r.state.ccxW = 0 ∧ r.state.irrNetCum = r.water.preIrr ∧ r.state.rCor = st.rCor) := by
  obtain ⟨c1, c2, _, _, _, c6⟩ := fullDay_counters h
  obtain ⟨d0, d1, d2⟩ := c6 hg
  obtain ⟨w1, w2, w3, _, _, w6⟩ := waterDay_offseason (fullDay_water h) (show D.water.gs = false from hg)
  obtain ⟨_, _, _, _, _, _, e1, _, _, _, _, _, _, _, e9, e10⟩ := fullDay_rows h
  obtain ⟨X, hs, rfl⟩ := fullDay_ok' h
  have hrd := hs.hrd
  have hge := hs.hge
  have hgst := hs.hgst
  have hcc := hs.hcc
  have hhr := hs.hhr
  have hb := hs.hbio
  have hhi := hs.hhi
  have hy := hs.hy
  have ht := hs.water.ht
  rw [hg] at hrd hge hgst hcc hhr hb hhi hy
  simp only [DayIn'.water, hg, FullTrace.water_g, FullTrace.water_p, FullTrace.water_d, FullTrace.water_r, FullTrace.water_i, FullTrace.water_f, FullTrace.water_c, FullTrace.water_e, FullTrace.water_t, FullTrace.water_w, FullTrace.water_rz] at ht
  obtain ⟨z0, z1⟩ := zroot_offseason hrd
  simp only [germination, Bool.false_eq_true, if_false] at hge
  rw [growthStage_offseason] at hgst
  obtain ⟨k1, k2, k3, k4⟩ := cc_offseason rfl hcc
  obtain ⟨m1, m2, _, _, _⟩ := cc_offseason_maxima rfl hcc
  rw [hiref_offseason] at hhr
  rw [biomass_offseason] at hb
  rw [hi_offseason] at hhi
  obtain ⟨_, _, _, _, _, t6⟩ := transp_offseason ht
  have hcc' : X.t.st.cc = 0 := by rw [t6]; exact k1
  have hge' := Except.ok.inj hge
  have hhi' := Except.ok.inj hhi
  have hb1 : X.bio.1 = 0 := by rw [hb]
  have hb2 : X.bio.2 = 0 := by rw [hb]
  have hh1 : X.hi.hi = 0 := by rw [← hhi']
  have hh2 : X.hi.hiAdj = 0 := by rw [← hhi']
  obtain ⟨y1, y2⟩ := yieldStep_offseason X.bio.2 X.bio.1 X.hi.hi X.hi.hiAdj P.cx.yldWC
  have y3 := yieldStep_pot X.bio.2 X.bio.1 X.hi.hi X.hi.hiAdj P.cx.yldWC false
  rw [← hy] at y1 y2 y3
  refine ⟨⟨?_, ?_, ?_, ?_⟩, ⟨d0, d1, d2, z0, hcc', k2, hb1, hb2, hh1, hh2, y1, y2, ?_⟩,
    ⟨?_, ?_, ?_, ?_, ?_, k3, m2, m1, ?_, z1⟩⟩
  · rw [e9]; exact w1
  · rw [e10]; exact w2
  · rw [e1]; exact w3
  · rw [c2]; exact d0
  · show X.y.yieldPot = 0
    rw [y3, hb2, hh1]; simp
  · show X.ge.s.germination = false
    rw [← hge']
  · show X.ge.s.delayedCds = 0
    rw [← hge']
  · show X.ge.s.delayedGdds = 0
    rw [← hge']
  · exact (Option.some.inj hgst).symm
  · show X.hr.hiRef = 0
    rw [hhr]
  · show (irrReportOf P D X).2.2 = X.p.2
    simp only [irrReportOf, irrReport, hg, Bool.false_eq_true, if_false]
    have : X.t.st.irrNetCum = 0 := by rw [t6]
    rw [this, zero_add]

end rows


/-! ## D. the crop-side envelope (C05) along one day

`CropInv F P st` — canopy (`CcInv`), roots (`RootInv`), harvest index (`HiInv`), biomass
(`BioInv`) — is preserved by every successful `fullDay` (`fullDay_cropInv`), under premises on the
parameters (`CcCropPre`, `RootPre`, `HiPre`, the water-productivity premises) and the explicit
hypotheses about the day that no one-day lemma establishes (listed at `fullDay_cropInv`). -/

theorem ccDie_ccPrev (s0 s : CcState α) : (ccDie s0 s).ccPrev = s.ccPrev := by
  unfold ccDie; split_ifs <;> rfl
theorem ccRaiseAct_ccPrev (s0 s : CcState α) : (ccRaiseAct s0 s).ccPrev = s.ccPrev := by
  unfold ccRaiseAct; split_ifs <;> rfl
theorem ccRaiseW_ccPrev (s0 s : CcState α) : (ccRaiseW s0 s).ccPrev = s.ccPrev := by
  unfold ccRaiseW; split_ifs <;> rfl
theorem ccPotential_ccPrev (F : Fn α) (crop : CcCrop α) (s0 s : CcState α) (dt t : α) :
    (ccPotential F crop s0 s dt t).ccPrev = s.ccPrev := by
  unfold ccPotential; simp only []; split_ifs <;> rfl
theorem ccGrowing_ccPrev (F : Fn α) (crop : CcCrop α) (s0 s : CcState α) (k dt t : α) :
    (ccGrowing F crop s0 s k dt t).1.ccPrev = s.ccPrev := by
  unfold ccGrowing; simp only []; split_ifs <;> rfl
theorem ccSmall_ccPrev (F : Fn α) (crop : CcCrop α) (s0 s : CcState α) (dt t : α) :
    (ccSmall F crop s0 s dt t).1.ccPrev = s.ccPrev := by
  unfold ccSmall; simp only []; split_ifs <;> rfl
theorem ccLate_ccPrev (F : Fn α) (crop : CcCrop α) (s : CcState α) (t : α) :
    (ccLate F crop s t).ccPrev = s.ccPrev := rfl
theorem ccActualB_ccPrev (F : Fn α) (crop : CcCrop α) (s0 s : CcState α) (k dt t : α) :
    (ccActualB F crop s0 s k dt t).1.ccPrev = s.ccPrev := by
  unfold ccActualB
  by_cases h1 : ccOutside F crop t
  · rw [if_pos h1]
  · rw [if_neg h1]
    by_cases h2 : t < crop.canopyDevEnd
    · rw [if_pos h2]
      simp only [ccRaiseAct_ccPrev]
      split_ifs
      · exact ccSmall_ccPrev F crop s0 s dt t
      · exact ccGrowing_ccPrev F crop s0 s k dt t
    · rw [if_neg h2]
      by_cases h3 : crop.canopyDevEnd < t
      · rw [if_pos h3]
        simp only [ccDie_ccPrev]
        by_cases h4 : t < crop.senescence
        · rw [if_pos h4]; simp only [ccRaiseAct_ccPrev]
        · rw [if_neg h4]; rfl
      · rw [if_neg h3]
theorem ccEarlySen_ccPrev (F : Fn α) (crop : CcCrop α) (s0 s : CcState α) (sen2 dt t : α) :
    (ccEarlySen F crop s0 s sen2 dt t).ccPrev = s.ccPrev := by
  unfold ccEarlySen; simp only [ccDie_ccPrev]; split_ifs <;> rfl
theorem ccSenStress_ccPrev (F : Fn α) (crop : CcCrop α) (s0 s : CcState α) (sen2 : α → α) (dt t : α) :
    (ccSenStress F crop s0 s sen2 dt t).ccPrev = s.ccPrev := by
  unfold ccSenStress; simp only [ccEarlySen_ccPrev]; split_ifs <;> rfl
theorem ccRewater_ccPrev (F : Fn α) (crop : CcCrop α) (s0 s : CcState α) (dt t : α) :
    (ccRewater F crop s0 s dt t).ccPrev = s.ccPrev := by
  unfold ccRewater; simp only [ccDie_ccPrev]
theorem ccSenNoStress_ccPrev (F : Fn α) (crop : CcCrop α) (s0 s : CcState α) (dt t : α) :
    (ccSenNoStress F crop s0 s dt t).ccPrev = s.ccPrev := by
  unfold ccSenNoStress; simp only []; split_ifs
  · simp only [ccRewater_ccPrev]
  · rfl
theorem ccSenescence_ccPrev (F : Fn α) (crop : CcCrop α) (s0 s : CcState α) (k : α) (sen2 : α → α)
    (dt t : α) : (ccSenescence F crop s0 s k sen2 dt t).ccPrev = s.ccPrev := by
  unfold ccSenescence
  split_ifs
  · simp only [ccRaiseW_ccPrev, ccSenStress_ccPrev]
  · simp only [ccRaiseW_ccPrev, ccSenNoStress_ccPrev]
  · rfl
  · rfl
theorem ccFixup_ccPrev (crop : CcCrop α) (s : CcState α) (t : α) : (ccFixup crop s t).ccPrev = s.ccPrev := by
  unfold ccFixup; simp only []; split_ifs <;> rfl
theorem ccSeason_ccPrev (F : Fn α) (crop : CcCrop α) (s0 : CcState α) (dr taw et0 dt t : α) :
    (ccSeason F crop s0 dr taw et0 dt t).ccPrev = s0.cc := by
  unfold ccSeason
  simp only [ccMicroAdv, ccFixup_ccPrev, ccSenescence_ccPrev, ccActualB_ccPrev, ccPotential_ccPrev]

theorem trRatioOf_range (a b : α) : 0 ≤ trRatioOf a b ∧ trRatioOf a b ≤ 1 := by
  unfold trRatioOf
  simp only []
  split_ifs <;> constructor <;> linarith

/-- what `transpiration` does to the canopy cover (the feedback `cc := cc_prev` when the canopy
grew by more than 0.005 although nothing was transpired) and to the transpiration ratio -/
theorem transp_cc_trRatio {F : Fn α} {cells : List (Cell α)} {nComp : Nat} {zTop : α}
    {crop : TrCrop α} {m : Nat} {smt : α} {st : TrState α} {et0 cur ref gdd : α} {gs : Bool}
    {out : TrOut α}
    (h : transpiration F cells nComp zTop crop m smt st et0 cur ref gs gdd = .ok out) :
    (out.st.cc = st.cc ∨ (out.st.cc = st.ccPrev ∧ 0.005 < st.cc - st.ccPrev)) ∧
    (gs = false → out.st.trRatio = st.trRatio) ∧
    (gs = true → 0 ≤ out.st.trRatio ∧ out.st.trRatio ≤ 1) := by
  cases gs with
  | false =>
    simp only [transpiration, Bool.false_eq_true, if_false, Except.ok.injEq] at h
    subst h
    exact ⟨Or.inl rfl, fun _ => rfl, fun hh => by cases hh⟩
  | true =>
    obtain ⟨pot, sf, rz, hpot, hsf, hrz, hcore⟩ := transp_ok_inv h
    obtain ⟨ni, hlen, hni, rfl⟩ := trCore_ok_inv hcore
    refine ⟨?_, fun hh => (by cases hh), fun _ => ?_⟩
    · simp only [trFinish]
      split_ifs with hc
      · exact Or.inr ⟨rfl, hc.1⟩
      · exact Or.inl rfl
    · simp only [trFinish]
      exact trRatioOf_range _ _

theorem canopyCover_ccPrev {F : Fn α} {crop : CcCrop α} {cells : List (Cell α)} {zTop : α}
    {st out : CcState α} {gdd et0 : α} {gs : Bool}
    (h : canopyCover F crop cells zTop st gdd et0 gs = .ok out) : out.ccPrev = st.cc := by
  cases gs with
  | false => exact (cc_offseason_maxima rfl h).2.2.2.2
  | true =>
    obtain ⟨dr, taw, dt, t, _, rfl⟩ := canopyCover_season h
    exact ccSeason_ccPrev F crop st dr taw et0 dt t

/-- the canopy part of the crop envelope -/
structure CcInv (crop : CcCrop α) (st : DayState' α) : Prop where
  cc0 : 0 ≤ st.cc
  cc_ns : st.cc ≤ st.ccNS
  ns_le : st.ccNS ≤ crop.ccx
  adj0 : 0 ≤ st.cc0Adj
  adj1 : st.cc0Adj ≤ crop.cc0
  act : st.ccxAct ≤ crop.ccx
  actNS : st.ccxActNS ≤ crop.ccx
  ccAdj : st.ccAdj ≤ 1
  ccAdjNS : st.ccAdjNS ≤ 1

/-- premises on the parameters for the canopy envelope -/
structure CcCropPre (F : Fn α) (P : DayParams α) : Prop where
  exp : ExpOrdLaws F
  ccx0 : 0 ≤ P.cx.cc.ccx
  temp : P.cx.tbase ≤ P.cx.tupp
  /-- `CcParams` (`0 ≤ CC0`, `0 ≤ CDC`, `CC0·exp(CGC·dt) ≤ CCx`) for the time steps that occur:
  one day, or a day's growing degree days -/
  step : ∀ dt, (P.cx.cc.calendarType = 1 → dt = 1) →
    (P.cx.cc.calendarType = 2 → 0 ≤ dt ∧ dt ≤ P.cx.tupp - P.cx.tbase) → CcParams F P.cx.cc dt

/-- the late-season rewatering branch of `canopy_cover` runs on this day (the one path that
assigns `ccx_act := CCXadj` of `update_CCx_CDC` without a bound) -/
def Rewatering (P : DayParams α) (st : DayState' α) (D : DayIn' α) (X : FullTrace α) : Prop :=
  D.gs = true ∧ ∃ dt t, ccTime P.cx.cc (ccStateOf st X.tc X.rd X.ge) X.tc.gdd = some (dt, t) ∧
    P.cx.cc.senescence < t ∧ 0 < st.tEarlySen

section
variable {F : Fn α} {T : TrigFn α} {P : DayParams α} {st : DayState' α} {D : DayIn' α}
  {r : DayResult α}

theorem fullDay_ccInv (h : fullDay F T P st D = .ok r) (hc : CcCropPre F P)
    (hi : CcInv P.cx.cc st)
    (hrw : Rewatering P st D r.trace → r.state.ccxAct ≤ P.cx.cc.ccx) :
    CcInv P.cx.cc r.state := by
  obtain ⟨c1, c2, _, _, c5, c6⟩ := fullDay_counters h
  obtain ⟨X, hs, rfl⟩ := fullDay_ok' h
  have hcc := hs.hcc
  have ht := hs.water.ht
  simp only [FullTrace.water_t, FullTrace.water_e, FullTrace.water_r, FullTrace.water_i] at ht
  obtain ⟨tcc, _, _⟩ := transp_cc_trRatio ht
  have hprev : X.cc.ccPrev = st.cc := canopyCover_ccPrev hcc
  have e1 : (dayTrState (X.cropDay P st) st.water X.e.pond X.r.daySub X.i.depletion X.i.taw).cc
      = X.cc.cc := rfl
  have e2 : (dayTrState (X.cropDay P st) st.water X.e.pond X.r.daySub X.i.depletion
      X.i.taw).ccPrev = X.cc.ccPrev := rfl
  rw [e1, e2, hprev] at tcc
  cases hg : D.gs with
  | false =>
    rw [hg] at hcc
    obtain ⟨k1, k2, k3, k4⟩ := cc_offseason rfl hcc
    obtain ⟨m1, m2, m3, m4, _⟩ := cc_offseason_maxima rfl hcc
    have hadj : X.cc.cc0Adj = st.cc0Adj := by
      rw [canopyCover_offseason] at hcc
      rw [← Except.ok.inj hcc]; rfl
    have hcc0 : X.t.st.cc = 0 := by
      rcases tcc with e | ⟨e, hlt⟩
      · rw [e, k1]
      · rw [k1] at hlt
        have := hi.cc0
        exfalso; linarith
    refine ⟨?_, ?_, ?_, ?_, ?_, ?_, ?_, ?_, ?_⟩
    · show 0 ≤ X.t.st.cc; rw [hcc0]
    · show X.t.st.cc ≤ X.cc.ccNS; rw [hcc0, k2]
    · show X.cc.ccNS ≤ _; rw [k2]; exact hc.ccx0
    · show 0 ≤ X.cc.cc0Adj; rw [hadj]; exact hi.adj0
    · show X.cc.cc0Adj ≤ _; rw [hadj]; exact hi.adj1
    · show X.cc.ccxAct ≤ _; rw [m2]; exact hc.ccx0
    · show X.cc.ccxActNS ≤ _; rw [m4]; exact hc.ccx0
    · show X.cc.ccAdj ≤ 1; rw [k3]; exact zero_le_one
    · show X.cc.ccAdjNS ≤ 1; rw [k4]; exact zero_le_one
  | true =>
    rw [hg] at hcc
    obtain ⟨_, hgd, _⟩ := c5 hg
    have hgd' : growingDegreeDay P.cx.gddMethod P.cx.tupp P.cx.tbase D.tmax D.tmin
        = some X.tc.gdd := hgd
    obtain ⟨g0, g1⟩ := gdd_range hc.temp hgd'
    have hp : CcParamsFor F P.cx.cc (ccStateOf st X.tc X.rd X.ge) X.tc.gdd :=
      ccParamsFor_of _
        (fun h1 => hc.step 1 (fun _ => rfl) (fun h2 => by rw [h1] at h2; cases h2))
        (fun h2 => hc.step _ (fun h1 => by rw [h2] at h1; cases h1) (fun _ => ⟨g0, g1⟩))
    have hpre : CcPre P.cx.cc (ccStateOf st X.tc X.rd X.ge) :=
      ⟨hi.cc0, le_trans hi.cc_ns hi.ns_le, hi.adj0, hi.adj1⟩
    have hx : (ccStateOf st X.tc X.rd X.ge).ccxAct ≤ P.cx.cc.ccx := hi.act
    have hns : NsRng P.cx.cc (ccStateOf st X.tc X.rd X.ge) :=
      ⟨le_trans hi.cc0 hi.cc_ns, hi.ns_le, hi.actNS⟩
    obtain ⟨r0, r1, r2, r3⟩ := cc_range hc.exp hp hpre hx hcc
    obtain ⟨n0, n1, n2⟩ := ccns_range hc.exp hp hpre hx hns hcc
    have hle := cc_le_ns hcc
    obtain ⟨a1, a2⟩ := ccadj_le_one hcc
    have hact : X.cc.ccxAct ≤ P.cx.cc.ccx := by
      by_cases hR : Rewatering P st D X
      · exact hrw hR
      · apply ccxact_le_of_no_rewatering hc.exp hp hpre hx _ hcc
        intro dt t htt hbad
        exact hR ⟨hg, dt, t, htt, hbad.1, hbad.2⟩
    refine ⟨?_, ?_, n1, r2, r3, hact, n2, a1, a2⟩
    · show 0 ≤ X.t.st.cc
      rcases tcc with e | ⟨e, _⟩
      · rw [e]; exact r0
      · rw [e]; exact hi.cc0
    · show X.t.st.cc ≤ X.cc.ccNS
      rcases tcc with e | ⟨e, hlt⟩
      · rw [e]; exact hle
      · rw [e]; linarith

end

/-- layers as a function of the compartments only -/
def layerOfC (i : Nat) (cs : List (Comp α)) : Lay α :=
  let sel := cs.filter (fun c => c.layer == i)
  (npSum (sel.map (·.dz)), sel.head?.map (·.pen))

theorem layerOf_eq_C (i : Nat) (cells : List (Cell α)) :
    layerOf i cells = layerOfC i (cells.map (·.c)) := by
  unfold layerOf layerOfC
  simp only [List.filter_map, List.map_map, List.head?_map, Option.map_map]
  rfl

theorem layersOf_congr {xs ys : List (Cell α)} (h : ys.map (·.c) = xs.map (·.c)) :
    layersOf ys = layersOf xs := by
  unfold layersOf nLayers
  have e1 : ys.map (·.c.layer) = xs.map (·.c.layer) := by
    have := congrArg (List.map (·.layer)) h
    rw [List.map_map, List.map_map] at this
    exact this
  rw [e1]
  apply List.map_congr_left
  intro k _
  rw [layerOf_eq_C, layerOf_eq_C, h]

theorem natNum_succ (n : Nat) : (natNum (n + 1) : α) = natNum n + 1 := rfl

theorem natNum_succ_eq_one_iff (n : Nat) : ((natNum (n + 1) : α) ≤ 1 ∧ 1 ≤ (natNum (n + 1) : α)) ↔ n = 0 := by
  constructor
  · intro ⟨h, _⟩
    by_contra hn
    have := natNum_pos (α := α) hn
    rw [natNum_succ] at h
    linarith
  · rintro rfl
    simp [natNum]

theorem rdGwCap_zmin (C : RdCrop α) (wt : Nat) (zGW : α) : (rdGwCap C wt zGW C.zmin).1 = C.zmin := by
  unfold rdGwCap
  split_ifs <;> first | rfl | (exfalso; linarith)

/-- the root part of the crop envelope: transpiration ratio in `[0,1]`; in season (`dap ≠ 0`)
`Zmin ≤ z_root ≤ Zmax`, the roots of a crop that has not germinated are at `Zmin`, those of a
germinated crop satisfy `RdInv` (not deeper than the layer-limited potential depth) at the
adjusted time of the day -/
structure RootInv (F : Fn α) (P : DayParams α) (st : DayState' α) : Prop where
  tr0 : 0 ≤ st.trRatio
  tr1 : st.trRatio ≤ 1
  season : st.dap ≠ 0 →
    P.cx.rd.zmin ≤ st.zRoot ∧ st.zRoot ≤ P.cx.rd.zmax ∧
    (st.germination = false → st.zRoot = P.cx.rd.zmin) ∧
    (st.germination = true → RdInv F P.cx.rd (layersOf st.cells) st.zRoot
      (rdTAdj P.cx.rd (natNum st.dap) st.delayedCds st.gddCum st.delayedGdds))

/-- premises on parameters and profile for the root envelope -/
structure RootPre (F : Fn α) (P : DayParams α) (cells : List (Cell α)) : Prop where
  pow : PowLaws F
  exp : ExpOrdLaws F
  crop : P.cx.rd.WF
  temp : P.cx.tbase ≤ P.cx.tupp
  pUp1 : P.cx.rd.pUp1 < 1
  fw1 : P.cx.rd.fshapeW1 ≠ 0
  skip : SkipOK F P.cx.rd.zmin
  cells : ∀ x ∈ cells, 0 < x.c.dz ∧ 0 ≤ x.c.pen ∧ x.c.pen ≤ 100 ∧ x.c.thWP < x.c.thFC

section
variable {F : Fn α} {T : TrigFn α} {P : DayParams α} {st : DayState' α} {D : DayIn' α}
  {r : DayResult α}

theorem fullDay_rootInv (h : fullDay F T P st D = .ok r) (hp : RootPre F P st.cells)
    (hi : RootInv F P st) : RootInv F P r.state := by
  obtain ⟨c1, c2, _, _, c5, c6⟩ := fullDay_counters h
  have hcomps := fullDay_comps h (fun x hx => (hp.cells x hx).1)
  obtain ⟨X, hs, rfl⟩ := fullDay_ok' h
  have hrd := hs.hrd
  have hge := hs.hge
  have ht := hs.water.ht
  simp only [FullTrace.water_t, FullTrace.water_e, FullTrace.water_r, FullTrace.water_i] at ht
  obtain ⟨_, t2, t3⟩ := transp_cc_trRatio ht
  have etr : (dayTrState (X.cropDay P st) st.water X.e.pond X.r.daySub X.i.depletion
      X.i.taw).trRatio = st.trRatio := rfl
  rw [etr] at t2
  have hgc : X.g.cells.map (·.c) = st.cells.map (·.c) :=
    map_eq_of_forall₂ (·.c) (checkGroundwaterTable_frame F st.cells _ _ _ hs.water.hg)
      (fun x y h => h.1)
  have hlg : layersOf X.g.cells = layersOf st.cells := layersOf_congr hgc
  have hlr : layersOf (stateAfter P st D X).cells = layersOf st.cells := layersOf_congr hcomps
  refine ⟨?_, ?_, ?_⟩
  · show 0 ≤ X.t.st.trRatio
    cases hg : D.gs with
    | false => rw [t2 hg]; exact hi.tr0
    | true => exact (t3 hg).1
  · show X.t.st.trRatio ≤ 1
    cases hg : D.gs with
    | false => rw [t2 hg]; exact hi.tr1
    | true => exact (t3 hg).2
  · intro hdap
    have hdap' : X.tc.dap ≠ 0 := hdap
    have hg : D.gs = true := by
      cases hg : D.gs with
      | true => rfl
      | false => exact absurd (c6 hg).1 hdap'
    obtain ⟨d1, hgd, d3⟩ := c5 hg
    have d1' : X.tc.dap = st.dap + 1 := d1
    have hgd' : growingDegreeDay P.cx.gddMethod P.cx.tupp P.cx.tbase D.tmax D.tmin
        = some X.tc.gdd := hgd
    have d3' : X.tc.gddCum = st.gddCum + X.tc.gdd := d3
    obtain ⟨g0, g1⟩ := gdd_range hp.temp hgd'
    rw [hg, d1', d3'] at hrd
    rw [hg] at hge
    have hcg : ∀ x ∈ X.g.cells, 0 < x.c.dz ∧ 0 ≤ x.c.pen ∧ x.c.pen ≤ 100 ∧ x.c.thWP < x.c.thFC :=
      forall_of_map_eq (·.c) hgc
        (fun c => 0 < c.dz ∧ 0 ≤ c.pen ∧ c.pen ≤ 100 ∧ c.thWP < c.thFC) hp.cells
    have H : RdHyp F P.cx.rd X.g.cells st.trRatio X.tc.gdd :=
      { pow := hp.pow, exp := hp.exp, crop := hp.crop,
        lays := laysNN_layersOf (fun x hx => ⟨(hcg x hx).1.le, (hcg x hx).2.1⟩),
        tr0 := hi.tr0, tr1 := hi.tr1, gdd0 := g0, pUp1 := hp.pUp1, fw1 := hp.fw1,
        cellsWF := fun x hx => (hcg x hx).2.2.2 }
    have hl1 : LaysLe100 (layersOf X.g.cells) :=
      laysLe100_layersOf (fun x hx => (hcg x hx).2.2.1)
    -- the depth the day starts from
    have hzi : zInitOf P.cx.rd (natNum (st.dap + 1)) st.zRoot =
        if st.dap = 0 then P.cx.rd.zmin else st.zRoot := by
      unfold zInitOf
      by_cases h0 : st.dap = 0
      · rw [if_pos ((natNum_succ_eq_one_iff st.dap).mpr h0), if_pos h0]
      · rw [if_neg (fun hh => h0 ((natNum_succ_eq_one_iff st.dap).mp hh)), if_neg h0]
    have hz : P.cx.rd.zmin ≤ zInitOf P.cx.rd (natNum (st.dap + 1)) st.zRoot := by
      rw [hzi]
      split_ifs with h0
      · exact le_refl _
      · exact (hi.season h0).1
    have hzmin_case : (st.dap = 0 ∨ st.germination = false) →
        zInitOf P.cx.rd (natNum (st.dap + 1)) st.zRoot = P.cx.rd.zmin := by
      intro hc
      rw [hzi]
      split_ifs with h0
      · rfl
      · rcases hc with hc | hc
        · exact absurd hc h0
        · exact (hi.season h0).2.2.1 hc
    have hinv : RdInv F P.cx.rd (layersOf X.g.cells)
        (zInitOf P.cx.rd (natNum (st.dap + 1)) st.zRoot)
        (rdTOld P.cx.rd (natNum (st.dap + 1)) st.delayedCds (st.gddCum + X.tc.gdd) st.delayedGdds
          X.tc.gdd) := by
      by_cases hc : st.dap = 0 ∨ st.germination = false
      · rw [hzmin_case hc]
        exact rdInv_zmin H.lays hp.skip _
      · have h0 : st.dap ≠ 0 := fun hh => hc (Or.inl hh)
        have hgm : st.germination = true := by
          cases hgm : st.germination with
          | true => rfl
          | false => exact absurd (Or.inr hgm) hc
        rw [hzi, if_neg h0, hlg]
        have := (hi.season h0).2.2.2 hgm
        have et : rdTOld P.cx.rd (natNum (st.dap + 1)) st.delayedCds (st.gddCum + X.tc.gdd)
            st.delayedGdds X.tc.gdd =
            rdTAdj P.cx.rd (natNum st.dap) st.delayedCds st.gddCum st.delayedGdds := by
          unfold rdTOld rdTAdj
          rw [natNum_succ]
          split_ifs <;> ring
        rw [et]; exact this
    have hge_z := zroot_ge_zmin H hrd hz
    obtain ⟨hle, _, hinv'⟩ := zroot_le_zmax H hl1 hp.skip hrd hinv hz
    refine ⟨hge_z, hle, fun hgf => ?_, fun hgt => ?_⟩
    · -- not germinated after today: not germinated before, the roots stay at `Zmin`
      have hgf' : X.ge.s.germination = false := hgf
      have hsg : st.germination = false := by
        cases hsg : st.germination with
        | false => rfl
        | true =>
          have := (germination_season_facts g0 hge).2.2.1 (by exact hsg)
          rw [hgf'] at this; cases this
      rw [hsg] at hrd
      obtain ⟨_, ez⟩ := zroot_no_germination hrd
      show X.rd.zRoot = _
      rw [ez, hzmin_case (Or.inr hsg), rdGwCap_zmin]
    · -- germinated: the delay counters did not move today
      have hgt' : X.ge.s.germination = true := hgt
      have hdel : X.ge.s.delayedCds = st.delayedCds ∧ X.ge.s.delayedGdds = st.delayedGdds := by
        cases hsg : st.germination with
        | true =>
          obtain ⟨o, ho, hso⟩ := germination_already F P.zGerm X.c.cells P.cx.germThr P.cx.sown
            X.tc.gdd (s := st.germ) hsg
          rw [ho] at hge
          rw [← Except.ok.inj hge, hso]; exact ⟨rfl, rfl⟩
        | false =>
          rcases germination_step (s := st.germ) hsg hge with ⟨_, _, c, d, _⟩ | ⟨a, _⟩
          · exact ⟨c, d⟩
          · rw [hgt'] at a; cases a
      show RdInv F P.cx.rd (layersOf (stateAfter P st D X).cells) X.rd.zRoot
        (rdTAdj P.cx.rd (natNum X.tc.dap) X.ge.s.delayedCds X.tc.gddCum X.ge.s.delayedGdds)
      rw [hlr, ← hlg, hdel.1, hdel.2, d1', d3']
      exact hinv'

end

/-- the harvest-index part of the crop envelope -/
structure HiInv (F : Fn α) (P : DayParams α) (st : DayState' α) : Prop where
  fPre : 0 ≤ st.fPre
  fPost : 0 ≤ st.fPost
  sCor1 : 0 ≤ st.sCor1
  sCor2 : 0 ≤ st.sCor2
  upp : 0 ≤ st.fpostUpp
  dwn : 0 ≤ st.fpostDwn
  hi_le : st.hi ≤ P.cx.hi.hi0
  adj_le : st.hiAdj ≤ (1 + P.cx.hi.dHI0 / 100) * st.hi
  fin0 : 0 ≤ st.hiFinal
  /-- the harvest index is below every later reference harvest index of the season -/
  fut : ∀ r' : HiRefIn α, natNum st.dap - st.delayedCds ≤ r'.dap - r'.delayedCDs →
    st.hiFinal ≤ r'.hiFinal → st.hi ≤ (hiRefCurrentDay F P.cx.hi r' true).hiRef

/-- premises on parameters for the harvest-index envelope -/
structure HiPre (F : Fn α) (T : TrigFn α) (P : DayParams α) (D : DayIn' α) : Prop where
  exp : ExpOrdLaws F
  sin : SinLaw T
  pow : PowNonneg F
  post : P.cx.hi.PostOK
  build : P.cx.hi.BuildUp
  temp : P.cx.tbase ≤ P.cx.tupp
  /-- the water-stress thresholds as used are ordered (premise of `waterStress_range`) -/
  ord : ∀ tes i, wsUp F P.cx.hik.pUp P.cx.hik.etAdj P.cx.hik.beta tes D.et0 true i ≤
    wsLo F P.cx.hik.pLo P.cx.hik.etAdj D.et0 i
  fsh : ∀ i : Fin 4, i.val < 3 → P.cx.hik.fshapeW i ≠ 0
  cap : 0 ≤ 1 + P.cx.hi.dHI0 / 100
  leafy : P.cx.hi.cropType = 1 → 0 ≤ P.cx.hi.dHI0

section
variable {F : Fn α} {T : TrigFn α} {P : DayParams α} {st : DayState' α} {D : DayIn' α}
  {r : DayResult α}

theorem germination_delay_le_one {F : Fn α} {s : GermState α} {zGerm : α} {cells : List (Cell α)}
    {germThr : α} {sown : Bool} {gdd : α} {out : GermOut α}
    (h : germination F s zGerm cells germThr sown gdd true = .ok out) :
    out.s.delayedCds ≤ s.delayedCds + 1 := by
  cases hsg : s.germination with
  | true =>
    obtain ⟨o, ho, hso⟩ := germination_already F zGerm cells germThr sown gdd hsg
    rw [ho] at h
    rw [← Except.ok.inj h, hso]; linarith
  | false =>
    rcases germination_step hsg h with ⟨_, _, c, _, _⟩ | ⟨_, _, c, _, _⟩
    · rw [c]; linarith
    · rw [c]

/-- **the harvest-index envelope is preserved by one day**; moreover the day ends with
`harvest_index ≤ HI0`, `harvest_index_adj ≤ (1 + dHI0/100)·HI0`, and within a season the harvest
index does not decrease -/
theorem fullDay_hiInv (h : fullDay F T P st D = .ok r) (hp : HiPre F T P D)
    (hi : HiInv F P st) :
    HiInv F P r.state ∧ r.state.hi ≤ r.state.hiRef ∧ 0 ≤ r.state.hiRef ∧
      r.state.hiRef ≤ P.cx.hi.hi0 ∧
      r.state.hiAdj ≤ (1 + P.cx.hi.dHI0 / 100) * P.cx.hi.hi0 ∧
      (D.gs = true → st.hi ≤ r.state.hi) := by
  obtain ⟨c1, c2, _, _, c5, c6⟩ := fullDay_counters h
  obtain ⟨X, hs, rfl⟩ := fullDay_ok' h
  have hhr := hs.hhr
  have hhi := hs.hhi
  have hge := hs.hge
  have hb := hp.build
  have h0 : 0 ≤ P.cx.hi.hi0 := (lt_trans hb.ini_pos hb.ini_lt).le
  have hini : -0.004 ≤ P.cx.hi.hiIni := by have := hb.ini_pos; linarith
  set rin := hiRefInOf st X.tc X.ge X.cc X.t with hrin
  have hfin : rin.hiFinal = st.hiFinal := rfl
  have href : 0 ≤ X.hr.hiRef := by
    rw [hhr]; exact hiref_nonneg F _ rin D.gs h0 hini (by rw [hfin]; exact hi.fin0)
  have href' : X.hr.hiRef ≤ P.cx.hi.hi0 := by
    rw [hhr]; exact hiref_le_hi0 F _ rin D.gs h0
  set s0 := hiStateOf st X.tc X.rd X.ge X.cc X.t X.hr X.bio with hs0
  have hsNN : s0.NN := ⟨hi.fPre, hi.fPost, hi.sCor1, hi.sCor2, hi.upp, hi.dwn⟩
  have hprev : s0.hi ≤ P.cx.hi.hi0 := hi.hi_le
  obtain ⟨oNN, o1, o2, o3⟩ := harvestIndex_c05 hp.exp hp.sin hp.pow hp.post hhi
    (hp.ord _) hp.fsh h0 hp.cap hp.leafy href href' hsNN hprev hi.adj_le
  have hst := hi_stored hhi
  -- in season: time does not go back
  have htime : D.gs = true →
      natNum st.dap - st.delayedCds ≤ rin.dap - rin.delayedCDs := by
    intro hg
    obtain ⟨d1, _, _⟩ := c5 hg
    have d1' : X.tc.dap = st.dap + 1 := d1
    rw [hg] at hge
    have := germination_delay_le_one hge
    show natNum st.dap - st.delayedCds ≤ natNum X.tc.dap - X.ge.s.delayedCds
    rw [d1', natNum_succ]
    have e : st.germ.delayedCds = st.delayedCds := rfl
    rw [e] at this
    linarith
  have hrefS : D.gs = true → X.hr.hiRef = (hiRefCurrentDay F P.cx.hi rin true).hiRef := by
    intro hg; rw [hhr, hg]
  have hold : D.gs = true → st.hi ≤ X.hr.hiRef := by
    intro hg
    rw [hrefS hg]
    exact hi.fut rin (htime hg) (le_of_eq hfin.symm)
  have hle_ref : X.hi.hi ≤ X.hr.hiRef := by
    rw [hst]
    cases hg : D.gs with
    | false => simpa using href
    | true =>
      simp only [if_true]
      split_ifs
      · exact le_refl _
      · exact hold hg
  have hmono : D.gs = true → st.hi ≤ X.hi.hi := by
    intro hg
    rw [hst, hg]
    simp only [if_true]
    split_ifs
    · exact hold hg
    · exact le_refl _
  refine ⟨⟨oNN.fPre, oNN.fPost, oNN.sCor1, oNN.sCor2, oNN.upp, oNN.dwn, o1, o2,
    hi.fin0, ?_⟩, hle_ref, href, href', o3, hmono⟩
  intro q htq hfq
  have hfq' : st.hiFinal ≤ q.hiFinal := hfq
  have htq' : natNum X.tc.dap - X.ge.s.delayedCds ≤ q.dap - q.delayedCDs := htq
  show X.hi.hi ≤ _
  rw [hst]
  cases hg : D.gs with
  | false =>
    simp only [Bool.false_eq_true, if_false]
    exact hiref_nonneg F _ q true h0 hini (le_trans hi.fin0 hfq')
  | true =>
    simp only [if_true]
    split_ifs
    · show X.hr.hiRef ≤ _
      rw [hrefS hg]
      exact hiref_mono hp.exp _ hb rin q htq' (by rw [hfin]; exact hfq')
        (by rw [hfin]; exact hi.fin0)
    · exact hi.fut q (le_trans (htime hg) htq') hfq'

end

/-- the adjusted water productivity is non-negative: `BioSwitchOK` is needed only once the
reference harvest index is positive (before, `WPadj = WP·fCO2`) -/
theorem bioWPadj_nonneg (crop : BioCrop α) (dap dcd hiRef pctLag : α)
    (hy0 : 0 ≤ crop.wpy) (hy1 : crop.wpy ≤ 100) (hw : 0 ≤ crop.wp * crop.fco2)
    (hsw : 0 < hiRef → BioSwitchOK crop dap dcd pctLag) :
    0 ≤ bioWPadj crop dap dcd hiRef pctLag := by
  by_cases hc : (crop.cropType = 2 ∨ crop.cropType = 3) ∧ 0 < hiRef
  · obtain ⟨l, _⟩ := bioWPadj_bounds crop dap dcd hiRef pctLag hy0 hy1 hw (hsw hc.2)
    have : 0 ≤ crop.wp * crop.fco2 * (crop.wpy / 100) :=
      mul_nonneg hw (div_nonneg hy0 (by norm_num))
    linarith
  · unfold bioWPadj bioWPadj0
    rw [if_neg hc]; exact hw

/-- the biomass part of the crop envelope -/
structure BioInv (st : DayState' α) : Prop where
  b0 : 0 ≤ st.biomass
  b_le : st.biomass ≤ st.biomassNS

section
variable {F : Fn α} {T : TrigFn α} {P : DayParams α} {st : DayState' α} {D : DayIn' α}
  {r : DayResult α}

/-- **biomass**: `0 ≤ B ≤ B_NS` is preserved, and within a season neither decreases.  Explicit
hypotheses about the day (not derived here): once the reference harvest index is positive the
yield-formation switch is in `[0,1]` (`BioSwitchOK`); reported transpiration is non-negative and
not above the potential no-stress transpiration; `ET0 > 0`. -/
theorem fullDay_bioInv (h : fullDay F T P st D = .ok r) (hi : BioInv st)
    (hy0 : 0 ≤ P.cx.bio.wpy) (hy1 : P.cx.bio.wpy ≤ 100) (hw : 0 ≤ P.cx.bio.wp * P.cx.bio.fco2)
    (hsw : D.gs = true → 0 < r.state.hiRef →
      BioSwitchOK P.cx.bio (natNum r.growth.dap) r.state.delayedCds r.state.pctLagPhase)
    (htr : D.gs = true → 0 ≤ r.flux.tr ∧ r.flux.tr ≤ r.water.trPotNS)
    (het : D.gs = true → 0 < D.et0) :
    BioInv r.state ∧
      (D.gs = true → st.biomass ≤ r.state.biomass ∧ st.biomassNS ≤ r.state.biomassNS) := by
  obtain ⟨_, hy, _⟩ := fullDay_yields h
  cases hg : D.gs with
  | false =>
    obtain ⟨_, ⟨_, _, _, _, _, _, b1, b2, _⟩, _⟩ := fullDay_offseason_zero h hg
    obtain ⟨_, _, _, e4, e5, _⟩ := (fullDay_yields h).2.2
    refine ⟨⟨by rw [e4, b1], by rw [e4, e5, b1, b2]⟩, fun hh => by cases hh⟩
  | true =>
    obtain ⟨_, _, e1, e2⟩ := hy hg
    obtain ⟨_, _, _, e4, e5, _⟩ := (fullDay_yields h).2.2
    obtain ⟨t0, t1⟩ := htr hg
    have he := het hg
    have hW := bioWPadj_nonneg P.cx.bio (natNum r.growth.dap) r.state.delayedCds r.state.hiRef
      r.state.pctLagPhase hy0 hy1 hw (hsw hg)
    have q1 : 0 ≤ r.flux.tr / D.et0 := div_nonneg t0 he.le
    have q2 : r.flux.tr / D.et0 ≤ r.water.trPotNS / D.et0 :=
      div_le_div_of_nonneg_right t1 he.le
    have q3 : 0 ≤ r.water.trPotNS / D.et0 := le_trans q1 q2
    have m1 := mul_nonneg hW q1
    have m2 := mul_le_mul_of_nonneg_left q2 hW
    have m3 := mul_nonneg hW q3
    refine ⟨⟨?_, ?_⟩, fun _ => ⟨?_, ?_⟩⟩
    · rw [e4, e1]; linarith [hi.b0]
    · rw [e4, e5, e1, e2]; linarith [hi.b_le]
    · rw [e4, e1]; linarith
    · rw [e5, e2]; linarith

/-- **growing degree days**: in season the day's degree days lie in `[0, Tupp − Tbase]`, are what
`growing_degree_day` returns, add up to the cumulative value, which therefore does not decrease -/
theorem fullDay_gdd (h : fullDay F T P st D = .ok r) (hg : D.gs = true)
    (ht : P.cx.tbase ≤ P.cx.tupp) :
    0 ≤ r.growth.gdd ∧ r.growth.gdd ≤ P.cx.tupp - P.cx.tbase ∧
      r.growth.gddCum = st.gddCum + r.growth.gdd ∧ st.gddCum ≤ r.growth.gddCum := by
  obtain ⟨_, _, _, _, c5, _⟩ := fullDay_counters h
  obtain ⟨_, hgd, d3⟩ := c5 hg
  obtain ⟨g0, g1⟩ := gdd_range ht hgd
  exact ⟨g0, g1, d3, by rw [d3]; linarith⟩

end

/-- the crop-side envelope of C05 as one predicate on the state -/
structure CropInv (F : Fn α) (P : DayParams α) (st : DayState' α) : Prop where
  cc : CcInv P.cx.cc st
  root : RootInv F P st
  hi : HiInv F P st
  bio : BioInv st

/-- what `CropInv` says, spelled out -/
theorem CropInv.envelope {F : Fn α} {P : DayParams α} {st : DayState' α} (h : CropInv F P st) :
    (0 ≤ st.cc ∧ st.cc ≤ st.ccNS ∧ st.ccNS ≤ P.cx.cc.ccx ∧ 0 ≤ st.cc0Adj ∧
      st.cc0Adj ≤ P.cx.cc.cc0 ∧ st.ccxAct ≤ P.cx.cc.ccx ∧ st.ccAdj ≤ 1) ∧
    (st.dap ≠ 0 → P.cx.rd.zmin ≤ st.zRoot ∧ st.zRoot ≤ P.cx.rd.zmax) ∧
    (st.hi ≤ P.cx.hi.hi0 ∧ st.hiAdj ≤ (1 + P.cx.hi.dHI0 / 100) * st.hi) ∧
    (0 ≤ st.biomass ∧ st.biomass ≤ st.biomassNS) :=
  ⟨⟨h.cc.cc0, h.cc.cc_ns, h.cc.ns_le, h.cc.adj0, h.cc.adj1, h.cc.act, h.cc.ccAdj⟩,
   fun hd => ⟨(h.root.season hd).1, (h.root.season hd).2.1⟩,
   ⟨h.hi.hi_le, h.hi.adj_le⟩, ⟨h.bio.b0, h.bio.b_le⟩⟩

section
variable {F : Fn α} {T : TrigFn α} {P : DayParams α} {st : DayState' α} {D : DayIn' α}
  {r : DayResult α}

/-- **`fullDay_cropInv`: one day preserves the crop envelope.**

Premises on parameters / laws: `CcCropPre` (canopy: `ExpOrdLaws`, `0 ≤ CCx`, `Tbase ≤ Tupp`,
`CcParams` for the day's time step), `RootPre` (roots: `PowLaws`, `ExpOrdLaws`, well-formed root
parameters, `SkipOK`, compartments with `0 < dz`, `0 ≤ Penetrability ≤ 100`, `th_wp < th_fc`),
`HiPre` (harvest index: `ExpOrdLaws`, `SinLaw`, `PowNonneg`, `PostOK`, `BuildUp`, ordered
water-stress thresholds, `0 ≤ 1 + dHI0/100`), `0 ≤ WPy ≤ 100`, `0 ≤ WP·fCO2`.

Explicit hypotheses about the day that the previous day's conclusion does not establish:
* `hrw` — on a day on which the late-season *rewatering* branch of `canopy_cover` runs, the
  `ccx_act := CCXadj` it assigns is at most `CCx` (every other path keeps `ccx_act ≤ CCx`);
* `hsw` — once the reference harvest index is positive the yield-formation switch of
  `biomass_accumulation` lies in `[0,1]` (`BioSwitchOK`);
* `htr` — in season reported transpiration is non-negative and not above the potential no-stress
  transpiration (`0 ≤ Tr` follows from `fullDay_tr_bounds` under `DayTrPre`; `Tr ≤ TrPot_NS` is
  not proved anywhere);
* `het` — in season `ET0 > 0`. -/
theorem fullDay_cropInv (h : fullDay F T P st D = .ok r) (hi : CropInv F P st)
    (hcc : CcCropPre F P) (hrt : RootPre F P st.cells) (hhi : HiPre F T P D)
    (hy0 : 0 ≤ P.cx.bio.wpy) (hy1 : P.cx.bio.wpy ≤ 100) (hw : 0 ≤ P.cx.bio.wp * P.cx.bio.fco2)
    (hrw : Rewatering P st D r.trace → r.state.ccxAct ≤ P.cx.cc.ccx)
    (hsw : D.gs = true → 0 < r.state.hiRef →
      BioSwitchOK P.cx.bio (natNum r.growth.dap) r.state.delayedCds r.state.pctLagPhase)
    (htr : D.gs = true → 0 ≤ r.flux.tr ∧ r.flux.tr ≤ r.water.trPotNS)
    (het : D.gs = true → 0 < D.et0) :
    CropInv F P r.state :=
  ⟨fullDay_ccInv h hcc hi.cc hrw, fullDay_rootInv h hrt hi.root, (fullDay_hiInv h hhi hi.hi).1,
   (fullDay_bioInv h hi.bio hy0 hy1 hw hsw htr het).1⟩

/-- what the day adds to the invariant: the C05 monotonicity / ordering statements -/
theorem fullDay_crop_progress (h : fullDay F T P st D = .ok r) (hi : CropInv F P st)
    (hhi : HiPre F T P D)
    (hy0 : 0 ≤ P.cx.bio.wpy) (hy1 : P.cx.bio.wpy ≤ 100) (hw : 0 ≤ P.cx.bio.wp * P.cx.bio.fco2)
    (hsw : D.gs = true → 0 < r.state.hiRef →
      BioSwitchOK P.cx.bio (natNum r.growth.dap) r.state.delayedCds r.state.pctLagPhase)
    (htr : D.gs = true → 0 ≤ r.flux.tr ∧ r.flux.tr ≤ r.water.trPotNS)
    (het : D.gs = true → 0 < D.et0) :
    r.state.hi ≤ r.state.hiRef ∧ r.state.hiRef ≤ P.cx.hi.hi0 ∧
      r.state.hiAdj ≤ (1 + P.cx.hi.dHI0 / 100) * P.cx.hi.hi0 ∧
      (D.gs = true → st.hi ≤ r.state.hi ∧ st.biomass ≤ r.state.biomass ∧
        st.biomassNS ≤ r.state.biomassNS) := by
  obtain ⟨_, a, _, b, c, d⟩ := fullDay_hiInv h hhi hi.hi
  obtain ⟨_, e⟩ := fullDay_bioInv h hi.bio hy0 hy1 hw hsw htr het
  exact ⟨a, b, c, fun hg => ⟨d hg, (e hg).1, (e hg).2⟩⟩

end


/-! ## Non-vacuity: a concrete full day over `ℚ`

The water side is the day of `Proofs/WaterDay.lean` (`DayExample`: water table at 1 m, 20 mm of
rain, 10 mm of irrigation); the crop side is a calendar-day fruit/grain crop on day 30 after
planting (canopy 0.8, roots at 0.25 m still deepening).  The day succeeds, the roots deepen, all
fluxes are positive, and the premises of `fullDay_closes` hold. -/

namespace FullDayExample
open DayExample

def Tq : TrigFn ℚ := { sin := fun _ => 0, pi := 3 }
def rdq : RdCrop ℚ :=
  { calendarType := 1, zmin := 0.2, zmax := 1, pctZmin := 70, emergence := 6, maxRooting := 60,
    fshapeR := 1.5, fshapeEx := -6, pUp1 := 0.5, fshapeW1 := 3, sxTop := 0.048, sxBot := 0.012 }
def ccq : CcCrop ℚ :=
  { calendarType := 1, emergence := 6, maturity := 120, canopyDevEnd := 50, senescence := 100,
    cc0 := 0.01, ccx := 0.9, cgc := 0.1, cdc := 0.05, zMin := 0.2, aer := 5, pUp := fun _ => 0.5,
    pLo := fun _ => 1, fshW := fun _ => 3, etAdj := true, beta := 12 }
def hiq : HiCrop ℚ :=
  { cropType := 3, hiStartCD := 60, hiEndCD := 110, yldFormCD := 50, floweringCD := 15,
    canopyDevEndCD := 65, hi0 := 0.5, hiIni := 0.01, hiGC := 0.1, tLinSwitch := 30,
    dHILinear := 0.005, dHIpre := 5, aHI := 10, bHI := 7, dHI0 := 15, exc := 50, ccMin := 0.05 }
def hikq : HiStressCrop ℚ :=
  { zMin := 0.2, aer := 5, pUp := fun _ => 0.5, pLo := fun _ => 1, etAdj := true, beta := 12,
    fshapeW := fun _ => 3, polHeatStress := 0, polColdStress := 0, tmaxUp := 40, tmaxLo := 45,
    tminUp := 10, tminLo := 5, fshapeB := 1 }
def bioq : BioCrop ℚ :=
  { cropType := 3, determinant := 1, hiStartCD := 60, yldFormCD := 50, wp := 17, wpy := 100, fco2 := 1 }
def cxq : CropX ℚ :=
  { zMinNp := false, gddMethod := 3, tupp := 30, tbase := 8, rd := rdq, germThr := 0.2, sown := true,
    canopy10 := 20, maxCanopy := 50, cc := ccq, hi := hiq, hik := hikq, bio := bioq, yldWC := 15 }
def Pq : DayParams ℚ := { W := Wq, fm := fmq, zGerm := 0.3, cx := cxq }
def stq : DayState' ℚ :=
  { cells := cellsq, pond := 0, daySubmerged := 0, irrCum := 0, ePot := 1, tPot := 3, wSurf := 1,
    evapZ := 0.15, stage2 := false, wStage2 := 0, ageDaysNS := 0, ageDays := 0, aerDays := 0,
    irrNetCum := 0, trRatio := 1, dap := 29, gddCum := 400, zRoot := 0.25, rCor := 1,
    growthStage := 2, germination := true, protectedSeed := false, delayedCds := 0,
    delayedGdds := 0, cc := 0.8, ccNS := 0.85, cc0Adj := 0.01, ccxAct := 0.8, ccxActNS := 0.85,
    ccxW := 0.8, ccxWNS := 0.85, ccxEarlySen := 0, ccPrev := 0.8, tEarlySen := 0, ccAdj := 0.9,
    ccAdjNS := 0.9, prematSenes := false, cropDead := false, hiRef := 0.05, hiFinal := 0.5,
    yieldForm := true, pctLagPhase := 30, biomass := 500, biomassNS := 600, preAdj := true,
    fPre := 1, fPol := 0.5, sCor1 := 0, sCor2 := 0, fpostUpp := 1, fpostDwn := 1, fPost := 1,
    hi := 0.04, hiAdj := 0.04, cropMature := false, harvestFlag := false, depletion := 0, taw := 0,
    zGW := 1, wtInSoil := false, yieldPot := 0, dryYield := 0, freshYield := 0 }
def Dq' : DayIn' ℚ :=
  { gs := true, tsc := 5, season := 0, rain := 20, et0 := 5, tmax := 25, tmin := 15, zGW := 1,
    sched := none, lastDay := false }


theorem runsB :
    (match fullDay Fq Tq Pq stq Dq' with
     | .ok r => decide (r.growth.dap = 30 ∧ r.growth.gdd = 12 ∧ stq.zRoot < r.growth.zRoot ∧
         0 < r.flux.tr ∧ 0 < r.flux.es ∧ 0 < r.flux.infl ∧ 0 < r.flux.cr ∧
         stq.biomass < r.growth.biomass ∧ r.summary.isNone)
     | .error _ => false) = true := by decide +kernel

theorem runs : ∃ r, fullDay Fq Tq Pq stq Dq' = .ok r ∧ r.growth.dap = 30 ∧ r.growth.gdd = 12 ∧
    stq.zRoot < r.growth.zRoot ∧ 0 < r.flux.tr ∧ 0 < r.flux.es ∧ 0 < r.flux.infl ∧
    0 < r.flux.cr ∧ stq.biomass < r.growth.biomass ∧ r.summary.isNone := by
  have h := runsB
  cases hd : fullDay Fq Tq Pq stq Dq' with
  | error e => rw [hd] at h; simp at h
  | ok r =>
    rw [hd] at h
    simp only [decide_eq_true_eq] at h
    exact ⟨r, rfl, h⟩

theorem dayPre' : DayPre Fq Pq.W stq.cells stq.water :=
  ⟨Fq_exp, Fq_sq, cells_pre, by norm_num [stq, DayState'.water], fun _ => by norm_num [Pq, Wq]⟩

/-- the balance of the concrete full day closes, with positive infiltration and capillary rise -/
example : ∃ r, fullDay Fq Tq Pq stq Dq' = .ok r ∧ 0 < r.flux.infl ∧ 0 < r.flux.cr ∧
    storage r.state.cells + r.state.pond =
      storage stq.cells + stq.pond + r.flux.infl + r.water.preIrr + r.water.irrNet
        + r.water.crAdded + r.flux.gwIn - r.flux.deepPerc - r.flux.es - r.flux.tr ∧
    r.growth.dryYield = (r.growth.biomass / 100) * r.growth.hiAdj := by
  obtain ⟨r, h, _, _, _, _, _, hinfl, hcr, _, _⟩ := runs
  exact ⟨r, h, hinfl, hcr, fullDay_closes h dayPre', ((fullDay_yields h).2.1 rfl).1⟩

end FullDayExample

end Aqua

#print axioms Aqua.fullDay_water
#print axioms Aqua.fullDay_closes
#print axioms Aqua.fullDay_partition
#print axioms Aqua.fullDay_inv
#print axioms Aqua.fullDay_pond
#print axioms Aqua.fullDay_flux_signs
#print axioms Aqua.fullDay_yields
#print axioms Aqua.fullDay_summary
#print axioms Aqua.fullDay_irrTot
#print axioms Aqua.fullDay_offseason_zero
#print axioms Aqua.fullDay_cropInv
#print axioms Aqua.fullDay_crop_progress
#print axioms Aqua.fullDay_gdd
#print axioms Aqua.FullDayExample.runs
