-- Root of the `AquaVerif` library: model (Mathlib-free), proofs and property theorems.
import AquaVerif.Model.Num
import AquaVerif.Model.Profile
import AquaVerif.Model.RainPartition
