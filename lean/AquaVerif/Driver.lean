import AquaVerif.Drv.Proto
import AquaVerif.Drv.RainPartition
import AquaVerif.Drv.RootZone
import AquaVerif.Drv.WaterStress
import AquaVerif.Drv.Drainage
/-
Line-protocol driver: reads requests on stdin, writes one reply line per request.
Imports only Mathlib-free modules, so it links as a native executable.
-/
open Aqua Aqua.Drv

def handlers : List (String × Handler) := [
  ("rainfall_partition", hRainPartition),
  ("root_zone_water", hRootZone),
  ("water_stress", hWaterStress),
  ("aeration_stress", hAerationStress),
  ("drainage", hDrainage)
]

def step (ctx : Ctx) (line : String) : Ctx × String :=
  match (line.trimAscii.toString.splitOn " ").filter (· ≠ "") with
  | [] => (ctx, "E:empty")
  | "prof" :: rest =>
    match rdProfDef.run rest with
    | .ok ((id, cs), _) => ({ ctx with profs := ctx.profs.insert id cs }, "ok")
    | .error e => (ctx, e)
  | f :: rest =>
    match handlers.lookup f with
    | some h => (ctx, runHandler h ctx rest)
    | none => (ctx, s!"E:unknown-fn:{f}")

partial def loop (hin hout : IO.FS.Stream) (ctx : Ctx) : IO Unit := do
  let line ← hin.getLine
  if line.isEmpty then return ()
  let (ctx', out) := step ctx line
  hout.putStrLn out
  loop hin hout ctx'

def main : IO Unit := do
  let hin ← IO.getStdin
  let hout ← IO.getStdout
  loop hin hout {}
