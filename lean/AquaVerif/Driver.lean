import AquaVerif.Drv.SoilTexture
import AquaVerif.Drv.Session
import AquaVerif.Drv.WeatherBind
import AquaVerif.Drv.CropCalendar
import AquaVerif.Drv.PrepareGdd
import AquaVerif.Drv.Proto
import AquaVerif.Drv.RainPartition
import AquaVerif.Drv.RootZone
import AquaVerif.Drv.WaterStress
import AquaVerif.Drv.Drainage
import AquaVerif.Drv.Run
import AquaVerif.Drv.Day
import AquaVerif.Drv.Yield
import AquaVerif.Drv.WaterDay
import AquaVerif.Drv.HarvestIndex
import AquaVerif.Drv.Germination
import AquaVerif.Drv.RootDevelopment
import AquaVerif.Drv.CanopyCover
import AquaVerif.Drv.Response
import AquaVerif.Drv.Transpiration
import AquaVerif.Drv.SoilBuild
import AquaVerif.Drv.SoilEvaporation
import AquaVerif.Drv.Calendar
import AquaVerif.Drv.Clock
import AquaVerif.Drv.PreIrrigation
import AquaVerif.Drv.GroundwaterInflow
import AquaVerif.Drv.CapillaryRise
import AquaVerif.Drv.GroundwaterTable
import AquaVerif.Drv.GrowthStage
import AquaVerif.Drv.Irrigation
import AquaVerif.Drv.Infiltration
/-
Line-protocol driver: reads requests on stdin, writes one reply line per request.
Imports only Mathlib-free modules, so it links as a native executable.
-/
open Aqua Aqua.Drv

def handlers : List (String × Handler) := [
  ("rainfall_partition", hRainPartition),
  ("root_zone_water", hRootZone),
  ("water_stress", hWaterStress),
  ("aeration_stress", hAerationStress),
  ("drainage", hDrainage),
  ("infiltration", hInfiltration),
  ("irrigation", hIrrigation),
  ("irr_schedule", hIrrSchedule),
  ("growth_stage", hGrowthStage),
  ("check_groundwater_table", hCheckGroundwaterTable),
  ("capillary_rise", hCapillaryRise),
  ("groundwater_inflow", hGroundwaterInflow),
  ("pre_irrigation", hPreIrrigation),
  ("soil_evaporation", hSoilEvaporation),
  ("evap_layer_water_content", hEvapLayer),
  ("soil_profile", hSoilProfile),
  ("init_wc", hInitWC),
  ("gw_series", hGwSeries),
  ("transpiration", hTranspiration),
  ("temperature_stress", hTemperatureStress),
  ("growing_degree_day", hGrowingDegreeDay),
  ("cc_development", hCcDevelopment),
  ("cc_required_time", hCcRequiredTime),
  ("fco2_init", hFco2Init),
  ("fco2_reset", hFco2Reset),
  ("canopy_cover", hCanopyCover),
  ("root_development", hRootDevelopment),
  ("germination", hGermination),
  ("HIref_current_day", hHIrefCurrentDay),
  ("harvest_index", hHarvestIndex),
  ("calculate_HIGC", hCalculateHIGC),
  ("calculate_HI_linear", hCalculateHILinear),
  ("water_day", hWaterDay),
  ("biomass_accumulation", hBiomassAccumulation),
  ("yield_step", hYieldStep),
  ("full_day", hFullDay),
  ("reset_state", hResetState),
  ("clock", hClock),
  ("clock_calls", hClockCalls),
  ("calendar", hCalendar),
  ("civil_range", hCivilRange),
  ("crop_calendar", hCropCalendar),
  ("prepare_gdd", hPrepareGdd),
  ("reset_calendar", hResetCalendar),
  ("weather_bind", hWeatherBind),
  ("session", hSession),
  ("soil_texture", hSoilTexture),
  ("add_layer_from_texture", hAddLayerFromTexture),
  ("cap_rise_params", hCapRiseParams)
]

def step (ctx : Ctx) (line : String) : Ctx × String :=
  match (line.trimAscii.toString.splitOn " ").filter (· ≠ "") with
  | [] => (ctx, "E:empty")
  | "prof" :: rest =>
    match rdProfDef.run rest with
    | .ok ((id, cs), _) => ({ ctx with profs := ctx.profs.insert id cs }, "ok")
    | .error e => (ctx, e)
  | f :: rest =>
    match handlers.lookup f with
    | some h => (ctx, runHandler h ctx rest)
    | none => (ctx, s!"E:unknown-fn:{f}")

partial def loop (hin hout : IO.FS.Stream) (ctx : Ctx) : IO Unit := do
  let line ← hin.getLine
  if line.isEmpty then return ()
  let (ctx', out) := step ctx line
  hout.putStrLn out
  loop hin hout ctx'

def main : IO Unit := do
  let hin ← IO.getStdin
  let hout ← IO.getStdout
  loop hin hout {}
