#!/usr/bin/env python3
"""File a confirmed seeded change under /verif/seeded/<name>/ (patch.diff, demo.py, notes.md, meta.json)."""
import json, os, shutil, sys
src = os.path.abspath(sys.argv[1]); name = os.path.basename(src.rstrip("/"))
res = json.load(open(os.path.join(src, "result.json")))
dst = os.path.join("/verif/seeded", name); os.makedirs(dst, exist_ok=True)
for f in ("patch.diff", "demo.py", "notes.md"):
    if os.path.exists(os.path.join(src, f)):
        shutil.copy(os.path.join(src, f), dst)
pid = name.split("_")[0]
confirmed = res.get("apply_rc") == 0 and "33 passed" in res.get("tests", "") and res.get("demo_mutant_rc") not in (0, None) and res.get("demo_clean_rc") == 0
meta = dict(property=pid, name=name, confirmed=confirmed,
            needs=(open(os.path.join(src, "notes.md")).read()[:1500] if os.path.exists(os.path.join(src, "notes.md")) else ""),
            ran=dict(tests=res.get("tests"), demo_on_clean_tree_rc=res.get("demo_clean_rc"), demo_on_changed_tree_rc=res.get("demo_mutant_rc"),
                     how="git -C /repo apply patch.diff; pytest; demo.py; ./check <id>; git -C /repo checkout -- ."),
            checks={p: dict(exit=c["rc"], wall_s=c["wall"], verdict=[l for l in c["lines"] if l.startswith("VIOLATION")][:3]) for p, c in res.get("checks", {}).items()},
            detected=any(c["rc"] == 1 for c in res.get("checks", {}).values()))
try:
    meta["strengthened"] = json.load(open("/verif/seeded/strengthened.json")).get(name, "")
except Exception:
    meta["strengthened"] = ""
json.dump(meta, open(os.path.join(dst, "meta.json"), "w"), indent=1)
print(name, "confirmed" if confirmed else "NOT CONFIRMED", "detected" if meta["detected"] else "MISSED", {p: c["exit"] for p, c in meta["checks"].items()})
