#!/usr/bin/env python3
"""Regenerate the table of seeded changes in DESIGN.md (between the SEEDTABLE markers) from seeded/*/meta.json."""
import glob, json, os, re
rows = []
for d in sorted(glob.glob("/verif/seeded/*")):
    name = os.path.basename(d)
    try:
        m = json.load(open(os.path.join(d, "meta.json")))
    except Exception:
        continue
    title = ""
    np_ = os.path.join(d, "notes.md")
    if os.path.exists(np_):
        title = open(np_).read().split("\n")[0].lstrip("# ").strip()
        title = re.sub(r"^C\d\d[ _/]*(seeded )?(change )?\d*\s*[-—–:]*\s*", "", title).strip(" -—–")
    how = []
    for p, c in m.get("checks", {}).items():
        for v in c.get("verdict", []):
            if "key=" in v:
                how.append("O `" + v.split("key=")[1].split(" ")[0] + "`")
            elif " correspondence " in v:
                how.append("T " + v.split(" correspondence ")[1].split(" ")[0])
            elif " theorem " in v:
                how.append("P " + v.split(" theorem ")[1].split(" ")[0].replace("AquaVerif.Properties.", ""))
        if c.get("exit") == 0:
            how.append("**missed**")
    seen, hh = set(), []
    for h in how:
        if h not in seen:
            seen.add(h); hh.append(h)
    note = m.get("strengthened", "")
    rows.append(f"| {name} | {title[:110]} | {', '.join(hh[:3])} | {note} |")
tbl = "| change | what it does | caught by (quick check of its property) | strengthened first |\n|---|---|---|---|\n" + "\n".join(rows)
p = "/verif/DESIGN.md"
s = open(p).read()
a, b = "<!-- SEEDTABLE:BEGIN -->", "<!-- SEEDTABLE:END -->"
if a in s:
    s = s[:s.index(a) + len(a)] + "\n" + tbl + "\n" + s[s.index(b):]
    open(p, "w").write(s)
print(len(rows), "rows")
