#!/usr/bin/env python3
"""Regenerates MANIFEST.json from the per-property level texts below (run by hand after editing)."""
import json, os
HERE = os.path.dirname(os.path.dirname(os.path.abspath(__file__)))
props = [json.loads(l) for l in open(os.path.join(HERE, "properties.jsonl"))]

BASE = ("Lean 4 theorems about a hand-written model of the code (arbitrary ordered field; exp/log/pow/round as "
        "parameters with stated laws), kernel-checked, axioms audited on every run; the model is tied to /repo's "
        "current sources on every run by differential execution (recorded whole-run calls + function-level fuzz, "
        "Lean driver vs real Python) ")
NOTE = ("Trusted: Lean kernel + Mathlib (axioms propext, Classical.choice, Quot.sound only; no sorry/native_decide), the "
        "statement of each theorem, the Python harness/driver and its 1e-9 float comparison rule; IEEE rounding is outside "
        "the theorems (oracles apply the property's tolerances to the float runs); correspondence is bounded by the inputs "
        "generated on the run. A broken proof/tie triggers a failing-input search on the implementation (DESIGN §5).")

LEVEL = {
 "C01": ("proof", "§6 C01", "per-process conservation theorems + day composition; tie on all 11 water processes; daily balance oracle on every simulated day", "Lean conservation theorems + differential tie + trace oracle"),
 "C02": ("proof", "§6 C02", "SCS bounds, partition identity, runoff bounds, bund-removal lemma; tie on rainfall_partition/irrigation/infiltration; row oracle", "Lean partition/bounds theorems + differential tie + trace oracle"),
 "C03": ("proof", "§6 C03", "invariant preservation per process (thDry <= th <= thS, ponding bounds); capillary rise only up to its 1/20000 rounding slack (known finding); tie + bounds oracle", "Lean invariant theorems + differential tie + trace oracle"),
 "C04": ("proof", "§6 C04", "sign and actual<=potential theorems per flux; EsPot >= 0 under CC* <= 1 which canopy_cover now guarantees; tie + sign oracle", "Lean sign/ordering theorems + differential tie + trace oracle"),
 "C05": ("proof", "§6 C05, §13.3", "19 one-day envelope theorems over the models of canopy_cover, root_development, HIref/harvest_index, biomass_accumulation, growing_degree_day (invariants preserved day after day); tie on all of them; envelope oracle on every crop-growth row", "Lean envelope-preservation theorems + differential tie + trace oracle"),
 "C06": ("proof", "§6 C06", "summary theorems from the clock model (one row per harvested season, in order, first end-condition day), seasonal counter = running sum; daily identities checked by oracle and tie", "Lean clock/summary theorems + differential tie + trace oracle"),
 "C07": ("proof", "§6 C07", "13 theorems over the integer clock/season state machine for every oracle (day function) and every reachable state, date set-up proved valid; exact tie incl. exhaustive civil calendar 1900-2500; independent date-arithmetic oracle", "Lean induction over the clock state machine + exact differential tie"),
 "C08": ("proof", "§6 C08", "partial: the two CO2-factor copies agree, reset field coverage; decided mainly by the differential oracle (season k of a multi-season run vs fresh single-season run, bitwise); aliasing is invisible to a functional model", "multi-season vs fresh-run differential + Lean reset/CO2 lemmas"),
 "C09": ("proof", "§6 C09", "runSteps composition, any-partition = one run, overshoot stops (induction, every configuration and oracle); purity of the real stepping code by all-compositions/random-partition differential runs", "Lean induction over run calls + all-partitions differential"),
 "C10": ("proof", "§6 C10, §13.3", "partial: the write-effect table extracted from /repo's current sources has no store into module-level / class-level / mutable-default state (decide), lifted by the frame theorem to 'any sequence of other models leaves what B reads unchanged'; hash randomisation, process boundaries and library internals are runtime behaviour decided by differential runs across fresh interpreters, hash seeds, orders and interleavings", "regenerated effect table + Lean frame theorem; subprocess/order/interleaving differential runs"),
 "C11": ("proof", "§6 C11, §13.3", "partial: the stores _initialize makes into user objects, extracted from the current sources, equal a reviewed list (decide) — a new store breaks the obligation; irrigation/field/groundwater/initial-content objects are never written; decided on the implementation by run-twice / rebuild-from-the-same-objects differential runs incl. dated schedules, explicit harvest dates, CO2 series, SwitchGDD", "regenerated effect table obligations + run-twice differential"),
 "C12": ("proof", "§6 C12, §13.3", "the write-effect table extracted from the current sources shows that stepping stores only into state/outputs/clock, the season's crop and CO2 concentration at the season-start reset, and two constants of the fallow filler crop (decide), lifted by the frame theorem to every number of steps; the extractor is validated dynamically (observed writes within extracted ones) and the property is checked on the implementation by content hashes of every parameter object after every step", "regenerated effect table + Lean frame theorem + per-step parameter hashing"),
 "C13": ("proof", "§6 C13", "13 contract theorems per strategy incl. the seasonal-cap invariant over every history of days; tie on irrigation/pre_irrigation/growth_stage/schedule; contract oracle on every day", "Lean contract theorems + differential tie + trace oracle"),
 "C14": ("other", "§6 C14", "decided by perturbation differential runs (future weather, out-of-window weather, extended end date)", "perturbation differential runs"),
 "C15": ("other", "§6 C15", "decided by transformed-table differential runs (column permutations, extra columns, re-index, extra rows)", "transformed-table differential runs"),
 "C16": ("proof", "§6 C16", "partial: totality lemmas for the modelled processes/initialisers (no error branch under stated premises, fuel, termination of the clock); exceptions below the model and IEEE finiteness by a covering catalogue sweep", "Lean totality lemmas (partial) + catalogue sweep"),
 "C17": ("proof", "§6 C17", "range/monotonicity theorems for every response function under ExpLaws (instantiated at Real.exp/log), catalogue premises checked; tie on all response functions; lattice oracle for the 37 crops", "Lean range/monotonicity theorems + differential tie + lattice oracle"),
 "C18": ("proof", "§6 C18", "geometry in integer centimetres, layer contiguity, deepening (terminates, reaches Zmax+0.1, keeps layer properties), interpolation lemmas, built-in hydraulic order; tie on profile builder / initial content / groundwater series; stale mid-depths after deepening are a recorded finding", "Lean builder theorems + differential tie + initialised-model oracle"),
 "C19": ("proof", "§6 C19", "adjusted field capacity range, saturation below the table, capillary rise bound with explicit rounding slack, no-table / far-table lemmas, series lemmas; tie on the groundwater processes; per-day oracle", "Lean groundwater theorems + differential tie + trace oracle"),
 "C20": ("proof", "§6 C20", "relational inertness lemmas per process (mulch, bunds, strategy parameters, neutral values); paired-run differential", "Lean relational lemmas + paired-run differential"),
}

checks = []
for p in props:
    pid = p["id"]
    cat, ref, text, tech = LEVEL[pid]
    checks.append(dict(
        property_id=pid,
        quick_cmd=f"./check {pid} --tier quick",
        thorough_cmd=f"./check {pid} --tier thorough",
        evidence_file=f"evidence/{pid}.json",
        replay_cmd_template=f"./check {pid} --replay {{path}}",
        engine="lean-proof+tie",
        level_claimed=dict(category="proof", text=(BASE if cat == "proof" else "Lean model deterministic/pure by construction; ") + text, design_ref=ref),
        level_note=NOTE,
        technique=tech,
    ))
m = dict(version=1, setup_cmd="./setup.sh",
         hooks=dict(guard="AQUACROP_VERIF", enable="no source hooks: the harness observes the implementation by rebinding functions in module namespaces (harness/aqv/rec.py); AQUACROP_VERIF is unused",
                    baseline_off_cmd="cd /repo && /venv/bin/python -m pytest -ra -q -p no:cacheprovider --timeout=900 --continue-on-collection-errors",
                    source_commits=[], add_only=True),
         engines=[dict(name="lean-proof+tie", path="lean/AquaVerif + harness/", serves_properties=[p["id"] for p in props],
                       kind_free_text="Lean 4 model + theorems (engine A), Python correspondence harness and oracles (engine B), source translators (engine C)")],
         checks=checks, not_applicable=[],
         notes="fix: commits in /repo are listed in known_findings.txt (fixed:) together with the open findings")
json.dump(m, open(os.path.join(HERE, "MANIFEST.json"), "w"), indent=1)
print("wrote MANIFEST.json with", len(checks), "checks")
