#!/usr/bin/env python3
"""Confirm a seeded change and run checks against it, in a scratch worktree (never touches /repo).
usage: seedtest.py <seed dir (patch.diff, demo.py)> <property id> [more property ids]
Creates /tmp/mut_<name> (git worktree of /repo HEAD), applies the patch there, confirms tests pass + demo fails
(and demo passes on the clean tree), runs `AQV_REPO=<wt> ./check <pid>` (quick), removes the worktree.
Writes <seed dir>/result.json."""
import json, os, subprocess, sys, time
d = os.path.abspath(sys.argv[1]); pids = sys.argv[2:]
name = os.path.basename(d.rstrip("/"))
wt = f"/tmp/mut_{name}"
def sh(cmd, cwd=None, env=None, timeout=6000):
    e = dict(os.environ); e.update(env or {})
    p = subprocess.run(cmd, shell=True, cwd=cwd, env=e, stdout=subprocess.PIPE, stderr=subprocess.STDOUT, timeout=timeout)
    return p.returncode, p.stdout.decode(errors="replace")
res = dict(seed=d, pids=pids)
sh(f"git -C /repo worktree remove --force {wt}")
rc, out = sh(f"git -C /repo worktree add --detach {wt} HEAD"); assert rc == 0, out
try:
    env = {"PYTHONPATH": wt}
    rc, out = sh(f"/venv/bin/python {d}/demo.py", wt, env); res["demo_clean_rc"] = rc
    rc, out = sh(f"git apply {d}/patch.diff", wt); res["apply_rc"] = rc
    if rc != 0:
        res["apply_out"] = out[-500:]
    else:
        rc, out = sh("/venv/bin/python -m pytest -q -p no:cacheprovider --timeout=900 -x tests 2>&1 | tail -1", wt, env); res["tests"] = out.strip()[-80:]
        rc, out = sh(f"/venv/bin/python {d}/demo.py", wt, env); res["demo_mutant_rc"] = rc; res["demo_out"] = out[-400:]
        res["checks"] = {}
        for pid in pids:
            t0 = time.time()
            rc, out = sh(f"./check {pid}", os.environ.get("VERIF_DIR", "/verif"), {"AQV_REPO": wt})
            lines = [l for l in out.split("\n") if l.startswith(("VIOLATION", "KNOWN", "[C", "INFRA"))]
            res["checks"][pid] = dict(rc=rc, wall=round(time.time() - t0, 1), lines=[l[:300] for l in lines])
finally:
    sh(f"git -C /repo worktree remove --force {wt}")
json.dump(res, open(os.path.join(d, "result.json"), "w"), indent=1)
print(json.dumps({k: v for k, v in res.items() if k != "demo_out"}, indent=1))
