#!/bin/sh
# Build the Lean model, proofs and the native driver from files on disk only (offline).
set -e
cd "$(dirname "$0")/lean/AquaVerif"
lake build 2>&1 | grep -v '^trace' | tail -5
