"""Calendar tie: civil-date arithmetic (exhaustive 1900..2500) and planting/harvest-date logic.
/venv/bin/python -W ignore corr_calendar.py [n] [seed]"""
import os, sys, collections, time
sys.path.insert(0, os.path.join(os.path.dirname(os.path.abspath(__file__)), ".."))
import warnings; warnings.filterwarnings("ignore")
import numpy as np
from aqv import proto
from aqv.lines import calendar as L

N = int(sys.argv[1]) if len(sys.argv) > 1 else 6000
SEED = int(sys.argv[2]) if len(sys.argv) > 2 else 5
rng = np.random.default_rng(SEED)

# 1. exhaustive civil-date check
got = proto.run_driver(["civil_range 1900 2500", "civil_range 1 400", "civil_range 1582 1583"])
exp = [L.civil_checksum(1900, 2500), L.civil_checksum(1, 400), L.civil_checksum(1582, 1583)]
print("civil_range:", [g == e for g, e in zip(got, exp)], got[0])

# 2. direct fuzz of read_clock_parameters + read_model_parameters
pairs = []
kinds = collections.Counter()
t0 = time.time()
for i in range(N):
    a = L.fuzz(rng)
    line, e = L.direct(*a)
    pairs.append((line, e))
    if e.startswith("E"):
        kinds[e] += 1
    else:
        t = e.split()
        kinds["seasons=%s,s0=%s" % (t[1][1:], t[-1][1:])] += 1
print("python side %.1fs" % (time.time() - t0))
out = proto.run_driver([l for l, _ in pairs])
bad = 0; nb = 0; first = []
for (l, e), g in zip(pairs, out):
    ok, b, t, i = proto.compare(e, g)
    nb += b
    if not ok:
        bad += 1
        if len(first) < 8: first.append((l, e, g))
print(dict(calls=len(pairs), disagreements=bad, bit_equal_tokens=nb))
print(dict(sorted(kinds.items())))
for f in first: print("BAD", f)
