"""Correspondence of the crop-calendar slice (Model/CropCalendar.lean): `compute_crop_calendar`
(handler crop_calendar) and the thermal-calendar block of `reset_initial_conditions` (handler
reset_calendar); direct fuzz of the real functions and whole runs.
Run with:  /venv/bin/python -W ignore corr_crop_calendar.py [n_fuzz]"""
import os, sys, collections
sys.path.insert(0, os.path.join(os.path.dirname(os.path.abspath(__file__)), ".."))
import numpy as np
from aqv import fuzzlib, proto, rec, scen as S
from aqv.lines import crop_calendar as CC, reset_calendar as RC

N = int(sys.argv[1]) if len(sys.argv) > 1 else 3000


def _swapped(tb, tu):
    return " tupp<tbase" if proto.b2f(tu) < proto.b2f(tb) else ""


def branch_of(line, exp):
    t = line.split()
    if t[0] == "crop_calendar":
        if t[1] == "1":
            return f"init/cd det={t[2]} type3={int(t[3] == '3')}"
        if t[1] != "2":
            return "init/nop"
        out = exp if exp.startswith("E") else "ok"
        zero = ""
        if out == "ok":
            e = exp.split()
            zero = " thr-not-reached" if "i1" in e[6:10] else ""
            if int(e[10][1:]) <= 0:
                zero += " yldform<=0"
        return f"init/gdd m={t[4]} type3={int(t[3] == '3')} {out}{zero}{_swapped(t[5], t[6])}"
    if t[1] != "2":
        return "reset/nop"
    out = exp if exp.startswith("E") else "ok"
    zero = ""
    if out == "ok":
        e = exp.split()
        zero = " thr-not-reached" if "i1" in e[1:5] else ""
    return f"reset m={t[3]} type3={int(t[2] == '3')} {out}{zero}{_swapped(t[4], t[5])}"


def fuzz_loop(L, n, seed, branches, batch=500):
    rng = np.random.default_rng(seed)
    st = fuzzlib.CorrStats(L.HANDLER)
    reg = proto.ProfRegistry()
    pairs, skipped = [], collections.Counter()
    for k in range(n):
        args = L.fuzz(rng)
        before = tuple(rec.snap(a) for a in args)
        try:
            res = L.FUNC(*args)
        except Exception as e:  # noqa: BLE001
            res = e
        try:
            pr = L.encode(reg, before, res, args)
        except CC.Skip as e:
            skipped[str(e)[:40]] += 1
            continue
        branches[branch_of(*pr)] += 1
        pairs.append(pr)
        if len(pairs) >= batch:
            fuzzlib.compare_batch(L, reg, pairs, st)
            pairs = []
    fuzzlib.compare_batch(L, reg, pairs, st)
    return st, skipped


def gdd_scenarios(seed):
    """thermal-calendar crops, >= 3 seasons, off-season skipped and simulated; windows chosen so that
    the last season completes (the last two: it does not — the reset's assert ends the run)"""
    import pandas as pd
    rng = np.random.default_rng(seed)
    out = []
    specs = [("MaizeGDD", "champion_climate.txt", "05/01", 1988, 4, False, 330),
             ("MaizeGDD", "champion_climate.txt", "05/10", 2001, 3, True, 250),
             ("WheatGDD", "tunis_climate.txt", "11/15", 1985, 3, False, 330),
             ("WheatGDD", "tunis_climate.txt", "12/01", 1990, 4, True, 330),
             ("PotatoGDD", "brussels_climate.txt", "04/25", 1980, 3, False, 250),
             ("SugarBeetGDD", "brussels_climate.txt", "04/15", 1990, 3, True, 364),
             ("TomatoGDD", "cordoba_climate.txt", "04/15", 1995, 3, False, 250),
             ("CottonGDD", "cordoba_climate.txt", "04/20", 2005, 3, True, 360),
             ("MaizeChampionGDD", "champion_climate.txt", "05/01", 2000, 5, False, 250),
             ("localpaddy", "hyderabad_climate.txt", "07/01", 2001, 3, True, 250),
             ("SorghumGDD", "hyderabad_climate.txt", "06/15", 2004, 3, False, 250),
             ("BarleyGDD", "tunis_climate.txt", "11/01", 1992, 3, True, 330),
             ("AlfalfaGDD", "cordoba_climate.txt", "03/01", 2000, 3, False, 330),
             ("SunflowerGDD", "cordoba_climate.txt", "04/01", 2010, 4, True, 300),
             ("WheatGDD", "tunis_climate.txt", "11/15", 1995, 3, False, 120),
             ("MaizeGDD", "champion_climate.txt", "05/01", 2005, 3, True, 60)]
    for i, (crop, stn, planting, y0, ns, off, tail) in enumerate(specs):
        sc = S.gen_scenario(rng, f"g{i}", dict(crop=crop, station=stn, n_seasons=ns, off_season=off, planting=planting,
                                               start_mode="at", irr_method=0, soil="Loam", soil_kind="builtin",
                                               gw=False, fm="none",
                                               iwc={"wc_type": "Prop", "method": "Layer", "depth_layer": [1], "value": ["FC"]}))
        p0 = pd.Timestamp(f"{y0}/{planting}")
        sc["start"] = (p0 - pd.Timedelta(days=int(rng.choice([0, 0, 10, 45])))).strftime("%Y/%m/%d")
        sc["end"] = (pd.Timestamp(f"{y0 + ns - 1}/{planting}") + pd.Timedelta(days=tail)).strftime("%Y/%m/%d")
        sc["weather"] = {"kind": "file", "name": stn}
        sc["crop"].pop("harvest", None)
        sc["soil"] = {"type": "Loam"}
        sc["irr"] = None
        sc["ffm"] = None
        sc["co2"] = None
        out.append(sc)
    return out


def whole(scens, branches):
    reg = proto.ProfRegistry()
    pairs = collections.defaultdict(list)
    skipped = collections.Counter()
    encs = {CC.NAME: CC, RC.NAME: RC}

    def obs(name, before, res, after):
        if name in encs:
            try:
                pr = encs[name].encode(reg, before, res, after)
            except CC.Skip as e:
                skipped[str(e)[:40]] += 1
                return
            branches[branch_of(*pr)] += 1
            pairs[name].append(pr)

    traces = []
    with rec.Recorder(obs, names=[RC.NAME]), CC.Observe(obs):
        for s in scens:
            traces.append(rec.run_scenario(s, S.build_model))
    stats = {n: fuzzlib.compare_batch(encs[n], reg, pairs[n], fuzzlib.CorrStats(encs[n].HANDLER)) for n in encs}
    return stats, traces, skipped


def cross_site(n, seed):
    """Python against Python (property C08, crop calendar): the real `compute_crop_calendar` +
    harvest-index block of `compute_variables` on a fresh crop, against the real
    `reset_initial_conditions` on a copy of the prepared crop, same window, same planting date."""
    import copy
    import pandas as pd
    from aquacrop.initialize.calculate_HIGC import calculate_HIGC
    from aquacrop.initialize.calculate_HI_linear import calculate_HI_linear
    rng = np.random.default_rng(seed)
    res = collections.Counter()
    FIELDS = ("MaturityCD", "MaxCanopyCD", "CanopyDevEndCD", "HIstartCD", "HIendCD", "YldFormCD", "FloweringCD",
              "HIGC", "tLinSwitch", "dHILinear")
    for _ in range(n):
        args = RC.fuzz(rng)
        cs, ic, ps, weather, _ = args
        crop = ps.Seasonal_Crop_List[cs.season_counter]
        if crop.CalendarType != 2 or crop.GDDmethod not in (1, 2, 3):
            continue
        pdate = cs.planting_dates[cs.season_counter]
        wdf = pd.DataFrame(weather, columns=["MinTemp", "MaxTemp", "Precipitation", "ReferenceET", "Date"])
        for k in ("MinTemp", "MaxTemp"):
            wdf[k] = wdf[k].astype(float)
        wdf["Date"] = pd.to_datetime(wdf["Date"])
        if len(wdf) == 0 or pdate > wdf.Date.iloc[-1]:
            continue
        fresh = copy.deepcopy(crop)
        # undo the independent threshold perturbation of RC.fuzz: thresholds come from the initialisation
        a = CC.observed_call(fresh, pd.to_datetime([pdate]), wdf.Date.iloc[0], wdf.Date.iloc[-1],
                             pd.date_range(wdf.Date.iloc[0], wdf.Date.iloc[-1]), wdf)
        prepared = copy.deepcopy(fresh)
        ps.Seasonal_Crop_List = [prepared] * len(ps.Seasonal_Crop_List)
        try:
            RC.FUNC(cs, ic, ps, weather, None)
            r = None
        except Exception as e:  # noqa: BLE001
            r = e
        swapped = " tupp<tbase" if crop.Tupp < crop.Tbase else ""
        if a.exc is not None or r is not None:
            ta = CC.exc_tok(a.exc) if a.exc is not None else "ok"
            tr = CC.exc_tok(r) if r is not None else "ok"
            if ta == "ok" and tr == "E:fuel":      # the initialisation's HIGC loop would hang as well
                res["init ok (calendar only) / reset hangs in calculate_HIGC" + swapped] += 1
            else:
                res[("same error " + ta if ta == tr else f"DIFFERENT init {ta} reset {tr}") + swapped] += 1
            continue
        fresh.HIGC = calculate_HIGC(fresh.YldFormCD, fresh.HI0, fresh.HIini)
        if fresh.CropType == 3:
            fresh.tLinSwitch, fresh.dHILinear = calculate_HI_linear(fresh.YldFormCD, fresh.HIini, fresh.HI0, fresh.HIGC)
        else:
            fresh.tLinSwitch, fresh.dHILinear = 0, 0.0
        same = all(float(getattr(fresh, k)) == float(getattr(prepared, k)) for k in FIELDS)
        res[("same calendar" if same else "DIFFERENT calendar") + swapped] += 1
    return res


if __name__ == "__main__":
    br = collections.Counter()
    tot_bad = 0
    for L, seed in ((CC, 11), (RC, 12)):
        st, sk = fuzz_loop(L, N, seed, br)
        d = st.as_dict()
        tot_bad += d["disagreements"]
        tok = d["bit_equal_tokens"] + d["tol_equal_tokens"]
        print("FUZZ", d, "skipped", dict(sk), "bit-equal share %.6f" % (d["bit_equal_tokens"] / max(1, tok)))
    scens = gdd_scenarios(5) + S.gen_scenarios(7, 10)
    stats, traces, sk = whole(scens, br)
    for s in stats.values():
        d = s.as_dict()
        tot_bad += d["disagreements"]
        tok = d["bit_equal_tokens"] + d["tol_equal_tokens"]
        print("RUNS", d, "bit-equal share %.6f" % (d["bit_equal_tokens"] / max(1, tok)))
    print("skipped in runs", dict(sk))
    print([(t.scen["id"], t.scen["crop"]["name"], t.n_steps, t.error) for t in traces])
    for k in sorted(br):
        print("%6d  %s" % (br[k], k))
    print("CROSS-SITE (init vs reset, Python vs Python)", dict(cross_site(min(N, 1500), 21)))
    print("TOTAL DISAGREEMENTS", tot_bad)
