"""Correspondence of the harvest-index chain (Model/HIref.lean, Model/HarvestIndex.lean,
Model/HIinit.lean) with the real code, and the C05 statements checked on the real functions.
Run with:  /venv/bin/python -W ignore corr_harvest_index.py [n_fuzz] [n_scen]"""
import os, sys, json, copy
sys.path.insert(0, os.path.join(os.path.dirname(os.path.abspath(__file__)), ".."))
import numpy as np
from aqv import fuzzlib, proto, rec, scen as scen_mod
from aqv.lines import HIref_current_day, harvest_index, calculate_HIGC, calculate_HI_linear
from aqv.lines import _hi_common as H

N = int(sys.argv[1]) if len(sys.argv) > 1 else 6000
NS = int(sys.argv[2]) if len(sys.argv) > 2 else 18
ALL = [HIref_current_day, harvest_index, calculate_HIGC, calculate_HI_linear]
bad = 0
ties = 0


def show(tag, L, st, retry=None):
    """print the statistics; a disagreement is re-examined with model and implementation sharing
    one libm (`rec.SharedLibm`, as `engine.tie_stage` does) and counted as an ulp tie if it
    disappears there"""
    global bad, ties
    d = st.as_dict()
    tot = d["bit_equal_tokens"] + d["tol_equal_tokens"]
    d["bit_share"] = round(d["bit_equal_tokens"] / tot, 4) if tot else None
    br = getattr(L.trim_reply, "branches", None)
    if br is not None:
        d["branches"] = dict(sorted(br.items()))
        br.clear()
    d["ulp_ties"] = 0
    if d["disagreements"] and retry is not None:
        with rec.SharedLibm():
            st2 = retry()
        if br is not None:
            br.clear()
        if st2.bad == 0 and st2.calls > 0:
            d["ulp_ties"] = d["disagreements"]
            d["disagreements"] = 0
        else:
            d["first_bad_shared_libm"] = st2.first_bad[:2]
    bad += d["disagreements"]
    ties += d["ulp_ties"]
    print(tag, json.dumps(d, default=str))


pool = H.crop_pool()
print("crop pool:", len(pool), "crops from real models; types",
      {t: sum(1 for e in pool if e.crop.CropType == t) for t in (1, 2, 3)},
      "; not initialisable in their window:", H.crop_pool.failed)

# 1. direct fuzz
for L in ALL:
    show("fuzz", L, fuzzlib.direct_fuzz(L, N, seed=17), retry=lambda L=L: fuzzlib.direct_fuzz(L, N, seed=17))

# 2. whole runs: the stratified scenarios (all irrigation methods, GDD and calendar crops,
#    Potato/SugarBeet/PotatoGDD = type 2, synthetic storm/drought/hot/cold) + extra synthetic
#    hot / cold / drought regimes + a leafy crop (SugarCane, type 1)
scs = scen_mod.gen_scenarios(5, max(NS, 10))
extra = []
for j, (crop, station, planting, start, end, regime) in enumerate([
        ("Wheat", "tunis_climate.txt", "11/01", "1990-10-01", "1992-08-30", "hot"),
        ("Maize", "champion_climate.txt", "05/01", "1995-04-01", "1996-12-30", "cold"),
        ("Sorghum", "hyderabad_climate.txt", "06/15", "2003-06-01", "2004-03-30", "drought"),
        ("Potato", "brussels_climate.txt", "04/25", "1985-04-01", "1985-12-30", "drought"),
        ("SugarBeet", "brussels_climate.txt", "04/10", "1988-04-01", "1988-12-30", "hot"),
        ("Tomato", "cordoba_climate.txt", "04/01", "2001-03-15", "2001-12-30", "hot"),
        ("Soybean", "cordoba_climate.txt", "05/01", "2003-04-15", "2003-12-30", "cold"),
        ("Cotton", "tunis_climate.txt", "04/15", "1991-04-01", "1991-12-30", "drought"),
        ("SugarCane", "hyderabad_climate.txt", "02/01", "2002-01-15", "2003-06-30", "mild"),
        ("Quinoa", "cordoba_climate.txt", "03/01", "2010-02-15", "2010-12-30", "cold")]):
    s = {"id": 200 + j, "start": start.replace("-", "/"), "end": end.replace("-", "/"),
         "weather": {"kind": "synth", "seed": 1000 + j, "start": start, "end": end, "regime": regime,
                     "south": False},
         "soil": {"type": ["SandyLoam", "Loam", "ClayLoam", "Sand"][j % 4]},
         "crop": {"name": crop, "planting": planting, "overrides": {}},
         "iwc": {"wc_type": "Prop", "method": "Layer", "depth_layer": [1],
                 "value": ["WP" if regime == "drought" else "FC"]},
         "irr": None, "fm": None, "ffm": None, "gw": None, "co2": None, "off_season": bool(j % 2)}
    extra.append(s)
scs = scs + extra
stats, traces = fuzzlib.whole_runs(ALL, len(scs), seed=5, scenarios=scs)
for L in ALL:
    def retry(L=L):
        st2, _ = fuzzlib.whole_runs([L], len(scs), seed=5, scenarios=scs)
        return st2[L.NAME]
    show("runs", L, stats[L.NAME], retry=retry)
print("runs", [(t.scen["id"], t.scen["crop"]["name"], t.scen["weather"].get("regime", "file"), t.n_steps,
                t.error) for t in traces])
print("TOTAL DISAGREEMENTS", bad, " ULP TIES", ties)

# 3. the C05 statements on the real functions, day by day in the whole runs above:
#    (a) harvest_index never decreases within a season, (b) harvest_index <= HI0,
#    (c) harvest_index_adj <= HI0 * (1 + dHI0/100), (d) hi_ref never decreases within a season,
#    (e) hi_ref <= HIfinal = HI0 (HIfinal is never written back by HIref_current_day)
viol = []
seen = dict(days=0, yield_days=0, stress_days=0, capped=0, hifinal_ne_hi0=0)
state = {}


def obs(name, before, res, after):
    if isinstance(res, Exception):
        return
    if name == "HIref_current_day":
        hi_prev, hifinal, dap, delayed, yf, lag, cc, ccp, ccxw, crop, gs = before
        h = float(res[0])
        if hifinal != crop.HI0:
            seen["hifinal_ne_hi0"] += 1
        if gs:
            # (hi_ref is not among the fields `reset_initial_conditions` resets: on the first day
            #  of a new season the incoming value is the last one of the previous season)
            if dap > 1 and h < float(hi_prev) - 1e-12:
                viol.append(("hi_ref decreases", crop.Name, dap, float(hi_prev), h))
            if h > hifinal + 1e-12 or h > crop.HI0 + 1e-12:
                viol.append(("hi_ref above HIfinal/HI0", crop.Name, dap, h))
    if name == "harvest_index":
        prof, ztop, crop, ic, et0, tmax, tmin, gs = before
        nc = res
        if not gs:
            if nc.harvest_index != 0 or nc.harvest_index_adj != 0:
                viol.append(("off-season non-zero", crop.Name))
            return
        seen["days"] += 1
        hi0, hi1 = float(ic.harvest_index), float(nc.harvest_index)
        adj = float(nc.harvest_index_adj)
        if hi1 > 0:
            seen["yield_days"] += 1
        if nc.f_pre * nc.f_post != 1:
            seen["stress_days"] += 1
        if crop.CropType != 1 and nc.f_pre * nc.f_post > 1 + crop.dHI0 / 100:
            seen["capped"] += 1
        if hi1 < hi0 - 1e-12:
            viol.append(("harvest_index decreases", crop.Name, ic.dap, hi0, hi1))
        if hi1 > crop.HI0 + 1e-12:
            viol.append(("harvest_index above HI0", crop.Name, ic.dap, hi1))
        cap = (1 + crop.dHI0 / 100) if crop.CropType != 1 else 1.0
        if adj > crop.HI0 * cap + 1e-12 or adj > hi1 * cap + 1e-12:
            viol.append(("harvest_index_adj above cap", crop.Name, ic.dap, adj, hi1, cap))


with rec.Recorder(obs, names=["HIref_current_day", "harvest_index"]):
    for s in scs:
        rec.run_scenario(s, scen_mod.build_model)
print("C05 on the real functions over the whole runs:", seen, "violations:", len(viol), viol[:5])

# 4. premises of the lemmas on the crops of the pool (+ what the init helpers return)
prem = dict(hi_order=0, higc_pos=0, dhilin_nn=0, tlin_lt_yld=0, dhi0_nn=0, dhipre_nn_or_off=0,
            bhi_ge1_or_off=0, ahi_pos_or_off=0, post_ok=0, ws_raw_ok=0, logistic_reaches_098=0, hi0_reached_at_yldform=0)
for e in pool:
    c = e.crop
    prem["hi_order"] += 0 < c.HIini < c.HI0
    prem["higc_pos"] += c.HIGC > 0
    prem["dhilin_nn"] += c.dHILinear >= 0
    prem["tlin_lt_yld"] += c.tLinSwitch < c.YldFormCD
    prem["dhi0_nn"] += (c.dHI0 >= 0) or c.CropType == 1
    prem["dhipre_nn_or_off"] += c.dHI_pre >= 0 or c.dHI_pre == -9
    prem["bhi_ge1_or_off"] += c.b_HI >= 1 or c.b_HI <= 0
    prem["ahi_pos_or_off"] += c.a_HI > 0 or c.a_HI == -9
    prem["post_ok"] += bool(c.HIstartCD <= c.CanopyDevEndCD and c.YldFormCD >= 0)
    prem["ws_raw_ok"] += bool(all(c.p_up[i] <= c.p_lo[i] <= 1 for i in range(4)) and 0 <= c.beta <= 100
                              and all(c.fshape_w[i] != 0 for i in range(3)))
    lg = (c.HIini * c.HI0) / (c.HIini + (c.HI0 - c.HIini) * np.exp(-c.HIGC * c.YldFormCD))
    prem["logistic_reaches_098"] += lg > 0.98 * c.HI0
    h, _, _ = HIref_current_day.FUNC(0.0, c.HI0, int(c.HIstartCD) + 1 + int(c.YldFormCD), 0, False, 0.0,
                                     0.9, 0.9, 0.9, c, True)
    prem["hi0_reached_at_yldform"] += abs(h - c.HI0) < 1e-9
print("premises satisfied (out of %d pool crops):" % len(pool), prem)
