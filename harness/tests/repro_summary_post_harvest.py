"""Regression check of finding Y-3.1 (C06), fixed by repository commit d260679 (growing-season test
`harvest_date > step_start_time`): with the off-season simulated, the day of the latest harvest date
used to be a growing-season day of the season whose summary row had already been written; its
irrigation (10 mm here) was not in `Seasonal irrigation (mm)` (IrrTot 450.0, sum over all rows 460.0).

Run: /venv/bin/python -W ignore harness/tests/repro_summary_post_harvest.py
Expected output now (every season): IrrTot 450.0 = sum over all rows of the season = sum up to the
harvest step, no growing-season row after the harvest step  (Lean: `Aqua.run_summary_irrigation`,
`Aqua.run_no_growing_day_after_harvest`, `Aqua.RunLiftExample.harvest_date_is_fallow`).
"""
import warnings

warnings.filterwarnings("ignore")
from aquacrop import AquaCropModel, Soil, Crop, InitialWaterContent, IrrigationManagement
from aquacrop.utils import prepare_weather, get_filepath


def main():
    w = prepare_weather(get_filepath("tunis_climate.txt"))
    crop = Crop("Maize", planting_date="05/01", harvest_date="06/15")
    m = AquaCropModel("1982/04/01", "1984/12/31", w, Soil("SandyLoam"), crop,
                      InitialWaterContent(value=["FC"]),
                      irrigation_management=IrrigationManagement(irrigation_method=5, depth=10),
                      off_season=True)
    m.run_model(till_termination=True)
    fs = m.get_simulation_results()
    fl = m.get_water_flux()
    ws = m.get_water_storage()
    bad = 0
    for k in sorted(set(fs["Season"])):
        rows = fl[fl["season_counter"] == k]
        h = int(fs[fs["Season"] == k]["Harvest Date (Step)"].iloc[0])
        tot = float(fs[fs["Season"] == k]["Seasonal irrigation (mm)"].iloc[0])
        s_all = float(rows["IrrDay"].sum())
        s_upto = float(rows[rows["time_step_counter"] <= h]["IrrDay"].sum())
        print(f"season {k}: IrrTot {tot}  sum over all rows of the season {s_all}  "
              f"sum up to the harvest step {s_upto}")
        assert abs(tot - s_upto) < 1e-9, "run_summary_irrigation_upto violated"
        assert abs(tot - s_all) < 1e-9, "run_summary_irrigation violated"
        late = rows[rows["time_step_counter"] > h]
        gs_late = ws[ws["time_step_counter"].isin(late["time_step_counter"])]["growing_season"]
        assert float(gs_late.sum()) == 0 and float(late["dap"].sum()) == 0 \
            and float(late["IrrDay"].sum()) == 0, "run_no_growing_day_after_harvest violated"
        print(f"   rows of the season after the harvest step: {len(late)} (all fallow)")
        bad += abs(tot - s_all) > 1e-9
    print("seasons whose total differs from the sum over all rows of the season:", bad)


if __name__ == "__main__":
    main()
