"""Reproduction of finding Y-3.1 (C06): with the off-season simulated, the day of the latest
harvest date is still a growing-season day of the season whose summary row has already been
written; its irrigation is not in `Seasonal irrigation (mm)`.

Run: /venv/bin/python -W ignore harness/tests/repro_summary_post_harvest.py
Expected output (seasons 0 and 1): IrrTot 450.0, sum over all rows of the season 460.0,
sum up to the harvest step 450.0  (Lean: `Aqua.run_summary_irrigation`,
`Aqua.RunLiftExample.post_harvest_irrigation`).
"""
import warnings

warnings.filterwarnings("ignore")
from aquacrop import AquaCropModel, Soil, Crop, InitialWaterContent, IrrigationManagement
from aquacrop.utils import prepare_weather, get_filepath


def main():
    w = prepare_weather(get_filepath("tunis_climate.txt"))
    crop = Crop("Maize", planting_date="05/01", harvest_date="06/15")
    m = AquaCropModel("1982/04/01", "1984/12/31", w, Soil("SandyLoam"), crop,
                      InitialWaterContent(value=["FC"]),
                      irrigation_management=IrrigationManagement(irrigation_method=5, depth=10),
                      off_season=True)
    m.run_model(till_termination=True)
    fs = m.get_simulation_results()
    fl = m.get_water_flux()
    bad = 0
    for k in sorted(set(fs["Season"])):
        rows = fl[fl["season_counter"] == k]
        h = int(fs[fs["Season"] == k]["Harvest Date (Step)"].iloc[0])
        tot = float(fs[fs["Season"] == k]["Seasonal irrigation (mm)"].iloc[0])
        s_all = float(rows["IrrDay"].sum())
        s_upto = float(rows[rows["time_step_counter"] <= h]["IrrDay"].sum())
        print(f"season {k}: IrrTot {tot}  sum over all rows of the season {s_all}  "
              f"sum up to the harvest step {s_upto}")
        assert abs(tot - s_upto) < 1e-9, "run_summary_irrigation violated"
        bad += abs(tot - s_all) > 1e-9
    print("seasons whose total differs from the sum over all rows of the season:", bad)


if __name__ == "__main__":
    main()
