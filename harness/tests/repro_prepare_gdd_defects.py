"""Reproduction of the suspected defects of the `SwitchGDD=1` path (aquacrop/utils/prepare_gdd.py,
aquacrop/initialize/compute_crop_calendar.py), public API only.
Run with:  /venv/bin/python -W ignore repro_prepare_gdd_defects.py"""
from aquacrop import AquaCropModel, Soil, Crop, InitialWaterContent
from aquacrop.utils import prepare_weather, get_filepath

w = prepare_weather(get_filepath("tunis_climate.txt"))


def run(switch, start="1985/10/01", end="1989/05/30", name="Wheat", pdate="10/01"):
    crop = Crop(name, planting_date=pdate, SwitchGDD=switch)
    m = AquaCropModel(start, end, w, Soil("Loam"), crop, InitialWaterContent(value=["FC"]))
    try:
        m.run_model(till_termination=True)
    except Exception as e:  # noqa: BLE001
        return crop, type(e).__name__ + ": " + str(e)[:60]
    return crop, list(m.get_simulation_results()["Dry yield (tonne/ha)"].round(2))


c0, y0 = run(0)
c1, y1 = run(1)
print("D1  Wheat 10/01 Tunis 1985-89   yields SwitchGDD=0:", y0, "  SwitchGDD=1:", y1)
print("    after SwitchGDD=1: CalendarType", c1.CalendarType, " HIstart(GDD) %.1f" % c1.HIstart,
      " YldForm", c1.YldForm, "(the calendar-day input, not converted; YldFormCD re-derived from it:", c1.YldFormCD, "days)",
      " Flowering", c1.Flowering, " HIend %.1f" % c1.HIend, " Maturity %.1f" % c1.Maturity)
print("    attributes created instead: YieldFormation", getattr(c1, "YieldFormation", None),
      "(mean of HIendCD - HIstartCD, days)  FloweringDuration %.1f" % getattr(c1, "FloweringDuration", float("nan")),
      "(= FloweringEnd[GDD] - HIstartCD[days])")
c2, y2 = run(1, end="1988/01/15")
print("D2  window ending 107 days into the last season (SwitchGDD=1):", y2, " (SwitchGDD=0:", run(0, end="1988/01/15")[1], ")")
