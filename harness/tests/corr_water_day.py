"""Correspondence of the composed day: every recorded `solution_single_time_step` call of whole
runs is replayed through the Lean model `waterDay` (handler `water_day`) from the day's *inputs*
only, and the reply is compared with the real end-of-day `th`, `aer_days_comp`, ponding and the
`water_flux` row.  Also checks the day balance (C01) on the model's ghost outputs.
Run with:  /venv/bin/python -W ignore corr_water_day.py [n_scen] [seed]"""
import os, sys, collections
sys.path.insert(0, os.path.join(os.path.dirname(os.path.abspath(__file__)), ".."))
import numpy as np
from aqv import fuzzlib, proto, rec, scen
from aqv.lines import water_day as L

N_SCEN = int(sys.argv[1]) if len(sys.argv) > 1 else 12
SEED = int(sys.argv[2]) if len(sys.argv) > 2 else 7


def main():
    rng = np.random.default_rng(SEED)
    strata = [dict(), dict(gw=True), dict(irr_method=4), dict(gw=True, irr_method=4),
              dict(irr_method=1), dict(irr_method=3), dict(irr_method=5), dict(n_seasons=2),
              dict(gw=True, soil_kind="custom"), dict(irr_method=2)]
    scs = [scen.gen_scenario(rng, i, dict(strata[i % len(strata)])) for i in range(N_SCEN)]
    reg = proto.ProfRegistry()
    pairs, skipped, cnt = [], 0, collections.Counter()

    def sink(before, res, after, inner):
        nonlocal skipped
        r = L.encode_day(reg, before, res, after, inner)
        if r is None:
            skipped += 1
        else:
            pairs.append(r)

    obs = L.DayObserver(sink)
    traces = []
    with rec.SharedLibm():
        with rec.Recorder(obs, names=L.INNER + [L.NAME]):
            for s in scs:
                traces.append(rec.run_scenario(s, scen.build_model))
    st = fuzzlib.compare_batch(L, reg, pairs)
    tot = st.bit_tokens + st.tol_tokens
    print("days", st.as_dict(), "bit_share", round(st.bit_tokens / tot, 6) if tot else None,
          "skipped(unmodelled step raised)", skipped)
    # activity statistics from the model's replies
    out = proto.run_driver(reg.lines + [l for l, _ in pairs])[len(reg.lines):]
    for (l, e), o in zip(pairs, out):
        if o.startswith("E"):
            cnt[o] += 1
            continue
        g = L.ghosts(o)
        t = [proto.b2f(x) for x in L.trim_reply(o).split()[-12:]]
        cnt["ok"] += 1
        cnt["irr>0"] += g["irr"] > 0
        cnt["preIrr>0"] += g["preIrr"] > 0
        cnt["irrNet!=0"] += g["irrNet"] != 0
        cnt["cr>0"] += t[6] > 0
        cnt["gwIn>0"] += t[7] > 0
        cnt["runoff>0"] += t[4] > 0
        cnt["deepPerc>0"] += t[5] > 0
        cnt["pond>0"] += t[0] > 0
        cnt["tr>0"] += t[10] > 0
        cnt["lost!=0"] += (g["drainLost"] != 0) or (g["inflLost"] != 0)
        cnt["wtInSoil"] += g["wtInSoil"]
    print("activity:", dict(cnt))
    print([(t.scen["id"], t.n_steps, t.error) for t in traces])
    print("TOTAL DISAGREEMENTS", st.bad)
    return st.bad


if __name__ == "__main__":
    sys.exit(1 if main() else 0)
