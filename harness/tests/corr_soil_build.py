"""Correspondence of work package I (soil profile builder, initial water content, groundwater
series) with the real implementation.

    /venv/bin/python -W ignore corr_soil_build.py [n_direct] [n_gw]

1. direct fuzz: `n_direct` generated initialisation scenarios (all 15 built-in soils, custom and
   texture layers, 17 dz lists, all 37 crops + Zmax overrides, every initial-water-content form,
   groundwater none/constant/variable); the real `AquaCropModel._initialize()` is run on each and
   the resulting profile / initial water content / z_gw series compared with the Lean model;
2. crops × dz grid: all 37 crops × 9 dz lists × 2 soils (deepening loop);
3. whole scenarios: the stratified scenarios of `aqv.scen.gen_scenarios` (initialisation only);
4. `gw_series` direct fuzz on `read_groundwater_table` alone;
5. the table `builtinLayers` of `Proofs/SoilBuild.lean` is compared with soil.py;
6. the former infinite deepening loop (fixed in repo commit b09df61) in a subprocess with timeout.
"""
import os, sys, collections, subprocess, time, re
sys.path.insert(0, os.path.join(os.path.dirname(os.path.abspath(__file__)), ".."))
import warnings
warnings.filterwarnings("ignore")
import numpy as np
import pandas as pd
from aqv import fuzzlib, proto, scen as scen_mod
from aqv.lines import soil_profile as SP, init_wc as IW, gw_series as GW, soil_build_gen as G

N_DIRECT = int(sys.argv[1]) if len(sys.argv) > 1 else 5000
N_GW = int(sys.argv[2]) if len(sys.argv) > 2 else 5000


class Batch:
    def __init__(self):
        self.reg = proto.ProfRegistry()
        self.pairs = {L.NAME: [] for L in (SP, IW, GW)}
        self.meta = {L.NAME: [] for L in (SP, IW, GW)}
        self.raised = collections.Counter()
        self.skipped = collections.Counter()

    def add_init(self, sc):
        r = SP.run_init(sc)
        if r.error is not None:
            self.raised[f"{type(r.error).__name__} @ {r.where}"] += 1
        for L in (SP, IW):
            e = L.encode(self.reg, (sc,), r)
            if e is None:
                self.skipped[L.NAME] += 1
            else:
                self.pairs[L.NAME].append(e)
                self.meta[L.NAME].append(sc)
        # the groundwater series the whole initialisation produced
        gw = sc.get("gw")
        if gw is not None and r.model is not None and hasattr(r.model, "_clock_struct") and \
                hasattr(r.model, "_param_struct") and hasattr(r.model._param_struct, "z_gw"):
            ts = r.model._clock_struct.time_span
            line = GW.request_line(ts, gw)
            if line is not None:
                self.pairs[GW.NAME].append((line, GW.expected(r.model._param_struct.z_gw)))
                self.meta[GW.NAME].append(sc)
        return r

    def add_gw(self, rng):
        args = GW.fuzz(rng)
        try:
            res = GW.FUNC(*args)
        except Exception as e:  # noqa: BLE001
            res = e
            self.raised[f"{type(e).__name__} @ read_groundwater_table"] += 1
        e = GW.encode(self.reg, args, res)
        if e is not None:
            self.pairs[GW.NAME].append(e)
            self.meta[GW.NAME].append(args[1])

    def compare(self, title):
        print(f"== {title}")
        out = {}
        for L in (SP, IW, GW):
            pairs = self.pairs[L.NAME]
            if not pairs:
                continue
            st = fuzzlib.compare_batch(L, self.reg, pairs)
            d = st.as_dict()
            tot = d["bit_equal_tokens"] + d["tol_equal_tokens"]
            d["bit_share"] = round(d["bit_equal_tokens"] / tot, 6) if tot else None
            fb = d.pop("first_bad")
            print(d)
            for x in fb[:2]:
                print("   BAD index", x["index"], "\n   line", x["line"][:400], "\n   exp ", x["expected"][:300],
                      "\n   got ", x["got"][:300])
            out[L.NAME] = st
        print("   python raised:", dict(self.raised))
        print("   outside slice (skipped):", dict(self.skipped))
        return out

    def branch_stats(self):
        """ghost outputs of the driver: which branches were reached"""
        lines = [l for l, _ in self.pairs[SP.NAME]]
        if not lines:
            return
        out = proto.run_driver(lines)
        c = collections.Counter()
        steps = collections.Counter()
        for (l, e), o, sc in zip(self.pairs[SP.NAME], out, self.meta[SP.NAME]):
            if o.startswith("E"):
                c[o] += 1
                continue
            g = SP.ghosts(o)
            c["ok"] += 1
            c["deepened"] += g["steps"] > 0
            c["stale_zMid"] += g["stale"]
            c["cm_compare_disagrees"] += not g["cm_agree"]
            if not g["cm_agree"] and c["cm_compare_disagrees"] <= 3:
                print("   integer-cm layer comparison differs from the implementation for soil", sc["soil"])
            c["else_branch_bottom_thickened"] += g["else_taken"]
            c["cm_threshold_disagrees"] += not g["thr_agree"]
            if not g["thr_agree"] and c["cm_threshold_disagrees"] <= 3:
                print("   exact threshold Zmax[cm]+10 gives another number of deepening steps than the float "
                      "comparison for crop", sc["crop"], "dz", sc["soil"].get("dz"))
            n = SP.n_of(o)
            lay = [int(x[1:]) for x in o.split()[1 + 5 * n: 1 + 6 * n]]
            c[f"nlayers={max(lay)}"] += 1
            if sorted(set(g["calls"])) != list(range(len(set(g["calls"])))):
                c["a_layer_captured_nothing"] += 1
            steps[g["steps"]] += 1
        print("   soil_profile branches:", dict(c))
        print("   deepening steps histogram:", dict(sorted(steps.items())))
        lines = [l for l, _ in self.pairs[IW.NAME]]
        out = proto.run_driver(self.reg.lines + lines)[len(self.reg.lines):]
        c = collections.Counter()
        for l, o in zip(lines, out):
            t = l.split()
            key = f"type{t[5]}-method{t[6]}-wt{t[2]}"
            c[key] += 1
            if o.startswith("E"):
                c[o] += 1
            else:
                c["aliased"] += IW.aliased(o)
                c["wt_in_soil"] += o.split()[-2] == "i1"
                c["nan_th"] += any(np.isnan(proto.b2f(x)) for x in o.split()[:-2])
        print("   init_wc branches:", dict(sorted(c.items())))


def check_all_ok(stats):
    return all(s.bad == 0 for s in stats.values())


def builtin_table():
    """(name, layer, wp, fc, s, ksat, tau) of every layer of the 15 built-in soils, from soil.py"""
    from aquacrop import Soil
    rows = []
    for name in scen_mod.BUILTIN_SOILS:
        s = Soil(name)
        s.fill_nan()
        g = s.profile.groupby("Layer").first()
        for lay, row in g.iterrows():
            rows.append((name, int(lay), row.th_dry, row.th_wp, row.th_fc, row.th_s, row.Ksat, row.tau))
    return rows


def lean_rat(x):
    from fractions import Fraction
    f = Fraction(repr(float(x)))
    return f"{f.numerator}/{f.denominator}" if f.denominator != 1 else f"{f.numerator}"


def check_builtin_table():
    path = os.path.join(proto.LEAN_DIR, "AquaVerif", "Proofs", "SoilBuild.lean")
    rows = builtin_table()
    want = [f'  ⟨"{n}", {l}, {lean_rat(d)}, {lean_rat(wp)}, {lean_rat(fc)}, {lean_rat(s)}, {lean_rat(k)}, {lean_rat(t)}⟩'
            for n, l, d, wp, fc, s, k, t in rows]
    if not os.path.exists(path):
        print("   (no Proofs/SoilBuild.lean yet); table would be:\n" + ",\n".join(want))
        return False
    txt = open(path, encoding="utf-8").read()
    missing = [w for w in want if w.strip() not in txt]
    print(f"== builtinLayers table: {len(want)} rows, {len(missing)} missing/different in Proofs/SoilBuild.lean")
    for w in missing:
        print("   ", w)
    return not missing


REPRO_LOOP = r"""
import warnings; warnings.filterwarnings('ignore')
from aquacrop import AquaCropModel, Soil, Crop, InitialWaterContent
from aquacrop.utils import prepare_weather, get_filepath
w = prepare_weather(get_filepath('champion_climate.txt'))
m = AquaCropModel('1990/05/01', '1990/05/30', w, Soil('Loam', dz=[0.3]*4), Crop('Maize', planting_date='05/01'),
                  InitialWaterContent())
m._initialize()      # zSoil = 1.2 m < Zmax + 0.1 = 2.4 m and no compartment < 0.25 m
print('returned dz', list(m._param_struct.Soil.Profile.dz))
"""


def repro_infinite_loop(timeout=20):
    """Before repo commit b09df61 this initialisation never returned (observed: killed after 20 s);
    now the bottom compartment is thickened."""
    try:
        p = subprocess.run([sys.executable, "-W", "ignore", "-c", REPRO_LOOP], timeout=timeout,
                           stdout=subprocess.PIPE, stderr=subprocess.PIPE)
        print("== former infinite loop Soil('Loam', dz=[0.3]*4) + Maize:", p.stdout.decode().strip()[-200:],
              p.stderr.decode()[-300:])
        return p.returncode == 0
    except subprocess.TimeoutExpired:
        print(f"== infinite-loop repro: Soil('Loam', dz=[0.3]*4) + Maize still running after {timeout}s -> killed")
        return False


def main():
    ok = True
    rng = np.random.default_rng(20260926)
    # 1. direct fuzz
    B = Batch()
    t0 = time.time()
    for i in range(N_DIRECT):
        B.add_init(G.gen_case(rng))
    print(f"direct: {N_DIRECT} initialisations in {time.time() - t0:.0f}s")
    ok &= check_all_ok(B.compare("direct fuzz (generated initialisation scenarios)"))
    B.branch_stats()

    # 2. crops x dz grid
    B2 = Batch()
    dzs = [G.DZ_LISTS[i] for i in (0, 1, 2, 3, 4, 5, 6, 7, 9)]
    for crop in scen_mod.CROPS:
        for dz in dzs:
            for soil in ("SandyLoam", "Paddy"):
                sc = {"id": 0, "start": G.START, "end": G.END, "weather": {"kind": "file", "name": G.STATION},
                      "soil": {"type": soil, "dz": list(dz)}, "crop": {"name": crop, "planting": "05/01"},
                      "iwc": {"wc_type": "Prop", "method": "Layer", "depth_layer": [1], "value": ["FC"]}, "gw": None}
                B2.add_init(sc)
    ok &= check_all_ok(B2.compare(f"{len(scen_mod.CROPS)} crops x {len(dzs)} dz lists x 2 soils"))
    B2.branch_stats()

    # 3. whole scenarios of the shared generator (initialisation only)
    B3 = Batch()
    for sc in scen_mod.gen_scenarios(7, 60):
        B3.add_init(sc)
    ok &= check_all_ok(B3.compare("60 whole scenarios of aqv.scen.gen_scenarios (initialisation)"))
    B3.branch_stats()

    # 3b. targeted float-sensitive cases: `thickness + last >= dzsum` evaluated in floats
    B5 = Batch()
    hyd = [[0.1, 0.3, 0.5, 500.0, 100.0], [0.15, 0.31, 0.46, 500.0, 100.0], [0.23, 0.39, 0.5, 125.0, 100.0]]
    n5 = 0
    for dz in ([0.3] * 3, [0.1] * 12, [0.15] * 8, [0.05] * 4 + [0.1] * 8, [0.2] * 6):
        cum = np.round(np.cumsum(dz), 2)
        for last in cum[:-1]:
            for t2 in G.THICK:
                # float sum below a compartment bottom that the exact sum reaches
                hit = [s for s in cum if s > last and float(t2) + float(last) < float(s)
                       and round((t2 + last) * 100) >= round(s * 100)]
                if not hit:
                    continue
                n5 += 1
                lays = [[float(last)] + hyd[0], [float(t2)] + hyd[1], [3.0] + hyd[2]]
                sc = {"id": 0, "start": G.START, "end": G.END, "weather": {"kind": "file", "name": G.STATION},
                      "soil": {"type": "custom", "dz": list(dz), "layers": lays},
                      "crop": {"name": "Wheat", "planting": "05/01", "overrides": {"Zmax": 0.3}},
                      "iwc": {"wc_type": "Prop", "method": "Layer", "depth_layer": [1, 2, 3], "value": ["FC", "WP", "SAT"]},
                      "gw": None}
                B5.add_init(sc)
    ok &= check_all_ok(B5.compare(f"{n5} targeted layer thicknesses whose float sum falls short of a compartment bottom"))
    B5.branch_stats()

    # 4. groundwater alone
    B4 = Batch()
    for i in range(N_GW):
        B4.add_gw(rng)
    ok &= check_all_ok(B4.compare("gw_series direct fuzz (read_groundwater_table)"))
    out = proto.run_driver([l for l, _ in B4.pairs[GW.NAME]])
    c = collections.Counter()
    for (l, e), o in zip(B4.pairs[GW.NAME], out):
        t = l.split()
        c[f"method{t[2]}"] += 1
        if o.startswith("E"):
            c[o] += 1
        else:
            c["enlarged"] += int(o.split()[0][1:]) > int(t[1])
            c["nan_before_first"] += any(np.isnan(proto.b2f(x)) for x in o.split()[1:])
    print("   gw_series branches:", dict(sorted(c.items())))

    # 5. table
    ok &= check_builtin_table()
    # 6. repro
    if "--no-repro" not in sys.argv:
        ok &= repro_infinite_loop()
    print("ALL OK" if ok else "DISAGREEMENTS / FAILURES PRESENT")


if __name__ == "__main__":
    main()
