"""Correspondence of the Lean model of `drainage` with the real function: direct fuzz + whole
runs.  Run with:  /venv/bin/python -W ignore corr_drainage.py [n_fuzz] [n_scen]"""
import collections
import os
import sys
sys.path.insert(0, os.path.join(os.path.dirname(os.path.abspath(__file__)), ".."))
import numpy as np
from aqv import fuzzlib, proto, rec
from aqv.lines import drainage as L

N_FUZZ = int(sys.argv[1]) if len(sys.argv) > 1 else 6000
N_SCEN = int(sys.argv[2]) if len(sys.argv) > 2 else 8


def ghost_stats(reg, pairs, title, inv_ok=None):
    """branch histogram and `lost` statistics from the raw driver replies"""
    if not pairs:
        return
    out = proto.run_driver(reg.lines + [l for l, _ in pairs])[len(reg.lines):]
    hist = collections.Counter()
    n_lost = 0
    max_lost = 0.0
    n_lost_inv = 0
    max_lost_inv = 0.0
    for k, o in enumerate(out):
        if o.startswith("E"):
            hist[o] += 1
            continue
        lost, brs = L.ghosts(o)
        hist.update(brs)
        if lost != 0:
            n_lost += 1
            max_lost = max(max_lost, abs(lost))
            if inv_ok is not None and inv_ok[k]:
                n_lost_inv += 1
                max_lost_inv = max(max_lost_inv, abs(lost))
    print(title, "branch histogram (compartment visits):", dict(sorted(hist.items(), key=lambda kv: str(kv[0]))))
    print(title, f"calls with lost != 0: {n_lost} (max |lost| = {max_lost:g} mm)")
    if inv_ok is not None:
        print(title, f"calls satisfying Cell.Inv on input: {sum(inv_ok)}; of these with lost != 0: "
              f"{n_lost_inv} (max |lost| = {max_lost_inv:g} mm)")


def python_line_coverage(n, seed):
    """which lines of drainage.py the fuzz inputs execute (real code)"""
    import aquacrop.solution.drainage as mod
    fn = mod.drainage.__code__
    hit = set()

    def tr(frame, event, arg):
        if frame.f_code is fn:
            def local(frame, event, arg):
                if event == "line":
                    hit.add(frame.f_lineno)
                return local
            return local
        return None
    rng = np.random.default_rng(seed)
    sys.settrace(tr)
    try:
        for _ in range(n):
            L.FUNC(*L.fuzz(rng))
    finally:
        sys.settrace(None)
    import dis
    all_lines = {ln for _, _, ln in fn.co_lines() if ln is not None and ln > fn.co_firstlineno}
    missed = sorted(all_lines - hit)
    print(f"python line coverage of drainage(): {len(all_lines & hit)}/{len(all_lines)}; missed lines: {missed}")


# ---- direct fuzz -------------------------------------------------------------------------
rng = np.random.default_rng(3)
reg = proto.ProfRegistry()
pairs = []
inv_ok = []
for _ in range(N_FUZZ):
    args = L.fuzz(rng)
    _p, _th, _fc = args
    inv_ok.append(bool(np.all(_th <= _p.th_s) and np.all(_th >= _p.th_dry) and
                       np.all(_fc >= _p.th_fc) and np.all(_fc <= _p.th_s)))
    before = tuple(rec.snap(a) for a in args)
    try:
        res = L.FUNC(*args)
    except Exception as e:  # noqa: BLE001
        res = e
    pairs.append(L.encode(reg, before, res, args))
st = fuzzlib.compare_batch(L, reg, pairs)
print("direct fuzz:", st.as_dict())
ghost_stats(reg, pairs, "direct fuzz", inv_ok)
python_line_coverage(min(N_FUZZ, 3000), seed=3)

# ---- whole runs ----------------------------------------------------------------------------
enc_pairs = []
reg2 = proto.ProfRegistry()


def obs(name, before, res, after):
    if name == L.NAME:
        enc_pairs.append(L.encode(reg2, before, res, after))


from aqv import scen as scen_mod
scs = scen_mod.gen_scenarios(1, N_SCEN)
traces = []
with rec.Recorder(obs, names=[L.NAME]):
    for s in scs:
        traces.append(rec.run_scenario(s, scen_mod.build_model))
st2 = fuzzlib.compare_batch(L, reg2, enc_pairs)
print("whole runs:", st2.as_dict())
print([(t.scen["id"], t.n_steps, t.error) for t in traces])
ghost_stats(reg2, enc_pairs, "whole runs")
# the same through the stock helper, other scenarios
st3, tr3 = fuzzlib.whole_runs([L], N_SCEN, seed=2)
print("fuzzlib.whole_runs(seed=2):", st3[L.NAME].as_dict())
print([(t.scen["id"], t.n_steps, t.error) for t in tr3])
bad = st.bad + st2.bad + st3[L.NAME].bad
print("TOTAL disagreements:", bad)
sys.exit(1 if bad else 0)
