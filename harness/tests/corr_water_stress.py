import sys; sys.path.insert(0,'/verif/harness')
from aqv import fuzzlib
from aqv.lines import water_stress, aeration_stress
for L in (water_stress, aeration_stress):
    print(fuzzlib.direct_fuzz(L, 5000, seed=3).as_dict())
st,_=fuzzlib.whole_runs([water_stress, aeration_stress], 8, 2)
for s in st.values(): print(s.as_dict())
