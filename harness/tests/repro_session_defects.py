"""Minimal reproductions of the API-level defects found while modelling `AquaCropModel` as a state
machine (work package S).  Real model, real biophysics, no stubs.
/venv/bin/python -W ignore repro_session_defects.py"""
import os, sys
sys.path.insert(0, os.path.join(os.path.dirname(os.path.abspath(__file__)), ".."))
import warnings; warnings.filterwarnings("ignore")
from aquacrop import AquaCropModel, Soil, Crop, InitialWaterContent
from aquacrop.utils import prepare_weather, get_filepath

W = prepare_weather(get_filepath("tunis_climate.txt"))


def new():
    return AquaCropModel("1979/10/01", "1980/05/30", W.copy(), Soil("SandyLoam"),
                         Crop("Wheat", planting_date="10/01"), InitialWaterContent(value=["FC"]))


def show(label, f):
    try:
        r = f()
        print(f"  {label}: -> {type(r).__name__} {r if not hasattr(r, 'shape') else r.shape}")
    except Exception as e:  # noqa: BLE001
        print(f"  {label}: RAISED {type(e).__name__}: {str(e)[:90]}")


FAILED = []


def result(f):
    try:
        return f()
    except Exception as e:  # noqa: BLE001
        return e


print("1. [REPAIRED in repo commit 4f049e5 — regression check] _initialize clears __steps_are_finished:")
print("   a process_outputs=True call no longer breaks the later runs of the object")
m = new()
r1 = result(lambda: m.run_model(num_steps=1, process_outputs=True))
r2 = result(lambda: m.run_model(till_termination=True))          # re-initialises
ref = new()
ref.run_model(till_termination=True)
same = (r2 is True and m.get_simulation_results().equals(ref.get_simulation_results())
        and m.get_water_flux().equals(ref.get_water_flux()))
flags = []
for v in (True, False):
    k = new()
    for a in ("_AquaCropModel__steps_are_finished", "_AquaCropModel__has_model_executed",
              "_AquaCropModel__has_model_finished"):
        setattr(k, a, v)
    k._initialize()
    flags.append([getattr(k, a) for a in ("_AquaCropModel__steps_are_finished",
                                          "_AquaCropModel__has_model_executed",
                                          "_AquaCropModel__has_model_finished")])
ok1 = r1 is True and same and flags == [[False, True, True], [False, False, False]]
print(f"  first call {r1!r}, re-run {r2!r}, re-run equals a new object's run: {same}, "
      f"flags after _initialize (all True / all False before): {flags}")
print("  OK" if ok1 else "  REGRESSION")
if not ok1:
    FAILED.append(1)

print("2. stale has_model_finished: a raising call re-initialises first and leaves the flags")
m = new()
m.run_model(till_termination=True)
show("results rows after the full run", lambda: len(m.get_simulation_results()))
show("run_model(num_steps=0)", lambda: m.run_model(num_steps=0))
show("has_model_finished", lambda: m.get_additional_information()["has_model_finished"])
show("clock finished / day", lambda: (m._clock_struct.model_is_finished, m._clock_struct.time_step_counter))
show("results rows now", lambda: len(m.get_simulation_results()))

print("3. run_model returns True whether or not the model finished (docstring: 'True if finished')")
m = new()
show("run_model(num_steps=1)", lambda: m.run_model(num_steps=1))
show("has_model_finished", lambda: m.get_additional_information()["has_model_finished"])

print("4. a call after termination raises an unrelated ValueError and still updates _init_cond in place")
m = new()
m.run_model(till_termination=True)
d0 = m._init_cond.dap
show("run_model(num_steps=1, initialize_model=False)", lambda: m.run_model(num_steps=1, initialize_model=False))
print("   dap before/after the failed call:", d0, m._init_cond.dap)
show("execution_time after the failed call (negative: start reset, end not)",
     lambda: m.get_additional_information()["execution_time"])

print("5. process_outputs=True makes the object non-continuable")
m = new()
m.run_model(num_steps=3, process_outputs=True)
show("run_model(num_steps=3, initialize_model=False)", lambda: m.run_model(num_steps=3, initialize_model=False))

print("6. run_model(initialize_model=False) on a new object")
show("num_steps=1", lambda: new().run_model(num_steps=1, initialize_model=False))
show("till_termination", lambda: new().run_model(till_termination=True, initialize_model=False))
sys.exit(1 if FAILED else 0)
