"""Correspondence of work package U (pedotransfer function, `add_layer_from_texture`, capillary-rise
parameter classes).  Run with:  /venv/bin/python -W ignore corr_soil_texture.py [n_direct]

1. direct fuzz of the three handlers (real methods on `Soil("custom")` objects vs the Lean driver);
2. the 12 USDA class centroids (table printed; the Lean file `Proofs/SoilTexture.lean` proves the same
   rounded values over ℚ: `centroid_table`);
3. "whole runs": generated initialisation scenarios (`soil_build_gen.gen_case`) run through the real
   `AquaCropModel._initialize()` with `Soil.calculate_soil_hydraulic_properties` observed in place;
4. branch coverage from the ghost outputs;
5. replay of the texture points at which the hydraulic order fails / the method raises.
"""
import collections
import os
import sys

sys.path.insert(0, os.path.join(os.path.dirname(os.path.abspath(__file__)), ".."))
import numpy as np
from aqv import fuzzlib, proto, rec
from aqv.lines import soil_texture as ST, add_layer_from_texture as AL, cap_rise_params as CR
from aquacrop import Soil

N = int(sys.argv[1]) if len(sys.argv) > 1 else 12000
total_bad = 0


def show(st, extra=""):
    global total_bad
    d = st.as_dict()
    tot = d["bit_equal_tokens"] + d["tol_equal_tokens"]
    share = 100.0 * d["bit_equal_tokens"] / tot if tot else 100.0
    print(f"{d['name']:24s} calls={d['calls']:6d} disagreements={d['disagreements']} "
          f"bit-equal tokens={d['bit_equal_tokens']}/{tot} ({share:.3f} %) error replies={d['error_replies']} {extra}")
    for b in d["first_bad"]:
        print("   BAD", b)
    total_bad += d["disagreements"]


# ---- 1. direct fuzz -------------------------------------------------------------------------------
for L, n in ((ST, N), (AL, max(300, N // 6)), (CR, max(300, N // 6))):
    st = fuzzlib.direct_fuzz(L, n, seed=11)
    if st.bad:
        with rec.SharedLibm():
            st2 = fuzzlib.direct_fuzz(L, n, seed=11)
        show(st, f"(with shared libm: {st2.bad} disagreements)")
    else:
        show(st)

# ---- 1b. directed: the two guards random sampling does not meet ---------------------------------------
def _raw(S, C, OM, DF=1.0):
    """the polynomial part in the method's own operation order (used only to FIND inputs)"""
    p = -(0.024 * S) + 0.487 * C + 0.006 * OM + 0.005 * S * OM - 0.013 * C * OM + 0.068 * S * C + 0.031
    wp = p + 0.14 * p - 0.02
    q = -(0.251 * S) + 0.195 * C + 0.011 * OM + 0.006 * S * OM - 0.027 * C * OM + 0.452 * S * C + 0.299
    qa = q + (1.283 * (q * q) - 0.374 * q - 0.015)
    r = 0.278 * S + 0.034 * C + 0.022 * OM - 0.018 * S * OM - 0.027 * C * OM - 0.584 * S * C + 0.078
    ra = r + (0.636 * r - 0.107)
    ps = (qa + ra) + (-0.097 * S + 0.043)
    pN = (1 - ps) * 2.65
    pDF = pN * DF
    pc = (1 - pDF / 2.65) - (1 - pN / 2.65)
    return wp, qa + 0.2 * pc, 1 - pDF / 2.65


rng = np.random.default_rng(7)
g2 = []
while len(g2) < 40:                       # th_wp > 0 but th_fc <= 0 (compacted pure sand)
    a = (float(rng.uniform(0.97, 1.0)), 0.0, float(rng.uniform(0.95, 1.2)), float(rng.uniform(1.27, 1.3)))
    wp, fc, ts = _raw(*a)
    if wp > 0 and fc <= 0:
        g2.append(a)
g4 = []
while len(g4) < 40:                       # th_s - th_fc == 0.0 exactly (bisection on DF, then neighbours)
    s_, c_, om_ = float(rng.integers(0, 60)) / 100, float(rng.integers(0, 40)) / 100, float(rng.choice([1.0, 2.0, 2.5, 3.0]))
    gap = lambda d: _raw(s_, c_, om_, d)[2] - _raw(s_, c_, om_, d)[1]
    lo, hi = 1.0, 1.3
    if not (gap(lo) > 0 and gap(hi) < 0):
        continue
    for _ in range(80):
        mid = (lo + hi) / 2
        lo, hi = (mid, hi) if gap(mid) > 0 else (lo, mid)
    d = lo
    for _ in range(40):
        d = float(np.nextafter(d, 0.0))
    for _ in range(80):
        if gap(d) == 0.0:
            g4.append((s_, c_, om_, d))
            break
        d = float(np.nextafter(d, 2.0))
pairs, kinds = [], collections.Counter()
for tag, pts in (("th_fc<=0", g2), ("base==0", g4)):
    for a in pts:
        try:
            r = ST.FUNC(*a)
        except Exception as e:  # noqa: BLE001
            r = e
        kinds[f"{tag}:{type(r).__name__ if isinstance(r, Exception) else 'returns Ksat=' + str(r[3])}"] += 1
        pairs.append(ST.encode(None, a, r))
st = fuzzlib.compare_batch(ST, proto.ProfRegistry(), pairs)
st.name = "directed guards"
show(st, str(dict(kinds)))

# ---- 4. branch coverage (re-generate the same inputs, read the ghosts) ------------------------------
rng = np.random.default_rng(11)
args = [ST.fuzz(rng) for _ in range(N)]
out = proto.run_driver([ST.request(*a) for a in args])
cov = collections.Counter()
for a, o in zip(args, out):
    if o.startswith("E"):
        cov["E:value (method raises)"] += 1
    else:
        g = ST.ghosts(o)
        cov[f"ok wp<fc={int(g['wp_lt_fc'])} fc<s={int(g['fc_lt_s'])}"] += 1
print("soil_texture outcome classes:", dict(cov))
rng = np.random.default_rng(11)
n_cr = max(300, N // 6)
args = [CR.fuzz(rng) for _ in range(n_cr)]
out = proto.run_driver([" ".join([CR.NAME, str(a[0])] + [proto.f2b(x) for x in a[1:]]) for a in args])
leaves = collections.Counter("E:assert" if o.startswith("E") else f"leaf{CR.leaf(o)}" for o in out)
print("cap_rise_params leaves:", dict(sorted(leaves.items())))

# ---- 2. the USDA centroids -------------------------------------------------------------------------
print("USDA class centroids (organic matter 2.5 %, DF 1): real method / model")
pairs = []
for name, s, c in ST.USDA_CENTROIDS:
    a = (s / 100, c / 100, ST.CENTROID_OM)
    res = ST.FUNC(*a)
    pairs.append(ST.encode(None, a, res))
    print(f"   {name:14s} sand={s:3d} clay={c:3d}  th_wp={res[0]:.3f} th_fc={res[1]:.3f} th_s={res[2]:.3f} Ksat={res[3]:.1f}"
          f"  ordered={0 < res[0] < res[1] < res[2] < 1 and res[3] > 0}")
st = fuzzlib.compare_batch(ST, proto.ProfRegistry(), pairs)
st.name = "centroids"
show(st)
# the table proved over ℚ in Lean (`centroidTable`, theorem `centroid_table`) = what the real method returns
import re
lean_file = os.path.join(proto.LEAN_DIR, "AquaVerif", "Proofs", "SoilTexture.lean")
src = open(lean_file).read()
body = src.split("def centroidTable", 1)[1].split(":=", 1)[1].split("def centroidRowOK", 1)[0]
table = [tuple(int(x) for x in m) for m in re.findall(r"\((\d+), (\d+), (\d+), (\d+), (\d+)\)", body)]
real = []
for name, s, c in ST.USDA_CENTROIDS:
    r = ST.FUNC(s / 100, c / 100, ST.CENTROID_OM)
    real.append((s, c, round(r[0] * 1000), round(r[1] * 1000), round(r[2] * 1000)))
    assert all(abs(x * 1000 - round(x * 1000)) < 1e-9 for x in r[:3])
ok_table = (table == real)
print(f"Lean centroidTable ({len(table)} rows) equals the real method's thousandths: {ok_table}")
if not ok_table:
    total_bad += 1

# ---- 3. initialisation scenarios -------------------------------------------------------------------
from aqv.lines import soil_profile as SP, soil_build_gen
calls = []
orig = Soil.calculate_soil_hydraulic_properties


def watched(self, *a, **kw):
    try:
        r = orig(self, *a, **kw)
    except Exception as e:  # noqa: BLE001
        calls.append((a, e))
        raise
    calls.append((a, r))
    return r


Soil.calculate_soil_hydraulic_properties = watched
n_scen = 0
try:
    rng = np.random.default_rng(23)
    while n_scen < (60 if N < 5000 else 400):
        sc = soil_build_gen.gen_case(rng)
        if not sc["soil"].get("texture"):
            continue
        n_scen += 1
        SP.run_init(sc)
finally:
    Soil.calculate_soil_hydraulic_properties = orig
st = fuzzlib.compare_batch(ST, proto.ProfRegistry(), [ST.encode(None, a, r) for a, r in calls])
st.name = f"init scenarios ({n_scen})"
show(st)

# ---- 3b. whole runs through the engine's collector (`ST.Observe` rebinds the method on the class) ----
from aqv import collect, scen as scen_mod
scs = scen_mod.gen_scenarios(5, 8)
rng = np.random.default_rng(5)
for sc in scs:
    tex = [[float(rng.choice([0.3, 0.5, 1.0])), float(rng.integers(5, 70)), float(rng.integers(5, 30)),
            float(rng.choice([1.0, 2.5, 4.0])), 100.0], [3.0, float(rng.integers(5, 50)), float(rng.integers(5, 45)),
                                                         float(rng.choice([0.5, 1.5, 3.0])), 100.0]]
    sc["soil"] = {"type": "custom", "dz": [0.1] * 12, "texture": tex}
data = collect.collect(scs)
reg = proto.ProfRegistry()
reg.lines = list(data["prof_lines"])
st = fuzzlib.compare_batch(ST, reg, [(l, e) for (_, _, l, e) in data["pairs"].get("soil_texture", [])])
st.name = f"whole runs ({len(scs)} scen.)"
show(st, f"encoder errors={dict(data.get('enc_errors') or {})}")
assert st.calls >= 2 * len(scs)

# ---- 5. findings replayed on the real methods ------------------------------------------------------
print("replay of the findings on the real methods:")
for pt in [(40, 60, 8.0), (0, 100, 8.0), (20, 80, 4.0), (90, 0, 0.5), (100, 0, 0.0), (92, 3, 0.2), (40, 20, 2.5)]:
    soil = Soil("custom", dz=[0.1] * 3)
    try:
        soil.add_layer_from_texture(0.3, pt[0], pt[1], pt[2], 100)
        r = soil.profile.iloc[0]
        print(f"   add_layer_from_texture(0.3, {pt[0]}, {pt[1]}, {pt[2]}, 100): th_wp={r.th_wp} th_fc={r.th_fc} "
              f"th_s={r.th_s} Ksat={r.Ksat}  wp<fc={r.th_wp < r.th_fc} fc<=s={r.th_fc <= r.th_s}")
    except Exception as e:  # noqa: BLE001
        print(f"   add_layer_from_texture(0.3, {pt[0]}, {pt[1]}, {pt[2]}, 100): {type(e).__name__}: {e}")
for a in [(0.0, 0.0, 1.0, 1.3), (0.5, 0.5, 0.0, 1.3), (0.1, 0.3, 2.5, 1.2)]:
    try:
        print(f"   calculate_soil_hydraulic_properties{a}: {ST.FUNC(*a)}")
    except Exception as e:  # noqa: BLE001
        print(f"   calculate_soil_hydraulic_properties{a}: {type(e).__name__}: {e}")
for k in CR.ZERO_A:
    ths = 0.58 if k < 1000 else 0.46
    try:
        print(f"   cap. rise, th_wp=0.15 th_fc=0.31 th_s={ths} Ksat={k}: {CR.FUNC(2, 0.15, 0.31, ths, k)}")
    except AssertionError as e:
        print(f"   cap. rise, th_wp=0.15 th_fc=0.31 th_s={ths} Ksat={k}: AssertionError (aCR == 0)")

print("TOTAL disagreements:", total_bad)
sys.exit(1 if total_bad else 0)
