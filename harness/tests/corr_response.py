"""Correspondence of the response-function models (Model/Response.lean) with the real code.
Run with:  /venv/bin/python -W ignore corr_response.py [n_fuzz] [n_scen]"""
import os, sys, json
sys.path.insert(0, os.path.join(os.path.dirname(os.path.abspath(__file__)), ".."))
import numpy as np
from aqv import fuzzlib, proto, scen as scen_mod
from aqv.lines import (temperature_stress, growing_degree_day, cc_development, cc_required_time,
                       fco2_init, fco2_reset, water_stress, aeration_stress)

N = int(sys.argv[1]) if len(sys.argv) > 1 else 6000
NS = int(sys.argv[2]) if len(sys.argv) > 2 else 12
ALL = [temperature_stress, growing_degree_day, cc_development, cc_required_time, fco2_init, fco2_reset]
bad = 0


def show(tag, L, st):
    global bad
    d = st.as_dict()
    tot = d["bit_equal_tokens"] + d["tol_equal_tokens"]
    d["bit_share"] = round(d["bit_equal_tokens"] / tot, 4) if tot else None
    br = getattr(L.trim_reply, "branches", None)
    if br is not None:
        d["branches"] = dict(sorted(br.items()))
        br.clear()
    bad += d["disagreements"]
    print(tag, json.dumps(d, default=str))


print("CO2 block of compute_variables cut from source lines", fco2_init.BLOCK_LINES)
# 1. direct fuzz
for L in ALL + [water_stress, aeration_stress]:
    show("fuzz", L, fuzzlib.direct_fuzz(L, N, seed=17))

# 2. whole runs (reset_initial_conditions is only called from the second season on)
rec_encs = [temperature_stress, growing_degree_day, cc_development, cc_required_time, fco2_reset,
            water_stress, aeration_stress]
scs = scen_mod.gen_scenarios(5, max(NS, 5))
# multi-season scenarios again with other CO2 settings, so that the reset copy of the CO2 block
# is exercised in several regimes (it only runs from the second season on)
import copy
for j, (bi, co2) in enumerate([(0, {"constant": True, "current": 300.0}),
                               (0, {"constant": True, "current": 520.0}),
                               (4, {"constant": True, "current": 700.0}),
                               (4, {"constant": True, "current": 2200.0}),
                               (1, {"constant": False, "series": [[1900, 300.0], [2100, 2400.0]]}),
                               (3, {"constant": False, "series": [[1990, 360.0], [2003, 620.0]]}),
                               (4, {"constant": False, "series": [[1980, 365.0], [1985, 560.0]]})]):
    s = copy.deepcopy(scs[bi]); s["id"] = 100 + j; s["co2"] = co2
    scs.append(s)
stats, traces = fuzzlib.whole_runs(rec_encs, len(scs), seed=5, scenarios=scs)
for L in rec_encs:
    show("runs", L, stats[L.NAME])
print("runs", [(t.scen["id"], t.scen["crop"]["name"], t.n_steps, t.error) for t in traces])

# 3. fco2_init against really initialised models (real compute_variables): the scenarios above
#    plus models with overridden CO2 / crop parameters
pairs = []
for s in scs:
    m = scen_mod.build_model(s)
    m._initialize()
    pairs.append(fco2_init.encode_model(m))
rng = np.random.default_rng(23)
for i in range(60):
    conc, ref, bsted, bface, fsink, wp = fco2_init.fuzz_values(rng)
    s = dict(scs[i % min(4, len(scs))])
    s["crop"] = dict(s["crop"], overrides=dict(bsted=bsted, bface=bface, fsink=fsink, WP=wp))
    m = scen_mod.build_model(s)
    from aquacrop import CO2
    m.co2_concentration = CO2(ref_concentration=ref, constant_conc=True, current_concentration=conc)
    m._initialize()
    pairs.append(fco2_init.encode_model(m))
show("init-real", fco2_init, fuzzlib.compare_batch(fco2_init, proto.ProfRegistry(), pairs))

print("TOTAL DISAGREEMENTS", bad)

# 4. premises of the lemmas on the 37 built-in crops, and the C17 statements themselves checked on
#    a lattice of arguments with the *real* functions (float rounding tolerance 1e-12)
from aqv.lines._response_common import crop_table
from aquacrop.solution.water_stress import water_stress
from aquacrop.solution.temperature_stress import temperature_stress as ts_real
from aquacrop.solution.growing_degree_day import growing_degree_day as gdd_real
from aquacrop.solution.cc_development import cc_development as ccd_real
from aquacrop.solution.cc_required_time import cc_required_time as crt_real
from aqv.lines._response_common import stub as _stub
TOL = 1e-12
prem = dict(p_order=0, p_lo_le1=0, fshape_nz=0, tb_le_tu=0, heat_names_inverted=0, cold_ordered=0,
            cc0_pos=0, ccx_le1=0, co2params=0, beta_ok=0, fshape_b_nn=0)
viol = []
crops = crop_table()
for k in crops:
    prem["p_order"] += all(k.p_up[i] <= k.p_lo[i] for i in range(4))
    prem["p_lo_le1"] += all(k.p_lo[i] <= 1 for i in range(4))
    prem["fshape_nz"] += all(k.fshape_w[i] != 0 for i in range(3))
    prem["tb_le_tu"] += k.Tbase <= k.Tupp
    prem["heat_names_inverted"] += (k.Tmax_up < k.Tmax_lo)
    prem["cold_ordered"] += (k.Tmin_lo < k.Tmin_up)
    prem["cc0_pos"] += k.CC0 > 0
    prem["ccx_le1"] += 0 < k.CCx <= 1
    g = k.bsted * k.fsink + k.bface * (1 - k.fsink)
    prem["co2params"] += (k.bsted >= 0 and k.bsted <= g and 369.41 * g + 550 * (g - k.bsted) < 1)
    prem["beta_ok"] += 0 <= k.beta <= 100
    prem["fshape_b_nn"] += k.fshape_b >= 0
    # water stress lattice
    for et0 in (0.1, 2.0, 5.0, 9.0, 20.0):
        for (bf, tes) in ((False, 0), (True, 3)):
            prev = None
            for dr in np.linspace(-0.2, 1.2, 141) * 100.0:
                ks = water_stress(k.p_up, k.p_lo, k.ETadj, k.beta, k.fshape_w, tes, float(dr), 100.0, et0, bf)
                if not all(-TOL <= v <= 1 + TOL for v in ks):
                    viol.append(("ws-range", k.Name, et0, dr, ks))
                if prev is not None and not all(b <= a + TOL for a, b in zip(prev, ks)):
                    viol.append(("ws-mono", k.Name, et0, dr, prev, ks))
                prev = ks
    # temperature lattice
    ph = pc = None
    for t in np.linspace(-30, 60, 361):
        h, c = ts_real(k, float(t), float(t))
        if not (0 <= h <= 1 and 0 <= c <= 1):
            viol.append(("ts-range", k.Name, t, h, c))
        if ph is not None and (h > ph + TOL or c < pc - TOL):
            viol.append(("ts-mono", k.Name, t, ph, h, pc, c))
        ph, pc = h, c
    # gdd lattice
    for m in (1, 2, 3):
        for tmin in np.linspace(-30, 60, 46):
            pg = None
            for tmax in np.linspace(-30, 60, 46):
                gd = gdd_real(m, k.Tupp, k.Tbase, float(tmax), float(tmin))
                if not (-TOL <= gd <= k.Tupp - k.Tbase + TOL):
                    viol.append(("gdd-range", k.Name, m, tmax, tmin, gd))
                if pg is not None and gd < pg - TOL:
                    viol.append(("gdd-mono-tmax", k.Name, m, tmax, tmin, pg, gd))
                pg = gd
                if gdd_real(m, k.Tupp, k.Tbase, float(tmax), float(tmin) + 1.0) < gd - TOL:
                    viol.append(("gdd-mono-tmin", k.Name, m, tmax, tmin))
    # canopy curves
    cgc, cdc, tmax_ = (k.CGC, k.CDC, 3000.0) if k.CGC > 0 else (0.12, 0.08, 200.0)
    pgr = pdc = None
    for dt in np.linspace(0, tmax_, 301):
        gr = ccd_real(k.CC0, k.CCx, cgc, cdc, float(dt), "Growth", k.CCx)
        dc = ccd_real(k.CC0, k.CCx, cgc, cdc, float(dt), "Decline", k.CCx)
        if not (0 <= gr <= k.CCx + TOL and 0 <= dc <= k.CCx + TOL):
            viol.append(("cc-range", k.Name, dt, gr, dc))
        if pgr is not None and (gr < pgr - TOL or dc > pdc + TOL):
            viol.append(("cc-mono", k.Name, dt, pgr, gr, pdc, dc))
        pgr, pdc = gr, dc
        if gr < k.CCx * (1 - 1e-6):
            back = crt_real(gr, k.CC0, k.CCx, cgc, cdc, "CGC")
            if abs(back - dt) > 1e-6 * max(1.0, dt):
                viol.append(("cc-inverse", k.Name, dt, gr, back))
    # CO2 factor (both copies)
    for fn in (fco2_init.FUNC,):
        pf = None
        for conc in np.linspace(250, 2500, 451):
            f = fn(float(conc), 369.41, _stub(bsted=k.bsted, bface=k.bface, fsink=k.fsink, WP=k.WP))
            if pf is not None and f < pf - TOL:
                viol.append(("co2-mono", k.Name, conc, pf, f))
            pf = f
        if fn(369.41, 369.41, _stub(bsted=k.bsted, bface=k.bface, fsink=k.fsink, WP=k.WP)) != 1.0:
            viol.append(("co2-ref", k.Name))
print("premises satisfied (out of %d crops):" % len(crops), prem)
print("lattice violations on the real functions:", len(viol), viol[:5])

# 5. reproduction of the reset copy's unbound read through the public API
#    (needs a reference concentration above 550 ppm, which `CO2(ref_concentration=...)` accepts)
from aquacrop import AquaCropModel, Soil, Crop, InitialWaterContent, CO2
from aquacrop.utils import prepare_weather, get_filepath
w = prepare_weather(get_filepath("tunis_climate.txt"))
m = AquaCropModel("1979/10/01", "1981/05/30", w, Soil("SandyLoam"), Crop("Wheat", planting_date="10/01"),
                  InitialWaterContent(value=["FC"]),
                  co2_concentration=CO2(ref_concentration=600., constant_conc=True, current_concentration=580.))
try:
    m.run_model(till_termination=True)
    print("reset-unbound reproduction: run finished (NOT reproduced)")
except UnboundLocalError as e:
    c = m._param_struct.Seasonal_Crop_List[1]
    line = " ".join(["fco2_reset", proto.f2b(580.), proto.f2b(600.), proto.f2b(c.bsted), proto.f2b(c.bface),
                     proto.f2b(c.fsink), proto.f2b(c.WP)])
    print("reset-unbound reproduction:", type(e).__name__, str(e)[:80], "| model:", proto.run_driver([line])[0])
