"""Correspondence of the SwitchGDD slice (Model/PrepareGdd.lean): `compute_crop_calendar` with
`CalendarType == 1`, `SwitchGDD == 1` (handler prepare_gdd): direct fuzz of the real function and whole
AquaCropModel runs with `SwitchGDD=1`.
Run with:  /venv/bin/python -W ignore corr_prepare_gdd.py [n_fuzz] [shared]
(`shared`: the implementation runs on the C library's exp/log/pow, `rec.SharedLibm`, for bit-equality)."""
import os, sys, collections, contextlib
sys.path.insert(0, os.path.join(os.path.dirname(os.path.abspath(__file__)), ".."))
import numpy as np
from aqv import fuzzlib, proto, rec
from aqv.lines import prepare_gdd as PG

N = int(sys.argv[1]) if len(sys.argv) > 1 else 3000
SHARED = "shared" in sys.argv[2:]


def branch_of(line, exp):
    t = line.split()
    n = int(t[22])
    labs = [int(x) for x in t[23::3]]
    ns = len(set(labs))
    out = exp if exp.startswith("E") else "ok"
    nanrow = " nan-rows" if 0 in labs else ""
    return (f"m={t[3]} type3={int(t[2] == '3')} sum={t[4]} det={t[1]} seasons={ns if n else 0}{nanrow} {out}")


def fuzz_loop(n, seed, branches, batch=300):
    rng = np.random.default_rng(seed)
    st = fuzzlib.CorrStats(PG.HANDLER)
    reg = proto.ProfRegistry()
    pairs, skipped = [], collections.Counter()
    for _ in range(n):
        args = PG.fuzz(rng)
        res = PG.FUNC(*args)
        try:
            pr = PG.encode(reg, args, res, args)
        except PG.Skip as e:
            skipped[str(e)[:40]] += 1
            continue
        branches[branch_of(*pr)] += 1
        pairs.append(pr)
        if len(pairs) >= batch:
            fuzzlib.compare_batch(PG, reg, pairs, st)
            pairs = []
    fuzzlib.compare_batch(PG, reg, pairs, st)
    return st, skipped


RUNS = [("Wheat", "tunis_climate.txt", "10/01", "1985/10/01", "1989/05/30", "mean", 1),
        ("Wheat", "tunis_climate.txt", "11/15", "1990/11/15", "1994/09/30", "median", 2),
        ("Maize", "champion_climate.txt", "05/01", "1990/05/01", "1993/12/31", "mean", 3),
        ("Maize", "champion_climate.txt", "05/01", "1990/04/01", "1990/12/31", "median", 2),
        ("Potato", "brussels_climate.txt", "04/25", "1980/04/25", "1982/12/31", "median", 3),
        ("Tomato", "tunis_climate.txt", "04/15", "1995/04/15", "1997/12/31", "mean", 2),
        ("Sunflower", "tunis_climate.txt", "04/01", "1981/04/01", "1984/12/31", "mean", 1),
        ("Quinoa", "brussels_climate.txt", "05/01", "1990/03/01", "1992/12/31", "median", 3),
        ("Wheat", "tunis_climate.txt", "10/01", "1985/10/01", "1988/01/15", "mean", 3)]   # short last season


def whole(branches):
    from aquacrop import AquaCropModel, Soil, Crop, InitialWaterContent
    from aquacrop.utils import prepare_weather, get_filepath
    reg = proto.ProfRegistry()
    pairs, skipped, info = [], collections.Counter(), []

    def obs(name, before, res, after):
        try:
            pr = PG.encode(reg, before, res, after)
        except PG.Skip as e:
            skipped[str(e)[:40]] += 1
            return
        branches["run: " + branch_of(*pr)] += 1
        pairs.append(pr)

    with PG.Observe(obs):
        for (cn, stn, pdate, s, e, sf, m) in RUNS:
            w = prepare_weather(get_filepath(stn))
            crop = Crop(cn, planting_date=pdate, SwitchGDD=1, SwitchGDDType=sf, GDDmethod=m)
            model = AquaCropModel(s, e, w, Soil("Loam"), crop, InitialWaterContent(value=["FC"]))
            err = None
            try:
                model.run_model(till_termination=True)
                y = list(model.get_simulation_results()["Dry yield (tonne/ha)"].round(3))
            except Exception as ex:  # noqa: BLE001
                err, y = type(ex).__name__, None
            info.append((cn, pdate, s, e, sf, m, err, y))
    st = fuzzlib.compare_batch(PG, reg, pairs, fuzzlib.CorrStats(PG.HANDLER))
    return st, skipped, info


if __name__ == "__main__":
    br = collections.Counter()
    bad = 0
    with (rec.SharedLibm() if SHARED else contextlib.nullcontext()):
        st, sk = fuzz_loop(N, 31, br)
        d = st.as_dict()
        bad += d["disagreements"]
        tok = d["bit_equal_tokens"] + d["tol_equal_tokens"]
        print("FUZZ", d, "skipped", dict(sk), "bit-equal share %.6f" % (d["bit_equal_tokens"] / max(1, tok)))
        st, sk, info = whole(br)
        d = st.as_dict()
        bad += d["disagreements"]
        tok = d["bit_equal_tokens"] + d["tol_equal_tokens"]
        print("RUNS", d, "skipped", dict(sk), "bit-equal share %.6f" % (d["bit_equal_tokens"] / max(1, tok)))
        for i in info:
            print("   ", i)
    agg = collections.Counter()
    for k, v in br.items():
        agg[k] += v
    for k in sorted(agg):
        print("%6d  %s" % (agg[k], k))
    print("TOTAL DISAGREEMENTS", bad)
