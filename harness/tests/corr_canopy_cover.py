"""Correspondence of `canopy_cover` (with `adjust_CCx`, `update_CCx_CDC`): direct fuzz + whole runs,
with branch statistics (the model's ghost branch code) and a range scan of the real outputs.
Run with:  /venv/bin/python -W ignore corr_canopy_cover.py [n_fuzz] [n_scen]"""
import os, sys, collections
sys.path.insert(0, os.path.join(os.path.dirname(os.path.abspath(__file__)), ".."))
import numpy as np
from aqv import fuzzlib, proto, rec, scen as scen_mod
from aqv.lines import canopy_cover as L

N_FUZZ = int(sys.argv[1]) if len(sys.argv) > 1 else 6000
N_SCEN = int(sys.argv[2]) if len(sys.argv) > 2 else 12


def share(d):
    tot = d["bit_equal_tokens"] + d["tol_equal_tokens"]
    return d["bit_equal_tokens"] / max(1, tot)


def fuzz_pairs(n, seed):
    rng = np.random.default_rng(seed)
    reg = proto.ProfRegistry()
    pairs, facts = [], []
    for _ in range(n):
        args = L.fuzz(rng)
        before = tuple(rec.snap(a) for a in args)
        try:
            res = L.FUNC(*args)
        except Exception as e:  # noqa: BLE001
            res = e
        pairs.append(L.encode(reg, before, res, args))
        facts.append((before, res))
    return reg, pairs, facts


def run_fuzz(n, seed, with_branches=True):
    reg, pairs, facts = fuzz_pairs(n, seed)
    st = fuzzlib.compare_batch(L, reg, pairs)
    br = collections.Counter()
    if with_branches:
        out = proto.run_driver(reg.lines + [l for l, _ in pairs])[len(reg.lines):]
        for (l, e), o in zip(pairs, out):
            if o.startswith("E"):
                br[o] += 1
            else:
                br.update(L.branch_names(o.split()[-1][1:]))
    return st, br, facts


def range_scan(facts):
    """C05 on the real outputs of in-range inputs: counts of violations"""
    c = collections.Counter()
    for before, res in facts:
        crop, prof, ztop, ic, gdd, et0, gs = before
        if isinstance(res, Exception):
            continue
        ccx = float(crop.CCx)
        if not gs:
            c["off:nonzero"] += int(any(getattr(res, f) != 0 for f in
                                        ["canopy_cover", "canopy_cover_ns", "canopy_cover_adj",
                                         "canopy_cover_adj_ns"]))
            continue
        c["in-season"] += 1
        c["cc<0"] += int(res.canopy_cover < 0)
        c["cc>ccns"] += int(res.canopy_cover > res.canopy_cover_ns)
        c["ccadj>1"] += int(res.canopy_cover_adj > 1 or res.canopy_cover_adj_ns > 1)
        pre_ok = (0 <= ic.canopy_cover <= ccx and 0 <= ic.ccx_act <= ccx and 0 <= ic.cc0_adj <= crop.CC0
                  and 0 <= ic.canopy_cover_ns <= ccx and 0 <= ic.ccx_act_ns <= ccx)
        if pre_ok:
            c["pre-ok"] += 1
            c["cc>CCx"] += int(res.canopy_cover > ccx * (1 + 1e-12))
            c["ccns>CCx"] += int(res.canopy_cover_ns > ccx * (1 + 1e-12))
            c["ccx_act>CCx"] += int(res.ccx_act > ccx * (1 + 1e-12))
    return dict(c)


def whole(scs):
    """like `fuzzlib.whole_runs`, keeping the recorded calls for branch statistics / range scan"""
    reg = proto.ProfRegistry()
    pairs, facts = [], []

    def obs(name, before, res, after):
        if name == L.NAME:
            pairs.append(L.encode(reg, before, res, after))
            facts.append((before, rec.snap(res) if not isinstance(res, Exception) else res))

    traces = []
    with rec.Recorder(obs, names=[L.NAME]):
        for sc in scs:
            traces.append(rec.run_scenario(sc, scen_mod.build_model))
    st = fuzzlib.compare_batch(L, reg, pairs)
    br = collections.Counter()
    out = proto.run_driver(reg.lines + [l for l, _ in pairs])[len(reg.lines):]
    for o in out:
        br.update([o] if o.startswith("E") else L.branch_names(o.split()[-1][1:]))
    return st, br, facts, traces


def scenarios(n):
    """`n - 6` stratified scenarios + 6 rain-fed drought scenarios (synthetic weather) that
    initialise (a generated window can be too short for the crop: those are skipped)"""
    rng = np.random.default_rng(11)
    scs = scen_mod.gen_scenarios(1, max(0, n - 6))
    forced = ["MaizeGDD", None, "Wheat", None, "WheatGDD", None, None, None, None, None]
    k = 0
    for i, crop in enumerate(forced):
        st = {"synth": True, "regime": "drought", "irr_method": 0}
        if crop:
            st["crop"] = crop
        sc = scen_mod.gen_scenario(rng, 100 + i, st)
        try:
            scen_mod.build_model(sc)._initialize()
        except Exception:  # noqa: BLE001
            continue
        scs.append(sc)
        k += 1
        if k == 6:
            break
    return scs


def repros():
    """real-function reproductions of the two places where a premise of `cc_range` is needed:
    (a) the unclipped `CC0adj*exp(CGC*dtCC)`; (b) `ccx_act := CCXadj > CCx` through rewatering"""
    import copy
    from aquacrop.entities.initParamVariables import InitialCondition
    from aquacrop.entities.soilProfile import SoilProfile
    n = 12
    p = SoilProfile(n)
    p.dz = np.full(n, 0.1); p.dzsum = np.round(np.cumsum(p.dz), 2); p.Layer = np.ones(n, dtype=np.int64)
    p.th_wp[:] = 0.15; p.th_fc[:] = 0.31; p.th_s[:] = 0.46; p.th_dry[:] = 0.075
    p.Ksat[:] = 500; p.tau[:] = 0.76; p.Penetrability[:] = 100
    p.zBot = p.dzsum.copy(); p.z_top = p.zBot - p.dz; p.zMid = (p.z_top + p.zBot) / 2
    wheat = [c for c in L._crop_pool() if c.Name == "Wheat"][0]

    def state(dap, cc, tes, ccx_act):
        ic = InitialCondition(n)
        ic.th = np.full(n, 0.31); ic.z_root = 1.0; ic.dap = dap
        ic.canopy_cover = cc; ic.canopy_cover_ns = max(cc, 0.3) if cc > 0 else 0.0
        ic.cc0_adj = wheat.CC0; ic.ccx_act = ccx_act; ic.ccx_act_ns = 0.94 if cc > 0 else 0.0
        ic.ccx_w = ccx_act; ic.t_early_sen = tes; ic.ccx_early_sen = 0.6 if tes else 0.0
        ic.protected_seed = False
        return ic

    out = {}
    for key, crop, ic in [("a", None, state(20, 0.0, 0, 0.0)), ("b", wheat, state(196, 0.48, 3, 0.96))]:
        if crop is None:
            crop = copy.deepcopy(wheat); crop.CCx = 0.07          # CC0 = 0.0675, CGC = 0.04901
        args = (crop, p, 0.1, ic, 10.0, 5.0, True)
        before = tuple(rec.snap(a) for a in args)
        r = L.FUNC(*args)
        reg = proto.ProfRegistry()
        st = fuzzlib.compare_batch(L, reg, [L.encode(reg, before, r, args)])
        out[key] = dict(CCx=float(crop.CCx), cc=float(r.canopy_cover), cc_ns=float(r.canopy_cover_ns),
                        ccx_act=float(r.ccx_act), model_agrees=st.bad == 0)
    return out


if __name__ == "__main__":
    st, br, facts = run_fuzz(N_FUZZ, seed=7)
    d = st.as_dict()
    print("direct fuzz:", d)
    print("bit-equal share: %.5f" % share(d))
    print("branches:", dict(sorted(br.items())))
    print("range scan of the real outputs:", range_scan(facts))
    if st.bad:
        with rec.SharedLibm():
            st2, _, _ = run_fuzz(N_FUZZ, seed=7, with_branches=False)
        d2 = st2.as_dict()
        print("direct fuzz, exp/log/pow through libm (same inputs):", d2)
        print("=> disagreements with numpy's exp/log: %d; persisting with a shared libm: %d"
              % (st.bad, st2.bad))
    print("repros (a) unclipped first-day growth, (b) rewatering ccx_act > CCx:", repros())
    scs = scenarios(N_SCEN)
    s, br, facts, traces = whole(scs)
    d = s.as_dict()
    print("whole runs:", d)
    print("bit-equal share: %.5f" % share(d))
    print("branches:", dict(sorted(br.items())))
    print("range scan of the real outputs:", range_scan(facts))
    if s.bad:
        with rec.SharedLibm():
            s2, _, _, _ = whole(scs)
        print("whole runs with a shared libm:", s2.as_dict())
    # the same through the stock helper (what the tie engine uses)
    stats, _ = fuzzlib.whole_runs([L], len(scs), seed=1, scenarios=scs[:4])
    print("fuzzlib.whole_runs (first 4 scenarios):", stats[L.NAME].as_dict())
    print([(t.scen["id"], t.scen["crop"]["name"], t.n_steps, t.error) for t in traces])
