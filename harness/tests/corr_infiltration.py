"""Correspondence of `infiltration`: direct fuzz + whole runs.
Run with:  /venv/bin/python -W ignore corr_infiltration.py [n_fuzz] [n_scen]"""
import os, sys, collections
sys.path.insert(0, os.path.join(os.path.dirname(os.path.abspath(__file__)), ".."))
import numpy as np
from aqv import fuzzlib, proto, rec
from aqv.lines import infiltration as L

n_fuzz = int(sys.argv[1]) if len(sys.argv) > 1 else 6000
n_scen = int(sys.argv[2]) if len(sys.argv) > 2 else 8


def share(st):
    tot = st.bit_tokens + st.tol_tokens
    return st.bit_tokens / tot if tot else 1.0


# --- direct fuzz (with line coverage of the real function and the model's branch ghost) ---
import coverage
src = L.FUNC.__code__.co_filename
cov = coverage.Coverage(include=[src], data_file=None)
rng = np.random.default_rng(3)
reg = proto.ProfRegistry()
pairs = []
cov.start()
for _ in range(n_fuzz):
    args = L.fuzz(rng)
    before = tuple(rec.snap(a) for a in args)
    try:
        res = L.FUNC(*args)
    except Exception as e:  # noqa: BLE001
        res = e
    pairs.append(L.encode(reg, before, res, args))
cov.stop()
st = fuzzlib.compare_batch(L, reg, pairs)
print("direct fuzz:", st.as_dict(), "bit-equal share %.5f" % share(st))
_, stmts, _, missing, _ = cov.analysis2(src)
print("python lines not executed by the fuzz:", missing, "of", len(stmts), "statements")
out = proto.run_driver(reg.lines + [l for l, _ in pairs])[len(reg.lines):]
br = collections.Counter()
errs = collections.Counter()
for o in out:
    g = L.ghosts(o)
    if g is None:
        errs[o] += 1
    else:
        br[g[-1]] += 1
print("model errors:", dict(errs))
print("model branch ids (surface 1-9, +10 loop, +20 back-up reached surface, +40 bund re-storage,"
      " +80 re-storage overtopped):", dict(sorted(br.items())))

# --- whole runs ---
stats, traces = fuzzlib.whole_runs([L], n_scen, seed=2)
for s in stats.values():
    print("whole runs:", s.as_dict(), "bit-equal share %.5f" % share(s))
print([(t.scen["id"], t.n_steps, t.error) for t in traces])
