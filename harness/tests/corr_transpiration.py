"""Correspondence of `transpiration`: direct fuzz + whole runs, with branch statistics.
Run with:  /venv/bin/python -W ignore corr_transpiration.py [n_fuzz] [n_scen]"""
import os, sys, collections, math, importlib
sys.path.insert(0, os.path.join(os.path.dirname(os.path.abspath(__file__)), ".."))
import numpy as np
from aqv import fuzzlib, proto, rec
from aqv.lines import transpiration as L

N_FUZZ = int(sys.argv[1]) if len(sys.argv) > 1 else 6000
N_SCEN = int(sys.argv[2]) if len(sys.argv) > 2 else 10


def branches(before, res):
    """branch ids reached by one real call, derived from its inputs/outputs"""
    prof, ncomp, ztop, crop, method, smt, ic, et0, co2, gs, gdd = before
    out = []
    if isinstance(res, Exception):
        return ["raise:" + type(res).__name__]
    tr, trns, tr0, nc, irr = res
    if not gs:
        return ["offseason"]
    out.append("gs")
    out.append(f"method{int(method)}")
    if crop.ETadj != 1:
        out.append("etadj-off")
    if ic.dap - ic.delayed_cds > crop.MaxCanopyCD:
        out.append("ageing-update")
    if nc.age_days > 5:
        out.append("kcb-aged")
    if co2.current_concentration > co2.ref_concentration:
        out.append("co2-above")
    if ic.canopy_cover < ic.ccx_w and ic.ccx_w > 0.001 and ic.canopy_cover > 0.001:
        out.append("dying-canopy-pow")
    if crop.TrColdStress == 1:
        out.append("cold:" + ("none" if gdd >= crop.GDD_up else "full" if gdd <= crop.GDD_lo else "partial"))
    else:
        out.append("cold:off")
    if ic.surface_storage > 0 and ic.day_submerged < crop.LagAer:
        out.append("pond-branch")
        out.append("pond-uptake" if nc.surface_storage < ic.surface_storage else "pond-no-uptake")
    if np.any(nc.th < ic.th):
        out.append("extraction")
    if np.any((nc.th < ic.th) & (np.abs(nc.th - prof.th_dry) < 1e-12)):
        out.append("airdry-clamp")
    if method == 4:
        if irr > 0:
            out.append("irrnet>0")
        elif irr < 0:
            out.append("irrnet<0")
        else:
            out.append("irrnet=0")
    if nc.canopy_cover != ic.canopy_cover:
        out.append("cc-feedback")
    if nc.tr_ratio < 1:
        out.append("tr_ratio<1")
    if tr == 0:
        out.append("tract=0")
    return out


class _LibmNp:
    """stand-in for the `np` global of a module: `exp/log/log10` go through the C library (as the
    Lean driver's do), everything else is numpy.  Removes the <=1-ulp numpy-vs-glibc noise."""

    def __init__(self):
        self.__dict__["_np"] = np

    def __getattr__(self, k):
        return getattr(np, k)

    def exp(self, x):
        return np.float64(math.exp(float(x)))

    def log(self, x):
        return np.float64(math.log(float(x)))

    def log10(self, x):
        return np.float64(math.log10(float(x)))


class libm_numpy:
    """rebinds `np` in the namespaces of `transpiration` and `water_stress` (no source change)"""
    MODS = ["aquacrop.solution.transpiration", "aquacrop.solution.water_stress"]

    def __enter__(self):
        self.saved = []
        for m in self.MODS:
            mod = importlib.import_module(m)
            self.saved.append((mod, mod.np))
            mod.np = _LibmNp()

    def __exit__(self, *a):
        for mod, old in self.saved:
            mod.np = old
        return False


def fuzz_with_branches(n, seed):
    rng = np.random.default_rng(seed)
    reg = proto.ProfRegistry()
    pairs, br = [], collections.Counter()
    for _ in range(n):
        args = L.fuzz(rng)
        before = tuple(rec.snap(a) for a in args)
        try:
            res = L.FUNC(*args)
        except Exception as e:  # noqa: BLE001
            res = e
        br.update(branches(before, res))
        pairs.append(L.encode(reg, before, res, args))
    return fuzzlib.compare_batch(L, reg, pairs), br


def repro_negative_irrnet():
    """well-formed call of the real function with IrrNet < 0 (rounding inside root_zone_water);
    returns (IrrNet, storage change mm, model agrees?)"""
    import copy
    from aquacrop.entities.initParamVariables import InitialCondition
    from aquacrop.entities.co2 import CO2
    from aquacrop.entities.soilProfile import SoilProfile
    crop = copy.deepcopy(L._crop_pool()[0])   # Wheat
    n = 12
    p = SoilProfile(n)
    p.dz = np.full(n, 0.1); p.dzsum = np.round(np.cumsum(p.dz), 2); p.Layer = np.ones(n, dtype=np.int64)
    p.th_wp[:] = 0.15; p.th_fc[:] = 0.31; p.th_s[:] = 0.46; p.th_dry[:] = 0.075
    p.Ksat[:] = 500; p.tau[:] = 0.76; p.Penetrability[:] = 100
    p.zBot = p.dzsum.copy(); p.z_top = p.zBot - p.dz; p.zMid = (p.z_top + p.zBot) / 2
    ic = InitialCondition(n)
    ic.th = np.full(n, 0.3100499); ic.th[0] = 0.3099
    ic.z_root = 1.0; ic.dap = 40; ic.canopy_cover = ic.canopy_cover_ns = 0.8
    ic.ccx_w = ic.ccx_w_ns = 0.8; ic.canopy_cover_adj = ic.canopy_cover_adj_ns = 0.9; ic.cc_prev = 0.8
    ic.day_submerged = 3; ic.surface_storage = 0.0; ic.r_cor = 1    # submerged 3 days = LagAer: no uptake
    co2 = CO2(); co2.current_concentration = 369.41
    args = (p, n, 0.1, crop, 4, 100.0, ic, 5.0, co2, True, 20.0)
    before = tuple(rec.snap(a) for a in args)
    res = L.FUNC(*args)
    reg = proto.ProfRegistry()
    st = fuzzlib.compare_batch(L, reg, [L.encode(reg, before, res, args)])
    return float(res[4]), float(1000 * np.sum((res[3].th - before[6].th) * p.dz)), st.bad == 0


if __name__ == "__main__":
    st, br = fuzz_with_branches(N_FUZZ, seed=7)
    d = st.as_dict()
    print("direct fuzz:", d)
    tot = d["bit_equal_tokens"] + d["tol_equal_tokens"]
    print("bit-equal share: %.5f" % (d["bit_equal_tokens"] / max(1, tot)))
    print("branches:", dict(sorted(br.items())))
    with libm_numpy():
        st2, _ = fuzz_with_branches(N_FUZZ, seed=7)
    d = st2.as_dict()
    print("direct fuzz, exp/log/log10 through libm (same inputs):", d)
    tot = d["bit_equal_tokens"] + d["tol_equal_tokens"]
    print("bit-equal share: %.5f" % (d["bit_equal_tokens"] / max(1, tot)))
    print("=> disagreements with numpy's exp/log: %d; unexplained by <=1-ulp exp/log noise "
          "(i.e. persisting with libm exp/log on the same inputs): %d" % (st.bad, st2.bad))
    print("negative IrrNet repro (IrrNet, d storage mm, model agrees):", repro_negative_irrnet())
    stats, traces = fuzzlib.whole_runs([L], N_SCEN, seed=1)
    for s in stats.values():
        d = s.as_dict()
        print("whole runs:", d)
        tot = d["bit_equal_tokens"] + d["tol_equal_tokens"]
        print("bit-equal share: %.5f" % (d["bit_equal_tokens"] / max(1, tot)))
    print([(t.scen["id"], t.n_steps, t.error) for t in traces])
