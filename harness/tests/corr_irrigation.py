"""Correspondence of `irrigation`, `growth_stage` and the schedule re-indexing of
`read_irrigation_management` with the Lean model.
Run with:  /venv/bin/python -W ignore corr_irrigation.py"""
import collections
import os
import sys
import types
sys.path.insert(0, os.path.join(os.path.dirname(os.path.abspath(__file__)), ".."))
import numpy as np
from aqv import fuzzlib, proto, rec, scen
from aqv.lines import irrigation, growth_stage, irr_schedule

N = int(os.environ.get("N_FUZZ", "6000"))
NS = int(os.environ.get("N_SCEN", "18"))

# 1. direct fuzz
for L in (irrigation, growth_stage, irr_schedule):
    print(fuzzlib.direct_fuzz(L, N, seed=5).as_dict())

# 2. which branches of `irrigation` did the fuzz reach? (ghost branch id of the model)
rng = np.random.default_rng(5)
reg = proto.ProfRegistry()
lines = []
for _ in range(N):
    args = irrigation.fuzz(rng)
    try:
        res = irrigation.FUNC(*args)
    except Exception as e:  # noqa: BLE001
        res = e
    lines.append(irrigation.encode(reg, args, res)[0])
out = proto.run_driver(reg.lines + lines)[len(reg.lines):]
print("irrigation branches (1000*cap + 100*abvFc + 10*method + fired; 90 = off season):")
print(sorted(collections.Counter(irrigation.branch_of(o) for o in out).items()))

# 3. whole runs (stock scenario generator: methods 0..5)
stats, traces = fuzzlib.whole_runs([irrigation, growth_stage], NS, seed=1)
for s in stats.values():
    print(s.as_dict())
print([(t.scen["id"], (t.scen.get("irr") or {}).get("method"), t.n_steps, t.error) for t in traces])

# 4. schedules of the method-3 scenarios as initialised by the real model
reg = proto.ProfRegistry()
pairs = []
scs = [s for s in scen.gen_scenarios(1, 40) if (s.get("irr") or {}).get("method") == 3]
for s in scs:
    m = scen.build_model(s)
    m._initialize()
    im = scen.build_irr(s["irr"])
    clock = types.SimpleNamespace(time_span=m._clock_struct.time_span)
    pairs.append(irr_schedule.encode(reg, (im, clock), m._param_struct.IrrMngt.Schedule))
print("method-3 scenario schedules:", fuzzlib.compare_batch(irr_schedule, reg, pairs).as_dict())
