"""Minimal reproductions of what the weather handling of the implementation does with tables that are
not sorted / gap-free / duplicate-free (work package T; model `Aqua.WeatherBind`, counter-examples in
`Proofs/WeatherBind.lean`).  Run with:  /venv/bin/python -W ignore repro_weather_bind_findings.py"""
import numpy as np
import pandas as pd
from aquacrop import AquaCropModel, Soil, Crop, InitialWaterContent


def table(dates, seed=0):
    rng = np.random.default_rng(seed)
    d = pd.to_datetime(pd.Series(dates))
    doy = d.dt.dayofyear.to_numpy()
    return pd.DataFrame({"MinTemp": 10 + doy % 7, "MaxTemp": 25 + doy % 5, "Precipitation": 1.0 + (doy % 4 == 0) * 9.0,
                         "ReferenceET": 3 + (doy % 3), "Date": d})


def run(df, start="2001/05/01", end="2001/05/10"):
    m = AquaCropModel(start, end, df, Soil("SandyLoam"), Crop("Maize", planting_date="05/01"),
                      InitialWaterContent(value=["FC"]))
    m.run_model(till_termination=True)
    return m


days = pd.date_range("2001-04-28", "2001-05-13")
good = table(days)
ref = run(good)._outputs.water_flux

# 1. a gap hidden by a duplicated row: both checks pass, as many rows as days, no error, wrong weather
bad = good.copy()
i = int(np.where(days == pd.Timestamp("2001-05-04"))[0][0])
bad.iloc[i] = bad.iloc[i + 1]                   # the row dated 05-04 is replaced by a copy of 05-05
m = run(bad)
w = m._weather
print("1. gap + duplicate: run completes; matrix row 3 (simulated day 2001-05-04) is dated", w[3][4].date(),
      "| outputs equal to the clean run:", bool(np.array_equal(m._outputs.water_flux.values, ref.values)))

# 2. unsorted rows inside the window: rows are used in table order
sw = good.copy()
a, b = sw.iloc[i].copy(), sw.iloc[i + 2].copy()
sw.iloc[i], sw.iloc[i + 2] = b, a
m = run(sw)
print("2. two rows swapped: run completes; matrix row 3 is dated", m._weather[3][4].date(),
      "| outputs equal to the clean run:", bool(np.array_equal(m._outputs.water_flux.values, ref.values)))

# 3. a gap of one day goes unnoticed (a window of n days runs n-1 steps, so n-1 rows suffice): every
#    later day runs on the next day's weather; a gap of two days surfaces on the last step as IndexError
m = run(good.drop(good.index[i]))
print("3a. one day missing: run completes; matrix row 3 is dated", m._weather[3][4].date(),
      "| outputs equal to the clean run:", bool(np.array_equal(m._outputs.water_flux.values, ref.values)))
try:
    run(good.drop(good.index[[i, i + 1]]))
    print("3b. two days missing: no error")
except Exception as e:  # noqa: BLE001
    print("3b. two days missing:", type(e).__name__, e)

# 4. the first/last-date checks are positional: a covering table sorted descending is rejected ...
try:
    run(good.iloc[::-1])
    print("4. descending: accepted")
except Exception as e:  # noqa: BLE001
    print("4. descending table covering the window:", type(e).__name__, str(e)[:60])
# ... and a table that does not cover the window is accepted when its first / last rows satisfy them
nc = table(pd.to_datetime(["2001-04-01", "2001-07-01", "2001-03-01", "2001-06-01"]))
try:
    run(nc)
    print("5. non-covering table: accepted and run")
except Exception as e:  # noqa: BLE001
    print("5. table without a single in-window row passes read_weather_inputs; then", type(e).__name__, str(e)[:70])

# 6. NaT in the first row passes the first-date check (NaT > start is False)
nt = table(pd.date_range("2001-05-02", "2001-05-13"))          # starts one day late
try:
    run(nt)
except Exception as e:  # noqa: BLE001
    print("6a. table starting one day late:", type(e).__name__, str(e)[:50])
nt = pd.concat([nt.iloc[:1].assign(Date=pd.NaT), nt], ignore_index=True)
m = run(nt)
print("6b. same with a NaT row in front: accepted, run completes; matrix row 0 (simulated day 2001-05-01) is dated",
      m._weather[0][4].date())

# 7. a repeated label: df[[...]] returns both columns, every later variable shifts by one position
dup = pd.concat([good[["MinTemp"]] - 100.0, good], axis=1)     # a second column labelled MinTemp
m = AquaCropModel("2001/05/01", "2001/05/10", dup, Soil("SandyLoam"), Crop("Maize", planting_date="05/01"),
                  InitialWaterContent(value=["FC"]))
m._initialize()
m.run_model(num_steps=1, initialize_model=False)
c = m._init_cond
print("7. duplicated MinTemp label: matrix has", m._weather.shape[1], "columns; step reads temp_min=%s temp_max=%s "
      "precipitation=%s et0=%s  (table row: MinTemp=%s MaxTemp=%s Precipitation=%s ReferenceET=%s)" % (
          c.temp_min, c.temp_max, c.precipitation, c.et0, *good[good.Date == "2001-05-01"].iloc[0, :4].tolist()))
