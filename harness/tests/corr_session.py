"""Correspondence of the API state machine (Lean `Aqua.Session`, handler `session`) with the real
`AquaCropModel`: sessions of public calls on one object.
/venv/bin/python -W ignore corr_session.py [n_stub_sessions] [seed] [n_real]"""
import os, sys, time, collections
sys.path.insert(0, os.path.join(os.path.dirname(os.path.abspath(__file__)), ".."))
import warnings; warnings.filterwarnings("ignore")
import numpy as np
from aqv import scen as S, ties as T
from aqv.lines import session as X

N = int(sys.argv[1]) if len(sys.argv) > 1 else 4000
SEED = int(sys.argv[2]) if len(sys.argv) > 2 else 11
NREAL = int(sys.argv[3]) if len(sys.argv) > 3 else 16
rng = np.random.default_rng(SEED)
t0 = time.time()
items, classes, sit, complaints, findings = X.stub_sessions(rng, N)
st, dis = X._compare(X.NAME, "stub-engine sessions", items)
print(f"stub sessions: {st['calls']}  operations: {sit['operations']}  disagreements: {st['disagreements']}  "
      f"self-check failures: {len(complaints)}  tokens compared (exact): {st['bit_equal_tokens']}  "
      f"[{time.time() - t0:.0f}s]")
for fb in st["first_bad"]:
    print("  BAD", fb)
for c in complaints[:3]:
    print("  SELF-CHECK", c)
print("operation -> outcome distribution")
for k, v in sorted(classes.items()):
    print(f"  {v:7d}  {k}")
print("situations")
for k, v in sorted(sit.items()):
    print(f"  {v:7d}  {k}")
print("findings (not part of the model):", dict(findings))

t0 = time.time()
scens = S.gen_scenarios(SEED, max(1, NREAL // 4), with_corpus=False) + [T.sweep_scenario(rng, i) for i in range(NREAL)]
items2, classes2, sit2, complaints2, findings2, used = X.real_sessions(rng, scens)
st2, dis2 = X._compare(X.NAME, "real scenarios", items2)
print(f"real sessions: {st2['calls']}  operations: {sit2['operations']}  disagreements: {st2['disagreements']}  "
      f"self-check failures: {len(complaints2)}  tokens compared (exact): {st2['bit_equal_tokens']}  "
      f"[{time.time() - t0:.0f}s]")
for fb in st2["first_bad"]:
    print("  BAD", fb)
for c in complaints2[:3]:
    print("  SELF-CHECK", c)
for k, v in sorted(classes2.items()):
    print(f"  {v:7d}  {k}")
for k, v in sorted(sit2.items()):
    print(f"  {v:7d}  {k}")
print("findings (not part of the model):", dict(findings2))
bad = st["disagreements"] + st2["disagreements"] + len(complaints) + len(complaints2)
print("RESULT", "OK" if bad == 0 else "FAIL")
sys.exit(0 if bad == 0 else 1)
