"""Whole runs of the real model (real biophysics): clock sequence, tables and summary against the
Lean clock model; the date set-up against the Lean calendar model.
/venv/bin/python -W ignore corr_clock_runs.py [n_generated] [n_sweep] [seed]"""
import os, sys, collections, time, copy
sys.path.insert(0, os.path.join(os.path.dirname(os.path.abspath(__file__)), ".."))
import warnings; warnings.filterwarnings("ignore")
import numpy as np, pandas as pd
from aqv import proto, scen as S
from aqv.lines import clock as L, calendar as C

NGEN = int(sys.argv[1]) if len(sys.argv) > 1 else 18
NSW = int(sys.argv[2]) if len(sys.argv) > 2 else 150
SEED = int(sys.argv[3]) if len(sys.argv) > 3 else 1
rng = np.random.default_rng(SEED)

SHORT_CD = dict(EmergenceCD=2, MaxRootingCD=15, SenescenceCD=18, MaturityCD=25, HIstartCD=8,
                FloweringCD=6, YldFormCD=12)
SHORT_GDD = dict(Emergence=15, MaxRooting=180, Senescence=230, Maturity=330, HIstart=90,
                 Flowering=60, YldForm=150)


def sweep_scenario(rng, i):
    thermal = rng.random() < 0.3
    crop = str(rng.choice(["TomatoGDD", "MaizeGDD", "WheatGDD"])) if thermal else str(rng.choice(["Tomato", "Wheat", "Maize", "Potato"]))
    ov = dict(SHORT_GDD if thermal else SHORT_CD)
    if not thermal:
        f = float(rng.choice([0.5, 1, 1, 2, 4]))
        ov = {k: max(1, int(round(v * f))) for k, v in ov.items()}
    y0 = int(rng.integers(2000, 2006))
    pm, pdd = int(rng.integers(1, 13)), int(rng.integers(1, 29))
    pdate = pd.Timestamp(year=y0, month=pm, day=pdd)
    mode = rng.integers(4)
    start = pdate if mode == 0 else (pdate - pd.Timedelta(days=int(rng.integers(1, 30))) if mode == 1
                                     else pdate + pd.Timedelta(days=int(rng.integers(1, 30))) if mode == 2
                                     else pd.Timestamp(year=y0, month=int(rng.integers(1, 13)), day=int(rng.integers(1, 29))))
    nseas = int(rng.integers(1, 7))
    emode = rng.integers(4)
    if emode == 0:      # end mid-season
        end = pdate + pd.Timedelta(days=365 * (nseas - 1) + int(rng.integers(2, 25)))
    elif emode == 1:    # end just around a planting anniversary
        end = pdate + pd.Timedelta(days=365 * nseas + int(rng.integers(-2, 3)))
    else:
        end = pdate + pd.Timedelta(days=365 * (nseas - 1) + int(rng.integers(20, 360)))
    if end <= start:
        end = start + pd.Timedelta(days=int(rng.integers(1, 40)))
    hmode = rng.integers(4)
    if hmode == 0:
        harvest = None                       # left to the model
    else:
        hl = int(rng.integers(3, 60)) if hmode == 1 else int(rng.integers(60, 364))
        h = pd.Timestamp(year=2001, month=pm, day=pdd) + pd.Timedelta(days=hl)
        harvest = f"{h.month:02d}/{h.day:02d}"
    regime = str(rng.choice(["mild", "hot", "drought", "drought", "storm", "cold"]))
    sc = {"id": f"sw{i}", "start": start.strftime("%Y/%m/%d"), "end": end.strftime("%Y/%m/%d"),
          "weather": {"kind": "synth", "seed": int(rng.integers(1 << 30)), "start": "1999-01-01",
                      "end": "2013-12-31", "regime": regime, "south": bool(rng.random() < 0.3)},
          "soil": {"type": str(rng.choice(["SandyLoam", "Sand", "Clay", "Loam"]))},
          "crop": {"name": crop, "planting": f"{pm:02d}/{pdd:02d}", "harvest": harvest, "overrides": ov},
          "off_season": bool(rng.random() < 0.5)}
    if rng.random() < 0.5:
        sc["iwc"] = {"wc_type": "Prop", "method": "Layer", "depth_layer": [1], "value": ["WP"]}
    return sc


scens = S.gen_scenarios(SEED, NGEN) + [sweep_scenario(rng, i) for i in range(NSW)]
pairs, cal_pairs = [], []
stats = collections.Counter()
selfbad, other = [], []
br = collections.Counter()
t0 = time.time()
steps = 0
for i, sc in enumerate(scens):
    model = S.build_model(sc)
    r = C.from_model(model)          # runs _initialize()
    if r is not None:
        cal_pairs.append(r)
    if r is None or r[1].startswith("E"):
        stats["init:" + ("other-error" if r is None else r[1])] += 1
        if r is None:
            try:
                S.build_model(sc)._initialize()
            except Exception as e:
                other.append((sc["id"], type(e).__name__, str(e)[:100]))
        continue
    n = model._clock_struct.n_steps
    how = i % 3
    if how == 0:
        o = L.observe(model)
    elif how == 1:
        o = L.observe(model, L.rand_calls(rng, n))
    else:
        o = L.observe(model, L.rand_calls(rng, n) + [1], stop_when_finished=False)
    steps += len(o.sol)
    if o.raw_error is not None and o.error is None:
        stats["run:other-error"] += 1
        other.append((sc["id"], type(o.raw_error).__name__, str(o.raw_error)[:100]))
        continue
    pairs.append(L.encode_obs(o))
    stats["run:" + ("till" if o.calls is None else "calls") + ":" + (o.error or "ok")] += 1
    stats["seasons_in_summary"] += len(o.summary)
    stats["steps_with_mature"] += sum(1 for x in o.sol if x[3] and x[4])
    stats["steps_with_dead"] += sum(1 for x in o.sol if x[3] and x[5])
    stats["offseason_runs"] += int(o.cfg["off"])
    stats["thermal"] += int(sc["crop"]["name"].endswith("GDD"))
    L.branches(o, br)
    sb = L.self_check(o)
    if sb:
        selfbad.append((sc["id"], sb))
print("python side %.1fs, %d runs, %d simulated days" % (time.time() - t0, len(pairs), steps))


def cmp(pairs):
    out = proto.run_driver([l for l, _ in pairs]) if pairs else []
    bad = nb = 0; first = []
    for (l, e), g in zip(pairs, out):
        ok, b, t, i = proto.compare(e, g)
        nb += b
        if not ok:
            bad += 1
            if len(first) < 4: first.append((i, l[:300], e[:300], g[:300]))
    return dict(calls=len(pairs), disagreements=bad, bit_equal_tokens=nb), first


r1, f1 = cmp(pairs)
r2, f2 = cmp(cal_pairs)
print("clock   ", r1, "self_check_failures", len(selfbad))
print("calendar", r2)
print(dict(sorted(stats.items())))
print('branches', dict(sorted(br.items())))
for f in f1 + f2: print("BAD", f)
for f in selfbad[:5]: print("SELF", f)
for f in other[:8]: print("OTHER", f)
