"""Example: correspondence of two processes (direct fuzz is only available when the encoder
defines `fuzz`/`FUNC`) and on whole runs.  Run with:  /venv/bin/python -W ignore corr_example.py"""
import os, sys
sys.path.insert(0, os.path.join(os.path.dirname(os.path.abspath(__file__)), ".."))
from aqv import fuzzlib
from aqv.lines import rainfall_partition, root_zone_water

stats, traces = fuzzlib.whole_runs([rainfall_partition, root_zone_water], 8, seed=1)
for s in stats.values():
    print(s.as_dict())
print([(t.scen["id"], t.n_steps, t.error) for t in traces])
for L in (rainfall_partition, root_zone_water):
    print(fuzzlib.direct_fuzz(L, 2000, seed=3).as_dict())
