"""Reproductions of the suspected defects found while modelling the crop calendar (work package M).
Public API only.  Run with:  /venv/bin/python -W ignore repro_crop_calendar_defects.py"""
import signal
import warnings
warnings.filterwarnings("ignore")
import numpy as np
from aquacrop import AquaCropModel, Soil, Crop, InitialWaterContent
from aquacrop.utils import prepare_weather, get_filepath

CHAMPION = prepare_weather(get_filepath("champion_climate.txt"))
BRUSSELS = prepare_weather(get_filepath("brussels_climate.txt"))


def model(crop, start, end, w=CHAMPION):
    return AquaCropModel(start, end, w, Soil("Loam"), crop, InitialWaterContent(value=["FC"]))


def guarded(f, timeout=15):
    def alarm(*a):
        raise TimeoutError("no return within %d s" % timeout)
    signal.signal(signal.SIGALRM, alarm)
    signal.alarm(timeout)
    try:
        return f()
    except Exception as e:   # noqa: BLE001
        return e
    finally:
        signal.alarm(0)


def crop0(m):
    return m._param_struct.Seasonal_Crop_List[0]


# D1. compute_crop_calendar is called twice at initialisation (read_model_parameters when no harvest
#     date is given, then compute_variables).  Mode 1 overwrites FloweringCD with NO_VALUE (-999) for
#     CropType != 3, and the second call reads it for determinant crops.
def d1():
    m = model(Crop("Potato", planting_date="04/25", Determinant=1), "2000/04/25", "2000/12/31", BRUSSELS)
    m._initialize()
    c = crop0(m)
    return dict(CanopyDevEndCD=c.CanopyDevEndCD, FloweringCD=c.FloweringCD, HIstartCD=c.HIstartCD)


# D2. a threshold that the cumulated growing degrees never exceed yields day 1 (idxmax/argmax of an
#     all-False vector is 0).  HIend = HIstart + YldForm = 1780 > Maturity = 1700: with a simulation
#     that ends soon after maturity HIendCD = 1, YldFormCD = 1 - HIstartCD < 0, and calculate_HIGC
#     (while HIest <= 0.98*HI0) never terminates: the initialisation hangs.
def d2():
    m = model(Crop("MaizeGDD", planting_date="05/01", YldForm=900), "2000/05/01", "2000/10/01")
    r = guarded(m._initialize, 20)
    if isinstance(r, Exception):
        return "initialisation: " + repr(r)
    c = crop0(m)
    return dict(HIstartCD=c.HIstartCD, HIendCD=c.HIendCD, YldFormCD=c.YldFormCD)


# D3. the thermal calendar of every season after the first is recomputed by reset_initial_conditions
#     from the records between that planting date and the END OF THE SIMULATION, with the same two
#     asserts: a run whose last season cannot mature before the end date dies at the start of that
#     season (all earlier output is lost), whereas a calendar-day crop simply stops at the end date.
def d3():
    out = {}
    for name in ("MaizeGDD", "Maize"):
        m = model(Crop(name, planting_date="05/01"), "2000/05/01", "2002/07/01")
        r = guarded(lambda: m.run_model(till_termination=True), 60)
        out[name] = repr(r)[:120] if isinstance(r, Exception) else f"finished, {len(m._outputs.final_stats)} seasons"
    return out


# D4. missing temperature (NaN) in a later year: the initialisation (pandas cumsum skips NaN)
#     accepts it, the reset of the next season (numpy cumsum propagates it) raises the maturity assert.
def d4():
    w = CHAMPION[(CHAMPION.Date >= "2000-01-01") & (CHAMPION.Date <= "2003-12-31")].reset_index(drop=True)
    i = w.index[w.Date == "2001-12-20"][0]
    w.loc[i, "MaxTemp"] = np.nan
    m = model(Crop("MaizeGDD", planting_date="05/01"), "2000/05/01", "2002/12/31", w)
    r = guarded(lambda: m.run_model(till_termination=True), 60)
    return repr(r)[:140] if isinstance(r, Exception) else "finished"


# D5. SwitchGDD = 1 (calendar-day crop converted to thermal time, outside the Lean model).
#     (a) without harvest date the function runs twice; the first call switches CalendarType to 2, so the
#         second call runs mode 2 with YldForm / Flowering that prepare_gdd never converted
#         (YldForm is still 61 *days*, Flowering still -9): HIend = HIstart + 61 growing degrees,
#         YldFormCD = 4 instead of 61, FloweringEnd < HIstart, FloweringCD = 0;
#     (b) prepare_gdd indexes the cumulated series of EVERY season at MaturityCD: an incomplete last
#         season raises IndexError.
def d5():
    out = {}
    for hd in (None, "10/30"):
        m = model(Crop("Maize", planting_date="05/01", harvest_date=hd, SwitchGDD=1), "2000/05/01", "2003/12/31")
        m._initialize()
        c = crop0(m)
        out[f"harvest_date={hd}"] = {k: round(float(getattr(c, k)), 2) for k in
                                     ("HIstart", "HIend", "YldForm", "Flowering", "FloweringEnd", "HIstartCD",
                                      "HIendCD", "YldFormCD", "FloweringCD")}
    m = model(Crop("Maize", planting_date="05/01", harvest_date="10/30", SwitchGDD=1), "2000/05/01", "2003/08/01")
    out["last season incomplete"] = repr(guarded(m._initialize))[:100]
    return out


# D6. Tupp < Tbase: the initialisation (pandas clip swaps its bounds) counts NEGATIVE growing degrees,
#     the reset and the daily growing_degree_day count 0.
def d6():
    import pandas as pd
    from aquacrop.initialize.compute_crop_calendar import compute_crop_calendar
    from aquacrop.solution.growing_degree_day import growing_degree_day
    w = pd.DataFrame({"Date": pd.date_range("2000-01-01", periods=3), "MinTemp": [7.0] * 3, "MaxTemp": [7.0] * 3})
    c = Crop("MaizeGDD", planting_date="01/01", Tbase=10, Tupp=5, GDDmethod=1, Maturity=-8.5)
    r = guarded(lambda: compute_crop_calendar(c, pd.to_datetime(["2000-01-01"]), w.Date[0], w.Date[2],
                                              pd.date_range(w.Date[0], w.Date[2]), w))
    return dict(init_MaturityCD_for_Maturity_minus_8_5=(r.MaturityCD if not isinstance(r, Exception) else repr(r)),
                daily_gdd=growing_degree_day(1, 5, 10, 7.0, 7.0))


if __name__ == "__main__":
    for f in (d1, d2, d3, d4, d5, d6):
        print(f.__name__, guarded(f, 90))
