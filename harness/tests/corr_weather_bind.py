"""Correspondence of the weather handling (handler `weather_bind`, model `Aqua.WeatherBind`) with the
implementation: random tables through `read_weather_inputs` + the matrix statement of
`AquaCropModel._initialize` (stub clock), through the real `weather_df` property + the two weather
statements of `_initialize`, and through real `AquaCropModel` objects stepped with `run_model`.
Run with:  /venv/bin/python -W ignore corr_weather_bind.py [seed] [quick|full]
(full: 6 000 + 300 tables).  Prints the distribution of table features and outcomes reached."""
import json
import os
import sys
import time

sys.path.insert(0, os.path.join(os.path.dirname(os.path.abspath(__file__)), ".."))
from aqv.lines import weather_bind as W

seed = int(sys.argv[1]) if len(sys.argv) > 1 else 1
tier = sys.argv[2] if len(sys.argv) > 2 else "full"
t0 = time.time()
stats, dis = W.tie_weather(seed, tier)
tables = sum(st["calls"] for st in stats)
for st in stats:
    fb = st.pop("first_bad")
    print(json.dumps(st, indent=1, ensure_ascii=False))
    for b in fb:
        print("DISAGREEMENT", b.get("features"), "\n  expected", b["expected"][:400], "\n  got     ", b["got"][:400],
              "\n  first bad token", b["index"], "\n  line", b["line"][:400])
tok = sum(st["bit_equal_tokens"] + st["tol_equal_tokens"] for st in stats)
bit = sum(st["bit_equal_tokens"] for st in stats)
print(f"tables={tables} disagreements={sum(st['disagreements'] for st in stats)} "
      f"bit-equal tokens={bit}/{tok} ({100.0 * bit / max(tok, 1):.2f} %)  time={time.time() - t0:.1f}s")
print("matrix statement executed:", W.stmts()[2])
sys.exit(1 if dis else 0)
