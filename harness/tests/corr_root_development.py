"""Correspondence of `root_development` and `germination`: direct fuzz (with the branch bits the
model reports as a ghost output), season walks through the real function with the C05 checks, and
whole runs (custom soils with restrictive layers, groundwater).
Run with:  /venv/bin/python -W ignore corr_root_development.py [n_fuzz] [n_scen]"""
import os, sys, collections, copy
sys.path.insert(0, os.path.join(os.path.dirname(os.path.abspath(__file__)), ".."))
import numpy as np
from aqv import fuzzlib, proto, rec, gen, scen as scen_mod
from aqv.lines import root_development as R, germination as G

N_FUZZ = int(sys.argv[1]) if len(sys.argv) > 1 else 8000
N_SCEN = int(sys.argv[2]) if len(sys.argv) > 2 else 14

RD_BITS = {1: "layer-limitation", 2: "stomatal-linear", 4: "stomatal-exp", 8: "dry-front-check",
           16: "dry-full-stop", 32: "dry-partial", 64: "canopy-death-stop", 128: "not-germinated",
           256: "rCor-recomputed", 512: "gw-cap", 1024: "gw-cap-floored-at-Zmin",
           2048: "limited-below-potential"}
G_BR = {0: "offseason", 1: "already-germinated", 2: "germinates", 3: "delayed"}


def share(d):
    tot = d["bit_equal_tokens"] + d["tol_equal_tokens"]
    return d["bit_equal_tokens"] / max(1, tot)


def run_pairs(L, reg, pairs):
    """compare and return (stats, raw replies)"""
    st = fuzzlib.compare_batch(L, reg, pairs)
    out = proto.run_driver(reg.lines + [l for l, _ in pairs])[len(reg.lines):] if pairs else []
    return st, out


def fuzz_with_branches(L, n, seed):
    rng = np.random.default_rng(seed)
    reg = proto.ProfRegistry()
    pairs, befores, results = [], [], []
    for _ in range(n):
        args = L.fuzz(rng)
        before = tuple(rec.snap(a) for a in args)
        try:
            res = L.FUNC(*args)
        except Exception as e:  # noqa: BLE001
            res = e
        pairs.append(L.encode(reg, before, res, args))
        befores.append(before)
        results.append(res)
    st, out = run_pairs(L, reg, pairs)
    br = collections.Counter()
    for (before, res, o) in zip(befores, results, out):
        if o.startswith("E"):
            br["raise:" + o] += 1
            continue
        g = L.ghosts(o)
        if L is R:
            bits = g[4]
            crop, gs = before[0], before[16]
            if not gs:
                br["offseason"] += 1
                continue
            br["season:cal%d" % crop.CalendarType] += 1
            if before[2] == 1:
                br["day-1-reset"] += 1
            for k, v in RD_BITS.items():
                if bits & k:
                    br[v] += 1
            if g[0] < 0:
                br["dZr<0"] += 1
        else:
            br[G_BR[g[1]]] += 1
    return st, br


# ------------------------------------------------------------------------------------------------
# season walks: the real function iterated from day 1, C05 checked on every step
# ------------------------------------------------------------------------------------------------
def season_walks(n_walks, seed):
    """returns (corr stats, findings counter, example list)"""
    rng = np.random.default_rng(seed)
    reg = proto.ProfRegistry()
    pairs = []
    finds = collections.Counter()
    examples = {}
    steps = 0
    for w in range(n_walks):
        p = R.rand_profile(rng)
        crop = R.rand_crop(rng, p)
        depth = float(p.dzsum[-1])
        crop.Zmax = float(max(crop.Zmin, min(crop.Zmax, depth - 0.01)))    # roots stay in the profile
        has_wt = rng.random() < 0.4
        zgw = float(rng.uniform(0.1, depth * 1.3)) if has_wt else -999
        wt = 1 if has_wt else 0
        zroot, rcor = 0, 1
        dcd, dgdd, gddcum = 0, 0.0, 0.0
        germ_day = int(rng.choice([1, 1, 3, 8]))
        ndays = int(crop.MaxRooting * 1.15) + 5 if crop.CalendarType == 1 else int(crop.MaxRooting / 9) + 10
        ndays = min(ndays, 260)
        for dap in range(1, ndays + 1):
            gdd = float(rng.uniform(0, 22))
            gddcum += gdd
            germ = dap >= germ_day
            if not germ:
                dcd += 1
                dgdd += gdd
            trr = 1 if rng.random() < 0.5 else float(rng.random())
            th = gen.rand_th(rng, p, rng.choice([0, 2, 3, 6, 6, 1]))
            if has_wt and rng.random() < 0.15:
                zgw = float(max(0.05, zgw + rng.normal(0, 0.25)))      # moving water table
            cc, ccns = (0.0, 0.8) if rng.random() < 0.02 else (0.5, 0.6)
            args = (crop, p, dap, zroot, dcd, gddcum, dgdd, trr, th, cc, ccns, germ, rcor,
                    float(rng.choice([0, 3.0])), zgw, gdd, True, wt)
            before = tuple(rec.snap(a) for a in args)
            try:
                res = R.FUNC(*args)
            except Exception as e:  # noqa: BLE001
                res = e
            pairs.append(R.encode(reg, before, res, args))
            steps += 1
            if isinstance(res, Exception):
                finds["raise:" + type(res).__name__] += 1
                examples.setdefault("raise:" + type(res).__name__, (w, dap))
                break
            znew, rcor = res
            zinit = crop.Zmin if dap == 1 else zroot
            capped = wt == 1 and zgw > 0 and znew == max(zgw, crop.Zmin) and znew < zinit
            tol = 1e-12
            if znew < zinit - tol and not capped:
                finds["shrinks"] += 1
                examples.setdefault("shrinks", (w, dap, zinit, znew, crop.Name))
            if znew < crop.Zmin - tol:
                finds["below-Zmin"] += 1
                examples.setdefault("below-Zmin", (w, dap, znew, crop.Zmin))
            if znew > crop.Zmax + tol:
                finds["above-Zmax"] += 1
                examples.setdefault("above-Zmax", (w, dap, znew, crop.Zmax))
            if wt == 1 and zgw > 0 and zgw >= crop.Zmin and znew > zgw + tol:
                finds["below-water-table"] += 1
                examples.setdefault("below-water-table", (w, dap, znew, zgw))
            zroot = znew
    st, _ = run_pairs(R, reg, pairs)
    return st, finds, examples, steps


def _initialises(s):
    try:
        scen_mod.build_model(s)._initialize()
        return True
    except Exception:  # noqa: BLE001
        return False


def scenarios(seed, n):
    """>= 10 scenarios: the stratified quick set + custom soils with restrictive layers + groundwater"""
    rng = np.random.default_rng(seed)
    scs = scen_mod.gen_scenarios(seed, min(n, 6))
    extra = [{"soil_kind": "custom", "restrictive": True},
             {"soil_kind": "custom", "restrictive": True, "gw": True},
             {"soil_kind": "custom", "restrictive": True, "crop": "MaizeGDD", "station": "champion_climate.txt"},
             {"gw": True, "soil_kind": "builtin"},
             {"soil_kind": "custom", "restrictive": True, "crop": "Cotton", "n_seasons": 2},
             {"gw": True, "crop": "WheatGDD", "station": "tunis_climate.txt"},
             {"soil_kind": "custom", "restrictive": True, "crop": "Tomato", "gw": True},
             {"soil_kind": "custom", "restrictive": True, "crop": "SugarBeet"}]
    scs = [s for s in scs if _initialises(s)]
    i, k = 100, 0
    while len(scs) < n and k < 60:
        s = scen_mod.gen_scenario(rng, i, dict(extra[k % len(extra)]))
        i += 1
        k += 1
        if _initialises(s):      # the generator may draw a window the repo's initialisation rejects
            scs.append(s)
    return scs


def whole_runs_with_checks(scs):
    """record every root_development / germination call of whole runs (-> correspondence) and check
    C05 on the real outputs of root_development"""
    finds = collections.Counter()
    examples = {}
    state = {}
    encs = {"root_development": R, "germination": G}
    reg = proto.ProfRegistry()
    pairs = collections.defaultdict(list)

    def obs(name, before, res, after):
        pairs[name].append(encs[name].encode(reg, before, res, after))
        if name != "root_development" or isinstance(res, Exception):
            return
        crop, prof, dap, zroot, *_rest = before
        gs, wt, zgw = before[16], before[17], before[14]
        zgw = -999 if zgw is None else zgw
        z, _ = res
        if not gs:
            if z != 0:
                finds["offseason-nonzero"] += 1
            return
        zinit = crop.Zmin if dap == 1 else zroot
        capped = wt == 1 and zgw > 0 and z == max(zgw, crop.Zmin) and z < zinit
        if z < zinit - 1e-12 and not capped:
            finds["shrinks"] += 1
            examples.setdefault("shrinks", (state.get("id"), dap, zinit, z))
        if capped:
            finds["(shrinks-by-water-table-cap: allowed)"] += 1
        if z < crop.Zmin - 1e-12:
            finds["below-Zmin"] += 1
        if z > crop.Zmax + 1e-12:
            finds["above-Zmax"] += 1
            examples.setdefault("above-Zmax", (state.get("id"), dap, z, crop.Zmax))
        if wt == 1 and zgw > 0 and zgw >= crop.Zmin and z > zgw + 1e-12:
            finds["below-water-table"] += 1
    traces = []
    with rec.Recorder(obs, names=list(encs)):
        for s in scs:
            state["id"] = s["id"]
            traces.append(rec.run_scenario(s, scen_mod.build_model))
    stats, outs = {}, {}
    for name, L in encs.items():
        stats[name], outs[name] = run_pairs(L, reg, pairs[name])
    return stats, outs, traces, finds, examples


if __name__ == "__main__":
    for L in (R, G):
        st, br = fuzz_with_branches(L, N_FUZZ, seed=7)
        d = st.as_dict()
        print(f"[{L.NAME}] direct fuzz:", d)
        print("  bit-equal share: %.5f" % share(d))
        print("  branches:", dict(sorted(br.items())))
        if st.bad:
            with rec.SharedLibm():
                st2, _ = fuzz_with_branches(L, N_FUZZ, seed=7)
            print("  with one shared libm (same inputs): disagreements = %d  => ulp ties: %d, unexplained: %d"
                  % (st2.bad, st.bad - st2.bad, st2.bad))
    st, finds, ex, steps = season_walks(150, seed=11)
    d = st.as_dict()
    print("[root_development] season walks: steps=%d" % steps, d)
    print("  bit-equal share: %.5f" % share(d))
    print("  C05 findings on the real function along the walks:", dict(finds), ex)
    if st.bad:
        with rec.SharedLibm():
            st2, _, _, _ = season_walks(150, seed=11)
        print("  with one shared libm: disagreements = %d" % st2.bad)
    scs = scenarios(1, N_SCEN)
    stats, outs, traces, finds, ex = whole_runs_with_checks(scs)
    for name, st in stats.items():
        d = st.as_dict()
        print(f"[{name}] whole runs:", d)
        print("  bit-equal share: %.5f" % share(d))
        if st.bad:
            with rec.SharedLibm():
                st2, _, _, _, _ = whole_runs_with_checks(scs)
            print("  with one shared libm: disagreements = %d" % st2[name].bad)
    br = collections.Counter()
    for o in outs["root_development"]:
        g = R.ghosts(o)
        if g is None:
            br["raise:" + o] += 1
            continue
        for k, v in RD_BITS.items():
            if g[4] & k:
                br[v] += 1
    print("  root_development branches in the whole runs:", dict(sorted(br.items())))
    brg = collections.Counter(G_BR[G.ghosts(o)[1]] if not o.startswith("E") else o for o in outs["germination"])
    print("  germination branches in the whole runs:", dict(sorted(brg.items())))
    print([(t.scen["id"], t.scen["crop"]["name"], t.scen["soil"]["type"], bool(t.scen["gw"]), t.n_steps, t.error)
           for t in traces])
    print("C05 findings on the real function in the whole runs:", dict(finds), ex)
