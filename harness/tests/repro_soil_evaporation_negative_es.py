"""Regression test for the (fixed) stage-2 defect of `soil_evaporation`: negative actual soil
evaporation with water *added* to the compartment below the evaporation layer.

Before repo fix 9c2fed8 the stage-2 extraction loop
`while (ToExtractStg2 > 0) and (comp < comp_sto): comp = comp + 1 …` visited index `comp_sto`, one
compartment beyond those counted in the evaporation layer, where `factor < 0`, and — unlike stage 1 —
did not clamp `AvW = (W - Wdry)*factor` at 0: `EsAct += AvW` decreased, `W -= AvW` increased.  With a
coarse sand (texture 92 % sand, 3 % clay; all evaporation parameters at their defaults, `rew = 9`)
the public API produced `Es = -1.598 mm` on day 47 of this run.  The fix adds `if AvW < 0: AvW = 0`.

This script exits 0 iff the defect is gone: `Es >= 0` on every day, no `soil_evaporation` call
returns `EsAct < 0` or raises a water content, the Lean model agrees with every call and never
reports its ghost `negTake` (Lean: `soilEvap_negTake_false`, `soilEvap_esAct_nonneg`, `soilEvap_inv`).

Run: /venv/bin/python -W ignore repro_soil_evaporation_negative_es.py"""
import os, sys, warnings
warnings.filterwarnings("ignore")
sys.path.insert(0, os.path.join(os.path.dirname(os.path.abspath(__file__)), ".."))
import numpy as np
from aquacrop import AquaCropModel, Soil, Crop, InitialWaterContent
from aquacrop.utils import prepare_weather, get_filepath
from aqv import rec, proto, fuzzlib
from aqv.lines import soil_evaporation as SE


def soils():
    s1 = Soil("custom")                       # all evaporation parameters at their defaults
    s1.add_layer_from_texture(2.0, 92, 3, 0.5, 100)   # sand 92 %, clay 3 %, OM 0.5 %
    s2 = Soil("custom")
    s2.add_layer(2.0, 0.03, 0.07, 0.36, 3000, 100)
    return [("texture sand=92 clay=3", s1, "FC"), ("layer wp=.03 fc=.07", s2, "WP")]


def main():
    w = prepare_weather(get_filepath("tunis_climate.txt"))
    ok = True
    for label, soil, iwc in soils():
        reg = proto.ProfRegistry()
        pairs, raw = [], []

        def obs(name, before, res, after):
            pairs.append(SE.encode(reg, before, res, after))
            raw.append((before, res))
        with rec.Recorder(obs, names=[SE.NAME]):
            m = AquaCropModel("1988/05/01", "1989/09/30", w, soil, Crop("Wheat", planting_date="11/15"),
                              InitialWaterContent(value=[iwc]), off_season=True)
            m.run_model(till_termination=True)
        es = m._outputs.water_flux["Es"].values
        st = fuzzlib.compare_batch(SE, reg, pairs)
        out = proto.run_driver(reg.lines + [l for l, _ in pairs])[len(reg.lines):]
        neg = [i for i, o in enumerate(out) if (SE.ghosts(o) or (False, 0))[0]]
        bad_calls = []
        for i, (b, r) in enumerate(raw):
            if isinstance(r, Exception):
                bad_calls.append(i)
                continue
            th0, th1 = np.array(b[22]), np.array(r[1])
            if r[7] < 0 or np.any(th1 > th0 + 1e-12) or np.any(th1 < b[3].th_dry - 1e-12):
                bad_calls.append(i)
        print(f"{label}: min Es = {es.min()}, days with Es < 0: {int((es < 0).sum())}, "
              f"calls {st.calls}, model disagreements {st.bad}, negTake calls {neg}, "
              f"calls with EsAct<0 / th raised / th<th_dry / exception: {bad_calls}")
        ok = ok and not (es < 0).any() and not neg and not bad_calls and st.bad == 0
    print("DEFECT GONE" if ok else "DEFECT STILL PRESENT")
    return 0 if ok else 1


if __name__ == "__main__":
    sys.exit(main())
