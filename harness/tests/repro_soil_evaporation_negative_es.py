"""Reproduction of the stage-2 guard failure of `soil_evaporation` through the public API
(negative actual soil evaporation; water is *added* to the compartment below the evaporation layer).

The stage-2 extraction loop `while (ToExtractStg2 > 0) and (comp < comp_sto): comp = comp + 1 …`
visits index `comp_sto`, one compartment beyond those counted in the evaporation layer, where
`factor < 0`; stage 2 (unlike stage 1) does not clamp `AvW` at 0, so `AvW = (W - Wdry)*factor < 0`
is "extracted": `EsAct += AvW` (decreases), `W -= AvW` (increases).  It happens when the demand of a
sub-step exceeds the water above air-dryness in the layer — e.g. a coarse sand with the default
`rew = 9` mm, for which `Wupper - Wlower = Wevap_Fc - REW - Wevap_Dry` is negative/tiny and `Kr`
jumps to 1 while the layer is almost air dry.

Run: /venv/bin/python -W ignore repro_soil_evaporation_negative_es.py
Lean counterpart: ghost output `negTake` of `Aqua.soilEvaporation`; lemmas `soilEvap_inv_of_guard`,
`soilEvap_esAct_nonneg_of_guard` need `negTake = false`."""
import os, sys, warnings
warnings.filterwarnings("ignore")
sys.path.insert(0, os.path.join(os.path.dirname(os.path.abspath(__file__)), ".."))
import numpy as np
from aquacrop import AquaCropModel, Soil, Crop, InitialWaterContent
from aquacrop.utils import prepare_weather, get_filepath
from aqv import rec, proto, fuzzlib
from aqv.lines import soil_evaporation as SE


def main():
    w = prepare_weather(get_filepath("tunis_climate.txt"))
    soil = Soil("custom")                       # all evaporation parameters at their defaults
    soil.add_layer_from_texture(2.0, 92, 3, 0.5, 100)   # sand 92 %, clay 3 %, OM 0.5 %
    reg = proto.ProfRegistry()
    pairs, raw = [], []

    def obs(name, before, res, after):
        pairs.append(SE.encode(reg, before, res, after))
        raw.append((before, res))
    with rec.Recorder(obs, names=[SE.NAME]):
        m = AquaCropModel("1988/05/01", "1989/09/30", w, soil, Crop("Wheat", planting_date="11/15"),
                          InitialWaterContent(value=["FC"]), off_season=True)
        m.run_model(till_termination=True)
    es = m._outputs.water_flux["Es"].values
    print("min Es in the output table:", es.min(), " days with Es < 0:", int((es < 0).sum()))
    st = fuzzlib.compare_batch(SE, reg, pairs)
    print(st.as_dict())
    out = proto.run_driver(reg.lines + [l for l, _ in pairs])[len(reg.lines):]
    neg = [i for i, o in enumerate(out) if (SE.ghosts(o) or (False, 0))[0]]
    print("calls where the model reports negTake:", neg)
    for i in neg[:1]:
        b, r = raw[i]
        print("  th before:", np.round(b[22][:4], 5), " th after:", np.round(r[1][:4], 5),
              " th_dry/th_s:", b[3].th_dry[0], b[3].th_s[0])
        print("  EsAct:", r[7], " EsPot:", r[8], " EvapZ:", b[20], "->", r[6])
    ok = (es < 0).any() and len(neg) > 0 and st.bad == 0
    print("REPRODUCED" if ok else "NOT REPRODUCED")
    return 0 if ok else 1


if __name__ == "__main__":
    sys.exit(main())
