"""Correspondence of the full day: every recorded `solution_single_time_step` call of whole runs
is replayed through the Lean model `fullDay` (handler `full_day`) from the state before the day,
the parameters and the weather of the day only; the reply is compared with the three table rows the
call wrote, the complete state object after the call and the summary row.

Scenarios: `aqv.scen.gen_scenarios(seed, n)` (stratified: every irrigation method, bunds, mulches,
water tables, custom/layered soils, calendar and GDD crops, off-season on/off) and
`aqv.ties.sweep_scenario` (short crops, many seasons, odd windows).  Each set is replayed twice:
with the implementation running on the C library's exp/log/pow (`rec.SharedLibm`, which is what
Lean's `Float` uses) and with numpy's own.

Run with:  /venv/bin/python -W ignore corr_full_day.py [n_gen] [n_sweep] [seed]"""
import os, sys, collections, contextlib
sys.path.insert(0, os.path.join(os.path.dirname(os.path.abspath(__file__)), ".."))
import numpy as np
from aqv import fuzzlib, proto, rec, scen, ties
from aqv.lines import full_day as L
from aqv.lines import canopy_cover as CC

N_GEN = int(sys.argv[1]) if len(sys.argv) > 1 else 24
N_SWEEP = int(sys.argv[2]) if len(sys.argv) > 2 else 12
SEED = int(sys.argv[3]) if len(sys.argv) > 3 else 11


def replay(scs, shared):
    reg = proto.ProfRegistry()
    pairs, resets, skipped = [], [], 0

    def obs(name, before, res, after):
        nonlocal skipped
        if name == L.RESET_NAME:
            r = L.encode_reset(reg, before, res, after)
            if r is not None:
                resets.append(r)
            return
        r = L.encode_day(reg, before, res, after)
        if r is None:
            skipped += 1
        else:
            pairs.append(r)

    traces = []
    with (rec.SharedLibm() if shared else contextlib.nullcontext()):
        with rec.Recorder(obs, names=[L.NAME, L.RESET_NAME]):
            for s in scs:
                traces.append(rec.run_scenario(s, scen.build_model))
    st = fuzzlib.compare_batch(L, reg, pairs)
    tot = st.bit_tokens + st.tol_tokens
    print(f"[{'shared libm' if shared else 'numpy libm '}] days {st.calls} disagreements {st.bad} "
          f"bit-equal tokens {st.bit_tokens} tol-equal {st.tol_tokens} "
          f"bit share {st.bit_tokens / tot if tot else None:.6f} error days {st.errors} "
          f"skipped(glue raised) {skipped}")
    class _R:           # season-start resets against `resetStateCore`
        NAME = L.RESET_NAME
        trim_reply = staticmethod(lambda x: x)
    sr = fuzzlib.compare_batch(_R, reg, resets)
    print(f"    season-start resets {sr.calls} disagreements {sr.bad} bit-equal tokens {sr.bit_tokens} "
          f"tol-equal {sr.tol_tokens}")
    st.bad += sr.bad
    for fb in sr.first_bad[:2]:
        print("  reset: first bad token", fb["index"], "|", fb["expected"].split()[fb["index"]] if fb["index"] >= 0 else None,
              fb["got"].split()[fb["index"]] if 0 <= fb["index"] < len(fb["got"].split()) else fb["got"][:80])
    for fb in st.first_bad[:3]:
        e, g = fb["expected"].split(), L.trim_reply(fb["got"]).split()
        i = fb["index"]
        print("  first bad token", i, "expected", e[i] if 0 <= i < len(e) else None,
              "got", g[i] if 0 <= i < len(g) else None, "| len", len(e), len(g),
              "| got head", fb["got"][:60])
    return st, pairs, reg, traces


def activity(pairs, reg):
    cnt = collections.Counter()
    out = proto.run_driver(reg.lines + [l for l, _ in pairs])[len(reg.lines):]
    for (l, e), o in zip(pairs, out):
        if o.startswith("E"):
            cnt[o] += 1
            continue
        endc, rdbr, gebr, ccbr = L.ghosts(o)
        cnt["ok"] += 1
        cnt["in-season"] += gebr != 0
        cnt["germination delayed"] += gebr == 3
        cnt["germinates today"] += gebr == 2
        cnt["roots: layer limitation"] += bool(rdbr & 1)
        cnt["roots: dry front"] += bool(rdbr & 48)
        cnt["roots: water-table cap"] += bool(rdbr & 512)
        for nm in CC.branch_names(ccbr):
            if nm in ("act:crop-dies", "sen:early-sen", "sen:early-sen-late", "sen:rewatering",
                      "act:late-decline", "act:stress-growth", "act:protected-seed"):
                cnt["cc " + nm] += 1
        cnt["end-of-season condition"] += endc
        cnt["summary row written"] += o.split()[-5] != "i0"
    return dict(cnt)


def main():
    rng = np.random.default_rng(SEED)
    scs = scen.gen_scenarios(SEED, N_GEN) + [ties.sweep_scenario(rng, i) for i in range(N_SWEEP)]
    print("scenarios", len(scs))
    bad = ties_ = 0
    for shared in (True, False):
        st, pairs, reg, traces = replay(scs, shared)
        if shared:
            bad += st.bad
            print("activity:", activity(pairs, reg))
            print("runs:", [(t.scen["id"], t.n_steps, t.error[0] if t.error else None) for t in traces])
        else:
            ties_ += st.bad
    # a disagreement that occurs only with numpy's own exp/log/pow and not when the implementation
    # runs on the C library Lean's Float uses is an ulp tie (DESIGN.md 13.2, step 3)
    print("DISAGREEMENTS under shared libm", bad, "| only with numpy's libm (ulp ties)", ties_)
    return bad


if __name__ == "__main__":
    sys.exit(1 if main() else 0)
