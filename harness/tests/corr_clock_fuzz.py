"""Direct fuzz of the clock state machine: real control code, stubbed biophysics, arbitrary clock
configurations and oracles.  /venv/bin/python -W ignore corr_clock_fuzz.py [n] [seed]"""
import os, sys, collections, time
sys.path.insert(0, os.path.join(os.path.dirname(os.path.abspath(__file__)), ".."))
import warnings; warnings.filterwarnings("ignore")
import numpy as np
from aqv import proto
from aqv.lines import clock as L

N = int(sys.argv[1]) if len(sys.argv) > 1 else 6000
SEED = int(sys.argv[2]) if len(sys.argv) > 2 else 11
rng = np.random.default_rng(SEED)
pairs, selfbad, kinds = [], [], collections.Counter()
unmapped = []
br = collections.Counter()
t0 = time.time()
with L.StubEngine() as eng:
    for i in range(N):
        cfg, oracle = L.rand_cfg(rng)
        mode = i % 4
        if mode in (0, 1):
            o = eng.run(cfg, oracle)                      # till_termination
        elif mode == 2:
            o = eng.run(cfg, oracle, L.rand_calls(rng, cfg["n"]))          # step-wise, stop at finish
        else:
            ks = L.rand_calls(rng, cfg["n"])
            if rng.random() < 0.1:
                ks[int(rng.integers(len(ks)))] = 0        # run_model(num_steps=0)
            o = eng.run(cfg, oracle, ks, stop_when_finished=False)         # overshooting calls
        if o.raw_error is not None and o.error is None:
            unmapped.append((cfg, repr(o.raw_error)))
            continue
        pairs.append(L.encode_obs(o))
        kinds[("till" if o.calls is None else "calls") + ":" + (o.error or "ok")] += 1
        L.branches(o, br)
        sb = L.self_check(o) if o.error is None else []
        if sb:
            selfbad.append((cfg, sb))
    # C09: *all* compositions of the run into run_model(num_steps=k) calls, short windows
    ncomp = 0
    comp_bad = 0
    for j in range(12):
        cfg, oracle = L.rand_cfg(rng, valid=True)
        cfg["n"] = min(cfg["n"], int(rng.integers(3, 10)))
        cfg["planting"] = [p for p in cfg["planting"] if p + 2 <= cfg["n"]] or [0]
        cfg["harvest"] = cfg["harvest"][:len(cfg["planting"])] or [3]
        cfg["season0"] = 0 if cfg["planting"][0] == 0 else -1
        ref = eng.run(cfg, oracle)
        K = len(ref.sol)
        ref_exp = L.encode_obs(ref)[1]
        for mask in range(1 << max(0, K - 1)):
            ks, run = [], 1
            for b in range(K - 1):
                if mask >> b & 1:
                    ks.append(run); run = 1
                else:
                    run += 1
            ks.append(run)
            o = eng.run(cfg, oracle, ks)
            line, exp = L.encode_obs(o)
            pairs.append((line, exp))
            ncomp += 1
            if exp != ref_exp or o.calls != ks:
                comp_bad += 1
    print("all compositions: %d call sequences, %d differ from the uninterrupted run" % (ncomp, comp_bad))
print("python side: %.1fs, %d runs" % (time.time() - t0, len(pairs)))
out = proto.run_driver([l for l, _ in pairs])
bad = 0; nb = 0
first = []
for (l, e), g in zip(pairs, out):
    ok, b, t, i = proto.compare(e, g)
    nb += b
    if not ok:
        bad += 1
        if len(first) < 5:
            first.append((i, l, e, g))
print(dict(calls=len(pairs), disagreements=bad, bit_equal_tokens=nb, self_check_failures=len(selfbad),
           unmapped_errors=len(unmapped)))
print(dict(kinds))
print('branches', dict(sorted(br.items())))
for f in first: print("BAD", f)
for f in selfbad[:5]: print("SELF", f)
for f in unmapped[:5]: print("UNMAPPED", f)
