"""Correspondence of `Model/Yield.lean` (biomass accumulation; yield steps 18-19) with the real code.
Run with:  /venv/bin/python -W ignore corr_biomass.py [n_fuzz] [n_scen]"""
import sys; sys.path.insert(0, '/verif/harness')
import json
import numpy as np
from aqv import fuzzlib, proto, rec, scen as scen_mod
from aqv.lines import biomass_accumulation as BA

N = int(sys.argv[1]) if len(sys.argv) > 1 else 6000
NS = int(sys.argv[2]) if len(sys.argv) > 2 else 10
bad = 0


def show(tag, st):
    global bad
    d = st.as_dict() if hasattr(st, "as_dict") else st
    tot = d["bit_equal_tokens"] + d["tol_equal_tokens"]
    d["bit_share"] = round(d["bit_equal_tokens"] / tot, 6) if tot else None
    bad += d["disagreements"]
    print(tag, json.dumps(d, default=str))


# 1. direct fuzz of biomass_accumulation
with np.errstate(all="ignore"):
    show("fuzz", fuzzlib.direct_fuzz(BA, N, seed=11))

# 2. whole runs through the recorder: every biomass_accumulation call; and steps 18-19 of the day
#    (inline code of run_single_timestep.py) observed through the day's row of the crop-growth
#    output table, which the step writes after them: columns 8.. = biomass, biomass_ns,
#    harvest_index, harvest_index_adj, DryYield, FreshYield, YieldPot
reg = proto.ProfRegistry()
pairs = []
calls = []      # (growing_season, crop.YldWC) of every recorded call


def obs(name, before, res, after):
    if name == BA.NAME:
        pairs.append(BA.encode(reg, before, res, after))
        calls.append((bool(before[-1] == True), before[0].YldWC))  # noqa: E712


def day_end(model, day):
    g = model._outputs.crop_growth
    g = g.values if hasattr(g, "values") else g
    day["growth_row"] = np.array(g[day["t"]], dtype=float)


class _Y:
    NAME = "yield_step"
    trim_reply = staticmethod(lambda r: r)


scs = scen_mod.gen_scenarios(7, NS)
traces = []
ypairs = []
with rec.Recorder(obs, names=[BA.NAME]):
    for s in scs:
        n0 = len(calls)
        tr = rec.run_scenario(s, scen_mod.build_model, day_end=day_end)
        traces.append(tr)
        # exactly one biomass_accumulation call per completed step
        for k, day in enumerate(tr.days):
            gs, yldwc = calls[n0 + k]
            r = day["growth_row"]
            line = " ".join(["yield_step", proto.f2b(r[9]), proto.f2b(r[8]), proto.f2b(r[10]),
                             proto.f2b(r[11]), proto.f2b(yldwc), proto.b(gs)])
            ypairs.append((line, proto.fs([r[14], r[12], r[13]])))
show("runs", fuzzlib.compare_batch(BA, reg, pairs))
show("runs", fuzzlib.compare_batch(_Y, proto.ProfRegistry(), ypairs))
print("runs", [(t.scen["id"], t.scen["crop"]["name"], t.n_steps, t.error) for t in traces])
print("growing-season share of recorded calls", round(sum(c[0] for c in calls) / max(1, len(calls)), 3))

# 3. direct self-check of yield_step on random values (same expressions evaluated in Python)
rng = np.random.default_rng(3)
sp = []
for _ in range(2000):
    bns, bio = float(rng.uniform(0, 3000)), float(rng.uniform(0, 3000))
    hi, hiadj, yldwc = float(rng.uniform(0, 0.9)), float(rng.uniform(0, 0.9)), float(rng.uniform(5, 95))
    gs = bool(rng.random() < 0.8)
    yp = (bns / 100) * hi
    dy = (bio / 100) * hiadj if gs else 0
    fy = dy / (yldwc / 100) if gs else 0
    sp.append((" ".join(["yield_step", proto.fs([bns, bio, hi, hiadj, yldwc]), proto.b(gs)]),
               proto.fs([yp, dy, fy])))
show("self", fuzzlib.compare_batch(_Y, proto.ProfRegistry(), sp))

print("TOTAL DISAGREEMENTS", bad)

# 4. (informative, not counted) partiality the total model does not have: Python floats and a zero
#    divisor raise ZeroDivisionError; numpy scalars give inf/nan like the model
from types import SimpleNamespace
crop = SimpleNamespace(CropType=3, Determinant=0, HIstartCD=60, YldFormCD=50, WP=17.0, WPy=100.0, fCO2=1.0)
for et0 in (0.0, np.float64(0.0)):
    args = (crop, 80, 0, 0.3, 0.0, 100.0, 120.0, 1.0, 2.0, et0, True)
    try:
        with np.errstate(all="ignore"):
            res = BA.FUNC(*args)
    except Exception as e:  # noqa: BLE001
        res = e
    line, exp = BA.encode(None, args, res)
    got = proto.run_driver([line])[0]
    print("et0 = 0 as", type(et0).__name__, "| python:", repr(res), "| model:",
          [proto.b2f(t) for t in got.split()])
