"""Correspondence of `soil_evaporation` and `evap_layer_water_content` with the Lean model:
direct fuzz and whole runs.  Run with: /venv/bin/python -W ignore corr_soil_evaporation.py [n_fuzz] [n_scen]"""
import os, sys, collections
sys.path.insert(0, os.path.join(os.path.dirname(os.path.abspath(__file__)), ".."))
import numpy as np
from aqv import fuzzlib, proto, rec
from aqv.lines import soil_evaporation as SE, evap_layer_water_content as EL

NF = int(sys.argv[1]) if len(sys.argv) > 1 else 6000
NS = int(sys.argv[2]) if len(sys.argv) > 2 else 10


def branch_stats(L, reg, pairs):
    """distribution of the model's branch-mask ghost over a batch of request lines"""
    out = proto.run_driver(reg.lines + [l for l, _ in pairs])[len(reg.lines):]
    cnt = collections.Counter()
    neg = []
    for (l, e), o in zip(pairs, out):
        g = L.ghosts(o)
        if g is None:
            cnt[o.split()[0]] += 1
            continue
        for bit, nm in L.BRANCH_BITS.items():
            if g[1] & bit:
                cnt[nm] += 1
        if g[0]:
            neg.append(l)
    return dict(cnt), neg


def fuzz_pairs(L, n, seed):
    rng = np.random.default_rng(seed)
    reg = proto.ProfRegistry()
    pairs = []
    for _ in range(n):
        args = L.fuzz(rng)
        before = tuple(rec.snap(a) for a in args)
        try:
            res = L.FUNC(*args)
        except Exception as e:  # noqa: BLE001
            res = e
        pairs.append(L.encode(reg, before, res, args))
    return reg, pairs


if __name__ == "__main__":
    print(fuzzlib.direct_fuzz(EL, NF, seed=5).as_dict())
    reg, pairs = fuzz_pairs(SE, NF, seed=7)
    print(fuzzlib.compare_batch(SE, reg, pairs).as_dict())
    bs, neg = branch_stats(SE, reg, pairs)
    print("fuzz branches:", bs)
    print("fuzz calls with negTake:", len(neg))
    NEG_FUZZ = len(neg)

    # whole runs
    encs = {L.NAME: L for L in (SE, EL)}
    reg = proto.ProfRegistry()
    pairs = collections.defaultdict(list)

    def obs(name, before, res, after):
        if name in encs:
            pairs[name].append(encs[name].encode(reg, before, res, after))
    from aqv import scen as scen_mod
    scs = scen_mod.gen_scenarios(11, NS)
    # + a coarse custom sand with default evaporation parameters: before repo fix 9c2fed8 it reached
    # negative EsAct (ghost `negTake`) in a whole run — see repro_soil_evaporation_negative_es.py
    scs.append(dict(id="coarse_sand", start="1988/05/01", end="1989/09/30",
                    weather={"kind": "file", "name": "tunis_climate.txt"},
                    crop={"name": "Wheat", "planting": "11/15", "overrides": {}},
                    soil={"type": "custom", "layers": [[2.0, 0.03, 0.07, 0.36, 3000, 100]], "kwargs": {}},
                    iwc={"wc_type": "Prop", "method": "Layer", "depth_layer": [1], "value": ["WP"]},
                    irr=None, fm=None, ffm=None, gw=None, co2=None, off_season=True))
    traces = []
    with rec.Recorder(obs, names=list(encs)):
        for s in scs:
            traces.append(rec.run_scenario(s, scen_mod.build_model))
    for name in encs:
        print(fuzzlib.compare_batch(encs[name], reg, pairs[name]).as_dict())
    bs, neg = branch_stats(SE, reg, pairs[SE.NAME])
    print("whole-run branches:", bs)
    print("whole-run calls with negTake:", len(neg))
    NEG_WHOLE = len(neg)
    print([(t.scen["id"], t.n_steps, t.error) for t in traces])
    assert NEG_FUZZ == 0 and NEG_WHOLE == 0, "negTake must not occur (Lean: soilEvap_negTake_false)"
