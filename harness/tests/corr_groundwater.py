"""Correspondence of check_groundwater_table, capillary_rise, groundwater_inflow, pre_irrigation:
direct fuzz and whole runs (scenarios with a water table and/or net irrigation).
Run with:  /venv/bin/python -W ignore corr_groundwater.py [n_fuzz] [n_scen]"""
import os, sys, collections
sys.path.insert(0, os.path.join(os.path.dirname(os.path.abspath(__file__)), ".."))
import numpy as np
from aqv import fuzzlib, proto, rec, scen
from aqv.lines import check_groundwater_table, capillary_rise, groundwater_inflow, pre_irrigation

ENCS = (check_groundwater_table, capillary_rise, groundwater_inflow, pre_irrigation)
N_FUZZ = int(sys.argv[1]) if len(sys.argv) > 1 else 6000
N_SCEN = int(sys.argv[2]) if len(sys.argv) > 2 else 12


def share(st):
    tot = st.bit_tokens + st.tol_tokens
    return round(st.bit_tokens / tot, 6) if tot else None


def cr_branches(n, seed):
    """branch statistics of the capillary-rise fuzz from the model's ghost outputs"""
    rng = np.random.default_rng(seed)
    reg = proto.ProfRegistry()
    lines = []
    for _ in range(n):
        args = capillary_rise.fuzz(rng)
        before = tuple(rec.snap(a) for a in args)
        lines.append(capillary_rise.encode(reg, before, Exception(), None)[0])
    out = proto.run_driver(reg.lines + lines)[len(reg.lines):]
    c = collections.Counter()
    worst = 0.0
    for o in out:
        if o.startswith("E"):
            c[o] += 1
            continue
        tot, added, dzfill, it, cap, fill = capillary_rise.ghosts(o)
        c["ok"] += 1
        c["no-iteration"] += it == 0
        c["iterations"] += it
        c["capped (dth>=dthMax)"] += cap
        c["filled (dth<dthMax)"] += fill
        c["iter-no-room"] += it - cap - fill
        c["crTot!=crAdded"] += tot != added
        if dzfill > 0:
            worst = max(worst, abs(tot - added) / (dzfill * 1000 / 20000))
    c["max |crTot-crAdded| / bound"] = worst
    return dict(c)


if __name__ == "__main__":
    bad = 0
    for L in ENCS:
        st = fuzzlib.direct_fuzz(L, N_FUZZ, seed=11)
        bad += st.bad
        print("fuzz", st.as_dict(), "bit_share", share(st))
    print("capillary_rise branches:", cr_branches(N_FUZZ, 11))
    rng = np.random.default_rng(5)
    strata = [dict(gw=True), dict(irr_method=4), dict(gw=True, irr_method=4),
              dict(gw=True, soil_kind="custom"), dict(irr_method=4, n_seasons=2),
              dict(gw=True, irr_method=4, soil_kind="builtin", soil="SandyLoam")]
    scs = [scen.gen_scenario(rng, i, dict(strata[i % len(strata)])) for i in range(N_SCEN)]
    active = collections.Counter()
    for L in ENCS:      # count the calls in which the process did something (last token > 0)
        def counting(reg, before, result, after=None, _e=L.encode, _n=L.NAME):
            line, exp = _e(reg, before, result, after)
            t = exp.split()
            if exp.startswith("E"):
                active[_n + ":error"] += 1
            elif _n == "check_groundwater_table":
                active[_n + ":table"] += t[-3] == "i1"
                active[_n + ":wt_in_soil"] += t[-2] == "i1"
                k = (len(t) - 3)
                active[_n + ":fc_adjusted"] += line.split()[2 + k:2 + 2 * k] != t[:k] or any(
                    a != b for a, b in zip(t[:k], proto.fs(before[0].th_fc).split()))
            else:
                active[_n + ":nonzero"] += proto.b2f(t[-1]) > 0
            return line, exp
        L.encode = counting
    stats, traces = fuzzlib.whole_runs(list(ENCS), N_SCEN, seed=5, scenarios=scs)
    print("whole-run activity:", dict(active))
    for s in stats.values():
        bad += s.bad
        print("runs", s.as_dict(), "bit_share", share(s))
    print([(t.scen["id"], t.n_steps, t.error) for t in traces])
    print("TOTAL DISAGREEMENTS", bad)
