#!/venv/bin/python
"""Entry point of every property check:  ./check <Cnn> [--tier quick|thorough] [--replay FILE]

Decides property <Cnn> for /repo's current working tree (DESIGN.md §2, §5):
  1. Lean: rebuild the property's theorems and the driver, audit axioms, grep forbidden tokens;
  2. tie: model vs implementation on recorded whole-run calls and direct function-level fuzz;
  3. oracles: the property evaluated directly on the implementation's traces, plus the
     property-specific differential runs;
  4. verdict, evidence file, replay file on violation.
Exit 0 = held on everything explored; 1 = violation (VIOLATION line); 2 = infrastructure failure.
"""
import argparse
import hashlib
import json
import os
import sys
import time
import traceback

HERE = os.path.dirname(os.path.abspath(__file__))
sys.path.insert(0, HERE)
# The implementation under test is /repo's working tree (the /venv install is an editable install
# of /repo).  AQV_REPO redirects to a scratch worktree (used only to try seeded changes without
# touching /repo); child interpreters inherit it through PYTHONPATH.
_REPO = os.environ.get("AQV_REPO", "/repo")
sys.path.insert(0, _REPO)
os.environ["PYTHONPATH"] = _REPO + os.pathsep + os.environ.get("PYTHONPATH", "")

import warnings  # noqa: E402
warnings.filterwarnings("ignore")

from aqv import proto, leanbuild, findings, evidence  # noqa: E402

VERIF = proto.VERIF
REPLAYS = os.path.join(VERIF, "replays")


def rel(p):
    return os.path.relpath(p, VERIF)


def write_replay(pid, doc):
    os.makedirs(REPLAYS, exist_ok=True)
    blob = json.dumps(evidence._clean(doc), indent=1, sort_keys=True, default=str)
    h = hashlib.sha256(blob.encode()).hexdigest()[:12]
    path = os.path.join(REPLAYS, f"{pid}-{h}.json")
    with open(path, "w") as fh:
        fh.write(blob)
    return path


def main():
    ap = argparse.ArgumentParser()
    ap.add_argument("pid")
    ap.add_argument("--tier", default=os.environ.get("VERIF_TIER", "quick"), choices=["quick", "thorough"])
    ap.add_argument("--replay", default=None)
    args = ap.parse_args()
    pid = args.pid.upper()
    seed = int(os.environ.get("VERIF_SEED", "1") or 1)
    t0 = time.time()
    from aqv import engine
    try:
        if args.replay:
            return engine.replay(pid, args.replay)
        return engine.run_check(pid, args.tier, seed, t0)
    except engine.Infra as e:
        print(f"INFRASTRUCTURE-FAILURE property={pid}: {e}")
        return 2
    except Exception:  # noqa: BLE001
        traceback.print_exc()
        print(f"INFRASTRUCTURE-FAILURE property={pid}: unexpected exception in the check itself")
        return 2


if __name__ == "__main__":
    sys.exit(main())
